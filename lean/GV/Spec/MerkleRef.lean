/-
  C35 — the reference construction of the Byron transaction merkle tree,
  written independently of the Go code, after cardano-ledger
  `Cardano.Chain.Common.Merkle`:

    mkMerkleTree ls = go (length ls) ls
      go _   [x] = mkLeaf x
      go len xs  = mkBranch (go i l) (go (len - i) r)
        where i = powerOfTwo len ; (l, r) = splitAt i xs
    powerOfTwo n  -- "the largest power of two such that it's smaller than n"
      | n .&. (n - 1) == 0 = n `shiftR` 1
      | otherwise          = go n  where go w = if w .&. (w-1) == 0 then w else go (w .&. (w-1))
    mkLeaf a       = hash (0x00 <> a)
    mkBranch l r   = hash (0x01 <> root l <> root r)
    emptyHash      = hash ""

  The tree is built as a datatype first (its shape is observable) and hashed
  afterwards.  Core Lean only: the driver evaluates it for the `spec` column.
-/
namespace GV.Spec.MerkleRef

abbrev RBytes := List UInt8

/-- `powerOfTwo`: the largest power of two strictly below `n` (n ≥ 2):
    2^⌊log2 (n-1)⌋.  (For a power of two this is n/2, otherwise the highest set
    bit of n, which is what the reference's bit-clearing loop computes.) -/
def powerOfTwo (n : Nat) : Nat := 2 ^ Nat.log2 (n - 1)

theorem powerOfTwo_lt (n : Nat) (h : 2 ≤ n) : powerOfTwo n < n := by
  have := Nat.log2_self_le (n := n - 1) (by omega)
  unfold powerOfTwo; omega

theorem powerOfTwo_pos (n : Nat) : 0 < powerOfTwo n := Nat.pow_pos (by decide)

theorem le_two_powerOfTwo (n : Nat) : n ≤ 2 * powerOfTwo n := by
  have := Nat.lt_log2_self (n := n - 1)
  unfold powerOfTwo
  rw [Nat.pow_succ] at this
  omega

inductive Tree where
  | leaf (x : RBytes)
  | branch (l r : Tree)
deriving Repr, DecidableEq

/-- `mkMerkleTree` on a non-empty list (on `[]` a dummy leaf, never used). -/
def mkTree (items : List RBytes) : Tree :=
  match items with
  | [] => .leaf []
  | [x] => .leaf x
  | x :: y :: rest =>
    let i := powerOfTwo (x :: y :: rest).length
    .branch (mkTree ((x :: y :: rest).take i)) (mkTree ((x :: y :: rest).drop i))
termination_by items.length
decreasing_by
  all_goals
    have h1 := powerOfTwo_lt (x :: y :: rest).length (by simp)
    have h2 := powerOfTwo_pos (x :: y :: rest).length
    simp only [List.length_take, List.length_drop]
    omega

/-- root hash of a tree: leaves tagged 0, branches tagged 1 -/
def Tree.root (h : RBytes → RBytes) : Tree → RBytes
  | .leaf x => h (0 :: x)
  | .branch l r => h (1 :: (l.root h ++ r.root h))

/-- the root over an abstract digest type: `hl` hashes a tagged leaf, `hb` a tagged pair -/
def Tree.rootG {D : Type} (hl : RBytes → D) (hb : D → D → D) : Tree → D
  | .leaf x => hl x
  | .branch l r => hb (l.rootG hl hb) (r.rootG hl hb)

def Tree.leaves : Tree → List RBytes
  | .leaf x => [x]
  | .branch l r => l.leaves ++ r.leaves

/-- a perfect tree of depth `d` (2^d leaves) -/
def Tree.perfect : Tree → Nat → Prop
  | .leaf _, d => d = 0
  | .branch l r, d => ∃ d', d = d' + 1 ∧ l.perfect d' ∧ r.perfect d'

/-- the reference merkle root: the empty list hashes the empty string -/
def refRoot (h : RBytes → RBytes) (items : List RBytes) : RBytes :=
  match items with
  | [] => h []
  | _ => (mkTree items).root h

end GV.Spec.MerkleRef
