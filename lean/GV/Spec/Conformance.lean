import GV.Gen.StateMaps
import GV.Spec.Automata
import GV.Proofs.Bisim
/-!
  Which specification automaton each generated implementation machine is compared with,
  and the state correspondence used (implementation state id ↦ specification state id).
  Core Lean only (the driver uses it for the `spec` column).
-/
namespace GV.Spec.Conformance
open GV.SM GV.Spec.Automata

structure Entry where
  impl : Machine
  spec : Machine
  rel : List (Nat × Nat)

/-- implementation ids are `State.Id * 100000 (+ context)` -/
def idRel (ns : List Nat) : List (Nat × Nat) := ns.map (fun n => (n * 100000, n))

def relLtm : List (Nat × Nat) :=
  [(100000, 1), (200000, 2), (300000, 3), (400000, 4), (600000, 5), (700000, 6), (500000, 7)]

def relVotes : List (Nat × Nat) :=
  [(100000, 1), (200001, 11), (200002, 12), (200003, 13), (300000, 3)]

open GV.Gen.StateMaps in
def table : List Entry :=
  [ ⟨handshake_ntn_client, handshakeNtN, idRel [1, 2, 3]⟩,
    ⟨handshake_ntn_server, handshakeNtN, idRel [1, 2, 3]⟩,
    ⟨handshake_ntc_client, handshakeNtC, idRel [1, 2, 3]⟩,
    ⟨handshake_ntc_server, handshakeNtC, idRel [1, 2, 3]⟩,
    ⟨chainsync_ntn_client, chainSyncNtN, idRel [1, 2, 3, 4, 5]⟩,
    ⟨chainsync_ntn_server, chainSyncNtN, idRel [1, 2, 3, 4, 5]⟩,
    ⟨chainsync_ntc_client, chainSyncNtC, idRel [1, 2, 3, 4, 5]⟩,
    ⟨chainsync_ntc_server, chainSyncNtC, idRel [1, 2, 3, 4, 5]⟩,
    ⟨blockfetch_client, blockFetch, idRel [1, 2, 3, 4]⟩,
    ⟨blockfetch_server, blockFetch, idRel [1, 2, 3, 4]⟩,
    ⟨txsubmission_client, txSubmission, idRel [1, 2, 3, 4, 5, 6]⟩,
    ⟨txsubmission_server, txSubmission, idRel [1, 2, 3, 4, 5, 6]⟩,
    ⟨keepalive_client, keepAlive, idRel [1, 2, 3]⟩,
    ⟨keepalive_server, keepAlive, idRel [1, 2, 3]⟩,
    ⟨peersharing_client, peerSharing, idRel [1, 2, 3]⟩,
    ⟨peersharing_server, peerSharing, idRel [1, 2, 3]⟩,
    ⟨localtxsubmission_client, localTxSubmission, idRel [1, 2, 3]⟩,
    ⟨localtxsubmission_server, localTxSubmission, idRel [1, 2, 3]⟩,
    ⟨localtxmonitor_client, localTxMonitor, relLtm⟩,
    ⟨localtxmonitor_server, localTxMonitor, relLtm⟩,
    ⟨localtxmonitor_v20_client, localTxMonitorV20, relLtm⟩,
    ⟨localtxmonitor_v20_server, localTxMonitorV20, relLtm⟩,
    ⟨localstatequery_client, localStateQuery, idRel [1, 2, 3, 4, 5]⟩,
    ⟨localstatequery_server, localStateQuery, idRel [1, 2, 3, 4, 5]⟩,
    ⟨messagesubmission_v1_client, messageSubmissionV1, idRel [1, 2, 3, 4, 5, 6]⟩,
    ⟨messagesubmission_v1_server, messageSubmissionV1, idRel [1, 2, 3, 4, 5, 6]⟩,
    ⟨messagesubmission_v2_client, messageSubmissionV2, idRel [2, 3, 4, 5, 6]⟩,
    ⟨messagesubmission_v2_server, messageSubmissionV2, idRel [2, 3, 4, 5, 6]⟩,
    ⟨localmessagesubmission_client, localMessageSubmission, idRel [1, 2, 3]⟩,
    ⟨localmessagesubmission_server, localMessageSubmission, idRel [1, 2, 3]⟩,
    ⟨localmessagenotification_client, localMessageNotification, idRel [1, 2, 3, 4]⟩,
    ⟨localmessagenotification_server, localMessageNotification, idRel [1, 2, 3, 4]⟩,
    ⟨leiosnotify_client, leiosNotify, idRel [1, 2, 3]⟩,
    ⟨leiosnotify_server, leiosNotify, idRel [1, 2, 3]⟩,
    ⟨leiosfetch_client, leiosFetch, idRel [1, 2, 3, 4, 5, 6]⟩,
    ⟨leiosfetch_server, leiosFetch, idRel [1, 2, 3, 4, 5, 6]⟩,
    ⟨leiosvotes_client, leiosVotes, relVotes⟩,
    ⟨leiosvotes_server, leiosVotes, relVotes⟩ ]

/-- Everything C16 demands of one machine, as a decidable check on the tables:
    isomorphism with the specification automaton (bijection on states preserving initial
    state, agency/terminal states and every transition), the generated table is complete
    (no transition entry was left unprobed), every sample message survived the codec, and every
    permitted message type is one `NewMsgFromCbor` accepts. -/
def conforms (e : Entry) : Bool :=
  isoCheck e.impl e.spec e.rel &&
  e.impl.untested.isEmpty &&
  e.impl.sampleOk.all id && e.impl.sampleOk.length == e.impl.alphabet.length &&
  e.impl.trans.all (fun t => e.impl.decodable.contains t.sym.msg) &&
  e.spec.alphabet.all e.impl.alphabet.contains

/-- recorded finding (known/C16.json, class `ltm-getmeasures-missing`): the local-tx-monitor of
    NodeToClientV_20+ has MsgGetMeasures / MsgReplyGetMeasures; the implementation, which
    negotiates versions up to 21, has no such messages. -/
def isV20 (e : Entry) : Bool :=
  e.impl.name == "localtxmonitor-v20/client" || e.impl.name == "localtxmonitor-v20/server"

/-- the entries outside the recorded finding -/
def tableOk : List Entry := table.filter (fun e => !isV20 e)

def find (name : String) : Option Entry := table.find? (fun e => e.impl.name = name)

/-- inverse of the state correspondence -/
def toImpl (e : Entry) (q : Nat) : Option Nat := (e.rel.find? (fun pq => pq.2 = q)).map (·.1)

end GV.Spec.Conformance
