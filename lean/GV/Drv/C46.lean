import GV.Lib.Line
import GV.Model.DmqAuth
import GV.Model.DmqSym
/-
  feed_impl: the line is `op \t implementation-output`.
  op:  dmq <universe-seed-hex> <action> ; <action> ; ...      (see harness/c46.go)
  out: acc=<one bit per message> | <verdict{cache}> ... spk=<slotsPerKesPeriod>

  The model runs on symbolic keys and signatures (`Sym` below): a cold signature is the
  term `csig signer vk issue period`, a KES signature is `ksg j t payload`; the real
  verifier ledger.VerifyKesComponents is represented by `realVerifier`, whose KES part is
  the ideal KES of C39 (`verify_iff` / `unforgeable_symbolic`).
-/
namespace GV.Drv.C46
open GV.Line GV.Model.DmqAuth GV.Model.DmqSym

structure MsgInfo where
  msg : Msg Pay D K S KS
  slot : Option Nat
  cold : Nat
  /-- the KES signature is a genuine signature of this payload under the certificate's KES key
      (at whatever evolution) -/
  kesGenuine : Bool
  certGenuine : Bool
  idGenuine : Bool

def parseMsg (a : List String) : Option MsgInfo :=
  match a with
  | [ci, issue, ocp, body, kp, exp, kj, t, slot, idm, cm, km] => do
    let ci ← parseNat? ci; let issue ← parseNat? issue; let ocp ← parseNat? ocp
    let body ← parseNat? body; let kp ← parseNat? kp; let exp ← parseNat? exp
    let kj ← parseNat? kj; let t ← parseNat? t
    let slot ← (if slot = "-" then some none else (parseNat? slot).map some)
    if ci ≥ 4 ∨ kj ≥ 2 ∨ t > 63 ∨ body > 999 ∨ issue ≥ 2 ^ 64 ∨ ocp ≥ 2 ^ 64 ∨ kp ≥ 2 ^ 64 ∨
       exp ≥ 2 ^ 32 then none else
    let pay : Pay := ⟨body, kp, exp⟩
    let other : Pay := ⟨body + 1000, kp, exp⟩
    let (idLen, id) ← (match idm with
      | "ok" => some (32, D.h pay) | "alias" => some (32, D.h pay)
      | "other" => some (32, D.h other) | "junk" => some (32, D.junk)
      | "empty" => some (0, D.junk) | "short" => some (31, D.junk) | _ => none)
    let vk : K := if km = "vklen" then K.kvkT kj else K.kvk kj
    let vkLen := if km = "vklen" then 31 else 32
    -- "…HiNN": the message carries counter / period + 2^NN, the cold signature is the one over the
    -- genuine values (a change in the high bits only)
    let bumpOf : String → Nat := fun m =>
      if m.endsWith "Hi32" then 2 ^ 32 else if m.endsWith "Hi40" then 2 ^ 40
      else if m.endsWith "Hi63" then 2 ^ 63 else 0
    let isHi := cm.startsWith "issueHi" ∨ cm.startsWith "periodHi"
    let msgIssue := if cm.startsWith "issueHi" then issue + bumpOf cm else issue
    let msgOcp := if cm.startsWith "periodHi" then ocp + bumpOf cm else ocp
    if isHi ∧ (bumpOf cm = 0 ∨ msgIssue ≥ 2 ^ 64 ∨ msgOcp ≥ 2 ^ 64) then none else
    let csig ← (match cm with
      | "ok" | "short" | "cklen" => some (S.csig ci vk issue ocp)
      | "issueHi32" | "issueHi40" | "issueHi63" | "periodHi32" | "periodHi40" | "periodHi63" =>
        some (S.csig ci vk issue ocp)
      | "junk" => some S.junk
      | "other" => some (S.csig ((ci + 1) % 4) vk issue ocp)
      | "issue" => some (S.csig ci vk (issue + 1) ocp)
      | "period" => some (S.csig ci vk issue (ocp + 1))
      | "kes" => some (S.csig ci (K.kvk (kj + 1)) issue ocp)
      | _ => none)
    let csigLen := if cm = "short" then 63 else 64
    let ck : K := if cm = "cklen" then K.coldT ci else K.cold ci
    let ckLen := if cm = "cklen" then 31 else 32
    let ks ← (match km with
      | "ok" | "short" | "vklen" => some (KS.ksg kj t pay)
      | "junk" => some KS.junk
      | "otherkey" => some (KS.ksg (kj + 1) t pay)
      | "otherpayload" => some (KS.ksg kj t other)
      | _ => none)
    let ksLen := if km = "short" then 447 else 448
    let m : Msg Pay D K S KS :=
      { idLen, id, payload := pay, kesSig := ks, kesSigLen := ksLen, kesVk := vk, kesVkLen := vkLen,
        issue := msgIssue, ocPeriod := msgOcp, coldSig := csig, coldSigLen := csigLen, coldKey := ck, coldKeyLen := ckLen }
    pure { msg := m, slot, cold := ci,
           kesGenuine := km == "ok",
           certGenuine := cm == "ok",
           idGenuine := idm == "ok" || idm == "alias" }
  | _ => none

inductive Act where
  | msg (m : MsgInfo) | reg (i : Nat) | unreg (i : Nat) | ins (b : Bool)
  | ver (kind : Nat) (f : Option (Verifier Pay K KS))

def parseAct (a : List String) : Option Act :=
  match a with
  | "m" :: rest => (parseMsg rest).map .msg
  | ["reg", i] => do let i ← parseNat? i; if i ≥ 4 then none else pure (.reg i)
  | ["unreg", i] => do let i ← parseNat? i; if i ≥ 4 then none else pure (.unreg i)
  | ["ins", b] => (parseBool? b).map .ins
  | ["ver", k] => do let k ← parseNat? k; let f ← verifierOf k; pure (.ver k f)
  | _ => none

def rejStr : Rej → String
  | .id => "id" | .opcert => "opcert" | .kes => "kes" | .pool => "pool" | .rotation => "rotation"

def cacheStr (c : List (Nat × Nat)) : String :=
  let sorted := c.toArray.qsort (fun a b => a.1 < b.1) |>.toList
  ",".intercalate (sorted.map fun (p, n) => s!"{p}:{n}")

structure St where
  auth : Auth Pay K KS Nat
  bits : List Char := []
  det : List String := []
  /-- what the property demands, given the implementation's own earlier verdicts -/
  specBits : List Char := []
  /-- highest counter the *implementation* accepted per pool so far -/
  implMax : List (Nat × Nat) := []
  implBits : List Char
  /-- which verifier is installed: 0 none, 1 ledger.VerifyKesComponents, 2 always valid,
      3 always invalid, 4 always error -/
  verKind : Nat := 0

def stepAct (s : St) : Act → St
  | .reg i => { s with auth := (step symPrims s.auth (.register i)).2 }
  | .unreg i => { s with auth := (step symPrims s.auth (.unregister i)).2 }
  | .ins b => { s with auth := (step symPrims s.auth (.setInsecure b)).2 }
  | .ver k f => { s with auth := (step symPrims s.auth (.setVerifier f)).2, verKind := k }
  | .msg mi =>
    let r := verify symPrims s.auth mi.msg mi.slot
    let (bit, v) := match r.1 with | .ok _ => ('1', "ok") | .error e => ('0', rejStr e)
    -- the property's demand on this message
    let implBit := s.implBits.headD '?'
    let a := s.auth
    -- "the KES signature over the payload verifies": with no verifier nothing verifies it
    -- (reject unless insecure mode); the real verifier cannot accept a signature that is not a
    -- signature of this payload under the certificate's KES key; a verifier that answers
    -- invalid / error has not verified it.  Which evolution the real verifier checks is not
    -- stated by the property, so a genuine signature leaves the verdict free.
    let kesFails : Bool :=
      match s.verKind with
      | 0 => !a.allowInsecure
      | 1 => !mi.kesGenuine
      | 2 => false
      | _ => true
    let below : Bool := match lookup s.implMax mi.cold with
      | some mx => decide (mi.msg.issue < mx) | none => false
    let mustReject : Bool :=
      !a.disableValidation &&
      (!mi.idGenuine || !mi.certGenuine || kesFails || !a.pools.contains mi.cold || below)
    let specBit := if mustReject then '0' else implBit
    let implMax := if implBit = '1' then
        (match lookup s.implMax mi.cold with
         | some mx => insert s.implMax mi.cold (max mx mi.msg.issue)
         | none => insert s.implMax mi.cold mi.msg.issue)
      else s.implMax
    { s with auth := r.2, bits := s.bits ++ [bit], det := s.det ++ [s!"{v}\{{cacheStr r.2.cache}}"],
             specBits := s.specBits ++ [specBit], implMax := implMax, implBits := s.implBits.drop 1 }

def splitOnSemi (s : String) : List (List String) := (s.splitOn ";").map tokens

/-- `ttl <durationNs> <nowUnix> <expiresAt> <disabled>` -/
def handleTtl (toks : List String) : Out :=
  match toks with
  | [d, now, exp, dis] =>
    match parseInt? d, parseInt? now, parseNat? exp, parseBool? dis with
    | some d, some now, some exp, some dis =>
      if exp ≥ 2 ^ 32 ∨ d ≥ 2 ^ 63 ∨ d < -(2 ^ 63) ∨ now ≥ 2 ^ 63 ∨ now < -(2 ^ 63) then badOp else
      let r := validateTTLAt dis (ttlSeconds d) now exp
      { model := match r with | .ok => "ttl=ok" | .expired => "ttl=expired" | .tooFar => "ttl=toofar" }
    | _, _, _, _ => badOp
  | _ => badOp

def handle (line : String) : Out :=
  match line.splitOn "\t" with
  | [op, impl] =>
    match splitOnSemi op with
    | ("ttl" :: rest) :: [] => handleTtl rest
    | ("dmq" :: _useed :: ctor) :: rest =>
      let implBits : List Char :=
        if impl.startsWith "acc=" then (impl.toList.drop 4).takeWhile (fun c => c = '0' || c = '1') else []
      let auth0 : Option (Auth Pay K KS Nat) := match ctor with
        | ["new"] => some newAuth
        | ["noop"] => some { (newAuth : Auth Pay K KS Nat) with disableValidation := true }
        | _ => none
      match auth0, rest.mapM parseAct with
      | some a0, some acts =>
        let s := acts.foldl stepAct { auth := a0, implBits := implBits }
        let b := if s.bits.isEmpty then "-" else String.ofList s.bits
        let sb := if s.specBits.isEmpty then "-" else String.ofList s.specBits
        { model := s!"acc={b} | {" ".intercalate s.det} spk={s.auth.slotsPerKesPeriod}",
          spec := s!"acc={sb} *" }
      | _, _ => badOp
    | _ => badOp
  | _ => badOp

end GV.Drv.C46
