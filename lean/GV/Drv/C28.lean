import GV.Lib.Line
import GV.Model.WitnessSym
/-
  op:  wit <era> <universe-seed-hex> | in <owner>* | coll <owner>* | req <k>* | wd <K<k>|S<n>>* |
       vk <k>:<kind>* | bw <k>.<c>.<a>:<kind>*
       owner: K<k> key-locked by key k | B<k>.<c>.<a> Byron address rooted at (key k, chain code c,
              attributes a) | S<n> script-locked | M unresolvable
       vkey witness kinds: ok | bad (bit flipped) | omsg (signature over another tx id) |
              okey (signature made by key k+1) | ssig (63-byte signature) | skey (31-byte key)
       bootstrap witness kinds: the same, and scc (31-byte chain code)
  out: acc=<b> sig=<b> coll=<b> req=<b> | stage=<-|vk|bw|in>
-/
namespace GV.Drv.C28
open GV.Line GV.Model.Witness GV.Model.WitnessSym

def parseOwner (s : String) : Option (Owner H) :=
  match s.toList with
  | 'M' :: [] => some .missing
  | 'K' :: r => (parseNat? (String.ofList r)).map (fun k => Owner.key (H.kh (VK.k k)))
  | 'S' :: r => (parseNat? (String.ofList r)).map (fun _ => Owner.script)
  | 'B' :: r =>
    match (String.ofList r).splitOn "." with
    | [k, c, a] => do
      let k ← parseNat? k; let c ← parseNat? c; let a ← parseNat? a
      if a > 1 then none else pure (Owner.byron (H.root (VK.k k) c a))
    | _ => none
  | _ => none

structure WitTok where
  key : Nat
  cc : Nat := 0
  attrs : Nat := 0
  kind : String

def sigOf (k : Nat) (kind : String) : Option (SG × Nat) :=
  match kind with
  | "ok" | "skey" | "scc" => some (SG.sg k 0, 64)
  | "bad" => some (SG.junk, 64)
  | "omsg" => some (SG.sg k 1, 64)
  | "okey" => some (SG.sg (k + 1) 0, 64)
  | "ssig" => some (SG.junk, 63)
  | _ => none

def parseVk (s : String) : Option (VkeyWit VK SG × Nat × Bool) :=
  match s.splitOn ":" with
  | [k, kind] => do
    let k ← parseNat? k
    if kind = "scc" then none else
    let (σ, sl) ← sigOf k kind
    let (vk, vl) := if kind = "skey" then (VK.trunc k, 31) else (VK.k k, 32)
    pure ({ vkey := vk, vkeyLen := vl, sig := σ, sigLen := sl }, k, kind == "ok")
  | _ => none

def parseBw (s : String) : Option (BootWit VK SG Nat Nat × Bool) :=
  match s.splitOn ":" with
  | [kca, kind] =>
    match kca.splitOn "." with
    | [k, c, a] => do
      let k ← parseNat? k; let c ← parseNat? c; let a ← parseNat? a
      if a > 1 then none else
      let (σ, sl) ← sigOf k kind
      let (pk, pl) := if kind = "skey" then (VK.trunc k, 31) else (VK.k k, 32)
      -- a truncated chain code is a different chain code
      let (cc, cl) := if kind = "scc" then (c + 1000, 31) else (c, 32)
      pure ({ pk, pkLen := pl, sig := σ, sigLen := sl, cc, ccLen := cl, attrs := a }, kind == "ok")
    | _ => none
  | _ => none

def parseWd (s : String) : Option (Option H) :=
  match s.toList with
  | 'K' :: r => (parseNat? (String.ofList r)).map (fun k => some (H.kh (VK.k k)))
  | 'S' :: r => (parseNat? (String.ofList r)).map (fun _ => none)
  | _ => none

def section? (name : String) (toks : List String) : Option (List String) :=
  match toks with
  | n :: rest => if n = name then some rest else none
  | [] => none

def handle (line : String) : Out :=
  match (line.splitOn "|").map tokens with
  | [["wit", era, _useed], ins, coll, req, wd, vk, bw] =>
    let r : Option Out := do
      let ins ← section? "in" ins; let coll ← section? "coll" coll; let req ← section? "req" req
      let wd ← section? "wd" wd; let vk ← section? "vk" vk; let bw ← section? "bw" bw
      -- "+nc1" / "+nc2": a non-canonically encoded body; "+inv": is_valid = false.  Neither is
      -- seen by the signature rules (and the property does not exempt such transactions).
      let base := (era.splitOn "+").headD ""
      let mods := (era.splitOn "+").drop 1
      let inv := mods.contains "inv"
      let ncs := mods.filter (fun m => m = "nc1" ∨ m = "nc2")
      let ncOk := mods.all (fun m => m = "nc1" ∨ m = "nc2" ∨ m = "inv") && ncs.length ≤ 1 &&
        (mods.filter (· = "inv")).length ≤ 1
      if !ncOk then none else
      let hasAlonzo ← (match base with
        | "shelley" | "allegra" | "mary" => some false
        | "alonzo" | "babbage" | "conway" | "dijkstra" => some true
        | _ => none)
      let ins ← ins.mapM parseOwner
      -- "=j": the very UTxO input j spends
      let coll ← coll.mapM (fun tk =>
        if tk.startsWith "=" then (parseNat? (String.ofList (tk.toList.drop 1))).bind (fun j => ins[j]?) else parseOwner tk)
      let req ← req.mapM parseNat?
      let wd ← wd.mapM parseWd
      let vk ← vk.mapM parseVk
      let bw ← bw.mapM parseBw
      if !hasAlonzo && (!coll.isEmpty || !req.isEmpty) then none else
      if inv && (!hasAlonzo || base = "dijkstra") then none else
      let required : List H := req.map (fun k => H.kh (VK.k k)) ++ wd.filterMap id
      let t : Tx VK SG H Nat Nat Nat :=
        { txId := 0, inputs := ins, collateral := coll, required := required,
          vkeys := vk.map (·.1), boots := bw.map (·.1) }
      let s := utxoValidateSignatures sym t
      let c := validateCollateralVKeyWitnesses sym t
      let q := validateRequiredVKeyWitnesses sym t
      let stage :=
        if !validateVKeyWitnesses sym t then "vk"
        else if !validateBootstrapWitnesses sym t then "bw"
        else if !validateInputVKeyWitnesses sym t then "in" else "-"
      -- the property's demand, read off the op: owners must have their key among the vkey
      -- witnesses (Byron: or a bootstrap witness for exactly that key/chain code/attributes),
      -- every supplied signature must be the genuine one for this transaction, every required
      -- signer must have a witness.
      let fullKeys : List Nat := vk.filterMap (fun (w, k, _) => if w.vkeyLen = 32 then some k else none)
      let ownerCovered : Owner H → Bool
        | .key (H.kh (VK.k k)) => fullKeys.contains k
        | .key _ => false
        | .byron (H.root (VK.k k) c a) =>
          bw.any (fun (w, _) => w.pk == VK.k k && w.pkLen == 32 && w.cc == c && w.ccLen == 32 && w.attrs == a)
        | .byron _ => false
        | .script => true
        | .missing => true
      let collCovered : Owner H → Bool
        | .key (H.kh (VK.k k)) => fullKeys.contains k
        | .byron (H.root (VK.k k) c a) =>
          bw.any (fun (w, _) => w.pk == VK.k k && w.pkLen == 32 && w.cc == c && w.ccLen == 32 && w.attrs == a)
        | _ => false
      let mustReject : Bool :=
        !ins.all ownerCovered || !coll.all collCovered ||
        !vk.all (fun (_, _, genuine) => genuine) || !bw.all (fun (_, genuine) => genuine) ||
        !req.all (fun k => fullKeys.contains k)
      pure { model := s!"acc={boolStr (s && c && q)} sig={boolStr s} coll={boolStr c} req={boolStr q} | stage={stage}",
             spec := if mustReject then "acc=0 *" else "*" }
    r.getD badOp
  | _ => badOp

end GV.Drv.C28
