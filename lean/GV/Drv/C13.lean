import GV.Lib.Line
import GV.Lib.SegUtil
import GV.Model.RecvBuffer
import GV.Gen.LimitsG4
/-
  C13 driver (feed_impl: the line is `op \t implementation-output`).

  lim <proto> <gate> <plan> <pseed> <step>*     see harness/c13.go
  grow <kind> <plan> <pseed> <chunkT> <count>

  lim: the implementation's accounting trace (from the verif hook) is replayed through the
  model: every `a` must be an enabled accept giving the reported counter, every `w` a blocked
  accept, every `r` the release of the oldest size; the sizes must be the messages addressed
  to the receiver, in order. The property monitor (spec column) checks on the same trace that
  the limit used is the declared one and that the counter never exceeds it.
  grow: by segment lengths only (`growErrAt`).
-/
namespace GV.Drv.C13
open GV.Line GV.SegUtil GV.Model.RecvBuffer

inductive Ev
  | a (size pending limit : Nat)
  | w (size pending limit : Nat)
  | r (size pending : Nat)

def parseEv? (s : String) : Option Ev :=
  match s.splitOn ":" with
  | ["a", x, y, z] => do let x ← parseNat? x; let y ← parseNat? y; let z ← parseNat? z; pure (.a x y z)
  | ["w", x, y, z] => do let x ← parseNat? x; let y ← parseNat? y; let z ← parseNat? z; pure (.w x y z)
  | ["r", x, y] => do let x ← parseNat? x; let y ← parseNat? y; pure (.r x y)
  | _ => none

def field? (name : String) (impl : String) : Option String :=
  (tokens impl).findSome? fun t =>
    if t.startsWith (name ++ "=") then some (t.drop (name.length + 1)).toString else none

/-- Declared limit of the states in which the receiver under test receives. -/
def declaredLimit (proto : String) : Option Nat :=
  if proto = "cs" then some GV.Gen.LimitsG4.chainsyncMaxPendingMessageBytes
  else if proto = "bf" then some GV.Gen.LimitsG4.blockfetchStreamingMaxPendingMessageBytes
  else if proto = "bs" then some GV.Gen.LimitsG4.blockfetchIdleMaxPendingMessageBytes
  else if proto.startsWith "g" then parseNat? (proto.drop 1).toString
  else none

/-- Replay. Returns the first rejected event index or the final state, the number of
    releases and the sizes not yet accepted. -/
def replay : List Ev → Nat → Acct → List Nat → Nat → Except String (Acct × List Nat × Nat)
  | [], _, s, expct, rels => .ok (s, expct, rels)
  | e :: rest, k, s, expct, rels =>
    match e with
    | .a size pending limit =>
      (match expct, accept s size limit with
       | x :: more, .ok s' =>
         if x = size ∧ s'.pending = pending then replay rest (k + 1) s' more rels
         else .error s!"reject@{k}:accept-mismatch"
       | _, _ => .error s!"reject@{k}:accept-not-enabled")
    | .w size pending limit =>
      (match expct, accept s size limit with
       | x :: _, .blocked =>
         if x = size ∧ s.pending = pending then replay rest (k + 1) s expct rels
         else .error s!"reject@{k}:wait-mismatch"
       | _, _ => .error s!"reject@{k}:wait-but-accept-enabled")
    | .r size pending =>
      (match s.sizes with
       | x :: _ =>
         let s' := release s
         if x = size ∧ s'.pending = pending then replay rest (k + 1) s' expct (rels + 1)
         else .error s!"reject@{k}:release-mismatch"
       | [] => .error s!"reject@{k}:release-of-nothing")

/-- Property monitor on the trace, with its own bookkeeping (it does not trust the counter the
    implementation reports): `held` = sizes of the messages accepted and not yet released, in
    arrival order; the k-th release frees the k-th accepted message. Checks: the limit used is
    the declared one; what is really held never exceeds it; nothing waits for space while
    nothing is held. -/
def monitor (decl : Nat) : List Ev → Nat → List Nat → Option String
  | [], _, _ => none
  | e :: rest, k, held =>
    match e with
    | .a size _ limit =>
      let held' := held ++ [size]
      if limit ≠ decl then some s!"limit-used-{limit}-declared-{decl}@{k}"
      else if limit > 0 ∧ held'.sum > limit then some s!"held-{held'.sum}-exceeds-limit-{limit}@{k}"
      else monitor decl rest (k + 1) held'
    | .w size _ limit =>
      if limit ≠ decl then some s!"limit-used-{limit}-declared-{decl}@{k}"
      else if held.sum + size ≤ limit then some s!"waits-although-{size}-fits-{held.sum}-of-{limit}@{k}"
      else monitor decl rest (k + 1) held
    | .r _ _ => monitor decl rest (k + 1) held.tail

def stepSize? (recvSide : Char) (s : String) : Option (Option Nat) :=
  match s.splitOn ":" with
  | [who, _ty, m] =>
    match who.toList.head?, (m.splitOn ".").head? >>= parseNat? with
    | some c, some t => if c = recvSide then some none else some (some t)
    | _, _ => none
  | _ => none

def handleLim (toks : List String) (impl : String) : Out :=
  match toks with
  | proto :: _gate :: _plan :: _seed :: steps =>
    let recvSide : Char := if proto = "bs" then 's' else 'c'
    match declaredLimit proto, steps.mapM (stepSize? recvSide) with
    | some decl, some szs =>
      let expct : List Nat := szs.filterMap id
      -- what the property demands, from the op alone
      let firstOver := expct.find? (fun x => decl > 0 ∧ x > decl)
      let want := match firstOver with
        | some _ => "err=oversize handled=-"
        | none => s!"err=none handled={expct.length}"
      match field? "trace" impl with
      | none => { model := "reject:no-trace", spec := want ++ " *" }
      | some tr =>
        match (if tr = "-" then some [] else (tr.splitOn ",").mapM parseEv?) with
        | none => { model := "reject:bad-trace", spec := want ++ " *" }
        | some evs =>
          let spec := match monitor decl evs 0 [] with
            | some why => "never:" ++ why
            | none => want ++ " *"
          match replay evs 0 Acct.init expct 0 with
          | .error e => { model := e, spec := spec }
          | .ok (_, remaining, rels) =>
            let model :=
              match remaining with
              | [] => s!"err=none handled={rels} trace={tr}"
              | x :: _ =>
                if decl > 0 ∧ x > decl then s!"err=oversize handled=- trace={tr}"
                else s!"reject:stopped-early-with-{remaining.length}-unaccepted"
            { model := model, spec := spec }
    | _, _ => badOp
  | _ => badOp

def handleGrow (toks : List String) (impl : String) : Out :=
  match toks with
  | [kind, _plan, _seed, chunkT, count] =>
    match parseNat? chunkT, parseNat? count with
    | some chunkT, some count =>
      let total := chunkT * count
      let spec :=
        if kind = "c" then
          (if total ≤ maxReadBuffer then "err=none handled=1 *"
           else if total > maxReadBuffer + 65535 then "err=too-big *" else "*")
        else "err=too-big *"
      match (field? "segs" impl).bind parseNatList? with
      | none => { model := "reject:no-trace", spec := spec }
      | some lens =>
        let ls := if lens.isEmpty then "-" else ",".intercalate (lens.map toString)
        let err :=
          if kind = "c" then
            (if lens.sum ≥ total then growErrAt lens.dropLast else growErrAt lens)
          else growErrAt lens
        let model := match err with
          | some _ => s!"err=too-big handled=- segs={ls}"
          | none =>
            if kind = "c" ∧ lens.sum = total then s!"err=none handled=1 segs={ls}"
            else s!"err=stalled handled=- segs={ls}"
        { model := model, spec := spec }
    | _, _ => badOp
  | _ => badOp

def handle (line : String) : Out :=
  let (op, impl) := match line.splitOn "\t" with
    | [a] => (a, "")
    | a :: b :: _ => (a, b)
    | [] => ("", "")
  match tokens op with
  | "lim" :: rest => handleLim rest impl
  | "grow" :: rest => handleGrow rest impl
  | _ => badOp

end GV.Drv.C13
