import GV.Lib.Line
import GV.Model.CborId
import GV.Gen.SumTypes
/-
  C03 driver (feed_impl: the line is `op \t implementation-output`).
  op: id <vok> <hex>
        out: id=<k|err> len=<n|err> byid=<Tk|err>
      sum <type> <v> <vok> <hex>
        out: ok <variant> | err
        v=1 (untouched sample body, only the list header / tag width re-chosen): the model
        predicts the outcome exactly.  v=0 (re-encoded at every level and/or mutated): whether
        the *body* decodes is the typed decoder's business and is not modelled — the model
        admits `err` or the variant it selects, nothing else.
-/
namespace GV.Drv.C03
open GV.Line GV.Model.CborId GV.CborT

def optStr (o : Option Nat) : String := match o with | some n => toString n | none => "err"

def known (k : Nat) : Bool := k ≤ 7

def splitTab (line : String) : String × String :=
  match line.splitOn "\t" with
  | [a] => (a, "")
  | a :: b :: _ => (a, b)
  | [] => ("", "")

def handle (line : String) : Out :=
  let (op, impl) := splitTab line
  match tokens op with
  | ["id", vok, hex] =>
    match parseBool? vok, parseHex? hex with
    | some vok, some b =>
      let idm := decodeIdFromList vok b
      let byid := match decodeById vok known b with | some k => s!"T{k}" | none => "err"
      let model := s!"id={optStr idm} len={optStr (listLength b)} byid={byid}"
      let spec :=
        match tagOfTree b with
        | some k =>
          if k > maxInt then "id=err *"
          else if vok then s!"id={k} *" else s!"id={k} *||id=err *"
        | none => "*"
      { model, spec }
    | _, _ => badOp
  | ["sum", ty, v, vok, hex] =>
    match parseBool? v, parseBool? vok, parseHex? hex with
    | some v, some vok, some b =>
      let model :=
        match variantOf GV.Gen.SumTypes.table ty vok b with
        | none => impl
        | some .err => "err"
        | some .unsure => impl
        | some (.lab lab) => if v || impl != "err" then s!"ok {lab}" else "err"
      let spec :=
        match variantSpec GV.Gen.SumTypes.table ty b with
        | some (.lab lab) => s!"ok {lab}||err"
        | some .err => "err"
        | _ => "*"
      { model, spec }
    | _, _, _ => badOp
  | _ => badOp

end GV.Drv.C03
