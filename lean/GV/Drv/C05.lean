import GV.Lib.Line
import GV.Model.Address
import GV.Gen.AddrTrailers
/-
  C05 driver (ops: see harness/c05.go).
-/
namespace GV.Drv.C05
open GV.Line GV.Model.Address GV.Lib.CborLite

def wl : List Bytes := GV.Gen.AddrTrailers.trailers

def payStr : Pay → String
  | .none => "none"
  | .key h => "key:" ++ toHex h
  | .script h => "script:" ++ toHex h

def stakeStr : Stake → String
  | .none => "none"
  | .key h => "key:" ++ toHex h
  | .script h => "script:" ++ toHex h
  | .ptr p => s!"ptr:{p.slot}/{p.tx}/{p.cert}"

def describe (a : Addr) : String :=
  s!"ok t={a.typ} n={a.net} pay={payStr a.pay} stake={stakeStr a.stake} extra={toHex a.extra} bytes={toHex (bytes a)} hrp={hrp a} acc=1 rt=1"

def describeByron (crc2 : Nat) (a : ByronAddr) : String :=
  let net := match a.network with | none => "-" | some n => toString n
  let nid := if a.network.isNone then 1 else 0
  s!"byron t={a.btype} hash={toHex a.hash} attr={toHex a.attrPayload} net={net} nid={nid} bytes={toHex (byronBytes (fun _ => crc2) a)} rt=1"

def byronOut (crc2 : Nat) : ByronRes → Option String
  | .ok a => some (describeByron crc2 a)
  | .err e => some ("err:" ++ e.str)
  | .unsupported => none

/-- one base-128 number, most significant group first, continuation bit 0x80, no wrap:
    (value, minimal?, rest) -/
def specVarGo : Bytes → Nat → Option (Nat × Bytes)
  | [], _ => none
  | x :: r, acc =>
    let v := acc * 128 + x.toNat % 128
    if x.toNat < 128 then some (v, r) else specVarGo r v

def specVar (b : Bytes) : Option (Nat × Bool × Bytes) :=
  match specVarGo b 0 with
  | none => none
  | some (v, r) =>
    let lead := match b with | x :: _ => x.toNat != 128 | [] => true
    some (v, lead && decide (v < 18446744073709551616), r)

/-- what the property demands of `NewAddressFromBytes` on Shelley-family bytes, stated from the
    header byte and the length alone -/
def specRaw (b : Bytes) : String :=
  match b with
  | [] => "err:*"
  | h :: rest =>
    let t := h.toNat / 16
    let n := h.toNat % 16
    if t = 8 then "*"
    else if 9 ≤ t ∧ t ≤ 13 then "err:*"
    else if n ≥ 2 then "err:*"
    else
      let two := t ≤ 3
      let one := t = 6 ∨ t = 7 ∨ t = 14 ∨ t = 15
      if two then
        if rest.length < 56 then "err:*"
        else if rest.length = 56 then
          let p := (if t % 2 = 0 then "key:" else "script:") ++ toHex (rest.take 28)
          let s := (if t < 2 then "key:" else "script:") ++ toHex (rest.drop 28)
          s!"ok t={t} n={n} pay={p} stake={s} extra=- bytes={toHex b} hrp={if n = 1 then "addr" else "addr_test"} acc=1 rt=1"
        else if n = 0 then "err:*" else "*"
      else if one then
        if rest.length < 28 then "err:*"
        else if rest.length = 28 then
          if t < 8 then
            let p := (if t % 2 = 0 then "key:" else "script:") ++ toHex rest
            s!"ok t={t} n={n} pay={p} stake=none extra=- bytes={toHex b} hrp={if n = 1 then "addr" else "addr_test"} acc=1 rt=1"
          else
            let s := (if t = 14 then "key:" else "script:") ++ toHex rest
            s!"ok t={t} n={n} pay=none stake={s} extra=- bytes={toHex b} hrp={if n = 1 then "stake" else "stake_test"} acc=1 rt=1"
        else if n = 0 then "err:*" else "*"
      else
        -- pointer addresses: variable length.  Stated independently of the model: read three
        -- base-128 numbers without any wrap; when each is minimal (no leading 0x80 group, fits 64
        -- bits) and nothing follows, the address must be accepted with exactly these components
        -- and must re-encode to the very same bytes (Bytes / String round trip).
        if rest.length < 28 then "err:*" else
        let p := (if t = 4 then "key:" else "script:") ++ toHex (rest.take 28)
        match specVar (rest.drop 28) with
        | none => "err:*"
        | some (s1, m1, r1) =>
          match specVar r1 with
          | none => "err:*"
          | some (s2, m2, r2) =>
            match specVar r2 with
            | none => "err:*"
            | some (s3, m3, r3) =>
              if m1 && m2 && m3 then
                if r3.isEmpty then
                  s!"ok t={t} n={n} pay={p} stake=ptr:{s1}/{s2}/{s3} extra=- bytes={toHex b} hrp={if n = 1 then "addr" else "addr_test"} acc=1 rt=1"
                else if n = 0 then "err:*" else "*"
              else "*"

def parseCrc (s : String) : Option Nat := if s = "-" then some 0 else parseNat? s

def lowerS (s : String) : String := s.map Char.toLower

def handle (line : String) : Out :=
  match tokens line with
  | ["raw", h, c1, c2] =>
    match parseHex? h, parseCrc c1, parseCrc c2 with
    | some b, some c1, some c2 =>
      match b with
      | [] => { model := "err:empty", spec := "err:*" }
      | b0 :: _ =>
        if b0.toNat / 16 = 8 then
          match byronOut c2 (parseByron (fun _ => c1) b) with
          | some s => { model := s }
          | none => badOp
        else
          match parse wl b with
          | .error e => { model := "err:" ++ e.str, spec := specRaw b }
          | .ok a => { model := describe a, spec := specRaw b }
    | _, _, _ => badOp
  | ["text", _s, b32, b58, sp, c1, c2] =>
    match parseHex? b58, parseBool? sp, parseCrc c1, parseCrc c2 with
    | some b58, some sp, some c1, some c2 =>
      let prims : Option TextPrims :=
        if b32 = "no" then some { bech32 := none, convFail := false, base58 := b58, shelleyPrefix := sp }
        else if b32 = "convfail" then some { bech32 := none, convFail := true, base58 := b58, shelleyPrefix := sp }
        else match b32.splitOn ":" with
          | [h, d] => (parseHex? d).map (fun d => { bech32 := some (h, d), convFail := false, base58 := b58, shelleyPrefix := sp })
          | _ => none
      match prims with
      | none => badOp
      | some p =>
        -- "never accepts a bech32 prefix that does not match the address"
        let spec := match p.bech32 with
          | some (h, b0 :: _) =>
            let t := b0.toNat / 16; let n := b0.toNat % 16
            let want := (if t = 14 ∨ t = 15 then "stake" else "addr") ++ (if n = 1 then "" else "_test")
            if lowerS h ≠ want then "err:*" else "*"
          | _ => "*"
        match newAddress wl (fun _ => c1) p with
        | .shelley a => { model := describe a, spec := spec }
        | .err e => { model := "err:" ++ e.str, spec := spec }
        | .byron r =>
          match byronOut c2 r with
          | some s => { model := s, spec := spec }
          | none => badOp
    | _, _, _, _ => badOp
  | _ => badOp

end GV.Drv.C05
