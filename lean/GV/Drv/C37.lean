import GV.Lib.Line
import GV.Lib.Blake2b
import GV.Model.Threshold
import GV.Lib.IntervalPow
/-
  ops (feed_impl: each line is `op \t impl-output`):
    thr <mode> <pool> <total> <fnum> <fden>        CertifiedNatThresholdWithMode; fden = 0 means a nil coefficient
        → decimal threshold | err:mode | err:f>1 | err:escalation
    below <mode> <vrf hex> <threshold|nil>         IsVRFOutputBelowThresholdWithMode → 0 | 1 | err:mode
    elig <mode> <pool> <total> <fnum> <fden> <vrf hex>   IsSlotLeaderFromComponentsWithMode → 0 | 1 | err:…
  General case (0 < f < 1, 0 < σ ≤ 1, reduced σ = n/m, 1−f = a/b):
    powers below `maxBits` bits (m up to a few hundred for ordinary f):
               the threshold is computed by `findT` and accepted only if the proved checker
               `certOK` passes (GV.Props.C37.certOK_sound) → exact model and exact spec.
    otherwise, if 1 − f is an exact m-th power (r/s)^m: the exact-root certificate `exactOK`
               (T = ⌊U(s^n − r^n)/s^n⌋, proved: GV.Props.C37.exactOK_sound), for any m;
    otherwise: a certificate for `GV.Model.ThresholdCert.check` (exact rational arithmetic; bounds on
               ln 2 and ln r checked through the Taylor enclosure of exp; proved sound for every
               denominator, GV.Proofs.ThresholdCert.check_sound) is searched; if the checker accepts it
               the model and the spec are that threshold, proof-backed.  Only if none is found:
               (1) proved: the implementation's value must lie between the certified thresholds of
               the two Stern–Brocot neighbours lo ≤ σ ≤ hi with denominators ≤ 64
               (GV.Props.C37.enclosure_sound); (2) glue, not proved: it must equal the value of the
               outward-rounded interval evaluation `GV.Lib.IntervalPow.threshold`, an independent
               implementation of the formula that is cross-checked against `certOK` on every
               exactly certified input of the same run.
-/
namespace GV.Drv.C37
open GV.Line GV.Model.Threshold

/-- exact certification is attempted while the big powers stay below this many bits -/
def maxBits : Nat := 300000
def exactFeasible (b m U : Nat) : Bool := decide (m * (Nat.log2 U + Nat.log2 b + 2) ≤ maxBits)
/-- denominators of the enclosing fractions when exact certification is too expensive -/
def fareyMax : Nat := 64

/-- Stern–Brocot walk: neighbouring fractions lo ≤ n/m ≤ hi with denominators ≤ fareyMax -/
def farey (n m : Nat) : Nat → (Nat × Nat) → (Nat × Nat) → (Nat × Nat) × (Nat × Nat)
  | 0, lo, hi => (lo, hi)
  | fuel + 1, (a, b), (c, d) =>
    let p := a + c
    let q := b + d
    if q > fareyMax then ((a, b), (c, d))
    else if p * m = n * q then ((p, q), (p, q))
    else if p * m < n * q then farey n m fuel (p, q) (c, d)
    else farey n m fuel (a, b) (p, q)

/-- certified threshold for reduced (a/b, n/m), or none if the checker rejects the candidate -/
def certified (a b n m U : Nat) : Option Nat :=
  if !exactFeasible b m U then none else
  let t := findT a b n m U
  if certOK a b n m U t then some t else none

def reduceFrac (n m : Nat) : Nat × Nat := let g := Nat.gcd n m; (n / g, m / g)

/-- certified enclosure of the threshold for a large reduced denominator (0 < n ≤ m):
    thresholds of two fractions lo ≤ n/m ≤ hi (checked here by cross-multiplication),
    each certified by `certOK`; valid by monotonicity in σ -/
def enclosure (a b n m U : Nat) : Option (Nat × Nat) := do
  let ((ln, ld), (hn, hd)) := farey n m (4 * fareyMax) (0, 1) (1, 1)
  if ¬ (ln * m ≤ n * ld ∧ n * hd ≤ hn * m ∧ 0 < ld ∧ 0 < hd) then none else
  let lo ← if ln = 0 then some 0 else
    let (n', m') := reduceFrac ln ld
    certified a b n' m' U
  let (n'', m'') := reduceFrac hn hd
  let hi ← certified a b n'' m'' U
  pure (lo, hi)

def parseInput (mode pool total fnum fden : String) : Option Input := do
  let mode ← parseNat? mode; let pool ← parseNat? pool; let total ← parseNat? total
  let fnum ← parseInt? fnum; let fden ← parseNat? fden
  pure { mode, pool, total, fNil := fden == 0, fNum := fnum, fDen := fden }

/-- what the statement demands, decided without the guard ladder of the model:
    `none` = the statement is silent -/
def demanded (i : Input) : Option String :=
  if i.mode ≠ 0 ∧ i.mode ≠ 1 then some "err:*"
  else if i.fNil then none
  else if i.fNum < 0 ∨ i.fNum > (i.fDen : Int) then some "err:*"     -- f outside [0,1]
  else if i.total = 0 then none                                        -- σ undefined
  else if i.fNum = 0 ∨ i.pool = 0 then some "0"                        -- 1 − 1^σ = 0 ; x^0 = 1
  else if i.fNum = (i.fDen : Int) then some (toString (if i.mode = 0 then 2 ^ 256 else 2 ^ 512))
  else none   -- general case: decided by the certificate below

structure Thr where
  model : String
  spec : String
  cls : String := ""
  value : Option Nat := none     -- the certified threshold when known exactly

def threshold (i : Input) (impl : String) : Thr :=
  let cls := if ¬ i.fNil ∧ i.fNum < 0 ∧ (i.mode = 0 ∨ i.mode = 1) then "negative-f" else ""
  match guards i with
  | .err k => { model := s!"err:{k}", spec := (demanded i).getD "*", cls }
  | .val t => { model := toString t, spec := (demanded i).getD "*", cls, value := some t }
  | .general a b n m U =>
    -- independent evaluation of the formula (outward-rounded fixed point, escalating precision)
    let iv := GV.Lib.IntervalPow.threshold a b n m U
    if exactFeasible b m U then
      match certified a b n m U with
      | some t =>
        -- the glue is cross-checked against the proved checker wherever both apply
        if iv.1 ≤ t ∧ t ≤ iv.2 then { model := toString t, spec := toString t, value := some t }
        else { model := s!"interval-glue-disagrees[{iv.1},{iv.2}] cert={t}", spec := toString t }
      | none => { model := "cert-search-failed", spec := "*" }
    else
    -- 1 − f an exact m-th power (the code's exact fast path): exact-root certificate, proved for any m
    -- (GV.Props.C37.exactOK_sound / exact_output_correct)
    match findExact a b n m U with
    | some (_, _, t) => { model := toString t, spec := toString t, value := some t }
    | none =>
    -- large denominator: a rational certificate accepted by the PROVED checker
    -- `GV.Model.ThresholdCert.check` (GV.Proofs.ThresholdCert.check_sound, GV.Props.C37.ratcert_output_correct)
    match GV.Lib.IntervalPow.certify a b n m U with
    | some (t, _) => { model := toString t, spec := toString t, value := some t }
    | none =>
      -- no certificate: 1 − f is not an exact m-th power and U·(1 − (1−f)^σ) is closer to an integer than
      -- 2^-(32·(log2 U + 128)) (never seen; needs a coefficient built next to a perfect power with
      -- thousands of bits):
      -- proved enclosure (Stern–Brocot neighbours) + unproved interval evaluation
      let enc := enclosure a b n m U
      let insideEnc (t : Nat) : Bool := match enc with
        | some (lo, hi) => decide (lo ≤ t ∧ t ≤ hi)
        | none => true
      match impl.toNat? with
      | none => { model := s!"interval[{iv.1},{iv.2}]", spec := "!no-threshold-returned" }
      | some t =>
        if !insideEnc t then
          { model := s!"outside-enclosure", spec := "!outside-certified-enclosure" }
        else if iv.1 = iv.2 then
          if insideEnc iv.1 then { model := toString iv.1, spec := toString iv.1, value := some iv.1 }
          else { model := "interval-glue-outside-certified-enclosure", spec := "*" }
        else if iv.1 ≤ t ∧ t ≤ iv.2 then { model := impl, spec := "*" }
        else { model := s!"outside-interval[{iv.1},{iv.2}]", spec := "!outside-interval-enclosure" }

def leaderValue (vrf : List UInt8) : List UInt8 := GV.Lib.Blake2b.hash256 (0x4c :: vrf)

def handleOp (op impl : String) : GV.Line.Out :=
  match tokens op with
  | ["thr", mode, pool, total, fnum, fden] =>
    match parseInput mode pool total fnum fden with
    | some i => let r := threshold i impl; { model := r.model, spec := r.spec, cls := r.cls }
    | none => badOp
  | ["certinfo", mode, pool, total, fnum, fden] =>
    -- diagnostic (never generated): which validation branch an input takes
    match parseInput mode pool total fnum fden with
    | some i =>
      match guards i with
      | .general a b n m U =>
        if exactFeasible b m U then { model := "branch=certOK" }
        else if (findExact a b n m U).isSome then { model := "branch=exactroot" }
        else match GV.Lib.IntervalPow.certify a b n m U with
          | some _ => { model := "branch=ratcert" }
          | none => { model := "branch=fallback" }
      | _ => { model := "branch=guard" }
    | none => badOp
  | ["below", mode, vrf, thr] =>
    match parseNat? mode, parseHex? vrf with
    | some mode, some vrf =>
      let t := if thr = "nil" then some none else (parseNat? thr).map some
      match t with
      | none => badOp
      | some t =>
        match below mode leaderValue vrf t with
        | none => { model := "err:mode", spec := "err:*" }
        | some r =>
          -- the statement: eligible exactly when the leader value is below the threshold
          let spec := match t with
            | some tv => if vrf.isEmpty then "*" else
                boolStr (decide (beNat (if mode = 1 then vrf else leaderValue vrf) < tv))
            | none => "*"
          { model := boolStr r, spec := spec }
    | _, _ => badOp
  | ["elig", mode, pool, total, fnum, fden, vrf] =>
    match parseInput mode pool total fnum fden, parseHex? vrf with
    | some i, some vrf =>
      if i.mode ≠ 0 ∧ i.mode ≠ 1 then { model := "err:mode", spec := "err:*" }
      else if i.fNil ∨ i.total = 0 ∨ i.pool = 0 then { model := "0" }
      else if vrf.length ≠ 64 then { model := "0" }
      else
        -- the threshold the implementation used is not visible here: recompute it
        match guards i with
        | .err k => { model := s!"err:{k}", spec := "err:*" }
        | .val t =>
          let r := boolStr (decide (beNat (if i.mode = 1 then vrf else leaderValue vrf) < t))
          { model := r, spec := if i.fNum < 0 then "*" else r }
        | .general a b n m U =>
          if exactFeasible b m U then
            match certified a b n m U with
            | some t =>
              let r := boolStr (decide (beNat (if i.mode = 1 then vrf else leaderValue vrf) < t))
              { model := r, spec := r }
            | none => { model := "cert-search-failed" }
          else
            let iv := match findExact a b n m U with
              | some (_, _, t) => (t, t)
              | none => match GV.Lib.IntervalPow.certify a b n m U with
                | some (t, _) => (t, t)
                | none => GV.Lib.IntervalPow.threshold a b n m U
            let v := beNat (if i.mode = 1 then vrf else leaderValue vrf)
            if v < iv.1 then { model := "1", spec := "1" }
            else if iv.2 ≤ v then { model := "0", spec := "0" }
            else { model := impl }   -- inside an unresolved enclosure: not decided here
    | _, _ => badOp
  | _ => badOp

def handle (line : String) : GV.Line.Out :=
  match line.splitOn "\t" with
  | [op, impl] => handleOp op impl
  | [op] => handleOp op ""
  | _ => badOp

end GV.Drv.C37
