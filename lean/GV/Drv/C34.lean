import GV.Lib.Line
import GV.Model.BodyHash
/-
  C34 driver (feed_impl): input line = `op \t impl-output`
    op   : mut <fixture> <skip 0|1>[+<mask of the other VerifyConfig toggles>] <splices>
    impl : <verdict> ;; <era> lay=<segwit|dijkstra|byron|ebb> skip=<y|n> real=<y|n> split=<y|n> hdr=<y|n>
           chg=<y|n> unc=… n=<top-level count> … digests computed by the harness itself (not by gouroboros)

  The model functions of GV.Model.BodyHash are run with an *oracle* digest: a segment is
  represented by the placeholder bytes `0x53 :: digest` and `h` answers from the table the
  harness supplied (digest of each top-level segment, hash of the concatenation of the first k
  segment digests for every k). Which k is used is decided by the model from
  GV.Gen.SegCounts (regenerated from /repo). Whether the CBOR decodes into the era's structs is
  not predictable from digests: `wf` echoes the implementation (`err:decode`).

  spec (independent of the model; uses only the flags the harness computed by byte comparison
  with the real block): real block → `ok*`; skip → `*`; same header bytes and committed body
  content changed → must not be ok; otherwise `*`.
-/
namespace GV.Drv.C34
open GV.Line GV.Model.BodyHash

def kv (toks : List String) (k : String) : Option String :=
  toks.findSome? fun t => match t.splitOn "=" with
    | [a, b] => if a = k then some b else none
    | _ => none

def hexList (s : String) : Option (List Bytes) :=
  if s = "-" then some [] else (s.splitOn ",").mapM parseHex?

def dig? (s : String) : Option Bytes :=
  if s = "-" then none else
  match parseHex? s with
  | some b => if b.length = 32 then some b else none
  | none => none

def ph (d : Bytes) : Bytes := 0x53 :: d

/-- oracle digest for the segwit / dijkstra / ebb layouts -/
def oracle (table : List (Bytes × Bytes)) : Prims Bytes :=
  { h := fun b => match b with
      | 0x53 :: d => d
      | _ => (table.lookup b).getD []
    enc := id }

def concats (ds : List Bytes) (hh : List Bytes) : List (Bytes × Bytes) :=
  (List.range hh.length).map fun k => (((ds.drop 1).take (k + 1)).flatten, hh.getD k [])

def implClass (v : String) : String := if v.startsWith "ok " then "ok" else v

def specOf (f : List String) : String :=
  if kv f "real" = some "y" then "ok*"
  else if kv f "skip" = some "y" then "*"
  else if kv f "split" = some "y" ∧ kv f "hdr" = some "y" ∧ kv f "chg" = some "y" then
    "err:bodyhash*||err:decode*||err:bodyproof*"
  else "*"

def modelVerdict (verdict : String) (f : List String) : Option String := do
  let era ← f.head?
  let lay ← kv f "lay"
  -- the config as the harness built it; whether the body check is skipped is decided by the
  -- field that gates it IN THE SOURCE (regenerated), not by assuming it is the right one
  let mask := ((kv f "flags").bind parseNat?).getD 0
  let gateEra := if lay = "ebb" then "byronebb" else era
  let skip := skipped gateEra (cfgOf (kv f "skip" = some "y") mask)
  let cls := implClass verdict
  if cls = "err:panic" then return cls
  if kv f "split" ≠ some "y" then return "err:decode"
  let wfEcho := cls ≠ "err:decode"
  let n ← (kv f "n").bind parseNat?
  let bh ← kv f "bh"
  let render (v : Verdict) : String := match v with
    | .ok => "ok hash=" ++ bh
    | v => v.render
  match lay with
  | "segwit" | "dijkstra" =>
    let ds ← (kv f "d").bind hexList
    let hh ← (kv f "hh").bind hexList
    let exp := (kv f "exp").bind dig?
    let segs := (List.range n).map fun i => ph (ds.getD i [])
    let P := oracle (concats ds hh)
    if lay = "segwit" then
      let E ← eraOf era
      return render (decodeSegwit P E (fun _ => wfEcho) (fun _ => exp) skip segs)
    else
      return render (decodeDijkstra P GV.Gen.SegCounts.dijkstraArity (fun _ => wfEcho) (fun _ => exp) skip segs)
  | "ebb" =>
    let exp := (kv f "exp").bind dig?
    let d1 := ((kv f "d1").bind dig?).getD []
    let segs := (List.range n).map fun i => if i = 1 then ph d1 else ph []
    return render (decodeEbb (oracle []) (fun _ => wfEcho) (fun _ => exp) skip segs)
  | "byron" =>
    if kv f "parts" ≠ some "y" then
      -- the harness could not see the [txs, ssc, dlg, upd] shape (e.g. a null body): with the skip
      -- flag the verdict is the structural one; otherwise a rejection is echoed, an acceptance is not
      -- something the model can justify
      if skip then
        return render (decodeByron (oracle []) (fun _ => []) wfEcho none true true
          { txs := [], ssc := [], dlg := [], upd := [] })
      else return (if cls = "ok" then "err:decode" else cls)
    let cnt ← (kv f "cnt").bind parseNat?
    let g (k : String) : Option Bytes := (kv f k).bind dig?
    let mrD ← g "mr"; let witD ← g "wit"; let dlgD ← g "dlg"; let updD ← g "upd"
    let expected : Option (ByronProof Bytes) := do
      let c ← (kv f "ecnt").bind parseNat?
      let m ← g "emr"; let w ← g "ewit"; let d ← g "edlg"; let u ← g "eupd"
      pure { count := c, merkle := m, wit := w, dlg := d, upd := u }
    let P : Prims Bytes :=
      { h := fun b => match b with
          | 0x9f :: _ => witD
          | [0x44] => dlgD
          | [0x55] => updD
          | _ => []
        enc := id }
    let body : ByronBody := { txs := List.replicate cnt ([0x42], [0x57]), ssc := [], dlg := [0x44], upd := [0x55] }
    -- the structural ssc check and a malformed header proof are echoed, not modelled
    let sscOK := cls ≠ "err:bodyproof:ssc"
    return render (decodeByron P (fun _ => mrD) wfEcho expected sscOK skip body)
  | _ => none

def pairClass (a b : String) : String :=
  match decide (implClass a = "ok"), decide (implClass b = "ok") with
  | true, true => "both-ok"
  | true, false => "a-only"
  | false, true => "b-only"
  | false, false => "neither"

/-- `<class> A=<verdictA> B=<verdictB>` → (verdictA, verdictB) -/
def pairVerdicts (v : String) : Option (String × String) :=
  match v.splitOn " B=" with
  | [l, b] => match l.splitOn " A=" with
    | [_, a] => some (a, b)
    | _ => none
  | _ => none

/-- pair op: the property's own shape as the spec — same header bytes, different committed body
    content, validation on ⇒ not both accepted. -/
def pairSpec (pf : List String) : String :=
  if kv pf "skip" = some "n" ∧ kv pf "samehdr" = some "y" ∧ kv pf "bodydiff" = some "y" then
    "a-only*||b-only*||neither*"
  else "*"

def handle (line : String) : Out :=
  match line.splitOn "\t" with
  | [_op, impl] =>
    match impl.splitOn " ;; " with
    | [v, pf, fa, fb] =>
      let rest := " ;; " ++ pf ++ " ;; " ++ fa ++ " ;; " ++ fb
      match pairVerdicts v with
      | some (va, vb) =>
        match modelVerdict va (tokens fa), modelVerdict vb (tokens fb) with
        | some ma, some mb =>
          { model := pairClass ma mb ++ " A=" ++ ma ++ " B=" ++ mb ++ rest, spec := pairSpec (tokens pf) }
        | _, _ => { model := "bad-facts" ++ rest, spec := pairSpec (tokens pf) }
      | none => { model := "bad-impl-output", spec := "*" }
    | [verdict, facts] =>
      let f := tokens facts
      match modelVerdict verdict f with
      | some m => { model := m ++ " ;; " ++ facts, spec := specOf f }
      | none => { model := "bad-facts ;; " ++ facts, spec := specOf f }
    | _ => { model := if impl.startsWith "bad-op" then impl else "bad-impl-output", spec := "*" }
  | _ => badOp

end GV.Drv.C34
