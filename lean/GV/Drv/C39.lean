import GV.Lib.Line
import GV.Model.KesSym
import GV.Gen.GoLite
/-
  op:  kes <d> <seedhex> <oseedhex> <t> <p> <keyterm> <m0hex> <m1hex> <signmsg> <vermsg> <mutation…>
       d ∈ 1..7; t = number of Update calls; p = period passed to Sign;
       keyterm = the verification key presented; signmsg/vermsg ∈ {0,1} select m0/m1
       terms: v.<h>.<r>.<path> (subtree key of height h) | p.<r>.<path> | s.<r>.<path> | z |
              g.<r>.<path>.<mi> | x.<hex>          (path over L/R, "-" = empty; r ∈ {0,1})
       mutation: none | flip <byte> <bit> | set <cell> <term> | swap <i> <j> | trunc <k> | ext <k>
  out: pk=<b> back=<b> sign=<ok|err> v=<verdict per period 0..2^d+1>+<2^32,2^63,2^64-1> |
       upd=<n> uerr=<e> per=<period> serr=<e> perr=<e> wiped=<b> data=<cell names> sig=<cell names>
  The model runs on the free term instance `sym`; the harness names the real bytes by the same terms.
-/
namespace GV.Drv.C39
open GV.Line GV.Model.Kes GV.Model.KesSym

def parsePath (s : String) : Option (List Bool) :=
  if s = "-" then some [] else
  s.toList.mapM (fun c => if c = 'L' then some false else if c = 'R' then some true else none)

def mkSeed (r : Nat) (p : List Bool) : Tm := p.foldl (fun s b => Tm.exp s b) (Tm.root r)

structure Ctx where
  sameSeed : Bool
  sameMsg : Bool

def Ctx.root (c : Ctx) (r : Nat) : Nat := if c.sameSeed then 0 else r
def Ctx.msg (c : Ctx) (i : Nat) : Nat := if c.sameMsg then 0 else i

/-- (term, byte length) -/
def parseTerm (c : Ctx) (s : String) : Option (Tm × Nat) :=
  match s.splitOn "." with
  | ["z"] => some (Tm.zero, 32)
  | ["x", h] => (parseHex? h).map (fun b => (Tm.junk 0, b.length))
  | ["s", r, p] => do
    let r ← parseNat? r; let p ← parsePath p
    if r > 1 then none else pure (mkSeed (c.root r) p, 32)
  | ["p", r, p] => do
    let r ← parseNat? r; let p ← parsePath p
    if r > 1 then none else pure (Tm.pk (mkSeed (c.root r) p), 32)
  | ["v", h, r, p] => do
    let h ← parseNat? h; let r ← parseNat? r; let p ← parsePath p
    if r > 1 ∨ h > 8 then none else pure (pkFromSeed sym h (mkSeed (c.root r) p), 32)
  | ["g", r, p, m] => do
    let r ← parseNat? r; let p ← parsePath p; let m ← parseNat? m
    if r > 1 ∨ m > 1 then none else pure (Tm.sg (mkSeed (c.root r) p) (c.msg m), 64)
  | _ => none

inductive Mut where
  | none | junkCell (i : Nat) | set (i : Nat) (t : Tm) | swap (i j : Nat) | len (delta : Int)

def parseMut (c : Ctx) (d : Nat) : List String → Option Mut
  | ["none"] => some .none
  | ["flip", b, bit] => do
    let b ← parseNat? b; let bit ← parseNat? bit
    if b ≥ signatureSize d ∨ bit > 7 then none
    else pure (.junkCell (if b < 64 then 0 else 1 + (b - 64) / 32))
  | ["set", i, t] => do
    let i ← parseNat? i; let (t, n) ← parseTerm c t
    if i > 2 * d then none
    else if (i = 0 ∧ n ≠ 64) ∨ (i ≠ 0 ∧ n ≠ 32) then none
    else pure (.set i t)
  | ["swap", i, j] => do
    let i ← parseNat? i; let j ← parseNat? j
    if i = 0 ∨ j = 0 ∨ i > 2 * d ∨ j > 2 * d then none else pure (.swap i j)
  | ["trunc", k] => do
    let k ← parseNat? k
    if k = 0 ∨ k > signatureSize d then none else pure (.len (-(k : Int)))
  | ["ext", k] => do
    let k ← parseNat? k
    if k = 0 ∨ k > 1000 then none else pure (.len k)
  | _ => none

def cellTm : Cell Tm Tm Tm → Tm
  | .seed s => s | .key k => k | .sig σ => σ

def applyMut (cells : List Tm) : Mut → List Tm
  | .none => cells
  | .junkCell i => cells.set i (Tm.junk 1)
  | .set i t => cells.set i t
  | .swap i j => (cells.set i (cells.getD j (Tm.junk 2))).set j (cells.getD i (Tm.junk 2))
  | .len _ => cells

def join (l : List String) : String := ",".intercalate l

def updErrStr : UpdErr → String | .erased => "erased" | .exhausted => "exhausted"
def signErrStr : SignErr → String
  | .erased => "erased" | .periodTooLarge => "period" | .wrongPeriod => "wrong"

structure UpdRes where
  sk : SecretKey Tm Tm
  n : Nat
  err : String
  pkSame : Bool
  wiped : Bool

def runUpdates (pk0 : Tm) : Nat → UpdRes → UpdRes
  | 0, r => r
  | n + 1, r =>
    match update sym r.sk with
    | .error e => { r with err := updErrStr e }
    | .ok sk' =>
      let old := erase r.sk
      let w := match sign sym old old.period (0 : Nat) with
        | .error .erased => old.data.isNone
        | _ => false
      let same := sk'.pk == pk0 &&
        (match sk'.data with | some k => publicKeyInternal sym k == pk0 | none => false)
      runUpdates pk0 n { sk := sk', n := r.n + 1, err := r.err, pkSame := r.pkSame && same,
                         wiped := r.wiped && w }

def periods (d : Nat) : List Nat := List.range (2 ^ d + 2)
def bigPeriods : List Nat := [2 ^ 32, 2 ^ 63, 2 ^ 64 - 1]

def bits (l : List Bool) : String := String.ofList (l.map (fun b => if b then '1' else '0'))

/-- an all-zero key / signature of the given depth -/
def zeroKey : Nat → SKey Tm Tm
  | 0 => .leaf Tm.zero
  | d + 1 => .node (zeroKey d) Tm.zero Tm.zero Tm.zero

/-- `kesd <depth> <period>`: MaxPeriod / SignatureSize (the regenerated GoLite translations of the
    Go functions), parsing and verifying an all-zero signature, Sign / Update on an all-zero key,
    at depths around and beyond the width of the `1 << depth` shift. -/
def handleDepth (depth period : Nat) : Out :=
  -- (`2 ^ depth` cannot be evaluated for astronomically large depths: beyond 1000 the proved
  --  closed form `gen_maxPeriod_eq` is used)
  let mx : Int := if depth ≤ 1000 then GV.Gen.GoLite.kesMaxPeriod (depth : Int) else (shl1 depth : Int)
  let sz := GV.Gen.GoLite.kesSignatureSize (depth : Int)
  let head := s!"max={mx} size={sz}"
  if depth > 200 then { model := head ++ " parse=- parse1=- v=- sign=- upd=-" }
  else if depth = 0 then
    let p := match newSumKesFromBytes (Key := Tm) 0 64 Tm.zero [] with | .ok _ => "ok" | .error _ => "err"
    { model := head ++ s!" parse={p} parse1=- v=- sign=- upd=-" }
  else
    let keys := List.replicate (2 * depth) Tm.zero
    let n := signatureSize depth
    let (p, v) := match newSumKesFromBytes depth n Tm.zero keys with
      | .ok ks => ("ok", boolStr (verify sym ks period Tm.zero (0 : Nat)))
      | .error _ => ("err", "-")
    let p1 := match newSumKesFromBytes depth (n + 1) Tm.zero keys with | .ok _ => "ok" | .error _ => "err"
    let sk : SecretKey Tm Tm := { depth := depth, period := 0, data := some (zeroKey depth), pk := Tm.zero }
    let sg := match sign sym sk period (0 : Nat) with
      | .ok _ => "ok" | .error .erased => "err:erased" | .error .periodTooLarge => "err:period"
      | .error .wrongPeriod => "err:wrong"
    let up := match update sym sk with
      | .ok _ => "ok" | .error .erased => "err:erased" | .error .exhausted => "err:exhausted"
    { model := head ++ s!" parse={p} parse1={p1} v={v} sign={sg} upd={up}" }

def handle (line : String) : Out :=
  match tokens line with
  | ["kesd", depth, period] =>
    match parseNat? depth, parseNat? period with
    | some d, some p => if d ≥ 2 ^ 64 ∨ p ≥ 2 ^ 64 then badOp else handleDepth d p
    | _, _ => badOp
  | "kes" :: d :: seed :: oseed :: t :: p :: keyT :: m0 :: m1 :: sm :: vm :: mutToks =>
    match parseNat? d, parseNat? t, parseNat? p, parseNat? sm, parseNat? vm with
    | some d, some t, some p, some sm, some vm =>
      if d = 0 ∨ d > 7 ∨ sm > 1 ∨ vm > 1 ∨ t > 300 then badOp else
      let ctx : Ctx := { sameSeed := seed == oseed, sameMsg := m0 == m1 }
      match parseTerm ctx keyT, parseMut ctx d mutToks with
      | some (key, 32), some mu =>
        let sk0 := keyGen sym d (Tm.root 0)
        let pk0 := sk0.pk
        let ur := runUpdates pk0 t { sk := sk0, n := 0, err := "-", pkSame := true, wiped := true }
        let sk := ur.sk
        let dataCells : List Tm := match sk.data with
          | some k => (k.cells (Sig := Tm)).map cellTm | none => []
        let seeds : List Tm := match sk.data with | some k => k.seeds | none => []
        let back := (List.range sk.period).any fun t' =>
          seeds.any fun c => derivesB c (leafSeed sym d (Tm.root 0) t')
        let pkOk := ur.pkSame && (pk0 == pkFromSeed sym d (Tm.root 0))
        let sres := sign sym sk p (ctx.msg sm)
        let (signS, serr, vS, perr, sigNames) : String × String × String × String × String :=
          match sres with
          | .error e => ("err", signErrStr e, "-", "-", "-")
          | .ok σ =>
            let cells : List Tm := (σ.cells (Seed := Tm)).map cellTm
            let mcells := applyMut cells mu
            let len : Nat := match mu with
              | .len δ => ((signatureSize d : Int) + δ).toNat
              | _ => signatureSize d
            match mcells with
            | [] => ("ok", "-", "perr", "len", join (cells.map name))
            | σc :: keys =>
              match newSumKesFromBytes d len σc keys with
              | .error _ => ("ok", "-", "perr", "len", join (cells.map name))
              | .ok ks =>
                let f := fun q => verify sym ks q key (ctx.msg vm)
                ("ok", "-", bits ((periods d).map f) ++ "+" ++ bits (bigPeriods.map f), "-",
                 join (cells.map name))
        let model := s!"pk={boolStr pkOk} back={boolStr back} sign={signS} v={vS} | upd={ur.n} uerr={ur.err} per={sk.period} serr={serr} perr={perr} wiped={boolStr ur.wiped} data={join (dataCells.map name)} sig={sigNames}"
        -- what the property demands, stated from the op alone
        let k := min t (2 ^ d - 1)
        let own := key == pkFromSeed sym d (Tm.root 0)
        let spec :=
          if p < k then "pk=1 back=0 sign=err *"
          else if p > k then "pk=1 back=0 *"
          else
            -- The signature handed to the verifier is the one made at period k by the key evolved
            -- k times, with the mutation applied.  It must be accepted at period q under key K for
            -- message m' exactly when K is the key's public key, q is a period of the key and the
            -- byte string is the genuine signature of m' for period q.
            let made : List Tm :=
              ((signInternal sym (stateAt sym d (Tm.root 0) k) k (ctx.msg sm)).cells (Seed := Tm)).map cellTm
            let presented := applyMut made mu
            match mu with
            | .len _ => "pk=1 back=0 sign=ok v=perr *"
            | _ =>
              let exp := fun q => own && decide (q < 2 ^ d) &&
                (presented == ((signInternal sym (stateAt sym d (Tm.root 0) q) q (ctx.msg vm)).cells
                                (Seed := Tm)).map cellTm)
              s!"pk=1 back=0 sign=ok v={bits ((periods d).map exp)}+000 *"
        { model := model, spec := spec }
      | _, _ => badOp
    | _, _, _, _, _ => badOp
  | _ => badOp

end GV.Drv.C39
