import GV.Lib.Line
import GV.Lib.VersionTable
/-
  op:  enc <table> <version> <magic> <dm> <ps> <q>
       the table's generated entry for <version>, encoded, then decoded with the version's decoder
  out: dec=<m= dm= ps= q=|err|nodecoder> gen=<m= dm= ps= q=> hex=<encoding>
  op:  dec <kind 1..5> <hex>          NewVersionData<kind>FromCbor on raw bytes
  out: ok m= dm= ps= q=  |  err
-/
namespace GV.Drv.C20
open GV.Line GV.Model.VersionData GV.Model.Handshake GV.Lib.VersionTable

def b01 (b : Bool) : String := if b then "1" else "0"

/-- what the property demands of the decoded accessors, by table and version number only -/
def expected (table : String) (v magic : Nat) (dm ps q : Bool) : String :=
  let ntc := table == "ntc" || table == "dmq"
  let dmE := if ntc then true else dm
  let psE := if ntc then false else if table == "dmqn" then ps else (decide (v ≥ 11) && ps)
  let qE :=
    if table == "dmq" || table == "dmqn" then q
    else if table == "ntc" then (decide (v ≥ 32768 + 15) && q)
    else (decide (v ≥ 11) && q)
  s!"m={magic} dm={b01 dmE} ps={b01 psE} q={b01 qE}"

def handle (line : String) : Out :=
  match tokens line with
  | ["enc", table, v, magic, dm, ps, q] =>
    match shape? table, parseNat? v, parseNat? magic, parseBool? dm, parseBool? ps, parseBool? q with
    | some shape, some v, some magic, some dm, some ps, some q =>
      if magic ≥ 4294967296 then badOp else
      match genMap shape [v] magic dm ps q with
      | some [(_, e)] =>
        let bytes := encode e
        let dec := match lk v with
          | none => "nodecoder"
          | some k => match decode k bytes with
            | some d => d.render
            | none => "err"
        let hex := toHex (bytes.map UInt8.ofNat)
        let ex := expected table v magic dm ps q
        { model := s!"dec={dec} gen={e.render} hex={hex}", spec := s!"dec={ex} gen={ex} *" }
      | _ => badOp
    | _, _, _, _, _, _ => badOp
  | ["dec", k, hex] =>
    match (parseNat? k).bind Kind.ofNat?, parseHex? hex with
    | some k, some b =>
      match decode k (b.map (·.toNat)) with
      | some d => { model := "ok " ++ d.render }
      | none => { model := "err" }
    | _, _ => badOp
  | _ => badOp

end GV.Drv.C20
