import GV.Lib.Line
import GV.Model.Shutdown
/-
  op:  adv <call> <script>                      (see harness/c15.go)
  out: ret=<ok|err|HANG> close=<ok|HANG> errchan=<closed|open> leak=<n>
  The script is translated into the peer events of GV.Model.Shutdown; the
  request under test has kind 0, "another kind" is kind 1.
-/
namespace GV.Drv.C15
open GV.Line GV.Model.Shutdown

def calls : List String := ["ltm.has", "ltm.next", "ltm.sizes", "ltm.acq", "lsq.acq", "lsq.query", "lts.submit",
  "ps.get", "bf.get", "bf.range", "cs.sync", "cs.tip"]

def events (script : String) : Option (List PeerEv) :=
  if script = "ok" then some [.reply 0]
  else if script = "extra" then some [.reply 0, .reply 0]
  else if script = "wrong" then some [.reply 1]
  else if script = "silent" ∨ script = "close" then some []
  else if script = "garbage" ∨ script = "trunc" ∨ script = "unknown" then some [.junk]
  else none

def handle (line : String) : Out :=
  match tokens line with
  | ["adv", call, script] =>
    if !(calls.contains call) then badOp else
    match events script with
    | none => badOp
    | some evs =>
      let ret := match outcome fixed 0 evs with
        | some true => "ok" | some false => "err" | none => "HANG"
      let leak := if leaks fixed 0 evs then "1" else "0"
      let model := s!"ret={ret} close=ok errchan=closed leak={leak}"
      -- the property: the call returns (a result or an error), Close returns, the error
      -- channel is closed, no goroutine remains
      { model, spec := "ret=ok close=ok errchan=closed leak=0||ret=err close=ok errchan=closed leak=0" }
  | _ => badOp

end GV.Drv.C15
