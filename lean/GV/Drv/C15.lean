import GV.Lib.Line
import GV.Model.Shutdown
/-
  op:  adv <call> <script>                      (see harness/c15.go)
  out: ret=<ok|err|HANG> close=<ok|HANG> errchan=<closed|open> leak=<n>
  The script is translated into the peer events of GV.Model.Shutdown; the
  request under test has kind 0, "another kind" is kind 1.
-/
namespace GV.Drv.C15
open GV.Line GV.Model.Shutdown

def calls : List String := ["ltm.has", "ltm.next", "ltm.sizes", "ltm.acq", "lsq.acq", "lsq.query", "lts.submit",
  "ps.get", "bf.get", "bf.range", "cs.sync", "cs.tip", "txs.ids", "txs.txs", "bf.getstop", "cs.syncstop"]

/-- calls whose blocking part is the protocol client's own Stop() after a correctly answered request -/
def stopCalls : List String := ["bf.getstop", "cs.syncstop"]

def events (call script : String) : Option (List PeerEv) :=
  if script = "ok" then some [.reply 0]
  else if script = "extra" then some [.reply 0, .reply 0]
  else if script = "flood" then some [.reply 0, .flood]
  else if script = "wrong" then some [.reply 1]
  else if script = "silent" ∨ script = "close" then some []
  -- the reply without its last message: nothing the caller waits for — except GetBlockRange,
  -- which returns as soon as the batch has started
  else if script = "mid" then (if call = "bf.range" then some [.reply 0] else some [])
  else if script = "garbage" ∨ script = "trunc" ∨ script = "unknown" then some [.junk]
  else none

def handle (line : String) : Out :=
  match tokens line with
  | ["adv", call, script] =>
    if !(calls.contains call) then badOp else
    match events call script with
    | none => badOp
    | some evs =>
      if stopCalls.contains call then
        -- the request was answered before the script; then the script; then Stop()
        let evs' := PeerEv.reply 0 :: (evs.filter (· != PeerEv.reply 0))
        let ret := if stopReturns fixed 0 evs' then "ok" else "HANG"
        let model := s!"ret={ret} close=ok errchan=closed leak=0"
        { model, spec := "ret=ok close=ok errchan=closed leak=0||ret=err close=ok errchan=closed leak=0" }
      else
      let ret := match outcome fixed 0 evs with
        | some true => "ok" | some false => "err" | none => "HANG"
      let leak := if leaks fixed 0 evs then "1" else "0"
      let model := s!"ret={ret} close=ok errchan=closed leak={leak}"
      -- the property: the call returns (a result or an error), Close returns, the error
      -- channel is closed, no goroutine remains
      { model, spec := "ret=ok close=ok errchan=closed leak=0||ret=err close=ok errchan=closed leak=0" }
  | _ => badOp

end GV.Drv.C15
