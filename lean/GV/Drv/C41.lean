import GV.Lib.Line
import GV.Model.Selection
/-
  ops (feed_impl: each line is `op \t impl-output`); <P> = `<k> <window> <forkSlot> <forkBN> <tipBN>`
    deep <k> <forkBN> <tipBN>              IsDeepFork                          → 0|1
    dens <window> <forkSlot> <tip>         Density / BlocksInWindow            → bits=<float64 bits> biw=<n|->
    cmp  <P> 2 <a> <b>                     Compare                             → -1|0|1
    cwd  <P> 2 <a> <b>                     CompareWithDensity                  → -1|0|1
    tri  <P> 3 <a> <b> <c>                 CompareWithDensity on all ordered pairs → ab ba bc cb ac ca
    tric <P> 3 <a> <b> <c>                 Compare on all ordered pairs
    pref|prefd <P> <n> <tips…> [perm…]     Preferred / PreferredWithDensity    → pref=<idx|nil> vs=<cmp(pref, cand_j)…>
                                           [pref2=<idx in original numbering> eq=<cmp(pref, pref2)>]
    gcmp <w:t> <w:t> | gpref <w:t>…        GenesisSelector.Compare / Preferred
  tip = nil | S:<bn>:<vrf hex>:<blocksAfterFork>:<slotsAfterFork> | W:<bn>:<vrf hex>:<slot,slot,…|->
  The spec column is the property's monitor evaluated on the IMPLEMENTATION's output:
  antisymmetry + transitivity of the six comparisons, maximality of the preferred
  candidate, equivalence of the answers for two orders; plus the stated rules
  (longer wins, lower VRF wins a tie, window count first on a deep fork).
-/
namespace GV.Drv.C41
open GV.Line GV.Model.Selection

def parseSlots (s : String) : Option (List Nat) :=
  if s = "-" then some [] else (s.splitOn ",").mapM parseNat?

def parseTip (s : String) : Option Cand :=
  if s = "nil" then some none else
  match s.splitOn ":" with
  | ["S", bn, vrf, b, sl] => do
    let bn ← parseNat? bn; let vrf ← parseHex? vrf; let b ← parseNat? b; let sl ← parseNat? sl
    pure (some { bn, vrf, windowed := false, slots := [], blocksAfter := b, slotsAfter := sl })
  | ["W", bn, vrf, slots] => do
    let bn ← parseNat? bn; let vrf ← parseHex? vrf; let slots ← parseSlots slots
    pure (some { bn, vrf, windowed := true, slots, blocksAfter := 0, slotsAfter := 0 })
  | _ => none

structure Args where
  p : Params
  tips : List Cand
  rest : List String

def parseArgs (toks : List String) : Option Args :=
  match toks with
  | k :: w :: fs :: fb :: tb :: n :: more => do
    let k ← parseNat? k; let w ← parseNat? w; let fs ← parseNat? fs
    let fb ← parseNat? fb; let tb ← parseNat? tb; let n ← parseNat? n
    if more.length < n then none else
    let tips ← (more.take n).mapM parseTip
    pure { p := { k, window := w, forkSlot := fs, forkBN := fb, tipBN := tb }, tips, rest := more.drop n }
  | _ => none

def idxStr (r : Cand) (i : Nat) : String := if r.isNone then "nil" else toString i

def joinInts (l : List Int) (sep : String) : String := sep.intercalate (l.map toString)

/-- the class of the recorded finding: a window is configured, the fork is deep, and the
    candidates mix at least two windowed tips with at least one simple tip -/
def mixedClass (p : Params) (tips : List Cand) : Bool :=
  let w := (tips.filter fun c => match c with | some t => t.windowed | none => false).length
  let s := (tips.filter fun c => match c with | some t => !t.windowed | none => false).length
  decide (p.window > 0) && isDeepFork p.k p.forkBN p.tipBN && decide (w ≥ 2) && decide (s ≥ 1)

/-- what the statement says about one comparison (independent of the model's `compareTips`):
    longer wins; equal length with two present VRF outputs: lower value wins. `none` = unsaid. -/
def ruleOrdinary (x y : Tip) : Option Int :=
  if x.bn > y.bn then some 1 else if x.bn < y.bn then some (-1)
  else if x.vrf ≠ [] ∧ y.vrf ≠ [] then
    let a := vrfNat x.vrf; let b := vrfNat y.vrf
    if a < b then some 1 else if a > b then some (-1) else some 0
  else none

def specOfRule (r : Option Int) : String := match r with | some v => toString v | none => "*"

def parseIntList (s : String) (sep : String) : Option (List Int) := (s.splitOn sep).mapM parseInt?

/-- antisymmetry and transitivity of the six comparisons ab ba bc cb ac ca -/
def preorderOK (v : List Int) : Bool :=
  match v with
  | [ab, ba, bc, cb, ac, ca] =>
    let anti := ba == -ab && cb == -bc && ca == -ac
    let tr (xy yz xz : Int) : Bool := !(decide (0 ≤ xy) && decide (0 ≤ yz)) || decide (0 ≤ xz)
    anti && tr ab bc ac && tr ac cb ab && tr ba ac bc && tr bc ca ba && tr ca ab cb && tr cb ba ca
  | _ => false

def field (impl key : String) : Option String :=
  (impl.splitOn " ").findSome? fun kv =>
    if kv.startsWith (key ++ "=") then some (kv.drop (key.length + 1)).toString else none

/-- maximality / order-independence read off the implementation's output -/
def prefOK (impl : String) : Bool :=
  let vsOK := match field impl "vs" with
    | some s => match parseIntList s "," with | some l => l.all (fun v => decide (0 ≤ v)) | none => false
    | none => false
  let eqOK := match field impl "eq" with
    | some s => s == "0"
    | none => true
  vsOK && eqOK

def applyPerm (tips : List Cand) (perm : List String) : Option (List (Nat × Cand)) :=
  perm.mapM fun s => do
    let j ← parseNat? s
    let c ← tips[j]?
    pure (j, c)

def prefOut (cmp : Cand → Cand → Int) (a : Args) : Option String :=
  match selectPreferred cmp a.tips with
  | none => some "pref=nil"
  | some (i, r) =>
    let base := s!"pref={idxStr r i} vs={joinInts (a.tips.map (cmp r)) ","}"
    if a.rest.isEmpty then some base else do
      let pl ← applyPerm a.tips a.rest
      match selectPreferred cmp (pl.map (·.2)) with
      | none => none
      | some (i2, r2) =>
        let orig := match pl[i2]? with | some (j, _) => j | none => 0
        some s!"{base} pref2={idxStr r2 orig} eq={cmp r r2}"

def parseFrag (s : String) : Option Frag :=
  match s.splitOn ":" with
  | [a, b] => do let a ← parseNat? a; let b ← parseNat? b; pure ⟨a, b⟩
  | _ => none

def handleOp (op impl : String) : Out :=
  match tokens op with
  | ["deep", k, fb, tb] =>
    match parseNat? k, parseNat? fb, parseNat? tb with
    | some k, some fb, some tb =>
      { model := boolStr (isDeepFork k fb tb),
        -- the statement: deeper than k blocks
        spec := boolStr (decide (fb < tb ∧ tb - fb > k)) }
    | _, _, _ => badOp
  | ["dens", w, fs, tip] =>
    match parseNat? w, parseNat? fs, parseTip tip with
    | some w, some fs, some (some t) =>
      let biw := if t.windowed then toString (blocksInWindow t fs w) else "-"
      { model := s!"bits={(density t fs).bits} biw={biw}" }
    | _, _, _ => badOp
  | "gcmp" :: rest =>
    match rest.mapM parseFrag with
    | some [a, b] => { model := toString (genesisCompare a b) }
    | _ => badOp
  | "gpref" :: rest =>
    match rest.mapM parseFrag with
    | some l =>
      match genesisPreferred l with
      | some (i, r) =>
        { model := s!"pref={i} vs={joinInts (l.map (genesisCompare r)) ","}",
          spec := if prefOK impl then "*" else "!preferred-not-maximal" }
      | none => badOp
    | none => badOp
  | kind :: rest =>
    match parseArgs rest with
    | none => badOp
    | some a =>
      let cwd := compareWithDensity a.p
      match kind, a.tips with
      | "cmp", [x, y] =>
        let spec := match x, y with
          | some x, some y => specOfRule (ruleOrdinary x y)
          | _, _ => "*"
        { model := toString (compareTips x y), spec := spec }
      | "cwd", [x, y] =>
        let spec := match x, y with
          | some x, some y =>
            if !isDeepFork a.p.k a.p.forkBN a.p.tipBN then specOfRule (ruleOrdinary x y)
            else if a.p.window > 0 ∧ x.windowed ∧ y.windowed then
              let cx := blocksInWindow x a.p.forkSlot a.p.window
              let cy := blocksInWindow y a.p.forkSlot a.p.window
              if cx > cy then "1" else if cx < cy then "-1" else specOfRule (ruleOrdinary x y)
            else "*"
          | _, _ => "*"
        { model := toString (cwd x y), spec := spec }
      | "tri", [x, y, z] =>
        let v := [cwd x y, cwd y x, cwd y z, cwd z y, cwd x z, cwd z x]
        let ok := match parseIntList impl " " with | some l => preorderOK l | none => false
        { model := joinInts v " ", spec := if ok then "*" else "!not-a-preorder",
          cls := if mixedClass a.p a.tips then "mixed-metric" else "" }
      | "tric", [x, y, z] =>
        let c := compareTips
        let v := [c x y, c y x, c y z, c z y, c x z, c z x]
        let ok := match parseIntList impl " " with | some l => preorderOK l | none => false
        { model := joinInts v " ", spec := if ok then "*" else "!not-a-preorder" }
      | "pref", _ =>
        match prefOut compareTips a with
        | some s => { model := s, spec := if a.tips.isEmpty then "pref=nil" else if prefOK impl then "*" else "!preferred-not-maximal" }
        | none => badOp
      | "prefd", _ =>
        -- PreferredWithDensity orders the whole set by one metric (windowMetricFor); maximality and
        -- order-independence are demanded for that order (GV.Props.C41.PreferredWithDensity_maximal)
        match prefOut (compareWithDensityMetric a.p (windowMetricFor a.p a.tips)) a with
        | some s => { model := s, spec := if a.tips.isEmpty then "pref=nil" else if prefOK impl then "*" else "!preferred-not-maximal" }
        | none => badOp
      | _, _ => badOp
  | _ => badOp

def handle (line : String) : Out :=
  match line.splitOn "\t" with
  | [op, impl] => handleOp op impl
  | [op] => handleOp op ""
  | _ => badOp

end GV.Drv.C41
