import GV.Lib.Line
import GV.Model.MsgCodec
import GV.Model.MsgWrappers
import GV.Gen.MsgShapes
/-
  C04 driver (feed_impl: `op \t implementation-output`).
  op: rt  <proto> <hex> <render>     hex = cbor.Encode(constructor-built message)
      mut <proto> <hex>              shape mutation
  out: ok <Type>_<render> | err
  Messages whose Go type decodes through its own UnmarshalCBOR are `.opaque` in the
  regenerated shape table: the model admits the implementation's answer for them
  (their round trip is still demanded by the spec column of `rt`).
-/
namespace GV.Drv.C04
open GV.Line GV.Model.MsgCodec GV.CborT

def maxNested : Nat := 256

def lookupShape (proto : String) (ty : Nat) : Option (String × Shape) :=
  match GV.Gen.MsgShapes.table.find? (fun e => e.1 == proto) with
  | none => none
  | some e => (e.2.find? (fun p => p.1 == ty)).map (·.2)

inductive R | err | opaque | ok (s : String)

def run (m : Mode) (proto : String) (b : Bytes) : R :=
  match decode b with
  | none => .err
  | some (t, _) =>
    if depth t > maxNested then .err else
    -- the receive path decodes the outer item as []RawMessage: tag numbers in front are skipped
    let t := if m.tags then stripTags t else t
    match msgTypeOf m t with
    | none => .err
    | some ty =>
      match lookupShape proto ty with
      | none => .err
      | some (name, .opaque) =>
        -- messages with their own UnmarshalCBOR: modelled by hand where GV.Model.MsgWrappers has them
        (match GV.Model.MsgWrappers.special name with
         | some f =>
           (match f m t with
            | .val v => if dupKeys v then .err else .ok s!"ok {name}_{render v}"
            | .rej => .err
            | .unknown => .opaque)
         | none => .opaque)
      | some (name, sh) =>
        match decMsg m sh t with
        | some v => .ok s!"ok {name}_{render v}"
        | none => .err

def accepts (m : Mode) (proto : String) (b : Bytes) : Bool :=
  match run m proto b with | .ok _ => true | _ => false

/-- known-finding class of an input the strict reading rejects and the code accepts -/
def classOf (proto : String) (b : Bytes) : String :=
  if accepts ⟨true, false, false, false⟩ proto b then "null-field"
  else if accepts ⟨false, false, true, false⟩ proto b then "array-as-bytes"
  else if accepts ⟨false, false, false, true⟩ proto b then "fixed-length"
  else if accepts ⟨false, true, false, false⟩ proto b then "tag-stripped"
  else "lenient-mixed"

def handle (line : String) : Out :=
  let (op, impl) := match line.splitOn "\t" with
    | [a] => (a, "") | a :: b :: _ => (a, b) | [] => ("", "")
  match tokens op with
  | kind :: proto :: hex :: rest =>
    if kind != "rt" && kind != "mut" then badOp else
    match parseHex? hex with
    | none => badOp
    | some b =>
      let lax := run Mode.lax proto b
      let model := match lax with | .err => "err" | .opaque => impl | .ok s => s
      if kind == "rt" then
        match rest with
        | [r] => { model, spec := s!"ok {r}" }
        | _ => badOp
      else
        match run Mode.strict proto b, lax with
        | .opaque, _ => { model }
        | _, .opaque => { model }
        | .ok _, _ => { model }
        | .err, .ok _ => { model, spec := "err", cls := classOf proto b }
        | .err, .err => { model, spec := "err" }
  | _ => badOp

end GV.Drv.C04
