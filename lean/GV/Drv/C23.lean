import GV.Lib.Line
import GV.Model.BlockFetch
/-
  op:  get <want|x> <script>      range <script>      (see harness/c23.go)
  script: comma separated S | N | D | B<i> | Bx ;  "-" = empty
  Fixture block i is abstracted to hash i; the point "x" to hash 1000 (no fixture has it).
-/
namespace GV.Drv.C23
open GV.Line GV.Model.BlockFetch

def parseEv (t : String) : Option Ev :=
  if t = "S" then some .start else if t = "N" then some .noBlocks else if t = "D" then some .batchDone
  else if t = "Bx" then some .bad else
  match t.toList with
  | 'B' :: r => (parseNat? (String.ofList r)).map Ev.block
  | _ => none

def parseScript (s : String) : Option (List Ev) :=
  if s = "-" then some [] else
  (s.splitOn ",").foldr (fun t acc => do let e ← parseEv t; let l ← acc; pure (e :: l)) (some [])

def renderRes : Res → String
  | .ok h => s!"ok:{h}"
  | .notFound => "err:notfound"
  | .shutdown => "err:shutdown"
  | .noBlock => "err:noblock"
  | .multi => "err:multi"
  | .mismatch => "err:mismatch"

def renderList (l : List Nat) : String :=
  if l.isEmpty then "-" else ",".intercalate (l.map toString)

/-- the batch shape the property speaks about for a range request: S, blocks, D -/
def wellFormedBatch : List Ev → Option (List Nat)
  | .start :: rest =>
    let rec go : List Ev → List Nat → Option (List Nat)
      | [.batchDone], acc => some acc.reverse
      | .block h :: t, acc => go t (h :: acc)
      | _, _ => none
    go rest []
  | _ => none

def handle (line : String) : Out :=
  match tokens line with
  | ["get", w, sc] =>
    match (if w = "x" then some 1000 else parseNat? w), parseScript sc with
    | some want, some evs =>
      let model := match getBlock want evs with
        | .res r => renderRes r
        | .hang => "HANG"
      -- property: only the requested block, or an error; never a hang
      let spec := if w = "x" then "err:*" else s!"ok:{want}||err:*"
      { model, spec }
    | _, _ => badOp
  | ["range", sc] =>
    match parseScript sc with
    | some evs =>
      let s := rangeRun evs
      let ret := match s.result with | none => "ok" | some r => renderRes r
      let model := s!"ret={ret} cb={renderList s.cbs} done={s.done}"
      -- property: a served batch is delivered in order and then completes
      let spec := match wellFormedBatch evs with
        | some bs => s!"ret=ok cb={renderList bs} done=1"
        | none => "*"
      { model, spec }
    | none => badOp
  | "seq" :: rest => two none rest
  | "conc" :: k :: rest => (match parseNat? k with | some k => two (some k) rest | none => badOp)
  | _ => badOp
where
  /-- two calls on one connection: the busy lock serialises them, so the outcome is the range
      request's outcome followed by the single-block request's, whatever the interleaving -/
  two (k : Option Nat) (rest : List String) : Out :=
    match rest with
    | [sc1, w, sc2] =>
      match parseScript sc1, parseNat? w, parseScript sc2 with
      | some ev1, some want, some ev2 =>
        let wf := wellFormedBatch ev1
        let okShape := (ev1 == [Ev.noBlocks] && k.isNone) || wf.isSome
        let kOk := match k with | none => true | some k => wf.isSome && 1 ≤ k && k < ev1.length
        if !okShape || !kOk || want ≥ 8 then badOp else
        let s := rangeRun ev1
        let ret := match s.result with | none => "ok" | some r => renderRes r
        let r1 := s!"r1: ret={ret} cb={renderList s.cbs} done={s.done}"
        let r2 := match getBlock want ev2 with | .res r => renderRes r | .hang => "HANG"
        -- property: the first request is delivered in order and completes; the second is
        -- answered with the requested block or an error — it neither hangs on the busy lock
        -- nor steals blocks of the running batch
        { model := s!"{r1} | r2: {r2}", spec := s!"{r1} | r2: ok:{want}||{r1} | r2: err:*" }
      | _, _, _ => badOp
    | _ => badOp

end GV.Drv.C23
