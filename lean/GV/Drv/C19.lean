import GV.Lib.Line
import GV.Lib.VersionTable
/-
  op:  acc <via hs|conn> <table ntc|ntn|dmq|dmqn> <magic> <dm> <ps> <q> <proposed> <version> <datahex>
       the initiator proposes the table's generated entries for the versions in <proposed>
       ("all" | "-" | "7,8,13") and is answered `AcceptVersion <version> <data>`.
  out: finished v=<v> m=<magic> dm=<0|1> ps=<0|1> q=<0|1>  |  err:<unproposed|nodecoder|decode|magic>
  op:  qr <via> <table> <magic> <dm> <ps> <q> <proposed> <n> v1 hex1 … vn hexn
       the same initiator answered `QueryReply {v1: hex1, …}`
  out: finished v=0 nil query={<decodable entries>}
-/
namespace GV.Drv.C19
open GV.Line GV.Model.VersionData GV.Model.Handshake GV.Lib.VersionTable

structure Op where
  C : VMap
  /-- the version field of the message as it goes on the wire -/
  ver : Bytes
  data : Bytes

/-- `<n>` (shortest head) | `<n>/<w>` (w-byte argument) | `x<hex>` (any item) -/
def parseVersionField (tok : String) : Option Bytes :=
  if tok.startsWith "x" then (parseHex? (String.ofList (tok.toList.drop 1))).map (·.map (·.toNat))
  else match tok.splitOn "/" with
    | [n] => do
      let n ← parseNat? n
      if n ≥ 18446744073709551616 then none else pure (encodeUint n)
    | [n, w] => do
      let n ← parseNat? n; let w ← parseNat? w
      let be (k : Nat) : Bytes := (List.range k).reverse.map fun i => n / 256 ^ i % 256
      if w = 1 ∧ n < 256 then pure (24 :: be 1)
      else if w = 2 ∧ n < 65536 then pure (25 :: be 2)
      else if w = 4 ∧ n < 4294967296 then pure (26 :: be 4)
      else if w = 8 ∧ n < 18446744073709551616 then pure (27 :: be 8)
      else none
    | _ => none

def parse (toks : List String) : Option Op :=
  match toks with
  | ["acc", via, table, magic, dm, ps, q, proposed, v, data] => do
    if via ≠ "hs" ∧ via ≠ "conn" then none
    let shape ← shape? table
    let magic ← parseNat? magic
    let dm ← parseBool? dm; let ps ← parseBool? ps; let q ← parseBool? q
    let ks ← parseVersions? shape proposed
    let C ← genMap shape ks magic dm ps q
    let ver ← parseVersionField v
    let data ← parseHex? data
    pure { C, ver, data := data.map (·.toNat) }
  | _ => none

def parseRaw : List String → Option RawMap
  | [] => some []
  | v :: h :: rest => do
    let v ← parseNat? v; let h ← parseHex? h; let r ← parseRaw rest
    pure ((v, h.map (·.toNat)) :: r)
  | _ => none

/-- the initiator asked for a query: some proposed entry carries the query flag -/
def proposedQuery (C : VMap) : Bool := C.any fun p => p.2.query

def handleQr (toks : List String) : Out :=
  match toks with
  | "qr" :: via :: table :: magic :: dm :: ps :: q :: proposed :: n :: raw =>
    match (do
      if via ≠ "hs" ∧ via ≠ "conn" then none
      let shape ← shape? table
      let magic ← parseNat? magic
      let dm ← parseBool? dm; let ps ← parseBool? ps; let q ← parseBool? q
      let ks ← parseVersions? shape proposed
      let C ← genMap shape ks magic dm ps q
      let n ← parseNat? n
      let t ← parseRaw raw
      if t.length ≠ n then none
      pure (C, t) : Option (VMap × RawMap)) with
    | none => badOp
    | some (C, t) =>
      let model := renderCOut (clientReceive lk C (.queryReply t))
      -- The property: the initiator completes only with a version it proposed. A query reply
      -- completes the handshake with version 0; that is what was asked for only if the initiator
      -- proposed the query flag. An unsolicited reply must be a handshake failure.
      if proposedQuery C then { model := model }
      else if !(SMsg.queryReply t).wellFormed then { model := model, spec := "err:*" }
      else { model := model, spec := "err:*", cls := "unsolicited-queryreply" }
  | _ => badOp

def handle (line : String) : Out :=
  if (tokens line).head? = some "qr" then handleQr (tokens line) else
  match parse (tokens line) with
  | none => badOp
  | some o =>
    let model := renderCOut (clientReceiveAccept lk o.C o.ver o.data)
    -- The property, stated independently of the client's code path: the handshake may complete
    -- only if the version was proposed, the data is valid for that version (= the version's own
    -- decoder accepts it) and it carries the magic the initiator proposed for that version.
    -- the number the version item stands for (of any size — no range check here): an unsigned
    -- integer / bignum is its value; `null` and simple values are what the library reads them as
    let wire : Option Nat :=
      match readTagged (o.ver.length + 1) o.ver with
      | some (.uint n, []) => some n
      | some (.nullish, []) => some 0
      | some (.simple n, []) => some n
      | _ => none
    let allowed : Bool :=
      match wire with
      | none => false
      | some n =>
        wellFormedOne o.ver &&
        match lookupMap o.C n, lk n with
        | some own, some k =>
          match decode k o.data with
          | some d => wellFormedOne o.data && d.networkMagic == own.networkMagic
          | none => false
        | _, _ => false
    { model := model, spec := if allowed then "*" else "err:*" }

end GV.Drv.C19
