import GV.Lib.Line
import GV.Lib.VersionTable
/-
  op:  acc <via hs|conn> <table ntc|ntn|dmq|dmqn> <magic> <dm> <ps> <q> <proposed> <version> <datahex>
       the initiator proposes the table's generated entries for the versions in <proposed>
       ("all" | "-" | "7,8,13") and is answered `AcceptVersion <version> <data>`.
  out: finished v=<v> m=<magic> dm=<0|1> ps=<0|1> q=<0|1>  |  err:<unproposed|nodecoder|decode|magic>
-/
namespace GV.Drv.C19
open GV.Line GV.Model.VersionData GV.Model.Handshake GV.Lib.VersionTable

structure Op where
  C : VMap
  v : Nat
  data : Bytes

def parse (toks : List String) : Option Op :=
  match toks with
  | ["acc", via, table, magic, dm, ps, q, proposed, v, data] => do
    if via ≠ "hs" ∧ via ≠ "conn" then none
    let shape ← shape? table
    let magic ← parseNat? magic
    let dm ← parseBool? dm; let ps ← parseBool? ps; let q ← parseBool? q
    let ks ← parseVersions? shape proposed
    let C ← genMap shape ks magic dm ps q
    let v ← parseNat? v
    let data ← parseHex? data
    if v ≥ 65536 then none
    pure { C, v, data := data.map (·.toNat) }
  | _ => none

def handle (line : String) : Out :=
  match parse (tokens line) with
  | none => badOp
  | some o =>
    let model := renderCOut (clientHandleAccept lk o.C o.v o.data)
    -- The property, stated independently of the client's code path: the handshake may complete
    -- only if the version was proposed, the data is valid for that version (= the version's own
    -- decoder accepts it) and it carries the magic the initiator proposed for that version.
    let allowed : Bool :=
      match lookupMap o.C o.v, lk o.v with
      | some own, some k =>
        match decode k o.data with
        | some d => d.networkMagic == own.networkMagic
        | none => false
      | _, _ => false
    { model := model, spec := if allowed then "*" else "err:*" }

end GV.Drv.C19
