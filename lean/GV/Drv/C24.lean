import GV.Lib.Line
import GV.Model.TxSub
/-
  feed_impl: the line is `op \t implementation-output`.
  op:  srv <b|n>:<req>:<n|done> | t:<k> ...        (see harness/c24.go)
       cli <b|n>:<ack>:<req>:<k|stop|fail> | t:<k> ...
  model  = the model's own trace for the op
  spec   = `*` when the property monitor (srvOk / cliOk) accepts the
           implementation's recorded trace, otherwise a `!…` string naming the
           violated clause (never equal to an implementation output).
-/
namespace GV.Drv.C24
open GV.Line GV.Model.TxSub

def splitC (s : String) (c : Char) : List String := s.splitOn (String.singleton c)

def dropS (s : String) (n : Nat) : String := String.ofList (s.toList.drop n)

def parseSAct (t : String) : Option SAct :=
  match splitC t ':' with
  | ["t", k] => do let k ← parseNat? k; pure (.reqTxs k)
  | [bn, req, ans] => do
    let b ← (if bn = "b" then some true else if bn = "n" then some false else none)
    let req ← parseInt? req
    if ans = "done" then (if b then some (.reqIdsDone req) else none)
    else do let n ← parseNat? ans; pure (.reqIds b req n)
  | _ => none

def parseWInt (s : String) : Option WInt :=
  match s.toList with
  | '-' :: r => do let n ← parseNat? (String.ofList r); if n = 0 then none else pure (.neg (n - 1))
  | _ => do let n ← parseNat? s; pure (.nat n)

def parseCAct (t : String) : Option CAct :=
  match splitC t ':' with
  | ["t", k] => do let k ← parseNat? k; pure (.reqTxs k)
  | [bn, ack, req, ans] => do
    let b ← (if bn = "b" then some true else if bn = "n" then some false else none)
    let ack ← parseWInt ack; let req ← parseWInt req
    let ans ← (if ans = "stop" then some CbAns.stop else if ans = "fail" then some CbAns.fail
               else (parseNat? ans).map CbAns.ids)
    pure (.reqIds b ack req ans)
  | _ => none

def mapM? {α β} (f : α → Option β) : List α → Option (List β)
  | [] => some []
  | a :: t => do let b ← f a; let r ← mapM? f t; pure (b :: r)

def renderSOut : SOut → String
  | .refused => "X"
  | .txs k g => s!"t{k}>{g}"
  | .wire a r b res =>
    let bn := if b then "B" else "N"
    let rs := match res with | some n => toString n | none => "D"
    s!"w{a}/{r}/{bn}>{rs}"

def renderCOut : COut → String
  | .reply a r k => s!"c{a}/{r}>{k}"
  | .done a r => s!"c{a}/{r}>D"
  | .cbErr a r => s!"c{a}/{r}>E"
  | .err => "E"
  | .txs k g => s!"t{k}>{g}"

def parseSOut (t : String) : Option SOut :=
  if t = "X" then some .refused else
  match t.toList with
  | 't' :: _ =>
    match splitC (dropS t 1) '>' with
    | [k, g] => do let k ← parseNat? k; let g ← parseNat? g; pure (.txs k g)
    | _ => none
  | 'w' :: _ =>
    match splitC (dropS t 1) '>' with
    | [l, r] =>
      match splitC l '/' with
      | [a, q, bn] => do
        let a ← parseNat? a; let q ← parseNat? q
        let b ← (if bn = "B" then some true else if bn = "N" then some false else none)
        if r = "D" then pure (.wire a q b none)
        else do let n ← parseNat? r; pure (.wire a q b (some n))
      | _ => none
    | _ => none
  | _ => none

def parseCOut (t : String) : Option COut :=
  if t = "E" then some .err else
  match t.toList with
  | 't' :: _ =>
    match splitC (dropS t 1) '>' with
    | [k, g] => do let k ← parseNat? k; let g ← parseNat? g; pure (.txs k g)
    | _ => none
  | 'c' :: _ =>
    match splitC (dropS t 1) '>' with
    | [l, r] =>
      match splitC l '/' with
      | [a, q] => do
        let a ← parseNat? a; let q ← parseNat? q
        if r = "D" then pure (.done a q) else if r = "E" then pure (.cbErr a q)
        else do let n ← parseNat? r; pure (.reply a q n)
      | _ => none
    | _ => none
  | _ => none

def join (l : List String) : String := " ".intercalate l

def handle (line : String) : Out :=
  let (op, impl) := match line.splitOn "\t" with
    | [o] => (o, none)
    | o :: i :: _ => (o, some i)
    | [] => ("", none)
  match tokens op with
  | "srv" :: steps =>
    match mapM? parseSAct steps with
    | none => badOp
    | some acts =>
      let model := join ((srvRun Srv.init acts).map renderSOut)
      let spec := match impl with
        | none => "*"
        | some i =>
          match mapM? parseSOut (tokens i) with
          | none => "*"      -- not a trace (HANG, nowire …): reported as a broken tie
          | some tr =>
            if !srvOk 0 tr then "!ack-window: trace violates ack<=outstanding or 0..65535"
            else if !srvDemands acts tr then "!counts: a request went out with a count or flag the caller did not give (out-of-range counts must be refused, not wrapped)"
            else "*"
      { model, spec }
  | "cli" :: steps =>
    match mapM? parseCAct steps with
    | none => badOp
    | some acts =>
      let model := join ((cliRun acts).map renderCOut)
      let spec := match impl with
        | none => "*"
        | some i =>
          match mapM? parseCOut (tokens i) with
          | none => "*"
          | some tr => if cliOk acts tr then "*" else "!outbound: over-limit request not rejected, or Done outside a blocking request"
      { model, spec }
  | _ => badOp

end GV.Drv.C24
