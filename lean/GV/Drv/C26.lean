import GV.Lib.Line
import GV.Model.Validity
/-
  op:  vi <era> <slot> <start|-> <ttl|-> [<valid> <build c|s>]
  out: ok=<0|1>
-/
namespace GV.Drv.C26
open GV.Line GV.Model.Validity

def parseOpt (s : String) : Option (Option Nat) :=
  if s = "-" then some none else (parseNat? s).map some

def u64max : Nat := 18446744073709551615

def parse5 (era slot st tt : String) (valid : Bool) (structBuilt : Bool) : Option Tx := do
    let sh ← (match era with
      | "shelley" => some true
      | "allegra" => some false | "mary" => some false | "alonzo" => some false
      | "babbage" => some false | "conway" => some false | "dijkstra" => some false
      | _ => none)
    let slot ← parseNat? slot
    let st ← parseOpt st
    let tt ← parseOpt tt
    if sh && st.isSome then none
    else if slot > u64max || st.getD 0 > u64max || tt.getD 0 > u64max then none
    -- a struct-built transaction cannot write a bound 0 apart from "absent"
    else if structBuilt && (st == some 0 || tt == some 0) then none
    else if !valid && !(["alonzo", "babbage", "conway", "dijkstra"].contains era) then none
    else pure { shelley := sh, slot := slot, start := st, ttl := tt, valid := valid }

def parse (toks : List String) : Option Tx :=
  match toks with
  | ["vi", era, slot, st, tt] => parse5 era slot st tt true false
  | ["vi", era, slot, st, tt, v, b] => do
    let v ← parseBool? v
    if b = "c" then
      -- the Dijkstra decoder refuses is_valid = false: not an input of this op
      if era = "dijkstra" && !v then none else parse5 era slot st tt v false
    else if b = "s" then parse5 era slot st tt v true
    else none
  | _ => none

def handle (line : String) : Out :=
  match parse (tokens line) with
  | none => badOp
  | some t =>
    -- the property constrains acceptance only: accepted → inside the interval
    let spec := if inInterval t then "*" else "ok=0"
    let cls := if zeroTtl t then "zero-ttl" else ""
    { model := s!"ok={boolStr (ok t)}", spec := spec, cls := cls }

end GV.Drv.C26
