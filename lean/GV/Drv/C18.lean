import GV.Lib.Line
import GV.Lib.VersionTable
/-
  op:  hs <ctable> <cmagic> <cdm> <cps> <cq> <cversions> <stable> <smagic> <sdm> <sps> <sq> <sversions>
  out: c=<initiator outcome> s=<responder outcome>
  op:  prop <stable> <smagic> <sdm> <sps> <sq> <sversions> <n> v1 hex1 … vn hexn
  out: s=<responder outcome> msg=<message the responder sent>
-/
namespace GV.Drv.C18
open GV.Line GV.Model.VersionData GV.Model.Handshake GV.Lib.VersionTable

structure Side where
  shape : List (Nat × Nat)
  magic : Nat
  q : Bool
  ks : List Nat
  m : VMap

def parseSide : List String → Option Side
  | [table, magic, dm, ps, q, vers] => do
    let shape ← shape? table
    let magic ← parseNat? magic
    let dm ← parseBool? dm; let ps ← parseBool? ps; let q ← parseBool? q
    let ks ← parseVersions? shape vers
    let m ← genMap shape ks magic dm ps q
    if magic ≥ 4294967296 then none
    pure { shape, magic, q, ks, m }
  | _ => none

def renderSOut : SOut → String
  | .queryReply _ => "err:sent-queryreply"
  | .refuse (.versionMismatch _) => "err:sent-mismatch"
  | .refuse (.decodeError _) => "err:sent-decode"
  | .refuse (.refused _) => "err:sent-refused"
  | .accept v _ peer => s!"finished v={v} {peer.render}"
  | .panic => "PANIC"

def hexOf (b : Bytes) : String := toHex (b.map UInt8.ofNat)

def renderMsg : Option SMsg → String
  | none => "none"
  | some (.accept v d) => s!"accept({v},{hexOf d})"
  | some (.refuse (.versionMismatch l)) => "refuse(0,[" ++ ",".intercalate (l.map toString) ++ "])"
  | some (.refuse (.decodeError v)) => s!"refuse(1,{v})"
  | some (.refuse (.refused v)) => s!"refuse(2,{v})"
  | some (.queryReply t) =>
    let sorted := t.mergeSort (fun a b => decide (a.1 ≤ b.1))
    "queryreply{" ++ ";".intercalate (sorted.map fun p => s!"{p.1}:{hexOf p.2}") ++ "}"

def parseRaw : List String → Option RawMap
  | [] => some []
  | v :: h :: rest => do
    let v ← parseNat? v; let h ← parseHex? h; let r ← parseRaw rest
    pure ((v, h.map (·.toNat)) :: r)
  | _ => none

/-- The property's own statement for an honest pair (independent of `serverNegotiate`). -/
def specHs (c s : Side) : String :=
  let carriesQuery := c.ks.any fun v => match lookupMap c.shape v with
    | some k => k == 2 || k == 4 || k == 5
    | none => false
  if c.q && carriesQuery then
    s!"c=finished v=0 nil query={renderVMap s.m} *"
  else
    let common := c.ks.filter fun v => s.ks.contains v
    match common with
    | [] => "c=refused:mismatch[" ++ ",".intercalate ((s.ks.mergeSort (fun a b => decide (a ≤ b))).map toString) ++ "] *"
    | w :: ws =>
      let best := ws.foldl Nat.max w
      if c.magic == s.magic then
        match lookupMap s.m best, lookupMap c.m best with
        | some sd, some cd => s!"c=finished v={best} {sd.render} s=finished v={best} {cd.render}"
        | _, _ => "*"
      else "c=refused:*"

def handle (line : String) : Out :=
  match tokens line with
  | "hs" :: rest =>
    match parseSide (rest.take 6), parseSide (rest.drop 6) with
    | some c, some s =>
      let (so, co) := handshake lk c.m s.m
      let cstr := match co with | some o => renderCOut o | none => "timeout"
      { model := s!"c={cstr} s={renderSOut so}", spec := specHs c s }
    | _, _ => badOp
  | "prop" :: rest =>
    match parseSide (rest.take 6), rest.drop 6 with
    | some s, n :: raw =>
      match parseNat? n, parseRaw raw with
      | some n, some P =>
        if P.length ≠ n then badOp else
        match serverReceive lk s.m P with
        | some so => { model := s!"s={renderSOut so} msg={renderMsg so.msg?}" }
        | none => { model := "s=err:decode msg=none" }
      | _, _ => badOp
    | _, _ => badOp
  | _ => badOp

end GV.Drv.C18
