import GV.Lib.Line
import GV.Model.Timeout
import GV.Spec.Conformance
/-
  op : tmo <proto> <role> <pct> <path syms> ; <next sym>
  out: err=<timeout|none|other> armed=<0|1> moved=<0|1>
  model: generated state machine + timer-arming model; spec: the property (a timeout error iff
  the state has a timeout, was entered by a transition, and nobody moved for longer than it).
-/
namespace GV.Drv.C14
open GV.Line GV.SM GV.Timeout

def parseSym (s : String) : Option Sym :=
  match s.splitOn "." with
  | [a, b] => do let a ← parseNat? a; let b ← parseNat? b; pure ⟨a, b⟩
  | _ => none

def parseSyms : List String → Option (List Sym)
  | [] => some []
  | x :: xs => do let a ← parseSym x; let r ← parseSyms xs; pure (a :: r)

def handleOp (line : String) : Out :=
  match (line.splitOn ";").map tokens with
  | ["tmo" :: proto :: role :: pct :: path, [nxt]] =>
    match GV.Spec.Conformance.find (proto ++ "/" ++ role), parseNat? pct, parseSyms path, parseSym nxt with
    | some e, some pct, some path, some nxt =>
      let m := e.impl
      match m.run m.init path with
      | none => badOp
      | some q =>
        -- replay through the timer model: start-up setState, then one setState per transition
        let armed := match timerAfter m path with
          | some t => t.timer.isSome
          | none => arms m q path.isEmpty
        let canMove := (m.step q nxt).isSome
        if pct ≤ 50 || !armed then
          let s := s!"err=none armed={boolStr armed} moved={boolStr canMove}"
          { model := s, spec := "err=none *" }
        else if pct ≥ 200 then
          { model := s!"err=timeout armed=1 moved=0", spec := "err=timeout *" }
        else { model := "guard-band", spec := "*" }
    | _, _, _, _ => badOp
  | _ => badOp

/-- feed_impl: `op \t impl-output`; a run the harness could not time (overloaded machine) is not judged -/
def handle (line : String) : Out :=
  match line.splitOn "\t" with
  | [op, impl] =>
    if impl = "skip-overload" then { model := impl, spec := "*" } else handleOp op
  | [op] => handleOp op
  | _ => badOp

end GV.Drv.C14
