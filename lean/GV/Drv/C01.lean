import GV.Lib.Line
import GV.Model.StoreCbor
import GV.Model.OffsetsTruthA
import GV.Model.PreserveTypes
/-
  ops (feed_impl):
    blk <era> <desc> <hex> \t <impl>    stored spans of block/header/bodies/witness sets/aux/outputs + hash flag
    enc <kind> <era> <desc> <hex> \t <impl>   re-serialisation of unmodified decoded objects
    reuse <kind> <era> <desc> <hexA> <hexB> \t <impl>   decode A, Hash(), decode B into the SAME object, Hash()
    tx  <era> <desc> <hex> \t <impl>    standalone transaction (NewTransactionFromCbor)
    hdr <era> <desc> <hex> \t <impl>    standalone block header (NewBlockHeaderFromCbor)
    body <era> <desc> <hex> \t <impl>   standalone transaction body (NewTransactionBodyFromCbor)
-/
namespace GV.Drv.C01
open GV.Line GV.Cbor GV.Model.Offsets GV.Model.OffsetsTruth GV.Model.StoreCbor

def fmtRange (r : Nat × Nat) : String := s!"{r.1}+{r.2}"

def fmtLoc (l : Loc) : String :=
  let m := if l.aux = (0, 0) then "-" else fmtRange l.aux
  s!"|B{fmtRange l.body} W{fmtRange l.wit} M{m} O" ++ ",".intercalate (l.outs.map fmtRange)

def fmtBlock (b : Bytes) (hdr : Nat × Nat) (ls : List Loc) : String :=
  s!"dec=ok blk=0+{b.length} hdr={fmtRange hdr} tx={ls.length}" ++ String.join (ls.map fmtLoc) ++ " h=ok"

def headerSpan (b : Bytes) : Option (Nat × Nat) :=
  match kidsAt b (0, b.length) with
  | some (h :: _) => some h
  | _ => none

def replaceBW : List Loc → List (Nat × Nat) → List (Nat × Nat) → List Loc
  | l :: ls, b :: bs, w :: ws => { l with body := b, wit := w } :: replaceBW ls bs ws
  | _, _, _ => []

/-- the model's stored spans: bodies / witness sets of Shelley..Conway blocks come from
    `ExtractAndSetTransactionCbor`; every other component stores the span its
    `UnmarshalCBOR` was handed (= the item's span on its path). -/
def modelLocs (era : String) (b : Bytes) : Option (List Loc) :=
  match truth era b with
  | none => none
  | some t =>
    if era = "byron" || era = "dijkstra" then some t
    else match extractAndSet b t.length t.length with
      | some (some e) => some (replaceBW t e.bodies e.wits)
      | _ => none

/-- (kind, era) pairs whose Go type has no byte-preserving MarshalCBOR today (known findings) -/
def lossy (kind era : String) : Bool :=
  match kind with
  -- blocks, headers, bodies, witness sets: decided by two regenerated tables — the concrete Go
  -- type of the decoded component (GV.Gen.G10bTypes, reflection on the running code) and
  -- whether that type's MarshalCBOR returns the stored bytes (GV.Gen.Preserve, go/ast)
  | "blk" | "hdr" | "body" | "wit" => GV.Model.PreserveTypes.lossyKind kind era
  -- outputs: decided per failing item from its concrete Go type, see `outLossy`
  | "out" => false
  | _ => false

/-- `enc out` ops: one transaction can carry outputs of several concrete Go types (legacy
    array / map form, wrapped types), so the harness reports the type of the output that failed
    (`enc=bad:tx<i>.out<j>:<pkg.Type>`); the failure belongs to the recorded class `reencode-out`
    iff that type does not return its stored bytes (GV.Gen.Preserve, regenerated from the source). -/
def outLossy (impl : String) : Bool :=
  match impl.splitOn ":" with
  | ["enc=bad", _, ty] => !GV.Model.PreserveTypes.preserves 4 ty
  | _ => false

/-- stored spans inside a standalone transaction `[body, witness set, (is_valid,) aux/null]`
    (Byron: `[body, witnesses]`): every component stores the span of its own item. -/
def txLoc (era : String) (b : Bytes) : Option Loc :=
  match kidsAt b (0, b.length) with
  | some (body :: wit :: rest) =>
    if era = "byron" then
      let outs := match kidsAt b body with
        | some (_ :: o :: _) => (kidsAt b o).getD []
        | _ => []
      some { body := body, wit := wit, outs := outs }
    else
      match outputsOf b body with
      | none => none
      | some outs =>
        let aux := match rest.getLast? with
          | some a => if slice b a.1 a.2 = [0xf6] then (0, 0) else a
          | none => (0, 0)
        some { body := body, wit := wit, aux := aux, outs := outs }
  | _ => none

def handle (line : String) : Out :=
  match line.splitOn "\t" with
  | [op, impl] =>
    match tokens op with
    | ["blk", era, _, hex] =>
      if impl = "dec=err" then { model := "dec=err", spec := "*" } else
      match parseHex? hex with
      | none => badOp
      | some b =>
        let model := match modelLocs era b, headerSpan b with
          | some ls, some h => fmtBlock b h ls
          | _, _ => "model-error"
        -- the spec is evaluated with the array-backed machine on absolute positions
        let ba := b.toArray
        let spec := match GV.Model.OffsetsTruthA.truth era ba,
            (GV.Model.OffsetsTruthA.kidsAt ba (0, ba.size)).bind List.head? with
          | some ls, some h => fmtBlock b h ls
          | _, _ => "*"
        { model := model, spec := spec }
    | ["reuse", _, _, _, hexA, hexB] =>
      -- decode A, ask the identifier (cached), decode B into the same object, ask again:
      -- evaluated with the model's object (digest := the bytes themselves)
      if impl = "dec=err" then { model := "dec=err", spec := "*" } else
      match parseHex? hexA, parseHex? hexB with
      | some a, some b =>
        let o1 := (hashOf (D := Bytes) id (decodeInto {} a)).2
        let okA := (hashOf id (decodeInto ({} : Obj Bytes) a)).1 == a
        if impl.endsWith "B:err" then
          let m := s!"dec=ok A:h={if okA then "ok" else "bad"} B:err"
          { model := m, spec := "*" }
        else
          let o2 := decodeInto o1 b
          let st := if o2.stored == some b then "ok" else s!"!{(o2.stored.getD []).length}"
          let hb := (hashOf id o2).1 == (o2.stored.getD [])
          let m := s!"dec=ok A:h={if okA then "ok" else "bad"} B:st={st} h={if hb then "ok" else "bad"}"
          { model := m, spec := "dec=ok A:h=ok B:st=ok h=ok" }
      | _, _ => badOp
    | ["tx", era, _, hex] =>
      if impl = "dec=err" then { model := "dec=err", spec := "*" } else
      match parseHex? hex with
      | none => badOp
      | some b =>
        let m := match txLoc era b with
          | some l => s!"dec=ok tx=0+{b.length}" ++ fmtLoc l ++ " h=ok enc=ok"
          | none => "model-error"
        { model := m, spec := if m = "model-error" then "*" else m }
    | ["body", _, _, hex] =>
      if impl = "dec=err" then { model := "dec=err", spec := "*" } else
      match parseHex? hex with
      | none => badOp
      | some b =>
        let m := match outputsOf b (0, b.length) with
          | some outs => s!"dec=ok body=0+{b.length} O" ++ ",".intercalate (outs.map fmtRange) ++ " h=ok"
          | none => "model-error"
        { model := m, spec := if m = "model-error" then "*" else m }
    | ["hdr", _, _, hex] =>
      if impl = "dec=err" then { model := "dec=err", spec := "*" } else
      match parseHex? hex with
      | none => badOp
      | some b =>
        let m := s!"dec=ok hdr=0+{b.length} h=ok enc=ok"
        { model := m, spec := m }
    | ["enc", kind, era, _, _] =>
      -- the model has no re-encoder: it echoes the implementation's verdict; the
      -- property demands byte-identical re-serialisation whenever the block decodes
      { model := impl, spec := "enc=ok||dec=err",
        cls := if lossy kind era || (kind == "out" && outLossy impl) then "reencode-" ++ kind else "" }
    | _ => badOp
  | _ => badOp

end GV.Drv.C01
