import GV.Lib.Line
import GV.Model.ChainSyncWrap
import GV.Gen.ChainSyncEraMaps
import GV.Lib.CborBytes
/-
  op:  m <ntc|ntn> <type> <wf> <hl> <blockhex> <tipslot> <tiphash|-> <tipno>
       e2e <ntc|ntn> <i,j,..>                                   (see harness/c22.go)
-/
namespace GV.Drv.C22
open GV.Line GV.Model.ChainSyncWrap
open GV.Gen.ChainSyncEraMaps

def toNats (b : List UInt8) : Bytes := b.map (·.toNat)
def hexN (b : Bytes) : String := toHex (b.map UInt8.ofNat)

def tipStr (t : Tip) : String :=
  let h := match t.hash with | none => "-" | some h => hexN h
  s!"{t.slot}/{h}/{t.blockNo}"

/-- "exactly one well-formed CBOR item", decided by the shared byte-level machine
    `GV.Cbor.wfItem` (tied to the CBOR library by C02's correspondence) — replaces the
    oracle field `wf` of the op line -/
def wfOne (b : Bytes) : Bool :=
  let u : GV.Cbor.Bytes := b.map UInt8.ofNat
  GV.Cbor.wfItem u == .ok u.length

/-- tags in front of an array are skipped by the library when it decodes into a list -/
def skipTags : Nat → GV.Cbor.Bytes → GV.Cbor.Bytes
  | 0, b => b
  | f + 1, b =>
    match GV.Cbor.readHead b with
    | .mk 6 ai _ hlen => if ai < 28 then skipTags f (b.drop hlen) else b
    | _ => b

/-- byte length of the first element when the bytes start with a complete array of at least
    one element (trailing bytes tolerated), else 0 — `GV.Cbor.childSpans` replaces the oracle
    field `hl` of the op line -/
def firstLen (b : Bytes) : Nat :=
  let u : GV.Cbor.Bytes := skipTags b.length (b.map UInt8.ofNat)
  match GV.Cbor.readHead u with
  | .mk 4 _ _ _ =>
    match GV.Cbor.childSpans u with
    | some (_, (_, l) :: _, _) => l
    | _ => 0
  | _ => 0

/-- block type of fixture block i (harness/util_g5.go g5Blocks: Byron main, Shelley .. Dijkstra) -/
def fixtureType (i : Nat) : Option Nat := [1, 2, 3, 4, 5, 6, 7, 8][i]?

/-- where the first element of an array starts -/
def arrayHeadLen (b0 : Bytes) : Option Nat :=
  let b := stripTags b0.length b0
  match b with
  | 159 :: _ => some (b0.length - b.length + 1)
  | _ => match expectHead 4 b with
    | some (_, r) => some (b0.length - r.length)
    | none => none

def handleM (mode : String) (ty : Nat) (wf : Bool) (hl : Nat) (blk : Bytes) (tip : Tip) : Out :=
  if mode = "ntc" then
    -- what the encoder puts on the wire for the raw block: the bytes themselves
    -- when they are one item; `null` for an empty raw message (quirk); refusal otherwise
    let onWire : Option Bytes := if wf then some blk else if blk.isEmpty then some [246] else none
    match onWire with
    | none => { model := "err:construct" }
    | some w =>
      let wire := encRollForwardNtC ty w tip
      let model := match decRollForwardNtC wfOne wire with
        | none => "err:decode enc=" ++ hexN wire
        | some (ty', blk', tip') => s!"ty={ty'} same={boolStr (blk' == blk)} tip={tipStr tip'} enc={hexN wire}"
      -- property: a block arrives with the same type and byte-identical encoding
      let spec := if wf then s!"ty={ty} same=1 *" else "*"
      { model, spec }
  else
    let model := match ntnPath blockToHeader headerToBlock ty blk hl tip with
      | .unknownType => "err:unknown-type"
      | .constructErr => "err:construct"
      | .decodeErr => "err:decode"
      | .unknownEra => "err:unknown-era"
      | .delivered ty' hdr tip' wire => s!"ty={ty'} hdr={hexN hdr} tip={tipStr tip'} enc={hexN wire}"
    -- property: a Shelley-or-later block arrives as its header (the first element
    -- of the block array, byte for byte) labelled with an era that maps back to the block type
    let spec :=
      if shelleyOrLaterBlockTypes.contains ty && hl > 0 then
        match arrayHeadLen blk with
        | some off => s!"ty={ty} hdr={hexN ((blk.drop off).take hl)} *"
        | none => "*"
      else "*"
    { model, spec }

def parseIdx (s : String) : Option (List Nat) :=
  (s.splitOn ",").foldr (fun t acc => do let i ← parseNat? t; let l ← acc; pure (i :: l)) (some [])

def handleE2E (mode : String) (idx : List Nat) : Out :=
  let toks := idx.map fun i =>
    match fixtureType i with
    | none => ("bad", false)
    | some ty =>
      if mode = "ntc" then (s!"t{ty}:same", true)
      else match lookup blockToHeader ty with
        | none => ("senderr", false)
        | some era => match lookup headerToBlock era with
          | none => ("clierr", false)
          | some ty' => (s!"t{ty'}:same:hh", ty' == ty)
  let model := " ".intercalate (toks.map (·.1))
  -- property: every served (Shelley-or-later for NtN) block arrives intact, same type, same hash
  let demanded := idx.map fun i =>
    match fixtureType i with
    | some ty => if mode = "ntc" then some s!"t{ty}:same"
                 else if shelleyOrLaterBlockTypes.contains ty then some s!"t{ty}:same:hh" else none
    | none => none
  let spec := if demanded.all (·.isSome) then " ".intercalate (demanded.map (·.getD "")) else "*"
  { model, spec }

def handle (line : String) : Out :=
  match tokens line with
  | ["m", mode, ty, wf, hl, blk, slot, hash, no] =>
    if mode ≠ "ntc" ∧ mode ≠ "ntn" then badOp else
    match parseNat? ty, parseBool? wf, parseNat? hl, parseHex? blk, parseNat? slot, parseNat? no with
    | some ty, some _wfOracle, some _hlOracle, some blk, some slot, some no =>
      -- the two oracle fields of the op line are no longer used: both facts are computed
      let wf := wfOne (toNats blk)
      let hl := firstLen (toNats blk)
      if hash = "-" then
        if slot ≠ 0 then badOp else handleM mode ty wf hl (toNats blk) { slot := 0, hash := none, blockNo := no }
      else match parseHex? hash with
        | some h => handleM mode ty wf hl (toNats blk) { slot, hash := some (toNats h), blockNo := no }
        | none => badOp
    | _, _, _, _, _, _ => badOp
  | ["e2e", mode, l] =>
    if mode ≠ "ntc" ∧ mode ≠ "ntn" then badOp else
    match parseIdx l with
    | some idx => if idx.all (· < 8) then handleE2E mode idx else badOp
    | none => badOp
  | _ => badOp

end GV.Drv.C22
