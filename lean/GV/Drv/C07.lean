import GV.Lib.Line
import GV.Model.Offsets
import GV.Model.OffsetsTruthA
import GV.Model.OffsetsWit
/-
  op (feed_impl): blk <era> <form description> <hex block> \t <implementation output>
  out: S=<ranges|err> E=<ranges|err> cmp=<copied from the implementation: the
       harness' comparison of the reported ranges with Cbor() of the decoded components>
       X=<datum / redeemer / script ranges per transaction (model: GV.Model.OffsetsWit)>
  spec: when the era decoder accepted the block (cmp ≠ nodec), both entry points
        must report exactly the ranges obtained by composing child spans along
        each component's path, and those must slice out the decoded components.
-/
namespace GV.Drv.C07
open GV.Line GV.Cbor GV.Model.Offsets

def fmtRange (r : Nat × Nat) : String := s!"{r.1}+{r.2}"

def fmtLoc (l : Loc) : String :=
  s!"|B{fmtRange l.body} W{fmtRange l.wit} M{fmtRange l.aux} O" ++
    ",".intercalate (l.outs.map fmtRange)

def fmtLocs : Option (List Loc) → String
  | none => "err"
  | some ls => toString ls.length ++ String.join (ls.map fmtLoc)

def fmtComp (c : GV.Model.OffsetsWit.Comp) : String :=
  if c.isEmpty then "-" else
  "D" ++ ",".intercalate (c.datums.map fmtRange) ++ ";R" ++
    ",".intercalate (c.redeemers.map fun r => s!"{r.1}.{r.2.1}@{r.2.2.1}+{r.2.2.2}") ++ ";S" ++
    ",".intercalate (c.scripts.map fmtRange)

def fmtComps : Option (List GV.Model.OffsetsWit.Comp) → String
  | none => "err"
  | some [] => "none"
  | some cs => "|".intercalate (cs.map fmtComp)

def cmpField (impl : String) : String :=
  match (impl.splitOn " ").filter (fun t => t.startsWith "cmp=") with
  | t :: _ => t
  | [] => "cmp=?"

def handle (line : String) : Out :=
  match line.splitOn "\t" with
  | [op, impl] =>
    match tokens op with
    | ["blk", era, _, hex] =>
      match parseHex? hex with
      | none => badOp
      | some b =>
        let ex := extract b
        let m := fmtLocs ex
        let cmp := cmpField impl
        let x := fmtComps (GV.Model.OffsetsWit.componentsOf b ex)
        let model := s!"S={m} E={m} {cmp} X={x}"
        let spec :=
          if cmp = "cmp=nodec" then "*"
          else match GV.Model.OffsetsTruthA.truth era b.toArray with
            | none => "*"
            | some t => let s := fmtLocs (some t); s!"S={s} E={s} cmp=ok *"
        -- known-finding class `script-key`: the block carries a Plutus script in a witness
        -- set and the ONLY thing the harness found wrong is a Scripts key that matches no
        -- decoded script (every range, and every other component, was verified first)
        let hasPlutus := match GV.Model.OffsetsWit.componentsOf b ex with
          | some cs => cs.any fun c => c.plutus > 0
          | none => false
        let onlyScriptKey := match cmp.splitOn ":" with
          | ["cmp=bad", "E", t] => t.endsWith ".script-key" && !(t.contains ';')
          | _ => false
        let rangesOk := spec != "*" && (s!"S={m} E={m} cmp=ok *" == spec)
        { model := model, spec := spec,
          cls := if hasPlutus && onlyScriptKey && rangesOk then "script-key" else "" }
    | _ => badOp
  | _ => badOp

end GV.Drv.C07
