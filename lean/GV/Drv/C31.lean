import GV.Lib.Line
import GV.Model.ScriptDataHash
/-
  C31 driver (ops: see harness/c31.go).
-/
namespace GV.Drv.C31
open GV.Line GV.Model.ScriptDataHash GV.Lib.CborLite

def splitList (s : String) : List String := if s = "-" || s = "" then [] else s.splitOn ","

def parseCM (s : String) : Option (List (Nat × List Int)) :=
  if s = "-" then some [] else
  (s.splitOn "|").mapM (fun e =>
    match e.splitOn ":" with
    | [v, xs] => do
      let v ← parseNat? v
      let xs ← (if xs = "" then some [] else (xs.splitOn ";").mapM parseInt?)
      pure (v, xs)
    | _ => none)

def cmFun (l : List (Nat × List Int)) (v : Nat) : Option (List Int) :=
  (l.find? (fun e => e.1 = v)).map (·.2)

def notOk : String := "res=extraneous||res=missing||res=mismatch||res=missing-cm||res=err||decode-err"

def runSdh (era red nred dat ndat used cm decl ipre ih refs ins : String) : Out :=
    match parseHex? red, parseNat? nred, parseHex? dat, parseNat? ndat, (splitList used).mapM parseNat?,
          parseCM cm, parseHex? ipre, (splitList refs).mapM parseNat?, (splitList ins).mapM parseNat? with
    | some red, some nred, some dat, some ndat, some wit, some cm, some ipre, some refs, some ins =>
      -- the Go map of used versions: witness-set scripts, reference-input scripts, spent-input scripts
      let used := (wit ++ refs ++ ins).eraseDups
      let t : Tx String := {
        nRedeemers := nred, nDatums := ndat, redeemersRaw := red, datumsRaw := dat,
        emptyRedeemers := if era = "conway" || era = "dijkstra" then [0xa0] else [0x80],
        used := used, declared := if decl = "-" then none else some decl }
      -- the digest primitive, tabulated by the Go side for the one pre-image it built independently
      let h : Bytes → String := fun b => if b = ipre then ih else "?"
      let v := rule h (cmFun cm) t
      let spec :=
        if nred = 0 ∧ ndat = 0 then (if decl = "-" then "res=ok" else notOk)
        else if decl = "-" then notOk
        else if decl ≠ ih then notOk
        else "*"
      { model := "res=" ++ v.str, spec := spec }
    | _, _, _, _, _, _, _, _, _ => badOp

def handle (line : String) : Out :=
  match tokens line with
  | ["lv", used, cm] =>
    match (splitList used).mapM parseNat?, parseCM cm with
    | some used, some cm =>
      let spec :=
        if used.all (fun v => v ≤ 3 && (cmFun cm v).isSome) then
          match specLangViews used (cmFun cm) with
          | some b => toHex b
          | none => "err"
        else "err"
      match encodeLangViews used (cmFun cm) with
      | .ok b => { model := toHex b, spec := spec }
      | .error (.unsupported _) => { model := "err", spec := spec }
      | .error (.missingCostModel _) => { model := "err", spec := spec }
    | _, _ => badOp
  | ["sdh", era, red, nred, dat, ndat, used, cm, decl, ipre, ih] =>
    runSdh era red nred dat ndat used cm decl ipre ih "-" "-"
  | ["sdh", era, red, nred, dat, ndat, used, cm, decl, ipre, ih, refs, ins] =>
    runSdh era red nred dat ndat used cm decl ipre ih refs ins
  | _ => badOp

end GV.Drv.C31
