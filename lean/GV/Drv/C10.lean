import GV.Lib.Line
import GV.Lib.SegUtil
import GV.Model.Reassembly
/-
  C10 driver (feed_impl: the line is `op \t implementation-output`).

  st <c|s> <planAB> <planBA> <pseed> <T.seed[w]>*         one endpoint streams the messages
  rr <depth> <planAB> <planBA> <pseed> <T.seed/T.seed>*   pipelined requests / responses
  A message `T.seed` is the CBOR item of exactly T bytes built by `mkMsg`.

  impl: recv=[len.fnv,...] [recv2=[...]] err=<class> segs=<payload lengths> [segs2=<...>]
  The segment lengths observed on the wire are replayed through the model: they must be what
  `sendSegs` yields for some sequence of batches the send loop can form (`batchOk`), and the
  model's read loop (`readAll`, with a decoder for exactly this message format) run on those
  segments must hand over what the real handler saw.
-/
namespace GV.Drv.C10
open GV.Line GV.SegUtil GV.Model.Reassembly

/-- The message of exactly `total` bytes: `[typ]` or `[typ, bytes]` (shortest fitting header). -/
def mkMsg (total : Nat) (seed : Nat) (typ : Nat) : Option Bytes :=
  if total < 2 ∨ typ > 23 then none
  else if total = 2 then some [0x81, UInt8.ofNat typ]
  else
    let body (hdr : Bytes) (l : Nat) : Option Bytes :=
      some ([0x82, UInt8.ofNat typ] ++ hdr ++ genBytes l (UInt64.ofNat seed))
    if total - 3 ≤ 23 then body [UInt8.ofNat (0x40 + (total - 3))] (total - 3)
    else if total ≥ 4 ∧ total - 4 ≤ 255 then body [0x58, UInt8.ofNat (total - 4)] (total - 4)
    else if total ≥ 5 ∧ total - 5 ≤ 65535 then
      let l := total - 5
      body [0x59, UInt8.ofNat (l / 256), UInt8.ofNat (l % 256)] l
    else
      let l := total - 7
      body [0x5a, UInt8.ofNat (l / 16777216 % 256), UInt8.ofNat (l / 65536 % 256),
            UInt8.ofNat (l / 256 % 256), UInt8.ofNat (l % 256)] l

/-- Item decoder for exactly the message format above (what `cbor.Decode(buf, &[]RawMessage)`
    answers on such buffers): complete / incomplete / malformed. -/
def wfMini (b : Bytes) : Res :=
  match b with
  | [] => .needMore
  | 0x81 :: rest =>
    (match rest with
     | [] => .needMore
     | t :: _ => if t.toNat < 24 then .ok 2 else .bad)
  | 0x82 :: rest =>
    (match rest with
     | [] => .needMore
     | t :: rest2 =>
       if t.toNat ≥ 24 then .bad else
       match rest2 with
       | [] => .needMore
       | h :: rest3 =>
         let fin (w l : Nat) : Res := if b.length ≥ 2 + w + l then .ok (2 + w + l) else .needMore
         if 0x40 ≤ h.toNat ∧ h.toNat ≤ 0x57 then fin 1 (h.toNat - 0x40)
         else if h = 0x58 then
           (match rest3 with
            | a :: _ => fin 2 a.toNat
            | _ => .needMore)
         else if h = 0x59 then
           (match rest3 with
            | a :: c :: _ => fin 3 (a.toNat * 256 + c.toNat)
            | _ => .needMore)
         else if h = 0x5a then
           (match rest3 with
            | a :: c :: d :: e :: _ => fin 5 (((a.toNat * 256 + c.toNat) * 256 + d.toNat) * 256 + e.toNat)
            | _ => .needMore)
         else .bad)
  | _ => .bad

def chunkLens (total : Nat) : List Nat :=
  if total = 0 then [] else
  List.replicate (total / maxPayload) maxPayload ++ (if total % maxPayload = 0 then [] else [total % maxPayload])

/-- Recover the batches from the observed segment lengths: the smallest admissible message
    count whose chunk lengths are a prefix of what is left (complete: see DESIGN notes in
    props/C10.json). -/
def inferBatches : Nat → List Bytes → List Nat → Option (List (List Bytes))
  | 0, _, _ => none
  | fuel + 1, msgs, lens =>
    if msgs.isEmpty then (if lens.isEmpty then some [] else none)
    else
      let cands := (List.range (min maxMsgsPerSegment msgs.length)).map (· + 1)
      match cands.find? (fun n =>
          let cl := chunkLens ((msgs.take n).map List.length).sum
          cl.isPrefixOf lens) with
      | none => none
      | some n =>
        let cl := chunkLens ((msgs.take n).map List.length).sum
        (inferBatches fuel (msgs.drop n) (lens.drop cl.length)).map (msgs.take n :: ·)

def errStr : Option RErr → String
  | none => "none"
  | some .decode => "decode"
  | some .tooBig => "too-big"
  | some .emptyItem => "empty"

def fpsStr (ms : List Bytes) : String := "[" ++ ",".intercalate (ms.map fp) ++ "]"

def field? (name : String) (impl : String) : Option String :=
  (tokens impl).findSome? fun t =>
    if t.startsWith (name ++ "=") then some (t.drop (name.length + 1)).toString else none

/-- Replay one direction: returns (messages the model's read loop hands over, error) or a
    rejection reason. -/
def replayDir (msgs : List Bytes) (lens : List Nat) : Except String (List Bytes × Option RErr) :=
  match inferBatches (msgs.length + 1) msgs lens with
  | none => .error "reject:segments-not-a-batching-of-the-queue"
  | some batches =>
    if !(batches.all batchOk) then .error "reject:batch-rule"
    else
      let segs := sendSegs batches
      if segs.map List.length != lens then .error "reject:segment-lengths"
      else
        let r := readAll wfMini segs
        .ok (r.msgs, r.err)

def parseMsg? (s : String) (typ : Nat) : Option Bytes :=
  let s := if s.endsWith "w" then (s.dropEnd 1).toString else s
  match s.splitOn "." with
  | [t, sd] => do let t ← parseNat? t; let sd ← parseNat? sd; mkMsg t sd typ
  | _ => none

def handle (line : String) : Out :=
  let (op, impl) := match line.splitOn "\t" with
    | [a] => (a, "")
    | a :: b :: _ => (a, b)
    | [] => ("", "")
  match tokens op with
  | "st" :: _dir :: _pab :: _pba :: _seed :: ms =>
    match ms.mapM (parseMsg? · 0) with
    | none => badOp
    | some msgs =>
      let spec := s!"recv={fpsStr msgs} err=none *"
      match (field? "segs" impl).bind parseNatList? with
      | none => { model := "reject:no-trace", spec := spec }
      | some lens =>
        match replayDir msgs lens with
        | .error e => { model := e, spec := spec }
        | .ok (got, err) =>
          let ls := if lens.isEmpty then "-" else ",".intercalate (lens.map toString)
          { model := s!"recv={fpsStr got} err={errStr err} segs={ls}", spec := spec }
  | "rr" :: _depth :: _pab :: _pba :: _seed :: ps =>
    let parsePair (s : String) : Option (Bytes × Bytes) :=
      match s.splitOn "/" with
      | [a, b] => do let a ← parseMsg? a 0; let b ← parseMsg? b 1; pure (a, b)
      | _ => none
    match ps.mapM parsePair with
    | none => badOp
    | some pairs =>
      let reqs := pairs.map (·.1)
      let resps := pairs.map (·.2)
      let spec := s!"recv={fpsStr reqs} recv2={fpsStr resps} err=none *"
      match (field? "segs" impl).bind parseNatList?, (field? "segs2" impl).bind parseNatList? with
      | some l1, some l2 =>
        match replayDir reqs l1, replayDir resps l2 with
        | .ok (g1, e1), .ok (g2, e2) =>
          let e := match e1 with | some _ => e1 | none => e2
          let s1 := if l1.isEmpty then "-" else ",".intercalate (l1.map toString)
          let s2 := if l2.isEmpty then "-" else ",".intercalate (l2.map toString)
          { model := s!"recv={fpsStr g1} recv2={fpsStr g2} err={errStr e} segs={s1} segs2={s2}", spec := spec }
        | .error e, _ => { model := e, spec := spec }
        | _, .error e => { model := e ++ "(2)", spec := spec }
      | _, _ => { model := "reject:no-trace", spec := spec }
  | _ => badOp

end GV.Drv.C10
