import GV.Lib.Line
import GV.Lib.SegUtil
import GV.Model.Reassembly
/-
  C10 driver (feed_impl: the line is `op \t implementation-output`).

  st <c|s> <planAB> <planBA> <pseed> <T.seed[w]>*         one endpoint streams the messages
  rr <depth> <planAB> <planBA> <pseed> <T.seed/T.seed>*   pipelined requests / responses
  A message `T.seed` is the CBOR item of exactly T bytes built by `mkMsg`.

  impl: recv=[len.fnv,...] [recv2=[...]] err=<class> segs=<payload lengths> [segs2=<...>]
  The segment lengths observed on the wire are replayed through the model: they must be what
  `sendSegs` yields for some sequence of batches the send loop can form (`batchOk`), and the
  model's read loop (`readAll`, with a decoder for exactly this message format) run on those
  segments must hand over what the real handler saw.
-/
namespace GV.Drv.C10
open GV.Line GV.SegUtil GV.Model.Reassembly

/-- The message of exactly `total` bytes: `[typ]` or `[typ, bytes]` (shortest fitting header). -/
def mkMsg (total : Nat) (seed : Nat) (typ : Nat) : Option Bytes :=
  if total < 2 ∨ typ > 23 then none
  else if total = 2 then some [0x81, UInt8.ofNat typ]
  else
    let body (hdr : Bytes) (l : Nat) : Option Bytes :=
      some ([0x82, UInt8.ofNat typ] ++ hdr ++ genBytes l (UInt64.ofNat seed))
    if total - 3 ≤ 23 then body [UInt8.ofNat (0x40 + (total - 3))] (total - 3)
    else if total ≥ 4 ∧ total - 4 ≤ 255 then body [0x58, UInt8.ofNat (total - 4)] (total - 4)
    else if total ≥ 5 ∧ total - 5 ≤ 65535 then
      let l := total - 5
      body [0x59, UInt8.ofNat (l / 256), UInt8.ofNat (l % 256)] l
    else
      let l := total - 7
      body [0x5a, UInt8.ofNat (l / 16777216 % 256), UInt8.ofNat (l / 65536 % 256),
            UInt8.ofNat (l / 256 % 256), UInt8.ofNat (l % 256)] l

/-- A definite byte string whose head starts `base` bytes into the buffer `b` (`rest` = the
    buffer from the head on): complete / incomplete / malformed. -/
def bytesHead (b : Bytes) (base : Nat) (rest : Bytes) : Res :=
  match rest with
  | [] => .needMore
  | h :: rest3 =>
    let fin (w l : Nat) : Res := if b.length ≥ base + w + l then .ok (base + w + l) else .needMore
    if 0x40 ≤ h.toNat ∧ h.toNat ≤ 0x57 then fin 1 (h.toNat - 0x40)
    else if h = 0x58 then
      (match rest3 with
       | a :: _ => fin 2 a.toNat
       | _ => .needMore)
    else if h = 0x59 then
      (match rest3 with
       | a :: c :: _ => fin 3 (a.toNat * 256 + c.toNat)
       | _ => .needMore)
    else if h = 0x5a then
      (match rest3 with
       | a :: c :: d :: e :: _ => fin 5 (((a.toNat * 256 + c.toNat) * 256 + d.toNat) * 256 + e.toNat)
       | _ => .needMore)
    else .bad

/-- Item decoder for exactly the message formats of this harness (what
    `cbor.Decode(buf, &[]RawMessage)` answers on such buffers): `[t]`, `[t, bytes]`,
    `[t, 24(bytes)]`. -/
def wfMini (b : Bytes) : Res :=
  match b with
  | [] => .needMore
  | 0x81 :: rest =>
    (match rest with
     | [] => .needMore
     | t :: _ => if t.toNat < 24 then .ok 2 else .bad)
  | 0x82 :: rest =>
    (match rest with
     | [] => .needMore
     | t :: rest2 =>
       if t.toNat ≥ 24 then .bad else
       match rest2 with
       | [] => .needMore
       | 0xd8 :: rest3 =>
         (match rest3 with
          | [] => .needMore
          | g :: rest4 => if g = 0x18 then bytesHead b 4 rest4 else .bad)
       | _ => bytesHead b 2 rest2)
  | _ => .bad

/-- Real block-fetch `MsgBlock`: `[4, 24(bytes(content))]` with the minimal byte-string head
    (what `MsgBlock.MarshalCBOR` produces). -/
def mkBlock (l : Nat) (seed : Nat) : Bytes :=
  let hdr : Bytes :=
    if l ≤ 23 then [UInt8.ofNat (0x40 + l)]
    else if l ≤ 255 then [0x58, UInt8.ofNat l]
    else if l ≤ 65535 then [0x59, UInt8.ofNat (l / 256), UInt8.ofNat (l % 256)]
    else [0x5a, UInt8.ofNat (l / 16777216 % 256), UInt8.ofNat (l / 65536 % 256),
          UInt8.ofNat (l / 256 % 256), UInt8.ofNat (l % 256)]
  [0x82, 0x04, 0xd8, 0x18] ++ hdr ++ genBytes l (UInt64.ofNat seed)

/-- Content of a received `MsgBlock` (strip array head, type, tag and byte-string head). -/
def blockContent (m : Bytes) : Option Bytes :=
  match m with
  | 0x82 :: 0x04 :: 0xd8 :: 0x18 :: h :: rest =>
    if 0x40 ≤ h.toNat ∧ h.toNat ≤ 0x57 then some rest
    else if h = 0x58 then some (rest.drop 1)
    else if h = 0x59 then some (rest.drop 2)
    else if h = 0x5a then some (rest.drop 4)
    else none
  | _ => none

def chunkLens (total : Nat) : List Nat :=
  if total = 0 then [] else
  List.replicate (total / maxPayload) maxPayload ++ (if total % maxPayload = 0 then [] else [total % maxPayload])

/-- Recover the batches from the observed segment lengths: the smallest admissible message
    count whose chunk lengths are a prefix of what is left (complete: see DESIGN notes in
    props/C10.json). -/
def inferBatches : Nat → List Bytes → List Nat → Option (List (List Bytes))
  | 0, _, _ => none
  | fuel + 1, msgs, lens =>
    if msgs.isEmpty then (if lens.isEmpty then some [] else none)
    else
      let cands := (List.range (min maxMsgsPerSegment msgs.length)).map (· + 1)
      match cands.find? (fun n =>
          let cl := chunkLens ((msgs.take n).map List.length).sum
          cl.isPrefixOf lens) with
      | none => none
      | some n =>
        let cl := chunkLens ((msgs.take n).map List.length).sum
        (inferBatches fuel (msgs.drop n) (lens.drop cl.length)).map (msgs.take n :: ·)

def errStr : Option RErr → String
  | none => "none"
  | some .decode => "decode"
  | some .tooBig => "too-big"
  | some .emptyItem => "empty"

def fpsStr (ms : List Bytes) : String := "[" ++ ",".intercalate (ms.map fp) ++ "]"

def field? (name : String) (impl : String) : Option String :=
  (tokens impl).findSome? fun t =>
    if t.startsWith (name ++ "=") then some (t.drop (name.length + 1)).toString else none

/-- Replay one direction: returns (messages the model's read loop hands over, error) or a
    rejection reason. -/
def replayDir (msgs : List Bytes) (lens : List Nat) : Except String (List Bytes × Option RErr) :=
  match inferBatches (msgs.length + 1) msgs lens with
  | none => .error "reject:segments-not-a-batching-of-the-queue"
  | some batches =>
    if !(batches.all batchOk) then .error "reject:batch-rule"
    else
      let segs := sendSegs batches
      if segs.map List.length != lens then .error "reject:segment-lengths"
      else
        let r := readAll wfMini segs
        .ok (r.msgs, r.err)

def parseMsg? (s : String) (typ : Nat) : Option Bytes :=
  let s := if s.endsWith "w" then (s.dropEnd 1).toString else s
  match s.splitOn "." with
  | [t, sd] => do let t ← parseNat? t; let sd ← parseNat? sd; mkMsg t sd typ
  | _ => none

def handle (line : String) : Out :=
  let (op, impl) := match line.splitOn "\t" with
    | [a] => (a, "")
    | a :: b :: _ => (a, b)
    | [] => ("", "")
  match tokens op with
  | "st" :: _dir :: _pab :: _pba :: _seed :: ms =>
    match ms.mapM (parseMsg? · 0) with
    | none => badOp
    | some msgs =>
      let spec := s!"recv={fpsStr msgs} err=none *"
      match (field? "segs" impl).bind parseNatList? with
      | none => { model := "reject:no-trace", spec := spec }
      | some lens =>
        match replayDir msgs lens with
        | .error e => { model := e, spec := spec }
        | .ok (got, err) =>
          let ls := if lens.isEmpty then "-" else ",".intercalate (lens.map toString)
          { model := s!"recv={fpsStr got} err={errStr err} segs={ls}", spec := spec }
  | "rr" :: _depth :: _pab :: _pba :: _seed :: ps =>
    let parsePair (s : String) : Option (Bytes × Bytes) :=
      match s.splitOn "/" with
      | [a, b] => do let a ← parseMsg? a 0; let b ← parseMsg? b 1; pure (a, b)
      | _ => none
    match ps.mapM parsePair with
    | none => badOp
    | some pairs =>
      let reqs := pairs.map (·.1)
      let resps := pairs.map (·.2)
      let spec := s!"recv={fpsStr reqs} recv2={fpsStr resps} err=none *"
      match (field? "segs" impl).bind parseNatList?, (field? "segs2" impl).bind parseNatList? with
      | some l1, some l2 =>
        match replayDir reqs l1, replayDir resps l2 with
        | .ok (g1, e1), .ok (g2, e2) =>
          let e := match e1 with | some _ => e1 | none => e2
          let s1 := if l1.isEmpty then "-" else ",".intercalate (l1.map toString)
          let s2 := if l2.isEmpty then "-" else ",".intercalate (l2.map toString)
          { model := s!"recv={fpsStr g1} recv2={fpsStr g2} err={errStr e} segs={s1} segs2={s2}", spec := spec }
        | .error e, _ => { model := e, spec := spec }
        | _, .error e => { model := e ++ "(2)", spec := spec }
      | _, _ => { model := "reject:no-trace", spec := spec }
  | "bk" :: _pab :: _pba :: _seed :: bs =>
    let parseBlk (s : String) : Option (Nat × Nat) :=
      match s.splitOn "." with
      | [l, sd] => do let l ← parseNat? l; let sd ← parseNat? sd; pure (l, sd)
      | _ => none
    match bs.mapM parseBlk with
    | none => badOp
    | some blks =>
      let msgs : List Bytes := [[0x81, 0x02]] ++ blks.map (fun b => mkBlock b.1 b.2) ++ [[0x81, 0x05]]
      let contents : List Bytes := blks.map fun b => genBytes b.1 (UInt64.ofNat b.2)
      let spec := s!"recv={fpsStr msgs} blocks={fpsStr contents} err=none *"
      match (field? "segs" impl).bind parseNatList? with
      | none => { model := "reject:no-trace", spec := spec }
      | some lens =>
        match replayDir msgs lens with
        | .error e => { model := e, spec := spec }
        | .ok (got, err) =>
          let ls := if lens.isEmpty then "-" else ",".intercalate (lens.map toString)
          let cs := got.filterMap blockContent
          { model := s!"recv={fpsStr got} blocks={fpsStr cs} err={errStr err} segs={ls}", spec := spec }
  | _ => badOp

end GV.Drv.C10
