import GV.Lib.Line
import GV.Lib.VersionTable
import GV.Model.ConnSetup
import GV.Gen.ConnProtocols
/-
  op:  conn <server> <mode ntn|ntc|dmq> <fullDuplex> <sendKeepAlives> <peerSharing> <version> <peerDM> <probeId> <probeResp> [<delayStart>]
       with delayStart=1 the probe arrives before the application has started anything
  out: muxer:not-responder | muxer:not-initiator | muxer:unknown-protocol(<id>) | proto:<name>
-/
namespace GV.Drv.C17
open GV.Line GV.Model.ConnSetup

def stripMode (n : String) : String :=
  if n.endsWith "/ntn" then (n.dropRight 4) else if n.endsWith "/ntc" then (n.dropRight 4) else n

def parseMode? : String → Option NetMode
  | "ntn" => some .ntn | "ntc" => some .ntc | "dmq" => some .dmq | _ => none

def render : Routed → String
  | .notResponder => "muxer:not-responder"
  | .notInitiator => "muxer:not-initiator"
  | .unknown id => s!"muxer:unknown-protocol({id})"
  | .deliver n _ => s!"proto:{stripMode n.key}"

/-- The property, independently of `registered`/`route`: which protocol ids the negotiation
    enabled for this mode and version (by the version table's flags), and whether the
    negotiated connection is duplex (both ends asked for initiator-and-responder on NtN). -/
def spec (c : Cfg) (id : Nat) (resp : Bool) : String :=
  let negotiatedDuplex := c.mode == .ntn && c.fullDuplex && !c.peerDM
  -- before the application's Start() nothing has been requested, so the property is silent about
  -- what a premature peer *response* meets; peer *requests* must find their responder
  if c.delayStart && resp then "*"
  else if !negotiatedDuplex && !c.server && !resp then "muxer:*"        -- initiator-only: a peer request is an error
  else if !negotiatedDuplex && c.server && resp then "muxer:*"     -- responder-only: a peer response is an error
  else
    let enabled : List Nat := match c.mode with
      | .ntn => [2, 3, 4, 18, 19, 20] ++ (if c.keepAlive then [8] else []) ++ (if c.peerSharing then [10] else [])
      | .ntc => [5, 6] ++ (if c.localQuery then [7] else []) ++ (if c.localTxMonitor then [9] else [])
      | .dmq => [14, 15]
    if id == 0 then "*"
    else if enabled.contains id then
      -- the keep-alive client is started only on request (WithKeepAlive): the property is silent
      if id == 8 && resp && !c.sendKeepAlives then "*" else "proto:*"
    else "muxer:*"

def handle1 (toks : List String) (delay : Bool) : Out :=
  match toks with
  | ["conn", server, mode, fd, ka, _ps, v, pdm, pid, presp] =>
    match parseBool? server, parseMode? mode, parseBool? fd, parseBool? ka, parseNat? v, parseBool? pdm,
          parseNat? pid, parseBool? presp with
    | some server, some mode, some fd, some ka, some v, some pdm, some pid, some presp =>
      if pid ≥ 32768 then badOp else
      let fl := GV.Lib.VersionTable.flags v
      let c : Cfg := { server, mode, fullDuplex := fd, sendKeepAlives := ka, peerDM := pdm,
                       localQuery := fl.getD 0 false, localTxMonitor := fl.getD 1 false,
                       keepAlive := fl.getD 2 false, peerSharing := fl.getD 4 false, delayStart := delay }
      let field := if presp then pid + 32768 else pid
      { model := render (route GV.Gen.ConnProtocols.ids c field), spec := spec c pid presp }
    | _, _, _, _, _, _, _, _ => badOp
  | _ => badOp

def handle (line : String) : Out :=
  let toks := tokens line
  if toks.length = 11 then
    match parseBool? (toks.getD 10 "") with
    | some d => handle1 (toks.take 10) d
    | none => badOp
  else handle1 toks false

end GV.Drv.C17
