import GV.Lib.Line
import GV.Model.Era
import GV.Model.EraConsts
/-
  ops (feed_impl: each line is `op \t impl-output`):
    det <bodyLen> <variant> <major>     synthetic header through DetermineBlockType
        variant: ok | pvlong | neg | str | pvnotarr | pvempty | outer1 | outer3 | outermap
                 | bodynotarr | garbage
    dethdr <fixture> <bodyLen|-> <major|->   header of a real block (protocol major patched) through
                                        DetermineBlockType; `- -` = Byron header (not a [body, sig] pair)
    blk <fixture> <T> <entry> <major|-> real block decoded as type T through an entry point
        entry: nbfc | nbfcskip | off | erafn  → `type=<Type()> era=<Era().Id> hera=<Header().Era().Id>`
               hdr                            → `hera=<Era().Id>`
    wntn <fixture> <headerType> <byronType> <major|->  real chain-sync NtN client fed one wrapped header
                                        → `hera=<Era().Id> bt=<block type given to the callback>`
    wntc <fixture> <T> <major|->        real chain-sync NtC client fed one wrapped block
    wbf  <fixture> <T> <major|->        real block-fetch client fed one wrapped block
                                        → `type=<Type()> era=<Era().Id> hera=<Header().Era().Id> bt=<T given to the callback>`
    maps <k>                            → `h2b=<v|none> b2h=<v|none>`
  Decode failures (`err:decode`) are inputs to the model, not predictions: whether foreign
  bytes happen to parse as era T is not part of this property.
-/
namespace GV.Drv.C36
open GV.Line GV.Model.Era GV.Gen.Eras

def natOrNone (o : Option Nat) : String := match o with | some v => toString v | none => "none"

/-- spec for an inferred type: an error, or the block type of the (unique) era whose
    declared range contains the major -/
def specForMajor (m : Option Nat) : String :=
  match m with
  | none => "err:*"
  | some m =>
    let ts := (eras.filter fun e => decide (e.minPV ≤ m) && decide (m ≤ e.maxPV)).map (·.blockType)
    "err:*" ++ String.join (ts.map fun t => s!"||type={t}")

def shapeOf (len : Nat) (variant : String) (major : Nat) : Option (Shape × Option Nat) :=
  match variant with
  | "ok" => some (.body len (.uint major) (some [.uint major, .uint 0]), some major)
  | "pvlong" => some (.body len (.uint major) (some [.uint major, .uint 0, .uint 7]), some major)
  | "neg" => some (.body len .nonUint (some [.nonUint, .uint 0]), none)
  | "str" => some (.body len .nonUint (some [.nonUint, .uint 0]), none)
  | "pvnotarr" => some (.body len (.uint major) none, if len = 15 then some major else none)
  | "pvempty" => some (.body len (.uint major) (some []), if len = 15 then some major else none)
  | "outer1" => some (.notPair, none)
  | "outer3" => some (.notPair, none)
  | "outermap" => some (.notPair, none)
  | "bodynotarr" => some (.bodyNotArray, none)
  | "garbage" => some (.garbage, none)
  | _ => none

def blockOut (t : Nat) (hdrOnly : Bool) : String × String :=
  match eraOfType t with
  | some e =>
    let s := if hdrOnly then s!"hera={e}" else s!"type={t} era={e} hera={e}"
    (s, "err:*||" ++ s)
  | none => ("err:unknown-type", "err:*")

def handleOp (op impl : String) : Out :=
  match tokens op with
  | ["det", len, variant, major] =>
    match parseNat? len, parseNat? major with
    | some len, some major =>
      match shapeOf len variant major with
      | some (sh, m) => { model := (determine genConsts sh).render, spec := specForMajor m }
      | none => badOp
    | _, _ => badOp
  | ["dethdr", _, "-", "-"] =>
    { model := (determine genConsts .notPair).render, spec := "err:*" }
  | ["dethdr", _, len, major] =>
    match parseNat? len, parseNat? major with
    | some len, some major =>
      -- a real header: [body, signature] with uint major, 2-element protocol version
      let sh : Shape := .body len (.uint major) (some [.uint major, .uint 0])
      { model := (determine genConsts sh).render, spec := specForMajor (some major) }
    | _, _ => badOp
  | ["blk", _, t, entry, _] =>
    match parseNat? t with
    | some t =>
      if entry ∉ ["nbfc", "nbfcskip", "off", "erafn", "hdr"] then badOp else
      let (m, s) := blockOut t (entry = "hdr")
      if impl.startsWith "err:decode" ∧ ((eraOfType t).isSome ∨ entry = "off") then { model := impl, spec := s }
      else { model := m, spec := s }
    | none => badOp
  | ["wntn", _, ht, byronType, _] =>
    match parseNat? ht, parseNat? byronType with
    | some ht, some byronType =>
      -- protocol/chainsync/client.go handleRollForward (NtN): Byron takes the sub-type from the
      -- wrapper (and accepts only the two Byron block types), everything else goes through the map
      let bt : Except String Nat :=
        if ht = byronHeaderType then
          if byronType = byronEbbBlockType ∨ byronType = byronMainBlockType then .ok byronType
          else .error "err:unknown-byron-type"
        else match lookup ht headerToBlock with
          | some b => .ok b
          | none => .error "err:unknown-header-type"
      -- the NtN header type is the era id: a header delivered to the callback must report it
      let spec := s!"err:*||hera={ht} *"
      match bt with
      | .error e => { model := e, spec := spec }
      | .ok bt =>
        match eraOfType bt with
        | none => { model := "err:unknown-type", spec := spec }
        | some e =>
          if impl.startsWith "err:decode" then { model := impl, spec := spec }
          else { model := s!"hera={e} bt={bt}", spec := spec }
    | _, _ => badOp
  | [kind, _, t, _] =>
    if kind ≠ "wntc" ∧ kind ≠ "wbf" then badOp else
    match parseNat? t with
    | some t =>
      match eraOfType t with
      | some e =>
        let s := s!"type={t} era={e} hera={e} bt={t}"
        if impl.startsWith "err:decode" then { model := impl, spec := "err:*||" ++ s }
        else { model := s, spec := "err:*||" ++ s }
      | none => { model := "err:unknown-type", spec := "err:*" }
    | none => badOp
  | ["maps", k] =>
    match parseNat? k with
    | some k => { model := s!"h2b={natOrNone (lookup k headerToBlock)} b2h={natOrNone (lookup k blockToHeader)}" }
    | none => badOp
  | _ => badOp

def handle (line : String) : Out :=
  match line.splitOn "\t" with
  | [op, impl] =>
    -- not evaluated (harness stopped running ops after repeated process crashes)
    if impl.startsWith "NOT-RUN" then { model := impl, spec := "*" } else handleOp op impl
  | [op] => handleOp op ""
  | _ => badOp

end GV.Drv.C36
