import GV.Lib.Line
import GV.Model.Era
import GV.Model.EraConsts
/-
  ops (feed_impl: each line is `op \t impl-output`):
    det <bodyLen> <variant> <major>     synthetic header through DetermineBlockType
        variant: ok | pvlong | neg | str | pvnotarr | pvempty | outer1 | outer3 | outermap
                 | bodynotarr | garbage
    dethdr <fixture> <bodyLen|-> <major|->   header of a real block (protocol major patched) through
                                        DetermineBlockType; `- -` = Byron header (not a [body, sig] pair)
    blk <fixture> <T> <entry> <major|-> real block decoded as type T through an entry point
        entry: nbfc | nbfcskip | off | erafn  → `type=<Type()> era=<Era().Id> hera=<Header().Era().Id>`
               hdr                            → `hera=<Era().Id>`
    ntn <fixture> <headerType> <byronType> <major|->   NtN route: header type → block type → header decoder
                                        → `hera=<Era().Id> bt=<block type>`
    maps <k>                            → `h2b=<v|none> b2h=<v|none>`
  Decode failures (`err:decode`) are inputs to the model, not predictions: whether foreign
  bytes happen to parse as era T is not part of this property.
-/
namespace GV.Drv.C36
open GV.Line GV.Model.Era GV.Gen.Eras

def natOrNone (o : Option Nat) : String := match o with | some v => toString v | none => "none"

/-- spec for an inferred type: an error, or the block type of the (unique) era whose
    declared range contains the major -/
def specForMajor (m : Option Nat) : String :=
  match m with
  | none => "err:*"
  | some m =>
    let ts := (eras.filter fun e => decide (e.minPV ≤ m) && decide (m ≤ e.maxPV)).map (·.blockType)
    "err:*" ++ String.join (ts.map fun t => s!"||type={t}")

def shapeOf (len : Nat) (variant : String) (major : Nat) : Option (Shape × Option Nat) :=
  match variant with
  | "ok" => some (.body len (.uint major) (some [.uint major, .uint 0]), some major)
  | "pvlong" => some (.body len (.uint major) (some [.uint major, .uint 0, .uint 7]), some major)
  | "neg" => some (.body len .nonUint (some [.nonUint, .uint 0]), none)
  | "str" => some (.body len .nonUint (some [.nonUint, .uint 0]), none)
  | "pvnotarr" => some (.body len (.uint major) none, if len = 15 then some major else none)
  | "pvempty" => some (.body len (.uint major) (some []), if len = 15 then some major else none)
  | "outer1" => some (.notPair, none)
  | "outer3" => some (.notPair, none)
  | "outermap" => some (.notPair, none)
  | "bodynotarr" => some (.bodyNotArray, none)
  | "garbage" => some (.garbage, none)
  | _ => none

def blockOut (t : Nat) (hdrOnly : Bool) : String × String :=
  match eraOfType t with
  | some e =>
    let s := if hdrOnly then s!"hera={e}" else s!"type={t} era={e} hera={e}"
    (s, "err:*||" ++ s)
  | none => ("err:unknown-type", "err:*")

def handleOp (op impl : String) : Out :=
  match tokens op with
  | ["det", len, variant, major] =>
    match parseNat? len, parseNat? major with
    | some len, some major =>
      match shapeOf len variant major with
      | some (sh, m) => { model := (determine genConsts sh).render, spec := specForMajor m }
      | none => badOp
    | _, _ => badOp
  | ["dethdr", _, "-", "-"] =>
    { model := (determine genConsts .notPair).render, spec := "err:*" }
  | ["dethdr", _, len, major] =>
    match parseNat? len, parseNat? major with
    | some len, some major =>
      -- a real header: [body, signature] with uint major, 2-element protocol version
      let sh : Shape := .body len (.uint major) (some [.uint major, .uint 0])
      { model := (determine genConsts sh).render, spec := specForMajor (some major) }
    | _, _ => badOp
  | ["blk", _, t, entry, _] =>
    match parseNat? t with
    | some t =>
      if entry ∉ ["nbfc", "nbfcskip", "off", "erafn", "hdr"] then badOp else
      let (m, s) := blockOut t (entry = "hdr")
      if impl.startsWith "err:decode" ∧ ((eraOfType t).isSome ∨ entry = "off") then { model := impl, spec := s }
      else { model := m, spec := s }
    | none => badOp
  | ["ntn", _, ht, byronType, _] =>
    match parseNat? ht, parseNat? byronType with
    | some ht, some byronType =>
      let bt := if ht = byronHeaderType then some byronType else lookup ht headerToBlock
      match bt with
      | none => { model := "err:unknown-header-type", spec := "err:*" }
      | some bt =>
        match eraOfType bt with
        | none => { model := "err:unknown-type", spec := "err:*" }
        | some e =>
          -- the NtN header type is the era id: a decoded header must report it
          -- (a Byron wrapper whose sub-type is not a Byron block type is outside the
          --  statement: the real client passes it on unchecked — reported, not demanded)
          let spec := if ht = byronHeaderType ∧ bt ≠ byronEbbBlockType ∧ bt ≠ byronMainBlockType
            then "*" else s!"err:*||hera={ht} *"
          if impl.startsWith "err:decode" then { model := impl, spec := spec }
          else { model := s!"hera={e} bt={bt}", spec := spec }
    | _, _ => badOp
  | ["maps", k] =>
    match parseNat? k with
    | some k => { model := s!"h2b={natOrNone (lookup k headerToBlock)} b2h={natOrNone (lookup k blockToHeader)}" }
    | none => badOp
  | _ => badOp

def handle (line : String) : Out :=
  match line.splitOn "\t" with
  | [op, impl] =>
    -- not evaluated (harness stopped running ops after repeated process crashes)
    if impl.startsWith "NOT-RUN" then { model := impl, spec := "*" } else handleOp op impl
  | [op] => handleOp op ""
  | _ => badOp

end GV.Drv.C36
