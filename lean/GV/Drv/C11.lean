import GV.Lib.EngTrace
/-
  C11. op \t impl-output (feed_impl): op = `eng <proto> <role> <gosched> | steps`,
  impl-output = `H=.. E=.. T=.. W=.. | <hook events>`.
  model: the event trace replayed through GV.Engine.step? (echoes the implementation output
         when every event is admitted, `reject@k:<event>` otherwise).
  spec : handler invocations and first error of the prescribed conversation.
-/
namespace GV.Drv.C11
open GV.Line GV.SM GV.EngTrace

def specOf (c : Conv) (garbage : Option String) : String :=
  if c.err = "-" && garbage.isNone then s!"H={symsStr c.handled} E=- *"
  else
    let errs := (if c.err = "-" then [] else [c.err]) ++
      (match garbage with | some g => if g = c.err then [] else [g] | none => [])
    "||".intercalate ((prefixes c.handled).flatMap (fun h => errs.map (fun e => s!"H={symsStr h} E={e} *")))

def handle (line : String) : Out :=
  match line.splitOn "\t" with
  | [op, impl] =>
    match groups op with
    | [["eng", proto, role, _], steps] =>
      match findMachine proto role, roleNat role, parseSteps steps ⟨[], []⟩ with
      | some m, some r, some sc =>
        -- an output that is not a summary + trace (e.g. `STUCK …`) is judged by the spec column
        let model := match groups impl with
          | [_, evs] => (match replay m r evs with
            | none => impl
            | some rej => rej)
          | _ => "bad-trace"
        let c := conv m r (sc.locals.length + sc.peers.length + 1) m.init sc.locals sc.peers {}
        { model := model, spec := specOf c (firstBad sc.peers) }
      | _, _, _ => badOp
    | _ => badOp
  | _ => badOp

end GV.Drv.C11
