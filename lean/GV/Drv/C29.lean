import GV.Lib.Line
import GV.Model.NativeScript
/-
  C29 driver.
    ns <era> <start|-> <ttl|-> <wits|-> <k> <scripthex>=<refhash> ...
        wits: comma list of v<vkeyhex>=<keyhash> | b<pubkeyhex>=<keyhash>   (hashes supplied by Go)
        refhash = Blake2b-224(0x00 ++ script bytes), computed by the generator with x/crypto
      -> err | hashes=<h,..> res=<ok|fail:i> spans=<stored bytes of every (sub)script, preorder>
    ev <validityStart> <validityEnd> <keyhashes|-> <guards|-> <scripthex>   (NativeScript.Evaluate[WithGuards])
      -> 1 | 0 | err
-/
namespace GV.Drv.C29
open GV.Line GV.Model.NativeScript GV.Lib.CborLite

def splitList (s : String) : List String := if s = "-" || s = "" then [] else s.splitOn ","

def parseOptNat (s : String) : Option (Option Nat) :=
  if s = "-" then some none else (parseNat? s).map some

def parseWit (s : String) : Option Bytes :=
  match (String.ofList (s.toList.drop 1)).splitOn "=" with
  | [_, h] => parseHex? h
  | _ => none

def parseScriptTok (s : String) : Option (Bytes × String) :=
  match s.splitOn "=" with
  | [sc, ref] => (parseHex? sc).map (fun b => (b, ref))
  | _ => none

def parseGuard (s : String) : Option (Nat × Bytes) :=
  match s.splitOn ":" with
  | [t, h] => do let t ← parseNat? t; let h ← parseHex? h; pure (t, h)
  | _ => none

def handle (line : String) : Out :=
  match tokens line with
  | ["ev", st, en, ks, gs, sc] =>
    match parseNat? st, parseNat? en, (splitList ks).mapM parseHex?, (splitList gs).mapM parseGuard, parseHex? sc with
    | some st, some en, some ks, some gl, some sc =>
      match decode sc with
      | none => { model := "err" }
      | some p =>
        -- newCredentialSet: an empty list is a nil set
        let guards := if gs = "-" || gl.isEmpty then none else some gl
        let c : GoCtx := { validityStart := st, validityEnd := en, keyHashes := ks, guards := guards }
        { model := boolStr (eval c p.script) }
    | _, _, _, _, _ => badOp
  | "ns" :: _era :: st :: tl :: ws :: k :: rest =>
    match parseOptNat st, parseOptNat tl, (splitList ws).mapM parseWit, parseNat? k, rest.mapM parseScriptTok with
    | some st, some tl, some ks, some k, some scs =>
      if scs.length ≠ k || k = 0 then badOp else
      match scs.mapM (fun x => decode x.1) with
      | none => { model := "err" }
      | some ps =>
        let t : TxCtx := { start := st, ttl := tl, keyHashes := ks }
        let scripts := ps.map (·.script)
        let res := match ruleFirstFail t scripts with
          | none => "ok"
          | some i => s!"fail:{i}"
        let hashes := ",".intercalate (scs.map (·.2))
        let spans := ",".intercalate ((ps.flatMap (·.spans)).map toHex)
        let constrained := scripts.all (fun s => hashes28 s && !hasGuard s)
        let spec :=
          if !constrained then s!"hashes={hashes} *"
          else if scripts.all (specEval t) then s!"hashes={hashes} res=ok *"
          else s!"hashes={hashes} res=fail*"
        let cls := if scripts.any (boundary t) then "absent-bound" else ""
        { model := s!"hashes={hashes} res={res} spans={spans}", spec := spec, cls := cls }
    | _, _, _, _, _ => badOp
  | _ => badOp

end GV.Drv.C29
