import GV.Lib.Line
import GV.Model.NativeScript
/-
  C29 driver.
    nsg dijkstra <start|-> <ttl|-> <wits|-> <guards> <k> ...   (body key 14: k:<hash>,.. | c:<t>.<hash>,..)
    nsc <allegra|conway> <start|-> <ttl|-> <wits|-> <k> ...     (in-memory transaction, no preserved bytes)
    ns <era> <start|-> <ttl|-> <wits|-> <k> <scripthex>=<refhash> ...
        wits: comma list of v<vkeyhex>=<keyhash> | b<pubkeyhex>=<keyhash>   (hashes supplied by Go)
        refhash = Blake2b-224(0x00 ++ script bytes), computed by the generator with x/crypto
      -> err | hashes=<h,..> res=<ok|fail:i> spans=<stored bytes of every (sub)script, preorder>
    ev <validityStart> <validityEnd> <keyhashes|-> <guards|-> <scripthex>   (NativeScript.Evaluate[WithGuards])
      -> 1 | 0 | err
-/
namespace GV.Drv.C29
open GV.Line GV.Model.NativeScript GV.Lib.CborLite

def splitList (s : String) : List String := if s = "-" || s = "" then [] else s.splitOn ","

def parseOptNat (s : String) : Option (Option Nat) :=
  if s = "-" then some none else (parseNat? s).map some

def parseWit (s : String) : Option Bytes :=
  match (String.ofList (s.toList.drop 1)).splitOn "=" with
  | [_, h] => parseHex? h
  | _ => none

def parseScriptTok (s : String) : Option (Bytes × String) :=
  match s.splitOn "=" with
  | [sc, ref] => (parseHex? sc).map (fun b => (b, ref))
  | _ => none

def parseGuard (s : String) : Option (Nat × Bytes) :=
  match s.splitOn ":" with
  | [t, h] => do let t ← parseNat? t; let h ← parseHex? h; pure (t, h)
  | _ => none

/-- guards token: `-` | `k:<hash>,..` (key hashes = credentials of type 0) | `c:<t>.<hash>,..` -/
def parseGuards (s : String) : Option (Option (List (Nat × Bytes))) :=
  if s = "-" then some none else
  let body := String.ofList (s.toList.drop 2)
  if s.startsWith "k:" then
    ((body.splitOn ",").mapM parseHex?).map (fun l => some (l.map (fun h => (0, h))))
  else if s.startsWith "c:" then
    ((body.splitOn ",").mapM (fun (e : String) =>
      match e.splitOn "." with
      | [t, h] => do let t ← parseNat? t; let h ← parseHex? h; pure (t, h)
      | _ => none)).map some
  else none

def runTx (st tl ws gs k : String) (rest : List String) (preserved : Bool) : Out :=
  match parseOptNat st, parseOptNat tl, (splitList ws).mapM parseWit, parseGuards gs, parseNat? k,
        rest.mapM parseScriptTok with
  | some st, some tl, some ks, some gl, some k, some scs =>
    if scs.length ≠ k || k = 0 then badOp else
    match scs.mapM (fun x => decode x.1) with
    | none => { model := "err" }
    | some ps =>
      let t : TxCtx := { start := st, ttl := tl, keyHashes := ks, guards := gl }
      let scripts := ps.map (·.script)
      let res := match ruleFirstFail t scripts preserved with
        | none => "ok"
        | some i => s!"fail:{i}"
      let hashes := ",".intercalate (scs.map (·.2))
      let spans := ",".intercalate ((ps.flatMap (·.spans)).map toHex)
      -- the property is silent on guards; without preserved bytes a present zero bound is
      -- (documentedly) read as absent
      let constrained := scripts.all (fun s => hashes28 s && !hasGuard s) &&
        (preserved || !scripts.any (boundary t))
      let spec :=
        if !constrained then s!"hashes={hashes} *"
        else if scripts.all (specEval t) then s!"hashes={hashes} res=ok *"
        else s!"hashes={hashes} res=fail*"
      { model := s!"hashes={hashes} res={res} spans={spans}", spec := spec }
  | _, _, _, _, _, _ => badOp

def handle (line : String) : Out :=
  match tokens line with
  | ["ev", st, en, ks, gs, sc] =>
    match parseNat? st, parseNat? en, (splitList ks).mapM parseHex?, (splitList gs).mapM parseGuard, parseHex? sc with
    | some st, some en, some ks, some gl, some sc =>
      match decode sc with
      | none => { model := "err" }
      | some p =>
        -- newCredentialSet: an empty list is a nil set
        let guards := if gs = "-" || gl.isEmpty then none else some gl
        let c : GoCtx := { validityStart := st, validityEnd := en, keyHashes := ks, guards := guards }
        { model := boolStr (eval c p.script) }
    | _, _, _, _, _ => badOp
  | "ns" :: _era :: st :: tl :: ws :: k :: rest => runTx st tl ws "-" k rest true
  | "nsg" :: _era :: st :: tl :: ws :: gs :: k :: rest => runTx st tl ws gs k rest true
  | "nsc" :: _era :: st :: tl :: ws :: k :: rest => runTx st tl ws "-" k rest false
  | _ => badOp

end GV.Drv.C29
