import GV.Lib.EngTrace
/-
  C12. feed_impl. ops: `eng …` (one real engine, scripted peer) and `pair …` (two real engines).
  model: hook traces replayed through GV.Engine.step? (echo of the implementation output if
         every event is admitted).
  spec : from the prescribed conversation: which sent messages advanced the local state (T),
         what may be on the wire (W: at least T, at most everything enqueued, in queue order),
         no empty segment (Z: a real peer's muxer treats a zero-length segment as an error),
         the first error; for `pair`: both sides see the whole conversation and no error.
-/
namespace GV.Drv.C12
open GV.Line GV.SM GV.EngTrace

def specEng (c : Conv) (locals : List Sym) : String :=
  if c.err = "-" then
    "||".intercalate ((List.range (locals.length + 1 - c.sent.length)).map (fun d =>
      s!"H={symsStr c.handled} E=- T={symsStr c.sent} W={typesStr (locals.take (c.sent.length + d))} Z=0 *"))
  else if c.err = "send-not-allowed" then
    -- the refused message never advances the state; when it is the very first message the
    -- application sends it is the head of a batch and must not reach the wire at all
    -- (after the error the protocol unregisters itself and the muxer may drop segments it had
    -- not written yet, so any prefix of the queue may have reached the peer)
    let ws := if c.sent.isEmpty then [([] : List Sym)]
              else (List.range (locals.length + 1)).map (fun k => locals.take k)
    "||".intercalate ((prefixes c.handled).flatMap (fun h => ws.map (fun w =>
      s!"H={symsStr h} E=send-not-allowed T={symsStr c.sent} W={typesStr w} Z=0 *")))
  else "*"

def splitConv : List String → List Sym → List Sym → Option (List Sym × List Sym)
  | [], c, s => some (c, s)
  | t :: rest, c, s =>
    let cs := t.toList
    match parseSym (String.ofList (cs.drop 1)) with
    | none => none
    | some a =>
      if cs.take 1 = ['c'] then splitConv rest (c ++ [a]) s
      else if cs.take 1 = ['s'] then splitConv rest c (s ++ [a])
      else none

def handle (line : String) : Out :=
  match line.splitOn "\t" with
  | [op, impl] =>
    match groups op with
    | [["eng", proto, role, _], steps] =>
      match findMachine proto role, roleNat role, parseSteps steps ⟨[], []⟩ with
      | some m, some r, some sc =>
        -- an output that is not a summary + trace (e.g. `STUCK …`) is judged by the spec column
        let model := match groups impl with
          | [_, evs] => (match replay m r evs with
            | none => impl
            | some rej => rej)
          | _ => "bad-trace"
        let c := conv m r (sc.locals.length + sc.peers.length + 1) m.init sc.locals sc.peers {}
        { model := model, spec := if (firstBad sc.peers).isSome then "*" else specEng c sc.locals }
      | _, _, _ => badOp
    | [["pair", proto, _], walk] =>
      match findMachine proto "client", findMachine proto "server", splitConv walk [] [] with
      | some mc, some ms, some (cl, sv) =>
        let model := match groups impl with
          | [_, evA, evB] => (match replay mc 1 evA, replay ms 2 evB with
            | none, none => impl
            | some rej, _ => "A:" ++ rej
            | _, some rej => "B:" ++ rej)
          | _ => "bad-trace"
        -- the conversation must be a path of the machine for the demand to apply
        let c := conv mc 1 (cl.length + sv.length + 1) mc.init cl (sv.map .msg) {}
        let spec := if c.err = "-" && c.sent.length = cl.length && c.handled.length = sv.length then
            s!"A:H={symsStr sv} E=- T={symsStr cl} B:H={symsStr cl} E=- T={symsStr sv} *"
          else "*"
        { model := model, spec := spec }
      | _, _, _ => badOp
    | _ => badOp
  | _ => badOp

end GV.Drv.C12
