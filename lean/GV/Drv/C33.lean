import GV.Lib.Line
import GV.Model.Withdrawals
/-
  op:  wd <era> <pv> <valid> <state> <k> (<kind><reg><deleg>:<amount>)*
  out: ok | unreg | unavail | notdeleg | lookuperr | decode-err
-/
namespace GV.Drv.C33
open GV.Line GV.Model.Withdrawals

def parseItem (s : String) : Option Wd :=
  match s.splitOn ":" with
  | [h, amt] =>
    match h.toList, parseNat? amt with
    | [k, r, d], some a => do
      let kh ← (if k = 'k' then some true else if k = 's' then some false else none)
      let reg ← (if r = '1' then some true else if r = '0' then some false else none)
      let lk ← (if d = 'd' then some Lookup.delegated else if d = 'n' then some Lookup.noDelegation
                else if d = 'e' then some Lookup.error else none)
      if a > 18446744073709551615 then none else
      pure { keyHash := kh, registered := reg, amount := a, lookup := lk }
    | _, _ => none
  | _ => none

def parseItems : List String → Option (List Wd)
  | [] => some []
  | s :: rest => do let w ← parseItem s; let r ← parseItems rest; pure (w :: r)

def handle (line : String) : Out :=
  match tokens line with
  | "wd" :: era :: pv :: valid :: st :: k :: items =>
    match parseNat? pv, parseBool? valid, parseNat? k, parseItems items with
    | some pv, some valid, some k, some wds =>
      if k ≠ wds.length || pv > 18446744073709551615 then badOp
      else if era ≠ "conway" && era ≠ "dijkstra" && era ≠ "conway-dpp" then badOp
      else if st ≠ "cap" && st ≠ "nocap" then badOp
      else
      let nz := wds.filter (fun w => w.amount ≠ 0)
      -- order-dependent inputs (both a missing delegation and a lookup error among the
      -- non-zero withdrawals) are not generated: Go's map order would decide
      if nz.any (·.lookup == .noDelegation) && nz.any (·.lookup == .error) then badOp else
      -- (a Dijkstra transaction with is_valid = false cannot be decoded; the harness builds
      --  the struct directly, so it is an input like any other)
      let o : Op := { pv := pv, valid := valid, capable := (st = "cap"), wds := wds }
      -- spec, from the property text. It speaks about phase-2-valid transactions and
      -- registered key-hash accounts; elsewhere it is silent.
      let inGate := pv = 10 || pv = 11
      let allKey := wds.all (·.keyHash)
      let allReg := wds.all (·.registered)
      let noErr := nz.all (fun w => w.lookup != .error)
      let spec :=
        if !valid then "*"
        else if !inGate then (if allReg then "ok" else "ok||unreg")
        else if !(allKey && allReg) then "*"
        else if nz.isEmpty then "ok"
        else if st = "nocap" then "unavail"
        else if !noErr then "*"
        else if nz.any (·.lookup == .noDelegation) then "notdeleg" else "ok"
      { model := (rule o).str, spec := spec }
    | _, _, _, _ => badOp
  | _ => badOp

end GV.Drv.C33
