import GV.Lib.Line
import GV.Model.Walkers
import GV.Lib.CborBytes
/-
  C02 driver (feed_impl: `op \t implementation-output`).
  op: <entry> <hex>.   Generic entries are predicted exactly:
    wf    -> ok <n> | err
    ainfo -> a=<cnt>,<hdr>,<indef> m=<cnt>,<hdr>,<indef>
    hdr   -> a=<len>,<hdrlen>|err m=<len>,<hdrlen>|err
    rawb <hex> <offset> <length> -> nil | <lo>,<hi>      StreamDecoder.RawBytes
  For `wf` the two CBOR libraries of the framework (GV.CborT.decode, GV.Cbor.wfItem) are
  cross-checked on the same bytes; a disagreement is reported as the model output.
  Typed entries: the model admits `ok` and `err`; `ok` is admitted only when the
  bytes start with a well-formed item of admissible depth (except `addr`, whose
  input is not CBOR, and `idlist`/`skipn`, which do not decode one whole item).
  spec (every entry): ok* || err*  — anything else (PANIC, TIMEOUT, ALLOC, MISMATCH)
  is a property failure with this input.
-/
namespace GV.Drv.C02
open GV.Line GV.CborT GV.Model.Walkers

def maxNested : Nat := 256

def wf (b : Bytes) : Option Nat :=
  match decode b with
  | some (t, r) => if depth t > maxNested then none else some (b.length - r.length)
  | none => none

def infoStr (o : Out Info) : String :=
  match o with
  | .val (c, h, i) => s!"{c},{h},{boolStr i}"
  | .oob => "OOB"

def hdrStr (o : Out (Option (Nat × Nat))) : String :=
  match o with
  | .val (some (l, h)) => s!"{l},{h}"
  | .val none => "err"
  | .oob => "OOB"

/-- Cross-check of the two CBOR libraries of the framework: the tree decoder
    `GV.CborT.decode` (this group) and the byte-level stack machine `GV.Cbor.wfItem`
    (g10b) must agree on whether a well-formed item starts the input and on its length. -/
def libsAgree (b : Bytes) : Bool :=
  match decode b, GV.Cbor.wfItem b with
  | some (_, r), .ok n => n == b.length - r.length
  | none, .ok _ => false
  | some _, _ => false
  | none, _ => true

def rawStr (o : Out (Option (Int × Int))) : String :=
  match o with
  | .val (some (lo, hi)) => s!"{lo},{hi}"
  | .val none => "nil"
  | .oob => "OOB"

def needsWf (entry : String) : Bool :=
  !(entry == "addr" || entry == "idlist" || entry == "skipn")

def handle (line : String) : Out :=
  let (op, impl) := match line.splitOn "\t" with
    | [a] => (a, "") | a :: b :: _ => (a, b) | [] => ("", "")
  match tokens op with
  | [entry, hex] =>
    match parseHex? hex with
    | none => badOp
    | some b =>
      let spec := "ok*||err*"
      if entry == "wf" then
        if !libsAgree b then { model := "LIBS-DISAGREE (GV.CborT.decode vs GV.Cbor.wfItem)", spec } else
        { model := match wf b with | some n => s!"ok {n}" | none => "err", spec }
      else if entry == "ainfo" then
        { model := s!"a={infoStr (infoOf 0x80 b)} m={infoStr (infoOf 0xa0 b)}", spec := "a=*" }
      else if entry == "hdr" then
        { model := s!"a={hdrStr (headerAt 0x80 b 0)} m={hdrStr (headerAt 0xa0 b 0)}", spec := "a=*" }
      else
        let model :=
          -- (DecodeAllDiagnostic on empty input decodes zero items)
          if impl == "ok" && entry == "diag" && wf b != some b.length then "err"  -- one item, no trailing bytes
          else if impl == "ok" then
            (if needsWf entry && !(entry == "sdiag" && b.isEmpty) && (wf b).isNone then "err" else "ok")
          else "err"
        { model, spec }
  | ["rawb", hex, off, ln] =>
    match parseHex? hex, parseInt? off, parseInt? ln with
    | some b, some o, some l => { model := rawStr (rawBytes b.length o l), spec := "*" }
    | _, _, _ => badOp
  | _ => badOp

end GV.Drv.C02
