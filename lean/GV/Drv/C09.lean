import GV.Lib.Line
import GV.Lib.SegUtil
import GV.Model.Muxer
/-
  C09 driver (feed_impl: the line is `op \t implementation-output`).

  rx <mode> <regs> <plan> <item>*        receive side only: a byte stream built from the
        items is fed to a real muxer through a connection that fragments reads by <plan>
     regs  = `-` | `id:i,id:r,...`       receivers registered at the reading muxer
     plan  = `n,n,...`                   chunk sizes (cycled)
     item  = s:<ts>:<pid>:<payload>      well-formed segment (length field = payload length)
           | z:<ts>:<pid>                header with length 0
           | x:<hex>                     raw bytes
           | u:<id>:<i|r>                UnregisterProtocol(id, role) once everything before it was read
           | g:<id>:<i|r>                RegisterProtocol(id, role)   once everything before it was read
     payload = h<hex> | g<len>.<seed>
  tx <mode> <regs> <plan> <pseed> <sender>*   a real sending muxer with one goroutine per
        sender, a real receiving muxer behind the fragmenting connection
     sender = <id>:<i|r>:<payload>,<payload>,...   (role of the SENDING protocol instance)

  out: err=<class> recv=<id:role=[len.fnv,...];...> [order=<id:role,...> wire=<len.fnv>]
  For tx the order in which the senders' segments hit the wire is taken from the
  implementation's output (trace inclusion: it must be an interleaving of the senders).
-/
namespace GV.Drv.C09
open GV.Line GV.SegUtil GV.Model.Muxer

def roleStr : Role → String
  | .initiator => "i"
  | .responder => "r"

def parseRole? (s : String) : Option Role :=
  if s = "i" then some .initiator else if s = "r" then some .responder else none

def parseKey? (s : String) : Option (Nat × Role) :=
  match s.splitOn ":" with
  | [a, b] => do let a ← parseNat? a; let b ← parseRole? b; pure (a, b)
  | _ => none

def parseKeys? (s : String) : Option (List (Nat × Role)) :=
  if s = "-" then some [] else (s.splitOn ",").mapM parseKey?

def keyStr (k : Nat × Role) : String := s!"{k.1}:{roleStr k.2}"

def endStr : End → String
  | .eofHeader => "eof-header"
  | .shortHeader => "unexpected-eof"
  | .shortPayload => "unexpected-eof"
  | .eofPayload => "eof-payload"
  | .zeroLen => "zero-len"
  | .fromInitiator => "from-initiator"
  | .fromResponder => "from-responder"
  | .unknownProto id => s!"unknown-proto:{id}"

def keyLt (a b : Nat × Role) : Bool :=
  a.1 < b.1 || (a.1 == b.1 && a.2 == Role.initiator && b.2 == Role.responder)

def insertKey (k : Nat × Role) : List (Nat × Role) → List (Nat × Role)
  | [] => [k]
  | x :: xs => if k == x then x :: xs else if keyLt k x then k :: x :: xs else x :: insertKey k xs

def sortKeys (ks : List (Nat × Role)) : List (Nat × Role) := ks.foldl (fun acc k => insertKey k acc) []

def renderRecv (regs : List (Nat × Role)) (ds : List Delivery) : String :=
  let ks := sortKeys regs
  if ks.isEmpty then "-" else
  ";".intercalate (ks.map fun k =>
    keyStr k ++ "=[" ++ ",".intercalate ((deliveredTo k ds).map fp) ++ "]")

inductive Item
  | seg (s : Seg)
  | zero (ts pid : Nat)
  | raw (b : Bytes)
  | unreg (k : Nat × Role)
  | reg (k : Nat × Role)

def Item.enc : Item → Bytes
  | .seg s => encSeg s
  | .zero ts pid => be32 ts ++ be16 pid ++ be16 0
  | .raw b => b
  | _ => []

def Item.isCtl : Item → Bool
  | .unreg _ => true
  | .reg _ => true
  | _ => false

def parseItem? (s : String) : Option Item :=
  match s.splitOn ":" with
  | ["s", ts, pid, pl] => do
    let ts ← parseNat? ts; let pid ← parseNat? pid; let pl ← parsePayload? pl
    pure (.seg ⟨ts, pid, pl⟩)
  | ["z", ts, pid] => do
    let ts ← parseNat? ts; let pid ← parseNat? pid
    pure (.zero ts pid)
  | ["x", h] => do let b ← parseHex? h; pure (.raw b)
  | ["u", a, b] => do let k ← parseKey? (a ++ ":" ++ b); pure (.unreg k)
  | ["g", a, b] => do let k ← parseKey? (a ++ ":" ++ b); pure (.reg k)
  | _ => none

/-- The property, stated on the list of items directly (no encoding, no parsing, its own
    bookkeeping of who is registered): `none` = the property is silent from here on.
    `cur` = receivers registered now, `ever` = protocol numbers that ever had a receiver. -/
def specWalk (mode : Nat) : List Item → List (Nat × Role) → List Nat → List Delivery →
    Option (List Delivery × List String)
  | [], _, _, acc => some (acc.reverse, ["eof-header"])
  | .raw _ :: _, _, _, _ => none
  | .unreg k :: rest, cur, ever, acc => specWalk mode rest (cur.filter (· != k)) ever acc
  | .reg k :: rest, cur, ever, acc => specWalk mode rest (k :: cur.filter (· != k)) (k.1 :: ever) acc
  | .zero ts pid :: _, _, _, acc =>
    if ts < 4294967296 ∧ pid < 65536 then some (acc.reverse, ["zero-len"]) else none
  | .seg s :: rest, cur, ever, acc =>
    if ¬ (s.ts < 4294967296 ∧ s.pid < 65536 ∧ 1 ≤ s.payload.length ∧ s.payload.length ≤ 65535) then none
    else
      let resp := decide (s.pid ≥ 32768)
      let id := s.pid % 32768
      let role := if resp then Role.initiator else Role.responder
      let dirErr : List String :=
        if mode = 1 ∧ resp = false then ["from-initiator"]
        else if mode = 2 ∧ resp = true then ["from-responder"] else []
      let registered := cur.contains (id, role)
      let catchAll := cur.any (fun r => r.1 == 0xabcd) || ever.contains 0xabcd
      if !dirErr.isEmpty then
        -- the property does not say which error wins when the protocol is unregistered too
        some (acc.reverse, dirErr ++ (if registered then [] else [s!"unknown-proto:{id}"]))
      else if registered then specWalk mode rest cur ever (((id, role), s.payload) :: acc)
      else if catchAll && !ever.contains id then none   -- never-registered number, catch-all present: silent
      else some (acc.reverse, [s!"unknown-proto:{id}"])

def outLine (keys : List (Nat × Role)) (ds : List Delivery) (e : String) : String :=
  s!"err={e} recv={renderRecv keys ds}"

/-- Consecutive data items become one byte stream cut by the chunk plan; control items
    stand between them. -/
def toActs (plan : List Nat) : List Item → Bytes → List Act → List Act
  | [], pending, acc =>
    (if pending.isEmpty then acc else (chunkBy plan pending).reverse.map Act.data ++ acc).reverse
  | it :: rest, pending, acc =>
    match it with
    | .unreg k =>
      let acc := if pending.isEmpty then acc else (chunkBy plan pending).reverse.map Act.data ++ acc
      toActs plan rest [] (Act.unreg k.1 k.2 :: acc)
    | .reg k =>
      let acc := if pending.isEmpty then acc else (chunkBy plan pending).reverse.map Act.data ++ acc
      toActs plan rest [] (Act.reg k.1 k.2 :: acc)
    | d => toActs plan rest (pending ++ d.enc) acc

def handleRx (toks : List String) : Out :=
  match toks with
  | mode :: regs :: plan :: items =>
    match parseNat? mode, parseKeys? regs, parseNatList? plan, items.mapM parseItem? with
    | some mode, some regs, some plan, some items =>
      -- every key that is registered at some point gets a line in the output
      let allKeys := regs ++ items.filterMap fun it => match it with | .reg k => some k | _ => none
      -- Without run-time registration changes the whole stream is fed as one chunk: by
      -- `GV.Props.C09.run_single` / `frag_irrelevant` (theorems) the result is the same for every
      -- fragmentation of these bytes, in particular for the op's chunk plan. With control items
      -- the stream is cut by the plan and the registrations change between the reads.
      let r := if items.any Item.isCtl then runActs mode (RegMap.ofKeys regs) (toActs plan items [] [])
               else run ⟨mode, RegMap.ofKeys regs⟩ [items.flatMap Item.enc]
      let spec := match specWalk mode items regs (regs.map (·.1)) [] with
        | none => "*"
        | some (ds, es) => "||".intercalate (es.map fun e => outLine allKeys ds e)
      { model := outLine allKeys r.1 (endStr r.2), spec := spec }
    | _, _, _, _ => badOp
  | _ => badOp

structure Sender where
  key : Nat × Role          -- (protocol id, role of the sending instance)
  payloads : List Bytes

def parseSender? (s : String) : Option Sender :=
  match s.splitOn ":" with
  | [id, r, pls] => do
    let id ← parseNat? id; let r ← parseRole? r
    let pls ← if pls = "-" then some [] else (pls.splitOn ",").mapM parsePayload?
    pure ⟨(id, r), pls⟩
  | _ => none

/-- Segments a sender produces through `NewSegment` (nil results are not sent). -/
def Sender.segs (s : Sender) : List Seg :=
  s.payloads.filterMap fun p => newSegment 0 s.key.1 p (s.key.2 == Role.responder)

def field? (name : String) (impl : String) : Option String :=
  (tokens impl).findSome? fun t =>
    if t.startsWith (name ++ "=") then some (t.drop (name.length + 1)).toString else none

/-- Rebuild the wire order from the implementation's `order=`: the k-th occurrence of a
    sender key is that sender's k-th segment. `none` = not an interleaving of the senders. -/
def rebuild (order : List (Nat × Role)) (pending : List ((Nat × Role) × List Seg)) :
    Option (List Seg) :=
  match order with
  | [] => if pending.all (fun p => p.2.isEmpty) then some [] else none
  | k :: rest =>
    match pending.find? (fun p => p.1 == k) with
    | some (_, sg :: more) =>
      (rebuild rest (pending.map fun p => if p.1 == k then (p.1, more) else p)).map (sg :: ·)
    | _ => none

def peerKey (k : Nat × Role) : Nat × Role :=
  (k.1, if k.2 == Role.initiator then Role.responder else Role.initiator)

def handleTx (toks : List String) (impl : String) : Out :=
  match toks with
  | mode :: regs :: plan :: _pseed :: senders =>
    match parseNat? mode, parseKeys? regs, parseNatList? plan, senders.mapM parseSender? with
    | some mode, some regs, some plan, some senders =>
      let c : Cfg := ⟨mode, RegMap.ofKeys regs⟩
      let nilCount := (senders.map fun s => s.payloads.length - s.segs.length).sum
      -- spec: independent of the order when every sender's receiver is registered and allowed
      let okSender (s : Sender) : Bool :=
        let pk := peerKey s.key
        s.key.1 < 32768 && regs.contains pk &&
          !(c.mode == 1 && pk.2 == Role.responder) && !(c.mode == 2 && pk.2 == Role.initiator)
      let distinct := (senders.map (·.key)).eraseDups.length == senders.length
      let dirOk (s : Sender) : Bool :=
        let pk := peerKey s.key
        !(c.mode == 1 && pk.2 == Role.responder) && !(c.mode == 2 && pk.2 == Role.initiator)
      let allValid := senders.all fun s => s.key.1 < 32768 && s.payloads.all (fun p => 1 ≤ p.length ∧ p.length ≤ 65535)
      let catchAll := regs.any (fun r => r.1 == 0xabcd)
      let unreg := senders.filter fun s => !regs.contains (peerKey s.key) && !s.payloads.isEmpty
      let spec :=
        if distinct && allValid && !catchAll && senders.all dirOk && !unreg.isEmpty then
          -- some sender has no receiver at the peer: the connection must end with that error
          "||".intercalate (unreg.map fun s => s!"err=unknown-proto:{s.key.1} *")
        else if distinct && senders.all okSender then
          let ds : List Delivery := senders.flatMap fun s =>
            (s.payloads.filter (fun p => 1 ≤ p.length ∧ p.length ≤ 65535)).map fun p => (peerKey s.key, p)
          if senders.all (fun s => s.payloads.all (fun p => 1 ≤ p.length)) then
            outLine regs ds "eof-header" ++ s!" nil={nilCount} *"
          else "*"
        else "*"
      match (field? "order" impl).bind parseKeys? with
      | none => { model := "reject:no-order", spec := spec }
      | some order =>
        match rebuild order (senders.map fun s => (s.key, s.segs)) with
        | none => { model := "reject:not-an-interleaving", spec := spec }
        | some w =>
          let wire := w.flatMap encSeg
          let r := run c [wire]   -- any fragmentation gives the same result (C09.run_single)
          let ord := if order.isEmpty then "-" else ",".intercalate (order.map keyStr)
          { model := outLine regs r.1 (endStr r.2) ++ s!" nil={nilCount} order={ord} wire={fp wire}",
            spec := spec }
    | _, _, _, _ => badOp
  | _ => badOp

def handle (line : String) : Out :=
  let (op, impl) := match line.splitOn "\t" with
    | [a] => (a, "")
    | a :: b :: _ => (a, b)
    | [] => ("", "")
  match tokens op with
  | "rx" :: rest => handleRx rest
  | "tx" :: rest => handleTx rest impl
  | _ => badOp

end GV.Drv.C09
