import GV.Lib.Line
import GV.Model.HeaderSym
/-
  feed_impl: the line is `op \t implementation-output`; the only fact read from the
  implementation is `lead=<b>` (was the builder eligible for the slot — a VRF/threshold matter
  that belongs to C37/C38).
  op:  hdr <c|t> <useed> <slot> <blockNo> <spk> <maxEvo> <ocPeriod> <kesT> <seq> <ctx> <tamper>
  out: lead=<b> ser=<b> valid=<b> lkes=<1|0|e> lopc=<b> errs=<check names>
  op:  blk <era>[+tx] <useed> <slot> <spk> <ocPeriod> <kesT> <tamper… | seg <i> | flip <off> <bit>>
       era: shelley allegra mary alonzo babbage conway dijkstra (c, t = babbage, shelley)
  out: lead=<b> dec=<b> vb=<1|0:kind>            (flip: lead=<b> vb=<b>)
-/
namespace GV.Drv.C40
open GV.Line GV.Model.Header GV.Model.HeaderSym

def errStr : Err → String
  | .slot => "slot" | .blockNo => "blockNo" | .prevHash => "prevHash" | .vrf => "vrf"
  | .leader => "leader" | .nonceVrf => "nonceVrf" | .kesWindow => "kesWindow" | .kesSig => "kesSig"
  | .opCert => "opCert" | .vrfReg => "vrfReg"

def tampers : List String := ["none", "blockNo", "slot", "prevHash", "issuer", "vrfKey", "vrfProof",
  "vrfOut", "nonceProof", "nonceOut", "bodySize", "bodyHash", "ocHot", "ocSeq", "ocPeriod", "ocSig",
  "protoMajor", "protoMinor", "kesSig", "kesSigOtherKey", "kesSigOtherT",
  "vrfProofLen", "vrfOutLen", "vrfKeyLen", "kesSigLen", "ocHotLen", "issuerLen", "ocSigLen",
  "nonceProofLen", "nonceOutLen"]
def tpraosOnly : List String := ["nonceProof", "nonceOut", "nonceProofLen", "nonceOutLen"]
def ctxs : List String := ["ok", "prevslot", "prevslot+", "blockno", "nohash", "badhash", "reg", "regbad"]

/-- header / block flavours: (TPraos layout?, number of body segments); "c"/"t" = babbage/shelley -/
def eraOf (md : String) : Option (Bool × Nat) :=
  match md with
  | "t" | "shelley" | "allegra" | "mary" => some (true, 3)
  | "alonzo" => some (true, 4)
  | "c" | "babbage" | "conway" => some (false, 4)
  -- a Dijkstra block is [header, block_body]: one hashed body element
  | "dijkstra" => some (false, 1)
  | _ => none

structure Built where
  P : Prims T
  f : Fields T
  sig : T

/-- build on the symbolic universe: vrf keys 10/11, kes keys 20/21, cold keys 30/31 -/
def buildSym (lead tp : Bool) (slot blockNo ocPeriod kesT seq bodySize : Nat) (proto : Nat × Nat)
    (bodyHash : T) : Option Built :=
  let hot := T.kpk 20
  let bld : Builder T :=
    { tpraos := tp, vrfSk := T.atom 10, kesSk := T.atom 20, kesT := kesT, ocHot := hot,
      ocSeq := seq, ocPeriod := ocPeriod,
      ocSig := T.esg 30 (T.signable hot seq ocPeriod), issuer := T.epk 30 }
  let bin : BuildIn T :=
    { slot, blockNo, prevHash := T.atom 1, nonce := T.atom 7, poolStake := 1000000000,
      totalStake := 1000000000, bodyHash := bodyHash, bodySize := bodySize, protoMajor := proto.1,
      protoMinor := proto.2 }
  let genuineOut := T.vout 10 (T.inp tp slot 7 false)
  -- first pass fixes the numbering of serialised bodies, second pass is the model run
  let f0 : Option (Fields T) :=
    match build (sym lead genuineOut none) bld bin with
    | .ok (f, _) => some f | .error _ => none
  let P := sym lead genuineOut f0
  match build P bld bin with
  | .error _ => none
  | .ok (f, sig) => some { P, f, sig }

/-- one field replaced by another genuine value of the same size, or cut by one byte -/
def tamperFields (tp : Bool) (slot seq ocPeriod : Nat) (f : Fields T) (tamper : String) : Fields T :=
  let hot := T.kpk 20
  let other := T.inp tp (slot + 1) 7 false
  let otherEta := T.inp tp (slot + 1) 7 true
  match tamper with
  | "blockNo" => { f with blockNo := f.blockNo + 1 }
  | "slot" => { f with slot := f.slot + 1 }
  | "prevHash" => { f with prevHash := T.atom 2 }
  | "issuer" => { f with issuer := T.epk 31 }
  | "vrfKey" => { f with vrfKey := T.vpk 11 }
  | "vrfProof" => { f with vrfProof := T.vproof 10 other }
  | "vrfOut" => { f with vrfOut := T.vout 10 other }
  | "nonceProof" => { f with nonceProof := some (T.vproof 10 otherEta) }
  | "nonceOut" => { f with nonceOut := some (T.vout 10 otherEta) }
  | "bodySize" => { f with bodySize := f.bodySize + 1 }
  | "bodyHash" => { f with bodyHash := T.atom 4 }
  | "ocHot" => { f with ocHot := T.kpk 21 }
  | "ocSeq" => { f with ocSeq := (f.ocSeq + 1) % 2 ^ 32 }
  | "ocPeriod" => { f with ocPeriod := (f.ocPeriod + 1) % 2 ^ 32 }
  | "ocSig" => { f with ocSig := T.esg 31 (T.signable hot seq ocPeriod) }
  | "protoMajor" => { f with protoMajor := f.protoMajor + 1 }
  | "protoMinor" => { f with protoMinor := f.protoMinor + 1 }
  | "vrfProofLen" => { f with vrfProof := T.trunc f.vrfProof }
  | "vrfOutLen" => { f with vrfOut := T.trunc f.vrfOut }
  | "vrfKeyLen" => { f with vrfKey := T.trunc f.vrfKey }
  | "ocHotLen" => { f with ocHot := T.trunc f.ocHot }
  | "issuerLen" => { f with issuer := T.trunc f.issuer }
  | "ocSigLen" => { f with ocSig := T.trunc f.ocSig }
  | "nonceProofLen" => { f with nonceProof := f.nonceProof.map T.trunc }
  | "nonceOutLen" => { f with nonceOut := f.nonceOut.map T.trunc }
  | _ => f

def tamperSig (P : Prims T) (tp : Bool) (kesT : Nat) (f : Fields T) (sig : T) (tamper : String) : T :=
  match tamper with
  | "kesSig" => T.ksg 99 0 (T.atom 0)   -- a 448-byte string that is nobody's signature
  | "kesSigOtherKey" => T.ksg 21 kesT (P.ser tp f)
  | "kesSigOtherT" => T.ksg 20 ((kesT + 1) % 64) (P.ser tp f)
  | "kesSigLen" => T.trunc sig
  | _ => sig

def handleHdr (impl : String) (toks : List String) : Out :=
  match toks with
  | [md, _useed, slot, blockNo, spk, maxEvo, ocPeriod, kesT, seq, ctx, tamper] =>
    match parseNat? slot, parseNat? blockNo, parseNat? spk, parseNat? maxEvo, parseNat? ocPeriod,
          parseNat? kesT, parseNat? seq with
    | some slot, some blockNo, some spk, some maxEvo, some ocPeriod, some kesT, some seq =>
      match eraOf md with
      | none => badOp
      | some (tp, _) =>
      if kesT > 63 ∨ slot = 0 ∨ slot ≥ 2 ^ 62 ∨ blockNo = 0 ∨
         blockNo ≥ 2 ^ 64 ∨ spk ≥ 2 ^ 64 ∨ maxEvo ≥ 2 ^ 64 ∨ ocPeriod ≥ 2 ^ 32 ∨ seq ≥ 2 ^ 32 ∨
         !tampers.contains tamper ∨ !ctxs.contains ctx ∨
         (!tp ∧ tpraosOnly.contains tamper) then badOp else
      let lead := impl.startsWith "lead=1"
      if impl.startsWith "lead=0" then { model := "lead=0 notleader", spec := "*" } else
      match buildSym lead tp slot blockNo ocPeriod kesT seq 1234 (9, 1) (T.atom 3) with
      | none => { model := "lead=0 notleader", spec := "*" }
      | some ⟨P, f, sig⟩ =>
        let f' := tamperFields tp slot seq ocPeriod f tamper
        let sig' := tamperSig P tp kesT f sig tamper
        let vin : VIn T :=
          { f := f', kesSig := sig', bodyCbor := P.ser tp f',
            prevSlot := (match ctx with | "prevslot" => slot | "prevslot+" => slot + 5 | _ => slot - 1),
            prevBlockNo := (if ctx = "blockno" then blockNo else blockNo - 1),
            prevHeaderHash := (match ctx with
              | "nohash" => none | "badhash" => some (T.atom 5) | _ => some (T.atom 1)),
            nonce := T.atom 7, poolStake := 1000000000, totalStake := 1000000000,
            registeredVrfKeyHash := (match ctx with
              | "reg" => some (T.h (T.vpk 10)) | "regbad" => some (T.h (T.vpk 11)) | _ => none) }
        let cfg : Cfg := { tpraos := tp, slotsPerKESPeriod := spk, maxKESEvolutions := maxEvo }
        let errs := validate P cfg vin
        let es := if errs.isEmpty then "-" else ",".intercalate (errs.map errStr)
        let lk := match ledgerKes P vin spk with
          | none => "e" | some true => "1" | some false => "0"
        let lo := boolStr (ledgerOpCert P vin)
        let model := s!"lead=1 ser=1 valid={boolStr errs.isEmpty} lkes={lk} lopc={lo} errs={es}"
        -- the property's demand, from the op alone
        let cur := if spk = 0 then 0 else slot / spk
        let inWindow := spk ≠ 0 ∧ cur ≥ ocPeriod ∧ cur - ocPeriod < maxEvo
        let signerAtSlot := spk ≠ 0 ∧ cur ≥ ocPeriod ∧ cur - ocPeriod = kesT
        -- `kesSigOtherT` substitutes the key's genuine signature of another evolution: that is
        -- a tampering only when the builder's own signature was the right one for the slot
        let tampered := tamper ≠ "none" ∧ (tamper ≠ "kesSigOtherT" ∨ signerAtSlot)
        -- before the certificate's start period nothing may pass: neither the header validator
        -- nor the ledger's KES verification (which knows no upper end of the window)
        let early := spk ≠ 0 ∧ cur < ocPeriod
        let spec :=
          if early then "lead=1 ser=1 valid=0 lkes=0 *||lead=1 ser=1 valid=0 lkes=e *"
          else if ¬ inWindow then "lead=1 ser=1 valid=0 *"
          else if tampered then "lead=1 ser=1 valid=0 *"
          else if tamper ≠ "none" then "*"
          else if signerAtSlot ∧ (ctx = "ok" ∨ ctx = "reg") then "lead=1 ser=1 valid=1 lkes=1 lopc=1 *"
          else "*"
        { model := model, spec := spec }
    | _, _, _, _, _, _, _ => badOp
  | _ => badOp

def handleBlk (impl : String) (toks : List String) : Out :=
  match toks with
  | md0 :: _useed :: slot :: spk :: ocPeriod :: kesT :: tam =>
    -- "+tx": the body carries one transaction (the model sees bodies only through their hash)
    let md := if md0.endsWith "+tx" then String.ofList (md0.toList.take (md0.length - 3)) else md0
    match parseNat? slot, parseNat? spk, parseNat? ocPeriod, parseNat? kesT with
    | some slot, some spk, some ocPeriod, some kesT =>
      match eraOf md with
      | none => badOp
      | some (tp, nseg) =>
      if kesT > 63 ∨ slot = 0 ∨ slot ≥ 2 ^ 62 ∨ spk = 0 ∨ spk ≥ 2 ^ 64 ∨
         ocPeriod ≥ 2 ^ 32 then badOp else
      -- tamper kind
      let kind : Option (String × Nat) := match tam with
        | ["seg", i] => (parseNat? i).bind fun i => if i ≥ nseg then none else some ("seg", i)
        | ["flip", o, b] => match parseNat? o, parseNat? b with
          | some _, some b => if b > 7 then none else some ("flip", 0)
          | _, _ => none
        | [t] => if tampers.contains t ∧ ¬ (!tp ∧ tpraosOnly.contains t) then some (t, 0) else none
        | _ => none
      match kind with
      | none => badOp
      | some (tamper, _) =>
        let lead := impl.startsWith "lead=1"
        if impl.startsWith "lead=0" then { model := "lead=0 notleader", spec := "*" } else
        match buildSym lead tp slot 77 ocPeriod kesT 3 nseg (if tp then 2 else 8, 0) (T.segs 0) with
        | none => { model := "lead=0 notleader", spec := "*" }
        | some ⟨P, f, sig⟩ =>
          if tamper = "flip" then
            -- every byte of the block is signed (header body), is the signature, is hashed (body
            -- segments) or is framing: no single-bit change is accepted
            { model := "lead=1 vb=0", spec := "lead=1 vb=0" }
          else
          let f' := tamperFields tp slot 3 ocPeriod f tamper
          let sig' := tamperSig P tp kesT f sig tamper
          let segHash := if tamper = "seg" then T.segs 1 else T.segs 0
          let vin : VIn T :=
            { f := f', kesSig := sig', bodyCbor := P.ser tp f', prevSlot := 0, prevBlockNo := 0,
              prevHeaderHash := none, nonce := T.atom 7, poolStake := 1000000000,
              totalStake := 1000000000, registeredVrfKeyHash := none }
          -- decoding with body-hash validation on compares the header's hash with the segments
          let dec := f'.bodyHash == segHash
          let vb := match verifyBlock P vin tp spk segHash with
            | .ok _ => "1" | .error .vrf => "0:vrf" | .error .kes => "0:kes"
            | .error .bodyHash => "0:bodyhash"
          let cur := slot / spk
          let signerAtSlot := cur ≥ ocPeriod ∧ cur - ocPeriod = kesT
          let tampered := tamper ≠ "none" ∧ (tamper ≠ "kesSigOtherT" ∨ signerAtSlot)
          let spec :=
            if cur < ocPeriod then "lead=1 dec=0 vb=0*||lead=1 dec=1 vb=0*"
            else if tampered then "lead=1 dec=0 vb=0*||lead=1 dec=1 vb=0*"
            else if tamper = "none" ∧ signerAtSlot then "lead=1 dec=1 vb=1"
            else "*"
          { model := s!"lead=1 dec={boolStr dec} vb={vb}", spec := spec }
    | _, _, _, _ => badOp
  | _ => badOp

def handle (line : String) : Out :=
  match line.splitOn "\t" with
  | [op, impl] =>
    match tokens op with
    | "hdr" :: rest => handleHdr impl rest
    | "blk" :: rest => handleBlk impl rest
    | _ => badOp
  | _ => badOp

end GV.Drv.C40
