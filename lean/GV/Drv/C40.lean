import GV.Lib.Line
import GV.Model.HeaderSym
/-
  feed_impl: the line is `op \t implementation-output`; the only fact read from the
  implementation is `lead=<b>` (was the builder eligible for the slot — a VRF/threshold matter
  that belongs to C37/C38).
  op:  hdr <c|t> <useed> <slot> <blockNo> <spk> <maxEvo> <ocPeriod> <kesT> <seq> <ctx> <tamper>
  out: lead=<b> ser=<b> valid=<b> errs=<check names> lkes=<1|0|e> lopc=<b>
-/
namespace GV.Drv.C40
open GV.Line GV.Model.Header GV.Model.HeaderSym

def errStr : Err → String
  | .slot => "slot" | .blockNo => "blockNo" | .prevHash => "prevHash" | .vrf => "vrf"
  | .leader => "leader" | .nonceVrf => "nonceVrf" | .kesWindow => "kesWindow" | .kesSig => "kesSig"
  | .opCert => "opCert" | .vrfReg => "vrfReg"

def tampers : List String := ["none", "blockNo", "slot", "prevHash", "issuer", "vrfKey", "vrfProof",
  "vrfOut", "nonceProof", "nonceOut", "bodySize", "bodyHash", "ocHot", "ocSeq", "ocPeriod", "ocSig",
  "protoMajor", "protoMinor", "kesSig", "kesSigOtherKey", "kesSigOtherT"]
def ctxs : List String := ["ok", "prevslot", "prevslot+", "blockno", "nohash", "badhash", "reg", "regbad"]

def handle (line : String) : Out :=
  match line.splitOn "\t" with
  | [op, impl] =>
    match tokens op with
    | ["hdr", md, _useed, slot, blockNo, spk, maxEvo, ocPeriod, kesT, seq, ctx, tamper] =>
      match parseNat? slot, parseNat? blockNo, parseNat? spk, parseNat? maxEvo, parseNat? ocPeriod,
            parseNat? kesT, parseNat? seq with
      | some slot, some blockNo, some spk, some maxEvo, some ocPeriod, some kesT, some seq =>
        if (md ≠ "c" ∧ md ≠ "t") ∨ kesT > 63 ∨ slot = 0 ∨ slot ≥ 2 ^ 62 ∨ blockNo = 0 ∨
           blockNo ≥ 2 ^ 64 ∨ spk ≥ 2 ^ 64 ∨ maxEvo ≥ 2 ^ 64 ∨ ocPeriod ≥ 2 ^ 32 ∨ seq ≥ 2 ^ 32 ∨
           !tampers.contains tamper ∨ !ctxs.contains ctx ∨
           (md = "c" ∧ (tamper = "nonceProof" ∨ tamper = "nonceOut")) then badOp else
        let tp := md == "t"
        let lead := impl.startsWith "lead=1"
        if impl.startsWith "lead=0" then { model := "lead=0 notleader", spec := "*" } else
        -- symbolic universe: vrf keys 10/11, kes keys 20/21, cold keys 30/31
        let hot := T.kpk 20
        let bld : Builder T :=
          { tpraos := tp, vrfSk := T.atom 10, kesSk := T.atom 20, kesT := kesT, ocHot := hot,
            ocSeq := seq, ocPeriod := ocPeriod,
            ocSig := T.esg 30 (T.signable hot seq ocPeriod), issuer := T.epk 30 }
        let bin : BuildIn T :=
          { slot, blockNo, prevHash := T.atom 1, nonce := T.atom 7, poolStake := 1000000000,
            totalStake := 1000000000, bodyHash := T.atom 3, bodySize := 1234, protoMajor := 9,
            protoMinor := 1 }
        let genuineOut := T.vout 10 (T.inp tp slot 7 false)
        -- first pass fixes the numbering of serialised bodies, second pass is the model run
        let f0 : Option (Fields T) :=
          match build (sym lead genuineOut none) bld bin with
          | .ok (f, _) => some f | .error _ => none
        let P := sym lead genuineOut f0
        match build P bld bin with
        | .error _ => { model := "lead=0 notleader", spec := "*" }
        | .ok (f, sig) =>
          let other := T.inp tp (slot + 1) 7 false
          let otherEta := T.inp tp (slot + 1) 7 true
          let f' : Fields T := match tamper with
            | "blockNo" => { f with blockNo := f.blockNo + 1 }
            | "slot" => { f with slot := f.slot + 1 }
            | "prevHash" => { f with prevHash := T.atom 2 }
            | "issuer" => { f with issuer := T.epk 31 }
            | "vrfKey" => { f with vrfKey := T.vpk 11 }
            | "vrfProof" => { f with vrfProof := T.vproof 10 other }
            | "vrfOut" => { f with vrfOut := T.vout 10 other }
            | "nonceProof" => { f with nonceProof := some (T.vproof 10 otherEta) }
            | "nonceOut" => { f with nonceOut := some (T.vout 10 otherEta) }
            | "bodySize" => { f with bodySize := f.bodySize + 1 }
            | "bodyHash" => { f with bodyHash := T.atom 4 }
            | "ocHot" => { f with ocHot := T.kpk 21 }
            | "ocSeq" => { f with ocSeq := (f.ocSeq + 1) % 2 ^ 32 }
            | "ocPeriod" => { f with ocPeriod := (f.ocPeriod + 1) % 2 ^ 32 }
            | "ocSig" => { f with ocSig := T.esg 31 (T.signable hot seq ocPeriod) }
            | "protoMajor" => { f with protoMajor := f.protoMajor + 1 }
            | "protoMinor" => { f with protoMinor := f.protoMinor + 1 }
            | _ => f
          let sig' : T := match tamper with
            | "kesSig" => T.atom 99
            | "kesSigOtherKey" => T.ksg 21 kesT (P.ser tp f)
            | "kesSigOtherT" => T.ksg 20 ((kesT + 1) % 64) (P.ser tp f)
            | _ => sig
          let vin : VIn T :=
            { f := f', kesSig := sig', bodyCbor := P.ser tp f',
              prevSlot := (match ctx with | "prevslot" => slot | "prevslot+" => slot + 5 | _ => slot - 1),
              prevBlockNo := (if ctx = "blockno" then blockNo else blockNo - 1),
              prevHeaderHash := (match ctx with
                | "nohash" => none | "badhash" => some (T.atom 5) | _ => some (T.atom 1)),
              nonce := T.atom 7, poolStake := 1000000000, totalStake := 1000000000,
              registeredVrfKeyHash := (match ctx with
                | "reg" => some (T.h (T.vpk 10)) | "regbad" => some (T.h (T.vpk 11)) | _ => none) }
          let cfg : Cfg := { tpraos := tp, slotsPerKESPeriod := spk, maxKESEvolutions := maxEvo }
          let errs := validate P cfg vin
          let es := if errs.isEmpty then "-" else ",".intercalate (errs.map errStr)
          let lk := match ledgerKes P vin spk with
            | none => "e" | some true => "1" | some false => "0"
          let model := s!"lead=1 ser=1 valid={boolStr errs.isEmpty} errs={es} lkes={lk} lopc={boolStr (ledgerOpCert P vin)}"
          -- the property's demand, from the op alone
          let cur := if spk = 0 then 0 else slot / spk
          let inWindow := spk ≠ 0 ∧ cur ≥ ocPeriod ∧ cur - ocPeriod < maxEvo
          let signerAtSlot := spk ≠ 0 ∧ cur ≥ ocPeriod ∧ cur - ocPeriod = kesT
          -- `kesSigOtherT` substitutes the key's genuine signature of another evolution: that is
          -- a tampering only when the builder's own signature was the right one for the slot
          let tampered := tamper ≠ "none" ∧ (tamper ≠ "kesSigOtherT" ∨ signerAtSlot)
          let spec :=
            if ¬ inWindow then "lead=1 ser=1 valid=0 *"
            else if tampered then "lead=1 ser=1 valid=0 *"
            else if tamper ≠ "none" then "*"
            else if signerAtSlot ∧ (ctx = "ok" ∨ ctx = "reg") then "lead=1 ser=1 valid=1 *"
            else "*"
          { model := model, spec := spec }
      | _, _, _, _, _, _, _ => badOp
    | _ => badOp
  | _ => badOp

end GV.Drv.C40
