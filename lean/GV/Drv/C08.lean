import GV.Lib.Line
import GV.Model.OutputValue
/-
  op:  ov <era> <enc> <in> <mint> <k> q1 .. qk
  out: decode-err | acc | rej:ValueNotConservedUtxoError
-/
namespace GV.Drv.C08
open GV.Line GV.Model.OutputValue

def parseQs : List String → Option (List (Option Int))
  | [] => some []
  | s :: rest => do
    let q ← (if s = "-" then some none else (parseInt? s).map some)
    let r ← parseQs rest
    pure (q :: r)

def handle (line : String) : Out :=
  match tokens line with
  | "ov" :: era :: enc :: inq :: mint :: k :: qs =>
    match parseNat? inq, parseInt? mint, parseNat? k, parseQs qs with
    | some inq, some mint, some k, some outs =>
      if !(["mary", "alonzo", "babbage", "conway", "dijkstra"].contains era) then badOp
      else if enc ≠ "m" && enc ≠ "b" && enc ≠ "s" then badOp
      else if k ≠ outs.length || k = 0 then badOp
      else if (inq : Int) > maxU64 then badOp
      else
      let t : Tx := { inQty := inq, mint := mint, outs := outs }
      let model := match run t with
        | .decodeErr => "decode-err"
        | .accepted => "pure=1 acc"
        | .notConserved => "pure=1 rej:ValueNotConservedUtxoError"
      -- spec (property text): no accepted transaction has an output quantity that is
      -- negative or above 2^64−1, and none creates tokens: Σ outputs = inputs + mint
      let bad := (quantities t).any (fun q => q < 0 || q > maxU64)
      let created := (quantities t).sum ≠ (inq : Int) + mint
      -- validation is a pure function of the transaction (`pure=1`, see harness/c08.go)
      let spec := if bad || created then "decode-err||pure=1 rej:*" else "decode-err||pure=1 *"
      { model := model, spec := spec }
    | _, _, _, _ => badOp
  | _ => badOp

end GV.Drv.C08
