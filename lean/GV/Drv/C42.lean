import GV.Lib.PipeTrace
/-
  C42 — the pipeline applies each good block once, in order.
  feed_impl: line = `<scenario> \t <event trace recorded on the real pipeline>`.
  model column: the trace, if every event is a step of GV.Model.Pipeline, else `reject@k:<token>`.
  spec column : the property monitor on the real trace:
    * ApplyFunc calls have strictly increasing sequence numbers (in order, none twice) and
      only concern accepted blocks that decode (and validate, when enabled);
    * no block is read twice from Results(), and only accepted blocks are;
    * accepted blocks carry the sequence numbers 0,1,2,.. without gaps;
    * if the scenario settled without Stop: ApplyFunc saw exactly the good accepted blocks and
      Results() delivered every accepted block exactly once;
    * Stop returned — also while the errors / results stream is full and unread — and no
      goroutine is left in pipeline code (`leak:0`).
-/
namespace GV.Drv.C42
open GV.Line GV.PipeTrace GV.Model.Pipeline

def hasDup : List Nat → Bool
  | [] => false
  | a :: l => l.contains a || hasDup l

def leakOf (toks : List Tok) : Option Nat :=
  toks.findSome? fun t => match t with | .leak n => some n | _ => none

def hasClose (toks : List Tok) : Bool :=
  toks.any fun t => match t with | .ev0 .close => true | _ => false

def monitor (c : Cfg) (toks : List Tok) : Option String :=
  let acc := accepted c toks
  let accSeqs := acc.map (·.2.1)
  let okSeqs := sortNat ((acc.filter (·.2.2)).map (·.2.1))
  let app := applyCalls toks
  let appSeqs := app.map (·.2)
  let rr := resultReads toks
  let rrSeqs := rr.map (·.2)
  if !strictlyIncreasing appSeqs then some s!"applied-out-of-order-or-twice:{natList appSeqs}"
  else if !(appSeqs.all fun q => okSeqs.contains q) then
    some s!"applied-a-block-that-failed-or-was-not-accepted:{natList (appSeqs.filter fun q => !okSeqs.contains q)}"
  else if hasDup rrSeqs then some s!"block-twice-on-results:{natList rrSeqs}"
  else if !(rrSeqs.all fun q => accSeqs.contains q) then some "result-for-a-block-never-accepted"
  else if sortNat accSeqs != List.range accSeqs.length then some s!"sequence-numbers-not-dense:{natList accSeqs}"
  else if hasMark toks "stop_hung" then some "Stop-blocked-while-a-stream-was-unread"
  else if hasMark toks "unsettled" then some "pipeline-stalled"
  else if hasMark toks "settled" && appSeqs != okSeqs then
    some s!"settled-but-applied:{natList appSeqs}-expected:{natList okSeqs}"
  else if hasMark toks "settled" && sortNat rrSeqs != sortNat accSeqs then
    some s!"settled-but-results:{natList (sortNat rrSeqs)}-expected:{natList (sortNat accSeqs)}"
  else if !hasClose toks then some "stop-did-not-return"
  else match leakOf toks with
    | some 0 => none
    | some n => some s!"goroutines-left-after-stop:{n}"
    | none => some "no-leak-report"

def handle (line : String) : Out :=
  match splitFeed line with
  | none => badOp
  | some (op, tr) =>
    match parseScenario op with
    | none => badOp
    | some sc =>
      match parseTrace sc tr with
      | none => { model := "unparsable-trace", spec := "a-well-formed-trace:no-panic,no-timeout,no-negative-PendingCount" }
      | some toks =>
        { model := modelColumn sc.cfg tr toks,
          spec := match monitor sc.cfg toks with | none => "*" | some v => "C42-violated:" ++ v }

end GV.Drv.C42
