import GV.Lib.Line
import GV.Model.MultiAsset
/-
  C06 driver.  A map literal is one token:
      -                         empty map          nil   nil *MultiAsset (operand only)
      P:N=Q,N=Q;P:;P:N=Q        policies `;`-separated, `P:` = policy with an empty inner map,
                                N = name hex (`-` = empty name), Q = decimal or `nil`
  The order of entries in the literal is the iteration order the model uses.
  ops / outputs
    cmp A B        -> 1 | 0                       (A.Compare(B))
    add A B        -> norm=<String()> full=<all entries, sorted>
    add3 A B C     -> assoc=<0|1> comm=<0|1>      ((A+B)+C ~ A+(B+C), A+B ~ B+A under Compare)
    enc A          -> hex of MarshalCBOR
    dec HEX        -> err | dup=<0|1> full=<...>
    rt A           -> cmp=<Decode(Encode A).Compare(A)> zeros=<#zero/nil entries + #empty policies> dup=<0|1> enc2=<hex>
    asset A P N    -> quantity | nil
    pols A         -> sorted policy ids
    cmpw|addw <s|u> A B, add3w <s|u> A B C   the same on MultiAsset[int64] (s) / MultiAsset[uint64] (u)
-/
namespace GV.Drv.C06
open GV.Line GV.Model.MultiAsset GV.Lib.AssocMap GV.Lib.CborLite

def parseAmt? (s : String) : Option Amt :=
  if s = "nil" then some none else (parseInt? s).map some

def parseInner? (s : String) : Option Inner :=
  if s = "" then some [] else
  (s.splitOn ",").mapM (fun e =>
    match e.splitOn "=" with
    | [n, q] => do let n ← parseHex? n; let q ← parseAmt? q; pure (n, q)
    | _ => none)

def parseMA? (s : String) : Option MA :=
  if s = "-" || s = "nil" then some [] else
  (s.splitOn ";").mapM (fun e =>
    match e.splitOn ":" with
    | [p, i] => do let p ← parseHex? p; let i ← parseInner? i; pure (p, i)
    | _ => none)

def hexRaw (b : Bytes) : String := if b.isEmpty then "" else toHex b

def byLex {ν : Type} (m : List (Bytes × ν)) : List (Bytes × ν) :=
  m.mergeSort (fun x y => lexLE x.1 y.1)

def amtStr : Amt → String
  | none => "nil"
  | some i => toString i

/-- every entry, zero and nil included, sorted -/
def renderFull (m : MA) : String :=
  if m.isEmpty then "-" else
  ";".intercalate ((byLex m).map (fun e =>
    toHex e.1 ++ ":" ++ ",".intercalate ((byLex e.2).map (fun x => toHex x.1 ++ "=" ++ amtStr x.2))))

/-- `MultiAsset.String()` -/
def renderNorm (m : MA) : String :=
  let n := normalize m
  "[" ++ ", ".intercalate ((byLex n).flatMap (fun e =>
    (byLex e.2).map (fun x => hexRaw e.1 ++ "." ++ hexRaw x.1 ++ "=" ++ toString (val x.2)))) ++ "]"

-- ------------------------------------------------------------ independent spec

/-- the value as a sorted list of its non-zero (policy, name, quantity) triples -/
def triples (m : MA) : List (Bytes × Bytes × Int) :=
  let all := m.flatMap (fun e => e.2.map (fun x => (e.1, x.1, val x.2)))
  let nz := all.filter (fun t => t.2.2 != 0)
  nz.mergeSort (fun x y => if x.1 = y.1 then lexLE x.2.1 y.2.1 else lexLE x.1 y.1)

def specEq (a b : MA) : Bool := triples a == triples b

/-- per-asset integer addition over the union of keys -/
def specAdd (a b : MA) : List (Bytes × Bytes × Int) :=
  let ta := triples a; let tb := triples b
  let find (t : List (Bytes × Bytes × Int)) (p n : Bytes) : Int :=
    match t.find? (fun x => x.1 = p && x.2.1 = n) with | some x => x.2.2 | none => 0
  let ks := (ta ++ tb).map (fun x => (x.1, x.2.1))
  let ks := ks.eraseDups
  let s := ks.map (fun k => (k.1, k.2, find ta k.1 k.2 + find tb k.1 k.2))
  (s.filter (fun t => t.2.2 != 0)).mergeSort
    (fun x y => if x.1 = y.1 then lexLE x.2.1 y.2.1 else lexLE x.1 y.1)

def renderTriples (t : List (Bytes × Bytes × Int)) : String :=
  "[" ++ ", ".intercalate (t.map (fun x => hexRaw x.1 ++ "." ++ hexRaw x.2.1 ++ "=" ++ toString x.2.2)) ++ "]"

/-- length-then-lexicographic order on raw keys (RFC 7049 canonical; coincides with bytewise
    order of the encoded byte-string keys) -/
def shortLexLE (a b : Bytes) : Bool :=
  if a.length < b.length then true else if b.length < a.length then false else lexLE a b

def insSort {ν : Type} : List (Bytes × ν) → List (Bytes × ν)
  | [] => []
  | e :: t =>
    let s := insSort t
    s.takeWhile (fun x => shortLexLE x.1 e.1 && x.1 != e.1) ++ e :: s.dropWhile (fun x => shortLexLE x.1 e.1 && x.1 != e.1)

def specEncode (m : MA) : Bytes :=
  head 5 m.length ++ (insSort m).flatMap (fun e =>
    encBytes e.1 ++ head 5 e.2.length ++ (insSort e.2).flatMap (fun x => encBytes x.1 ++ encAmt x.2))

def countZeros (m : MA) : Nat :=
  (m.filter (fun e => e.2.isEmpty)).length + ((m.flatMap (fun e => e.2)).filter (fun x => val x.2 == 0)).length

def wf (m : MA) : Bool := decide (WF m)

/-- fixed-width instantiation selected by the op: (wrap, range predicate) -/
def widthOf (k : String) : Option ((Int → Int) × (Int → Bool)) :=
  if k = "s" then some (wrapS64, isInt64) else if k = "u" then some (wrapU64, isUint64) else none

/-- all per-key integer sums of two values (zero sums included), for the overflow test -/
def specSums (a b : MA) : List Int :=
  let keysOf (m : MA) := m.flatMap (fun e => e.2.map (fun x => (e.1, x.1)))
  let get (m : MA) (p n : Bytes) : Int :=
    (m.flatMap (fun e => e.2.filterMap (fun x => if e.1 = p && x.1 = n then some (val x.2) else none))).sum
  ((keysOf a ++ keysOf b).eraseDups).map (fun k => get a k.1 k.2 + get b k.1 k.2)

def handleW (k a b : String) (c : Option String) (op : String) : Out :=
  match widthOf k, parseMA? a, parseMA? b with
  | some (w, inR), some ma, some mb =>
    if !(wf ma && wf mb && allAmounts inR ma && allAmounts inR mb) then badOp else
    if op = "cmpw" then { model := boolStr (compare ma mb), spec := boolStr (specEq ma mb) }
    else if op = "addw" then
      let r := addW w ma mb
      -- "agrees with per-asset integer addition": demanded whenever no component overflows
      let spec := if (specSums ma mb).all inR then s!"norm={renderTriples (specAdd ma mb)} *" else "*"
      { model := s!"norm={renderNorm r} full={renderFull r}", spec := spec }
    else
      match c.bind parseMA? with
      | some mc =>
        if !(wf mc && allAmounts inR mc) then badOp else
        let l := addW w (addW w ma mb) mc
        let r := addW w ma (addW w mb mc)
        { model := s!"assoc={boolStr (compare l r)} comm={boolStr (compare (addW w ma mb) (addW w mb ma))}",
          spec := "assoc=1 comm=1" }
      | none => badOp
  | _, _, _ => badOp

def handle (line : String) : Out :=
  match tokens line with
  | ["cmpw", k, a, b] => handleW k a b none "cmpw"
  | ["addw", k, a, b] => handleW k a b none "addw"
  | ["add3w", k, a, b, c] => handleW k a b (some c) "add3w"
  | ["cmp", a, b] =>
    match parseMA? a, parseMA? b with
    | some a, some b =>
      if !(wf a && wf b) then badOp else
      { model := boolStr (compare a b), spec := boolStr (specEq a b) }
    | _, _ => badOp
  | ["add", a, b] =>
    match parseMA? a, parseMA? b with
    | some a, some b =>
      if !(wf a && wf b) then badOp else
      let r := add a b
      { model := s!"norm={renderNorm r} full={renderFull r}", spec := s!"norm={renderTriples (specAdd a b)} *" }
    | _, _ => badOp
  | ["add3", a, b, c] =>
    match parseMA? a, parseMA? b, parseMA? c with
    | some a, some b, some c =>
      if !(wf a && wf b && wf c) then badOp else
      let l := add (add a b) c
      let r := add a (add b c)
      { model := s!"assoc={boolStr (compare l r)} comm={boolStr (compare (add a b) (add b a))}",
        spec := "assoc=1 comm=1" }
    | _, _, _ => badOp
  | ["enc", a] =>
    match parseMA? a with
    | some a => if !wf a then badOp else { model := toHex (encodeMA a), spec := toHex (specEncode a) }
    | none => badOp
  | ["dec", h] =>
    match parseHex? h with
    | some b =>
      match decodeMA b with
      | none => { model := "err" }
      | some d => { model := s!"dup={boolStr d.dup} full={renderFull d.value}" }
    | none => badOp
  | ["rt", a] =>
    match parseMA? a with
    | some a =>
      if !wf a then badOp else
      match decodeMA (encodeMA a) with
      | none => { model := "err", spec := "cmp=1 zeros=0 dup=0 *" }
      | some d =>
        { model := s!"cmp={boolStr (compare d.value a)} zeros={countZeros d.value} dup={boolStr d.dup} enc2={toHex (encodeMA d.value)}",
          spec := "cmp=1 zeros=0 dup=0 *" }
    | none => badOp
  | ["asset", a, p, n] =>
    match parseMA? a, parseHex? p, parseHex? n with
    | some a, some p, some n => if !wf a then badOp else { model := amtStr (asset a p n) }
    | _, _, _ => badOp
  | ["pols", a] =>
    match parseMA? a with
    | some a => if !wf a then badOp else
      { model := if a.isEmpty then "-" else ",".intercalate ((byLex a).map (fun e => toHex e.1)) }
    | none => badOp
  | _ => badOp

end GV.Drv.C06
