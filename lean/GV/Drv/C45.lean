import GV.Lib.Line
import GV.Model.Rewards
/-
  C45 — reward calculation distributes exactly the pot.  feed_impl: `op \t impl-output`.

  op:  rw <mode> pot=<u64> tas=<u64> a0=<n>/<d> tb=<u32> | <pool> ; <pool> ; ...
       pool = <hasParams>,<poolStake>,<blocks>,<cost>,<mnum>/<mden>,<stake>:<reg>:<owner>+...|-
  out: ok total=<T> rest=<R> | <i>,<total>,<operator>,<r0>+<r1>+..|- ; ...     or err:<kind>

  model column: the integer skeleton `GV.Model.Rewards.calculate` instantiated with IEEE
    doubles (Lean `Float`) in the expression order of the Go code. Go map iteration order
    is not observable, so the driver searches the iteration orders for one that reproduces the
    implementation's output: exhaustively for mode x (pools ≤ 4, delegators ≤ 4); for mode c
    (large snapshots) over a sample of orders (rotations, every pool last, 48 pseudo-random
    permutations, every distinct resulting `totalShare`), falling back to "the output is a
    possible result of the skeleton" when the sample does not contain the order Go used.
  spec column: the property itself evaluated on the implementation's output.
-/
namespace GV.Drv.C45
open GV.Line GV.Model.Rewards

structure Inputs where
  mode : String
  pot : Nat
  tas : Nat
  a0n : Nat
  a0d : Nat
  tb : Nat
  /-- (hasParams, pool) in index order -/
  pools : List (Bool × Pool)

def parseKV (key s : String) : Option String :=
  if s.startsWith key then some (s.drop key.length).copy else none

def parseFrac (s : String) : Option (Nat × Nat) :=
  match s.splitOn "/" with
  | [a, b] => do let a ← a.toNat?; let b ← b.toNat?; pure (a, b)
  | _ => none

def parseDels (s : String) : Option (List Del) :=
  if s = "-" then some [] else
  let parts := s.splitOn "+"
  (List.range parts.length |>.zip parts).mapM fun (j, d) =>
    match d.splitOn ":" with
    | [st, r, o] => do
      let st ← st.toNat?; let r ← parseBool? r; let o ← parseBool? o
      pure { idx := j, stake := st, reg := r, owner := o }
    | _ => none

def parsePool (i : Nat) (s : String) : Option (Bool × Pool) :=
  match s.trimAscii.copy.splitOn "," with
  | [hp, st, bl, co, m, ds] => do
    let hp ← parseBool? hp
    let st ← st.toNat?; let bl ← bl.toNat?; let co ← co.toNat?
    let (mn, md) ← parseFrac m
    let ds ← parseDels ds
    pure (hp, { idx := i, stake := st, blocks := bl, cost := co, mnum := mn, mden := md, dels := ds })
  | _ => none

def parseOp (op : String) : Option Inputs :=
  match op.splitOn "|" with
  | [hd, ps] =>
    match tokens hd with
    | ["rw", mode, pot, tas, a0, tb] => do
      let pot ← (← parseKV "pot=" pot).toNat?
      let tas ← (← parseKV "tas=" tas).toNat?
      let (a0n, a0d) ← parseFrac (← parseKV "a0=" a0)
      let tb ← (← parseKV "tb=" tb).toNat?
      let parts := ps.splitOn ";"
      let pools ← (List.range parts.length |>.zip parts).mapM fun (i, s) => parsePool i s
      pure { mode, pot, tas, a0n, a0d, tb, pools }
    | _ => none
  | _ => none

-- ---------------------------------------------------------------- IEEE-double instance of FD

/-- `float64(x)` for a uint64 -/
def u2f (n : Nat) : Float := (UInt64.ofNat n).toFloat
/-- `uint64(x)` for a float64 in range -/
def f2u (x : Float) : Nat := x.toUInt64.toNat
/-- `big.Rat.Float64()` of a small fraction: the nearest double -/
def ratF (n d : Nat) : Float := Float.ofNat n / Float.ofNat d

def marginF (p : Pool) : Float := ratF p.mnum p.mden

/-- `calculatePoolPerformance` -/
def perf (inp : Inputs) (p : Pool) : Float :=
  if inp.tb = 0 then 1.0
  else if p.blocks = 0 then 0.0
  else
    let blocksRatio := u2f p.blocks / u2f inp.tb
    if p.stake = 0 then 0.0 else blocksRatio * (u2f inp.tas / u2f p.stake)

/-- `calculatePoolShare` -/
def rawShare (inp : Inputs) (p : Pool) : Float :=
  let performance := perf inp p
  let stakeRatio := u2f p.stake / u2f inp.tas
  let q := stakeRatio / 0.05
  let saturation := if q < 1.0 then q else 1.0
  let numerator := stakeRatio * performance * (1.0 - marginF p)
  let a0F := ratF inp.a0n inp.a0d
  let denominator := 1.0 + a0F * saturation
  if denominator ≤ 0.0 then 0.0 else numerator / denominator

def ownerStake (p : Pool) : Nat := (p.dels.filter (·.owner)).foldl (fun a d => addW a d.stake) 0

/-- `totalShare` as the first pass computes it for a given iteration order (float addition is
    not associative: the order matters in the last bits) -/
def totalShareOf (inp : Inputs) (firstPass : List Pool) : Float :=
  firstPass.foldl (fun a p => a + rawShare inp p) 0.0

/-- the float-derived quantities for a given value of the first pass's `totalShare` -/
def fdFloatWith (inp : Inputs) (nPools : Nat) (total0 : Float) : FD :=
  let zero := total0 == 0.0
  let totalShare := if zero then 1.0 else total0
  let shareOf (p : Pool) : Float := if zero then 1.0 / Float.ofNat nPools else rawShare inp p
  { poolT := fun p => f2u (u2f inp.pot * (shareOf p / totalShare))
    opPart := fun p total =>
      let margin := marginF p
      let ownerStakeRatio := u2f (ownerStake p) / u2f (totalPoolStake p)
      f2u (u2f (subW total p.cost) * (margin + (1.0 - margin) * ownerStakeRatio))
    delPart := fun p d S => f2u (u2f d.stake / u2f (totalPoolStake p) * u2f S) }

def fdFloat (inp : Inputs) (firstPass : List Pool) : FD :=
  fdFloatWith inp firstPass.length (totalShareOf inp firstPass)

-- ---------------------------------------------------------------- rendering / parsing of results

def renderDels (l : List (Nat × Option Nat)) : String :=
  if l.isEmpty then "-" else
  let sorted := l.toArray.qsort (fun a b => a.1 < b.1) |>.toList
  "+".intercalate (sorted.map fun e => match e.2 with | some r => toString r | none => "x")

def renderPool (o : PoolOut) : String := s!"{o.idx},{o.total},{o.op},{renderDels o.dels}"

def renderAll (pot : Nat) (outs : List PoolOut) : String :=
  let sorted := outs.toArray.qsort (fun a b => a.idx < b.idx) |>.toList
  s!"ok total={pot} rest=0 |" ++
    (if sorted.isEmpty then "" else " " ++ " ; ".intercalate (sorted.map renderPool))

structure ROut where
  total : Nat
  rest : Nat
  pools : List PoolOut

def parseRDels (s : String) : Option (List (Nat × Option Nat)) :=
  if s = "-" then some [] else
  let parts := s.splitOn "+"
  (List.range parts.length |>.zip parts).mapM fun (j, d) =>
    if d = "x" then some (j, none) else do let r ← d.toNat?; pure (j, some r)

def parseRPool (s : String) : Option PoolOut :=
  match s.trimAscii.copy.splitOn "," with
  | [i, t, o, ds] => do
    let i ← i.toNat?; let t ← t.toNat?; let o ← o.toNat?; let ds ← parseRDels ds
    pure { idx := i, total := t, op := o, dels := ds }
  | _ => none

def parseResult (s : String) : Option ROut :=
  match s.splitOn "|" with
  | [hd, ps] =>
    match tokens hd with
    | ["ok", t, r] => do
      let t ← (← parseKV "total=" t).toNat?
      let r ← (← parseKV "rest=" r).toNat?
      let pools ← if ps.trimAscii.copy.isEmpty then some [] else (ps.splitOn ";").mapM parseRPool
      pure { total := t, rest := r, pools }
    | _ => none
  | _ => none

-- ---------------------------------------------------------------- search over map iteration orders

def insertAll (a : α) : List α → List (List α)
  | [] => [[a]]
  | b :: l => (a :: b :: l) :: (insertAll a l).map (b :: ·)

def perms : List α → List (List α)
  | [] => [[]]
  | a :: l => (perms l).flatMap (insertAll a)

def rotations (l : List α) : List (List α) :=
  (List.range l.length).map fun k => l.drop k ++ l.take k

/-- a pseudo-random permutation (keys from a linear congruential generator, insertion by key) -/
def shuffle (seed : Nat) (l : List α) : List α :=
  let keyed := (List.range l.length |>.zip l).map fun (i, x) =>
    ((seed * 6364136223846793005 + (i + 1) * 1442695040888963407) % 18446744073709551629 % 1000003, x)
  (keyed.toArray.qsort (fun a b => a.1 < b.1)).toList.map (·.2)

/-- orders tried for a list: all of them up to 4 elements; otherwise the given order, its reverse,
    all rotations of both, every element moved to the end, and 48 pseudo-random permutations -/
def orders (l : List α) : List (List α) :=
  if l.length ≤ 4 then perms l else
    rotations l ++ rotations l.reverse ++
    ((List.range l.length).map fun k => (l.take k ++ l.drop (k + 1)) ++ (l.drop k).take 1) ++
    ((List.range 48).map fun k => shuffle (k + 1) l)

/-- delegator orders tried: all up to 4, otherwise the given order, its reverse and their rotations -/
def delOrders (l : List Del) : List (List Del) :=
  if l.length ≤ 4 then perms l else rotations l ++ rotations l.reverse

/-- result of one pool for a given total, choosing a delegator order that reproduces `want` if there is one -/
def poolFor (fd : FD) (p : Pool) (total : Nat) (want : Option String) : PoolOut :=
  let first := distribute fd p total
  if some (renderPool first) == want then first else
  let cands := (delOrders p.dels).map fun ds => distribute fd { p with dels := ds } total
  match cands.find? (fun o => some (renderPool o) == want) with
  | some o => o
  | none => first

def dedupFloats (l : List Float) : List Float :=
  l.foldl (fun acc x => if acc.any (fun y => y.toBits == x.toBits) then acc else acc ++ [x]) []

/-- Exact reproduction of the implementation's output by searching the map iteration orders:
    the first-pass order only matters through the value of `totalShare`, the second-pass order
    through which pool is last (and through the clamping order when the shares overshoot). -/
def modelX (inp : Inputs) (ps : List Pool) (impl : String) : Option String × String :=
  let want : List (Nat × String) :=
    match parseResult impl with
    | some r => r.pools.map fun o => (o.idx, renderPool o)
    | none => []
  let os := orders ps
  let totals := dedupFloats (os.map (totalShareOf inp))
  let cands : List String := totals.flatMap fun ts =>
    let fd := fdFloatWith inp ps.length ts
    os.map fun o2 =>
      let amts := amounts inp.pot fd o2.length o2 0
      renderAll inp.pot ((o2.zip amts).map fun (p, t) => poolFor fd p t ((want.find? (·.1 == p.idx)).map (·.2)))
  (cands.find? (· == impl), cands.headD "no-candidate")

-- ---------------------------------------------------------------- the property on the implementation's output

def lookupPool (ps : List Pool) (i : Nat) : Option Pool := ps.find? (·.idx == i)

/-- the three demands of the property on a successful result -/
def propertyViolation (r : ROut) : Option String :=
  let sum := (r.pools.map (·.total)).sum
  if sum ≠ r.total then some s!"pool-totals-sum-{sum}-not-pot-{r.total}"
  else
    match r.pools.find? (fun o => o.op + o.delSum ≠ o.total) with
    | some o => some s!"pool-{o.idx}-operator-plus-delegators-{o.op + o.delSum}-not-total-{o.total}"
    | none =>
      match r.pools.find? (fun o => o.total > r.total || o.op > r.total ||
                                    o.dels.any (fun e => e.2.getD 0 > r.total)) with
      | some o => some s!"pool-{o.idx}-amount-exceeds-pot"
      | none => none

/-- is the output a possible result of the skeleton for SOME float behaviour (mode c)? -/
def consistent (inp : Inputs) (ps : List Pool) (r : ROut) : Bool :=
  r.total == inp.pot && r.rest == 0 &&
  (r.pools.map (·.idx)) == (ps.map (·.idx)) &&
  (propertyViolation r).isNone &&
  r.pools.all fun o =>
    match lookupPool ps o.idx with
    | none => false
    | some p =>
      o.dels.length == p.dels.length &&
      (p.dels.zip o.dels).all (fun (d, e) => d.idx == e.1 && (d.reg || e.2.isNone)) &&
      (if o.total ≤ p.cost || totalPoolStake p == 0 then o.op == o.total && o.dels.all (·.2.isNone)
       else p.cost ≤ o.op)

def handle (line : String) : Out :=
  match line.splitOn "\t" with
  | [op, impl] =>
    match parseOp op with
    | none => badOp
    | some inp =>
      let early := inp.tas == 0 || inp.pot == 0
      let ps := (inp.pools.filter (·.1)).map (·.2)
      let model :=
        if early then s!"ok total=0 rest={inp.pot} |"
        else if ps.isEmpty then "err:no-valid-pools"
        else
          match modelX inp ps impl with
          | (some s, _) => s
          | (none, first) =>
            -- small snapshots must be reproduced exactly; for large ones (the order search is
            -- a sample) the result must at least be a possible result of the integer skeleton
            if inp.mode == "x" then first
            else match parseResult impl with
              | some r => if consistent inp ps r then impl else "not-a-result-of-the-integer-skeleton"
              | none => "unparsable-result"
      let spec :=
        if impl.startsWith "err:" then "*"
        else match parseResult impl with
          | none => "a-result-without-panic"
          | some r =>
            match propertyViolation r with
            | some v => "C45-violated:" ++ v
            | none =>
              if !early && !ps.isEmpty && r.total ≠ inp.pot then s!"C45-violated:distributed-{r.total}-of-pot-{inp.pot}"
              else "*"
      { model, spec }
  | _ => badOp

end GV.Drv.C45
