import GV.Lib.Line
import GV.Model.ValueConservation
/-
  op:  vc <era> <valid> <kd> <pd> <dd> <fee> <don> item*      (see harness/c27.go)
  out: pure=<1|0> next=<ok|vnc|bad|-> vc=<ok|vnc|baddep> bad=<0|1> dep=<0|1>  |  decode-err
-/
namespace GV.Drv.C27
open GV.Line GV.Model.ValueConservation

def eraIdx (s : String) : Option Nat :=
  match s with
  | "shelley" => some 1 | "allegra" => some 2 | "mary" => some 3 | "alonzo" => some 4
  | "babbage" => some 5 | "conway" => some 6 | "dijkstra" => some 7 | _ => none

structure Acc where
  ins : List In := []
  outs : List GV.Model.ValueConservation.Out := []
  wds : List Nat := []
  certs : List Cert := []
  props : List Nat := []
  mint : Option MintBundle := none
  coll : List In := []
  collRet : Option GV.Model.ValueConservation.Out := none
  totalColl : Option Nat := none
  bad : Bool := false

def parseEntriesInt : List String → Option (List (Nat × Int))
  | [] => some []
  | e :: rest =>
    match e.splitOn "=" with
    | [i, q] => do
      let i ← parseNat? i; let q ← parseInt? q
      let r ← parseEntriesInt rest
      if i > 60 || r.any (·.1 == i) then none else pure ((i, q) :: r)
    | _ => none

def parseMint (s : String) : Option MintBundle :=
  if s = "-" then some [] else parseEntriesInt (s.splitOn ",")

def parseBundle (s : String) : Option Bundle := do
  let m ← parseMint s
  if m.any (fun e => e.2 < 0 || e.2 > 18446744073709551615) then none
  else pure (m.map (fun e => (e.1, e.2.toNat)))

def parseCert (p : List String) : Option Cert :=
  match p with
  | ["sreg"] => some .sreg | ["sdereg"] => some .sdereg | ["sdeleg"] => some .sdeleg
  | ["pret"] => some .pret | ["vdeleg"] => some .vdeleg
  | ["gen"] => some .genesis
  | ["mir", _, a] => (parseNat? a).map .mir
  | ["preg", st, id] => do
    let id ← parseNat? id
    if st = "n" then some (.preg true id) else if st = "o" then some (.preg false id)
    else if st = "r" then some (.pregRetiring id) else none
  | ["reg", a] => (parseNat? a).map .reg
  | ["srd", a] => (parseNat? a).map .srd
  | ["vrd", a] => (parseNat? a).map .vrd
  | ["svrd", a] => (parseNat? a).map .svrd
  | ["dreg", a] => (parseNat? a).map .dreg
  | ["unreg", a, r] => do let a ← parseNat? a; let r ← parseNat? r; pure (.unreg a r)
  | ["dunreg", a, r] => do let a ← parseNat? a; let r ← parseNat? r; pure (.dunreg a r)
  | _ => none

def parseRes (r : String) : Option Bool :=
  if r = "r" then some true else if r = "u" then some false else none

def parseItems : List String → Acc → Option Acc
  | [], acc => some acc
  | it :: rest, acc =>
    match it.splitOn ":" with
    | ["i", r, c, b] => do
      let c ← parseNat? c; let b ← parseBundle b; let res ← parseRes r
      parseItems rest { acc with ins := acc.ins ++ [⟨res, c, b⟩] }
    | ["k", r, c] => do
      let c ← parseNat? c; let res ← parseRes r
      parseItems rest { acc with coll := acc.coll ++ [⟨res, c, []⟩] }
    | ["kr", c] => do
      let c ← parseNat? c
      parseItems rest { acc with collRet := some ⟨c, []⟩ }
    | ["kt", c] => do
      let c ← parseNat? c
      parseItems rest { acc with totalColl := some c }
    | ["o", c, b] => do
      let c ← parseNat? c; let b ← parseBundle b
      parseItems rest { acc with outs := acc.outs ++ [⟨c, b⟩] }
    | ["m", b] => do
      let m ← parseMint b
      if acc.mint.isSome || m.any (fun e => e.2 > 9223372036854775807 || e.2 < -9223372036854775808) then none
      else parseItems rest { acc with mint := some m }
    | ["w", a] => do
      let a ← parseNat? a
      parseItems rest { acc with wds := acc.wds ++ [a] }
    | ["p", d] => do
      let d ← parseNat? d
      parseItems rest { acc with props := acc.props ++ [d] }
    | "c" :: p => do
      let c ← parseCert p
      parseItems rest { acc with certs := acc.certs ++ [c] }
    | _ => none

def legacy : Cert → Bool
  | .sreg | .sdereg | .sdeleg | .pret | .preg _ _ | .pregRetiring _ | .genesis | .mir _ => true
  | _ => false

def handle (line : String) : GV.Line.Out :=
  match tokens line with
  | "vc" :: era :: valid :: kd :: pd :: dd :: fee :: don :: items =>
    match eraIdx era, parseBool? valid, parseNat? kd, parseNat? pd, parseNat? dd, parseNat? fee,
          parseNat? don, parseItems items {} with
    | some era, some valid, some kd, some pd, some dd, some fee, some don, some acc =>
      let mint := acc.mint.getD []
      -- the mint field prunes explicit zeros; a pruned entry is no entry
      let t : Tx := { era, kd, pd, dd, fee, mint := mint.filter (fun e => e.2 ≠ 0), don,
                      ins := acc.ins.map (fun i => { i with toks := i.toks.filter (fun e => e.2 ≠ 0) }),
                      outs := acc.outs.map (fun o => { o with toks := o.toks.filter (fun e => e.2 ≠ 0) }),
                      wds := acc.wds, certs := acc.certs, props := acc.props,
                      valid, coll := acc.coll, collRet := acc.collRet, totalColl := acc.totalColl }
      -- shapes the era cannot express
      if era ≤ 2 && (!(ids t).isEmpty || acc.mint.isSome) then badOp
      else if era ≤ 5 && (!(acc.certs.all legacy) || !acc.props.isEmpty || don ≠ 0) then badOp
      else if era ≥ 6 && acc.certs.any (fun c => match c with | .genesis => true | .mir _ => true | _ => false) then badOp
      else if era ≤ 3 && (!valid || !acc.coll.isEmpty) then badOp
      else if era ≤ 4 && (acc.collRet.isSome || acc.totalColl.isSome) then badOp
      -- a Dijkstra transaction cannot encode is_valid = false
      else if era = 7 && !valid then { model := "decode-err", spec := "*" }
      else
      let v := match rule t with
        | .ok => "ok" | .notConserved => "vnc" | .badDeposit => "baddep"
      -- the model is a pure function: a second validation gives the same verdict and
      -- leaves every reported value unchanged (`pure=1`), which is what the op checks of the code
      -- follow-up transaction spending everything `t` produced: balanced, all inputs resolve
      let fu := followUp t
      let next := if (producedUtxo t).isEmpty then "-"
        else if badInputs fu then "bad" else if rule fu == .ok then "ok" else "vnc"
      let model := s!"pure=1 next={next} vc={v} bad={boolStr (badInputs t)} dep={boolStr (certDepositsBad t)}"
      -- spec: the ledger formula. An unresolvable input must be rejected by some rule;
      -- otherwise a balance that is not conserved must be rejected by one of the rules.
      let spec :=
        -- across transactions: what was produced is exactly the outputs (next=ok, or - if nothing)
        let pf := s!"pure=1 next={if (producedUtxo t).isEmpty then "-" else "ok"} "
        if badInputs t then s!"{pf}vc=ok bad=1*||{pf}vc=vnc bad=1*||{pf}vc=baddep bad=1*"
        else if !specConserved t then s!"{pf}vc=vnc*||{pf}vc=baddep*||{pf}vc=ok bad=0 dep=1"
        else s!"{pf}*"
      let cls :=
        if clsCertAmount t then "cert-amount"
        else if clsZeroPolicyMint t then "zero-policy-mint" else ""
      { model := model, spec := spec, cls := cls }
    | _, _, _, _, _, _, _, _ => badOp
  | _ => badOp

end GV.Drv.C27
