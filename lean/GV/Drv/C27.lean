import GV.Lib.Line
import GV.Model.ValueConservation
/-
  op:  vc <era> <kd> <pd> <dd> <fee> <mint> <zmint> <don> item*      (see harness/c27.go)
  out: vc=<ok|vnc|baddep> bad=<0|1>
-/
namespace GV.Drv.C27
open GV.Line GV.Model.ValueConservation

def eraIdx (s : String) : Option Nat :=
  match s with
  | "shelley" => some 1 | "allegra" => some 2 | "mary" => some 3 | "alonzo" => some 4
  | "babbage" => some 5 | "conway" => some 6 | "dijkstra" => some 7 | _ => none

structure Acc where
  ins : List In := []
  outs : List GV.Model.ValueConservation.Out := []
  wds : List Nat := []
  certs : List Cert := []
  props : List Nat := []

def parseCert (p : List String) : Option Cert :=
  match p with
  | ["sreg"] => some .sreg | ["sdereg"] => some .sdereg | ["sdeleg"] => some .sdeleg
  | ["pret"] => some .pret | ["vdeleg"] => some .vdeleg
  | ["preg", st, id] => do
    let id ← parseNat? id
    if st = "n" then some (.preg true id) else if st = "o" then some (.preg false id) else none
  | ["reg", a] => (parseNat? a).map .reg
  | ["srd", a] => (parseNat? a).map .srd
  | ["vrd", a] => (parseNat? a).map .vrd
  | ["svrd", a] => (parseNat? a).map .svrd
  | ["dreg", a] => (parseNat? a).map .dreg
  | ["unreg", a, r] => do let a ← parseNat? a; let r ← parseNat? r; pure (.unreg a r)
  | ["dunreg", a, r] => do let a ← parseNat? a; let r ← parseNat? r; pure (.dunreg a r)
  | _ => none

def parseItems : List String → Acc → Option Acc
  | [], acc => some acc
  | it :: rest, acc =>
    match it.splitOn ":" with
    | ["i", r, c, t] => do
      let c ← parseNat? c; let t ← parseNat? t
      let res ← (if r = "r" then some true else if r = "u" then some false else none)
      parseItems rest { acc with ins := acc.ins ++ [⟨res, c, t⟩] }
    | ["o", c, t] => do
      let c ← parseNat? c; let t ← parseNat? t
      parseItems rest { acc with outs := acc.outs ++ [⟨c, t⟩] }
    | ["w", a] => do
      let a ← parseNat? a
      parseItems rest { acc with wds := acc.wds ++ [a] }
    | ["p", d] => do
      let d ← parseNat? d
      parseItems rest { acc with props := acc.props ++ [d] }
    | "c" :: p => do
      let c ← parseCert p
      parseItems rest { acc with certs := acc.certs ++ [c] }
    | _ => none

def legacy : Cert → Bool
  | .sreg | .sdereg | .sdeleg | .pret | .preg _ _ => true
  | _ => false

def handle (line : String) : GV.Line.Out :=
  match tokens line with
  | "vc" :: era :: kd :: pd :: dd :: fee :: mint :: zmint :: don :: items =>
    match eraIdx era, parseNat? kd, parseNat? pd, parseNat? dd, parseNat? fee, parseInt? mint,
          parseInt? zmint, parseNat? don, parseItems items {} with
    | some era, some kd, some pd, some dd, some fee, some mint, some zmint, some don, some acc =>
      let t : Tx := { era, kd, pd, dd, fee, mint, zmint, don, ins := acc.ins, outs := acc.outs,
                      wds := acc.wds, certs := acc.certs, props := acc.props }
      -- shapes the era cannot express
      if era ≤ 2 && (mint ≠ 0 || zmint ≠ 0 || acc.outs.any (·.tok ≠ 0) || acc.ins.any (·.tok ≠ 0)) then badOp
      else if era ≤ 5 && (!(acc.certs.all legacy) || !acc.props.isEmpty || don ≠ 0) then badOp
      else
      let v := match rule t with
        | .ok => "ok" | .notConserved => "vnc" | .badDeposit => "baddep"
      let model := s!"vc={v} bad={boolStr (badInputs t)}"
      -- spec: the ledger formula. An unresolvable input must be rejected by some rule;
      -- otherwise a balance that is not conserved must be rejected by this rule.
      let spec :=
        if badInputs t then "vc=ok bad=1||vc=vnc bad=1||vc=baddep bad=1"
        else if !specConserved t then "vc=vnc*||vc=baddep*"
        else "*"
      let cls :=
        if clsCertAmount t then "cert-amount"
        else if clsZeroPolicyMint t then "zero-policy-mint"
        else if clsDupPool t then "dup-pool-reg" else ""
      { model := model, spec := spec, cls := cls }
    | _, _, _, _, _, _, _, _, _ => badOp
  | _ => badOp

end GV.Drv.C27
