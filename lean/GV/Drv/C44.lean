import GV.Lib.PipeTrace
/-
  C44 — a failed submission does not stall later blocks.
  feed_impl: line = `<scenario> \t <event trace recorded on the real pipeline>`.
  model column: the trace, if every event is a step of GV.Model.Pipeline (trace inclusion),
                else `reject@k:<token>`.
  spec column : the property monitor on the real trace: once the scenario has settled
                (gate open, nothing held, not stopped), every block whose Submit
                succeeded and which is good has been handed to ApplyFunc.
-/
namespace GV.Drv.C44
open GV.Line GV.PipeTrace GV.Model.Pipeline

def monitor (c : Cfg) (toks : List Tok) : Option String :=
  let acc := accepted c toks
  let app := (applyCalls toks).map (·.2)
  let never := (acc.filter fun (_, s, ok) => ok && !app.contains s).map (·.1)
  if hasMark toks "unsettled" then
    some s!"C44-violated:pipeline-stalled never-applied-blocks={natList never}"
  else if hasMark toks "settled" && !never.isEmpty then
    some s!"C44-violated:accepted-good-blocks-never-applied={natList never}"
  else none

def handle (line : String) : Out :=
  match splitFeed line with
  | none => badOp
  | some (op, tr) =>
    match parseScenario op with
    | none => badOp
    | some sc =>
      match parseTrace sc tr with
      | none => { model := "unparsable-trace", spec := "a-well-formed-trace:no-panic,no-timeout,no-negative-PendingCount" }
      | some toks =>
        { model := modelColumn sc.cfg tr toks,
          spec := match monitor sc.cfg toks with | none => "*" | some v => v }

end GV.Drv.C44
