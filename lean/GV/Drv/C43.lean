import GV.Lib.PipeTrace
/-
  C43 — draining the pipeline really waits for in-flight blocks.
  feed_impl: line = `<scenario> \t <event trace recorded on the real pipeline>`.
  model column: the trace, if every event is a step of GV.Model.Pipeline (`pcq:n` tokens are
                PendingCount() reads taken while the pipeline is at rest: the model demands
                n = its own pendingCount), else `reject@k:<token>`.
  spec column : the property monitor: for every WaitForDrain that returned nil
                (`drain_begin` .. `drain_ok`), every block whose Submit succeeded before
                `drain_begin` has left the apply stage (applied, skipped or dropped) before
                `drain_ok`, and ApplyFunc is not called for such a block afterwards.
-/
namespace GV.Drv.C43
open GV.Line GV.PipeTrace GV.Model.Pipeline

/-- blocks accepted so far / blocks finished so far, walking the trace; collects violations -/
structure Walk where
  accepted : List Nat := []
  finished : List Nat := []
  /-- blocks accepted before the drain that is currently waiting -/
  waiting : Option (List Nat) := none
  /-- blocks that had to be finished by a successful drain -/
  drained : List Nat := []
  bad : Option String := none

def stepWalk (w : Walk) (t : Tok) : Walk :=
  if w.bad.isSome then w else
  match t with
  | .ev (.sub _) b => { w with accepted := b :: w.accepted }
  | .ev (.ad _) b | .ev (.ax _) b | .ev (.dd _) b | .ev (.vd _) b => { w with finished := b :: w.finished }
  | .ev (.ap _) b =>
    if w.drained.contains b then
      { w with bad := some s!"ApplyFunc-called-for-block-{b}-after-WaitForDrain-returned" }
    else w
  | .mark "drain_begin" => { w with waiting := some w.accepted }
  | .mark "drain_ok" =>
    match w.waiting with
    | none => w
    | some bs =>
      let unfinished := bs.filter fun b => !w.finished.contains b
      if unfinished.isEmpty then { w with waiting := none, drained := bs ++ w.drained }
      else { w with bad := some s!"WaitForDrain-returned-with-unfinished-blocks:{natList unfinished.reverse}",
                    drained := bs ++ w.drained }
  | .mark "drain_err" => { w with waiting := none }
  | _ => w

def monitor (toks : List Tok) : Option String := (toks.foldl stepWalk {}).bad

def handle (line : String) : Out :=
  match splitFeed line with
  | none => badOp
  | some (op, tr) =>
    match parseScenario op with
    | none => badOp
    | some sc =>
      match parseTrace sc tr with
      | none => { model := "unparsable-trace", spec := "a-well-formed-trace:no-panic,no-timeout,no-negative-PendingCount" }
      | some toks =>
        { model := modelColumn sc.cfg tr toks,
          spec := match monitor toks with | none => "*" | some v => "C43-violated:" ++ v }

end GV.Drv.C43
