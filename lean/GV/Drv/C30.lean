import GV.Lib.Line
import GV.Model.Fee
/-
  op:  fee <era> <a> <b> <maxTxSize> <fee> <n> <txhex>
  out: size=<n> minfee=<n|err> fee=<1|0|err> max=<1|0>  |  decode-err
-/
namespace GV.Drv.C30
open GV.Line GV.Model.Fee

def eraType (s : String) : Option Nat :=
  match s with
  | "shelley" => some 1 | "allegra" => some 2 | "mary" => some 3 | "alonzo" => some 4
  | "babbage" => some 5 | "conway" => some 6 | "dijkstra" => some 7 | _ => none

def u64max : Nat := 18446744073709551615

def verdictStr : Verdict → String
  | .pass => "1" | .fail => "0" | .err => "err"

def line (size : Nat) (mf : Option Nat) (fv : String) (mx : String) : String :=
  let mfS := match mf with | some m => toString m | none => "err"
  s!"size={size} minfee={mfS} fee={fv} max={mx}"

def handleCore (era a b mx fee n hex : String) (reasm : Bool) : Out :=
    match eraType era, parseNat? a, parseNat? b, parseNat? mx, parseNat? fee, parseNat? n, parseHex? hex with
    | some et, some a, some b, some mx, some fee, some n, some bytes =>
      if a > u64max || b > u64max || mx > u64max || fee > u64max then badOp else
      -- the component count is read from the bytes by the byte-layer parser; the op's n
      -- must agree with it (the harness compares it with an independent decode)
      if envCount bytes ≠ some n then { model := "n-mismatch", spec := "*" } else
      let t0 : Tx := { eraType := et, bytes := bytes, n := n, fee := fee }
      if !decodeOk t0 then { model := "decode-err", spec := "*" } else
      let bytes := if reasm then (reassemble bytes).getD bytes else bytes
      let t : Tx := { eraType := et, bytes := bytes, n := n, fee := fee }
      let size := txSizeForFee t
      let model := line size (minFee size a b) (verdictStr (feeVerdict t a b)) (boolStr (maxOk t mx))
      -- spec, from the property text (independent of txSizeForFee):
      --   size = original length − [4-component Alonzo..Conway envelope]; Dijkstra with a
      --   4-component envelope is not covered by the text: both sizes admitted.
      let len := bytes.length
      let sizes := if et = 7 && n = 4 then [len, len - 1] else [specSize t]
      let alts := sizes.flatMap fun sz =>
        let mf := if a * sz + b ≤ u64max then some (a * sz + b) else none
        -- overflow must be reported as an error; a fee below a·size+b must be rejected;
        -- a sufficient fee: the property does not demand acceptance
        let fees := match mf with
          | none => ["err"]
          | some m => if fee < m then ["0"] else ["1", "0"]
        -- max size: the original length against the limit; where the reading "fee size"
        -- (length − 1) would differ, both verdicts are admitted
        let maxs := if len ≤ mx then ["1"] else if sz ≤ mx then ["0", "1"] else ["0"]
        fees.flatMap fun fv => maxs.map fun m => line sz mf fv m
      -- a transaction the decoder refuses is not accepted: never a violation
      { model := model, spec := "||".intercalate (alts ++ ["decode-err"]) }
    | _, _, _, _, _, _, _ => badOp

def handle (ln : String) : Out :=
  match tokens ln with
  | ["fee", era, a, b, mx, fee, n, hex] => handleCore era a b mx fee n hex false
  -- the envelope's stored bytes dropped after decoding: the size comes from the re-assembly
  | ["fee", era, a, b, mx, fee, n, hex, "r"] => handleCore era a b mx fee n hex true
  -- struct-built, hex = the library's own encoding of the struct (checked by the harness):
  -- the no-stored-bytes fallback measures exactly these bytes
  | ["fee", era, a, b, mx, fee, n, hex, "s", _] => handleCore era a b mx fee n hex false
  | _ => badOp

end GV.Drv.C30
