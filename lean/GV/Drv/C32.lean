import GV.Lib.Line
import GV.Model.Collateral
/-
  op: coll <era> <redform> <fee> <pct> <max> <ret|-> <n> out1 … outn
      era ∈ alonzo|babbage|conway|dijkstra
      redform: 0 none | c constructed | L decoded legacy array form | M decoded map form
      out = coin/tokspec ; tokspec = "-" (no multi-asset part) | "e" (empty bundle) | id:qty,id:qty,…
  out: acc=<0|1> insuff=<0|1> nonada=<0|1> nocoll=<0|1> toomany=<0|1>   (1 = rule passes)
-/
namespace GV.Drv.C32
open GV.Line GV.Model.Collateral

def parsePairs : List String → Option Bundle
  | [] => some []
  | p :: rest =>
    match p.splitOn ":" with
    | [a, q] => do
      let a ← parseNat? a; let q ← parseNat? q
      let r ← parsePairs rest
      pure ((a, q) :: r)
    | _ => none

def parseTok (s : String) : Option (Option Bundle) :=
  if s = "-" then some none
  else if s = "e" then some (some [])
  else (parsePairs (s.splitOn ",")).map some

def parseOut (s : String) : Option COut :=
  match s.splitOn "/" with
  | [c, t] => do let c ← parseNat? c; let t ← parseTok t; pure ⟨c, t⟩
  | _ => none

def parseOuts : List String → Option (List COut)
  | [] => some []
  | s :: rest => do let o ← parseOut s; let r ← parseOuts rest; pure (o :: r)

def parse (toks : List String) : Option Tx :=
  match toks with
  | "coll" :: era :: red :: fee :: pct :: mx :: ret :: n :: rest => do
    let hr ← (match era with
      | "alonzo" => some false | "babbage" => some true | "conway" => some true
      | "dijkstra" => some true | _ => none)
    let red ← (match red with
      | "0" => some false | "c" => some true | "L" => some true | "M" => some true | _ => none)
    let fee ← parseNat? fee; let pct ← parseNat? pct; let mx ← parseNat? mx
    let ret ← (if ret = "-" then some none else (parseOut ret).map some)
    let n ← parseNat? n
    let ins ← parseOuts rest
    if ins.length ≠ n then none else
    if !hr && ret.isSome then none else
    pure { hasReturnField := hr, redeemers := red, fee, pct, maxInputs := mx, ins, ret }
  | _ => none

def handle (line : String) : Out :=
  match parse (tokens line) with
  | none => badOp
  | some t =>
    let s := s!"acc={boolStr (accepted t)} insuff={boolStr (insufficientOk t)} nonada={boolStr (nonAdaOk t)} nocoll={boolStr (noCollateralOk t)} toomany={boolStr (tooManyOk t)}"
    -- the property constrains acceptance of script-running transactions only:
    -- accepted → demanded. (It does not say every demanded tx is accepted.)
    let spec := if t.redeemers && !demanded t then "acc=0 *" else "*"
    { model := s, spec := spec }

end GV.Drv.C32
