import GV.Lib.Line
import GV.Model.Collateral
/-
  op: coll <era> <redeemers> <fee> <pct> <max> <ret|-> <n> c1 t1 c2 t2 ...
      ret = "coin:tok"
  out: acc=<0|1> insuff=<0|1> nonada=<0|1> nocoll=<0|1> toomany=<0|1>   (1 = rule passes)
-/
namespace GV.Drv.C32
open GV.Line GV.Model.Collateral

def parseIns : List String → Option (List CIn)
  | [] => some []
  | c :: t :: rest => do
    let c ← parseNat? c; let t ← parseNat? t
    let r ← parseIns rest
    pure (⟨c, t⟩ :: r)
  | _ => none

def parseRet (s : String) : Option (Option CIn) :=
  if s = "-" then some none else
  match s.splitOn ":" with
  | [c, t] => do let c ← parseNat? c; let t ← parseNat? t; pure (some ⟨c, t⟩)
  | _ => none

def parse (toks : List String) : Option Tx :=
  match toks with
  | "coll" :: hr :: red :: fee :: pct :: mx :: ret :: n :: rest => do
    let hr ← (match hr with
      | "alonzo" => some false | "babbage" => some true | "conway" => some true
      | "dijkstra" => some true | _ => none)
    let red ← parseBool? red
    let fee ← parseNat? fee; let pct ← parseNat? pct; let mx ← parseNat? mx
    let ret ← parseRet ret; let n ← parseNat? n
    let ins ← parseIns rest
    if ins.length ≠ n then none else
    pure { hasReturnField := hr, redeemers := red, fee, pct, maxInputs := mx, ins, ret }
  | _ => none

def handle (line : String) : Out :=
  match parse (tokens line) with
  | none => badOp
  | some t =>
    let s := s!"acc={boolStr (accepted t)} insuff={boolStr (insufficientOk t)} nonada={boolStr (nonAdaOk t)} nocoll={boolStr (noCollateralOk t)} toomany={boolStr (tooManyOk t)}"
    -- the property constrains acceptance of script-running transactions only:
    -- accepted → demanded. (It does not say every demanded tx is accepted.)
    let spec := if t.redeemers && !demanded t then "acc=0 *" else "*"
    { model := s, spec := spec }

end GV.Drv.C32
