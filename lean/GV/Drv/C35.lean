import GV.Lib.Line
import GV.Lib.Blake2b
import GV.Model.Merkle
import GV.Spec.MerkleRef
/-
  ops:
    root <k> <hex_1> … <hex_k>        explicit items ("-" = empty item)
    rootseq <n> <seed> <len>          n items of <len> bytes, byte j of item i = byte j%8 (little endian) of
                                      (seed + i·0x9E3779B97F4A7C15 + (j/8)·0xD1B54A32D192ED03) mod 2^64
    b2b <hex> | b2b224 <hex>          validation of the driver's Blake2b against x/crypto
    b2bseq <n> <seed>                 same on an n-byte message, byte_i = ((seed+i)·167 + i/256) mod 256
  out: lowercase hex of the digest
  model column = GV.Model.Merkle.merkleRoot Blake2b-256 (the Go-shaped recursion)
  spec  column = GV.Spec.MerkleRef.refRoot  Blake2b-256 (the reference construction)
-/
namespace GV.Drv.C35
open GV.Line

def seqItem (seed i len : Nat) : List UInt8 :=
  (List.range len).map fun j =>
    let w := (seed + i * 0x9E3779B97F4A7C15 + (j / 8) * 0xD1B54A32D192ED03) % 2 ^ 64
    UInt8.ofNat ((w / 256 ^ (j % 8)) % 256)

def seqMsg (n seed : Nat) : List UInt8 :=
  (List.range n).map fun i => UInt8.ofNat (((seed + i) * 167 + i / 256) % 256)

def parseItems : List String → Option (List (List UInt8))
  | [] => some []
  | s :: rest => do
    let b ← parseHex? s
    let r ← parseItems rest
    pure (b :: r)

def rootOut (items : List (List UInt8)) : Out :=
  let m := GV.Model.Merkle.merkleRoot GV.Lib.Blake2b.hash256 items
  let s := GV.Spec.MerkleRef.refRoot GV.Lib.Blake2b.hash256 items
  { model := toHex m, spec := toHex s }

def handleOp (line : String) : Out :=
  match tokens line with
  | "root" :: k :: rest =>
    match parseNat? k, parseItems rest with
    | some k, some items => if items.length ≠ k then badOp else rootOut items
    | _, _ => badOp
  | ["rootseq", n, seed, len] =>
    match parseNat? n, parseNat? seed, parseNat? len with
    | some n, some seed, some len =>
      rootOut ((List.range n).map fun i => seqItem seed i len)
    | _, _, _ => badOp
  | ["b2b", hx] =>
    match parseHex? hx with
    | some b => { model := toHex (GV.Lib.Blake2b.hash256 b) }
    | none => badOp
  | ["b2b224", hx] =>
    match parseHex? hx with
    | some b => { model := toHex (GV.Lib.Blake2b.hash224 b) }
    | none => badOp
  | ["b2bseq", n, seed] =>
    match parseNat? n, parseNat? seed with
    | some n, some seed => { model := toHex (GV.Lib.Blake2b.hash256 (seqMsg n seed)) }
    | _, _ => badOp
  | _ => badOp

/-- `feed_impl`: the line is `op \t impl-output`.  An op the harness did not run
    (it stops after four ops of one run crashed the Go process, see
    harness/util_g7.go) is not evaluated: it is neither a failure nor a pass. -/
def handle (line : String) : Out :=
  match line.splitOn "\t" with
  | [op, impl] =>
    if impl.startsWith "NOT-RUN" then { model := impl, spec := "*" } else handleOp op
  | _ => handleOp line

end GV.Drv.C35
