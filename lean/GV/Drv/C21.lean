import GV.Lib.Line
import GV.Model.SyncLoop
import GV.Gen.Limits
/-
  feed_impl: `op \t implementation-output`.
  op:  sync <ntc|ntn|ntcp> <limit> <lazy> <slow> <stopAt|s<k>|-> <events>     (see harness/c21.go)
       ntcp = node-to-client with a block pipeline: roll-forwards are applied by the pipeline's
       ApplyFunc, roll-backwards wait for the pipeline to drain (GV.Model.SyncLoop.pstep)
  out: cb=<tokens> maxout=<ok|EXCEEDED:v> stop=<-|st/dones/err> req=<n>

  Everything except `req` is a function of the op. `req` (RequestNext messages on
  the wire when the client has gone quiet) depends on how many of the queued
  requests the protocol engine has flushed: the model admits the interval
  [lo, hi] derived from the sync-loop automaton (`loopState`) and the engine's
  per-segment cap, and echoes the observed value when it lies inside.
-/
namespace GV.Drv.C21
open GV.Line GV.Model.SyncLoop

/-- reply events with their index; `A` (AwaitReply) produces no callback -/
def replyEvents (ev : List Char) : List Char := ev.filter (fun c => c == 'F' || c == 'B')

def token (ntn : Bool) (c : Char) (i : Nat) : String :=
  if c == 'F' then s!"F{if ntn then 1 + i % 7 else i % 8}@{i}" else s!"B{i}@{i}"

def tokensOf (ntn : Bool) (rs : List Char) (m : Nat) : List String :=
  ((rs.take m).zipIdx).map (fun p => token ntn p.1 p.2)

def findReq (impl : String) : Option Nat :=
  (tokens impl).findSome? (fun t =>
    match t.splitOn "=" with
    | ["req", v] => parseNat? v
    | _ => none)

def handle (line : String) : Out :=
  let (op, impl) := match line.splitOn "\t" with
    | [o] => (o, none)
    | o :: i :: _ => (o, some i)
    | [] => ("", none)
  match tokens op with
  | ["sync", mode, limit, lazy, slow, stop, events] =>
    if (mode ≠ "ntc" ∧ mode ≠ "ntn" ∧ mode ≠ "ntcp") ∨ (lazy ≠ "0" ∧ lazy ≠ "1") ∨ (slow ≠ "0" ∧ slow ≠ "1") then badOp else
    -- stop field: "-" | "<k>" (k-th callback asks to stop, then Stop) | "s<k>" (Stop while the k-th,
    -- last, callback is still running)
    let slowStop := stop.startsWith "s"
    let stopNum := if slowStop then String.ofList (stop.toList.drop 1) else stop
    match parseNat? limit, (if stop = "-" then some 0 else parseNat? stopNum) with
    | some cfg, some stopArg =>
      if cfg > 100 ∨ (stop ≠ "-" ∧ stopArg = 0) then badOp else
      let stopAt := if slowStop then 0 else stopArg
      let ev := if events = "-" then [] else events.toList
      if !(ev.all (fun c => c == 'F' || c == 'B' || c == 'A')) then badOp else
      let ntn := mode = "ntn"
      let rs := replyEvents ev
      let n := rs.length
      if (slowStop ∧ stopArg ≠ n) ∨ (mode = "ntcp" ∧ stop ≠ "-") then badOp else
      let eff := effLimit cfg
      let triggered := stopAt > 0 && stopAt ≤ n
      -- requests the client ever issues
      -- (slow stop: the last callback is still running, its signal never reaches the sync loop)
      let total := if triggered then (loopState eff (stopAt - 1)).1
                   else if slowStop then (loopState eff (n - 1)).1 else (loopState eff n).1
      -- replies the server gets to send = callbacks
      let m := if triggered then min n total else n
      let cb := let l := tokensOf ntn rs m; if l.isEmpty then "-" else ",".intercalate l
      let allAnswered := triggered && n ≥ total
      let stopStr :=
        if slowStop then (if total ≤ n then "ok/1/noerr" else "ok/0/noerr")
        else if stopAt = 0 then "-"
        else if allAnswered then "ok/1/noerr" else "ok/0/noerr"
      let lo := if allAnswered then total else if slowStop then min m total else min (m + 1) total
      let hi := if allAnswered then total else min total (m + GV.Gen.Limits.maxMessagesPerSegment)
      let reqStr := match impl.bind findReq with
        | some r => if lo ≤ r ∧ r ≤ hi then toString r else s!"[{lo}..{hi}]"
        | none => s!"[{lo}..{hi}]"
      let model := s!"cb={cb} maxout=ok stop={stopStr} req={reqStr}"
      -- the property: callbacks once per server message, in order, with its tip; never more
      -- outstanding than the limit; a requested stop ends cleanly (one Done, no error)
      let spec :=
        if slowStop then (if total ≤ n then s!"cb={cb} maxout=ok stop=ok/1/noerr *" else s!"cb={cb} maxout=ok stop=ok/*")
        else if stopAt = 0 then s!"cb={cb} maxout=ok stop=- *"
        else if allAnswered then s!"cb={cb} maxout=ok stop=ok/1/noerr *"
        else s!"cb={cb} maxout=ok stop=ok/*"
      { model, spec }
    | _, _ => badOp
  | _ => badOp

end GV.Drv.C21
