import GV.Lib.Line
import GV.Model.Vrf
/-
  op:  vrf pv <seedhex> <alphahex>                      prove, verify, compare outputs
       vrf flip <seedhex> <alphahex> <proof|pk|msg|out> <byte> <bit>     TEST: single-bit flip
       vrf noncanon <seedhex> <alphahex>                genuine proof with s replaced by s + L
       vrf smallorder <i> <seedhex> <alphahex>          i-th small-order key encoding, genuine proof of another key
  out: v=<b> same=<b> det=<b> pl=<n> ol=<n>   |   v=<b>   |   v=0 err=<kind>
  The model is run on a toy instance of the abstract group (the integers as a module over
  themselves): it exhibits the control structure (guards, order of checks, output = hash of the
  proof's Gamma), not curve arithmetic.  Bit flips are a test: the model's answer `v=0` is the
  property's demand, not a computation.
-/
namespace GV.Drv.C38
open GV.Line GV.Model.Vrf

def toy : Prims Int Int Int Int Int :=
  { add := (· + ·), neg := (- ·), smul := (· * ·), base := 1, sadd := (· + ·), smulS := (· * ·),
    scalarOf := fun sk => 2 * sk + 1, h2c := fun y m => y + m + 5, nonce := fun sk h => sk + 3 * h,
    hashPoints := fun a b c d => a + 2 * b + 3 * c + 5 * d, outHash := fun g => 7 * g,
    smallOrder := fun y => y == 0 }

def byteSum (b : List UInt8) : Int := b.foldl (fun a x => a * 3 + x.toNat) 1

def verdict (r : Except VErr Int) (expected : Option Int) : String :=
  match r with
  | .ok o => s!"v=1 same={boolStr (expected == some o)}"
  | .error .smallOrder => "v=0 err=smallorder"
  | .error .nonCanonicalS => "v=0 err=noncanon"
  | .error .verificationFailed => "v=0 err=verify"

def handle (line : String) : Out :=
  match tokens line with
  | ["vrf", "pv", seed, alpha] =>
    match parseHex? seed, parseHex? alpha with
    | some sd, some al =>
      if sd.length ≠ 32 then badOp else
      let sk := byteSum sd; let m := byteSum al
      let pr := prove toy sk m
      let r := verifyAndHash toy (pkOf toy sk) pr.1 m
      { model := verdict r (some pr.2) ++ " det=1 pl=80 ol=64", spec := "v=1 same=1 *" }
    | _, _ => badOp
  | ["vrf", "flip", seed, alpha, target, byte, bit] =>
    match parseHex? seed, parseHex? alpha, parseNat? byte, parseNat? bit with
    | some sd, some al, some by_, some bi =>
      let lim := match target with
        | "proof" => 80 | "pk" => 32 | "out" => 64 | "msg" => al.length | _ => 0
      if sd.length ≠ 32 ∨ by_ ≥ lim ∨ bi > 7 then badOp else
      { model := "v=0", spec := "v=0" }
    | _, _, _, _ => badOp
  | ["vrf", "noncanon", seed, alpha] =>
    match parseHex? seed, parseHex? alpha with
    | some sd, some al =>
      if sd.length ≠ 32 then badOp else
      let sk := byteSum sd; let m := byteSum al
      let pr := prove toy sk m
      let r := verifyAndHash toy (pkOf toy sk) { pr.1 with sCanonical := false } m
      { model := verdict r none, spec := "v=0*" }
    | _, _ => badOp
  | ["vrf", "smallorder", i, seed, alpha] =>
    match parseNat? i, parseHex? seed, parseHex? alpha with
    | some i, some sd, some al =>
      if sd.length ≠ 32 ∨ i ≥ 8 then badOp else
      let sk := byteSum sd; let m := byteSum al
      let pr := prove toy sk m
      -- a key for which the small-order guard fires
      let r := verifyAndHash toy 0 pr.1 m
      { model := verdict r none, spec := "v=0*" }
    | _, _, _ => badOp
  | _ => badOp

end GV.Drv.C38
