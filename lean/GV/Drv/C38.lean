import GV.Lib.Line
import GV.Model.Vrf
import GV.Model.VrfSym
/-
  op:  vrf x <seedhex> <oseedhex> <alphahex> <oalphahex> <case>
                                                        ORACLE TIE: the intermediate values of the real prover
                                                        and verifier (trace hook), named with edwards25519
                                                        operations, against the model run on the free module
       vrf pv <seedhex> <alphahex>                      prove, verify, compare outputs
       vrf flip <seedhex> <alphahex> <proof|pk|msg|out> <byte> <bit>     TEST: single-bit flip
       vrf noncanon <seedhex> <alphahex>                genuine proof with s replaced by s + L
       vrf smallorder <i> <seedhex> <alphahex>          i-th small-order key encoding, genuine proof of another key
  out: v=<b> same=<b> det=<b> pl=<n> ol=<n>   |   v=<b>   |   v=0 err=<kind>
  The model is run on a toy instance of the abstract group (the integers as a module over
  themselves): it exhibits the control structure (guards, order of checks, output = hash of the
  proof's Gamma), not curve arithmetic.  Bit flips are a test: the model's answer `v=0` is the
  property's demand, not a computation.
-/
namespace GV.Drv.C38
open GV.Line GV.Model.Vrf

def toy : Prims Int Int Int Int Int :=
  { add := (· + ·), neg := (- ·), smul := (· * ·), base := 1, sadd := (· + ·), smulS := (· * ·),
    scalarOf := fun sk => 2 * sk + 1, h2c := fun y m => y + m + 5, nonce := fun sk h => sk + 3 * h,
    hashPoints := fun a b c d => a + 2 * b + 3 * c + 5 * d, outHash := fun g => 7 * g,
    smallOrder := fun y => y == 0 }

def byteSum (b : List UInt8) : Int := b.foldl (fun a x => a * 3 + x.toNat) 1

def verdict (r : Except VErr Int) (expected : Option Int) : String :=
  match r with
  | .ok o => s!"v=1 same={boolStr (expected == some o)}"
  | .error .smallOrder => "v=0 err=smallorder"
  | .error .nonCanonicalS => "v=0 err=noncanon"
  | .error .verificationFailed => "v=0 err=verify"

open GV.Model.VrfSym in
/-- the oracle-tied op: model on the free module, values printed by the shared vocabulary -/
def handleX (seed oseed alpha oalpha cse : String) : Out :=
  match parseHex? seed, parseHex? oseed, parseHex? alpha, parseHex? oalpha with
  | some sd, some od, some _, some _ =>
    if sd.length ≠ 32 ∨ od.length ≠ 32 ∨ seed = oseed ∨ alpha = oalpha then badOp else
    -- "gammaT.<i>.<r>": a proof crafted by the key holder with Gamma = x·H + T_i (T_i = i times the
    -- order-8 generator) and a challenge congruent r mod 8; "gammaTbad.<i>": the genuine c, s with
    -- that Gamma
    let (cse, ti, rho) : String × Nat × Nat := match cse.splitOn "." with
      | ["gammaT", i, r] => ("gammaT", (parseNat? i).getD 99, (parseNat? r).getD 99)
      | ["gammaTbad", i] => ("gammaTbad", (parseNat? i).getD 99, 0)
      | _ => (cse, 0, 0)
    if (cse = "gammaT" ∨ cse = "gammaTbad") ∧ (ti = 0 ∨ ti > 7 ∨ rho > 7) then badOp else
    let sym := symT ti rho
    let pt := proveTrace sym 0 0
    let pr := prove sym 0 0
    let gam := Pt.smul X ptH
    let s1 := K.add (C1.mul X)
    let s2 := K2.add (C2.mul X)
    -- (key, proof, message) handed to the verifier
    let job : Option (Pt × Proof Pt Poly × Nat) := match cse with
      | "honest" => some (pt.y, pr.1, 0)
      | "altnonce" => some (pt.y, { gamma := gam, c := C2, s := s2 }, 0)
      | "mix" => some (pt.y, { gamma := gam, c := C1, s := s2 }, 0)
      | "splus1" => some (pt.y, { gamma := gam, c := C1, s := s1.add (const 1) }, 0)
      | "gammaKH" => some (pt.y, { gamma := Pt.smul K ptH, c := C1, s := s1 }, 0)
      | "gammaY" => some (pt.y, { gamma := Pt.smul X ptB, c := C1, s := s1 }, 0)
      | "gammaT" => some (pt.y, { gamma := Pt.add gam (ptT ti), c := C4, s := K2.add (C4.mul X) }, 0)
      | "gammaTbad" => some (pt.y, { gamma := Pt.add gam (ptT ti), c := C1, s := s1 }, 0)
      | "otherkey" => some (pkOf sym 1, pr.1, 0)
      | "othermsg" => some (pt.y, pr.1, 1)
      | "otherproof" => some (pt.y, (prove sym 1 0).1, 0)
      | _ => none
    match job with
    | none => badOp
    | some (y, pi, m) =>
      let r := verifyAndHash sym y pi m
      let vt := verifyTrace sym y pi m
      let (okS, outS) := match r with
        | .ok o => ("1", if o == pr.2 then "same" else "diff")
        | .error _ => ("0", "-")
      let model := s!"ok={okS} out={outS} | P: Y={nameP pt.y} H={nameP pt.h} G={nameP pt.gamma} k={nameS pt.k} U={nameP pt.u} V={nameP pt.v} c={nameS pt.c} s={nameS pt.s} | V: H={nameP vt.h} U={nameP vt.u} V={nameP vt.v} c'={nameS vt.c'}"
      -- the property: the genuine proof verifies with the prover's output; a changed proof,
      -- message or key fails.  A different *valid* proof made with the secret key (another nonce)
      -- is not a "changed bit" of this one: no demand.
      let spec := match cse with
        | "honest" => "ok=1 out=same *"
        | "altnonce" => "*"
        -- the key holder's proof with a torsion component in Gamma: if it is accepted, the output
        -- must be the genuine one (the output hashes cofactor·Gamma)
        | "gammaT" => "ok=1 out=same *||ok=0 *"
        | _ => "ok=0 *"
      { model := model, spec := spec }
  | _, _, _, _ => badOp

def handle (line : String) : Out :=
  match tokens line with
  | ["vrf", "x", seed, oseed, alpha, oalpha, cse] => handleX seed oseed alpha oalpha cse
  | ["vrf", "sok", i, seed, alpha] =>
    -- a small-order key (all eight points, canonical and non-canonical encodings) with a proof
    -- crafted to satisfy the verification equation for it: the guard fires before anything else
    match parseNat? i, parseHex? seed, parseHex? alpha with
    | some i, some sd, some _ =>
      if sd.length ≠ 32 ∨ i ≥ 14 then badOp else
      let r := verifyAndHash GV.Model.VrfSym.sym
        (GV.Model.VrfSym.ptT (i % 8))
        { gamma := GV.Model.VrfSym.Pt.zero, c := GV.Model.VrfSym.C9, s := GV.Model.VrfSym.K2 } 0
      { model := (match r with
          | .error .smallOrder => "v=0 err=rejectedkey"
          | .error _ => "v=0 err=other" | .ok _ => "v=1 accepted-small-order-key"),
        spec := "v=0*" }
    | _, _, _ => badOp
  | ["vrf", "pv", seed, alpha] =>
    match parseHex? seed, parseHex? alpha with
    | some sd, some al =>
      if sd.length ≠ 32 then badOp else
      let sk := byteSum sd; let m := byteSum al
      let pr := prove toy sk m
      let r := verifyAndHash toy (pkOf toy sk) pr.1 m
      { model := verdict r (some pr.2) ++ " det=1 pl=80 ol=64", spec := "v=1 same=1 *" }
    | _, _ => badOp
  | ["vrf", "flip", seed, alpha, target, byte, bit] =>
    match parseHex? seed, parseHex? alpha, parseNat? byte, parseNat? bit with
    | some sd, some al, some by_, some bi =>
      let lim := match target with
        | "proof" => 80 | "pk" => 32 | "out" => 64 | "msg" => al.length | _ => 0
      if sd.length ≠ 32 ∨ by_ ≥ lim ∨ bi > 7 then badOp else
      { model := "v=0", spec := "v=0" }
    | _, _, _, _ => badOp
  | ["vrf", "noncanon", seed, alpha] =>
    match parseHex? seed, parseHex? alpha with
    | some sd, some al =>
      if sd.length ≠ 32 then badOp else
      let sk := byteSum sd; let m := byteSum al
      let pr := prove toy sk m
      let r := verifyAndHash toy (pkOf toy sk) { pr.1 with sCanonical := false } m
      { model := verdict r none, spec := "v=0*" }
    | _, _ => badOp
  | ["vrf", "smallorder", i, seed, alpha] =>
    match parseNat? i, parseHex? seed, parseHex? alpha with
    | some i, some sd, some al =>
      if sd.length ≠ 32 ∨ i ≥ 8 then badOp else
      let sk := byteSum sd; let m := byteSum al
      let pr := prove toy sk m
      -- a key for which the small-order guard fires
      let r := verifyAndHash toy 0 pr.1 m
      { model := verdict r none, spec := "v=0*" }
    | _, _, _ => badOp
  | _ => badOp

end GV.Drv.C38
