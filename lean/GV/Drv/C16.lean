import GV.Lib.Line
import GV.Spec.Conformance
/-
  op : trace <proto> <client|server> <tag.variant> ...
  out: acc=<k> end=<implementation state id> agency=<a>
  model = the generated implementation table (GV.Gen.StateMaps) run on the trace;
  spec  = the specification automaton (GV.Spec.Automata) run on the same trace, its end
          state mapped back through the state correspondence.
-/
namespace GV.Drv.C16
open GV.Line GV.SM GV.Spec.Conformance

def parseSym (s : String) : Option Sym :=
  match s.splitOn "." with
  | [a, b] => do let a ← parseNat? a; let b ← parseNat? b; pure ⟨a, b⟩
  | _ => none

def parseSyms : List String → Option (List Sym)
  | [] => some []
  | x :: xs => do let a ← parseSym x; let r ← parseSyms xs; pure (a :: r)

def render (k e a : Nat) : String := s!"acc={k} end={e} agency={a}"

def handle (line : String) : Out :=
  match tokens line with
  | "trace" :: proto :: role :: rest =>
    match find (proto ++ "/" ++ role), parseSyms rest with
    | some e, some syms =>
      if syms.all e.impl.alphabet.contains then
        let (k, s) := e.impl.acceptedPrefix e.impl.init syms
        let (k', q) := e.spec.acceptedPrefix e.spec.init syms
        let spec := match toImpl e q with
          | some s' => render k' s' (e.spec.agencyOf q)
          | none => s!"acc={k'} *"
        -- recorded finding: the NodeToClientV_20+ messages GetMeasures (11) / ReplyGetMeasures (12)
        let cls := if isV20 e && syms.any (fun a => a.msg = 11 || a.msg = 12) then "ltm-getmeasures-missing" else ""
        { model := render k s (e.impl.agencyOf s), spec := spec, cls := cls }
      else badOp
    | _, _ => badOp
  | _ => badOp

end GV.Drv.C16
