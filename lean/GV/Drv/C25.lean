import GV.Lib.Line
import GV.Model.LocalRR
/-
  op:  rr <lsq|ltm|lts|ps> <G> <K> <seed>            (see harness/c25.go)
  out: calls=<n> own=<n> foreign=<n> err=<n> dup=<n>

  All four clients serialise their calls with a busy mutex (after the fix also
  peer-sharing), so by `reply_belongs_to_request` every call of every schedule
  returns its own reply: the model's answer does not depend on the schedule.
-/
namespace GV.Drv.C25
open GV.Line

def handle (line : String) : Out :=
  match tokens line with
  | ["rr", proto, g, k, seed] =>
    if !(["lsq", "ltm", "lts", "ps"].contains proto) then badOp else
    match parseNat? g, parseNat? k, parseNat? seed with
    | some g, some k, some _ =>
      if g < 1 ∨ g > 32 ∨ k < 1 ∨ k > 1000 then badOp else
      let s := s!"calls={g * k} own={g * k} foreign=0 err=0 dup=0"
      -- the property: every call returns the reply to the request it sent
      { model := s, spec := s }
    | _, _, _ => badOp
  | _ => badOp

end GV.Drv.C25
