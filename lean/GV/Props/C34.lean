import GV.Model.BodyHash
import GV.Proofs.BodyHash
import GV.Gen.SegCounts
/-!
C34 — Block bodies are bound to their headers at decode time.

With body validation enabled, decoding fails for any block whose body bytes differ from what
its header commits to: Shelley…Conway the hash of the segment hashes, Dijkstra the body hash,
Byron the body proof's transaction count, merkle root, witness hash, delegation and update
hashes.

All theorems are *symbolic*: the digest `h` is an abstract injective function (ideal hash), the
digest encoding is head-decodable (32 raw bytes are), the Byron merkle root is an abstract
injective function of the list of transaction bodies (C35 owns its shape). These are
hypotheses, never axioms; `Toy` instantiates them.  What "decodes into the era's structs"
means is the abstract predicate `wf`.
-/
namespace GV.Props.C34
open GV.Model.BodyHash GV.Proofs.BodyHash

variable {D : Type} [DecidableEq D]

/-! ### Shelley … Conway -/

/-- **bound**: a block accepted with validation on, and any block with the same header that
    differs in a segment the hash covers (index 1 … segCount-1), is rejected. -/
theorem bound (P : Prims D) (hh : Inj P.h) (he : HeadDecodable P.enc)
    (E : Era) (wf : List Bytes → Bool) (expOf : Bytes → Option D) (segs segs' : List Bytes)
    (hacc : decodeSegwit P E wf expOf false segs = .ok)
    (hhdr : segs'.headD [] = segs.headD [])
    (i : Nat) (hi1 : 1 ≤ i) (hi2 : i < E.segCount) (hdiff : segs'[i]? ≠ segs[i]?) :
    decodeSegwit P E wf expOf false segs' ≠ .ok := by
  intro hacc'
  obtain ⟨_, e, he1, hl, hb⟩ := decodeSegwit_ok P E wf expOf segs hacc
  obtain ⟨_, e', he1', hl', hb'⟩ := decodeSegwit_ok P E wf expOf segs' hacc'
  rw [hhdr, he1] at he1'
  have hee : e = e' := by simpa using he1'
  have hcov := covered_eq_of_bodyHash_eq P hh he segs segs' E.segCount hl hl' (by rw [hb, hb', hee])
  apply hdiff
  rw [← getElem?_covered segs' E.segCount i hi1 hi2, ← getElem?_covered segs E.segCount i hi1 hi2, hcov]

/-- With `segCount = arity` the whole block is bound: two accepted blocks with the same
    header are byte-for-byte the same list of segments. -/
theorem full_cover (P : Prims D) (hh : Inj P.h) (he : HeadDecodable P.enc)
    (E : Era) (hE : E.segCount = E.arity)
    (wf : List Bytes → Bool) (expOf : Bytes → Option D) (segs segs' : List Bytes)
    (hacc : decodeSegwit P E wf expOf false segs = .ok)
    (hacc' : decodeSegwit P E wf expOf false segs' = .ok)
    (hhdr : segs'.headD [] = segs.headD []) : segs' = segs := by
  obtain ⟨hs, e, he1, hl, hb⟩ := decodeSegwit_ok P E wf expOf segs hacc
  obtain ⟨hs', e', he1', hl', hb'⟩ := decodeSegwit_ok P E wf expOf segs' hacc'
  rw [hhdr, he1] at he1'
  have hee : e = e' := by simpa using he1'
  have hcov := covered_eq_of_bodyHash_eq P hh he segs segs' E.segCount hl hl' (by rw [hb, hb', hee])
  unfold structOK at hs hs'
  simp only [Bool.and_eq_true, beq_iff_eq] at hs hs'
  have h1 : segs.take E.segCount = segs := List.take_of_length_le (by omega)
  have h2 : segs'.take E.segCount = segs' := List.take_of_length_le (by omega)
  rw [h1, h2] at hcov
  have hlen : segs'.length = segs.length := by omega
  cases segs with
  | nil => cases segs' with
    | nil => rfl
    | cons _ _ => simp at hlen
  | cons a t => cases segs' with
    | nil => simp at hlen
    | cons a' t' =>
      simp only [List.headD_cons] at hhdr
      simp only [List.drop_succ_cons, List.drop_zero] at hcov
      rw [hhdr, hcov]

/-- Honesty about `n`: a segment at index ≥ segCount is NOT bound — changing it (same length,
    same structural verdict) never changes the verdict. With Conway's literal 5 edited to 4 this
    is exactly the invalid-transactions list. -/
theorem beyond_segCount_not_bound (P : Prims D) (E : Era) (wf : List Bytes → Bool)
    (expOf : Bytes → Option D) (skip : Bool) (segs segs' : List Bytes)
    (hpre : segs'.take E.segCount = segs.take E.segCount)
    (hhdr : segs'.headD [] = segs.headD [])
    (hlen : segs'.length = segs.length) (hwf : wf segs' = wf segs) :
    decodeSegwit P E wf expOf skip segs' = decodeSegwit P E wf expOf skip segs := by
  unfold decodeSegwit structOK validateBlockBodyHash bodyHash segDigests
  rw [hpre, hhdr, hlen, hwf]

/-- The regenerated table: in every segwit era the literal passed to ValidateBlockBodyHash equals
    the arity of the era's block struct, so (by `full_cover`) nothing in the body is left out —
    in particular the invalid-transactions list from Alonzo on. Breaks when a literal is edited
    (Conway 5 → 4) or a block struct gains an element the hash does not cover. -/
theorem all_segments_covered :
    GV.Gen.SegCounts.segCount.map (·.1) = ["shelley", "allegra", "mary", "alonzo", "babbage", "conway"] ∧
    GV.Gen.SegCounts.arity.map (·.1) = GV.Gen.SegCounts.segCount.map (·.1) ∧
    GV.Gen.SegCounts.structArity = GV.Gen.SegCounts.arity ∧
    eras.length = 6 ∧
    (∀ p ∈ eras, p.2.segCount = p.2.arity ∧ 2 ≤ p.2.segCount) ∧
    GV.Gen.SegCounts.dijkstraArity = 2 ∧ GV.Gen.SegCounts.dijkstraFields = 2 := by
  decide

theorem eraOf_covered (name : String) (E : Era) (h : eraOf name = some E) : E.segCount = E.arity := by
  obtain ⟨p, hp, hv⟩ := lookup_mem eras name E h
  have := (all_segments_covered.2.2.2.2.1 p hp).1
  rw [hv] at this
  exact this

/-- **bound, every era of /repo**: for each era name of the regenerated table, two blocks accepted
    with validation on that share the header are identical. -/
theorem bound_every_era (P : Prims D) (hh : Inj P.h) (he : HeadDecodable P.enc)
    (name : String) (E : Era) (hE : eraOf name = some E)
    (wf : List Bytes → Bool) (expOf : Bytes → Option D) (segs segs' : List Bytes)
    (hacc : decodeSegwit P E wf expOf false segs = .ok)
    (hacc' : decodeSegwit P E wf expOf false segs' = .ok)
    (hhdr : segs'.headD [] = segs.headD []) : segs' = segs :=
  full_cover P hh he E (eraOf_covered name E hE) wf expOf segs segs' hacc hacc' hhdr

/-! ### The skip flag -/

/-- With `SkipBodyHashValidation` the verdict is the structural one, nothing else;
    without it acceptance implies the structural check AND the hash comparison. -/
theorem skip_flag_only_skips (P : Prims D) (E : Era) (wf : List Bytes → Bool)
    (expOf : Bytes → Option D) (segs : List Bytes) :
    (decodeSegwit P E wf expOf true segs = if structOK E wf segs then .ok else .errDecode) ∧
    (decodeSegwit P E wf expOf false segs = .ok →
      structOK E wf segs = true ∧ ∃ e, expOf (segs.headD []) = some e ∧
        E.segCount ≤ segs.length ∧ bodyHash P segs E.segCount = e) ∧
    (decodeSegwit P E wf expOf false segs = .ok → decodeSegwit P E wf expOf true segs = .ok) := by
  refine ⟨?_, decodeSegwit_ok P E wf expOf segs, ?_⟩
  · unfold decodeSegwit; cases structOK E wf segs <;> simp
  · intro h
    have := (decodeSegwit_ok P E wf expOf segs h).1
    unfold decodeSegwit; simp [this]

/-! ### Dijkstra and the Byron epoch boundary block: one hash over one element -/

theorem dijkstra_bound (P : Prims D) (hh : Inj P.h) (wf : List Bytes → Bool)
    (expOf : Bytes → Option D) (segs segs' : List Bytes)
    (hacc : decodeDijkstra P GV.Gen.SegCounts.dijkstraArity wf expOf false segs = .ok)
    (hacc' : decodeDijkstra P GV.Gen.SegCounts.dijkstraArity wf expOf false segs' = .ok)
    (hhdr : segs'.headD [] = segs.headD []) : segs' = segs := by
  have key : ∀ s : List Bytes, decodeDijkstra P GV.Gen.SegCounts.dijkstraArity wf expOf false s = .ok →
      s.length = 2 ∧ ∃ e, expOf (s.headD []) = some e ∧ P.h (s.getD 1 []) = e := by
    intro s h
    unfold decodeDijkstra at h
    by_cases hs : (s.length == GV.Gen.SegCounts.dijkstraArity && wf s) = true
    · simp only [hs, Bool.not_true, Bool.false_eq_true, ↓reduceIte] at h
      simp only [Bool.and_eq_true, beq_iff_eq] at hs
      cases hx : expOf (s.headD []) with
      | none => rw [hx] at h; simp at h
      | some e =>
        rw [hx] at h; simp only at h
        by_cases hb : P.h (s.getD 1 []) = e
        · exact ⟨hs.1, e, rfl, hb⟩
        · rw [if_neg hb] at h; cases h
    · simp [hs] at h
  obtain ⟨l, e, h1, h2⟩ := key segs hacc
  obtain ⟨l', e', h1', h2'⟩ := key segs' hacc'
  rw [hhdr, h1] at h1'
  have hee : e = e' := by simpa using h1'
  match segs, segs', l, l' with
  | [a, b], [a', b'], _, _ =>
    simp only [List.headD_cons] at hhdr
    simp only [List.getD_cons_succ, List.getD_cons_zero] at h2 h2'
    have := hh _ _ (h2.trans (hee.trans h2'.symm))
    rw [hhdr, this]

theorem ebb_bound (P : Prims D) (hh : Inj P.h) (wf : List Bytes → Bool)
    (expOf : Bytes → Option D) (segs segs' : List Bytes)
    (hacc : decodeEbb P wf expOf false segs = .ok)
    (hacc' : decodeEbb P wf expOf false segs' = .ok)
    (hhdr : segs'.headD [] = segs.headD []) : segs'[1]? = segs[1]? := by
  have key : ∀ s : List Bytes, decodeEbb P wf expOf false s = .ok →
      2 ≤ s.length ∧ ∃ e, expOf (s.headD []) = some e ∧ P.h (s.getD 1 []) = e := by
    intro s h
    unfold decodeEbb at h
    by_cases hs : wf s = true
    · simp only [hs, Bool.not_true, Bool.false_eq_true, ↓reduceIte] at h
      by_cases hl : s.length < 2
      · simp [hl] at h
      · simp only [hl, ↓reduceIte] at h
        cases hx : expOf (s.headD []) with
        | none => rw [hx] at h; simp at h
        | some e =>
          rw [hx] at h; simp only at h
          by_cases hb : P.h (s.getD 1 []) = e
          · exact ⟨by omega, e, rfl, hb⟩
          · rw [if_neg hb] at h; cases h
    · simp [hs] at h
  obtain ⟨l, e, h1, h2⟩ := key segs hacc
  obtain ⟨l', e', h1', h2'⟩ := key segs' hacc'
  rw [hhdr, h1] at h1'
  have hee : e = e' := by simpa using h1'
  have hb := hh _ _ (h2.trans (hee.trans h2'.symm))
  match segs, segs', l, l' with
  | _ :: b :: _, _ :: b' :: _, _, _ =>
    simp only [List.getD_cons_succ, List.getD_cons_zero] at hb
    simp [hb]

/-! ### Byron main block -/

theorem checkProof_ok (c e : ByronProof D) (s : Bool) (h : checkProof c e s = .ok) :
    c.count = e.count ∧ c.merkle = e.merkle ∧ c.wit = e.wit ∧ s = true ∧ c.dlg = e.dlg ∧ c.upd = e.upd := by
  unfold checkProof at h
  by_cases h1 : c.count = e.count
  · by_cases h2 : c.merkle = e.merkle
    · by_cases h3 : c.wit = e.wit
      · cases s with
        | false => simp [h1, h2, h3] at h
        | true =>
          by_cases h5 : c.dlg = e.dlg
          · by_cases h6 : c.upd = e.upd
            · exact ⟨h1, h2, h3, rfl, h5, h6⟩
            · simp [h1, h2, h3, h5, h6] at h
          · simp [h1, h2, h3, h5] at h
      · simp [h1, h2, h3] at h
    · simp [h1, h2] at h
  · simp [h1] at h

/-- **Byron bound**: two Byron main blocks accepted under the same header proof agree in the
    transaction count, the list of transaction bodies, the concatenated witness bytes, the
    delegation payload and the update payload. -/
theorem byron_bound (P : Prims D) (hh : Inj P.h) (mr : List Bytes → D) (hmr : Inj mr)
    (e : ByronProof D) (s s' : Bool) (b b' : ByronBody)
    (hacc : decodeByron P mr true (some e) s false b = .ok)
    (hacc' : decodeByron P mr true (some e) s' false b' = .ok) :
    b'.txs.length = b.txs.length ∧ b'.txs.map (·.1) = b.txs.map (·.1) ∧
    (b'.txs.map (·.2)).flatten = (b.txs.map (·.2)).flatten ∧ b'.dlg = b.dlg ∧ b'.upd = b.upd := by
  unfold decodeByron at hacc hacc'
  simp only [Bool.not_true, Bool.false_eq_true, ↓reduceIte] at hacc hacc'
  obtain ⟨c1, c2, c3, _, c5, c6⟩ := checkProof_ok _ _ _ hacc
  obtain ⟨d1, d2, d3, _, d5, d6⟩ := checkProof_ok _ _ _ hacc'
  simp only [computeProof] at c1 c2 c3 c5 c6 d1 d2 d3 d5 d6
  refine ⟨by omega, hmr _ _ (d2.trans c2.symm), ?_, hh _ _ (d5.trans c5.symm), hh _ _ (d6.trans c6.symm)⟩
  have hw := hh _ _ (d3.trans c3.symm)
  unfold encodeWitnessList at hw
  simp only [List.cons.injEq, true_and] at hw
  exact List.append_cancel_right hw

/-- Rejection form of `byron_bound`. -/
theorem byron_reject (P : Prims D) (hh : Inj P.h) (mr : List Bytes → D) (hmr : Inj mr)
    (e : ByronProof D) (s s' : Bool) (b b' : ByronBody)
    (hacc : decodeByron P mr true (some e) s false b = .ok)
    (hdiff : b'.txs.map (·.1) ≠ b.txs.map (·.1) ∨ (b'.txs.map (·.2)).flatten ≠ (b.txs.map (·.2)).flatten ∨
             b'.dlg ≠ b.dlg ∨ b'.upd ≠ b.upd) :
    decodeByron P mr true (some e) s' false b' ≠ .ok := by
  intro hacc'
  obtain ⟨_, h2, h3, h4, h5⟩ := byron_bound P hh mr hmr e s s' b b' hacc hacc'
  rcases hdiff with h | h | h | h
  · exact h h2
  · exact h h3
  · exact h h4
  · exact h h5

/-- When every witness blob comes from a head-decodable set (well-formed CBOR items are
    self-delimiting), equal concatenations mean equal witness lists. -/
theorem witnesses_split_unique (S : Bytes → Prop)
    (hS : ∀ a b r r', S a → S b → a ++ r = b ++ r' → a = b) :
    ∀ (l l' : List Bytes), (∀ x ∈ l, S x) → (∀ x ∈ l', S x) → l.length = l'.length →
      l.flatten = l'.flatten → l = l' := by
  intro l
  induction l with
  | nil => intro l' _ _ hl _; cases l' with
    | nil => rfl
    | cons _ _ => simp at hl
  | cons a t ih =>
    intro l' h1 h2 hl h
    cases l' with
    | nil => simp at hl
    | cons b t' =>
      simp only [List.flatten_cons] at h
      have hab : a = b := hS a b _ _ (h1 a (by simp)) (h2 b (by simp)) h
      subst hab
      have ht := List.append_cancel_left h
      simp only [List.length_cons, Nat.add_right_cancel_iff] at hl
      rw [ih t' (fun x hx => h1 x (by simp [hx])) (fun x hx => h2 x (by simp [hx])) hl ht]

/-- The documented gap: the ssc payload's bytes are not bound by default
    (only `ValidateSscProofShape`, abstracted as the flag, looks at it). -/
theorem byron_ssc_not_bound (P : Prims D) (mr : List Bytes → D) (wfOK : Bool)
    (e : Option (ByronProof D)) (s skip : Bool) (b : ByronBody) (ssc' : Bytes) :
    decodeByron P mr wfOK e s skip { b with ssc := ssc' } = decodeByron P mr wfOK e s skip b := rfl

theorem byron_skip_flag_only_skips (P : Prims D) (mr : List Bytes → D) (wfOK : Bool)
    (e : Option (ByronProof D)) (s : Bool) (b : ByronBody) :
    decodeByron P mr wfOK e s true b = if wfOK then .ok else .errDecode := by
  unfold decodeByron; cases wfOK <;> simp

/-! ### The full statement and what is not part of the theorem -/

/-! ### The other VerifyConfig toggles -/

/-- **Regenerated.** In the source as it stands, the decode-time body check of EVERY block
    constructor (Byron main, Byron EBB, Shelley … Conway, Dijkstra) is guarded by
    `!cfg.SkipBodyHashValidation` and by nothing else; that field is a declared toggle. -/
theorem gate_is_body_flag :
    GV.Gen.BodyGate.gate.map (·.1) =
      ["byron", "byronebb", "shelley", "allegra", "mary", "alonzo", "babbage", "conway", "dijkstra"] ∧
    (∀ p ∈ GV.Gen.BodyGate.gate, p.2 = "SkipBodyHashValidation") ∧
    "SkipBodyHashValidation" ∈ GV.Gen.BodyGate.verifyConfigBools := by decide

/-- **Regenerated.** `ByronMainBlock.ValidateBodyProof` reaches the tx, delegation and update
    comparisons as top-level statements and has no config-dependent early return: the stricter
    `EnableByronSscProofHashValidation` mode cannot bypass them. -/
theorem byron_checks_unconditional :
    GV.Gen.BodyGate.byronEarlyReturns = 0 ∧
    "tx" ∈ GV.Gen.BodyGate.byronUnconditionalChecks ∧
    "delegation" ∈ GV.Gen.BodyGate.byronUnconditionalChecks ∧
    "update" ∈ GV.Gen.BodyGate.byronUnconditionalChecks := by decide

/-- **other_flags_irrelevant.** For every era, two configs that agree on
    `SkipBodyHashValidation` skip — or do not skip — the body check alike, whatever their other
    toggles say (present and future ones: the quantifier is over arbitrary flag lists). -/
theorem other_flags_irrelevant (era : String) (hera : era ∈ GV.Gen.BodyGate.gate.map (·.1))
    (c c' : Cfg) (h : c.get "SkipBodyHashValidation" = c'.get "SkipBodyHashValidation") :
    skipped era c = skipped era c' := by
  have hg : gateOf era = "SkipBodyHashValidation" := by
    have := gate_is_body_flag.1
    rw [this] at hera
    simp only [List.mem_cons, List.not_mem_nil, or_false] at hera
    rcases hera with rfl | rfl | rfl | rfl | rfl | rfl | rfl | rfl | rfl <;> decide
  simp only [skipped, hg, h]

/-- hence the verdicts of the segwit, Dijkstra, EBB and Byron decoders do not depend on them -/
theorem verdict_independent_of_other_flags (P : Prims D) (E : Era) (wf : List Bytes → Bool)
    (expOf : Bytes → Option D) (segs : List Bytes) (era : String)
    (hera : era ∈ GV.Gen.BodyGate.gate.map (·.1)) (c c' : Cfg)
    (h : c.get "SkipBodyHashValidation" = c'.get "SkipBodyHashValidation") :
    decodeSegwit P E wf expOf (skipped era c) segs = decodeSegwit P E wf expOf (skipped era c') segs ∧
    decodeDijkstra P 2 wf expOf (skipped era c) segs = decodeDijkstra P 2 wf expOf (skipped era c') segs ∧
    decodeEbb P wf expOf (skipped era c) segs = decodeEbb P wf expOf (skipped era c') segs := by
  rw [other_flags_irrelevant era hera c c' h]
  exact ⟨rfl, rfl, rfl⟩

theorem byron_verdict_independent_of_other_flags (P : Prims D) (mr : List Bytes → D) (wfOK : Bool)
    (expected : Option (ByronProof D)) (sscOk : Bool) (b : ByronBody) (c c' : Cfg)
    (h : c.get "SkipBodyHashValidation" = c'.get "SkipBodyHashValidation") :
    decodeByron P mr wfOK expected sscOk (skipped "byron" c) b =
      decodeByron P mr wfOK expected sscOk (skipped "byron" c') b := by
  rw [other_flags_irrelevant "byron" (by decide) c c' h]

/-- the harness' config: the mask never touches `SkipBodyHashValidation` -/
example : (cfgOf false 15).get "SkipBodyHashValidation" = false ∧
    (cfgOf false 15).get "SkipBlockLimitsValidation" = true ∧
    (cfgOf true 0).get "SkipBodyHashValidation" = true ∧
    skipped "allegra" (cfgOf false 15) = false := by decide

/-- Full statement of C34 over the model (all layouts). Proved below (`C34_holds`) from the
    theorems above; what stays outside is the correspondence model ↔ code (run on every check)
    and the hypotheses on the primitives. -/
def C34_full : Prop :=
  ∀ (D : Type) [DecidableEq D] (P : Prims D), Inj P.h → HeadDecodable P.enc →
    -- segwit eras of /repo
    (∀ name E, eraOf name = some E → ∀ wf expOf segs segs',
        decodeSegwit P E wf expOf false segs = .ok → decodeSegwit P E wf expOf false segs' = .ok →
        segs'.headD [] = segs.headD [] → segs' = segs) ∧
    -- Dijkstra
    (∀ wf expOf segs segs',
        decodeDijkstra P GV.Gen.SegCounts.dijkstraArity wf expOf false segs = .ok →
        decodeDijkstra P GV.Gen.SegCounts.dijkstraArity wf expOf false segs' = .ok →
        segs'.headD [] = segs.headD [] → segs' = segs) ∧
    -- Byron (committed components)
    (∀ (mr : List Bytes → D), Inj mr → ∀ e s s' b b',
        decodeByron P mr true (some e) s false b = .ok → decodeByron P mr true (some e) s' false b' = .ok →
        b'.txs.map (·.1) = b.txs.map (·.1) ∧ (b'.txs.map (·.2)).flatten = (b.txs.map (·.2)).flatten ∧
        b'.dlg = b.dlg ∧ b'.upd = b.upd)

theorem C34_holds : C34_full := by
  intro D _ P hh he
  refine ⟨?_, ?_, ?_⟩
  · intro name E hE wf expOf segs segs' h1 h2 h3
    exact bound_every_era P hh he name E hE wf expOf segs segs' h1 h2 h3
  · intro wf expOf segs segs' h1 h2 h3
    exact dijkstra_bound P hh wf expOf segs segs' h1 h2 h3
  · intro mr hmr e s s' b b' h1 h2
    exact (byron_bound P hh mr hmr e s s' b b' h1 h2).2

/-! ### Non-vacuity: a toy digest satisfying every hypothesis -/

namespace Toy
/-- digest = the bytes themselves (injective), encoded self-delimiting: each byte `b` as `1 b`, then `0`. -/
def enc : Bytes → Bytes
  | [] => [0]
  | b :: t => 1 :: b :: enc t

def prims : Prims Bytes := { h := id, enc := enc }

theorem h_inj : Inj prims.h := fun _ _ h => h

theorem enc_headDecodable : HeadDecodable prims.enc := by
  intro d
  induction d with
  | nil =>
    intro d' r r' h
    cases d' with
    | nil => rfl
    | cons b t => simp [prims, enc] at h
  | cons a t ih =>
    intro d' r r' h
    cases d' with
    | nil => simp [prims, enc] at h
    | cons b t' =>
      simp only [prims, enc, List.cons_append, List.cons.injEq, true_and] at h
      have := ih t' r r' h.2
      rw [h.1, this]

/-- merkle root toy: the list itself, flattened self-delimitingly -/
def mr (l : List Bytes) : Bytes := (l.map enc).flatten ++ [2]

def segs : List Bytes := [[0xaa], [1, 2], [3], [], [4]]
def conway : Era := { arity := 5, segCount := 5 }
def expOf : Bytes → Option Bytes := fun _ => some (bodyHash prims segs 5)

/-- an accepted block exists … -/
example : decodeSegwit prims conway (fun _ => true) expOf false segs = .ok := by decide
/-- … and changing its invalid-transactions segment gets it rejected when 5 segments are hashed … -/
example : decodeSegwit prims conway (fun _ => true) expOf false [[0xaa], [1, 2], [3], [], [5]] = .errBodyHash := by
  decide
/-- … but accepted when the literal is 4 (what `beyond_segCount_not_bound` says in general). -/
example : decodeSegwit prims { arity := 5, segCount := 4 } (fun _ => true)
    (fun _ => some (bodyHash prims segs 4)) false [[0xaa], [1, 2], [3], [], [5]] = .ok := by decide
/-- a 6th element is a decode error, a short block fails in the hash check's length guard -/
example : decodeSegwit prims conway (fun _ => true) expOf false (segs ++ [[]]) = .errDecode := by decide
example : decodeSegwit prims { arity := 4, segCount := 5 } (fun _ => true) expOf false (segs.take 4) = .errBodyHash := by
  decide
/-- `eraOf` is defined on the generated table -/
example : eraOf "conway" = some { arity := 5, segCount := 5 } ∧ eraOf "shelley" = some { arity := 4, segCount := 4 } := by
  decide

def body : ByronBody := { txs := [([1], [0x81]), ([2], [0x80])], ssc := [9], dlg := [0x80], upd := [0x82] }
example : decodeByron prims mr true (some (computeProof prims mr body)) true false body = .ok := by decide
example : decodeByron prims mr true (some (computeProof prims mr body)) true false { body with dlg := [0x9f, 0xff] }
    = .errBodyProof "delegation" := by decide
example : decodeByron prims mr true (some (computeProof prims mr body)) true false { body with txs := [([1], [0x81])] }
    = .errBodyProof "count" := by decide
end Toy

end GV.Props.C34
