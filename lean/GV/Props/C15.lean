import GV.Model.Shutdown
/-!
C15 — No call hangs and nothing leaks, whatever the peer does (level: partial).

Proved, for the request/response rendezvous all blocking client calls share
(`GV.Model.Shutdown`) and **every** peer behaviour (any sequence of right-kind,
wrong-kind and surplus replies and junk, ended by the disconnect):
* `call_always_returns`: the call returns a result or an error;
* `nothing_left_behind`: no handler stays blocked and no caller stays blocked;
* `ok_only_for_own_kind`: it succeeds only if a reply of the pending kind came first.
The two pre-repair variants are refuted by concrete witnesses
(`never_closed_channel_witness`: peer-sharing; `collapsed_busy_witness`:
local-tx-monitor), both reproduced on the real code.

Exercised only (not theorems): `Connection.Close` returning, `ErrorChan` being
closed and the absence of library goroutines afterwards — measured by the
harness on every op (runtime behaviour of the Go scheduler and of net.Conn).
-/
namespace GV.Props.C15
open GV.Model.Shutdown

/-- invariant of the repaired code: no handler is ever blocked, and the muxer's read loop parks
    only after the call has returned or the protocol has failed -/
def Good (s : St) : Prop :=
  s.handlerBlocked = false ∧ (s.parked = true → (∃ b, s.caller = .returned b) ∨ s.protoDead = true)

theorem good_step (s : St) (e : PeerEv) (h : Good s) : Good (step fixed s e) := by
  obtain ⟨hb, hp⟩ := h
  cases e with
  | reply k =>
    simp only [step, fixed]
    split
    · exact ⟨hb, hp⟩
    · rename_i hc
      simp only [hb, Bool.or_false, Bool.or_eq_true, not_or, Bool.not_eq_true] at hc
      cases hcal : s.caller with
      | returned b => simp only; exact ⟨hb, hp⟩
      | waiting =>
        simp only
        split
        · exact ⟨hb, fun _ => Or.inl ⟨true, rfl⟩⟩
        · exact ⟨hb, fun _ => Or.inr rfl⟩
  | junk =>
    simp only [step]
    split
    · exact ⟨hb, hp⟩
    · exact ⟨hb, fun _ => Or.inr rfl⟩
  | flood =>
    simp only [step]
    split
    · exact ⟨hb, hp⟩
    · cases hcal : s.caller with
      | returned b => simp only; exact ⟨hb, fun _ => Or.inl ⟨b, rfl⟩⟩
      | waiting =>
        simp only
        split
        · rename_i hd; exact ⟨hb, fun _ => Or.inr hd⟩
        · exact ⟨hb, hp⟩
  | close => exact ⟨hb, hp⟩

theorem good_fold (evs : List PeerEv) : ∀ s : St, Good s → Good (evs.foldl (step fixed) s) := by
  induction evs with
  | nil => intro s h; exact h
  | cons e t ih => intro s h; exact ih _ (good_step s e h)

theorem good_init (kind : Nat) : Good (St.init kind) := by
  simp [Good, St.init]

/-- Whatever the peer does, once the connection has ended the call has returned. -/
theorem call_always_returns (kind : Nat) (evs : List PeerEv) : (outcome fixed kind evs).isSome = true := by
  unfold outcome
  rw [List.foldl_append]
  simp only [List.foldl_cons, List.foldl_nil]
  have hb := (good_fold evs (St.init kind) (good_init kind)).1
  generalize (evs.foldl (step fixed) (St.init kind)) = s at hb
  simp only [step, finish]
  cases s.caller with
  | returned b => simp
  | waiting => simp [fixed, doneChanCloses, hb]

/-- … and neither a handler nor the caller is left blocked: no goroutine of the call survives. -/
theorem nothing_left_behind (kind : Nat) (evs : List PeerEv) : leaks fixed kind evs = false := by
  have h1 := call_always_returns kind evs
  unfold outcome at h1
  unfold leaks
  have hb := (good_fold (evs ++ [PeerEv.close]) (St.init kind) (good_init kind)).1
  simp only [hb, Bool.false_or]
  cases hf : finish fixed ((evs ++ [PeerEv.close]).foldl (step fixed) (St.init kind)) with
  | none => rw [hf] at h1; simp at h1
  | some b => simp

/-- The protocol client's own `Stop()` returns whatever the peer did before — also after a
    flood of surplus messages has parked the muxer's read loop. -/
theorem stop_always_returns (kind : Nat) (evs : List PeerEv) : stopReturns fixed kind evs = true := by
  have hb := (good_fold (evs ++ [PeerEv.close]) (St.init kind) (good_init kind)).1
  unfold stopReturns
  simp only [hb, Bool.not_false, Bool.and_true]
  simp [fixed]

/-- the muxer before its repair: the call is answered, surplus messages park the read loop,
    `Stop()` blocks in UnregisterProtocol — and the disconnect is never noticed -/
theorem parked_readloop_witness :
    stopReturns { selectsDone := true, perKindStates := true, unregisterBlocks := true } 0 [.reply 0, .flood] = false ∧
    stopReturns fixed 0 [.reply 0, .flood] = true := by decide

theorem ok_needs_own_reply_aux (kind : Nat) (evs : List PeerEv) : ∀ s : St,
    s.pendingKind = kind → s.caller = .waiting →
    (evs.foldl (step fixed) s).caller = .returned true → PeerEv.reply kind ∈ evs := by
  induction evs with
  | nil => intro s _ hw h; simp [hw] at h
  | cons e t ih =>
    intro s hk hw h
    simp only [List.foldl_cons] at h
    by_cases he : e = .reply kind
    · simp [he]
    · have hs : (step fixed s e).pendingKind = kind ∧ (step fixed s e).caller = .waiting := by
        cases e with
        | reply k =>
          have hne : k ≠ kind := fun hh => he (by rw [hh])
          simp only [step, fixed, hw, hk]
          split
          · exact ⟨hk, hw⟩
          · simp [hne, hk, hw]
        | junk => simp only [step]; split <;> simp [hk, hw]
        | flood => simp only [step, hw]; split <;> (try split) <;> simp [hk, hw]
        | close => simp [step, hk, hw]
      have := ih (step fixed s e) hs.1 hs.2 h
      simp [this]

/-- The call succeeds only if the peer actually sent a reply of the pending kind. -/
theorem ok_only_for_own_kind (kind : Nat) (evs : List PeerEv) (h : outcome fixed kind evs = some true) :
    PeerEv.reply kind ∈ evs := by
  unfold outcome at h
  rw [List.foldl_append] at h
  simp only [List.foldl_cons, List.foldl_nil, step, finish] at h
  cases hc : (evs.foldl (step fixed) (St.init kind)).caller with
  | waiting => simp [hc] at h
  | returned b =>
    simp only [hc, Option.some.injEq] at h
    subst h
    exact ok_needs_own_reply_aux kind evs (St.init kind) rfl rfl hc

/-- and it does succeed when that reply comes first -/
theorem own_reply_first_succeeds (kind : Nat) (rest : List PeerEv) :
    outcome fixed kind (.reply kind :: rest) = some true := by
  unfold outcome
  simp only [List.cons_append, List.foldl_cons]
  have h1 : step fixed (St.init kind) (.reply kind) =
      { pendingKind := kind, caller := .returned true, handlerBlocked := false, protoDead := false, closed := false } := by
    simp [step, St.init]
  rw [h1]
  have : ∀ (l : List PeerEv) (s : St), s.caller = .returned true → (l.foldl (step fixed) s).caller = .returned true := by
    intro l; induction l with
    | nil => intro s h; exact h
    | cons e t ih =>
      intro s h; apply ih
      cases e with
      | reply k => simp only [step]; split <;> simp [h]
      | junk => simp only [step]; split <;> simp [h]
      | flood => simp only [step, h]; split <;> simp [h]
      | close => simp [step, h]
  have hfin := this (rest ++ [PeerEv.close]) _ (rfl : ({ pendingKind := kind, caller := Caller.returned true, handlerBlocked := false, protoDead := false, closed := false } : St).caller = .returned true)
  unfold finish
  rw [hfin]

/-- peer-sharing before the repair: the result channel is never closed and DoneChan is not
    selected on — silence followed by a disconnect blocks GetPeers for good -/
theorem never_closed_channel_witness :
    outcome { selectsDone := false, perKindStates := true } 0 [] = none ∧
    leaks { selectsDone := false, perKindStates := true } 0 [] = true := by decide

/-- local-tx-monitor before the repair: ReplyNextTx (kind 1) answering HasTx (kind 0) is admitted
    by the single Busy state, its handler blocks, DoneChan never closes, HasTx never returns -/
theorem collapsed_busy_witness :
    outcome { selectsDone := true, perKindStates := false } 0 [.reply 1] = none ∧
    leaks { selectsDone := true, perKindStates := false } 0 [.reply 1] = true := by decide

example : outcome fixed 0 [.reply 1] = some false := by decide
example : outcome fixed 0 [.junk, .reply 0] = some false := by decide
example : outcome fixed 0 [.reply 0, .reply 0] = some true := by decide

/-! ### muxer hand-over and UnregisterProtocol, step by step -/

theorem mstep_inv (t t1 : MSt) (a : MAct) (hst : mstep t a = some t1) (hf : t.fixedMux = true)
    (hc : t.closing = true ↔ 1 ≤ t.unreg) : t1.fixedMux = true ∧ (t1.closing = true ↔ 1 ≤ t1.unreg) := by
  cases a <;> simp only [mstep] at hst <;> (repeat' split at hst) <;>
    first
    | (simp only [Option.some.injEq] at hst; subst hst; refine ⟨hf, ?_⟩; simp_all <;> omega)
    | (simp only [Option.some.injEq] at hst; subst hst; refine ⟨hf, ?_⟩; simp_all)
    | (simp at hst)

/-- `closing` is signalled exactly when the repaired UnregisterProtocol has been called -/
theorem closing_iff (acts : List MAct) : ∀ t t' : MSt, t.fixedMux = true → (t.closing = true ↔ 1 ≤ t.unreg) →
    mrun t acts = some t' → t'.fixedMux = true ∧ (t'.closing = true ↔ 1 ≤ t'.unreg) := by
  induction acts with
  | nil => intro t t' hf hc h; simp [mrun] at h; subst h; exact ⟨hf, hc⟩
  | cons a as ih =>
    intro t t' hf hc h
    unfold mrun at h
    cases hst : mstep t a with
    | none => simp [hst] at h
    | some t1 =>
      simp only [hst] at h
      obtain ⟨h1, h2⟩ := mstep_inv t t1 a hst hf hc
      exact ih t1 t' h1 h2 h

/-- **`Protocol.Stop()` always gets through the muxer.** In every reachable state of the
    repaired muxer in which UnregisterProtocol is waiting, it can complete at once, or the
    blocked hand-over can let go at once and then it completes — whatever the peer sent and
    whether or not anybody drains the channel. -/
theorem unregister_completes (onWire : Nat) (acts : List MAct) (t : MSt)
    (h : mrun (MSt.init true onWire) acts = some t) (hw : t.unreg = 1) :
    (mstep t .finishUnreg).isSome = true ∨
    ∃ t1, mstep t .wake = some t1 ∧ (mstep t1 .finishUnreg).isSome = true := by
  obtain ⟨_, hc⟩ := closing_iff acts (MSt.init true onWire) t rfl (by simp [MSt.init]) h
  have hcl : t.closing = true := hc.mpr (by omega)
  by_cases hh : t.held = true
  · right
    refine ⟨{ t with held := false }, by simp [mstep, hh, hcl], by simp [mstep, hw]⟩
  · left
    simp [mstep, hw, hh]

/-- the muxer before the repair: eleven surplus segments, then the protocol stops — the read
    loop is parked holding the mutex, UnregisterProtocol waits for it, and **no** action is
    enabled any more: Stop never returns and the peer's disconnect is never seen -/
theorem old_muxer_deadlock_witness :
    ∃ t, mrun (MSt.init false 11) (List.replicate 11 MAct.read ++ [.stop]) = some t ∧
      t.unreg = 1 ∧ t.held = true ∧ t.eofSeen = false ∧
      ∀ a, mstep t a = none := by
  refine ⟨_, rfl, rfl, rfl, rfl, ?_⟩
  intro a; cases a <;> decide

/-- the same schedule with the repaired muxer: wake, then UnregisterProtocol completes and the
    read loop goes back to the connection and sees the disconnect -/
example : (mrun (MSt.init true 11) (List.replicate 11 MAct.read ++ [.stop, .wake, .finishUnreg, .eof])).map
    (fun t => (t.unreg, t.held, t.eofSeen)) = some (2, false, true) := by decide

end GV.Props.C15
