import GV.Model.Collateral
import GV.Gen.RuleLists
/-!
C32 — Collateral covers the fee share the protocol demands.

For a transaction that runs scripts, validation requires at least one
collateral input, collateral balance × 100 ≥ fee × collateral percentage
(exact), ada-only collateral unless the non-ada part is returned, and no more
collateral inputs than the protocol maximum.
-/
namespace GV.Props.C32
open GV.Model.Collateral

private theorem sumQty_zero_of_empty (l : List COut) (a : Nat)
    (h : ∀ o ∈ l, bundleOf o = []) : sumQty l a = 0 := by
  unfold sumQty
  induction l with
  | nil => simp
  | cons o l ih =>
    have ho := h o (by simp)
    have hl := ih (fun o' ho' => h o' (by simp [ho']))
    rw [List.map_cons, List.sum_cons, hl, ho]
    simp [qty]

private theorem bundle_empty_of_not_bad (bp : Bool) (o : COut) (h : isBad bp o = false) :
    bundleOf o = [] := by
  unfold isBad at h
  unfold bundleOf
  cases ho : o.assets with
  | none => simp
  | some b =>
    simp only [ho] at h
    cases bp with
    | true => simpa using h
    | false => simp at h

/-- The token clause: when the non-ada rule passes for a script transaction, every asset
    carried by the collateral inputs is returned in full. -/
theorem nonAda_sound (t : Tx) (hs : t.redeemers = true) (h : nonAdaOk t = true) :
    nonAdaReturned t = true := by
  unfold nonAdaOk at h
  simp only [hs, Bool.not_true, Bool.false_eq_true, ↓reduceIte] at h
  unfold nonAdaReturned
  rw [List.all_eq_true]
  intro a ha
  by_cases hbad : t.ins.any (isBad t.hasReturnField) = true
  · simp only [hbad, Bool.not_true, Bool.false_eq_true, ↓reduceIte] at h
    by_cases hr : t.hasReturnField = true
    · simp only [hr, Bool.not_true, Bool.false_eq_true, ↓reduceIte] at h
      cases hret : t.ret with
      | none => simp [hret] at h
      | some r =>
        simp only [hret] at h
        unfold returnsAll at h
        rw [List.all_eq_true] at h
        have := h a (by simp [ha])
        simp only [beq_iff_eq] at this
        simp [this]
    · simp [hr] at h
  · have hall : ∀ o ∈ t.ins, bundleOf o = [] := by
      intro o ho
      apply bundle_empty_of_not_bad t.hasReturnField
      cases hb : isBad t.hasReturnField o with
      | false => rfl
      | true =>
        exfalso; apply hbad
        rw [List.any_eq_true]; exact ⟨o, ho, hb⟩
    simp [sumQty_zero_of_empty t.ins a hall]

/-- Full statement: an accepted script-running transaction meets all four demands. -/
theorem accepted_sound (t : Tx) (hs : t.redeemers = true) (h : accepted t = true) :
    1 ≤ t.ins.length ∧
    balanceCoin t * 100 ≥ (t.fee : Int) * (t.pct : Int) ∧
    nonAdaReturned t = true ∧
    t.ins.length ≤ t.maxInputs := by
  unfold accepted at h
  simp only [Bool.and_eq_true] at h
  obtain ⟨⟨⟨h1, h2⟩, h3⟩, h4⟩ := h
  refine ⟨?_, ?_, nonAda_sound t hs h2, ?_⟩
  · unfold noCollateralOk at h3
    simp [hs] at h3
    cases hi : t.ins with
    | nil => simp [hi] at h3
    | cons a l => simp
  · unfold insufficientOk at h1
    simpa [hs] using h1
  · unfold tooManyOk at h4
    simpa using h4

/-- Acceptance by the four rules implies the demand predicate the monitor evaluates
    on the implementation's verdicts (`demanded` is the `spec` column of the driver). -/
theorem accepted_imp_demanded (t : Tx) (hs : t.redeemers = true) :
    accepted t = true → demanded t = true := by
  intro h
  obtain ⟨h1, h2, h3, h4⟩ := accepted_sound t hs h
  unfold demanded
  simp only [Bool.and_eq_true, decide_eq_true_eq]
  exact ⟨⟨⟨h1, h2⟩, h3⟩, h4⟩

/-- The sufficiency rule is *exactly* the integer inequality: nothing is rounded
    in the transaction's favour, in either direction. -/
theorem insufficient_iff (t : Tx) (hs : t.redeemers = true) :
    insufficientOk t = true ↔ balanceCoin t * 100 ≥ (t.fee : Int) * (t.pct : Int) := by
  unfold insufficientOk; simp [hs]

/-- A transaction without scripts is not subject to any of the three script-only rules. -/
theorem no_scripts_no_demand (t : Tx) (hs : t.redeemers = false) :
    insufficientOk t = true ∧ nonAdaOk t = true ∧ noCollateralOk t = true := by
  simp [insufficientOk, nonAdaOk, noCollateralOk, hs]

/-- Floor division would be unsound: the witness the old code accepted. -/
theorem floor_division_counterexample :
    let t : Tx := { hasReturnField := false, redeemers := true, fee := 1, pct := 150,
                    maxInputs := 3, ins := [⟨1, none⟩], ret := none }
    (decide (sumCoin t.ins ≥ t.fee * t.pct / 100) = true) ∧ insufficientOk t = false := by
  decide

/-- A partial token return is not a return: two asset names, only one comes back. -/
theorem partial_return_rejected :
    let t : Tx := { hasReturnField := true, redeemers := true, fee := 1, pct := 100,
                    maxInputs := 3, ins := [⟨10, some [(0, 5), (1, 7)]⟩], ret := some ⟨1, some [(0, 5)]⟩ }
    nonAdaOk t = false := by
  decide

/-- Regenerated tie: the four modelled rules are entries of every era's rule list
    as it stands in /repo now (lists re-extracted from the source on every run). -/
theorem rules_listed :
    ∀ l ∈ [GV.Gen.RuleLists.alonzo, GV.Gen.RuleLists.babbage, GV.Gen.RuleLists.conway,
           GV.Gen.RuleLists.dijkstra],
      "UtxoValidateInsufficientCollateral" ∈ l ∧ "UtxoValidateCollateralContainsNonAda" ∈ l ∧
      "UtxoValidateNoCollateralInputs" ∈ l ∧ "UtxoValidateTooManyCollateralInputs" ∈ l := by
  decide

/-- Non-vacuity: a concrete accepted script transaction exists (tokens spread over two
    inputs and fully returned). -/
example : accepted { hasReturnField := true, redeemers := true, fee := 200, pct := 150,
                     maxInputs := 3, ins := [⟨500, some [(0, 7)]⟩, ⟨10, some [(0, 1), (3, 2)]⟩],
                     ret := some ⟨210, some [(3, 2), (0, 8)]⟩ } = true := by decide

end GV.Props.C32
