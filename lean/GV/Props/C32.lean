import GV.Model.Collateral
import GV.Gen.RuleLists
/-!
C32 — Collateral covers the fee share the protocol demands.

For a transaction that runs scripts, validation requires at least one
collateral input, collateral balance × 100 ≥ fee × collateral percentage
(exact), ada-only collateral unless the non-ada part is returned, and no more
collateral inputs than the protocol maximum.
-/
namespace GV.Props.C32
open GV.Model.Collateral

/-- Full statement: an accepted script-running transaction meets all four demands. -/
theorem accepted_sound (t : Tx) (hs : t.redeemers = true) (h : accepted t = true) :
    1 ≤ t.ins.length ∧
    balanceCoin t * 100 ≥ (t.fee : Int) * (t.pct : Int) ∧
    (sumTok t.ins = 0 ∨ (∃ r, t.ret = some r ∧ r.tok = sumTok t.ins)) ∧
    t.ins.length ≤ t.maxInputs := by
  unfold accepted at h
  simp only [Bool.and_eq_true] at h
  obtain ⟨⟨⟨h1, h2⟩, h3⟩, h4⟩ := h
  refine ⟨?_, ?_, ?_, ?_⟩
  · unfold noCollateralOk at h3
    simp [hs] at h3
    cases hi : t.ins with
    | nil => simp [hi] at h3
    | cons a l => simp
  · unfold insufficientOk at h1
    simpa [hs] using h1
  · unfold nonAdaOk at h2
    simp only [hs, Bool.not_true, Bool.false_eq_true, ↓reduceIte] at h2
    by_cases hall : t.ins.all (fun i => i.tok == 0) = true
    · left
      unfold sumTok
      have : ∀ l : List CIn, l.all (fun i => i.tok == 0) = true → (l.map (·.tok)).sum = 0 := by
        intro l; induction l with
        | nil => simp
        | cons a l ih =>
          intro h; simp only [List.all_cons, Bool.and_eq_true, beq_iff_eq] at h
          simp [h.1, ih h.2]
      exact this _ hall
    · right
      simp only [hall, Bool.false_eq_true, ↓reduceIte] at h2
      by_cases hr : t.hasReturnField = true
      · simp only [hr, Bool.not_true, Bool.false_eq_true, ↓reduceIte] at h2
        cases hret : t.ret with
        | none => simp [hret] at h2
        | some r =>
          simp only [hret, beq_iff_eq] at h2
          exact ⟨r, rfl, h2.symm⟩
      · simp [hr] at h2
  · unfold tooManyOk at h4
    simpa using h4

/-- Acceptance by the four rules implies the demand predicate the monitor evaluates
    on the implementation's verdicts (`demanded` is the `spec` column of the driver). -/
theorem accepted_imp_demanded (t : Tx) (hs : t.redeemers = true) :
    accepted t = true → demanded t = true := by
  intro h
  obtain ⟨h1, h2, h3, h4⟩ := accepted_sound t hs h
  unfold demanded
  simp only [Bool.and_eq_true, decide_eq_true_eq, Bool.or_eq_true, beq_iff_eq]
  refine ⟨⟨⟨h1, h2⟩, ?_⟩, h4⟩
  rcases h3 with h3 | ⟨r, hr, hrt⟩
  · left; exact h3
  · right; simp [hr, hrt]

/-- The sufficiency rule is *exactly* the integer inequality: nothing is rounded
    in the transaction's favour, in either direction. -/
theorem insufficient_iff (t : Tx) (hs : t.redeemers = true) :
    insufficientOk t = true ↔ balanceCoin t * 100 ≥ (t.fee : Int) * (t.pct : Int) := by
  unfold insufficientOk; simp [hs]

/-- A transaction without scripts is not subject to any of the three script-only rules. -/
theorem no_scripts_no_demand (t : Tx) (hs : t.redeemers = false) :
    insufficientOk t = true ∧ nonAdaOk t = true ∧ noCollateralOk t = true := by
  simp [insufficientOk, nonAdaOk, noCollateralOk, hs]

/-- Floor division would be unsound: the witness the old code accepted. -/
theorem floor_division_counterexample :
    let t : Tx := { hasReturnField := false, redeemers := true, fee := 1, pct := 150,
                    maxInputs := 3, ins := [⟨1, 0⟩], ret := none }
    (decide (sumCoin t.ins ≥ t.fee * t.pct / 100) = true) ∧ insufficientOk t = false := by
  decide

/-- Regenerated tie: the four modelled rules are entries of every era's rule list
    as it stands in /repo now (lists re-extracted from the source on every run). -/
theorem rules_listed :
    ∀ l ∈ [GV.Gen.RuleLists.alonzo, GV.Gen.RuleLists.babbage, GV.Gen.RuleLists.conway,
           GV.Gen.RuleLists.dijkstra],
      "UtxoValidateInsufficientCollateral" ∈ l ∧ "UtxoValidateCollateralContainsNonAda" ∈ l ∧
      "UtxoValidateNoCollateralInputs" ∈ l ∧ "UtxoValidateTooManyCollateralInputs" ∈ l := by
  decide

/-- Non-vacuity: a concrete accepted script transaction exists. -/
example : accepted { hasReturnField := true, redeemers := true, fee := 200, pct := 150,
                     maxInputs := 3, ins := [⟨500, 7⟩], ret := some ⟨200, 7⟩ } = true := by decide

end GV.Props.C32
