import GV.Model.Header
import GV.Model.HeaderSym
import GV.Gen.HeaderFacts
import GV.Gen.VrfConsts
import GV.Gen.KesConsts
/-!
C40 — Produced headers validate, and tampered ones do not.

A header built by the block builder from a pool's VRF key, KES key and operational
certificate for a slot it leads passes header validation. Changing any signed header field,
the operational certificate or its cold signature, or presenting it at a KES period outside
the certificate's window, makes validation fail.

Theorems are about `GV.Model.Header` (`build` mirrors `BlockBuilder.BuildHeader`, `validate`
mirrors `HeaderValidator.ValidateHeader`) for an arbitrary instance `P` of the primitives;
completeness / ideal-binding laws are hypotheses of the theorems that use them.
-/
namespace GV.Props.C40
open GV.Model.Header

variable {B : Type} [DecidableEq B] (P : Prims B)

/-- how a node presents a built header to the validator: fields and signed bytes from the
    header, context from the chain -/
def present (tp : Bool) (h : Fields B × B) (prevSlot prevBlockNo : Nat) (prevHash : Option B)
    (nonce : B) (pool total : Nat) (reg : Option B) : VIn B :=
  { f := h.1, kesSig := h.2, bodyCbor := P.ser tp h.1, prevSlot := prevSlot,
    prevBlockNo := prevBlockNo, prevHeaderHash := prevHash, nonce := nonce, poolStake := pool,
    totalStake := total, registeredVrfKeyHash := reg }

/-- **validate (build …) = valid.**  Hypotheses: completeness of VRF, KES and Ed25519 and the
    output sizes of the primitives (80-byte proofs, 64-byte outputs, 448-byte KES signatures);
    the operational certificate is the cold key's signature of (hot key, counter, period); the
    chain context is the one the header was built for; the KES signer is at the evolution the
    slot asks for, inside the certificate's window.  All other sizes are enforced by `build`. -/
theorem validate_build
    (hvrf : ∀ sk i, P.vrfVerify (P.vrfPk sk) (P.vrfProve sk i).1 (P.vrfProve sk i).2 i = true)
    (hkes : ∀ sk t m, t < 64 → P.kesVerify (P.kesPk sk) t m (P.kesSign sk t m) = true)
    (hed : ∀ sk m, P.edVerify (P.edPk sk) m (P.edSign sk m) = true)
    (hlp : ∀ sk i, P.len (P.vrfProve sk i).1 = 80) (hlo : ∀ sk i, P.len (P.vrfProve sk i).2 = 64)
    (hls : ∀ sk t m, P.len (P.kesSign sk t m) = 448)
    (b : Builder B) (i : BuildIn B) (c : Cfg) (cold : B) (h : Fields B × B)
    (hb : build P b i = .ok h)
    (hmode : c.tpraos = b.tpraos)
    (hoc : b.issuer = P.edPk cold ∧ b.ocSig = P.edSign cold (P.signable b.ocHot b.ocSeq b.ocPeriod))
    (prevSlot prevBlockNo : Nat)
    (hslot : prevSlot < i.slot) (hbn : i.blockNo = (prevBlockNo + 1) % 2 ^ 64)
    (hspk : c.slotsPerKESPeriod ≠ 0)
    (hcur : i.slot / c.slotsPerKESPeriod = b.ocPeriod + b.kesT)
    (hwin : b.kesT < c.maxKESEvolutions) (ht : b.kesT < 64) :
    validate P c (present P b.tpraos h prevSlot prevBlockNo (some i.prevHash) i.nonce
      i.poolStake i.totalStake none) = [] := by
  by_cases hsz : sizesOk P b i = true
  · by_cases hk' : P.kesPk b.kesSk = b.ocHot
    · by_cases ht0 : i.totalStake = 0
      · simp [build, hsz, hk', ht0] at hb
      · by_cases hp0 : i.poolStake = 0
        · simp [build, hsz, hk', hp0] at hb
        · cases hbelow' : P.below (P.vrfProve b.vrfSk (P.mkInput b.tpraos i.slot i.nonce false)).2
              i.poolStake i.totalStake b.tpraos with
          | false => simp [build, hsz, hk', hbelow'] at hb
          | true =>
            simp only [build, hsz, hk', ne_eq, not_true_eq_false, if_false, ht0, hp0, hbelow',
              Bool.not_true, Bool.false_eq_true, or_self, Except.ok.injEq] at hb
            subst hb
            simp only [sizesOk, Bool.and_eq_true, beq_iff_eq] at hsz
            obtain ⟨⟨⟨⟨⟨⟨⟨z1, z2⟩, z3⟩, z4⟩, z5⟩, z6⟩, z7⟩, z8⟩ := hsz
            have hsub : b.ocPeriod + b.kesT - b.ocPeriod = b.kesT := by omega
            have hge : ¬ (b.ocPeriod + b.kesT < b.ocPeriod) := by omega
            have hw : ¬ (b.kesT ≥ c.maxKESEvolutions) := by omega
            have hs : ¬ (i.slot ≤ prevSlot) := by omega
            have z1' : P.len (P.edPk cold) = 32 := by rw [← hoc.1]; exact z1
            have z7' : P.len (P.edSign cold (P.signable (P.kesPk b.kesSk) b.ocSeq b.ocPeriod)) = 64 := by
              rw [hk', ← hoc.2]; exact z7
            cases htp : b.tpraos <;>
              simp [validate, present, chkSlot, chkBlockNo, chkPrevHash, chkVrf, chkLeader, chkNonceVrf,
                chkKesPeriod, chkKesSig, chkOpCert, chkVrfReg, vrfOk, hmode, htp, hvrf, hs, hbn, hspk,
                hcur, hsub, hge, hw, ht0, ← hk', hkes _ _ _ ht, hoc.1, hoc.2, hed, hlp, hlo, hls,
                z1', z3, z5, z7', z8] <;>
              (rw [htp] at hbelow'; simp [hbelow'])
    · simp [build, hsz, hk'] at hb
  · simp [build, hsz] at hb

/-- **KES window**: at a KES period outside `[start, start + max)` the header is invalid,
    whatever the signatures are. -/
theorem kes_window (c : Cfg) (v : VIn B)
    (h : c.slotsPerKESPeriod = 0 ∨ v.f.slot / c.slotsPerKESPeriod < v.f.ocPeriod ∨
         v.f.slot / c.slotsPerKESPeriod - v.f.ocPeriod ≥ c.maxKESEvolutions) :
    valid P c v = false := by
  have : chkKesPeriod c v ≠ [] := by
    unfold chkKesPeriod
    rcases h with h | h | h
    · simp [h]
    · by_cases h0 : c.slotsPerKESPeriod = 0 <;> simp [h0, h]
    · by_cases h0 : c.slotsPerKESPeriod = 0
      · simp [h0]
      · by_cases h1 : v.f.slot / c.slotsPerKESPeriod < v.f.ocPeriod <;> simp [h0, h1, h]
  unfold valid validate
  cases hk : chkKesPeriod c v with
  | nil => exact absurd hk this
  | cons e es => simp [hk]

theorem valid_kesSig (c : Cfg) (v : VIn B) (h : valid P c v = true) :
    c.slotsPerKESPeriod ≠ 0 ∧ v.f.ocPeriod ≤ v.f.slot / c.slotsPerKESPeriod ∧
    P.kesVerify v.f.ocHot (v.f.slot / c.slotsPerKESPeriod - v.f.ocPeriod) v.bodyCbor v.kesSig = true := by
  unfold valid validate at h
  simp only [List.isEmpty_iff, List.append_eq_nil_iff] at h
  have hk := h.1.1.2
  unfold chkKesSig at hk
  by_cases h0 : c.slotsPerKESPeriod = 0
  · simp [h0] at hk
  · by_cases ha : P.len v.kesSig = 448
    · by_cases hb : P.len v.f.ocHot = 32
      · by_cases h1 : v.f.slot / c.slotsPerKESPeriod < v.f.ocPeriod
        · simp [h0, ha, hb, h1] at hk
        · refine ⟨h0, by omega, ?_⟩
          cases hv : P.kesVerify v.f.ocHot (v.f.slot / c.slotsPerKESPeriod - v.f.ocPeriod) v.bodyCbor v.kesSig with
          | true => rfl
          | false => simp [h0, ha, hb, h1, hv] at hk
      · simp [h0, ha, hb] at hk
    · simp [h0, ha] at hk

theorem valid_opCert (c : Cfg) (v : VIn B) (h : valid P c v = true) :
    P.edVerify v.f.issuer (P.signable v.f.ocHot v.f.ocSeq v.f.ocPeriod) v.f.ocSig = true := by
  unfold valid validate at h
  simp only [List.isEmpty_iff, List.append_eq_nil_iff] at h
  have hk := h.1.2
  unfold chkOpCert at hk
  cases hv : P.edVerify v.f.issuer (P.signable v.f.ocHot v.f.ocSeq v.f.ocPeriod) v.f.ocSig with
  | true => rfl
  | false => simp [hv] at hk

/-- sizes: a valid header has a 448-byte KES signature, 32-byte hot and issuer keys and a
    64-byte cold signature -/
theorem valid_sizes (c : Cfg) (v : VIn B) (h : valid P c v = true) :
    P.len v.kesSig = 448 ∧ P.len v.f.ocHot = 32 ∧ P.len v.f.issuer = 32 ∧ P.len v.f.ocSig = 64 := by
  unfold valid validate at h
  simp only [List.isEmpty_iff, List.append_eq_nil_iff] at h
  have hk := h.1.1.2
  have ho := h.1.2
  unfold chkKesSig at hk
  unfold chkOpCert at ho
  refine ⟨?_, ?_, ?_, ?_⟩
  · by_cases h0 : c.slotsPerKESPeriod = 0
    · simp [h0] at hk
    · by_cases ha : P.len v.kesSig = 448
      · exact ha
      · simp [h0, ha] at hk
  · by_cases h0 : c.slotsPerKESPeriod = 0
    · simp [h0] at hk
    · by_cases ha : P.len v.kesSig = 448
      · by_cases hb : P.len v.f.ocHot = 32
        · exact hb
        · simp [h0, ha, hb] at hk
      · simp [h0, ha] at hk
  · by_cases hi : P.len v.f.issuer = 32
    · exact hi
    · simp [hi] at ho
  · by_cases hi : P.len v.f.ocSig = 64
    · exact hi
    · simp [hi] at ho

/-! ### block level (`ledger.VerifyBlock`) -/

/-- **A block assembled around a built header verifies**: given completeness of VRF and KES, the
    KES signer at the evolution the slot asks for, and body segments that hash to the body hash
    the builder was given. -/
theorem verifyBlock_build
    (hvrf : ∀ sk i, P.vrfVerify (P.vrfPk sk) (P.vrfProve sk i).1 (P.vrfProve sk i).2 i = true)
    (hkes : ∀ sk t m, t < 64 → P.kesVerify (P.kesPk sk) t m (P.kesSign sk t m) = true)
    (hls : ∀ sk t m, P.len (P.kesSign sk t m) = 448)
    (b : Builder B) (i : BuildIn B) (h : Fields B × B) (hb : build P b i = .ok h)
    (spk : Nat) (hspk : spk ≠ 0) (hcur : i.slot / spk = b.ocPeriod + b.kesT) (ht : b.kesT < 64) :
    verifyBlock P (present P b.tpraos h 0 0 none i.nonce i.poolStake i.totalStake none)
      b.tpraos spk i.bodyHash = .ok () := by
  by_cases hsz : sizesOk P b i = true
  · by_cases hk' : P.kesPk b.kesSk = b.ocHot
    · by_cases ht0 : i.totalStake = 0
      · simp [build, hsz, hk', ht0] at hb
      · by_cases hp0 : i.poolStake = 0
        · simp [build, hsz, hk', hp0] at hb
        · cases hbelow' : P.below (P.vrfProve b.vrfSk (P.mkInput b.tpraos i.slot i.nonce false)).2
              i.poolStake i.totalStake b.tpraos with
          | false => simp [build, hsz, hk', hbelow'] at hb
          | true =>
            simp only [build, hsz, hk', ne_eq, not_true_eq_false, if_false, ht0, hp0, hbelow',
              Bool.not_true, Bool.false_eq_true, or_self, Except.ok.injEq] at hb
            subst hb
            have hsub : b.ocPeriod + b.kesT - b.ocPeriod = b.kesT := by omega
            have hge : ¬ (b.ocPeriod + b.kesT < b.ocPeriod) := by omega
            simp [verifyBlock, ledgerKes, present, hvrf, hspk, hls, hcur, hsub, hge, ← hk',
              hkes _ _ _ ht]
    · simp [build, hsz, hk'] at hb
  · simp [build, hsz] at hb

/-- what an accepted block guarantees: the leader VRF verifies for the header's slot, the KES
    signature verifies over the header-body bytes in the block at the evolution of the slot, and
    the body segments in the block hash to the header's body hash. -/
theorem verifyBlock_sound (v : VIn B) (tp : Bool) (spk : Nat) (segHash : B)
    (h : verifyBlock P v tp spk segHash = .ok ()) :
    P.vrfVerify v.f.vrfKey v.f.vrfProof v.f.vrfOut (P.mkInput tp v.f.slot v.nonce false) = true ∧
    spk ≠ 0 ∧ v.f.ocPeriod ≤ v.f.slot / spk ∧
    P.kesVerify v.f.ocHot (v.f.slot / spk - v.f.ocPeriod) v.bodyCbor v.kesSig = true ∧
    v.f.bodyHash = segHash := by
  unfold verifyBlock at h
  cases hv : P.vrfVerify v.f.vrfKey v.f.vrfProof v.f.vrfOut (P.mkInput tp v.f.slot v.nonce false) with
  | false => simp [hv] at h
  | true =>
    simp only [hv, Bool.not_true, Bool.false_eq_true, if_false] at h
    unfold ledgerKes at h
    by_cases h0 : spk = 0
    · simp [h0] at h
    · by_cases ha : P.len v.kesSig = 448
      · by_cases h1 : v.f.slot / spk < v.f.ocPeriod
        · simp [h0, ha, h1] at h
        · cases hk : P.kesVerify v.f.ocHot (v.f.slot / spk - v.f.ocPeriod) v.bodyCbor v.kesSig with
          | false => simp [h0, ha, h1, hk] at h
          | true =>
            by_cases hbh : v.f.bodyHash = segHash
            · exact ⟨rfl, h0, by omega, rfl, hbh⟩
            · simp [h0, ha, h1, hk, hbh] at h
      · simp [h0, ha] at h

/-- **Body-hash binding through the KES-signed header** (symbolic: ideal KES, injective
    serialisation): a block that keeps the builder's KES signature and is accepted carries the
    builder's header fields, hence its body segments hash to the body hash the builder signed —
    a changed body (other bytes, even with the same content) is rejected. -/
theorem body_bound_through_kes
    (hbind : ∀ vk t m σ, P.kesVerify vk t m σ = true → ∃ sk, vk = P.kesPk sk ∧ σ = P.kesSign sk t m)
    (hsinj : ∀ sk t m sk' t' m', P.kesSign sk t m = P.kesSign sk' t' m' → sk = sk' ∧ t = t' ∧ m = m')
    (hser : ∀ tp f f', P.ser tp f = P.ser tp f' → f = f')
    (v : VIn B) (tp : Bool) (spk : Nat) (segHash : B) (f0 : Fields B) (sk : B) (t : Nat)
    (hsig : v.kesSig = P.kesSign sk t (P.ser tp f0)) (hbody : v.bodyCbor = P.ser tp v.f)
    (h : verifyBlock P v tp spk segHash = .ok ()) :
    v.f = f0 ∧ segHash = f0.bodyHash := by
  obtain ⟨_, _, _, hk, hbh⟩ := verifyBlock_sound P v tp spk segHash h
  obtain ⟨sk', _, hσ⟩ := hbind _ _ _ _ hk
  rw [hsig, hbody] at hσ
  have hf := (hser _ _ _ (hsinj _ _ _ _ _ _ hσ).2.2).symm
  exact ⟨hf, by rw [← hbh, hf]⟩

/-- **Tampering with any signed field fails** (symbolic: ideal KES — only genuine signatures
    verify and they bind key, evolution and message — and an injective serialisation).  The
    header keeps the builder's KES signature but its body, as decoded by the node, differs in
    some field — block number, slot, previous hash, issuer, VRF key/proof/output, body size/hash,
    operational certificate fields or cold signature, protocol version: validation fails. -/
theorem tamper_signed_field_fails
    (hbind : ∀ vk t m σ, P.kesVerify vk t m σ = true → ∃ sk, vk = P.kesPk sk ∧ σ = P.kesSign sk t m)
    (hsinj : ∀ sk t m sk' t' m', P.kesSign sk t m = P.kesSign sk' t' m' → sk = sk' ∧ t = t' ∧ m = m')
    (hser : ∀ tp f f', P.ser tp f = P.ser tp f' → f = f')
    (c : Cfg) (v : VIn B) (f0 : Fields B) (sk : B) (t : Nat)
    (hsig : v.kesSig = P.kesSign sk t (P.ser c.tpraos f0))
    (hbody : v.bodyCbor = P.ser c.tpraos v.f)
    (hne : v.f ≠ f0) : valid P c v = false := by
  cases hv : valid P c v with
  | false => rfl
  | true =>
    exfalso
    obtain ⟨_, _, hk⟩ := valid_kesSig P c v hv
    obtain ⟨sk', _, hσ⟩ := hbind _ _ _ _ hk
    rw [hsig, hbody] at hσ
    have := (hsinj _ _ _ _ _ _ hσ).2.2
    exact hne (hser _ _ _ this).symm

/-- **Tampering with the KES signature fails** (ideal KES): any other signature over the genuine
    body is rejected, as is the genuine signature presented at another evolution. -/
theorem tamper_kes_sig_fails
    (hbind : ∀ vk t m σ, P.kesVerify vk t m σ = true → ∃ sk, vk = P.kesPk sk ∧ σ = P.kesSign sk t m)
    (hpk : ∀ a b, P.kesPk a = P.kesPk b → a = b)
    (c : Cfg) (v : VIn B) (sk : B) (hhot : v.f.ocHot = P.kesPk sk)
    (hne : v.kesSig ≠ P.kesSign sk (v.f.slot / c.slotsPerKESPeriod - v.f.ocPeriod) v.bodyCbor) :
    valid P c v = false := by
  cases hv : valid P c v with
  | false => rfl
  | true =>
    exfalso
    obtain ⟨_, _, hk⟩ := valid_kesSig P c v hv
    obtain ⟨sk', hvk, hσ⟩ := hbind _ _ _ _ hk
    rw [hhot] at hvk
    have := hpk _ _ hvk
    subst this
    exact hne hσ

/-- **The operational certificate binds the hot key** (ideal Ed25519, injective signable bytes):
    a valid header whose cold signature is the cold key's signature over (hot, counter, period)
    carries exactly that hot key, counter and period — substituting one's own KES key, or
    replaying the certificate with another counter/period, fails. -/
theorem opcert_binds
    (hbind : ∀ pk m σ, P.edVerify pk m σ = true → ∃ sk, pk = P.edPk sk ∧ σ = P.edSign sk m)
    (hsinj : ∀ sk m sk' m', P.edSign sk m = P.edSign sk' m' → sk = sk' ∧ m = m')
    (hsg : ∀ a s p a' s' p', P.signable a s p = P.signable a' s' p' → a = a' ∧ s = s' ∧ p = p')
    (c : Cfg) (v : VIn B) (cold hot : B) (seq per : Nat)
    (hsig : v.f.ocSig = P.edSign cold (P.signable hot seq per))
    (hv : valid P c v = true) :
    v.f.ocHot = hot ∧ v.f.ocSeq = seq ∧ v.f.ocPeriod = per := by
  have h := valid_opCert P c v hv
  obtain ⟨sk, _, hσ⟩ := hbind _ _ _ h
  rw [hsig] at hσ
  have := (hsinj _ _ _ _ hσ).2
  obtain ⟨a, b, d⟩ := hsg _ _ _ _ _ _ this
  exact ⟨a.symm, b.symm, d.symm⟩

/-! ### regenerated source facts

The order of the ten checks of `ValidateHeader`, the comparisons of the window / ordering checks,
every byte-length comparison of validator and builder and the size constants are read off
consensus/validate.go, consensus/block.go, ledger/verify_kes.go, vrf and kes on every run
(extract/facts_g8.go); the model was written against exactly these. -/
theorem source_facts :
    GV.Gen.HeaderFacts.checks =
      ["validateSlotOrdering", "validateBlockNumber", "validatePrevHash", "validateVRFProof",
       "validateLeadership", "validateNonceVRFProof", "validateKESPeriod", "validateKESSignature",
       "validateOpCertSignature", "validateVRFKeyRegistration"] ∧
    GV.Gen.HeaderFacts.kesPeriodConds =
      ["v.slotsPerKESPeriod == 0", "currentKESPeriod < opCertKESPeriod",
       "evolutionPeriod >= v.maxKESEvolutions"] ∧
    GV.Gen.HeaderFacts.slotConds = ["input.Slot <= input.PrevSlot"] ∧
    GV.Gen.HeaderFacts.blockNoConds = ["input.BlockNumber != expectedBlockNumber"] ∧
    GV.Gen.HeaderFacts.prevHashConds =
      ["input.BlockNumber > 0 && len(input.PrevHeaderHash) == 0",
       "len(input.PrevHeaderHash) > 0 && !bytes.Equal(input.PrevHash, input.PrevHeaderHash)"] ∧
    GV.Gen.HeaderFacts.kesComponentsConds =
      ["slotsPerKesPeriod == 0", "len(signature) != kes.CardanoKesSignatureSize",
       "currentKesPeriod < kesPeriod"] ∧
    GV.Gen.HeaderFacts.verifyCertifiedVRF_lens =
      [("epochNonce", "!=", "32"), ("vrfKey", "!=", "vrf.PublicKeySize"),
       ("proof", "!=", "vrf.ProofSize"), ("output", "!=", "vrf.OutputSize")] ∧
    GV.Gen.HeaderFacts.validateKESSignature_lens =
      [("input.HeaderBodyCbor", "==", "0"), ("input.KesSignature", "!=", "kes.CardanoKesSignatureSize"),
       ("input.OpCertHotVkey", "!=", "kes.PublicKeySize")] ∧
    GV.Gen.HeaderFacts.validateOpCertSignature_lens =
      [("input.IssuerVkey", "==", "0"), ("input.IssuerVkey", "!=", "ed25519.PublicKeySize"),
       ("input.OpCertSignature", "!=", "ed25519.SignatureSize")] ∧
    GV.Gen.HeaderFacts.validateVRFKeyRegistration_lens =
      [("input.RegisteredVrfKeyHash", "==", "0"), ("input.VrfKey", "!=", "vrf.PublicKeySize")] ∧
    GV.Gen.HeaderFacts.buildHeader_lens =
      [("input.PrevHash", "==", "0"), ("input.EpochNonce", "==", "0"), ("input.BlockBodyHash", "==", "0"),
       ("b.issuerVkey", "!=", "32"), ("input.PrevHash", "!=", "32"), ("input.EpochNonce", "!=", "32"),
       ("input.BlockBodyHash", "!=", "32"), ("vrfPubKey", "!=", "vrf.PublicKeySize"),
       ("b.opCert.HotVkey", "!=", "32"), ("b.opCert.Signature", "!=", "64"), ("kesPublicKey", "!=", "32"),
       ("nonceVrfProof", "!=", "vrf.ProofSize"), ("nonceVrfOutput", "!=", "vrf.OutputSize")] ∧
    GV.Gen.VrfConsts.proofSize = 80 ∧ GV.Gen.VrfConsts.outputSize = 64 ∧
    GV.Gen.VrfConsts.publicKeySize = 32 ∧ GV.Gen.KesConsts.cardanoKesSignatureSize = 448 ∧
    GV.Gen.KesConsts.publicKeySize = 32 := by
  decide

/-- Regenerated era switches: `ledger.ExtractKesFields` returns (signature, hot key, certificate
    KES PERIOD) for every header type — the TPraos family from the flat fields, the Praos family
    from the nested certificate — and `ledger.VerifyBlock` takes the leader VRF of every type from
    the same place.  The model is era-independent because of exactly this; a slip in one case of
    the switch (e.g. the issue counter instead of the period for one era) breaks this obligation. -/
theorem era_switch_facts :
    GV.Gen.HeaderFacts.extractKesFields =
      [("*shelley.ShelleyBlockHeader", "return h.Signature, h.Body.OpCertHotVkey, uint64(h.Body.OpCertKesPeriod), nil"),
       ("*allegra.AllegraBlockHeader", "return h.Signature, h.Body.OpCertHotVkey, uint64(h.Body.OpCertKesPeriod), nil"),
       ("*mary.MaryBlockHeader", "return h.Signature, h.Body.OpCertHotVkey, uint64(h.Body.OpCertKesPeriod), nil"),
       ("*alonzo.AlonzoBlockHeader", "return h.Signature, h.Body.OpCertHotVkey, uint64(h.Body.OpCertKesPeriod), nil"),
       ("*babbage.BabbageBlockHeader", "return h.Signature, h.Body.OpCert.HotVkey, uint64(h.Body.OpCert.KesPeriod), nil"),
       ("*conway.ConwayBlockHeader", "return h.Signature, h.Body.OpCert.HotVkey, uint64(h.Body.OpCert.KesPeriod), nil"),
       ("*dijkstra.DijkstraBlockHeader", "return h.Signature, h.Body.OpCert.HotVkey, uint64(h.Body.OpCert.KesPeriod), nil"),
       ("default", "...")] ∧
    GV.Gen.HeaderFacts.verifyBlockVrfSwitch =
      [("*shelley.ShelleyBlockHeader", "vrfResult = h.Body.LeaderVrf; vrfKey = h.Body.VrfKey; isTPraos = true"),
       ("*allegra.AllegraBlockHeader", "vrfResult = h.Body.LeaderVrf; vrfKey = h.Body.VrfKey; isTPraos = true"),
       ("*mary.MaryBlockHeader", "vrfResult = h.Body.LeaderVrf; vrfKey = h.Body.VrfKey; isTPraos = true"),
       ("*alonzo.AlonzoBlockHeader", "vrfResult = h.Body.LeaderVrf; vrfKey = h.Body.VrfKey; isTPraos = true"),
       ("*babbage.BabbageBlockHeader", "vrfResult = h.Body.VrfResult; vrfKey = h.Body.VrfKey"),
       ("*conway.ConwayBlockHeader", "vrfResult = h.Body.VrfResult; vrfKey = h.Body.VrfKey"),
       ("*dijkstra.DijkstraBlockHeader", "vrfResult = h.Body.VrfResult; vrfKey = h.Body.VrfKey"),
       ("default", "...")] := by
  decide

/-! ### non-vacuity on the symbolic instance -/
open GV.Model.HeaderSym

def exBuilder : Builder T :=
  { tpraos := false, vrfSk := T.atom 10, kesSk := T.atom 20, kesT := 3, ocHot := T.kpk 20,
    ocSeq := 4, ocPeriod := 100, ocSig := T.esg 30 (T.signable (T.kpk 20) 4 100), issuer := T.epk 30 }
def exIn : BuildIn T :=
  { slot := 103 * 129600 + 5, blockNo := 8, prevHash := T.atom 1, nonce := T.atom 7,
    poolStake := 10, totalStake := 10, bodyHash := T.atom 3, bodySize := 1, protoMajor := 9,
    protoMinor := 0 }
def exP : Prims T := sym true (T.vout 10 (T.inp false (103 * 129600 + 5) 7 false)) none

example : ∃ h, build exP exBuilder exIn = .ok h ∧
    validate exP ⟨false, 129600, 62⟩
      (present exP false h (103 * 129600) 7 (some (T.atom 1)) (T.atom 7) 10 10 none) = [] := by
  refine ⟨_, rfl, ?_⟩
  decide

example : ∀ sk i, exP.vrfVerify (exP.vrfPk sk) (exP.vrfProve sk i).1 (exP.vrfProve sk i).2 i = true := by
  intro sk i; simp [exP, sym]
example : ∀ sk t m, t < 64 → exP.kesVerify (exP.kesPk sk) t m (exP.kesSign sk t m) = true := by
  intro sk t m h; simp [exP, sym, h]
example : ∀ vk t m σ, exP.kesVerify vk t m σ = true →
    ∃ sk, vk = exP.kesPk (T.atom sk) ∧ σ = exP.kesSign (T.atom sk) t m := by
  intro vk t m σ h
  cases vk with
  | kpk s =>
    cases σ with
    | ksg s' t' m' =>
      simp [exP, sym, skOf] at h ⊢
      obtain ⟨⟨⟨h1, h2⟩, h3⟩, _⟩ := h
      exact ⟨h1.symm, h2.symm, h3.symm⟩
    | _ => simp [exP, sym] at h
  | _ => simp [exP, sym] at h

end GV.Props.C40
