import GV.Model.Vrf
import GV.Gen.VrfFacts
import GV.Gen.VrfConsts
/-!
C38 — VRF proofs verify exactly when they are genuine.

For every key seed and message, a proof produced by the prover verifies under the matching
public key and yields the same output that proving returned. Changing any bit of the proof,
the message or the public key makes verification fail, as do a non-canonical response scalar
and a small-order public key.

Level: **partial**.  Completeness, output consistency and the two guards are theorems about the
model over an abstract group (module laws as hypotheses).  "Any flipped bit fails" is a
computational-soundness claim about SHA-512/Elligator2/edwards25519 encodings with no statement
in this model; the exhaustive flips run by the check are tests and are labelled as tests.
-/
namespace GV.Props.C38
open GV.Model.Vrf

variable {G S Sk Msg Out : Type} (P : Prims G S Sk Msg Out)

/-- the module laws of the group used by the completeness proof -/
structure Laws : Prop where
  add_smul : ∀ a b X, P.smul (P.sadd a b) X = P.add (P.smul a X) (P.smul b X)
  mul_smul : ∀ a b X, P.smul (P.smulS a b) X = P.smul a (P.smul b X)
  add_neg_cancel : ∀ X Z, P.add (P.add X Z) (P.neg Z) = X

/-- `s·X − c·(x·X) = k·X` for `s = k + c·x`: the recomputed commitments are the prover's. -/
theorem recompute (hL : Laws P) (k c x : S) (X : G) :
    sub P (P.smul (P.sadd k (P.smulS c x)) X) (P.smul c (P.smul x X)) = P.smul k X := by
  unfold sub
  rw [hL.add_smul, hL.mul_smul, hL.add_neg_cancel]

/-- **Completeness and output consistency**: for every secret key and message the produced proof
    verifies under the matching public key and `VerifyAndHash` returns exactly the output `Prove`
    returned (given the module laws and a public key that is not of small order). -/
theorem verify_prove [DecidableEq S] (hL : Laws P) (sk : Sk) (alpha : Msg)
    (hso : P.smallOrder (pkOf P sk) = false) :
    verifyAndHash P (pkOf P sk) (prove P sk alpha).1 alpha = .ok (prove P sk alpha).2 := by
  unfold verifyAndHash verifyCore prove pkOf at *
  simp only [hso, Bool.false_eq_true, if_false, Bool.not_true]
  rw [recompute P hL, recompute P hL]
  simp

/-- guard: a response scalar that `SetCanonicalBytes` refuses is rejected, whatever the rest -/
theorem noncanonical_s_rejected [DecidableEq S] (Y : G) (pi : Proof G S) (alpha : Msg)
    (hs : pi.sCanonical = false) : ∃ e, verifyAndHash P Y pi alpha = .error e := by
  unfold verifyAndHash verifyCore
  by_cases h : P.smallOrder Y = true
  · exact ⟨.smallOrder, by simp [h]⟩
  · exact ⟨.nonCanonicalS, by simp [h, hs]⟩

/-- guard: a small-order public key is rejected before anything else -/
theorem small_order_pk_rejected [DecidableEq S] (Y : G) (pi : Proof G S) (alpha : Msg)
    (h : P.smallOrder Y = true) : verifyAndHash P Y pi alpha = .error .smallOrder := by
  simp [verifyAndHash, h]

/-- whatever is accepted returns the output hash of the proof's own Gamma -/
theorem accepted_output [DecidableEq S] (Y : G) (pi : Proof G S) (alpha : Msg) (o : Out)
    (h : verifyAndHash P Y pi alpha = .ok o) : o = P.outHash pi.gamma := by
  unfold verifyAndHash at h
  split at h
  · simp at h
  · split at h <;> simp at h
    exact h.symm

/-- **Any nonce gives an accepted proof with the same output**: the proof
    `(x·H, c = hashPoints(H, x·H, k'·B, k'·H), k' + c·x)` verifies for *every* scalar `k'`, and its
    output is the prover's.  So accepted proofs are not unique as byte strings (the holder of the
    secret key can make others); what the scheme promises is uniqueness of the *output*. -/
theorem verify_any_nonce [DecidableEq S] (hL : Laws P) (sk : Sk) (alpha : Msg) (k' : S)
    (hso : P.smallOrder (pkOf P sk) = false) :
    let x := P.scalarOf sk
    let H := P.h2c (pkOf P sk) alpha
    let c := P.hashPoints H (P.smul x H) (P.smul k' P.base) (P.smul k' H)
    verifyAndHash P (pkOf P sk) { gamma := P.smul x H, c := c, s := P.sadd k' (P.smulS c x) } alpha
      = .ok (prove P sk alpha).2 := by
  intro x H c
  unfold verifyAndHash verifyCore prove pkOf at *
  simp only [hso, Bool.false_eq_true, if_false, Bool.not_true]
  have e1 := recompute P hL k' c x P.base
  have e2 := recompute P hL k' c x H
  simp only [x, H, c, pkOf] at e1 e2 ⊢
  rw [e1, e2]
  simp

/-- the traced values are the ones the verdict is computed from (what the oracle tie compares) -/
theorem verifyCore_trace [DecidableEq S] (Y : G) (pi : Proof G S) (alpha : Msg) :
    verifyCore P Y pi alpha =
      if !pi.sCanonical then .error .nonCanonicalS
      else .ok (pi.c == (verifyTrace P Y pi alpha).c') := rfl

theorem prove_trace (sk : Sk) (alpha : Msg) :
    (prove P sk alpha).1 = { gamma := (proveTrace P sk alpha).gamma, c := (proveTrace P sk alpha).c,
                             s := (proveTrace P sk alpha).s } ∧
    (prove P sk alpha).2 = P.outHash (proveTrace P sk alpha).gamma := ⟨rfl, rfl⟩

/-- for a genuine proof the verifier recomputes exactly the prover's commitments U = k·B, V = k·H -/
theorem verify_recomputes_commitments (hL : Laws P) (sk : Sk) (alpha : Msg) :
    (verifyTrace P (pkOf P sk) (prove P sk alpha).1 alpha).u = (proveTrace P sk alpha).u ∧
    (verifyTrace P (pkOf P sk) (prove P sk alpha).1 alpha).v = (proveTrace P sk alpha).v ∧
    (verifyTrace P (pkOf P sk) (prove P sk alpha).1 alpha).c' = (proveTrace P sk alpha).c := by
  unfold verifyTrace proveTrace prove pkOf
  simp only
  rw [recompute P hL, recompute P hL]
  exact ⟨rfl, rfl, rfl⟩

/-- The full statement (kept, not proved): besides completeness, every accepted proof carries the
    genuine `Gamma = x·H`, hence the genuine output ("full uniqueness" of the VRF) — so no
    change of proof, message or key can yield an accepted different output.  Not derivable from the
    module laws: it is the soundness of the scheme (discrete-log independence of B and H, random
    oracle `hashPoints`).  Byte-level "any flipped bit fails" is weaker-and-stronger than this
    (see `verify_any_nonce`: other valid proofs exist) and is only tested. -/
def C38_full [DecidableEq S] : Prop :=
  ∀ sk alpha, P.smallOrder (pkOf P sk) = false →
    verifyAndHash P (pkOf P sk) (prove P sk alpha).1 alpha = .ok (prove P sk alpha).2 ∧
    ∀ pi o, verifyAndHash P (pkOf P sk) pi alpha = .ok o → o = (prove P sk alpha).2

/-- what is proved of it -/
theorem C38_partial [DecidableEq S] (hL : Laws P) :
    ∀ sk alpha, P.smallOrder (pkOf P sk) = false →
      verifyAndHash P (pkOf P sk) (prove P sk alpha).1 alpha = .ok (prove P sk alpha).2 :=
  fun sk alpha h => verify_prove P hL sk alpha h

/-- Regenerated source facts: the order of the guards of `VerifyAndHash` (key decoding, small
    order, core verification, hash), the helper calls of `verify` and `Prove`, the proof-length
    check and the size constants as they stand in vrf/vrf.go on this run. -/
theorem source_facts :
    GV.Gen.VrfFacts.verifyAndHashConds = ["err != nil", "isSmallOrder", "err != nil", "!ok"] ∧
    GV.Gen.VrfFacts.verifyConds = ["err != nil", "err != nil", "err != nil"] ∧
    GV.Gen.VrfFacts.verifyCalls = ["decodeProofArrays", "hashToCurveElligator2", "hashPoints"] ∧
    GV.Gen.VrfFacts.proveCalls = ["hashToCurveElligator2", "hashPoints", "ProofToHash"] ∧
    GV.Gen.VrfFacts.decodeConds = ["len(pi) != ProofSize", "err != nil"] ∧
    GV.Gen.VrfConsts.proofSize = 80 ∧ GV.Gen.VrfConsts.outputSize = 64 ∧
    GV.Gen.VrfConsts.publicKeySize = 32 ∧ GV.Gen.VrfConsts.seedSize = 32 ∧ GV.Gen.VrfConsts.suite = 4 := by
  decide

/-! ### non-vacuity: the integers as a (toy) module over themselves -/
def toy : Prims Int Int Int Int Int :=
  { add := (· + ·), neg := (- ·), smul := (· * ·), base := 1, sadd := (· + ·), smulS := (· * ·),
    scalarOf := fun sk => 2 * sk + 1, h2c := fun y m => y + m + 5, nonce := fun sk h => sk + 3 * h,
    hashPoints := fun a b c d => a + 2 * b + 3 * c + 5 * d, outHash := fun g => 7 * g,
    smallOrder := fun y => y == 0 }

example : Laws toy where
  add_smul := by intro a b X; simp [toy, Int.add_mul]
  mul_smul := by intro a b X; simp [toy, Int.mul_assoc]
  add_neg_cancel := by intro X Z; simp [toy]; omega

example : (match verifyAndHash toy (pkOf toy 4) (prove toy 4 11).1 11 with
    | .ok o => o == (prove toy 4 11).2 | .error _ => false) = true := by decide

end GV.Props.C38
