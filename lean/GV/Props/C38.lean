import GV.Model.Vrf
import GV.Model.VrfSym
import GV.Gen.VrfFacts
import GV.Gen.VrfConsts
/-!
C38 — VRF proofs verify exactly when they are genuine.

For every key seed and message, a proof produced by the prover verifies under the matching
public key and yields the same output that proving returned. Changing any bit of the proof,
the message or the public key makes verification fail, as do a non-canonical response scalar
and a small-order public key.

Level: **partial**.  Completeness, output consistency and the two guards are theorems about the
model over an abstract group (module laws as hypotheses).  "Any flipped bit fails" is a
computational-soundness claim about SHA-512/Elligator2/edwards25519 encodings with no statement
in this model; the exhaustive flips run by the check are tests and are labelled as tests.
-/
namespace GV.Props.C38
open GV.Model.Vrf

variable {G S Sk Msg Out : Type} (P : Prims G S Sk Msg Out)

/-- the module laws of the group used by the completeness proof -/
structure Laws : Prop where
  add_smul : ∀ a b X, P.smul (P.sadd a b) X = P.add (P.smul a X) (P.smul b X)
  mul_smul : ∀ a b X, P.smul (P.smulS a b) X = P.smul a (P.smul b X)
  add_neg_cancel : ∀ X Z, P.add (P.add X Z) (P.neg Z) = X

/-- `s·X − c·(x·X) = k·X` for `s = k + c·x`: the recomputed commitments are the prover's. -/
theorem recompute (hL : Laws P) (k c x : S) (X : G) :
    sub P (P.smul (P.sadd k (P.smulS c x)) X) (P.smul c (P.smul x X)) = P.smul k X := by
  unfold sub
  rw [hL.add_smul, hL.mul_smul, hL.add_neg_cancel]

/-- **Completeness and output consistency**: for every secret key and message the produced proof
    verifies under the matching public key and `VerifyAndHash` returns exactly the output `Prove`
    returned (given the module laws and a public key that is not of small order). -/
theorem verify_prove [DecidableEq S] (hL : Laws P) (sk : Sk) (alpha : Msg)
    (hso : P.smallOrder (pkOf P sk) = false) :
    verifyAndHash P (pkOf P sk) (prove P sk alpha).1 alpha = .ok (prove P sk alpha).2 := by
  unfold verifyAndHash verifyCore prove pkOf at *
  simp only [hso, Bool.false_eq_true, if_false, Bool.not_true]
  rw [recompute P hL, recompute P hL]
  simp

/-- guard: a response scalar that `SetCanonicalBytes` refuses is rejected, whatever the rest -/
theorem noncanonical_s_rejected [DecidableEq S] (Y : G) (pi : Proof G S) (alpha : Msg)
    (hs : pi.sCanonical = false) : ∃ e, verifyAndHash P Y pi alpha = .error e := by
  unfold verifyAndHash verifyCore
  by_cases h : P.smallOrder Y = true
  · exact ⟨.smallOrder, by simp [h]⟩
  · exact ⟨.nonCanonicalS, by simp [h, hs]⟩

/-- guard: a small-order public key is rejected before anything else -/
theorem small_order_pk_rejected [DecidableEq S] (Y : G) (pi : Proof G S) (alpha : Msg)
    (h : P.smallOrder Y = true) : verifyAndHash P Y pi alpha = .error .smallOrder := by
  simp [verifyAndHash, h]

/-- whatever is accepted returns the output hash of the proof's own Gamma -/
theorem accepted_output [DecidableEq S] (Y : G) (pi : Proof G S) (alpha : Msg) (o : Out)
    (h : verifyAndHash P Y pi alpha = .ok o) : o = P.outHash pi.gamma := by
  unfold verifyAndHash at h
  split at h
  · simp at h
  · split at h <;> simp at h
    exact h.symm

/-- **Any nonce gives an accepted proof with the same output**: the proof
    `(x·H, c = hashPoints(H, x·H, k'·B, k'·H), k' + c·x)` verifies for *every* scalar `k'`, and its
    output is the prover's.  So accepted proofs are not unique as byte strings (the holder of the
    secret key can make others); what the scheme promises is uniqueness of the *output*. -/
theorem verify_any_nonce [DecidableEq S] (hL : Laws P) (sk : Sk) (alpha : Msg) (k' : S)
    (hso : P.smallOrder (pkOf P sk) = false) :
    let x := P.scalarOf sk
    let H := P.h2c (pkOf P sk) alpha
    let c := P.hashPoints H (P.smul x H) (P.smul k' P.base) (P.smul k' H)
    verifyAndHash P (pkOf P sk) { gamma := P.smul x H, c := c, s := P.sadd k' (P.smulS c x) } alpha
      = .ok (prove P sk alpha).2 := by
  intro x H c
  unfold verifyAndHash verifyCore prove pkOf at *
  simp only [hso, Bool.false_eq_true, if_false, Bool.not_true]
  have e1 := recompute P hL k' c x P.base
  have e2 := recompute P hL k' c x H
  simp only [x, H, c, pkOf] at e1 e2 ⊢
  rw [e1, e2]
  simp

/-- the traced values are the ones the verdict is computed from (what the oracle tie compares) -/
theorem verifyCore_trace [DecidableEq S] (Y : G) (pi : Proof G S) (alpha : Msg) :
    verifyCore P Y pi alpha =
      if !pi.sCanonical then .error .nonCanonicalS
      else .ok (pi.c == (verifyTrace P Y pi alpha).c') := rfl

theorem prove_trace (sk : Sk) (alpha : Msg) :
    (prove P sk alpha).1 = { gamma := (proveTrace P sk alpha).gamma, c := (proveTrace P sk alpha).c,
                             s := (proveTrace P sk alpha).s } ∧
    (prove P sk alpha).2 = P.outHash (proveTrace P sk alpha).gamma := ⟨rfl, rfl⟩

/-- for a genuine proof the verifier recomputes exactly the prover's commitments U = k·B, V = k·H -/
theorem verify_recomputes_commitments (hL : Laws P) (sk : Sk) (alpha : Msg) :
    (verifyTrace P (pkOf P sk) (prove P sk alpha).1 alpha).u = (proveTrace P sk alpha).u ∧
    (verifyTrace P (pkOf P sk) (prove P sk alpha).1 alpha).v = (proveTrace P sk alpha).v ∧
    (verifyTrace P (pkOf P sk) (prove P sk alpha).1 alpha).c' = (proveTrace P sk alpha).c := by
  unfold verifyTrace proveTrace prove pkOf
  simp only
  rw [recompute P hL, recompute P hL]
  exact ⟨rfl, rfl, rfl⟩

/-! ### what can be proved of output uniqueness

Coordinates: over two independent generators B, H a point is `a·B + b·H`; the key is `Y = x·B`,
a proof's `Gamma = gB·B + gH·H`, and the verifier's recomputed commitments are
`U = (s − c·x)·B`,  `V = (−c·gB)·B + (s − c·gH)·H`. -/

/-- **At most one challenge fits a hash input.**  If `Gamma ≠ x·H` (in coordinates: `gB ≠ 0` or
    `gH ≠ x`), then for a fixed hash input `(H, Gamma, U, V)` — i.e. fixed coordinates `u` of `U`
    and `vB, vH` of `V` — at most one challenge `c` satisfies the verification equations, whatever
    response `s` goes with it.  So a proof with a non-genuine `Gamma` is accepted only if the hash
    of the input happens to equal that one predetermined value: this is the algebraic core of the
    VRF's uniqueness (the rest is the random-oracle assumption on `hashPoints`, not provable
    here).  Stated over the integers as the scalar domain (any integral domain would do). -/
theorem challenge_determined (x gB gH u vB vH s c s' c' : Int)
    (hne : gB ≠ 0 ∨ gH ≠ x)
    (h1 : s - c * x = u) (h2 : -(c * gB) = vB) (h3 : s - c * gH = vH)
    (h1' : s' - c' * x = u) (h2' : -(c' * gB) = vB) (h3' : s' - c' * gH = vH) :
    c = c' := by
  rcases hne with hb | hh
  · have : c * gB = c' * gB := by omega
    exact Int.eq_of_mul_eq_mul_right hb this
  · have hd : gH - x ≠ 0 := by omega
    have e : c * (gH - x) = c' * (gH - x) := by
      have a1 : c * (gH - x) = c * gH - c * x := Int.mul_sub c gH x
      have a2 : c' * (gH - x) = c' * gH - c' * x := Int.mul_sub c' gH x
      omega
    exact Int.eq_of_mul_eq_mul_right hd e

/-- Conversely a genuine `Gamma = x·H` leaves the challenge free: every `c` fits, with
    `s = k + c·x` (this is `verify_any_nonce` in coordinates). -/
theorem genuine_gamma_any_challenge (x k c : Int) :
    (k + c * x) - c * x = k ∧ -(c * 0) = 0 ∧ (k + c * x) - c * x = k := by
  refine ⟨by omega, by simp, by omega⟩

/-- **Output modulo torsion.**  The output hashes `cofactor·Gamma`; with the law that adding a
    torsion point does not change it (`hout`), every accepted proof whose `Gamma` is the genuine
    `x·H` plus a torsion point yields exactly the prover's output — the key holder's proofs with a
    small-order component in `Gamma` (which do verify, see the `gammaT` ops) cannot change the
    output. -/
theorem accepted_output_mod_torsion [DecidableEq S] (isTorsion : G → Prop)
    (hout : ∀ g t, isTorsion t → P.outHash (P.add g t) = P.outHash g)
    (sk : Sk) (alpha : Msg) (pi : Proof G S) (t : G) (o : Out) (ht : isTorsion t)
    (hg : pi.gamma = P.add (P.smul (P.scalarOf sk) (P.h2c (pkOf P sk) alpha)) t)
    (h : verifyAndHash P (pkOf P sk) pi alpha = .ok o) :
    o = (prove P sk alpha).2 := by
  rw [accepted_output P _ pi alpha o h, hg, hout _ _ ht]
  rfl

/-- The full statement (kept, not proved): besides completeness, every accepted proof carries the
    genuine `Gamma = x·H` up to a torsion point, hence (`accepted_output_mod_torsion`) the genuine
    output — so no change of proof, message or key can yield an accepted different output.  Not
    derivable from the module laws: by `challenge_determined` it holds unless the hash of the
    verifier's input equals one predetermined value, which is an assumption on `hashPoints`
    (random oracle) and on the independence of B and H (discrete logarithm).  Byte-level "any
    flipped bit fails" is not this statement (other valid proofs exist: `verify_any_nonce`, the
    `gammaT` ops) and is only tested. -/
def C38_full [DecidableEq S] (isTorsion : G → Prop) : Prop :=
  ∀ sk alpha, P.smallOrder (pkOf P sk) = false →
    verifyAndHash P (pkOf P sk) (prove P sk alpha).1 alpha = .ok (prove P sk alpha).2 ∧
    ∀ pi o, verifyAndHash P (pkOf P sk) pi alpha = .ok o →
      ∃ t, isTorsion t ∧ pi.gamma = P.add (P.smul (P.scalarOf sk) (P.h2c (pkOf P sk) alpha)) t

/-- what is proved of it -/
theorem C38_partial [DecidableEq S] (hL : Laws P) :
    ∀ sk alpha, P.smallOrder (pkOf P sk) = false →
      verifyAndHash P (pkOf P sk) (prove P sk alpha).1 alpha = .ok (prove P sk alpha).2 :=
  fun sk alpha h => verify_prove P hL sk alpha h

/-- Regenerated source facts: the order of the guards of `VerifyAndHash` (key decoding, small
    order, core verification, hash), the helper calls of `verify` and `Prove`, the proof-length
    check and the size constants as they stand in vrf/vrf.go on this run. -/
theorem source_facts :
    GV.Gen.VrfFacts.verifyAndHashConds = ["err != nil", "isSmallOrder", "err != nil", "!ok"] ∧
    GV.Gen.VrfFacts.verifyConds = ["err != nil", "err != nil", "err != nil"] ∧
    GV.Gen.VrfFacts.verifyCalls = ["decodeProofArrays", "hashToCurveElligator2", "hashPoints"] ∧
    GV.Gen.VrfFacts.proveCalls = ["hashToCurveElligator2", "hashPoints", "ProofToHash"] ∧
    GV.Gen.VrfFacts.decodeConds = ["len(pi) != ProofSize", "err != nil"] ∧
    GV.Gen.VrfConsts.proofSize = 80 ∧ GV.Gen.VrfConsts.outputSize = 64 ∧
    GV.Gen.VrfConsts.publicKeySize = 32 ∧ GV.Gen.VrfConsts.seedSize = 32 ∧ GV.Gen.VrfConsts.suite = 4 := by
  decide

/-! ### non-vacuity: the integers as a (toy) module over themselves -/
def toy : Prims Int Int Int Int Int :=
  { add := (· + ·), neg := (- ·), smul := (· * ·), base := 1, sadd := (· + ·), smulS := (· * ·),
    scalarOf := fun sk => 2 * sk + 1, h2c := fun y m => y + m + 5, nonce := fun sk h => sk + 3 * h,
    hashPoints := fun a b c d => a + 2 * b + 3 * c + 5 * d, outHash := fun g => 7 * g,
    smallOrder := fun y => y == 0 }

example : Laws toy where
  add_smul := by intro a b X; simp [toy, Int.add_mul]
  mul_smul := by intro a b X; simp [toy, Int.mul_assoc]
  add_neg_cancel := by intro X Z; simp [toy]; omega

example : (match verifyAndHash toy (pkOf toy 4) (prove toy 4 11).1 11 with
    | .ok o => o == (prove toy 4 11).2 | .error _ => false) = true := by decide

/-- the free-module instance used by the driver satisfies `hout`, and on it the crafted proof with
    `Gamma = x·H + T_3` and challenge residue 5 verifies with the genuine output -/
example : (GV.Model.VrfSym.symT 3 5).outHash
      (GV.Model.VrfSym.Pt.add (GV.Model.VrfSym.Pt.smul GV.Model.VrfSym.X GV.Model.VrfSym.ptH)
        (GV.Model.VrfSym.ptT 3)) =
    (GV.Model.VrfSym.symT 3 5).outHash (GV.Model.VrfSym.Pt.smul GV.Model.VrfSym.X GV.Model.VrfSym.ptH) := by
  decide

end GV.Props.C38
