import GV.Model.BlockFetch
/-!
C23 — Block-fetch returns the blocks that were asked for.

For *every* sequence of server messages (followed by the peer's disconnect):
* a single-block request succeeds only with the requested block — exactly when
  the batch is `StartBatch, Block(requested), BatchDone` — and otherwise fails;
  it never hangs (no handler is left blocked);
* no block, a different block, several blocks ⇒ error;
* a range request delivers the served blocks to the callback in order and then
  completes.
-/
namespace GV.Props.C23
open GV.Model.BlockFetch

/-! ### an independent, regular-expression-like description of GetBlock -/

/-- after `StartBatch, Block h, …` (extra = a further block has been seen) -/
def afterBlock (want h : Nat) : Bool → List Ev → Outcome
  | _, [] => .res .shutdown
  | _, .block _ :: rest => afterBlock want h true rest
  | extra, .batchDone :: _ => .res (if extra then .multi else if h = want then .ok h else .mismatch)
  | _, _ :: _ => .res .shutdown

def afterStart (want : Nat) : List Ev → Outcome
  | [] => .res .shutdown
  | .batchDone :: _ => .res .noBlock
  | .block h :: rest => afterBlock want h false rest
  | _ :: _ => .res .shutdown

def specGet (want : Nat) : List Ev → Outcome
  | [] => .res .shutdown
  | .noBlocks :: _ => .res .notFound
  | .start :: rest => afterStart want rest
  | _ :: _ => .res .shutdown

/-! ### the automaton equals that description -/

theorem step_inert (want : Nat) (s : St) (e : Ev)
    (h : s.stuck = true ∨ s.dead = true ∨ s.ps = .idle) : step want s e = s := by
  unfold step
  rcases h with h | h | h
  · simp [h]
  · simp [h]
  · by_cases hh : (s.stuck || s.dead) = true
    · simp [hh]
    · simp [hh, h]

theorem fold_inert (want : Nat) (evs : List Ev) (s : St)
    (h : s.stuck = true ∨ s.dead = true ∨ s.ps = .idle) : evs.foldl (step want) s = s := by
  induction evs with
  | nil => rfl
  | cons e t ih => simp only [List.foldl_cons, step_inert want s e h]; exact ih

theorem run_afterBlock (want h : Nat) (evs : List Ev) : ∀ extra : Bool,
    finish (evs.foldl (step want) ⟨.streaming, .waitDone h extra, false, false⟩) =
      afterBlock want h extra evs := by
  induction evs with
  | nil => intro extra; simp [finish, afterBlock]
  | cons e t ih =>
    intro extra
    cases e with
    | block h' =>
      have : step want ⟨.streaming, .waitDone h extra, false, false⟩ (.block h') =
          ⟨.streaming, .waitDone h true, false, false⟩ := by simp [step, nextState]
      simp only [List.foldl_cons, this, afterBlock]; exact ih true
    | batchDone =>
      have : step want ⟨.streaming, .waitDone h extra, false, false⟩ .batchDone =
          ⟨.idle, .ret (if extra then .multi else if h = want then .ok h else .mismatch), false, false⟩ := by
        simp [step, nextState]
      simp only [List.foldl_cons, this, afterBlock]
      rw [fold_inert want t _ (Or.inr (Or.inr rfl))]; simp [finish]
    | start =>
      have : step want ⟨.streaming, .waitDone h extra, false, false⟩ .start =
          ⟨.streaming, .ret .shutdown, false, true⟩ := by simp [step, nextState, fail]
      simp only [List.foldl_cons, this, afterBlock]
      rw [fold_inert want t _ (Or.inr (Or.inl rfl))]; simp [finish]
    | noBlocks =>
      have : step want ⟨.streaming, .waitDone h extra, false, false⟩ .noBlocks =
          ⟨.streaming, .ret .shutdown, false, true⟩ := by simp [step, nextState, fail]
      simp only [List.foldl_cons, this, afterBlock]
      rw [fold_inert want t _ (Or.inr (Or.inl rfl))]; simp [finish]
    | bad =>
      have : step want ⟨.streaming, .waitDone h extra, false, false⟩ .bad =
          ⟨.streaming, .ret .shutdown, false, true⟩ := by simp [step, nextState, fail]
      simp only [List.foldl_cons, this, afterBlock]
      rw [fold_inert want t _ (Or.inr (Or.inl rfl))]; simp [finish]

theorem run_afterStart (want : Nat) (evs : List Ev) :
    finish (evs.foldl (step want) ⟨.streaming, .waitBlock, false, false⟩) = afterStart want evs := by
  cases evs with
  | nil => simp [finish, afterStart]
  | cons e t =>
    cases e with
    | block h =>
      have : step want ⟨.streaming, .waitBlock, false, false⟩ (.block h) =
          ⟨.streaming, .waitDone h false, false, false⟩ := by simp [step, nextState]
      simp only [List.foldl_cons, this, afterStart]; exact run_afterBlock want h t false
    | batchDone =>
      have : step want ⟨.streaming, .waitBlock, false, false⟩ .batchDone =
          ⟨.idle, .ret .noBlock, false, false⟩ := by simp [step, nextState]
      simp only [List.foldl_cons, this, afterStart]
      rw [fold_inert want t _ (Or.inr (Or.inr rfl))]; simp [finish]
    | start =>
      have : step want ⟨.streaming, .waitBlock, false, false⟩ .start =
          ⟨.streaming, .ret .shutdown, false, true⟩ := by simp [step, nextState, fail]
      simp only [List.foldl_cons, this, afterStart]
      rw [fold_inert want t _ (Or.inr (Or.inl rfl))]; simp [finish]
    | noBlocks =>
      have : step want ⟨.streaming, .waitBlock, false, false⟩ .noBlocks =
          ⟨.streaming, .ret .shutdown, false, true⟩ := by simp [step, nextState, fail]
      simp only [List.foldl_cons, this, afterStart]
      rw [fold_inert want t _ (Or.inr (Or.inl rfl))]; simp [finish]
    | bad =>
      have : step want ⟨.streaming, .waitBlock, false, false⟩ .bad =
          ⟨.streaming, .ret .shutdown, false, true⟩ := by simp [step, nextState, fail]
      simp only [List.foldl_cons, this, afterStart]
      rw [fold_inert want t _ (Or.inr (Or.inl rfl))]; simp [finish]

/-- The rendezvous automaton computes exactly the regular description. -/
theorem getBlock_eq_spec (want : Nat) (evs : List Ev) : getBlock want evs = specGet want evs := by
  unfold getBlock
  cases evs with
  | nil => simp [finish, specGet, St.init]
  | cons e t =>
    cases e with
    | start =>
      have : step want St.init .start = ⟨.streaming, .waitBlock, false, false⟩ := by
        simp [step, nextState, St.init]
      simp only [List.foldl_cons, this, specGet]; exact run_afterStart want t
    | noBlocks =>
      have : step want St.init .noBlocks = ⟨.idle, .ret .notFound, false, false⟩ := by
        simp [step, nextState, St.init]
      simp only [List.foldl_cons, this, specGet]
      rw [fold_inert want t _ (Or.inr (Or.inr rfl))]; simp [finish]
    | block h =>
      have : step want St.init (.block h) = ⟨.busy, .ret .shutdown, false, true⟩ := by
        simp [step, nextState, St.init, fail]
      simp only [List.foldl_cons, this, specGet]
      rw [fold_inert want t _ (Or.inr (Or.inl rfl))]; simp [finish]
    | bad =>
      have : step want St.init .bad = ⟨.busy, .ret .shutdown, false, true⟩ := by
        simp [step, nextState, St.init, fail]
      simp only [List.foldl_cons, this, specGet]
      rw [fold_inert want t _ (Or.inr (Or.inl rfl))]; simp [finish]
    | batchDone =>
      have : step want St.init .batchDone = ⟨.busy, .ret .shutdown, false, true⟩ := by
        simp [step, nextState, St.init, fail]
      simp only [List.foldl_cons, this, specGet]
      rw [fold_inert want t _ (Or.inr (Or.inl rfl))]; simp [finish]

/-! ### the property -/

theorem afterBlock_ne_hang (want h : Nat) (evs : List Ev) : ∀ extra, afterBlock want h extra evs ≠ .hang := by
  induction evs with
  | nil => intro extra; simp [afterBlock]
  | cons e t ih => intro extra; cases e <;> simp [afterBlock, ih]

/-- No server behaviour makes the call hang: whatever is sent, once the peer
    disconnects GetBlock has returned a block or an error. -/
theorem get_never_hangs (want : Nat) (evs : List Ev) : getBlock want evs ≠ .hang := by
  rw [getBlock_eq_spec]
  cases evs with
  | nil => simp [specGet]
  | cons e t =>
    cases e with
    | start =>
      cases t with
      | nil => simp [specGet, afterStart]
      | cons e2 t2 => cases e2 <;> simp [specGet, afterStart, afterBlock_ne_hang]
    | _ => simp [specGet]

theorem afterBlock_ok (want h : Nat) (evs : List Ev) : ∀ extra x,
    afterBlock want h extra evs = .res (.ok x) →
    extra = false ∧ h = want ∧ x = want ∧ ∃ rest, evs = .batchDone :: rest := by
  induction evs with
  | nil => intro extra x hh; simp [afterBlock] at hh
  | cons e t ih =>
    intro extra x hh
    cases e with
    | block h' =>
      simp only [afterBlock] at hh
      have := ih true x hh
      simp at this
    | batchDone =>
      simp only [afterBlock, Outcome.res.injEq] at hh
      cases extra with
      | true => simp at hh
      | false =>
        by_cases hw : h = want
        · simp only [Bool.false_eq_true, ↓reduceIte, hw, Res.ok.injEq] at hh
          exact ⟨rfl, hw, hh.symm, t, rfl⟩
        · simp [hw] at hh
    | start => simp [afterBlock] at hh
    | noBlocks => simp [afterBlock] at hh
    | bad => simp [afterBlock] at hh

/-- GetBlock succeeds **iff** the server's batch is exactly
    `StartBatch, Block(requested point), BatchDone` (whatever follows is never
    looked at), and then it returns that block. -/
theorem get_ok_iff (want x : Nat) (evs : List Ev) :
    getBlock want evs = .res (.ok x) ↔
      x = want ∧ ∃ rest, evs = .start :: .block want :: .batchDone :: rest := by
  rw [getBlock_eq_spec]
  constructor
  · intro h
    cases evs with
    | nil => simp [specGet] at h
    | cons e t =>
      cases e with
      | start =>
        simp only [specGet] at h
        cases t with
        | nil => simp [afterStart] at h
        | cons e2 t2 =>
          cases e2 with
          | block h0 =>
            simp only [afterStart] at h
            obtain ⟨_, hw, hx, rest, hr⟩ := afterBlock_ok want h0 t2 false x h
            subst hw; subst hr
            exact ⟨hx, rest, rfl⟩
          | _ => simp [afterStart] at h
      | _ => simp [specGet] at h
  · rintro ⟨hx, rest, rfl⟩
    subst hx
    simp [specGet, afterStart, afterBlock]

/-- A successful single-block request returns only the requested block. -/
theorem get_only_matching (want x : Nat) (evs : List Ev) (h : getBlock want evs = .res (.ok x)) :
    x = want := ((get_ok_iff want x evs).mp h).1

/-- no block at all -/
theorem get_empty_batch_fails (want : Nat) (rest : List Ev) :
    getBlock want (.start :: .batchDone :: rest) = .res .noBlock := by
  rw [getBlock_eq_spec]; rfl

/-- "block(s) not found" -/
theorem get_no_blocks_fails (want : Nat) (rest : List Ev) :
    getBlock want (.noBlocks :: rest) = .res .notFound := by
  rw [getBlock_eq_spec]; rfl

/-- a different block -/
theorem get_wrong_block_fails (want h : Nat) (rest : List Ev) (hne : h ≠ want) :
    getBlock want (.start :: .block h :: .batchDone :: rest) = .res .mismatch := by
  rw [getBlock_eq_spec]; simp [specGet, afterStart, afterBlock, hne]

theorem afterBlock_blocks (want h : Nat) (bs : List Nat) (rest : List Ev) :
    afterBlock want h true (bs.map Ev.block ++ .batchDone :: rest) = .res .multi := by
  induction bs with
  | nil => simp [afterBlock]
  | cons b t ih => simpa [afterBlock] using ih

/-- several blocks (two or more, the requested one among them or not) -/
theorem get_several_blocks_fail (want h1 h2 : Nat) (bs : List Nat) (rest : List Ev) :
    getBlock want (.start :: .block h1 :: .block h2 :: (bs.map Ev.block ++ .batchDone :: rest)) =
      .res .multi := by
  rw [getBlock_eq_spec]
  simp only [specGet, afterStart, afterBlock]
  exact afterBlock_blocks want h1 bs rest

/-- silence then disconnect at any earlier point is an error, not a hang, not a block -/
theorem get_truncated_fails (want : Nat) (bs : List Nat) :
    getBlock want [] = .res .shutdown ∧ getBlock want [.start] = .res .shutdown ∧
    getBlock want (.start :: bs.map Ev.block) = .res .shutdown := by
  refine ⟨by rw [getBlock_eq_spec]; rfl, by rw [getBlock_eq_spec]; rfl, ?_⟩
  rw [getBlock_eq_spec]
  cases bs with
  | nil => rfl
  | cons b t =>
    simp only [specGet, List.map_cons, afterStart]
    have : ∀ (l : List Nat) extra, afterBlock want b extra (l.map Ev.block) = .res .shutdown := by
      intro l; induction l with
      | nil => intro extra; rfl
      | cons a l ih => intro extra; simpa [afterBlock] using ih true
    exact this t false

/-- non-vacuity: concrete runs of the automaton -/
example : getBlock 3 [.start, .block 3, .batchDone] = .res (.ok 3) := by decide
example : getBlock 3 [.start, .block 4, .batchDone] = .res .mismatch := by decide
example : getBlock 3 [.start, .batchDone] = .res .noBlock := by decide
example : getBlock 3 [.start, .block 3, .block 4, .batchDone] = .res .multi := by decide

/-- What was repaired (fix df05c01), on the pre-fix handler/caller rendezvous: a wrong
    block was returned as if it were the requested one, an empty batch and a second block
    left a handler blocked for good — the call hung even after the peer had gone. -/
theorem prefix_defects_witness :
    getBlockOld [.start, .block 4, .batchDone] = .res (.ok 4) ∧
    getBlockOld [.start, .batchDone] = .hang ∧
    getBlockOld [.start, .block 3, .block 4, .batchDone] = .hang := by decide

/-! ### range requests -/

theorem rfold_inert (evs : List Ev) (s : RSt) (h : s.dead = true ∨ s.ps = .idle) :
    evs.foldl rstep s = s := by
  induction evs with
  | nil => rfl
  | cons e t ih =>
    have : rstep s e = s := by
      unfold rstep
      rcases h with h | h
      · simp [h]
      · by_cases hd : s.dead = true
        · simp [hd]
        · simp [hd, h]
    simp only [List.foldl_cons, this]; exact ih

theorem rfold_blocks (bs : List Nat) : ∀ (ret : Option Res) (cbs : List Nat) (d : Nat),
    (bs.map Ev.block).foldl rstep ⟨.streaming, ret, true, cbs, d, false⟩ =
      ⟨.streaming, ret, true, cbs ++ bs, d, false⟩ := by
  induction bs with
  | nil => intro ret cbs d; simp
  | cons b t ih =>
    intro ret cbs d
    have : rstep ⟨.streaming, ret, true, cbs, d, false⟩ (.block b) =
        ⟨.streaming, ret, true, cbs ++ [b], d, false⟩ := by simp [rstep, nextState]
    simp only [List.map_cons, List.foldl_cons, this, ih]
    simp

/-- A range request whose batch is served (`StartBatch, blocks…, BatchDone`)
    returns without error, hands the blocks to the callback in the order served,
    and then signals completion exactly once — whatever follows. -/
theorem range_in_order_then_done (bs : List Nat) (rest : List Ev) :
    let s := rangeRun (.start :: (bs.map Ev.block ++ .batchDone :: rest))
    s.result = none ∧ s.cbs = bs ∧ s.done = 1 := by
  have h1 : rstep RSt.init .start = ⟨.streaming, none, true, [], 0, false⟩ := by
    simp [rstep, nextState, RSt.init]
  have h2 : rstep ⟨.streaming, none, true, [] ++ bs, 0, false⟩ .batchDone =
      ⟨.idle, none, true, [] ++ bs, 1, false⟩ := by simp [rstep, nextState]
  simp only [rangeRun, List.foldl_cons, h1, List.foldl_append, rfold_blocks, h2]
  rw [rfold_inert rest _ (Or.inr rfl)]
  simp [RSt.result]

/-- while the batch is still streaming the callbacks so far are the blocks so far, in order -/
theorem range_prefix_in_order (bs : List Nat) :
    let s := rangeRun (.start :: bs.map Ev.block)
    s.result = none ∧ s.cbs = bs ∧ s.done = 0 := by
  have h1 : rstep RSt.init .start = ⟨.streaming, none, true, [], 0, false⟩ := by
    simp [rstep, nextState, RSt.init]
  simp only [rangeRun, List.foldl_cons, h1, rfold_blocks]
  simp [RSt.result]

example : (rangeRun [.start, .block 1, .block 2, .batchDone]).cbs = [1, 2] := by decide

/-! ### two calls on one connection (busy lock) -/

/-- what is preserved by every step of the two-call system: the range batch has consumed a
    prefix of its answer in callback mode; the single-block call runs only after the lock is
    free, on exactly the rest of the stream, as the single-call automaton would -/
def TInv (want : Nat) (ev1 ev2 : List Ev) (t : TSt) : Prop :=
  ∃ pre left, ev1 = pre ++ left ∧ t.r = pre.foldl rstep RSt.init ∧
    t.lockR = (!(t.r.ps == .idle) && !t.r.dead) ∧
    match t.g with
    | .active s => t.rem1 = [] ∧ t.lockR = false ∧
        ∃ d2, left ++ ev2 = d2 ++ t.rem2 ∧ s = d2.foldl (step want) (if t.r.dead then deadSt else St.init)
    | _ => t.rem1 = left ∧ t.rem2 = ev2

theorem tinv_init (want : Nat) (ev1 ev2 : List Ev) : TInv want ev1 ev2 (TSt.init ev1 ev2) :=
  ⟨[], ev1, rfl, rfl, by simp [TSt.init, RSt.init], by simp [TSt.init]⟩

theorem tinv_step (want : Nat) (ev1 ev2 : List Ev) (t t' : TSt) (a : TAct)
    (h : TInv want ev1 ev2 t) (hs : tstep want t a = some t') : TInv want ev1 ev2 t' := by
  obtain ⟨pre, left, he, hr, hl, hg⟩ := h
  cases a with
  | gBegin =>
    simp only [tstep] at hs
    cases hgp : t.g with
    | idle =>
      simp only [hgp, Option.some.injEq] at hs; subst hs
      rw [hgp] at hg
      exact ⟨pre, left, he, hr, hl, by simpa using hg⟩
    | wantLock => simp [hgp] at hs
    | active s => simp [hgp] at hs
  | gLock =>
    simp only [tstep] at hs
    cases hgp : t.g with
    | idle => simp [hgp] at hs
    | active s => simp [hgp] at hs
    | wantLock =>
      simp only [hgp] at hs
      by_cases hlk : t.lockR = true
      · simp [hlk] at hs
      · simp only [hlk, Bool.false_eq_true, ↓reduceIte, Option.some.injEq] at hs; subst hs
        rw [hgp] at hg
        have hf : t.lockR = false := by simpa using hlk
        refine ⟨pre, left, he, hr, ?_, ?_⟩
        · show false = _
          rw [← hl]; exact hf.symm
        · exact ⟨rfl, rfl, [], by simp [hg.1, hg.2], rfl⟩
  | deliverR =>
    simp only [tstep] at hs
    by_cases hlk : t.lockR = true
    · simp only [hlk, ↓reduceIte] at hs
      cases hgp : t.g with
      | active s => rw [hgp] at hg; simp [hlk] at hg
      | idle =>
        rw [hgp] at hg
        cases hrem : t.rem1 with
        | nil => simp [hrem] at hs
        | cons e rest =>
          simp only [hrem, Option.some.injEq] at hs; subst hs
          have hleft : left = e :: rest := by rw [← hg.1, hrem]
          refine ⟨pre ++ [e], rest, by simp [he, hleft], by simp [List.foldl_append, hr], rfl, ?_⟩
          simp [hgp, hg.2]
      | wantLock =>
        rw [hgp] at hg
        cases hrem : t.rem1 with
        | nil => simp [hrem] at hs
        | cons e rest =>
          simp only [hrem, Option.some.injEq] at hs; subst hs
          have hleft : left = e :: rest := by rw [← hg.1, hrem]
          refine ⟨pre ++ [e], rest, by simp [he, hleft], by simp [List.foldl_append, hr], rfl, ?_⟩
          simp [hgp, hg.2]
    · simp [hlk] at hs
  | deliverG =>
    simp only [tstep] at hs
    cases hgp : t.g with
    | idle => simp [hgp] at hs
    | wantLock => simp [hgp] at hs
    | active s =>
      cases hrem : t.rem2 with
      | nil => simp [hgp, hrem] at hs
      | cons e rest =>
        simp only [hgp, hrem, Option.some.injEq] at hs; subst hs
        rw [hgp] at hg
        obtain ⟨h1, h2, d2, h3, h4⟩ := hg
        refine ⟨pre, left, he, hr, hl, ?_⟩
        simp only
        refine ⟨h1, h2, d2 ++ [e], by simp [h3, hrem], by simp [List.foldl_append, h4]⟩

theorem tinv_run (want : Nat) (ev1 ev2 : List Ev) (sched : List TAct) : ∀ t t' : TSt,
    TInv want ev1 ev2 t → trun want t sched = some t' → TInv want ev1 ev2 t' := by
  induction sched with
  | nil => intro t t' h hr; simp [trun] at hr; subst hr; exact h
  | cons a as ih =>
    intro t t' h hr
    unfold trun at hr
    cases hst : tstep want t a with
    | none => simp [hst] at hr
    | some t1 => simp only [hst] at hr; exact ih t1 t' (tinv_step want ev1 ev2 t t1 a h hst) hr

/-- **The mode flag is never flipped under a running batch**: whenever the single-block call
    is active, the range call has released the busy lock and nothing of its batch is pending. -/
theorem get_waits_for_batch (want : Nat) (ev1 ev2 : List Ev) (sched : List TAct) (t : TSt) (s : St)
    (h : trun want (TSt.init ev1 ev2) sched = some t) (hg : t.g = .active s) :
    t.lockR = false ∧ t.rem1 = [] := by
  obtain ⟨_, _, _, _, _, hm⟩ := tinv_run want ev1 ev2 sched _ t (tinv_init want ev1 ev2) h
  rw [hg] at hm
  exact ⟨hm.2.1, hm.1⟩

/-- a served batch keeps the lock until its BatchDone has been handled -/
theorem served_lock_aux (bs : List Nat) : ∀ (ret : Option Res) (cbs : List Nat) (d : Nat) (pre left : List Ev),
    pre ++ left = bs.map Ev.block ++ [.batchDone] →
    (let r := pre.foldl rstep ⟨.streaming, ret, true, cbs, d, false⟩
     (!(r.ps == .idle) && !r.dead) = false) → left = [] := by
  induction bs with
  | nil =>
    intro ret cbs d pre left he hl
    cases pre with
    | nil => simp at hl
    | cons e pre' =>
      simp only [List.map_nil, List.nil_append, List.cons_append, List.cons.injEq] at he
      have : pre' = [] ∧ left = [] := by
        cases pre' <;> simp_all
      exact this.2
  | cons b bs' ih =>
    intro ret cbs d pre left he hl
    cases pre with
    | nil => simp at hl
    | cons e pre' =>
      simp only [List.map_cons, List.cons_append, List.cons.injEq] at he
      obtain ⟨he1, he2⟩ := he
      subst he1
      have hstep : rstep ⟨.streaming, ret, true, cbs, d, false⟩ (.block b) =
          ⟨.streaming, ret, true, cbs ++ [b], d, false⟩ := by simp [rstep, nextState]
      simp only [List.foldl_cons, hstep] at hl
      exact ih ret (cbs ++ [b]) d pre' left he2 hl

/-- **Two calls, any interleaving.** A range request answered by a served batch
    (`StartBatch, blocks…, BatchDone`) and a single-block request started at any moment from
    another goroutine: once everything has been delivered, the range callbacks are the served
    blocks in order, completion was signalled once, and the single-block call ends exactly as
    it would alone on its own answer (so `get_ok_iff`, `get_never_hangs`, … apply to it). -/
theorem two_calls_compose (want : Nat) (bs : List Nat) (ev2 : List Ev) (sched : List TAct) (t : TSt) (s : St)
    (h : trun want (TSt.init (.start :: (bs.map Ev.block ++ [.batchDone])) ev2) sched = some t)
    (hg : t.g = .active s) (hdone : t.rem2 = []) :
    t.r.cbs = bs ∧ t.r.done = 1 ∧ t.r.result = none ∧ finish s = getBlock want ev2 := by
  obtain ⟨pre, left, he, hr, hl, hm⟩ := tinv_run want _ ev2 sched _ t (tinv_init want _ ev2) h
  rw [hg] at hm
  obtain ⟨_, hlk, d2, hd2, hs⟩ := hm
  -- the lock is free, so the whole batch has been handled
  have hleft : left = [] := by
    cases pre with
    | nil =>
      rw [hr] at hl; simp [RSt.init] at hl; rw [hl] at hlk; simp at hlk
    | cons e pre' =>
      simp only [List.cons_append, List.cons.injEq] at he
      obtain ⟨he1, he2⟩ := he
      subst he1
      have h1 : rstep RSt.init .start = ⟨.streaming, none, true, [], 0, false⟩ := by
        simp [rstep, nextState, RSt.init]
      rw [hr, List.foldl_cons, h1] at hl
      rw [hl] at hlk
      exact served_lock_aux bs none [] 0 pre' left he2.symm hlk
  subst hleft
  have hwhole : t.r = ⟨.idle, none, true, bs, 1, false⟩ := by
    have hpre : pre = .start :: (bs.map Ev.block ++ [.batchDone]) := by simpa using he.symm
    rw [hr, hpre]
    have h1 : rstep RSt.init .start = ⟨.streaming, none, true, [], 0, false⟩ := by
      simp [rstep, nextState, RSt.init]
    have h2 : rstep ⟨.streaming, none, true, [] ++ bs, 0, false⟩ .batchDone =
        ⟨.idle, none, true, [] ++ bs, 1, false⟩ := by simp [rstep, nextState]
    simp only [List.foldl_cons, h1, List.foldl_append, rfold_blocks, List.foldl_nil, h2]
    simp
  simp only [List.nil_append, hdone, List.append_nil] at hd2
  subst hd2
  rw [hwhole] at hs
  simp only [Bool.false_eq_true, ↓reduceIte] at hs
  rw [hwhole, hs]
  exact ⟨rfl, rfl, rfl, rfl⟩

/-- non-vacuity: GetBlock started in the middle of the batch, a complete schedule -/
example : (trun 3 (TSt.init [.start, .block 1, .block 2, .batchDone] [.start, .block 3, .batchDone])
    [.deliverR, .deliverR, .gBegin, .deliverR, .deliverR, .gLock, .deliverG, .deliverG, .deliverG]).map
      (fun t => (t.r.cbs, t.r.done, match t.g with | .active s => finish s | _ => .hang)) =
    some ([1, 2], 1, .res (.ok 3)) := by decide
/-- … and it cannot take the lock while the batch is streaming -/
example : (trun 3 (TSt.init [.start, .block 1, .batchDone] [.start]) [.deliverR, .gBegin, .gLock]).isNone = true := by
  decide

end GV.Props.C23
