import GV.Model.BlockFetch
/-!
C23 — Block-fetch returns the blocks that were asked for.

For *every* sequence of server messages (followed by the peer's disconnect):
* a single-block request succeeds only with the requested block — exactly when
  the batch is `StartBatch, Block(requested), BatchDone` — and otherwise fails;
  it never hangs (no handler is left blocked);
* no block, a different block, several blocks ⇒ error;
* a range request delivers the served blocks to the callback in order and then
  completes.
-/
namespace GV.Props.C23
open GV.Model.BlockFetch

/-! ### an independent, regular-expression-like description of GetBlock -/

/-- after `StartBatch, Block h, …` (extra = a further block has been seen) -/
def afterBlock (want h : Nat) : Bool → List Ev → Outcome
  | _, [] => .res .shutdown
  | _, .block _ :: rest => afterBlock want h true rest
  | extra, .batchDone :: _ => .res (if extra then .multi else if h = want then .ok h else .mismatch)
  | _, _ :: _ => .res .shutdown

def afterStart (want : Nat) : List Ev → Outcome
  | [] => .res .shutdown
  | .batchDone :: _ => .res .noBlock
  | .block h :: rest => afterBlock want h false rest
  | _ :: _ => .res .shutdown

def specGet (want : Nat) : List Ev → Outcome
  | [] => .res .shutdown
  | .noBlocks :: _ => .res .notFound
  | .start :: rest => afterStart want rest
  | _ :: _ => .res .shutdown

/-! ### the automaton equals that description -/

theorem step_inert (want : Nat) (s : St) (e : Ev)
    (h : s.stuck = true ∨ s.dead = true ∨ s.ps = .idle) : step want s e = s := by
  unfold step
  rcases h with h | h | h
  · simp [h]
  · simp [h]
  · by_cases hh : (s.stuck || s.dead) = true
    · simp [hh]
    · simp [hh, h]

theorem fold_inert (want : Nat) (evs : List Ev) (s : St)
    (h : s.stuck = true ∨ s.dead = true ∨ s.ps = .idle) : evs.foldl (step want) s = s := by
  induction evs with
  | nil => rfl
  | cons e t ih => simp only [List.foldl_cons, step_inert want s e h]; exact ih

theorem run_afterBlock (want h : Nat) (evs : List Ev) : ∀ extra : Bool,
    finish (evs.foldl (step want) ⟨.streaming, .waitDone h extra, false, false⟩) =
      afterBlock want h extra evs := by
  induction evs with
  | nil => intro extra; simp [finish, afterBlock]
  | cons e t ih =>
    intro extra
    cases e with
    | block h' =>
      have : step want ⟨.streaming, .waitDone h extra, false, false⟩ (.block h') =
          ⟨.streaming, .waitDone h true, false, false⟩ := by simp [step, nextState]
      simp only [List.foldl_cons, this, afterBlock]; exact ih true
    | batchDone =>
      have : step want ⟨.streaming, .waitDone h extra, false, false⟩ .batchDone =
          ⟨.idle, .ret (if extra then .multi else if h = want then .ok h else .mismatch), false, false⟩ := by
        simp [step, nextState]
      simp only [List.foldl_cons, this, afterBlock]
      rw [fold_inert want t _ (Or.inr (Or.inr rfl))]; simp [finish]
    | start =>
      have : step want ⟨.streaming, .waitDone h extra, false, false⟩ .start =
          ⟨.streaming, .ret .shutdown, false, true⟩ := by simp [step, nextState, fail]
      simp only [List.foldl_cons, this, afterBlock]
      rw [fold_inert want t _ (Or.inr (Or.inl rfl))]; simp [finish]
    | noBlocks =>
      have : step want ⟨.streaming, .waitDone h extra, false, false⟩ .noBlocks =
          ⟨.streaming, .ret .shutdown, false, true⟩ := by simp [step, nextState, fail]
      simp only [List.foldl_cons, this, afterBlock]
      rw [fold_inert want t _ (Or.inr (Or.inl rfl))]; simp [finish]
    | bad =>
      have : step want ⟨.streaming, .waitDone h extra, false, false⟩ .bad =
          ⟨.streaming, .ret .shutdown, false, true⟩ := by simp [step, nextState, fail]
      simp only [List.foldl_cons, this, afterBlock]
      rw [fold_inert want t _ (Or.inr (Or.inl rfl))]; simp [finish]

theorem run_afterStart (want : Nat) (evs : List Ev) :
    finish (evs.foldl (step want) ⟨.streaming, .waitBlock, false, false⟩) = afterStart want evs := by
  cases evs with
  | nil => simp [finish, afterStart]
  | cons e t =>
    cases e with
    | block h =>
      have : step want ⟨.streaming, .waitBlock, false, false⟩ (.block h) =
          ⟨.streaming, .waitDone h false, false, false⟩ := by simp [step, nextState]
      simp only [List.foldl_cons, this, afterStart]; exact run_afterBlock want h t false
    | batchDone =>
      have : step want ⟨.streaming, .waitBlock, false, false⟩ .batchDone =
          ⟨.idle, .ret .noBlock, false, false⟩ := by simp [step, nextState]
      simp only [List.foldl_cons, this, afterStart]
      rw [fold_inert want t _ (Or.inr (Or.inr rfl))]; simp [finish]
    | start =>
      have : step want ⟨.streaming, .waitBlock, false, false⟩ .start =
          ⟨.streaming, .ret .shutdown, false, true⟩ := by simp [step, nextState, fail]
      simp only [List.foldl_cons, this, afterStart]
      rw [fold_inert want t _ (Or.inr (Or.inl rfl))]; simp [finish]
    | noBlocks =>
      have : step want ⟨.streaming, .waitBlock, false, false⟩ .noBlocks =
          ⟨.streaming, .ret .shutdown, false, true⟩ := by simp [step, nextState, fail]
      simp only [List.foldl_cons, this, afterStart]
      rw [fold_inert want t _ (Or.inr (Or.inl rfl))]; simp [finish]
    | bad =>
      have : step want ⟨.streaming, .waitBlock, false, false⟩ .bad =
          ⟨.streaming, .ret .shutdown, false, true⟩ := by simp [step, nextState, fail]
      simp only [List.foldl_cons, this, afterStart]
      rw [fold_inert want t _ (Or.inr (Or.inl rfl))]; simp [finish]

/-- The rendezvous automaton computes exactly the regular description. -/
theorem getBlock_eq_spec (want : Nat) (evs : List Ev) : getBlock want evs = specGet want evs := by
  unfold getBlock
  cases evs with
  | nil => simp [finish, specGet, St.init]
  | cons e t =>
    cases e with
    | start =>
      have : step want St.init .start = ⟨.streaming, .waitBlock, false, false⟩ := by
        simp [step, nextState, St.init]
      simp only [List.foldl_cons, this, specGet]; exact run_afterStart want t
    | noBlocks =>
      have : step want St.init .noBlocks = ⟨.idle, .ret .notFound, false, false⟩ := by
        simp [step, nextState, St.init]
      simp only [List.foldl_cons, this, specGet]
      rw [fold_inert want t _ (Or.inr (Or.inr rfl))]; simp [finish]
    | block h =>
      have : step want St.init (.block h) = ⟨.busy, .ret .shutdown, false, true⟩ := by
        simp [step, nextState, St.init, fail]
      simp only [List.foldl_cons, this, specGet]
      rw [fold_inert want t _ (Or.inr (Or.inl rfl))]; simp [finish]
    | bad =>
      have : step want St.init .bad = ⟨.busy, .ret .shutdown, false, true⟩ := by
        simp [step, nextState, St.init, fail]
      simp only [List.foldl_cons, this, specGet]
      rw [fold_inert want t _ (Or.inr (Or.inl rfl))]; simp [finish]
    | batchDone =>
      have : step want St.init .batchDone = ⟨.busy, .ret .shutdown, false, true⟩ := by
        simp [step, nextState, St.init, fail]
      simp only [List.foldl_cons, this, specGet]
      rw [fold_inert want t _ (Or.inr (Or.inl rfl))]; simp [finish]

/-! ### the property -/

theorem afterBlock_ne_hang (want h : Nat) (evs : List Ev) : ∀ extra, afterBlock want h extra evs ≠ .hang := by
  induction evs with
  | nil => intro extra; simp [afterBlock]
  | cons e t ih => intro extra; cases e <;> simp [afterBlock, ih]

/-- No server behaviour makes the call hang: whatever is sent, once the peer
    disconnects GetBlock has returned a block or an error. -/
theorem get_never_hangs (want : Nat) (evs : List Ev) : getBlock want evs ≠ .hang := by
  rw [getBlock_eq_spec]
  cases evs with
  | nil => simp [specGet]
  | cons e t =>
    cases e with
    | start =>
      cases t with
      | nil => simp [specGet, afterStart]
      | cons e2 t2 => cases e2 <;> simp [specGet, afterStart, afterBlock_ne_hang]
    | _ => simp [specGet]

theorem afterBlock_ok (want h : Nat) (evs : List Ev) : ∀ extra x,
    afterBlock want h extra evs = .res (.ok x) →
    extra = false ∧ h = want ∧ x = want ∧ ∃ rest, evs = .batchDone :: rest := by
  induction evs with
  | nil => intro extra x hh; simp [afterBlock] at hh
  | cons e t ih =>
    intro extra x hh
    cases e with
    | block h' =>
      simp only [afterBlock] at hh
      have := ih true x hh
      simp at this
    | batchDone =>
      simp only [afterBlock, Outcome.res.injEq] at hh
      cases extra with
      | true => simp at hh
      | false =>
        by_cases hw : h = want
        · simp only [Bool.false_eq_true, ↓reduceIte, hw, Res.ok.injEq] at hh
          exact ⟨rfl, hw, hh.symm, t, rfl⟩
        · simp [hw] at hh
    | start => simp [afterBlock] at hh
    | noBlocks => simp [afterBlock] at hh
    | bad => simp [afterBlock] at hh

/-- GetBlock succeeds **iff** the server's batch is exactly
    `StartBatch, Block(requested point), BatchDone` (whatever follows is never
    looked at), and then it returns that block. -/
theorem get_ok_iff (want x : Nat) (evs : List Ev) :
    getBlock want evs = .res (.ok x) ↔
      x = want ∧ ∃ rest, evs = .start :: .block want :: .batchDone :: rest := by
  rw [getBlock_eq_spec]
  constructor
  · intro h
    cases evs with
    | nil => simp [specGet] at h
    | cons e t =>
      cases e with
      | start =>
        simp only [specGet] at h
        cases t with
        | nil => simp [afterStart] at h
        | cons e2 t2 =>
          cases e2 with
          | block h0 =>
            simp only [afterStart] at h
            obtain ⟨_, hw, hx, rest, hr⟩ := afterBlock_ok want h0 t2 false x h
            subst hw; subst hr
            exact ⟨hx, rest, rfl⟩
          | _ => simp [afterStart] at h
      | _ => simp [specGet] at h
  · rintro ⟨hx, rest, rfl⟩
    subst hx
    simp [specGet, afterStart, afterBlock]

/-- A successful single-block request returns only the requested block. -/
theorem get_only_matching (want x : Nat) (evs : List Ev) (h : getBlock want evs = .res (.ok x)) :
    x = want := ((get_ok_iff want x evs).mp h).1

/-- no block at all -/
theorem get_empty_batch_fails (want : Nat) (rest : List Ev) :
    getBlock want (.start :: .batchDone :: rest) = .res .noBlock := by
  rw [getBlock_eq_spec]; rfl

/-- "block(s) not found" -/
theorem get_no_blocks_fails (want : Nat) (rest : List Ev) :
    getBlock want (.noBlocks :: rest) = .res .notFound := by
  rw [getBlock_eq_spec]; rfl

/-- a different block -/
theorem get_wrong_block_fails (want h : Nat) (rest : List Ev) (hne : h ≠ want) :
    getBlock want (.start :: .block h :: .batchDone :: rest) = .res .mismatch := by
  rw [getBlock_eq_spec]; simp [specGet, afterStart, afterBlock, hne]

theorem afterBlock_blocks (want h : Nat) (bs : List Nat) (rest : List Ev) :
    afterBlock want h true (bs.map Ev.block ++ .batchDone :: rest) = .res .multi := by
  induction bs with
  | nil => simp [afterBlock]
  | cons b t ih => simpa [afterBlock] using ih

/-- several blocks (two or more, the requested one among them or not) -/
theorem get_several_blocks_fail (want h1 h2 : Nat) (bs : List Nat) (rest : List Ev) :
    getBlock want (.start :: .block h1 :: .block h2 :: (bs.map Ev.block ++ .batchDone :: rest)) =
      .res .multi := by
  rw [getBlock_eq_spec]
  simp only [specGet, afterStart, afterBlock]
  exact afterBlock_blocks want h1 bs rest

/-- silence then disconnect at any earlier point is an error, not a hang, not a block -/
theorem get_truncated_fails (want : Nat) (bs : List Nat) :
    getBlock want [] = .res .shutdown ∧ getBlock want [.start] = .res .shutdown ∧
    getBlock want (.start :: bs.map Ev.block) = .res .shutdown := by
  refine ⟨by rw [getBlock_eq_spec]; rfl, by rw [getBlock_eq_spec]; rfl, ?_⟩
  rw [getBlock_eq_spec]
  cases bs with
  | nil => rfl
  | cons b t =>
    simp only [specGet, List.map_cons, afterStart]
    have : ∀ (l : List Nat) extra, afterBlock want b extra (l.map Ev.block) = .res .shutdown := by
      intro l; induction l with
      | nil => intro extra; rfl
      | cons a l ih => intro extra; simpa [afterBlock] using ih true
    exact this t false

/-- non-vacuity: concrete runs of the automaton -/
example : getBlock 3 [.start, .block 3, .batchDone] = .res (.ok 3) := by decide
example : getBlock 3 [.start, .block 4, .batchDone] = .res .mismatch := by decide
example : getBlock 3 [.start, .batchDone] = .res .noBlock := by decide
example : getBlock 3 [.start, .block 3, .block 4, .batchDone] = .res .multi := by decide

/-- What was repaired (fix df05c01), on the pre-fix handler/caller rendezvous: a wrong
    block was returned as if it were the requested one, an empty batch and a second block
    left a handler blocked for good — the call hung even after the peer had gone. -/
theorem prefix_defects_witness :
    getBlockOld [.start, .block 4, .batchDone] = .res (.ok 4) ∧
    getBlockOld [.start, .batchDone] = .hang ∧
    getBlockOld [.start, .block 3, .block 4, .batchDone] = .hang := by decide

/-! ### range requests -/

theorem rfold_inert (evs : List Ev) (s : RSt) (h : s.dead = true ∨ s.ps = .idle) :
    evs.foldl rstep s = s := by
  induction evs with
  | nil => rfl
  | cons e t ih =>
    have : rstep s e = s := by
      unfold rstep
      rcases h with h | h
      · simp [h]
      · by_cases hd : s.dead = true
        · simp [hd]
        · simp [hd, h]
    simp only [List.foldl_cons, this]; exact ih

theorem rfold_blocks (bs : List Nat) : ∀ (ret : Option Res) (cbs : List Nat) (d : Nat),
    (bs.map Ev.block).foldl rstep ⟨.streaming, ret, true, cbs, d, false⟩ =
      ⟨.streaming, ret, true, cbs ++ bs, d, false⟩ := by
  induction bs with
  | nil => intro ret cbs d; simp
  | cons b t ih =>
    intro ret cbs d
    have : rstep ⟨.streaming, ret, true, cbs, d, false⟩ (.block b) =
        ⟨.streaming, ret, true, cbs ++ [b], d, false⟩ := by simp [rstep, nextState]
    simp only [List.map_cons, List.foldl_cons, this, ih]
    simp

/-- A range request whose batch is served (`StartBatch, blocks…, BatchDone`)
    returns without error, hands the blocks to the callback in the order served,
    and then signals completion exactly once — whatever follows. -/
theorem range_in_order_then_done (bs : List Nat) (rest : List Ev) :
    let s := rangeRun (.start :: (bs.map Ev.block ++ .batchDone :: rest))
    s.result = none ∧ s.cbs = bs ∧ s.done = 1 := by
  have h1 : rstep RSt.init .start = ⟨.streaming, none, true, [], 0, false⟩ := by
    simp [rstep, nextState, RSt.init]
  have h2 : rstep ⟨.streaming, none, true, [] ++ bs, 0, false⟩ .batchDone =
      ⟨.idle, none, true, [] ++ bs, 1, false⟩ := by simp [rstep, nextState]
  simp only [rangeRun, List.foldl_cons, h1, List.foldl_append, rfold_blocks, h2]
  rw [rfold_inert rest _ (Or.inr rfl)]
  simp [RSt.result]

/-- while the batch is still streaming the callbacks so far are the blocks so far, in order -/
theorem range_prefix_in_order (bs : List Nat) :
    let s := rangeRun (.start :: bs.map Ev.block)
    s.result = none ∧ s.cbs = bs ∧ s.done = 0 := by
  have h1 : rstep RSt.init .start = ⟨.streaming, none, true, [], 0, false⟩ := by
    simp [rstep, nextState, RSt.init]
  simp only [rangeRun, List.foldl_cons, h1, rfold_blocks]
  simp [RSt.result]

example : (rangeRun [.start, .block 1, .block 2, .batchDone]).cbs = [1, 2] := by decide

end GV.Props.C23
