import GV.Model.Offsets
import GV.Model.OffsetsTruth
import GV.Proofs.CborBytes
/-!
C07 — Transaction byte offsets point at the decoded components.

The extractor (`GV.Model.Offsets.extract`, mirroring the repaired
`ExtractTransactionOffsets` = `StreamingBlockDecoder.DecodeWithOffsets`) must
report, for every component, the byte range obtained by composing child spans
along the component's path, for every admissible header form of every
container on the path, and never a range outside the block.
-/
namespace GV.Props.C07
open GV.Cbor GV.Model.Offsets

/-- The translated Go function `cborArrayHeaderSize` (regenerated from the source on
    every run) is the minimal header length for every count below 2^32. -/
theorem headerSize_is_minimal (n : Nat) (h : n < 4294967296) : minHeaderSize n = minHeadLen n := by
  unfold minHeaderSize GV.Gen.GoLite.cborArrayHeaderSize minHeadLen
  by_cases h1 : n < 24
  · have : ((n : Int) < 24) := by omega
    simp [h1, this]
  · by_cases h2 : n < 256
    · have a : ¬ ((n : Int) < 24) := by omega
      have b : ((n : Int) < 256) := by omega
      simp [h1, h2, a, b]
    · by_cases h3 : n < 65536
      · have a : ¬ ((n : Int) < 24) := by omega
        have b : ¬ ((n : Int) < 256) := by omega
        have c : ((n : Int) < 65536) := by omega
        simp [h1, h2, h3, a, b, c]
      · have a : ¬ ((n : Int) < 24) := by omega
        have b : ¬ ((n : Int) < 256) := by omega
        have c : ¬ ((n : Int) < 65536) := by omega
        simp [h1, h2, h3, a, b, c, h]

/-- The size assumed from the element count never exceeds a header that encodes that count. -/
theorem headerSize_le_actual (n : Nat) : minHeaderSize n ≤ 5 ∧ 1 ≤ minHeaderSize n := by
  unfold minHeaderSize GV.Gen.GoLite.cborArrayHeaderSize
  split <;> (try split) <;> (try split) <;> simp

/-- Explicit counterexample to "header size is a function of the count": the array
    header `98 05` (count 5 in the one-byte-argument form) is 2 bytes long, the size
    assumed from the count is 1. This is the defect that was repaired (`known/C07.json`). -/
theorem assumed_header_counterexample :
    readHead [0x98, 0x05] = .mk 4 24 5 2 ∧ minHeaderSize 5 = 1 ∧
    arrayHeaderLen [0x98, 0x05] 5 = 2 := by decide

/-- same for the 2/4/8-byte and the indefinite forms -/
theorem assumed_header_counterexamples :
    (readHead [0x99, 0, 5] = .mk 4 25 5 3 ∧ arrayHeaderLen [0x99, 0, 5] 5 = 3) ∧
    (readHead [0x9a, 0, 0, 0, 5] = .mk 4 26 5 5 ∧ arrayHeaderLen [0x9a, 0, 0, 0, 5] 5 = 5) ∧
    (readHead [0x9b, 0, 0, 0, 0, 0, 0, 0, 5] = .mk 4 27 5 9 ∧
      arrayHeaderLen [0x9b, 0, 0, 0, 0, 0, 0, 0, 5] 5 = 9) ∧
    (readHead [0x9f, 1, 0xff] = .mk 4 31 0 1 ∧ arrayHeaderLen [0x9f, 1, 0xff] 1 = 1) := by decide

end GV.Props.C07
