import GV.Model.Offsets
import GV.Model.OffsetsTruth
import GV.Model.OffsetsWit
import GV.Proofs.CborBytes
import GV.Proofs.Offsets
import GV.Proofs.OffsetsMap
import GV.Proofs.OffsetsByron
import GV.Proofs.OffsetsDijkstra
/-!
C07 — Transaction byte offsets point at the decoded components.

The extractor (`GV.Model.Offsets.extract`, mirroring the repaired
`ExtractTransactionOffsets` = `StreamingBlockDecoder.DecodeWithOffsets`) must
report, for every component, the byte range obtained by composing child spans
along the component's path, for every admissible header form of every
container on the path, and never a range outside the block.
-/
namespace GV.Props.C07
open GV.Cbor GV.Model.Offsets

/-- The translated Go function `cborArrayHeaderSize` (regenerated from the source on
    every run) is the minimal header length for every count below 2^32. -/
theorem headerSize_is_minimal (n : Nat) (h : n < 4294967296) : minHeaderSize n = minHeadLen n := by
  unfold minHeaderSize GV.Gen.GoLite.cborArrayHeaderSize minHeadLen
  by_cases h1 : n < 24
  · have : ((n : Int) < 24) := by omega
    simp [h1, this]
  · by_cases h2 : n < 256
    · have a : ¬ ((n : Int) < 24) := by omega
      have b : ((n : Int) < 256) := by omega
      simp [h1, h2, a, b]
    · by_cases h3 : n < 65536
      · have a : ¬ ((n : Int) < 24) := by omega
        have b : ¬ ((n : Int) < 256) := by omega
        have c : ((n : Int) < 65536) := by omega
        simp [h1, h2, h3, a, b, c]
      · have a : ¬ ((n : Int) < 24) := by omega
        have b : ¬ ((n : Int) < 256) := by omega
        have c : ¬ ((n : Int) < 65536) := by omega
        simp [h1, h2, h3, a, b, c, h]

/-- The size assumed from the element count never exceeds a header that encodes that count. -/
theorem headerSize_le_actual (n : Nat) : minHeaderSize n ≤ 5 ∧ 1 ≤ minHeaderSize n := by
  unfold minHeaderSize GV.Gen.GoLite.cborArrayHeaderSize
  split <;> (try split) <;> (try split) <;> simp

/-- Explicit counterexample to "header size is a function of the count": the array
    header `98 05` (count 5 in the one-byte-argument form) is 2 bytes long, the size
    assumed from the count is 1. This is the defect that was repaired (`known/C07.json`). -/
theorem assumed_header_counterexample :
    readHead [0x98, 0x05] = .mk 4 24 5 2 ∧ minHeaderSize 5 = 1 ∧
    arrayHeaderLen [0x98, 0x05] 5 = 2 := by decide

/-- same for the 2/4/8-byte and the indefinite forms -/
theorem assumed_header_counterexamples :
    (readHead [0x99, 0, 5] = .mk 4 25 5 3 ∧ arrayHeaderLen [0x99, 0, 5] 5 = 3) ∧
    (readHead [0x9a, 0, 0, 0, 5] = .mk 4 26 5 5 ∧ arrayHeaderLen [0x9a, 0, 0, 0, 5] 5 = 5) ∧
    (readHead [0x9b, 0, 0, 0, 0, 0, 0, 0, 5] = .mk 4 27 5 9 ∧
      arrayHeaderLen [0x9b, 0, 0, 0, 0, 0, 0, 0, 5] 5 = 9) ∧
    (readHead [0x9f, 1, 0xff] = .mk 4 31 0 1 ∧ arrayHeaderLen [0x9f, 1, 0xff] 1 = 1) := by decide


theorem slice_slice (b : Bytes) (O L o l : Nat) (h : o + l ≤ L) :
    slice (slice b O L) o l = slice b (O + o) l := by
  unfold slice
  rw [List.drop_take, List.take_take, List.drop_drop, Nat.min_eq_left (by omega)]

/-- **offsets_slice / offsets_in_bounds (Shelley..Conway layout).** For a block of fewer than
    2^31 bytes whose top level, bodies segment and witnesses segment are arrays — with ANY
    header form on each of the three (minimal, 1/2/4/8-byte count, indefinite) — the ranges
    reported for transaction bodies and witness sets are exactly the compositions of the
    child spans (top → segment → item), they lie inside the block, and they slice out
    exactly the item's bytes as the array decoder sees them. -/
theorem offsets_slice_shelley {b hdr bodiesRaw witsRaw : Bytes} {rest : List Bytes} {locs : List Loc}
    {ai arg hl ai1 arg1 hl1 ai2 arg2 hl2 : Nat}
    (hlen : b.length ≤ 2147483647)
    (harr : readHead b = .mk 4 ai arg hl)
    (htop : rawItems b = some (hdr :: bodiesRaw :: witsRaw :: rest))
    (hB : readHead bodiesRaw = .mk 4 ai1 arg1 hl1) (hW : readHead witsRaw = .mk 4 ai2 arg2 hl2)
    (h : shelleyOffsets b (hdr :: bodiesRaw :: witsRaw :: rest) = some locs) :
    ∃ cs0 i0 s0 s1 s2 rest' cs1 i1 cs2 i2,
      childSpans b = some (hl, cs0, i0) ∧ cs0 = s0 :: s1 :: s2 :: rest' ∧
      bodiesRaw = slice b s1.1 s1.2 ∧ witsRaw = slice b s2.1 s2.2 ∧
      childSpans bodiesRaw = some (hl1, cs1, i1) ∧ childSpans witsRaw = some (hl2, cs2, i2) ∧
      locs.map (·.body) = cs1.map (fun p => (s1.1 + p.1, p.2)) ∧
      locs.map (·.wit) = cs2.map (fun p => (s2.1 + p.1, p.2)) ∧
      (∀ p ∈ cs1, s1.1 + p.1 + p.2 ≤ b.length ∧
        slice b (s1.1 + p.1) p.2 = slice bodiesRaw p.1 p.2) ∧
      (∀ p ∈ cs2, s2.1 + p.1 + p.2 ≤ b.length ∧
        slice b (s2.1 + p.1) p.2 = slice witsRaw p.1 p.2) := by
  obtain ⟨cs0, i0, hc0, hitems, hwalk, hin0⟩ :=
    array_walk_exact 0 (hdr :: bodiesRaw :: witsRaw :: rest).length harr htop hlen
  -- shape of cs0
  cases cs0 with
  | nil => simp at hitems
  | cons s0 cs0 =>
  cases cs0 with
  | nil => simp at hitems
  | cons s1 cs0 =>
  cases cs0 with
  | nil => simp at hitems
  | cons s2 rest' =>
  simp only [List.map_cons, List.cons.injEq] at hitems
  obtain ⟨hh, hb1, hw1, _⟩ := hitems
  have hs0 : s0.1 + s0.2 ≤ b.length := hin0 s0 (by simp)
  have hs1 : s1.1 + s1.2 ≤ b.length := hin0 s1 (by simp)
  have hs2 : s2.1 + s2.2 ≤ b.length := hin0 s2 (by simp)
  have hBl : bodiesRaw.length = s1.2 := by rw [hb1]; exact slice_length hs1
  have hWl : witsRaw.length = s2.2 := by rw [hw1]; exact slice_length hs2
  -- offsets of the segments from the walk over the top-level items
  simp only [walk, List.map_cons, List.cons.injEq, Prod.mk.injEq, Nat.zero_add] at hwalk
  obtain ⟨⟨e0, _⟩, ⟨e1, _⟩, ⟨e2, _⟩, _⟩ := hwalk
  -- unfold the extractor
  simp only [shelleyOffsets] at h
  cases hrb : rawItems bodiesRaw with
  | none => rw [hrb] at h; simp at h
  | some bodies =>
  cases hrw : rawItems witsRaw with
  | none => rw [hrb, hrw] at h; simp at h
  | some wits =>
  rw [hrb, hrw] at h
  simp only at h
  split at h
  · cases h
  · rename_i hne
    have hlenEq : bodies.length = wits.length := by
      simpa using hne
    simp only [Option.some.injEq] at h
    obtain ⟨cs1, i1, hc1, hit1, hwalk1, hin1⟩ :=
      array_walk_exact (arrayHeaderLen b (hdr :: bodiesRaw :: witsRaw :: rest).length + hdr.length)
        bodies.length hB hrb (by omega)
    obtain ⟨cs2, i2, hc2, hit2, hwalk2, hin2⟩ :=
      array_walk_exact (arrayHeaderLen b (hdr :: bodiesRaw :: witsRaw :: rest).length + hdr.length
        + bodiesRaw.length) wits.length hW hrw (by omega)
    subst h
    have l1 : (walk (arrayHeaderLen b (hdr :: bodiesRaw :: witsRaw :: rest).length + hdr.length
        + arrayHeaderLen bodiesRaw bodies.length) bodies).length =
        (walk (arrayHeaderLen b (hdr :: bodiesRaw :: witsRaw :: rest).length + hdr.length
        + bodiesRaw.length + arrayHeaderLen witsRaw wits.length) wits).length := by
      simp [walk_length, hlenEq]
    have l2 : (walk (arrayHeaderLen b (hdr :: bodiesRaw :: witsRaw :: rest).length + hdr.length
        + arrayHeaderLen bodiesRaw bodies.length) bodies).length =
        (bodiesOutputs (arrayHeaderLen b (hdr :: bodiesRaw :: witsRaw :: rest).length + hdr.length
        + arrayHeaderLen bodiesRaw bodies.length) bodies).length := by
      simp [walk_length, bodiesOutputs_length]
    refine ⟨s0 :: s1 :: s2 :: rest', i0, s0, s1, s2, rest', cs1, i1, cs2, i2, hc0, rfl, hb1, hw1,
      hc1, hc2, ?_, ?_, ?_, ?_⟩
    · rw [(zipLocs_proj _ _ _ _ _ l1 l2).1, hwalk1, e1]
    · rw [(zipLocs_proj _ _ _ _ _ l1 l2).2.1, hwalk2, hBl]
      have : s2.1 = s1.1 + s1.2 := by omega
      rw [e1, this]
    · intro p hp
      have := hin1 p hp
      rw [hBl] at this
      refine ⟨by omega, ?_⟩
      rw [hb1, slice_slice b s1.1 s1.2 p.1 p.2 this]
    · intro p hp
      have := hin2 p hp
      rw [hWl] at this
      refine ⟨by omega, ?_⟩
      rw [hw1, slice_slice b s2.1 s2.2 p.1 p.2 this]


/-- **Outputs (Shelley..Dijkstra bodies).** For a transaction body that is a map — definite
    header of any width or indefinite — whose first key `1` (all earlier keys unsigned
    integers) has as value an array with children `cs` (any header form): the reported output
    ranges are exactly those children, shifted to the body's position; they lie inside the value. -/
theorem outputs_exact {data : Bytes} {h : Nat} {kv : List (Nat × Nat)} {ind : Bool} {ai arg : Nat}
    {v : Nat × Nat} {ai' arg' hl : Nat} {cs : List (Nat × Nat)} {ind' : Bool} (base : Nat)
    (hc : childSpans data = some (h, kv, ind)) (hrh : readHead data = .mk 5 ai arg h)
    (hlen : data.length ≤ 2147483647)
    (hkey : firstKey data 1 kv = some v) (hv : v ∈ kv)
    (hrv : readHead (slice data v.1 v.2) = .mk 4 ai' arg' hl)
    (hcv : childSpans (slice data v.1 v.2) = some (hl, cs, ind')) :
    outputOffsets data base = cs.map (fun p => (base + v.1 + p.1, p.2)) ∧ InBounds v.2 cs := by
  obtain ⟨_, _, _, _, _, _, _, _, _, hwf, _⟩ := childSpans_props hc
  rw [outputOffsets_eq base hc hrh hlen, hkey]
  exact outputsAt_exact base (hwf v hv) hrv hcv hlen

/-- a body without key 1 (all keys unsigned integers ≠ 1) reports no outputs -/
theorem outputs_none {data : Bytes} {h : Nat} {kv : List (Nat × Nat)} {ind : Bool} {ai arg : Nat}
    (base : Nat) (hc : childSpans data = some (h, kv, ind)) (hrh : readHead data = .mk 5 ai arg h)
    (hlen : data.length ≤ 2147483647) (hkey : firstKey data 1 kv = none) :
    outputOffsets data base = [] := by
  rw [outputOffsets_eq base hc hrh hlen, hkey]

/-- **Metadata.** For a metadata segment that is a map (any header form) whose keys are
    unsigned integers, the range attributed to transaction `k` (a uint32 index) is the value
    under the last key equal to `k`, shifted to the segment's position — and nothing if there
    is no such key (in particular a key ≥ 2^32 is attributed to no transaction). -/
theorem metadata_exact {data : Bytes} {h : Nat} {kv : List (Nat × Nat)} {ind : Bool} {ai arg : Nat}
    (base k : Nat) (hk : k ≤ 4294967295)
    (hc : childSpans data = some (h, kv, ind)) (hrh : readHead data = .mk 5 ai arg h)
    (hlen : data.length ≤ 2147483647)
    (hkeys : ∀ j, 2 * j < kv.length →
      ∃ key kl, readUint (data.drop (kv.getD (2 * j) (0, 0)).1) = some (key, kl)) :
    lookupLast k (metadataOffsets data base) = lastKey data base k kv := by
  rw [metadataOffsets_eq base hc hrh hlen]
  have hev := childSpans_map_even hc hrh
  exact lookupLast_metaEntries data base k hk (kv.length / 2) kv (by omega) hkeys

/-- **Byron.** `extractByronTransactionOffsets` (with `extractByronOutputOffsets`) reports the
    path compositions for block → body → tx payload → pair → (tx body, witnesses), any header
    form on each array. (`byronOutputs_exact` does the same for the outputs of each tx body.) -/
theorem byron_exact {b : Bytes} {h0 h1 h2 : Nat} {s0 s1 s2 t0 t1 t2 t3 : Nat × Nat}
    {ps : List (Nat × Nat)} (hlen : b.length ≤ 2147483647)
    (hT : ArrAt b h0 [s0, s1, s2])
    (hB : ArrAt (slice b s1.1 s1.2) h1 [t0, t1, t2, t3])
    (hP : ArrAt (slice (slice b s1.1 s1.2) t0.1 t0.2) h2 ps)
    (hk : ∀ p ∈ ps, 2 ≤ (pairKids (slice (slice b s1.1 s1.2) t0.1 t0.2) p).length) :
    byronOffsets b ([s0, s1, s2].map fun p => slice b p.1 p.2) =
      some (ps.map (pairTruth (slice (slice b s1.1 s1.2) t0.1 t0.2) (s1.1 + t0.1))) :=
  byronOffsets_exact hlen hT hB hP hk

/-- **Dijkstra.** `extractDijkstraTransactionOffsets` reports the path compositions for
    block → block body → transactions → transaction → (body, witness set, aux), any header form. -/
theorem dijkstra_exact {b : Bytes} {h0 h1 h2 : Nat} {c0 c1 u0 u1 u2 u3 : Nat × Nat}
    {ts : List (Nat × Nat)} (hlen : b.length ≤ 2147483647)
    (hT : ArrAt b h0 [c0, c1])
    (hB : ArrAt (slice b c1.1 c1.2) h1 [u0, u1, u2, u3])
    (hX : ArrAt (slice (slice b c1.1 c1.2) u1.1 u1.2) h2 ts)
    (hk : ∀ t ∈ ts, (pairKids (slice (slice b c1.1 c1.2) u1.1 u1.2) t).length = 3) :
    dijkstraOffsets b ([c0, c1].map fun p => slice b p.1 p.2) =
      some (ts.map (txTruth (slice (slice b c1.1 c1.2) u1.1 u1.2) (c1.1 + u1.1))) :=
  dijkstraOffsets_exact hlen hT hB hX hk

/-! ### Script keys (recorded finding `script-key`)

The `Scripts` map is documented as "script hash → byte location". The extractor hashes
language ‖ <CBOR item bytes> for every script; `Script.Hash()` hashes language ‖ <CBOR> for a
native script but language ‖ <script bytes> (the content of the byte string) for Plutus
scripts. The repository's own test pins the extractor's behaviour, so this is recorded, not
repaired. -/

open GV.Model.OffsetsWit in
/-- Full demand: the bytes hashed into the key are the bytes the script's own hash covers. -/
def C07_scriptkey_full : Prop :=
  ∀ (ty : Nat) (item c : Bytes), scriptHashBytes ty item = some c → extractorKeyBytes ty item = c

open GV.Model.OffsetsWit in
/-- It holds for native scripts (language 0). -/
theorem C07_scriptkey_partial (item c : Bytes) (h : scriptHashBytes 0 item = some c) :
    extractorKeyBytes 0 item = c := by
  simpa [scriptHashBytes, extractorKeyBytes] using h

open GV.Model.OffsetsWit in
/-- It fails for Plutus scripts: the script `41 00` encoded `42 41 00` is keyed by the three
    CBOR bytes instead of its two script bytes. -/
theorem C07_scriptkey_witness : ¬ C07_scriptkey_full := by
  intro h
  have := h 1 [0x42, 0x41, 0x00] [0x41, 0x00] (by decide)
  exact absurd this (by decide)

/-- Non-vacuity of the Byron / Dijkstra / outputs / metadata statements: concrete blocks with
    non-minimal and indefinite headers on the path. -/
example : extract [0x98, 0x03, 0x80, 0x9f, 0x98, 0x01, 0x9f, 0x83, 0x80, 0x98, 0x01, 0x82, 0x00, 0x00, 0xa0,
    0x80, 0xff, 0x00, 0x00, 0x00, 0xff, 0xa0] =
    some [{ body := (7, 8), wit := (15, 1), outs := [(11, 3)] }] := by decide

example : extract [0x9f, 0x80, 0x98, 0x04, 0xf6, 0x99, 0x00, 0x01, 0x9f, 0xbf, 0x01, 0x98, 0x01, 0x82, 0x00, 0x00, 0xff,
    0xa0, 0xa1, 0x00, 0x00, 0xff, 0xf6, 0xf6, 0xff] =
    some [{ body := (9, 8), wit := (17, 1), aux := (18, 3), outs := [(13, 3)] }] := by decide

/-- Non-vacuity: a block `[hdr, bodies, witnesses, metadata]` whose top-level header is the
    non-minimal `98 04`, whose bodies array is indefinite, whose witnesses array has a
    2-byte count and whose outputs array is `98 01`: the hypotheses of
    `offsets_slice_shelley` hold and the extractor reports the path-composed spans. -/
def exampleBlock : Bytes :=
  [0x98, 0x04, 0x80, 0x9f, 0xa1, 0x01, 0x98, 0x01, 0x82, 0x00, 0x00, 0xff,
   0x99, 0x00, 0x01, 0xa0, 0xa1, 0x00, 0x61, 0x41]

example : extract exampleBlock =
    some [{ body := (4, 7), wit := (15, 1), aux := (18, 2), outs := [(8, 3)] }] := by decide

example : GV.Model.OffsetsTruth.truth "shelley" exampleBlock = extract exampleBlock := by decide

example : readHead exampleBlock = .mk 4 24 4 2 ∧
    rawItems exampleBlock = some [[0x80], [0x9f, 0xa1, 0x01, 0x98, 0x01, 0x82, 0x00, 0x00, 0xff],
      [0x99, 0x00, 0x01, 0xa0], [0xa1, 0x00, 0x61, 0x41]] := by decide

end GV.Props.C07
