import GV.Model.Offsets
import GV.Model.OffsetsTruth
import GV.Proofs.CborBytes
import GV.Proofs.Offsets
/-!
C07 — Transaction byte offsets point at the decoded components.

The extractor (`GV.Model.Offsets.extract`, mirroring the repaired
`ExtractTransactionOffsets` = `StreamingBlockDecoder.DecodeWithOffsets`) must
report, for every component, the byte range obtained by composing child spans
along the component's path, for every admissible header form of every
container on the path, and never a range outside the block.
-/
namespace GV.Props.C07
open GV.Cbor GV.Model.Offsets

/-- The translated Go function `cborArrayHeaderSize` (regenerated from the source on
    every run) is the minimal header length for every count below 2^32. -/
theorem headerSize_is_minimal (n : Nat) (h : n < 4294967296) : minHeaderSize n = minHeadLen n := by
  unfold minHeaderSize GV.Gen.GoLite.cborArrayHeaderSize minHeadLen
  by_cases h1 : n < 24
  · have : ((n : Int) < 24) := by omega
    simp [h1, this]
  · by_cases h2 : n < 256
    · have a : ¬ ((n : Int) < 24) := by omega
      have b : ((n : Int) < 256) := by omega
      simp [h1, h2, a, b]
    · by_cases h3 : n < 65536
      · have a : ¬ ((n : Int) < 24) := by omega
        have b : ¬ ((n : Int) < 256) := by omega
        have c : ((n : Int) < 65536) := by omega
        simp [h1, h2, h3, a, b, c]
      · have a : ¬ ((n : Int) < 24) := by omega
        have b : ¬ ((n : Int) < 256) := by omega
        have c : ¬ ((n : Int) < 65536) := by omega
        simp [h1, h2, h3, a, b, c, h]

/-- The size assumed from the element count never exceeds a header that encodes that count. -/
theorem headerSize_le_actual (n : Nat) : minHeaderSize n ≤ 5 ∧ 1 ≤ minHeaderSize n := by
  unfold minHeaderSize GV.Gen.GoLite.cborArrayHeaderSize
  split <;> (try split) <;> (try split) <;> simp

/-- Explicit counterexample to "header size is a function of the count": the array
    header `98 05` (count 5 in the one-byte-argument form) is 2 bytes long, the size
    assumed from the count is 1. This is the defect that was repaired (`known/C07.json`). -/
theorem assumed_header_counterexample :
    readHead [0x98, 0x05] = .mk 4 24 5 2 ∧ minHeaderSize 5 = 1 ∧
    arrayHeaderLen [0x98, 0x05] 5 = 2 := by decide

/-- same for the 2/4/8-byte and the indefinite forms -/
theorem assumed_header_counterexamples :
    (readHead [0x99, 0, 5] = .mk 4 25 5 3 ∧ arrayHeaderLen [0x99, 0, 5] 5 = 3) ∧
    (readHead [0x9a, 0, 0, 0, 5] = .mk 4 26 5 5 ∧ arrayHeaderLen [0x9a, 0, 0, 0, 5] 5 = 5) ∧
    (readHead [0x9b, 0, 0, 0, 0, 0, 0, 0, 5] = .mk 4 27 5 9 ∧
      arrayHeaderLen [0x9b, 0, 0, 0, 0, 0, 0, 0, 5] 5 = 9) ∧
    (readHead [0x9f, 1, 0xff] = .mk 4 31 0 1 ∧ arrayHeaderLen [0x9f, 1, 0xff] 1 = 1) := by decide


theorem slice_slice (b : Bytes) (O L o l : Nat) (h : o + l ≤ L) :
    slice (slice b O L) o l = slice b (O + o) l := by
  unfold slice
  rw [List.drop_take, List.take_take, List.drop_drop, Nat.min_eq_left (by omega)]

/-- **offsets_slice / offsets_in_bounds (Shelley..Conway layout).** For a block of fewer than
    2^31 bytes whose top level, bodies segment and witnesses segment are arrays — with ANY
    header form on each of the three (minimal, 1/2/4/8-byte count, indefinite) — the ranges
    reported for transaction bodies and witness sets are exactly the compositions of the
    child spans (top → segment → item), they lie inside the block, and they slice out
    exactly the item's bytes as the array decoder sees them. -/
theorem offsets_slice_shelley {b hdr bodiesRaw witsRaw : Bytes} {rest : List Bytes} {locs : List Loc}
    {ai arg hl ai1 arg1 hl1 ai2 arg2 hl2 : Nat}
    (hlen : b.length ≤ 2147483647)
    (harr : readHead b = .mk 4 ai arg hl)
    (htop : rawItems b = some (hdr :: bodiesRaw :: witsRaw :: rest))
    (hB : readHead bodiesRaw = .mk 4 ai1 arg1 hl1) (hW : readHead witsRaw = .mk 4 ai2 arg2 hl2)
    (h : shelleyOffsets b (hdr :: bodiesRaw :: witsRaw :: rest) = some locs) :
    ∃ cs0 i0 s0 s1 s2 rest' cs1 i1 cs2 i2,
      childSpans b = some (hl, cs0, i0) ∧ cs0 = s0 :: s1 :: s2 :: rest' ∧
      bodiesRaw = slice b s1.1 s1.2 ∧ witsRaw = slice b s2.1 s2.2 ∧
      childSpans bodiesRaw = some (hl1, cs1, i1) ∧ childSpans witsRaw = some (hl2, cs2, i2) ∧
      locs.map (·.body) = cs1.map (fun p => (s1.1 + p.1, p.2)) ∧
      locs.map (·.wit) = cs2.map (fun p => (s2.1 + p.1, p.2)) ∧
      (∀ p ∈ cs1, s1.1 + p.1 + p.2 ≤ b.length ∧
        slice b (s1.1 + p.1) p.2 = slice bodiesRaw p.1 p.2) ∧
      (∀ p ∈ cs2, s2.1 + p.1 + p.2 ≤ b.length ∧
        slice b (s2.1 + p.1) p.2 = slice witsRaw p.1 p.2) := by
  obtain ⟨cs0, i0, hc0, hitems, hwalk, hin0⟩ :=
    array_walk_exact 0 (hdr :: bodiesRaw :: witsRaw :: rest).length harr htop hlen
  -- shape of cs0
  cases cs0 with
  | nil => simp at hitems
  | cons s0 cs0 =>
  cases cs0 with
  | nil => simp at hitems
  | cons s1 cs0 =>
  cases cs0 with
  | nil => simp at hitems
  | cons s2 rest' =>
  simp only [List.map_cons, List.cons.injEq] at hitems
  obtain ⟨hh, hb1, hw1, _⟩ := hitems
  have hs0 : s0.1 + s0.2 ≤ b.length := hin0 s0 (by simp)
  have hs1 : s1.1 + s1.2 ≤ b.length := hin0 s1 (by simp)
  have hs2 : s2.1 + s2.2 ≤ b.length := hin0 s2 (by simp)
  have hBl : bodiesRaw.length = s1.2 := by rw [hb1]; exact slice_length hs1
  have hWl : witsRaw.length = s2.2 := by rw [hw1]; exact slice_length hs2
  -- offsets of the segments from the walk over the top-level items
  simp only [walk, List.map_cons, List.cons.injEq, Prod.mk.injEq, Nat.zero_add] at hwalk
  obtain ⟨⟨e0, _⟩, ⟨e1, _⟩, ⟨e2, _⟩, _⟩ := hwalk
  -- unfold the extractor
  simp only [shelleyOffsets] at h
  cases hrb : rawItems bodiesRaw with
  | none => rw [hrb] at h; simp at h
  | some bodies =>
  cases hrw : rawItems witsRaw with
  | none => rw [hrb, hrw] at h; simp at h
  | some wits =>
  rw [hrb, hrw] at h
  simp only at h
  split at h
  · cases h
  · rename_i hne
    have hlenEq : bodies.length = wits.length := by
      simpa using hne
    simp only [Option.some.injEq] at h
    obtain ⟨cs1, i1, hc1, hit1, hwalk1, hin1⟩ :=
      array_walk_exact (arrayHeaderLen b (hdr :: bodiesRaw :: witsRaw :: rest).length + hdr.length)
        bodies.length hB hrb (by omega)
    obtain ⟨cs2, i2, hc2, hit2, hwalk2, hin2⟩ :=
      array_walk_exact (arrayHeaderLen b (hdr :: bodiesRaw :: witsRaw :: rest).length + hdr.length
        + bodiesRaw.length) wits.length hW hrw (by omega)
    subst h
    have l1 : (walk (arrayHeaderLen b (hdr :: bodiesRaw :: witsRaw :: rest).length + hdr.length
        + arrayHeaderLen bodiesRaw bodies.length) bodies).length =
        (walk (arrayHeaderLen b (hdr :: bodiesRaw :: witsRaw :: rest).length + hdr.length
        + bodiesRaw.length + arrayHeaderLen witsRaw wits.length) wits).length := by
      simp [walk_length, hlenEq]
    have l2 : (walk (arrayHeaderLen b (hdr :: bodiesRaw :: witsRaw :: rest).length + hdr.length
        + arrayHeaderLen bodiesRaw bodies.length) bodies).length =
        (bodiesOutputs (arrayHeaderLen b (hdr :: bodiesRaw :: witsRaw :: rest).length + hdr.length
        + arrayHeaderLen bodiesRaw bodies.length) bodies).length := by
      simp [walk_length, bodiesOutputs_length]
    refine ⟨s0 :: s1 :: s2 :: rest', i0, s0, s1, s2, rest', cs1, i1, cs2, i2, hc0, rfl, hb1, hw1,
      hc1, hc2, ?_, ?_, ?_, ?_⟩
    · rw [(zipLocs_proj _ _ _ _ _ l1 l2).1, hwalk1, e1]
    · rw [(zipLocs_proj _ _ _ _ _ l1 l2).2.1, hwalk2, hBl]
      have : s2.1 = s1.1 + s1.2 := by omega
      rw [e1, this]
    · intro p hp
      have := hin1 p hp
      rw [hBl] at this
      refine ⟨by omega, ?_⟩
      rw [hb1, slice_slice b s1.1 s1.2 p.1 p.2 this]
    · intro p hp
      have := hin2 p hp
      rw [hWl] at this
      refine ⟨by omega, ?_⟩
      rw [hw1, slice_slice b s2.1 s2.2 p.1 p.2 this]


/-- Non-vacuity: a block `[hdr, bodies, witnesses, metadata]` whose top-level header is the
    non-minimal `98 04`, whose bodies array is indefinite, whose witnesses array has a
    2-byte count and whose outputs array is `98 01`: the hypotheses of
    `offsets_slice_shelley` hold and the extractor reports the path-composed spans. -/
def exampleBlock : Bytes :=
  [0x98, 0x04, 0x80, 0x9f, 0xa1, 0x01, 0x98, 0x01, 0x82, 0x00, 0x00, 0xff,
   0x99, 0x00, 0x01, 0xa0, 0xa1, 0x00, 0x61, 0x41]

example : extract exampleBlock =
    some [{ body := (4, 7), wit := (15, 1), aux := (18, 2), outs := [(8, 3)] }] := by decide

example : GV.Model.OffsetsTruth.truth "shelley" exampleBlock = extract exampleBlock := by decide

example : readHead exampleBlock = .mk 4 24 4 2 ∧
    rawItems exampleBlock = some [[0x80], [0x9f, 0xa1, 0x01, 0x98, 0x01, 0x82, 0x00, 0x00, 0xff],
      [0x99, 0x00, 0x01, 0xa0], [0xa1, 0x00, 0x61, 0x41]] := by decide

end GV.Props.C07
