import GV.Model.Validity
import GV.Gen.RuleLists
import GV.Gen.G1Rules
/-!
C26 — Transactions are accepted only inside their validity interval.

From Allegra on, validation accepts a transaction at slot s only if s is at or
after its validity start (when present) and strictly before its
invalid-hereafter bound (when present). In Shelley it accepts only if s does
not exceed the time-to-live.
-/
namespace GV.Props.C26
open GV.Model.Validity

/-- Full statement: whatever the rule accepts lies inside the interval. -/
def C26_full : Prop := ∀ t : Tx, ok t = true → inInterval t = true

/-- The full statement restricted to one input. -/
def C26_full_on (t : Tx) : Prop := ok t = true → inInterval t = true
instance (t : Tx) : Decidable (C26_full_on t) := by unfold C26_full_on; infer_instance

/-- Allegra..Dijkstra: the rule is *exactly* the interval test, for all slots and
    bounds, except that an explicit invalid-hereafter 0 is read as absent. -/
theorem allegraPlus_ok_iff (t : Tx) (he : t.shelley = false) (hz : t.ttl ≠ some 0) :
    ok t = true ↔
      (∀ s, t.start = some s → s ≤ t.slot) ∧ (∀ e, t.ttl = some e → t.slot < e) := by
  obtain ⟨sh, slot, start, ttl, vld⟩ := t
  simp only at he hz
  subst he
  cases start <;> cases ttl <;>
    simp [ok, allegraOk, startV, ttlV] at hz ⊢ <;> omega

/-- Shelley: with a TTL present (and not the conflated value 0 at a later slot)
    the rule is exactly `slot ≤ ttl`. -/
theorem shelley_ok_iff (t : Tx) (he : t.shelley = true) (e : Nat) (ht : t.ttl = some e)
    (hz : e ≠ 0 ∨ t.slot = 0) :
    ok t = true ↔ t.slot ≤ e := by
  obtain ⟨sh, slot, start, ttl, vld⟩ := t
  simp only at he ht hz
  subst he; subst ht
  simp [ok, shelleyOk, ttlV]
  omega

/-- The part of the full statement that holds: outside the zero-TTL class every
    accepted transaction is inside its interval (all eras). -/
theorem C26_partial (t : Tx) (hz : zeroTtl t = false) : C26_full_on t := by
  obtain ⟨sh, slot, start, ttl, vld⟩ := t
  unfold C26_full_on
  cases sh <;> cases start <;> cases ttl <;>
    simp [zeroTtl, ok, shelleyOk, allegraOk, inInterval, startV, ttlV] at hz ⊢ <;> omega

/-- Conversely the rule rejects nothing the ledger rule admits (no over-rejection),
    in every era and for every input including the zero-TTL class. -/
theorem no_over_rejection (t : Tx) : inInterval t = true → ok t = true := by
  obtain ⟨sh, slot, start, ttl, vld⟩ := t
  cases sh <;> cases start <;> cases ttl <;>
    simp [ok, shelleyOk, allegraOk, inInterval, startV, ttlV] <;> omega

/-- Recorded finding (class `zero-ttl`): invalid-hereafter 0 admits no slot at all,
    yet the rule accepts, because 0 is indistinguishable from "absent". -/
theorem C26_witness :
    ¬ C26_full_on { shelley := false, slot := 10, start := none, ttl := some 0 } := by
  decide

theorem C26_witness_shelley :
    ¬ C26_full_on { shelley := true, slot := 10, start := none, ttl := some 0 } := by
  decide

theorem C26_full_fails : ¬ C26_full := fun h =>
  C26_witness (h { shelley := false, slot := 10, start := none, ttl := some 0 })

/-- Regenerated tie (R): the guard functions translated from the Go source on this
    run compute the model's functions, for all slots and accessor values. A changed
    comparison (`<` ↔ `<=`), a dropped bound or a new special case breaks this. -/
theorem gen_allegra_eq (slot start ttl : Nat) :
    GV.Gen.G1Rules.allegraOutsideValidityInterval slot ttl start =
      allegraOk { shelley := false, slot := slot, start := some start, ttl := some ttl } := by
  simp [GV.Gen.G1Rules.allegraOutsideValidityInterval, allegraOk, startV, ttlV]

theorem gen_shelley_eq (slot ttl : Nat) :
    GV.Gen.G1Rules.shelleyTimeToLive slot ttl =
      shelleyOk { shelley := true, slot := slot, start := none, ttl := some ttl } := by
  simp [GV.Gen.G1Rules.shelleyTimeToLive, shelleyOk, ttlV]

/-- The accessor view makes `none` and `some 0` the same input of the rule. -/
theorem absent_is_zero (sh : Bool) (slot : Nat) :
    ok { shelley := sh, slot := slot, start := none, ttl := none } =
      ok { shelley := sh, slot := slot, start := some 0, ttl := some 0 } := by
  cases sh <;> simp [ok, shelleyOk, allegraOk, startV, ttlV]

/-- The validity interval is a phase-1 check: the `IsValid` flag does not enter the rule
    (nor the interval the ledger prescribes), so a phase-2-invalid transaction is bound by
    its interval exactly like a valid one, in every era that carries the flag. -/
theorem validity_flag_irrelevant (t : Tx) (v : Bool) :
    ok { t with valid := v } = ok t ∧ inInterval { t with valid := v } = inInterval t :=
  ⟨rfl, rfl⟩

/-- Regenerated tie (R): the rule is an entry of every era's rule list as it stands
    in the repository now, and Mary..Conway forward to Allegra's function. -/
theorem rules_listed :
    "UtxoValidateTimeToLive" ∈ GV.Gen.RuleLists.shelley ∧
    (∀ l ∈ [GV.Gen.RuleLists.allegra, GV.Gen.RuleLists.mary, GV.Gen.RuleLists.alonzo,
            GV.Gen.RuleLists.babbage, GV.Gen.RuleLists.conway],
      "UtxoValidateOutsideValidityIntervalUtxo" ∈ l) ∧
    "conway.UtxoValidateOutsideValidityIntervalUtxo" ∈ GV.Gen.RuleLists.dijkstra ∧
    GV.Gen.G1Rules.validityDelegation =
      [("allegra", "self"),
       ("mary", "allegra.UtxoValidateOutsideValidityIntervalUtxo"),
       ("alonzo", "allegra.UtxoValidateOutsideValidityIntervalUtxo"),
       ("babbage", "allegra.UtxoValidateOutsideValidityIntervalUtxo"),
       ("conway", "allegra.UtxoValidateOutsideValidityIntervalUtxo")] := by
  decide

/-- Non-vacuity: accepted and rejected transactions with both bounds present exist. -/
example : ok { shelley := false, slot := 10, start := some 10, ttl := some 11 } = true := by decide
example : ok { shelley := false, slot := 10, start := some 3, ttl := some 10 } = false := by decide
example : ok { shelley := true, slot := 10, start := none, ttl := some 10 } = true := by decide
example : ok { shelley := true, slot := 11, start := none, ttl := some 10 } = false := by decide

end GV.Props.C26
