import GV.Model.Fee
import GV.Gen.GoLite
import GV.Gen.RuleLists
import GV.Gen.G1Rules
import GV.Proofs.CborSpans
/-!
C30 — The minimum fee and size limits use the transaction's real size.

Fee validation accepts a transaction only if its fee is at least a·size + b,
where size is the length of the transaction's original encoding minus one byte
for the four-element Alonzo-to-Conway envelope. Arithmetic overflow is reported
as an error, never wrapped, and the maximum-size rule compares that same
original length with the protocol limit.
-/
namespace GV.Props.C30
open GV.Model.Fee GV.Gen.GoLite

theorem p64 : (2:Int)^64 = 18446744073709551616 := by decide

/-- (R) The Go function `CalculateMinFee`, as translated from the source on this run,
    for every size a Go `int` length can take and every `uint` parameter pair:
    the exact value a·s+b when it fits 64 bits, the error result otherwise. -/
theorem calc_core (s a b : Nat) (hs : (s:Int) < 9223372036854775808)
    (ha : (a:Int) < 18446744073709551616) (hb : (b:Int) < 18446744073709551616) :
    calculateMinFee s a b =
      if (a:Int) * s + b < 18446744073709551616 then ((a:Int) * s + b, false) else (0, true) := by
  have hp : (0:Int) ≤ (a:Int) * s := Int.mul_nonneg (Int.natCast_nonneg a) (Int.natCast_nonneg s)
  unfold calculateMinFee wrapU
  simp only [p64]
  have e1 : (s:Int) % 18446744073709551616 = s := by omega
  have e2 : (a:Int) % 18446744073709551616 = a := by omega
  have e3 : (b:Int) % 18446744073709551616 = b := by omega
  have hs0 : ¬ ((s:Int) < 0) := by omega
  simp only [e1, e2, e3, Int.add_zero, hs0, decide_false, Bool.false_eq_true, ↓reduceIte, ne_eq,
    decide_not, Bool.not_eq_true', decide_eq_false_iff_not]
  generalize (a:Int) * (s:Int) = p at *
  by_cases h : p + b < 18446744073709551616
  · have e4 : p / 18446744073709551616 = 0 := by omega
    have e5 : p % 18446744073709551616 = p := by omega
    have e6 : (p + b) / 18446744073709551616 = 0 := by omega
    have e7 : (p + b) % 18446744073709551616 = p + b := by omega
    simp [e4, e5, e6, e7, h]
  · by_cases h4 : p / 18446744073709551616 = 0
    · have e5 : p % 18446744073709551616 = p := by omega
      have e6 : ¬ (p + b) / 18446744073709551616 = 0 := by omega
      simp [h4, e5, e6, h]
    · simp [h4, h]

/-- Exact when it fits. -/
theorem minFee_exact (s a b : Nat) (hs : s < 2^63) (ha : a < 2^64) (hb : b < 2^64)
    (h : a * s + b < 2^64) :
    calculateMinFee s a b = (((a * s + b : Nat) : Int), false) := by
  have h' : (a:Int) * s + b < 18446744073709551616 := by
    have : ((a * s + b : Nat) : Int) < 18446744073709551616 := by omega
    simpa using this
  rw [calc_core s a b (by omega) (by omega) (by omega), if_pos h']
  simp

/-- Overflow is an error, never a wrapped value. -/
theorem minFee_overflow (s a b : Nat) (hs : s < 2^63) (ha : a < 2^64) (hb : b < 2^64)
    (h : a * s + b ≥ 2^64) :
    calculateMinFee s a b = (0, true) := by
  have h' : ¬ ((a:Int) * s + b < 18446744073709551616) := by
    have : ¬ (((a * s + b : Nat) : Int) < 18446744073709551616) := by omega
    simpa using this
  rw [calc_core s a b (by omega) (by omega) (by omega), if_neg h']

/-- A negative size is an error as well (first guard of the Go function). -/
theorem minFee_negative (s a b : Int) (hs : s < 0) : calculateMinFee s a b = (0, true) := by
  unfold calculateMinFee
  simp [hs]

/-- (R) The hand model used by the driver is the generated function. -/
theorem gen_eq_model (s a b : Nat) (hs : s < 2^63) (ha : a < 2^64) (hb : b < 2^64) :
    calculateMinFee s a b =
      (match minFee s a b with | some m => ((m : Int), false) | none => (0, true)) := by
  unfold minFee two64
  by_cases h : a * s + b < 18446744073709551616
  · rw [if_pos h]; exact minFee_exact s a b hs ha hb (by omega)
  · rw [if_neg h]; exact minFee_overflow s a b hs ha hb (by omega)

/-- The fee rule passes iff the minimum fee is computable and covered. -/
theorem feeOk_iff (t : Tx) (a b : Nat) :
    feeVerdict t a b = .pass ↔
      a * txSizeForFee t + b < 2^64 ∧ t.fee ≥ a * txSizeForFee t + b := by
  unfold feeVerdict minFee two64
  by_cases h : a * txSizeForFee t + b < 18446744073709551616
  · simp only [if_pos h]
    by_cases hf : t.fee ≥ a * txSizeForFee t + b
    · simp [hf]; omega
    · simp [hf]
  · simp only [if_neg h]
    constructor
    · intro hc; cases hc
    · intro hc; omega

/-- Overflow surfaces as the error verdict (not as a pass, not as "fee too small"). -/
theorem overflow_is_error (t : Tx) (a b : Nat) (h : a * txSizeForFee t + b ≥ 2^64) :
    feeVerdict t a b = .err := by
  unfold feeVerdict minFee two64
  have : ¬ (a * txSizeForFee t + b < 18446744073709551616) := by omega
  simp [this]


/-- A definite envelope header states the real component count: whenever the header-only
    decode (`DecodeArrayHeader`) succeeds, its result is the number of children the
    byte-layer CBOR parser finds — for every byte string, every header width. -/
theorem hdr_count (b : List UInt8) (n k : Nat) (hn : envCount b = some n)
    (hk : decodeArrayHeader b = some k) : k = n := by
  unfold envCount at hn
  cases hcs : GV.Cbor.childSpans b with
  | none => rw [hcs] at hn; simp at hn
  | some r =>
    obtain ⟨h, cs, ind⟩ := r
    rw [hcs] at hn
    simp only at hn
    obtain ⟨major, ai, arg, hrh, hm, hind, hdef, _⟩ := GV.Cbor.childSpans_props hcs
    cases b with
    | nil => simp [decodeArrayHeader] at hk
    | cons x rest =>
      simp only [isArrayHead, beq_iff_eq] at hn
      by_cases hx : x.toNat / 32 = 4
      · simp only [hx, if_true, Option.some.injEq] at hn
        unfold GV.Cbor.readHead at hrh
        unfold decodeArrayHeader at hk
        simp only [hx, ne_eq, not_true_eq_false, if_false] at hk
        by_cases hshort : rest.length < GV.Cbor.argLen (x.toNat % 32)
        · simp [hshort] at hrh
        · simp only [hshort, if_false, GV.Cbor.Head.mk.injEq] at hrh
          obtain ⟨hmaj, hai, harg, hh⟩ := hrh
          subst hmaj; subst hai
          generalize hA : x.toNat % 32 = a at *
          have key : a ≠ 31 → k = arg → k = n := by
            intro h31 hka
            have hf : ind = false := by
              cases hi : ind with
              | false => rfl
              | true => exact absurd (hind.1 hi) h31
            have := (hdef hf).2
            simp only [hx, if_true] at this
            omega
          by_cases h24 : a < 24
          · simp only [h24, if_true, Option.some.injEq] at hk harg
            exact key (by omega) (by omega)
          · simp only [h24, if_false] at hk harg
            by_cases e24 : a = 24
            · subst e24
              simp only [if_true, GV.Cbor.argLen] at hk harg hshort
              split at hk
              · cases hk
              · simp only [Option.some.injEq] at hk
                exact key (by omega) (by rw [← hk, ← harg]; rfl)
            · simp only [e24, if_false] at hk
              by_cases e25 : a = 25
              · subst e25
                simp only [if_true, GV.Cbor.argLen] at hk harg
                split at hk
                · cases hk
                · simp only [Option.some.injEq] at hk
                  exact key (by omega) (by rw [← hk, ← harg]; rfl)
              · simp only [e25, if_false] at hk
                by_cases e26 : a = 26
                · subst e26
                  simp only [if_true, GV.Cbor.argLen] at hk harg
                  split at hk
                  · cases hk
                  · split at hk
                    · cases hk
                    · simp only [Option.some.injEq] at hk
                      exact key (by omega) (by rw [← hk, ← harg]; rfl)
                · simp only [e26, if_false] at hk
                  by_cases e27 : a = 27
                  · subst e27
                    simp only [if_true, GV.Cbor.argLen] at hk harg
                    split at hk
                    · cases hk
                    · split at hk
                      · cases hk
                      · simp only [Option.some.injEq] at hk
                        exact key (by omega) (by rw [← hk, ← harg]; rfl)
                  · simp [e27] at hk
      · simp [hx] at hn

/-- The size is the original length minus one exactly for a four-component envelope
    of an Alonzo-or-later transaction type, whatever the header form (any definite
    width, indefinite), where the component count is the one the byte-layer parser reads
    from the stored bytes. -/
theorem size_is_original (t : Tx) (hn : envCount t.bytes = some t.n) :
    txSizeForFee t =
      t.bytes.length - (if t.eraType ≥ 4 ∧ t.n = 4 then 1 else 0) := by
  have hdr : ∀ k, decodeArrayHeader t.bytes = some k → k = t.n :=
    fun k hk => hdr_count t.bytes t.n k hn hk
  unfold txSizeForFee
  simp only [GV.Gen.G1Consts.txTypeAlonzo]
  by_cases he : t.eraType ≥ 4
  · simp only [he, if_true, true_and]
    cases hd : decodeArrayHeader t.bytes with
    | none => by_cases hn : t.n = 4 <;> simp [hn]
    | some k =>
      have hk := hdr k hd
      rw [hk]
      by_cases hn : t.n = 4 <;> simp [hn]
  · simp [he]

/-- For the eras the property names (Alonzo..Conway decode only four-component
    envelopes) the code's size is the property's size. -/
theorem size_eq_spec (t : Tx) (hn : envCount t.bytes = some t.n)
    (hera : t.eraType ≤ 6) :
    txSizeForFee t = specSize t := by
  rw [size_is_original t hn]
  unfold specSize
  simp only [GV.Gen.G1Consts.txTypeAlonzoEra, GV.Gen.G1Consts.txTypeConwayEra]
  by_cases h : t.eraType ≥ 4 ∧ t.n = 4
  · have : 4 ≤ t.eraType ∧ t.eraType ≤ 6 ∧ t.n = 4 := ⟨h.1, hera, h.2⟩
    simp [h, this]
  · have : ¬ (4 ≤ t.eraType ∧ t.eraType ≤ 6 ∧ t.n = 4) := fun c => h ⟨c.1, c.2.2⟩
    simp [h, this]

/-- Full statement, fee clause: an accepted fee covers a·size+b for the property's size. -/
theorem accepted_sound (t : Tx) (a b : Nat)
    (hn : envCount t.bytes = some t.n) (hera : t.eraType ≤ 6)
    (h : feeVerdict t a b = .pass) : t.fee ≥ a * specSize t + b := by
  rw [← size_eq_spec t hn hera]
  exact ((feeOk_iff t a b).1 h).2

/-- The maximum-size rule compares the same stored length. -/
theorem maxSize_same_length (t : Tx) (mx : Nat) : maxOk t mx = true ↔ t.bytes.length ≤ mx := by
  simp [maxOk]

/-- A non-minimal definite header is still read as its count: the one-byte length form
    `98 04` and the eight-byte form give 4 (so the byte is subtracted), `9f` gives none. -/
theorem header_forms :
    decodeArrayHeader [0x84] = some 4 ∧ decodeArrayHeader [0x98, 4] = some 4 ∧
    decodeArrayHeader [0x99, 0, 4] = some 4 ∧ decodeArrayHeader [0x9a, 0, 0, 0, 4] = some 4 ∧
    decodeArrayHeader [0x9b, 0, 0, 0, 0, 0, 0, 0, 4] = some 4 ∧
    decodeArrayHeader [0x9f] = none ∧ decodeArrayHeader [0x98] = none ∧
    decodeArrayHeader [0xa4] = none := by decide

/-- (R) constants and rule lists as they stand in the repository now. -/
theorem consts_and_rules :
    GV.Gen.G1Consts.txTypeAlonzo = GV.Gen.G1Consts.txTypeAlonzoEra ∧
    [GV.Gen.G1Consts.txTypeShelleyEra, GV.Gen.G1Consts.txTypeAllegraEra, GV.Gen.G1Consts.txTypeMaryEra,
     GV.Gen.G1Consts.txTypeAlonzoEra, GV.Gen.G1Consts.txTypeBabbageEra, GV.Gen.G1Consts.txTypeConwayEra,
     GV.Gen.G1Consts.txTypeDijkstraEra] = [1, 2, 3, 4, 5, 6, 7] ∧
    (∀ l ∈ [GV.Gen.RuleLists.shelley, GV.Gen.RuleLists.allegra, GV.Gen.RuleLists.mary,
            GV.Gen.RuleLists.alonzo, GV.Gen.RuleLists.babbage, GV.Gen.RuleLists.conway,
            GV.Gen.RuleLists.dijkstra],
      "UtxoValidateFeeTooSmallUtxo" ∈ l ∧ "UtxoValidateMaxTxSizeUtxo" ∈ l) ∧
    GV.Gen.G1Rules.feeTooSmallDelegation = [("allegra", "shelley.UtxoValidateFeeTooSmallUtxo")] ∧
    GV.Gen.G1Rules.maxTxSizeDelegation = [("allegra", "shelley.UtxoValidateMaxTxSizeUtxo")] := by
  decide

/-- (R) What the maximum-size rule of each era measures, read off the source on this run:
    the stored original bytes (`tx.Cbor()`, re-encoding only when there are none) or
    `cbor.Encode(tx)`. Wherever it is `cbor.Encode(tx)`, the era's transaction type has a
    `MarshalCBOR` that returns the stored bytes first, so a decoded transaction is measured
    by its original encoding in every era. -/
theorem maxSize_measures_original :
    GV.Gen.G1Rules.maxSizeSource.map (·.1) = ["shelley", "mary", "alonzo", "babbage", "conway", "dijkstra"] ∧
    (∀ e ∈ GV.Gen.G1Rules.maxSizeSource, e.2 = "stored" ∨
      (e.2 = "encode" ∧ (e.1, true) ∈ GV.Gen.G1Rules.marshalReturnsStoredFirst)) ∧
    (∀ e ∈ GV.Gen.G1Rules.marshalReturnsStoredFirst, e.2 = true) := by
  decide

/-- Re-assembly keeps the components' original bytes under a canonical one-byte header:
    a non-minimal or indefinite envelope header shrinks to one byte, a non-canonical body
    (here a map header in the one-byte-length form) is kept as it is. -/
theorem reassemble_examples :
    reassemble [0x83, 0xa0, 0xa0, 0xf6] = some [0x83, 0xa0, 0xa0, 0xf6] ∧
    reassemble [0x98, 0x03, 0xb8, 0x00, 0xa0, 0xf6] = some [0x83, 0xb8, 0x00, 0xa0, 0xf6] ∧
    reassemble [0x9f, 0xa0, 0xa0, 0xf5, 0xf6, 0xff] = some [0x84, 0xa0, 0xa0, 0xf5, 0xf6] ∧
    reassemble [0x84, 0xa0] = none := by decide

/-- Non-vacuity. -/
example : feeVerdict { eraType := 4, bytes := [0x84, 0xa0, 0xa0, 0xf5, 0xf6], n := 4, fee := 200 } 44 24 = .pass := by decide
example : envCount [0x84, 0xa0, 0xa0, 0xf5, 0xf6] = some 4 ∧ envCount [0x9f, 0xa0, 0xa0, 0xf5, 0xf6, 0xff] = some 4 ∧
    envCount [0x98, 0x03, 0xa0, 0xa0, 0xf6] = some 3 ∧ envCount [0x84, 0xa0] = none := by decide
example : feeVerdict { eraType := 4, bytes := [0x84, 0xa0, 0xa0, 0xf5, 0xf6], n := 4, fee := 199 } 44 24 = .fail := by decide
example : feeVerdict { eraType := 4, bytes := [0x9f, 0xa0, 0xa0, 0xf5, 0xf6, 0xff], n := 4, fee := 0 }
    18446744073709551615 2 = .err := by decide
example : calculateMinFee 5 44 24 = (244, false) := by decide

end GV.Props.C30
