import GV.Model.ValueConservation
import GV.Gen.RuleLists
import GV.Gen.G1Rules
/-!
C27 — Value is conserved by every accepted transaction.

For every era, validation accepts a transaction's balance only if consumed value
equals produced value, coin and every asset separately, per the ledger formula.
Consumed is inputs + withdrawals + deposit refunds + mint; produced is outputs +
fee + new deposits (stake, pool, DRep, proposals) + treasury donation.
-/
namespace GV.Props.C27
open GV.Model.ValueConservation

/-- certificates that exist before Conway -/
def legacyCert : Cert → Bool
  | .sreg | .sdereg | .sdeleg | .pret | .preg _ _ => true
  | _ => false

/-- Full statement: what the rule accepts is conserved per the ledger formula. -/
def C27_full : Prop := ∀ t : Tx, (∀ i ∈ t.ins, i.resolvable = true) → rule t = .ok → specConserved t = true
def C27_full_on (t : Tx) : Prop := (∀ i ∈ t.ins, i.resolvable = true) → rule t = .ok → specConserved t = true
instance (t : Tx) : Decidable (C27_full_on t) := by unfold C27_full_on; infer_instance

/-! ### helper lemmas -/

theorem filter_resolvable (l : List In) (h : ∀ i ∈ l, i.resolvable = true) :
    l.filter (·.resolvable) = l := List.filter_eq_self.mpr h

theorem dep_legacy (kd pd dd : Nat) (l : List Cert) (h : ∀ c ∈ l, legacyCert c = true) :
    sumNat (l.map (depositLegacy kd pd)) =
      sumNat (l.map (specDepositNoPool kd dd)) + pd * (newPoolIds l).length := by
  induction l with
  | nil => simp [sumNat, newPoolIds]
  | cons c l ih =>
    have ih' := ih (fun x hx => h x (List.mem_cons_of_mem _ hx))
    have hc := h c List.mem_cons_self
    simp only [sumNat, List.map_cons, List.sum_cons] at ih' ⊢
    cases c with
    | preg n id =>
      cases n <;> simp [depositLegacy, specDepositNoPool, newPoolIds, Nat.mul_succ] <;> omega
    | sreg => simp [depositLegacy, specDepositNoPool, newPoolIds]; omega
    | sdereg => simp [depositLegacy, specDepositNoPool, newPoolIds]; omega
    | sdeleg => simp [depositLegacy, specDepositNoPool, newPoolIds]; omega
    | pret => simp [depositLegacy, specDepositNoPool, newPoolIds]; omega
    | _ => simp [legacyCert] at hc

theorem ref_legacy (kd : Nat) (l : List Cert) (h : ∀ c ∈ l, legacyCert c = true) :
    sumNat (l.map (refundLegacy kd)) = sumNat (l.map (specRefund kd)) := by
  induction l with
  | nil => rfl
  | cons c l ih =>
    have ih' := ih (fun x hx => h x (List.mem_cons_of_mem _ hx))
    have hc := h c List.mem_cons_self
    simp only [sumNat, List.map_cons, List.sum_cons] at ih' ⊢
    cases c <;> simp [refundLegacy, specRefund, legacyCert] at hc ⊢ <;> omega

theorem dep_conway (kd pd dd : Nat) (l : List Cert) (h : ∀ c ∈ l, certAmountOff kd dd c = false) :
    sumNat (l.map (depositConway kd pd)) =
      sumNat (l.map (specDepositNoPool kd dd)) + pd * (newPoolIds l).length := by
  induction l with
  | nil => simp [sumNat, newPoolIds]
  | cons c l ih =>
    have ih' := ih (fun x hx => h x (List.mem_cons_of_mem _ hx))
    have hc := h c List.mem_cons_self
    simp only [sumNat, List.map_cons, List.sum_cons] at ih' ⊢
    cases c with
    | preg n id =>
      cases n <;> simp [depositConway, specDepositNoPool, newPoolIds, Nat.mul_succ] <;> omega
    | _ => simp [depositConway, specDepositNoPool, newPoolIds, certAmountOff] at hc ⊢ <;> omega

theorem ref_conway (kd dd : Nat) (l : List Cert) (h : ∀ c ∈ l, certAmountOff kd dd c = false) :
    sumNat (l.map (refundConway kd)) = sumNat (l.map (specRefund kd)) := by
  induction l with
  | nil => rfl
  | cons c l ih =>
    have ih' := ih (fun x hx => h x (List.mem_cons_of_mem _ hx))
    have hc := h c List.mem_cons_self
    simp only [sumNat, List.map_cons, List.sum_cons] at ih' ⊢
    cases c <;> simp [refundConway, specRefund, certAmountOff] at hc ⊢ <;> omega

/-- the rule's verdict in propositional form -/
theorem rule_ok_iff (t : Tx) :
    rule t = .ok ↔
      (isConway t && t.certs.any zeroAmount) = false ∧ consumedCoin t = producedCoin t ∧
      (hasAssets t = true → tokOk t = true) := by
  unfold rule
  by_cases h1 : (isConway t && t.certs.any zeroAmount) = true
  · simp [h1]
  · have h1' : (isConway t && t.certs.any zeroAmount) = false := by simpa using h1
    rw [if_neg h1]
    by_cases h2 : consumedCoin t = producedCoin t
    · by_cases h3 : hasAssets t = true <;> by_cases h4 : tokOk t = true <;> simp [h1', h2, h3, h4]
    · simp [h1', h2]

theorem spec_iff (t : Tx) :
    specConserved t = true ↔
      specConsumedCoin t = specProducedCoin t ∧
      (sumNat (t.ins.map (·.tok)) : Int) + t.mint = outsTok t ∧ t.zmint = 0 := by
  unfold specConserved
  simp only [Bool.and_eq_true, decide_eq_true_eq, and_assoc]

/-! ### the property theorems -/

/-- Shelley and Allegra (coin only): with every input resolvable and no pool registered
    twice in the transaction, the rule passes iff consumed = produced per the formula. -/
theorem conserved_iff_shelley (t : Tx) (he : t.era ≤ 2)
    (hres : ∀ i ∈ t.ins, i.resolvable = true)
    (hleg : ∀ c ∈ t.certs, legacyCert c = true)
    (hdup : clsDupPool t = false)
    (hnotok : sumNat (t.ins.map (·.tok)) = 0 ∧ outsTok t = 0 ∧ t.mint = 0 ∧ t.zmint = 0)
    (hnc : sumNat t.props = 0 ∧ t.don = 0) :
    rule t = .ok ↔ specConserved t = true := by
  have h6 : isConway t = false := by simp [isConway]; omega
  have h3 : hasAssets t = false := by simp [hasAssets]; omega
  have hd : (newPoolIds t.certs).eraseDups.length = (newPoolIds t.certs).length := by
    simpa [clsDupPool] using hdup
  obtain ⟨ht1, ht2, ht3, ht4⟩ := hnotok
  obtain ⟨hp, hdn⟩ := hnc
  rw [rule_ok_iff, spec_iff]
  unfold consumedCoin producedCoin specConsumedCoin specProducedCoin insCoin
  rw [filter_resolvable t.ins hres, dep_legacy t.kd t.pd t.dd t.certs hleg, ref_legacy t.kd t.certs hleg, hd]
  simp only [h6, h3, Bool.false_and, Bool.false_eq_true, ↓reduceIte, false_implies, and_true, true_and,
    ht1, ht2, ht3, ht4, hp, hdn]
  constructor <;> intro h <;> omega

/-- Mary, Alonzo, Babbage: coin and the token separately. -/
theorem conserved_iff_mary (t : Tx) (he : 3 ≤ t.era ∧ t.era ≤ 5)
    (hres : ∀ i ∈ t.ins, i.resolvable = true)
    (hleg : ∀ c ∈ t.certs, legacyCert c = true)
    (hdup : clsDupPool t = false) (hz : t.zmint = 0)
    (hnc : sumNat t.props = 0 ∧ t.don = 0) :
    rule t = .ok ↔ specConserved t = true := by
  have h6 : isConway t = false := by simp [isConway]; omega
  have h3 : hasAssets t = true := by simp [hasAssets]; omega
  have hd : (newPoolIds t.certs).eraseDups.length = (newPoolIds t.certs).length := by
    simpa [clsDupPool] using hdup
  obtain ⟨hp, hdn⟩ := hnc
  rw [rule_ok_iff, spec_iff]
  unfold consumedCoin producedCoin specConsumedCoin specProducedCoin insCoin tokOk insTok
  rw [filter_resolvable t.ins hres, dep_legacy t.kd t.pd t.dd t.certs hleg, ref_legacy t.kd t.certs hleg, hd]
  simp only [h6, h3, Bool.false_and, Bool.false_eq_true, ↓reduceIte, true_and, hz, hp, hdn,
    decide_eq_true_eq, forall_const]
  constructor
  · rintro ⟨h1, h2⟩; exact ⟨by omega, h2, trivial⟩
  · rintro ⟨h1, h2, _⟩; exact ⟨by omega, h2⟩

/-- Conway and Dijkstra: under the hypotheses that the amounts written in the
    certificates are the deposits the ledger formula uses (registration: the protocol
    parameter; deregistration: the recorded deposit) and are non-zero, that no pool is
    registered twice and that the mint field has no entry under the all-zero policy id. -/
theorem conserved_iff_conway (t : Tx) (he : 6 ≤ t.era)
    (hres : ∀ i ∈ t.ins, i.resolvable = true)
    (hamt : ∀ c ∈ t.certs, certAmountOff t.kd t.dd c = false)
    (hzero : t.certs.any zeroAmount = false)
    (hdup : clsDupPool t = false) (hz : t.zmint = 0) :
    rule t = .ok ↔ specConserved t = true := by
  have h6 : isConway t = true := by simp [isConway]; omega
  have h3 : hasAssets t = true := by simp [hasAssets]; omega
  have hd : (newPoolIds t.certs).eraseDups.length = (newPoolIds t.certs).length := by
    simpa [clsDupPool] using hdup
  rw [rule_ok_iff, spec_iff]
  unfold consumedCoin producedCoin specConsumedCoin specProducedCoin insCoin tokOk insTok
  rw [filter_resolvable t.ins hres, dep_conway t.kd t.pd t.dd t.certs hamt, ref_conway t.kd t.dd t.certs hamt, hd]
  simp only [h6, h3, hzero, Bool.and_false, ↓reduceIte, true_and, hz, decide_eq_true_eq, forall_const]
  constructor
  · rintro ⟨h1, h2⟩; exact ⟨by omega, h2, trivial⟩
  · rintro ⟨h1, h2, _⟩; exact ⟨by omega, h2⟩

/-- The part of the full statement that holds in every era: outside the three recorded
    input classes an accepted balance is conserved per the ledger formula. -/
theorem C27_partial (t : Tx) (he : 1 ≤ t.era)
    (hleg : t.era ≤ 5 → (∀ c ∈ t.certs, legacyCert c = true) ∧ sumNat t.props = 0 ∧ t.don = 0)
    (hnotok : t.era ≤ 2 → sumNat (t.ins.map (·.tok)) = 0 ∧ outsTok t = 0 ∧ t.mint = 0)
    (hzero : t.certs.any zeroAmount = false)
    (h1 : clsCertAmount t = false) (h2 : clsDupPool t = false) (h3 : clsZeroPolicyMint t = false) :
    C27_full_on t := by
  intro hres hok
  have hz : t.zmint = 0 := by simpa [clsZeroPolicyMint] using h3
  have hamt : ∀ c ∈ t.certs, certAmountOff t.kd t.dd c = false := by
    intro c hc
    have := List.any_eq_false.mp h1 c hc
    simpa using this
  by_cases e2 : t.era ≤ 2
  · obtain ⟨a, b, c⟩ := hnotok e2
    obtain ⟨l, p, d⟩ := hleg (by omega)
    exact (conserved_iff_shelley t e2 hres l h2 ⟨a, b, c, hz⟩ ⟨p, d⟩).1 hok
  · by_cases e5 : t.era ≤ 5
    · obtain ⟨l, p, d⟩ := hleg e5
      exact (conserved_iff_mary t ⟨by omega, e5⟩ hres l h2 hz ⟨p, d⟩).1 hok
    · exact (conserved_iff_conway t (by omega) hres hamt hzero h2 hz).1 hok

/-- Unresolvable inputs are skipped by the conservation rule; the listed BadInputs rule
    rejects every transaction that has one. -/
theorem badInputs_rejects_missing (t : Tx) (h : ∃ i ∈ t.ins, i.resolvable = false) :
    badInputs t = true := by
  obtain ⟨i, hi, hr⟩ := h
  exact List.any_eq_true.mpr ⟨i, hi, by simp [hr]⟩

/-! ### witnesses of the recorded findings (the code departs from the formula) -/

def wCertAmount : Tx where
  era := 6
  kd := 2000000
  pd := 500000000
  dd := 500000000
  fee := 0
  mint := 0
  zmint := 0
  don := 0
  ins := [⟨true, 1000000, 0⟩]
  outs := [⟨1001000000, 0⟩]
  wds := []
  certs := [.unreg 1000000000 2000000]
  props := []

def wAdaMint : Tx where
  era := 6
  kd := 2000000
  pd := 500000000
  dd := 500000000
  fee := 0
  mint := 0
  zmint := 7000000
  don := 0
  ins := []
  outs := [⟨7000000, 0⟩]
  wds := []
  certs := []
  props := []

def wZeroPolicySkip : Tx where
  era := 3
  kd := 2000000
  pd := 500000000
  dd := 0
  fee := 0
  mint := 0
  zmint := 5
  don := 0
  ins := [⟨true, 10, 0⟩]
  outs := [⟨10, 0⟩]
  wds := []
  certs := []
  props := []

def wDupPool : Tx where
  era := 1
  kd := 2000000
  pd := 500000000
  dd := 0
  fee := 0
  mint := 0
  zmint := 0
  don := 0
  ins := [⟨true, 1000000000, 0⟩]
  outs := []
  wds := []
  certs := [.preg true 10, .preg true 10]
  props := []

def exShelley : Tx where
  era := 1
  kd := 2
  pd := 5
  dd := 0
  fee := 1
  mint := 0
  zmint := 0
  don := 0
  ins := [⟨true, 10, 0⟩]
  outs := [⟨2, 0⟩]
  wds := []
  certs := [.sreg, .preg true 3]
  props := []

def exConway : Tx where
  era := 6
  kd := 2
  pd := 5
  dd := 3
  fee := 1
  mint := 4
  zmint := 0
  don := 1
  ins := [⟨true, 20, 1⟩]
  outs := [⟨7, 5⟩]
  wds := [2]
  certs := [.reg 2, .dreg 3, .unreg 2 2]
  props := [10]

/-- class `cert-amount`: a Conway deregistration certificate that names an arbitrary
    refund balances a transaction that pays out 1 000 000 000 more than it spends. -/
theorem C27_witness_cert_amount : ¬ C27_full_on wCertAmount := by decide

/-- class `zero-policy-mint`: Conway adds a mint entry under the all-zero policy id with
    empty name to the consumed *coin* (7 ada out of nothing). -/
theorem C27_witness_ada_mint : ¬ C27_full_on wAdaMint := by decide

/-- same class, Mary..Babbage: the entry is skipped on the consumed side, so minting it
    without any output holding it passes. -/
theorem C27_witness_zero_policy_skip : ¬ C27_full_on wZeroPolicySkip := by decide

/-- class `dup-pool-reg`: two registration certificates of the same new pool are charged
    two deposits (the formula counts a new pool once). -/
theorem C27_witness_dup_pool : ¬ C27_full_on wDupPool := by decide

theorem C27_full_fails : ¬ C27_full := fun h => C27_witness_cert_amount (h wCertAmount)

/-- (R) the rule is listed in every era, and Allegra / Dijkstra forward to Shelley / Conway. -/
theorem rules_listed :
    (∀ l ∈ [GV.Gen.RuleLists.shelley, GV.Gen.RuleLists.allegra, GV.Gen.RuleLists.mary,
            GV.Gen.RuleLists.alonzo, GV.Gen.RuleLists.babbage, GV.Gen.RuleLists.conway,
            GV.Gen.RuleLists.dijkstra],
      "UtxoValidateValueNotConservedUtxo" ∈ l) ∧
    (∀ l ∈ [GV.Gen.RuleLists.shelley, GV.Gen.RuleLists.allegra, GV.Gen.RuleLists.mary,
            GV.Gen.RuleLists.alonzo, GV.Gen.RuleLists.babbage, GV.Gen.RuleLists.conway],
      "UtxoValidateBadInputsUtxo" ∈ l) ∧
    "conway.UtxoValidateBadInputsUtxo" ∈ GV.Gen.RuleLists.dijkstra := by
  decide

/-- Non-vacuity: accepted transactions with certificates, tokens, proposals exist. -/
example : rule exShelley = .ok := by decide
example : rule exConway = .ok ∧ specConserved exConway = true := by decide

end GV.Props.C27
