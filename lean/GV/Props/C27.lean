import GV.Model.ValueConservation
import GV.Gen.RuleLists
import GV.Gen.G1Rules
/-!
C27 — Value is conserved by every accepted transaction.

For every era, validation accepts a transaction's balance only if consumed value
equals produced value, coin and every asset separately, per the ledger formula.
Consumed is inputs + withdrawals + deposit refunds + mint; produced is outputs +
fee + new deposits (stake, pool, DRep, proposals) + treasury donation.
-/
namespace GV.Props.C27
open GV.Model.ValueConservation

/-- certificates that exist before Conway -/
def legacyCert : Cert → Bool
  | .sreg | .sdereg | .sdeleg | .pret | .preg _ _ | .pregRetiring _ | .genesis | .mir _ => true
  | _ => false

/-- accepted by the rules modelled here: the conservation rule and, in Conway and
    Dijkstra, the certificate deposit rule, with every input resolvable
    (BadInputs, see `badInputs_rejects_missing`) -/
def accepted (t : Tx) : Bool :=
  decide (rule t = .ok) && !certDepositsBad t && !badInputs t

/-- Full statement: what is accepted is conserved per the ledger formula. -/
def C27_full : Prop := ∀ t : Tx, accepted t = true → specConserved t = true
def C27_full_on (t : Tx) : Prop := accepted t = true → specConserved t = true
instance (t : Tx) : Decidable (C27_full_on t) := by unfold C27_full_on; infer_instance

/-! ### helper lemmas -/

theorem filter_resolvable (l : List In) (h : ∀ i ∈ l, i.resolvable = true) :
    l.filter (·.resolvable) = l := List.filter_eq_self.mpr h


theorem countNew_gen (l : List Cert) : ∀ seen : List Nat,
    countNew seen l = ((newPoolIds l).filter (fun a => !seen.contains a)).eraseDups.length := by
  induction l with
  | nil => intro seen; simp [countNew, newPoolIds]
  | cons c l ih =>
    intro seen
    cases c with
    | preg n id =>
      cases n with
      | false => simpa [countNew, newPoolIds] using ih seen
      | true =>
        simp only [countNew, newPoolIds]
        by_cases hs : seen.contains id = true
        · simp only [hs, ↓reduceIte, List.filter_cons, Bool.not_true, Bool.false_eq_true]
          exact ih seen
        · have hs' : seen.contains id = false := by simpa using hs
          simp only [hs', Bool.false_eq_true, ↓reduceIte, List.filter_cons, Bool.not_false,
            List.eraseDups_cons, List.length_cons, List.filter_filter]
          rw [ih (id :: seen), Nat.add_comm]
          congr 3
          apply List.filter_congr
          intro a _
          by_cases h1 : a = id <;> by_cases h2 : a ∈ seen <;> simp [h1, h2]
    | _ => simpa [countNew, newPoolIds] using ih seen

theorem countNew_eq (l : List Cert) : countNew [] l = (newPoolIds l).eraseDups.length := by
  rw [countNew_gen l []]
  have : (newPoolIds l).filter (fun a => !([] : List Nat).contains a) = newPoolIds l :=
    List.filter_eq_self.mpr (fun a _ => by simp)
  rw [this]

theorem dep_legacy (kd dd : Nat) (l : List Cert) (h : ∀ c ∈ l, legacyCert c = true) :
    sumNat (l.map (depositLegacy kd)) = sumNat (l.map (specDepositNoPool kd dd)) := by
  induction l with
  | nil => rfl
  | cons c l ih =>
    have ih' := ih (fun x hx => h x (List.mem_cons_of_mem _ hx))
    have hc := h c List.mem_cons_self
    simp only [sumNat, List.map_cons, List.sum_cons] at ih' ⊢
    cases c <;> simp [depositLegacy, specDepositNoPool, legacyCert] at hc ⊢ <;> omega

theorem ref_legacy (kd : Nat) (l : List Cert) (h : ∀ c ∈ l, legacyCert c = true) :
    sumNat (l.map (refundLegacy kd)) = sumNat (l.map (specRefund kd)) := by
  induction l with
  | nil => rfl
  | cons c l ih =>
    have ih' := ih (fun x hx => h x (List.mem_cons_of_mem _ hx))
    have hc := h c List.mem_cons_self
    simp only [sumNat, List.map_cons, List.sum_cons] at ih' ⊢
    cases c <;> simp [refundLegacy, specRefund, legacyCert] at hc ⊢ <;> omega

theorem dep_conway (kd dd : Nat) (l : List Cert) (h : ∀ c ∈ l, depositOff kd dd c = false) :
    sumNat (l.map (depositConway kd)) = sumNat (l.map (specDepositNoPool kd dd)) := by
  induction l with
  | nil => rfl
  | cons c l ih =>
    have ih' := ih (fun x hx => h x (List.mem_cons_of_mem _ hx))
    have hc := h c List.mem_cons_self
    simp only [sumNat, List.map_cons, List.sum_cons] at ih' ⊢
    cases c <;> simp [depositConway, specDepositNoPool, depositOff] at hc ⊢ <;> omega

theorem ref_conway (kd dd : Nat) (l : List Cert) (h : ∀ c ∈ l, depositOff kd dd c = false)
    (hu : ∀ c ∈ l, unregOff c = false) :
    sumNat (l.map (refundConway kd)) = sumNat (l.map (specRefund kd)) := by
  induction l with
  | nil => rfl
  | cons c l ih =>
    have ih' := ih (fun x hx => h x (List.mem_cons_of_mem _ hx)) (fun x hx => hu x (List.mem_cons_of_mem _ hx))
    have hc := h c List.mem_cons_self
    have hc2 := hu c List.mem_cons_self
    simp only [sumNat, List.map_cons, List.sum_cons] at ih' ⊢
    cases c <;> simp [refundConway, specRefund, depositOff, unregOff] at hc hc2 ⊢ <;> omega

/-- per asset, the code's consumed quantity is the formula's when every input resolves
    and the mint field has no entry under the all-zero policy id -/
theorem tok_eq (t : Tx) (hres : ∀ i ∈ t.ins, i.resolvable = true) (hz : zmint t = 0) (id : Nat) :
    consumedTok t id = specConsumedTok t id := by
  unfold consumedTok specConsumedTok insTok
  rw [filter_resolvable t.ins hres]
  by_cases h0 : id = 0
  · subst h0; unfold zmint at hz; simp [hz]
  · simp [h0]

theorem tokOk_eq (t : Tx) (hres : ∀ i ∈ t.ins, i.resolvable = true) (hz : zmint t = 0) :
    tokOk t = (ids t).all (fun id => decide (specConsumedTok t id = (outsTok t id : Int))) := by
  unfold tokOk
  exact List.all_congr rfl (fun id => by rw [tok_eq t hres hz id])

/-- the rule's verdict in propositional form -/
theorem rule_ok_iff (t : Tx) :
    rule t = .ok ↔
      (isConway t && t.certs.any zeroAmount) = false ∧ consumedCoin t = producedCoin t ∧
      (hasAssets t = true → tokOk t = true) := by
  unfold rule
  by_cases h1 : (isConway t && t.certs.any zeroAmount) = true
  · simp [h1]
  · have h1' : (isConway t && t.certs.any zeroAmount) = false := by simpa using h1
    rw [if_neg h1]
    by_cases h2 : consumedCoin t = producedCoin t
    · by_cases h3 : hasAssets t = true <;> by_cases h4 : tokOk t = true <;> simp [h1', h2, h3, h4]
    · simp [h1', h2]

theorem spec_iff (t : Tx) :
    specConserved t = true ↔
      specConsumedCoin t = specProducedCoin t ∧
      (ids t).all (fun id => decide (specConsumedTok t id = (outsTok t id : Int))) = true := by
  unfold specConserved
  simp only [Bool.and_eq_true, decide_eq_true_eq]

/-! ### the property theorems -/

/-- Shelley and Allegra (coin only; these eras have no assets): with every input
    resolvable the rule passes iff consumed = produced per the formula. -/
theorem conserved_iff_shelley (t : Tx) (he : t.era ≤ 2)
    (hres : ∀ i ∈ t.ins, i.resolvable = true)
    (hleg : ∀ c ∈ t.certs, legacyCert c = true)
    (hnotok : ids t = [])
    (hnc : sumNat t.props = 0 ∧ t.don = 0) :
    rule t = .ok ↔ specConserved t = true := by
  have h6 : isConway t = false := by simp [isConway]; omega
  have h3 : hasAssets t = false := by simp [hasAssets]; omega
  obtain ⟨hp, hdn⟩ := hnc
  rw [rule_ok_iff, spec_iff]
  unfold consumedCoin producedCoin specConsumedCoin specProducedCoin insCoin
  rw [filter_resolvable t.ins hres, dep_legacy t.kd t.dd t.certs hleg, ref_legacy t.kd t.certs hleg,
    countNew_eq, hnotok]
  simp only [h6, h3, Bool.false_and, Bool.false_eq_true, ↓reduceIte, false_implies, and_true, true_and,
    hp, hdn, List.all_nil]
  constructor <;> intro h <;> omega

/-- Mary, Alonzo, Babbage: coin and every asset separately. -/
theorem conserved_iff_mary (t : Tx) (he : 3 ≤ t.era ∧ t.era ≤ 5)
    (hres : ∀ i ∈ t.ins, i.resolvable = true)
    (hleg : ∀ c ∈ t.certs, legacyCert c = true)
    (hz : zmint t = 0)
    (hnc : sumNat t.props = 0 ∧ t.don = 0) :
    rule t = .ok ↔ specConserved t = true := by
  have h6 : isConway t = false := by simp [isConway]; omega
  have h3 : hasAssets t = true := by simp [hasAssets]; omega
  obtain ⟨hp, hdn⟩ := hnc
  rw [rule_ok_iff, spec_iff, tokOk_eq t hres hz]
  unfold consumedCoin producedCoin specConsumedCoin specProducedCoin insCoin
  rw [filter_resolvable t.ins hres, dep_legacy t.kd t.dd t.certs hleg, ref_legacy t.kd t.certs hleg,
    countNew_eq]
  simp only [h6, h3, Bool.false_and, Bool.false_eq_true, ↓reduceIte, true_and, hp, hdn, forall_const]
  constructor
  · rintro ⟨h1, h2⟩; exact ⟨by omega, h2⟩
  · rintro ⟨h1, h2⟩; exact ⟨by omega, h2⟩

/-- Conway and Dijkstra: when the certificate deposit rule passes, the stake
    deregistration refunds are the recorded deposits (the one thing no listed rule can
    check), no certificate amount is zero and the mint field has no entry under the
    all-zero policy id, the rule passes iff consumed = produced per the formula. -/
theorem conserved_iff_conway (t : Tx) (he : 6 ≤ t.era)
    (hres : ∀ i ∈ t.ins, i.resolvable = true)
    (hdep : certDepositsBad t = false)
    (hun : clsCertAmount t = false)
    (hzero : t.certs.any zeroAmount = false)
    (hz : zmint t = 0) :
    rule t = .ok ↔ specConserved t = true := by
  have h6 : isConway t = true := by simp [isConway]; omega
  have h3 : hasAssets t = true := by simp [hasAssets]; omega
  have hamt : ∀ c ∈ t.certs, depositOff t.kd t.dd c = false := by
    intro c hc
    have : t.certs.any (depositOff t.kd t.dd) = false := by simpa [certDepositsBad, h6] using hdep
    simpa using List.any_eq_false.mp this c hc
  have hu : ∀ c ∈ t.certs, unregOff c = false := by
    intro c hc
    simpa using List.any_eq_false.mp hun c hc
  rw [rule_ok_iff, spec_iff, tokOk_eq t hres hz]
  unfold consumedCoin producedCoin specConsumedCoin specProducedCoin insCoin
  rw [filter_resolvable t.ins hres, dep_conway t.kd t.dd t.certs hamt, ref_conway t.kd t.dd t.certs hamt hu,
    countNew_eq]
  simp only [h6, h3, hzero, Bool.and_false, ↓reduceIte, true_and, hz, forall_const]
  constructor
  · rintro ⟨h1, h2⟩; exact ⟨by omega, h2⟩
  · rintro ⟨h1, h2⟩; exact ⟨by omega, h2⟩

/-- The part of the full statement that holds in every era: outside the two recorded
    input classes, whatever is accepted is conserved per the ledger formula. -/
theorem C27_partial (t : Tx) (he : 1 ≤ t.era)
    (hleg : t.era ≤ 5 → (∀ c ∈ t.certs, legacyCert c = true) ∧ sumNat t.props = 0 ∧ t.don = 0)
    (hnotok : t.era ≤ 2 → ids t = [])
    (h1 : clsCertAmount t = false) (h3 : clsZeroPolicyMint t = false) :
    C27_full_on t := by
  intro hacc
  unfold accepted at hacc
  simp only [Bool.and_eq_true, decide_eq_true_eq, Bool.not_eq_true'] at hacc
  obtain ⟨⟨hok, hdep⟩, hbad⟩ := hacc
  have hres : ∀ i ∈ t.ins, i.resolvable = true := by
    intro i hi
    have := List.any_eq_false.mp hbad i hi
    simpa using this
  have hz : zmint t = 0 := by simpa [clsZeroPolicyMint] using h3
  by_cases e2 : t.era ≤ 2
  · obtain ⟨l, p, d⟩ := hleg (by omega)
    exact (conserved_iff_shelley t e2 hres l (hnotok e2) ⟨p, d⟩).1 hok
  · by_cases e5 : t.era ≤ 5
    · obtain ⟨l, p, d⟩ := hleg e5
      exact (conserved_iff_mary t ⟨by omega, e5⟩ hres l hz ⟨p, d⟩).1 hok
    · have h6 : isConway t = true := by simp [isConway]; omega
      have hzero : t.certs.any zeroAmount = false := by
        have := ((rule_ok_iff t).1 hok).1
        simpa [h6] using this
      exact (conserved_iff_conway t (by omega) hres hdep h1 hzero hz).1 hok

/-- Unresolvable inputs are skipped by the conservation rule; the listed BadInputs rule
    rejects every transaction that has one. -/
theorem badInputs_rejects_missing (t : Tx) (h : ∃ i ∈ t.ins, i.resolvable = false) :
    badInputs t = true := by
  obtain ⟨i, hi, hr⟩ := h
  exact List.any_eq_true.mpr ⟨i, hi, by simp [hr]⟩

/-- The conservation rule does not read the phase-2 fields: a phase-2-invalid
    transaction (collateral consumed instead of the inputs) must balance exactly like a
    valid one, as in the ledger's UTXO rule, where the check precedes the validity branch. -/
theorem phase2_fields_irrelevant (t : Tx) (v : Bool) (c : List In) (r : Option Out) (tc : Option Nat) :
    rule { t with valid := v, coll := c, collRet := r, totalColl := tc } = rule t ∧
    specConserved { t with valid := v, coll := c, collRet := r, totalColl := tc } = specConserved t :=
  ⟨rfl, rfl⟩

/-- What the `pure=` field of the op checks of the Go code: validation is a function of
    the transaction and the ledger state alone, so validating the same transaction again
    gives the same verdicts (and cannot change what the transaction reports: the model's
    rules return only a verdict). In the model this holds by construction; the harness
    validates every decoded transaction twice and compares verdicts, outputs, Produced(),
    stored bytes, mint and the state's UTxOs before and after. -/
def validateTwice (t : Tx) : (Verdict × Bool × Bool) × (Verdict × Bool × Bool) :=
  ((rule t, badInputs t, certDepositsBad t), (rule t, badInputs t, certDepositsBad t))

theorem revalidation_same (t : Tx) : (validateTwice t).2 = (validateTwice t).1 := rfl

/-! ### across transactions: what is produced is exactly the outputs -/

/-- The UTxO a phase-2-valid transaction produces is exactly its outputs, in order,
    numbered from 0. -/

theorem produced_is_outputs (t : Tx) (hv : t.valid = true) :
    (producedUtxo t).map (·.2) = t.outs ∧ (producedUtxo t).map (·.1) = List.range t.outs.length := by
  unfold producedUtxo
  simp only [hv, if_true, List.map_map]
  constructor
  · simp [Function.comp_def, List.zipIdx_map_fst]
  · simp [Function.comp_def, List.zipIdx_map_snd, List.range_eq_range']

/-- Spending a set of UTxO entries into outputs of the same values balances — rule and
    ledger formula agree, in every era, for any coin amounts and asset bundles. -/
theorem spendAll_balances (t : Tx) (p : List Out) :
    rule (spendAll t p) = .ok ∧ specConserved (spendAll t p) = true ∧ badInputs (spendAll t p) = false := by
  have hres : ∀ i ∈ (spendAll t p).ins, i.resolvable = true := by
    intro i hi
    simp only [spendAll, List.mem_map] at hi
    obtain ⟨o, _, rfl⟩ := hi; rfl
  have hz : zmint (spendAll t p) = 0 := by simp [zmint, spendAll, mintQty]
  have hspec : specConserved (spendAll t p) = true := by
    rw [spec_iff]
    constructor
    · simp [specConsumedCoin, specProducedCoin, spendAll, sumNat, outsCoin, newPoolIds,
        List.map_map, Function.comp_def]
    · rw [List.all_eq_true]
      intro id _
      simp [specConsumedTok, spendAll, mintQty, outsTok, sumNat, List.map_map, Function.comp_def]
  refine ⟨?_, hspec, ?_⟩
  · rw [rule_ok_iff, tokOk_eq _ hres hz]
    refine ⟨by simp [spendAll], ?_, fun _ => (spec_iff _).1 hspec |>.2⟩
    unfold consumedCoin producedCoin insCoin
    rw [filter_resolvable _ hres, hz]
    simp [spendAll, sumNat, outsCoin, countNew, List.map_map, Function.comp_def]
  · simp only [badInputs]
    rw [List.any_eq_false]
    intro i hi
    simp [hres i hi]

/-- The follow-up transaction of the harness op — spend everything `t` produced into
    outputs carrying the values `t`'s outputs state — is accepted and conserved. If
    validation of `t` changed what `t` reports as produced, or `Produced()` is not the
    outputs, the real follow-up transaction does not balance: that is the `next=` field. -/
theorem followUp_balances (t : Tx) :
    rule (followUp t) = .ok ∧ specConserved (followUp t) = true ∧ badInputs (followUp t) = false :=
  spendAll_balances t _

theorem followUp_outputs (t : Tx) (hv : t.valid = true) : (followUp t).outs = t.outs := by
  unfold followUp spendAll; exact (produced_is_outputs t hv).1

/-! ### witnesses of the recorded findings (the code departs from the formula) -/

def wCertAmount : Tx where
  era := 6
  kd := 2000000
  pd := 500000000
  dd := 500000000
  fee := 0
  mint := []
  don := 0
  ins := [⟨true, 1000000, []⟩]
  outs := [⟨1001000000, []⟩]
  wds := []
  certs := [.unreg 1000000000 2000000]
  props := []

def wAdaMint : Tx where
  era := 6
  kd := 2000000
  pd := 500000000
  dd := 500000000
  fee := 0
  mint := [(0, 7000000)]
  don := 0
  ins := []
  outs := [⟨7000000, []⟩]
  wds := []
  certs := []
  props := []

def wZeroPolicySkip : Tx where
  era := 3
  kd := 2000000
  pd := 500000000
  dd := 0
  fee := 0
  mint := [(0, 5)]
  don := 0
  ins := [⟨true, 10, []⟩]
  outs := [⟨10, []⟩]
  wds := []
  certs := []
  props := []

/-- repaired by `fix:` commits: a pool registered twice pays once; a registration naming
    1 lovelace is rejected by the deposit rule -/
def wDupPool : Tx where
  era := 1
  kd := 2000000
  pd := 500000000
  dd := 0
  fee := 0
  mint := []
  don := 0
  ins := [⟨true, 1000000000, []⟩]
  outs := []
  wds := []
  certs := [.preg true 10, .preg true 10]
  props := []

def wRegOne : Tx where
  era := 7
  kd := 2000000
  pd := 500000000
  dd := 500000000
  fee := 0
  mint := []
  don := 0
  ins := [⟨true, 1000000, []⟩]
  outs := [⟨999999, []⟩]
  wds := []
  certs := [.reg 1]
  props := []

def exShelley : Tx where
  era := 1
  kd := 2
  pd := 5
  dd := 0
  fee := 1
  mint := []
  don := 0
  ins := [⟨true, 10, []⟩]
  outs := [⟨2, []⟩]
  wds := []
  certs := [.sreg, .preg true 3, .preg true 3]
  props := []

def exConway : Tx where
  era := 6
  kd := 2
  pd := 5
  dd := 3
  fee := 1
  mint := [(1, 4), (2, -1)]
  don := 1
  ins := [⟨true, 20, [(1, 1), (2, 3)]⟩]
  outs := [⟨10, [(1, 5)]⟩, ⟨0, [(2, 2)]⟩]
  wds := [2]
  certs := [.reg 2, .dreg 3, .unreg 2 2, .dunreg 3 3]
  props := [10]
  valid := false
  coll := [⟨true, 5, []⟩]

/-- class `cert-amount`: a Conway stake deregistration certificate that names an
    arbitrary refund balances a transaction that pays out 10^9 more than it spends, and
    no listed rule can compare the refund with the recorded deposit. -/
theorem C27_witness_cert_amount : ¬ C27_full_on wCertAmount := by decide

/-- class `zero-policy-mint`: Conway adds a mint entry under the all-zero policy id with
    empty name to the consumed *coin* (7 ada out of nothing). -/
theorem C27_witness_ada_mint : ¬ C27_full_on wAdaMint := by decide

/-- same class, Mary..Babbage: the entry is skipped on the consumed side, so minting it
    without any output holding it passes. -/
theorem C27_witness_zero_policy_skip : ¬ C27_full_on wZeroPolicySkip := by decide

/-- the two repaired defects are rejected now -/
theorem repaired_witnesses : accepted wDupPool = false ∧ accepted wRegOne = false := by decide

theorem C27_full_fails : ¬ C27_full := fun h => C27_witness_cert_amount (h wCertAmount)

/-- (R) the rules are listed in every era they belong to, and Allegra / Dijkstra forward
    to Shelley / Conway. -/
theorem rules_listed :
    (∀ l ∈ [GV.Gen.RuleLists.shelley, GV.Gen.RuleLists.allegra, GV.Gen.RuleLists.mary,
            GV.Gen.RuleLists.alonzo, GV.Gen.RuleLists.babbage, GV.Gen.RuleLists.conway,
            GV.Gen.RuleLists.dijkstra],
      "UtxoValidateValueNotConservedUtxo" ∈ l) ∧
    (∀ l ∈ [GV.Gen.RuleLists.shelley, GV.Gen.RuleLists.allegra, GV.Gen.RuleLists.mary,
            GV.Gen.RuleLists.alonzo, GV.Gen.RuleLists.babbage, GV.Gen.RuleLists.conway],
      "UtxoValidateBadInputsUtxo" ∈ l) ∧
    "conway.UtxoValidateBadInputsUtxo" ∈ GV.Gen.RuleLists.dijkstra ∧
    "UtxoValidateCertificateDeposits" ∈ GV.Gen.RuleLists.conway ∧
    "conway.UtxoValidateCertificateDeposits" ∈ GV.Gen.RuleLists.dijkstra ∧
    GV.Gen.G1Rules.valueConservationDelegation =
      [("allegra", "shelley.UtxoValidateValueNotConservedUtxo"),
       ("dijkstra", "conway.UtxoValidateValueNotConservedUtxo")] := by
  decide

/-! ### (R) the certificate cases of the Go rule bodies, regenerated on every run -/

/-- every certificate constructor of the model under the name of its Go type, built with
    the probe amount 5 (recorded deposit 7) -/
def namedCerts : List (String × Cert) :=
  [("StakeRegistrationCertificate", .sreg), ("StakeDeregistrationCertificate", .sdereg),
   ("StakeDelegationCertificate", .sdeleg), ("PoolRetirementCertificate", .pret),
   ("VoteDelegationCertificate", .vdeleg), ("PoolRegistrationCertificate", .preg true 1),
   ("PoolRegistrationCertificate", .preg false 1), ("PoolRegistrationCertificate", .pregRetiring 1),
   ("GenesisKeyDelegationCertificate", .genesis), ("MoveInstantaneousRewardsCertificate", .mir 5),
   ("RegistrationCertificate", .reg 5), ("DeregistrationCertificate", .unreg 5 7),
   ("StakeRegistrationDelegationCertificate", .srd 5), ("VoteRegistrationDelegationCertificate", .vrd 5),
   ("StakeVoteRegistrationDelegationCertificate", .svrd 5), ("RegistrationDrepCertificate", .dreg 5),
   ("DeregistrationDrepCertificate", .dunreg 5 7)]

/-- which quantity a probed value is: KeyDeposit is probed with 2, PoolDeposit with 3, the
    certificate's own amount with 5 -/
def srcName (v : Nat) : Option String :=
  if v = 2 then some "KeyDeposit" else if v = 3 then some "PoolDeposit"
  else if v = 5 then some "Amount" else none

/-- the table the model's refund / deposit functions induce -/
def modelCases (conway : Bool) : List (String × String × String) :=
  (namedCerts.filterMap fun (n, c) =>
    (srcName (if conway then refundConway 2 c else refundLegacy 2 c)).map fun s => ("consumed", n, s)) ++
  (namedCerts.filterMap fun (n, c) =>
    (srcName ((if conway then depositConway 2 c else depositLegacy 2 c) + 3 * countNew [] [c])).map
      fun s => ("produced", n, s))

/-- The certificate types each Go rule body adds to the consumed / produced side, and
    where it takes the amount from (KeyDeposit, PoolDeposit, the certificate's Amount),
    are exactly the model's — in all five rule bodies, as they stand in the source now. -/
theorem cert_cases_match :
    (∀ l ∈ [GV.Gen.G1Rules.vcCases_shelley, GV.Gen.G1Rules.vcCases_mary, GV.Gen.G1Rules.vcCases_alonzo,
            GV.Gen.G1Rules.vcCases_babbage],
      (∀ x ∈ l, x ∈ modelCases false) ∧ (∀ x ∈ modelCases false, x ∈ l)) ∧
    (∀ x ∈ GV.Gen.G1Rules.vcCases_conway, x ∈ modelCases true) ∧
    (∀ x ∈ modelCases true, x ∈ GV.Gen.G1Rules.vcCases_conway) := by
  decide

/-- (R) "new pool" in every rule body is: the registration returned by
    `ls.PoolCurrentState` is nil and the pool was not seen earlier in the transaction —
    the retirement epoch (second result) is not even bound, so a pool with a pending
    retirement is a registered pool (`countNew` / `pregRetiring` in the model). -/
theorem pool_deposit_guard :
    GV.Gen.G1Rules.poolDepositGuard =
      ["shelley", "mary", "alonzo", "babbage", "conway"].map fun e =>
        (e, "reg,_,err", "_, seen := newPools[tmpCert.Operator]", "reg == nil && !seen") := by
  decide

/-- a registered pool — retiring or not — never pays a deposit; only a pool unknown to the
    state does, once -/
theorem pool_states (kd pd : Nat) (id : Nat) :
    countNew [] [.pregRetiring id] = 0 ∧ countNew [] [.preg false id] = 0 ∧
    countNew [] [.preg true id] = 1 ∧ countNew [] [.preg true id, .pregRetiring id, .preg true id] = 1 ∧
    depositLegacy kd (.pregRetiring id) = 0 ∧ depositConway kd (.pregRetiring id) = 0 ∧
    newPoolIds [.pregRetiring id, .preg false id] = [] := by
  simp [countNew, depositLegacy, depositConway, newPoolIds]

/-- MIR and genesis-delegation certificates leave the balance alone, whatever the amount
    moved between the pots: adding one to a transaction changes neither the rule's verdict
    inputs nor the formula's. -/
theorem mir_genesis_neutral (kd dd a : Nat) :
    refundLegacy kd (.mir a) = 0 ∧ depositLegacy kd (.mir a) = 0 ∧ specRefund kd (.mir a) = 0 ∧
    specDepositNoPool kd dd (.mir a) = 0 ∧ refundLegacy kd .genesis = 0 ∧ depositLegacy kd .genesis = 0 ∧
    specRefund kd .genesis = 0 ∧ specDepositNoPool kd dd .genesis = 0 ∧
    countNew [] [.mir a, .genesis] = 0 ∧ newPoolIds [.mir a, .genesis] = [] := by
  simp [refundLegacy, depositLegacy, specRefund, specDepositNoPool, countNew, newPoolIds]

/-- certificate builders by Go type name: amount `a`, recorded deposit 7 -/
def namedBuilders : List (String × (Nat → Cert)) :=
  [("StakeRegistrationCertificate", fun _ => .sreg), ("StakeDeregistrationCertificate", fun _ => .sdereg),
   ("PoolRegistrationCertificate", fun _ => .preg true 1),
   ("RegistrationCertificate", .reg), ("DeregistrationCertificate", fun a => .unreg a 7),
   ("StakeRegistrationDelegationCertificate", .srd), ("VoteRegistrationDelegationCertificate", .vrd),
   ("StakeVoteRegistrationDelegationCertificate", .svrd), ("RegistrationDrepCertificate", .dreg),
   ("DeregistrationDrepCertificate", fun a => .dunreg a 7)]

/-- what the model's `depositOff` compares a certificate's amount with, found by probing
    (KeyDeposit 2, DRepDeposit 3, recorded deposit 7) -/
def modelDepositCases : List (String × String) :=
  namedBuilders.filterMap fun (n, mk) =>
    if !depositOff 2 3 (mk 2) && depositOff 2 3 (mk 3) && depositOff 2 3 (mk 7) then some (n, "KeyDeposit")
    else if !depositOff 2 3 (mk 3) && depositOff 2 3 (mk 2) && depositOff 2 3 (mk 7) then some (n, "DRepDeposit")
    else if !depositOff 2 3 (mk 7) && depositOff 2 3 (mk 2) && depositOff 2 3 (mk 3) then some (n, "Recorded")
    else none

/-- (R) the certificate deposit rule in the source compares exactly the certificate types
    the model says, each with the quantity the model says. -/
theorem deposit_rule_cases_match :
    (∀ x ∈ GV.Gen.G1Rules.depositRuleCases, x ∈ modelDepositCases) ∧
    (∀ x ∈ modelDepositCases, x ∈ GV.Gen.G1Rules.depositRuleCases) := by
  decide

/-- Non-vacuity: accepted transactions with certificates, several assets, proposals,
    a duplicate pool registration and phase-2 fields exist. -/
example : accepted exShelley = true ∧ specConserved exShelley = true := by decide
example : accepted exConway = true ∧ specConserved exConway = true := by decide

end GV.Props.C27
