import GV.Model.Address
namespace GV.Props.C05
open GV.Model.Address GV.Lib.CborLite
theorem placeholder_header (a : Addr) : (bytes a).length ≥ 1 := by simp [bytes]
end GV.Props.C05
