import GV.Model.Address
import GV.Proofs.CborLite
import GV.Gen.AddrConsts
import GV.Gen.AddrTrailers
import GV.Gen.AddrSwitches
/-!
C05 — Address encodings are mutually consistent.
-/
namespace GV.Props.C05
open GV.Model.Address GV.Lib.CborLite

/-- Regenerated tie: the header constants in the source are the CIP-19 values the model uses. -/
theorem gen_consts :
    GV.Gen.AddrConsts.headerTypeMask = 240 ∧ GV.Gen.AddrConsts.headerNetworkMask = 15 ∧
    GV.Gen.AddrConsts.hashSize = 28 ∧
    GV.Gen.AddrConsts.networkTestnet = 0 ∧ GV.Gen.AddrConsts.networkMainnet = 1 ∧
    [GV.Gen.AddrConsts.typeKeyKey, GV.Gen.AddrConsts.typeScriptKey, GV.Gen.AddrConsts.typeKeyScript,
     GV.Gen.AddrConsts.typeScriptScript, GV.Gen.AddrConsts.typeKeyPointer,
     GV.Gen.AddrConsts.typeScriptPointer, GV.Gen.AddrConsts.typeKeyNone,
     GV.Gen.AddrConsts.typeScriptNone, GV.Gen.AddrConsts.typeByron, GV.Gen.AddrConsts.typeNoneKey,
     GV.Gen.AddrConsts.typeNoneScript] = [0, 1, 2, 3, 4, 5, 6, 7, 8, 14, 15] := by decide

/-- Regenerated tie: the case lists of the three `switch a.addressType` statements of
    `populateFromBytes` (re-extracted from the source on every run) are exactly the model's
    `knownType` / `payKind` / `stakeKind` for every header nibble. -/
theorem gen_switches : ∀ t, t < 16 →
    knownType t = GV.Gen.AddrSwitches.knownTypes.contains t ∧
    decide (payKind t = 0) = GV.Gen.AddrSwitches.payKey.contains t ∧
    decide (payKind t = 1) = GV.Gen.AddrSwitches.payScript.contains t ∧
    decide (stakeKind t = 0) = GV.Gen.AddrSwitches.stakeKey.contains t ∧
    decide (stakeKind t = 1) = GV.Gen.AddrSwitches.stakeScript.contains t ∧
    decide (stakeKind t = 2) = GV.Gen.AddrSwitches.stakePointer.contains t := by
  decide

/-- every whitelisted trailer is non-empty (an exact-length address never carries extra data) -/
theorem trailers_nonempty : ∀ t ∈ GV.Gen.AddrTrailers.trailers, t ≠ [] := by decide

-- ------------------------------------------------------------------ varints

/-- continuation groups (MSB first) of a prefix value -/
def contBytes (v : Nat) : Bytes :=
  if h : v = 0 then [] else contBytes (v / 128) ++ [UInt8.ofNat (v % 128 + 128)]
termination_by v
decreasing_by omega

theorem writeVarGo_eq (f : Nat) : ∀ (v : Nat) (acc : Bytes), v < 128 ^ f →
    writeVarGo f v acc = contBytes v ++ acc := by
  induction f with
  | zero =>
    intro v acc h
    have : v = 0 := by simpa using h
    subst this
    simp [writeVarGo, contBytes]
  | succ f ih =>
    intro v acc h
    unfold writeVarGo
    by_cases hv : v = 0
    · subst hv; simp [contBytes]
    · simp only [hv, ↓reduceIte]
      have hlt : v / 128 < 128 ^ f := by
        rw [Nat.div_lt_iff_lt_mul (by decide)]; rw [Nat.pow_succ] at h; exact h
      rw [ih _ _ hlt]
      conv => rhs; rw [contBytes]
      simp [hv]

theorem readVar_cont : ∀ (v : Nat), v < two64 → ∀ (tail : Bytes),
    readVar (contBytes v ++ tail) 0 = readVar tail v := by
  intro v
  induction v using Nat.strongRecOn with
  | _ v ih =>
    intro hv tail
    by_cases h0 : v = 0
    · subst h0; simp [contBytes]
    · rw [contBytes]; simp only [h0, ↓reduceDIte, List.append_assoc, List.singleton_append]
      have hlt : v / 128 < v := Nat.div_lt_self (by omega) (by decide)
      rw [ih (v / 128) hlt (by omega)]
      have hb : (UInt8.ofNat (v % 128 + 128)).toNat = v % 128 + 128 := by
        have : v % 128 + 128 < 256 := by omega
        simp [Nat.mod_eq_of_lt this]
      simp only [readVar, hb]
      have h1 : ¬ (v % 128 + 128 < 128) := by omega
      simp only [h1, ↓reduceIte]
      have h2 : (v % 128 + 128) % 128 = v % 128 := by omega
      have h3 : (v / 128 * 128 + v % 128) % two64 = v := by
        have : v / 128 * 128 + v % 128 = v := by omega
        rw [this]; exact Nat.mod_eq_of_lt hv
      rw [h2, h3]

/-- Pointer varints round-trip for every 64-bit value, whatever follows. -/
theorem varint_roundtrip (n : Nat) (hn : n < two64) (rest : Bytes) :
    readVar (writeVar n ++ rest) 0 = some (n, rest) := by
  unfold writeVar
  have hlt : n / 128 < 128 ^ 9 := by
    unfold two64 at hn
    rw [Nat.div_lt_iff_lt_mul (by decide)]; omega
  rw [writeVarGo_eq 9 _ _ hlt, List.append_assoc, readVar_cont _ (by omega)]
  have hb : (UInt8.ofNat (n % 128)).toNat = n % 128 := by
    have : n % 128 < 256 := by omega
    simp [Nat.mod_eq_of_lt this]
  simp only [List.singleton_append, readVar, hb]
  have h1 : n % 128 < 128 := by omega
  simp only [h1, ↓reduceIte]
  have h2 : n % 128 % 128 = n % 128 := by omega
  have h3 : (n / 128 * 128 + n % 128) % two64 = n := by
    have : n / 128 * 128 + n % 128 = n := by omega
    rw [this]; exact Nat.mod_eq_of_lt hn
  rw [h2, h3]

theorem ptr_roundtrip (p : Ptr) (h1 : p.slot < two64) (h2 : p.tx < two64) (h3 : p.cert < two64)
    (rest : Bytes) : readPtr (writePtr p ++ rest) = some (p, rest) := by
  unfold readPtr writePtr
  simp only [List.append_assoc]
  rw [varint_roundtrip _ h1]
  simp only
  rw [varint_roundtrip _ h2]
  simp only
  rw [varint_roundtrip _ h3]

/-- the encoder emits at most ten bytes and a last byte without continuation bit -/
example : writeVar 0 = [0] ∧ writeVar 127 = [127] ∧ writeVar 128 = [0x81, 0] ∧
    (writeVar (two64 - 1)).length = 10 := by decide

-- ------------------------------------------------------------------ header and rejection

/-- The reported type and network are exactly the header nibbles. -/
theorem header_nibbles (wl : List Bytes) (b : Bytes) (a : Addr) (h : parse wl b = .ok a) :
    ∃ h0 rest, b = h0 :: rest ∧ a.typ = h0.toNat / 16 ∧ a.net = h0.toNat % 16 := by
  cases b with
  | nil => simp [parse] at h
  | cons h0 rest =>
    refine ⟨h0, rest, rfl, ?_⟩
    simp only [parse] at h
    split at h
    · cases h
    · split at h
      · cases h
      · split at h
        · cases h
        · split at h
          · cases h
          · split at h
            · cases h
            · split at h
              · cases h; exact ⟨rfl, rfl⟩
              · split at h
                · cases h; exact ⟨rfl, rfl⟩
                · cases h

/-- Accepted addresses have a known type and network 0 or 1. -/
theorem accepted_known (wl : List Bytes) (b : Bytes) (a : Addr) (h : parse wl b = .ok a) :
    knownType a.typ = true ∧ (a.net = 0 ∨ a.net = 1) := by
  cases b with
  | nil => simp [parse] at h
  | cons h0 rest =>
    simp only [parse] at h
    split at h
    · cases h
    · split at h
      · cases h
      · rename_i hnet
        split at h
        · cases h
        · rename_i hk
          have hk' : knownType (h0.toNat / 16) = true := by simpa using hk
          have hn' : h0.toNat % 16 = 0 ∨ h0.toNat % 16 = 1 := by omega
          split at h
          · cases h
          · split at h
            · cases h
            · split at h
              · cases h; exact ⟨hk', hn'⟩
              · split at h
                · cases h; exact ⟨hk', hn'⟩
                · cases h

/-- Reserved types 9–13 are rejected. -/
theorem rejects_reserved_type (wl : List Bytes) (h0 : UInt8) (rest : Bytes)
    (ht : 9 ≤ h0.toNat / 16 ∧ h0.toNat / 16 ≤ 13) : ∃ e, parse wl (h0 :: rest) = .error e := by
  simp only [parse]
  have h8 : ¬ h0.toNat / 16 = 8 := by omega
  simp only [h8, ↓reduceIte]
  split
  · exact ⟨_, rfl⟩
  · have : knownType (h0.toNat / 16) = false := by
      unfold knownType; simp; omega
    simp [this]

/-- A network nibble other than 0 / 1 is rejected (Shelley family). -/
theorem rejects_bad_network (wl : List Bytes) (h0 : UInt8) (rest : Bytes)
    (ht : h0.toNat / 16 ≠ 8) (hn : 2 ≤ h0.toNat % 16) : parse wl (h0 :: rest) = .error .network := by
  simp only [parse, ht, ↓reduceIte]
  have : h0.toNat % 16 ≠ 0 ∧ h0.toNat % 16 ≠ 1 := by omega
  simp [this]

/-- Empty input is rejected. -/
theorem rejects_empty (wl : List Bytes) : parse wl [] = .error .empty := rfl

/-- Trailing bytes are never accepted on testnet, and on mainnet only when whitelisted. -/
theorem extra_only_whitelisted (wl : List Bytes) (b : Bytes) (a : Addr) (h : parse wl b = .ok a) :
    a.extra = [] ∨ (a.net = 1 ∧ a.extra ∈ wl) := by
  cases b with
  | nil => simp [parse] at h
  | cons h0 rest =>
    simp only [parse] at h
    split at h
    · cases h
    · split at h
      · cases h
      · split at h
        · cases h
        · split at h
          · cases h
          · split at h
            · cases h
            · split at h
              · cases h; exact Or.inl rfl
              · split at h
                · rename_i hw
                  cases h
                  exact Or.inr ⟨hw.1, by simpa using hw.2⟩
                · cases h


-- ------------------------------------------------------------------ bytes → parse round trip

def payOK (t : Nat) : Pay → Prop
  | .none => payKind t = 2
  | .key h => payKind t = 0 ∧ h.length = 28
  | .script h => payKind t = 1 ∧ h.length = 28

def stakeOK (t : Nat) : Stake → Prop
  | .none => stakeKind t = 3
  | .key h => stakeKind t = 0 ∧ h.length = 28
  | .script h => stakeKind t = 1 ∧ h.length = 28
  | .ptr p => stakeKind t = 2 ∧ p.slot < two64 ∧ p.tx < two64 ∧ p.cert < two64

/-- a well-formed address value: known type, network 0/1, payload kinds as the type says, 28-byte
    hashes, 64-bit pointer components, extra data only from the mainnet whitelist -/
def Valid (wl : List Bytes) (a : Addr) : Prop :=
  knownType a.typ = true ∧ (a.net = 0 ∨ a.net = 1) ∧ payOK a.typ a.pay ∧ stakeOK a.typ a.stake ∧
  (a.extra = [] ∨ (a.net = 1 ∧ wl.contains a.extra = true))

theorem parsePay_bytes (t : Nat) (pay : Pay) (h : payOK t pay) (r : Bytes) :
    parsePay t (payBytes pay ++ r) = .ok (pay, r) := by
  cases pay with
  | none => simp only [payOK] at h; simp [parsePay, payBytes, h]
  | key hh =>
    obtain ⟨hk, hl⟩ := h
    simp [parsePay, payBytes, hk, hl, List.take_left' hl, List.drop_left' hl]
  | script hh =>
    obtain ⟨hk, hl⟩ := h
    simp [parsePay, payBytes, hk, hl, List.take_left' hl, List.drop_left' hl]

theorem parseStake_bytes (t : Nat) (st : Stake) (h : stakeOK t st) (r : Bytes) :
    parseStake t (stakeBytes st ++ r) = .ok (st, r) := by
  cases st with
  | none => simp only [stakeOK] at h; simp [parseStake, stakeBytes, h]
  | key hh =>
    obtain ⟨hk, hl⟩ := h
    simp [parseStake, stakeBytes, hk, hl, List.take_left' hl, List.drop_left' hl]
  | script hh =>
    obtain ⟨hk, hl⟩ := h
    simp [parseStake, stakeBytes, hk, hl, List.take_left' hl, List.drop_left' hl]
  | ptr p =>
    obtain ⟨hk, h1, h2, h3⟩ := h
    simp [parseStake, stakeBytes, hk, ptr_roundtrip p h1 h2 h3 r]

theorem header_facts (a : Addr) (hk : knownType a.typ = true) (hn : a.net = 0 ∨ a.net = 1) :
    (header a).toNat / 16 = a.typ ∧ (header a).toNat % 16 = a.net := by
  have ht : a.typ = 0 ∨ a.typ = 1 ∨ a.typ = 2 ∨ a.typ = 3 ∨ a.typ = 4 ∨ a.typ = 5 ∨ a.typ = 6 ∨
      a.typ = 7 ∨ a.typ = 14 ∨ a.typ = 15 := by
    unfold knownType at hk; simp at hk; omega
  unfold header
  rcases ht with h | h | h | h | h | h | h | h | h | h <;> rcases hn with n | n <;> rw [h, n] <;> decide

/-- parse ∘ bytes = id on valid addresses (all ten Shelley-family types, both networks, pointers
    of any 64-bit value, whitelisted mainnet trailers). -/
theorem parse_bytes (wl : List Bytes) (a : Addr) (hv : Valid wl a) : parse wl (bytes a) = .ok a := by
  obtain ⟨hk, hn, hp, hs, he⟩ := hv
  obtain ⟨h1, h2⟩ := header_facts a hk hn
  unfold bytes
  simp only [parse, h1, h2]
  have h8 : ¬ a.typ = 8 := by
    intro h; rw [h] at hk; simp [knownType] at hk
  have hnn : ¬ (a.net ≠ 0 ∧ a.net ≠ 1) := by omega
  simp only [h8, ↓reduceIte, hnn, hk, Bool.true_eq_false]
  rw [List.append_assoc, parsePay_bytes a.typ a.pay hp]
  simp only
  rw [parseStake_bytes a.typ a.stake hs]
  simp only
  rcases he with he | ⟨he1, he2⟩
  · simp [he]
    cases a; simp_all
  · by_cases hz : a.extra = []
    · simp [hz]; cases a; simp_all
    · simp only [hz, ↓reduceIte, he1, he2, and_self]
      cases a; simp_all

/-- Non-vacuity: a pointer address at the varint boundaries round-trips. -/
example :
    let a : Addr := ⟨4, 1, .key (List.replicate 28 7), .ptr ⟨two64 - 1, 128, 0⟩, []⟩
    Valid [] a ∧ (match parse [] (bytes a) with | .ok b => decide (b = a) | .error _ => false) = true := by
  refine ⟨⟨by decide, by decide, ⟨by decide, by decide⟩, ⟨by decide, by decide, by decide, by decide⟩, Or.inl rfl⟩, by decide⟩


-- ------------------------------------------------------------------ bytes ∘ parse (minimal pointers)

/-- `readVarUint` without the 64-bit wrap: the number the bytes denote -/
def readVarU : Bytes → Nat → Option (Nat × Bytes)
  | [], _ => none
  | b :: r, acc =>
    if b.toNat < 128 then some (acc * 128 + b.toNat % 128, r)
    else readVarU r (acc * 128 + b.toNat % 128)

theorem readVarU_ge : ∀ (b : Bytes) (acc n : Nat) (r : Bytes), readVarU b acc = some (n, r) → acc ≤ n
  | [], _, _, _, h => by simp [readVarU] at h
  | x :: t, acc, n, r, h => by
    unfold readVarU at h
    split at h
    · cases h; omega
    · have := readVarU_ge t _ n r h; omega

/-- when the denoted number fits 64 bits the decoder returns exactly it -/
theorem readVar_eq_U : ∀ (b : Bytes) (acc n : Nat) (r : Bytes),
    readVarU b acc = some (n, r) → n < two64 → readVar b acc = some (n, r)
  | [], _, _, _, h, _ => by simp [readVarU] at h
  | x :: t, acc, n, r, h, hn => by
    unfold readVarU at h
    unfold readVar
    split at h
    · rename_i hx
      cases h
      simp only [hx, ↓reduceIte, Nat.mod_eq_of_lt hn]
    · rename_i hx
      have hge := readVarU_ge t _ n r h
      have : (acc * 128 + x.toNat % 128) % two64 = acc * 128 + x.toNat % 128 :=
        Nat.mod_eq_of_lt (by omega)
      simp only [hx, ↓reduceIte, this]
      exact readVar_eq_U t _ n r h hn

/-- no redundant leading group: the first byte is not 0x80 -/
def noLeadZero : Bytes → Prop
  | [] => True
  | x :: _ => x.toNat ≠ 128

theorem contBytes_step (acc g : Nat) (hg : g < 128) (h : acc * 128 + g ≠ 0) :
    contBytes (acc * 128 + g) = contBytes acc ++ [UInt8.ofNat (g + 128)] := by
  rw [contBytes]
  have h1 : (acc * 128 + g) / 128 = acc := by omega
  have h2 : (acc * 128 + g) % 128 = g := by omega
  simp only [h, ↓reduceDIte, h1, h2]

theorem write_of_readU : ∀ (b : Bytes) (acc n : Nat) (r : Bytes),
    readVarU b acc = some (n, r) → (acc ≠ 0 ∨ noLeadZero b) →
    contBytes acc ++ b = contBytes (n / 128) ++ [UInt8.ofNat (n % 128)] ++ r
  | [], _, _, _, h, _ => by simp [readVarU] at h
  | x :: t, acc, n, r, h, hc => by
    have hx256 : x.toNat < 256 := x.toNat_lt
    unfold readVarU at h
    split at h
    · rename_i hx
      cases h
      have h1 : (acc * 128 + x.toNat % 128) / 128 = acc := by omega
      have h2 : (acc * 128 + x.toNat % 128) % 128 = x.toNat := by omega
      rw [h1, h2, UInt8.ofNat_toNat]
      simp
    · rename_i hx
      have hne : acc * 128 + x.toNat % 128 ≠ 0 := by
        rcases hc with hc | hc
        · omega
        · simp only [noLeadZero] at hc; omega
      have ih := write_of_readU t _ n r h (Or.inl hne)
      rw [contBytes_step acc (x.toNat % 128) (by omega) hne] at ih
      have hx' : UInt8.ofNat (x.toNat % 128 + 128) = x := by
        have : x.toNat % 128 + 128 = x.toNat := by omega
        rw [this, UInt8.ofNat_toNat]
      rw [hx'] at ih
      rw [← ih]; simp

/-- A varint that denotes a 64-bit number without a redundant leading group is exactly what the
    encoder writes for that number. -/
theorem varint_minimal (b : Bytes) (n : Nat) (r : Bytes) (hU : readVarU b 0 = some (n, r))
    (hn : n < two64) (hl : noLeadZero b) : writeVar n ++ r = b := by
  have := write_of_readU b 0 n r hU (Or.inr hl)
  have hlt : n / 128 < 128 ^ 9 := by
    unfold two64 at hn
    rw [Nat.div_lt_iff_lt_mul (by decide)]; omega
  unfold writeVar
  rw [writeVarGo_eq 9 _ _ hlt, ← this]
  simp [contBytes]

/-- `k` consecutive minimal varints of 64-bit numbers -/
def MinimalVars : Nat → Bytes → Prop
  | 0, _ => True
  | k + 1, b => noLeadZero b ∧ ∃ n r, readVarU b 0 = some (n, r) ∧ n < two64 ∧ MinimalVars k r

theorem readPtr_minimal (b : Bytes) (p : Ptr) (r : Bytes) (h : readPtr b = some (p, r))
    (hm : MinimalVars 3 b) : writePtr p ++ r = b := by
  obtain ⟨l1, n1, r1, u1, b1, l2, n2, r2, u2, b2, l3, n3, r3, u3, b3, _⟩ := hm
  unfold readPtr at h
  rw [readVar_eq_U _ _ _ _ u1 b1] at h
  simp only at h
  rw [readVar_eq_U _ _ _ _ u2 b2] at h
  simp only at h
  rw [readVar_eq_U _ _ _ _ u3 b3] at h
  simp only [Option.some.injEq, Prod.mk.injEq] at h
  obtain ⟨hp, hr⟩ := h
  subst hp; subst hr
  unfold writePtr
  simp only [List.append_assoc]
  rw [varint_minimal _ _ _ u3 b3 l3, varint_minimal _ _ _ u2 b2 l2, varint_minimal _ _ _ u1 b1 l1]

theorem parsePay_inv (t : Nat) (rest : Bytes) (pay : Pay) (r1 : Bytes)
    (h : parsePay t rest = .ok (pay, r1)) :
    payBytes pay ++ r1 = rest ∧ (payKind t ≠ 2 → r1 = rest.drop 28) := by
  unfold parsePay at h
  split at h
  · rename_i hk; cases h; exact ⟨rfl, fun hh => absurd hk hh⟩
  · split at h
    · cases h
    · split at h <;> (cases h; exact ⟨List.take_append_drop 28 rest, fun _ => rfl⟩)

theorem parseStake_inv (t : Nat) (r1 : Bytes) (st : Stake) (r2 : Bytes)
    (h : parseStake t r1 = .ok (st, r2)) (hm : stakeKind t = 2 → MinimalVars 3 r1) :
    stakeBytes st ++ r2 = r1 := by
  unfold parseStake at h
  split at h
  · cases h; rfl
  · split at h
    · rename_i hk
      split at h
      · cases h
      · cases h
        exact readPtr_minimal r1 _ _ (by assumption) (hm hk)
    · split at h
      · cases h
      · split at h <;> (cases h; exact List.take_append_drop 28 r1)

set_option maxRecDepth 20000 in
theorem header_inv (h0 : UInt8) (pay : Pay) (st : Stake) (ex : Bytes) :
    header ⟨h0.toNat / 16, h0.toNat % 16, pay, st, ex⟩ = h0 := by
  unfold header
  have key : ∀ n, n < 256 → (n / 16 * 16) % 256 ||| (n % 16 % 16) = n := by decide
  simp only [key h0.toNat h0.toNat_lt, UInt8.ofNat_toNat]

theorem stakeKind_two (t : Nat) (h : stakeKind t = 2) : payKind t ≠ 2 := by
  unfold stakeKind at h
  unfold payKind
  split at h
  · cases h
  · split at h
    · cases h
    · split at h
      · rename_i h45
        rcases h45 with h4 | h5
        · subst h4; decide
        · subst h5; decide
      · cases h

/-- **bytes ∘ parse = id** on accepted bytes, given minimal pointer varints (pointer types only;
    every other type unconditionally). -/
theorem bytes_parse (wl : List Bytes) (b : Bytes) (a : Addr) (h : parse wl b = .ok a)
    (hm : ∀ h0 rest, b = h0 :: rest → stakeKind (h0.toNat / 16) = 2 → MinimalVars 3 (rest.drop 28)) :
    bytes a = b := by
  cases b with
  | nil => simp [parse] at h
  | cons h0 rest =>
    simp only [parse] at h
    split at h
    · cases h
    · split at h
      · cases h
      · split at h
        · cases h
        · split at h
          · cases h
          · rename_i pay r1 hp
            split at h
            · cases h
            · rename_i stake r2 hs
              obtain ⟨e1, e1'⟩ := parsePay_inv _ _ _ _ hp
              have e2 := parseStake_inv _ _ _ _ hs (fun hk => by
                rw [e1' (stakeKind_two _ hk)]; exact hm h0 rest rfl hk)
              split at h
              · rename_i hr
                cases h
                unfold bytes
                simp only [header_inv, List.append_nil]
                rw [hr] at e2; simp only [List.append_nil] at e2
                rw [e2, e1]
              · split at h
                · cases h
                  unfold bytes
                  simp only [header_inv]
                  rw [List.append_assoc, e2, e1]
                · cases h

/-- Non-vacuity: minimal pointer bytes at the varint boundaries satisfy the hypothesis. -/
example : MinimalVars 3 [0x81, 0xff, 0xff, 0xff, 0xff, 0xff, 0xff, 0xff, 0xff, 0x7f, 0x81, 0x00, 0x00] := by
  refine ⟨by simp [noLeadZero], _, _, rfl, by decide, by simp [noLeadZero], _, _, rfl, by decide, by simp [noLeadZero], _, _, rfl, by decide, trivial⟩

-- ------------------------------------------------------------------ text form

/-- Text parsing never accepts a bech32 prefix that does not match the address, and never
    accepts Byron bytes under bech32. -/
theorem hrp_must_match (wl : List Bytes) (crc : Bytes → Nat) (p : TextPrims) (h : String) (d : Bytes)
    (hb : p.bech32 = some (h, d)) (a : Addr) (hr : newAddress wl crc p = .shelley a) :
    lower h = lower (hrp a) ∧ parse wl d = .ok a := by
  unfold newAddress at hr
  split at hr
  · cases hr
  · rw [hb] at hr
    simp only at hr
    split at hr
    · cases hr
    · split at hr
      · split at hr <;> cases hr
      · split at hr
        · cases hr
        · rename_i a' hp
          split at hr
          · rename_i hl
            cases hr
            exact ⟨hl, hp⟩
          · cases hr

theorem bech32_never_byron (wl : List Bytes) (crc : Bytes → Nat) (p : TextPrims) (h : String) (d : Bytes)
    (hb : p.bech32 = some (h, d)) (r : ByronAddr) :
    newAddress wl crc p ≠ .byron (.ok r) := by
  intro hr
  unfold newAddress at hr
  split at hr
  · cases hr
  · rw [hb] at hr
    simp only at hr
    split at hr
    · cases hr
    · split at hr
      · split at hr <;> cases hr
      · split at hr
        · cases hr
        · split at hr <;> cases hr

theorem tagContent_not_ok (r : Bytes) (a : ByronAddr) : tagContent r ≠ Sum.inl (ByronRes.ok a) := by
  unfold tagContent
  repeat' split
  all_goals (intro h; cases h)

theorem payload_hash_len (p : Bytes) (a : ByronAddr) (h : parsePayload p = .ok a) :
    a.hash.length = 28 := by
  unfold parsePayload at h
  repeat' split at h
  all_goals first | (cases h; done) | skip
  all_goals (cases h; simp only at *; omega)

/-- Byron: an accepted address has a 28-byte root. -/
theorem byron_hash_len (crc : Bytes → Nat) (b : Bytes) (a : ByronAddr)
    (h : parseByron crc b = .ok a) : a.hash.length = 28 := by
  unfold parseByron at h
  repeat' split at h
  all_goals first | (cases h; done) | skip
  all_goals first
    | exact payload_hash_len _ _ h
    | (exfalso; subst h; exact tagContent_not_ok _ _ (by assumption))

/-- Byron: an accepted address carries the CRC-32 of its payload and the tag number 24. -/
theorem byron_crc_checked (crc : Bytes → Nat) (b : Bytes) (a : ByronAddr)
    (h : parseByron crc b = .ok a) :
    ∃ r0 r1 payload r2, readHead b = some (4, .val 2, r0) ∧ readHead r0 = some (6, .val 24, r1) ∧
      tagContent r1 = .inr (payload, r2) ∧ readUint r2 = some (crc payload, []) ∧
      parsePayload payload = .ok a := by
  unfold parseByron at h
  split at h
  · rename_i r0 hr0
    split at h
    · rename_i tag r1 hr1
      split at h
      · rename_i _ e he
        exfalso; subst h; exact tagContent_not_ok _ _ he
      · rename_i payload r2 htc
        split at h
        · cases h
        · rename_i chk r3 hu
          split at h
          · cases h
          · split at h
            · cases h
            · rename_i hr3
              split at h
              · cases h
              · rename_i htag
                split at h
                · cases h
                · rename_i hchk
                  have e3 : r3 = [] := by simpa using hr3
                  have et : tag = 24 := by simpa using htag
                  have ec : chk = crc payload := by simpa using hchk
                  subst e3; subst et; subst ec
                  exact ⟨r0, r1, payload, r2, hr0, hr1, htc, hu, h⟩
    · cases h
  · cases h

-- ------------------------------------------------------------------ Byron round trip

section ByronRT
open GV.Proofs.CborLite (readHead_head readBytes_enc readUint_head head_length)

theorem head_len_le (m n : Nat) : (head m n).length ≤ 9 := by
  rw [head_length]; repeat' split
  all_goals omega

theorem head_ne_nil (m n : Nat) : (head m n).isEmpty = false := by
  have : 0 < (head m n).length := by rw [head_length]; repeat' split
                                     all_goals omega
  cases h : head m n with
  | nil => rw [h] at this; simp at this
  | cons _ _ => rfl

/-- a well-formed Byron address value: 28-byte root, attribute payload and sizes within CBOR /
    uint32 limits -/
def ByronValid (a : ByronAddr) : Prop :=
  a.hash.length = 28 ∧ a.attrPayload.length < 4294967296 ∧
  (∀ n, a.network = some n → n < 4294967296) ∧ a.btype < GV.Proofs.CborLite.two64

theorem attrs_p (ap rest : Bytes) (h : ap.length < GV.Proofs.CborLite.two64) :
    readAttrs 1 ([0x01] ++ (encBytes ap ++ rest)) = some (ap, none, rest) := by
  have h01 : ([0x01] : Bytes) = head 0 1 := rfl
  unfold readAttrs
  rw [h01, readUint_head 1 (by decide)]
  simp only
  rw [readBytes_enc _ h]
  simp [readAttrs]

theorem attrs_n (p0 : Bytes) (n : Nat) (rest : Bytes) :
    readAttrs 1 ([0x02] ++ (encBytes (head 0 n) ++ rest)) = some ([], some (head 0 n), rest) := by
  have h02 : ([0x02] : Bytes) = head 0 2 := rfl
  have hl : (head 0 n).length < GV.Proofs.CborLite.two64 := by
    have := head_len_le 0 n; unfold GV.Proofs.CborLite.two64; omega
  unfold readAttrs
  rw [h02, readUint_head 2 (by decide)]
  simp only
  rw [readBytes_enc _ hl]
  simp [readAttrs]

theorem attrs_pn (ap : Bytes) (n : Nat) (rest : Bytes) (h : ap.length < GV.Proofs.CborLite.two64) :
    readAttrs 2 ([0x01] ++ (encBytes ap ++ ([0x02] ++ (encBytes (head 0 n) ++ rest))))
      = some (ap, some (head 0 n), rest) := by
  have h01 : ([0x01] : Bytes) = head 0 1 := rfl
  unfold readAttrs
  rw [h01, readUint_head 1 (by decide)]
  simp only
  rw [readBytes_enc _ h]
  simp only
  rw [attrs_n [] n rest]
  simp

/-- what `encAttrs` writes, `readAttrs` reads back -/
theorem encAttrs_read (a : ByronAddr) (hv : ByronValid a) (rest : Bytes) :
    ∃ cnt body, encAttrs a = head 5 cnt ++ body ∧ cnt < GV.Proofs.CborLite.two64 ∧
      readAttrs cnt (body ++ rest) = some (a.attrPayload, a.network.map (fun n => head 0 n), rest) := by
  obtain ⟨_, hap, _, _⟩ := hv
  have hapl : a.attrPayload.length < GV.Proofs.CborLite.two64 := by
    unfold GV.Proofs.CborLite.two64; omega
  cases hn : a.network with
  | none =>
    by_cases he : a.attrPayload.isEmpty = true
    · have e0 : a.attrPayload = [] := List.isEmpty_iff.mp he
      refine ⟨0, [], ?_, by decide, ?_⟩
      · simp [encAttrs, hn, he]
      · simp [readAttrs, e0]
    · refine ⟨1, [0x01] ++ encBytes a.attrPayload, ?_, by decide, ?_⟩
      · simp [encAttrs, hn, he]
      · rw [List.append_assoc]; simpa using attrs_p a.attrPayload rest hapl
  | some n =>
    by_cases he : a.attrPayload.isEmpty = true
    · have e0 : a.attrPayload = [] := List.isEmpty_iff.mp he
      refine ⟨1, [0x02] ++ encBytes (head 0 n), ?_, by decide, ?_⟩
      · simp [encAttrs, hn, he]
      · rw [List.append_assoc, e0]; simpa using attrs_n [] n rest
    · refine ⟨2, [0x01] ++ encBytes a.attrPayload ++ ([0x02] ++ encBytes (head 0 n)), ?_, by decide, ?_⟩
      · simp [encAttrs, hn, he]
      · have := attrs_pn a.attrPayload n rest hapl
        simpa [List.append_assoc] using this

/-- the tag content decodes back to the address value -/
theorem byron_payload_roundtrip (a : ByronAddr) (hv : ByronValid a) :
    parsePayload (byronPayload a) = .ok a := by
  obtain ⟨cnt, body, hea, hcnt, hra⟩ := encAttrs_read a hv (head 0 a.btype)
  obtain ⟨hh, hap, hnet, hbt⟩ := hv
  have h83 : ([0x83] : Bytes) = head 4 3 := rfl
  unfold parsePayload byronPayload
  rw [hea]
  simp only [h83, List.append_assoc]
  rw [readHead_head 4 3 (by decide) (by decide)]
  simp only
  rw [readBytes_enc _ (by rw [hh]; decide)]
  simp only
  rw [readHead_head 5 _ (by decide) hcnt]
  simp only
  rw [hra]
  simp only
  rw [← List.append_nil (head 0 a.btype), readUint_head _ hbt]
  simp only [hh, ne_eq, not_true_eq_false, ↓reduceIte]
  cases hn : a.network with
  | none => cases a; simp_all
  | some n =>
    simp only [Option.map_some, head_ne_nil, Bool.false_eq_true, ↓reduceIte]
    have hn32 := hnet n hn
    rw [← List.append_nil (head 0 n), readUint_head n (by unfold GV.Proofs.CborLite.two64; omega)]
    have : ¬ n ≥ 4294967296 := by omega
    simp only [this, ↓reduceIte]
    cases a; simp_all

theorem encBytes_len_le (x : Bytes) : (encBytes x).length ≤ 9 + x.length := by
  unfold encBytes
  have := head_len_le 2 x.length
  simp only [List.length_append]; omega

theorem encAttrs_len_le (a : ByronAddr) : (encAttrs a).length ≤ 50 + a.attrPayload.length := by
  unfold encAttrs
  have l0 := head_len_le 5 ((if a.attrPayload.isEmpty then 0 else 1) + (if a.network.isSome then 1 else 0))
  have l1 := encBytes_len_le a.attrPayload
  cases hn : a.network with
  | none =>
    by_cases he : a.attrPayload.isEmpty = true
    · simp only [hn, he, ↓reduceIte, List.length_append, List.length_nil] at l0 ⊢; omega
    · simp only [hn, he, Bool.false_eq_true, ↓reduceIte, List.length_append, List.length_cons,
        List.length_nil] at l0 ⊢; omega
  | some n =>
    have l2 := encBytes_len_le (head 0 n)
    have l3 := head_len_le 0 n
    by_cases he : a.attrPayload.isEmpty = true
    · simp only [hn, he, ↓reduceIte, List.length_append, List.length_cons, List.length_nil] at l0 ⊢; omega
    · simp only [hn, he, Bool.false_eq_true, ↓reduceIte, List.length_append, List.length_cons,
        List.length_nil] at l0 ⊢; omega

theorem byronPayload_len (a : ByronAddr) (hv : ByronValid a) :
    (byronPayload a).length < GV.Proofs.CborLite.two64 := by
  obtain ⟨hh, hap, _, _⟩ := hv
  unfold byronPayload
  have l1 := encBytes_len_le a.hash
  have l2 := encAttrs_len_le a
  have l3 := head_len_le 0 a.btype
  simp only [List.length_append, List.length_cons, List.length_nil]
  unfold GV.Proofs.CborLite.two64
  omega

/-- **Byron round trip**: parsing the bytes of a Byron address gives the address back, for every
    CRC function with 32-bit results (`crc32.ChecksumIEEE` is a primitive). -/
theorem byron_roundtrip (crc : Bytes → Nat) (hcrc : ∀ p, crc p < 4294967296) (a : ByronAddr)
    (hv : ByronValid a) : parseByron crc (byronBytes crc a) = .ok a := by
  have h82 : ([0x82, 0xd8, 0x18] : Bytes) = head 4 2 ++ head 6 24 := rfl
  unfold parseByron byronBytes
  simp only [h82, List.append_assoc]
  rw [readHead_head 4 2 (by decide) (by decide)]
  simp only
  rw [readHead_head 6 24 (by decide) (by decide)]
  simp only
  have htc : tagContent (encBytes (byronPayload a) ++ head 0 (crc (byronPayload a))) =
      .inr (byronPayload a, head 0 (crc (byronPayload a))) := by
    unfold tagContent encBytes
    rw [List.append_assoc, readHead_head 2 _ (by decide) (byronPayload_len a hv)]
    simp [List.take_left' rfl, List.drop_left' rfl]
  rw [htc]
  simp only
  have hc := hcrc (byronPayload a)
  rw [← List.append_nil (head 0 (crc (byronPayload a))),
    readUint_head _ (by unfold GV.Proofs.CborLite.two64; omega)]
  have : ¬ crc (byronPayload a) ≥ 4294967296 := by omega
  simp only [this, ↓reduceIte, ne_eq, not_true_eq_false]
  exact byron_payload_roundtrip a hv

/-- **Bad checksum is rejected**: the same bytes with any other 32-bit checksum. -/
theorem byron_bad_crc_rejected (crc : Bytes → Nat) (a : ByronAddr) (hv : ByronValid a) (chk : Nat)
    (h32 : chk < 4294967296) (hne : chk ≠ crc (byronPayload a)) :
    parseByron crc ([0x82, 0xd8, 0x18] ++ encBytes (byronPayload a) ++ head 0 chk) = .err .byronCrc := by
  have h82 : ([0x82, 0xd8, 0x18] : Bytes) = head 4 2 ++ head 6 24 := rfl
  unfold parseByron
  simp only [h82, List.append_assoc]
  rw [readHead_head 4 2 (by decide) (by decide)]
  simp only
  rw [readHead_head 6 24 (by decide) (by decide)]
  simp only
  have htc : tagContent (encBytes (byronPayload a) ++ head 0 chk) = .inr (byronPayload a, head 0 chk) := by
    unfold tagContent encBytes
    rw [List.append_assoc, readHead_head 2 _ (by decide) (byronPayload_len a hv)]
    simp [List.take_left' rfl, List.drop_left' rfl]
  rw [htc]
  simp only
  rw [← List.append_nil (head 0 chk), readUint_head _ (by unfold GV.Proofs.CborLite.two64; omega)]
  have : ¬ chk ≥ 4294967296 := by omega
  simp only [this, ↓reduceIte, ne_eq, not_true_eq_false, hne, not_false_eq_true]

end ByronRT

-- ------------------------------------------------------------------ text round trips (under the codec laws)

/-- **bech32 round trip.**  `String()` is `bech32Enc (hrp a) (bytes a)`; the law of the codec —
    decoding that string yields `(hrp a, bytes a)` — is the hypothesis `hlaw` on the primitive
    results for the string.  Then `NewAddress (String a) = a` for every valid address. -/
theorem text_roundtrip (wl : List Bytes) (crc : Bytes → Nat) (a : Addr) (hv : Valid wl a)
    (p : TextPrims) (hlaw : p.bech32 = some (hrp a, bytes a)) (hconv : p.convFail = false) :
    newAddress wl crc p = .shelley a := by
  have hpb := parse_bytes wl a hv
  obtain ⟨hk, hn, _⟩ := hv
  obtain ⟨h1, _⟩ := header_facts a hk hn
  have h8 : ¬ (header a).toNat / 16 = 8 := by
    rw [h1]; intro h; rw [h] at hk; simp [knownType] at hk
  unfold newAddress
  simp only [hconv, Bool.false_eq_true, ↓reduceIte, hlaw]
  unfold bytes at hpb ⊢
  simp only [h8, ↓reduceIte, hpb]

/-- **base58 round trip for Byron.**  `String()` is `base58Enc (byronBytes a)`; laws of the codec as
    hypotheses: the string is not bech32, has no Shelley prefix, and `base58Dec` inverts `base58Enc`. -/
theorem byron_text_roundtrip (wl : List Bytes) (crc : Bytes → Nat) (hcrc : ∀ p, crc p < 4294967296)
    (a : ByronAddr) (hv : ByronValid a) (p : TextPrims)
    (h1 : p.bech32 = none) (h2 : p.convFail = false) (h3 : p.shelleyPrefix = false)
    (hlaw : p.base58 = byronBytes crc a) :
    newAddress wl crc p = .byron (.ok a) := by
  unfold newAddress
  simp only [h2, Bool.false_eq_true, ↓reduceIte, h1, h3, hlaw]
  have hb : byronBytes crc a = 0x82 :: ([0xd8, 0x18] ++ encBytes (byronPayload a) ++ head 0 (crc (byronPayload a))) := rfl
  rw [hb]
  simp only [List.isEmpty_cons, Bool.false_eq_true, ↓reduceIte]
  have : (0x82 : UInt8).toNat / 16 = 8 := by decide
  simp only [this, ↓reduceIte]
  rw [← hb, byron_roundtrip crc hcrc a hv]

end GV.Props.C05
