import GV.Model.Address
import GV.Gen.AddrConsts
import GV.Gen.AddrTrailers
/-!
C05 — Address encodings are mutually consistent.
-/
namespace GV.Props.C05
open GV.Model.Address GV.Lib.CborLite

/-- Regenerated tie: the header constants in the source are the CIP-19 values the model uses. -/
theorem gen_consts :
    GV.Gen.AddrConsts.headerTypeMask = 240 ∧ GV.Gen.AddrConsts.headerNetworkMask = 15 ∧
    GV.Gen.AddrConsts.hashSize = 28 ∧
    GV.Gen.AddrConsts.networkTestnet = 0 ∧ GV.Gen.AddrConsts.networkMainnet = 1 ∧
    [GV.Gen.AddrConsts.typeKeyKey, GV.Gen.AddrConsts.typeScriptKey, GV.Gen.AddrConsts.typeKeyScript,
     GV.Gen.AddrConsts.typeScriptScript, GV.Gen.AddrConsts.typeKeyPointer,
     GV.Gen.AddrConsts.typeScriptPointer, GV.Gen.AddrConsts.typeKeyNone,
     GV.Gen.AddrConsts.typeScriptNone, GV.Gen.AddrConsts.typeByron, GV.Gen.AddrConsts.typeNoneKey,
     GV.Gen.AddrConsts.typeNoneScript] = [0, 1, 2, 3, 4, 5, 6, 7, 8, 14, 15] := by decide

/-- every whitelisted trailer is non-empty (an exact-length address never carries extra data) -/
theorem trailers_nonempty : ∀ t ∈ GV.Gen.AddrTrailers.trailers, t ≠ [] := by decide

-- ------------------------------------------------------------------ varints

/-- continuation groups (MSB first) of a prefix value -/
def contBytes (v : Nat) : Bytes :=
  if h : v = 0 then [] else contBytes (v / 128) ++ [UInt8.ofNat (v % 128 + 128)]
termination_by v
decreasing_by omega

theorem writeVarGo_eq (f : Nat) : ∀ (v : Nat) (acc : Bytes), v < 128 ^ f →
    writeVarGo f v acc = contBytes v ++ acc := by
  induction f with
  | zero =>
    intro v acc h
    have : v = 0 := by simpa using h
    subst this
    simp [writeVarGo, contBytes]
  | succ f ih =>
    intro v acc h
    unfold writeVarGo
    by_cases hv : v = 0
    · subst hv; simp [contBytes]
    · simp only [hv, ↓reduceIte]
      have hlt : v / 128 < 128 ^ f := by
        rw [Nat.div_lt_iff_lt_mul (by decide)]; rw [Nat.pow_succ] at h; exact h
      rw [ih _ _ hlt]
      conv => rhs; rw [contBytes]
      simp [hv]

theorem readVar_cont : ∀ (v : Nat), v < two64 → ∀ (tail : Bytes),
    readVar (contBytes v ++ tail) 0 = readVar tail v := by
  intro v
  induction v using Nat.strongRecOn with
  | _ v ih =>
    intro hv tail
    by_cases h0 : v = 0
    · subst h0; simp [contBytes]
    · rw [contBytes]; simp only [h0, ↓reduceDIte, List.append_assoc, List.singleton_append]
      have hlt : v / 128 < v := Nat.div_lt_self (by omega) (by decide)
      rw [ih (v / 128) hlt (by omega)]
      have hb : (UInt8.ofNat (v % 128 + 128)).toNat = v % 128 + 128 := by
        have : v % 128 + 128 < 256 := by omega
        simp [Nat.mod_eq_of_lt this]
      simp only [readVar, hb]
      have h1 : ¬ (v % 128 + 128 < 128) := by omega
      simp only [h1, ↓reduceIte]
      have h2 : (v % 128 + 128) % 128 = v % 128 := by omega
      have h3 : (v / 128 * 128 + v % 128) % two64 = v := by
        have : v / 128 * 128 + v % 128 = v := by omega
        rw [this]; exact Nat.mod_eq_of_lt hv
      rw [h2, h3]

/-- Pointer varints round-trip for every 64-bit value, whatever follows. -/
theorem varint_roundtrip (n : Nat) (hn : n < two64) (rest : Bytes) :
    readVar (writeVar n ++ rest) 0 = some (n, rest) := by
  unfold writeVar
  have hlt : n / 128 < 128 ^ 9 := by
    unfold two64 at hn
    rw [Nat.div_lt_iff_lt_mul (by decide)]; omega
  rw [writeVarGo_eq 9 _ _ hlt, List.append_assoc, readVar_cont _ (by omega)]
  have hb : (UInt8.ofNat (n % 128)).toNat = n % 128 := by
    have : n % 128 < 256 := by omega
    simp [Nat.mod_eq_of_lt this]
  simp only [List.singleton_append, readVar, hb]
  have h1 : n % 128 < 128 := by omega
  simp only [h1, ↓reduceIte]
  have h2 : n % 128 % 128 = n % 128 := by omega
  have h3 : (n / 128 * 128 + n % 128) % two64 = n := by
    have : n / 128 * 128 + n % 128 = n := by omega
    rw [this]; exact Nat.mod_eq_of_lt hn
  rw [h2, h3]

theorem ptr_roundtrip (p : Ptr) (h1 : p.slot < two64) (h2 : p.tx < two64) (h3 : p.cert < two64)
    (rest : Bytes) : readPtr (writePtr p ++ rest) = some (p, rest) := by
  unfold readPtr writePtr
  simp only [List.append_assoc]
  rw [varint_roundtrip _ h1]
  simp only
  rw [varint_roundtrip _ h2]
  simp only
  rw [varint_roundtrip _ h3]

/-- the encoder emits at most ten bytes and a last byte without continuation bit -/
example : writeVar 0 = [0] ∧ writeVar 127 = [127] ∧ writeVar 128 = [0x81, 0] ∧
    (writeVar (two64 - 1)).length = 10 := by decide

-- ------------------------------------------------------------------ header and rejection

/-- The reported type and network are exactly the header nibbles. -/
theorem header_nibbles (wl : List Bytes) (b : Bytes) (a : Addr) (h : parse wl b = .ok a) :
    ∃ h0 rest, b = h0 :: rest ∧ a.typ = h0.toNat / 16 ∧ a.net = h0.toNat % 16 := by
  cases b with
  | nil => simp [parse] at h
  | cons h0 rest =>
    refine ⟨h0, rest, rfl, ?_⟩
    simp only [parse] at h
    split at h
    · cases h
    · split at h
      · cases h
      · split at h
        · cases h
        · split at h
          · cases h
          · split at h
            · cases h
            · split at h
              · cases h; exact ⟨rfl, rfl⟩
              · split at h
                · cases h; exact ⟨rfl, rfl⟩
                · cases h

/-- Accepted addresses have a known type and network 0 or 1. -/
theorem accepted_known (wl : List Bytes) (b : Bytes) (a : Addr) (h : parse wl b = .ok a) :
    knownType a.typ = true ∧ (a.net = 0 ∨ a.net = 1) := by
  cases b with
  | nil => simp [parse] at h
  | cons h0 rest =>
    simp only [parse] at h
    split at h
    · cases h
    · split at h
      · cases h
      · rename_i hnet
        split at h
        · cases h
        · rename_i hk
          have hk' : knownType (h0.toNat / 16) = true := by simpa using hk
          have hn' : h0.toNat % 16 = 0 ∨ h0.toNat % 16 = 1 := by omega
          split at h
          · cases h
          · split at h
            · cases h
            · split at h
              · cases h; exact ⟨hk', hn'⟩
              · split at h
                · cases h; exact ⟨hk', hn'⟩
                · cases h

/-- Reserved types 9–13 are rejected. -/
theorem rejects_reserved_type (wl : List Bytes) (h0 : UInt8) (rest : Bytes)
    (ht : 9 ≤ h0.toNat / 16 ∧ h0.toNat / 16 ≤ 13) : ∃ e, parse wl (h0 :: rest) = .error e := by
  simp only [parse]
  have h8 : ¬ h0.toNat / 16 = 8 := by omega
  simp only [h8, ↓reduceIte]
  split
  · exact ⟨_, rfl⟩
  · have : knownType (h0.toNat / 16) = false := by
      unfold knownType; simp; omega
    simp [this]

/-- A network nibble other than 0 / 1 is rejected (Shelley family). -/
theorem rejects_bad_network (wl : List Bytes) (h0 : UInt8) (rest : Bytes)
    (ht : h0.toNat / 16 ≠ 8) (hn : 2 ≤ h0.toNat % 16) : parse wl (h0 :: rest) = .error .network := by
  simp only [parse, ht, ↓reduceIte]
  have : h0.toNat % 16 ≠ 0 ∧ h0.toNat % 16 ≠ 1 := by omega
  simp [this]

/-- Empty input is rejected. -/
theorem rejects_empty (wl : List Bytes) : parse wl [] = .error .empty := rfl

/-- Trailing bytes are never accepted on testnet, and on mainnet only when whitelisted. -/
theorem extra_only_whitelisted (wl : List Bytes) (b : Bytes) (a : Addr) (h : parse wl b = .ok a) :
    a.extra = [] ∨ (a.net = 1 ∧ a.extra ∈ wl) := by
  cases b with
  | nil => simp [parse] at h
  | cons h0 rest =>
    simp only [parse] at h
    split at h
    · cases h
    · split at h
      · cases h
      · split at h
        · cases h
        · split at h
          · cases h
          · split at h
            · cases h
            · split at h
              · cases h; exact Or.inl rfl
              · split at h
                · rename_i hw
                  cases h
                  exact Or.inr ⟨hw.1, by simpa using hw.2⟩
                · cases h


-- ------------------------------------------------------------------ bytes → parse round trip

def payOK (t : Nat) : Pay → Prop
  | .none => payKind t = 2
  | .key h => payKind t = 0 ∧ h.length = 28
  | .script h => payKind t = 1 ∧ h.length = 28

def stakeOK (t : Nat) : Stake → Prop
  | .none => stakeKind t = 3
  | .key h => stakeKind t = 0 ∧ h.length = 28
  | .script h => stakeKind t = 1 ∧ h.length = 28
  | .ptr p => stakeKind t = 2 ∧ p.slot < two64 ∧ p.tx < two64 ∧ p.cert < two64

/-- a well-formed address value: known type, network 0/1, payload kinds as the type says, 28-byte
    hashes, 64-bit pointer components, extra data only from the mainnet whitelist -/
def Valid (wl : List Bytes) (a : Addr) : Prop :=
  knownType a.typ = true ∧ (a.net = 0 ∨ a.net = 1) ∧ payOK a.typ a.pay ∧ stakeOK a.typ a.stake ∧
  (a.extra = [] ∨ (a.net = 1 ∧ wl.contains a.extra = true))

theorem parsePay_bytes (t : Nat) (pay : Pay) (h : payOK t pay) (r : Bytes) :
    parsePay t (payBytes pay ++ r) = .ok (pay, r) := by
  cases pay with
  | none => simp only [payOK] at h; simp [parsePay, payBytes, h]
  | key hh =>
    obtain ⟨hk, hl⟩ := h
    simp [parsePay, payBytes, hk, hl, List.take_left' hl, List.drop_left' hl]
  | script hh =>
    obtain ⟨hk, hl⟩ := h
    simp [parsePay, payBytes, hk, hl, List.take_left' hl, List.drop_left' hl]

theorem parseStake_bytes (t : Nat) (st : Stake) (h : stakeOK t st) (r : Bytes) :
    parseStake t (stakeBytes st ++ r) = .ok (st, r) := by
  cases st with
  | none => simp only [stakeOK] at h; simp [parseStake, stakeBytes, h]
  | key hh =>
    obtain ⟨hk, hl⟩ := h
    simp [parseStake, stakeBytes, hk, hl, List.take_left' hl, List.drop_left' hl]
  | script hh =>
    obtain ⟨hk, hl⟩ := h
    simp [parseStake, stakeBytes, hk, hl, List.take_left' hl, List.drop_left' hl]
  | ptr p =>
    obtain ⟨hk, h1, h2, h3⟩ := h
    simp [parseStake, stakeBytes, hk, ptr_roundtrip p h1 h2 h3 r]

theorem header_facts (a : Addr) (hk : knownType a.typ = true) (hn : a.net = 0 ∨ a.net = 1) :
    (header a).toNat / 16 = a.typ ∧ (header a).toNat % 16 = a.net := by
  have ht : a.typ = 0 ∨ a.typ = 1 ∨ a.typ = 2 ∨ a.typ = 3 ∨ a.typ = 4 ∨ a.typ = 5 ∨ a.typ = 6 ∨
      a.typ = 7 ∨ a.typ = 14 ∨ a.typ = 15 := by
    unfold knownType at hk; simp at hk; omega
  unfold header
  rcases ht with h | h | h | h | h | h | h | h | h | h <;> rcases hn with n | n <;> rw [h, n] <;> decide

/-- parse ∘ bytes = id on valid addresses (all ten Shelley-family types, both networks, pointers
    of any 64-bit value, whitelisted mainnet trailers). -/
theorem parse_bytes (wl : List Bytes) (a : Addr) (hv : Valid wl a) : parse wl (bytes a) = .ok a := by
  obtain ⟨hk, hn, hp, hs, he⟩ := hv
  obtain ⟨h1, h2⟩ := header_facts a hk hn
  unfold bytes
  simp only [parse, h1, h2]
  have h8 : ¬ a.typ = 8 := by
    intro h; rw [h] at hk; simp [knownType] at hk
  have hnn : ¬ (a.net ≠ 0 ∧ a.net ≠ 1) := by omega
  simp only [h8, ↓reduceIte, hnn, hk, Bool.true_eq_false]
  rw [List.append_assoc, parsePay_bytes a.typ a.pay hp]
  simp only
  rw [parseStake_bytes a.typ a.stake hs]
  simp only
  rcases he with he | ⟨he1, he2⟩
  · simp [he]
    cases a; simp_all
  · by_cases hz : a.extra = []
    · simp [hz]; cases a; simp_all
    · simp only [hz, ↓reduceIte, he1, he2, and_self]
      cases a; simp_all

/-- Non-vacuity: a pointer address at the varint boundaries round-trips. -/
example :
    let a : Addr := ⟨4, 1, .key (List.replicate 28 7), .ptr ⟨two64 - 1, 128, 0⟩, []⟩
    Valid [] a ∧ (match parse [] (bytes a) with | .ok b => decide (b = a) | .error _ => false) = true := by
  refine ⟨⟨by decide, by decide, ⟨by decide, by decide⟩, ⟨by decide, by decide, by decide, by decide⟩, Or.inl rfl⟩, by decide⟩

-- ------------------------------------------------------------------ text form

/-- Text parsing never accepts a bech32 prefix that does not match the address, and never
    accepts Byron bytes under bech32. -/
theorem hrp_must_match (wl : List Bytes) (crc : Bytes → Nat) (p : TextPrims) (h : String) (d : Bytes)
    (hb : p.bech32 = some (h, d)) (a : Addr) (hr : newAddress wl crc p = .shelley a) :
    lower h = lower (hrp a) ∧ parse wl d = .ok a := by
  unfold newAddress at hr
  split at hr
  · cases hr
  · rw [hb] at hr
    simp only at hr
    split at hr
    · cases hr
    · split at hr
      · split at hr <;> cases hr
      · split at hr
        · cases hr
        · rename_i a' hp
          split at hr
          · rename_i hl
            cases hr
            exact ⟨hl, hp⟩
          · cases hr

theorem bech32_never_byron (wl : List Bytes) (crc : Bytes → Nat) (p : TextPrims) (h : String) (d : Bytes)
    (hb : p.bech32 = some (h, d)) (r : ByronAddr) :
    newAddress wl crc p ≠ .byron (.ok r) := by
  intro hr
  unfold newAddress at hr
  split at hr
  · cases hr
  · rw [hb] at hr
    simp only at hr
    split at hr
    · cases hr
    · split at hr
      · split at hr <;> cases hr
      · split at hr
        · cases hr
        · split at hr <;> cases hr

theorem tagContent_not_ok (r : Bytes) (a : ByronAddr) : tagContent r ≠ Sum.inl (ByronRes.ok a) := by
  unfold tagContent
  repeat' split
  all_goals (intro h; cases h)

/-- Byron: an accepted address has a 28-byte root. -/
theorem byron_hash_len (crc : Bytes → Nat) (b : Bytes) (a : ByronAddr)
    (h : parseByron crc b = .ok a) : a.hash.length = 28 := by
  unfold parseByron at h
  repeat' split at h
  all_goals first | (cases h; done) | skip
  all_goals (cases h; first | (exfalso; exact tagContent_not_ok _ _ (by assumption)) | (simp only at *; omega))

end GV.Props.C05
