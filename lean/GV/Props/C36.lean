import GV.Model.Era
import GV.Model.EraConsts
import GV.Gen.Eras
import GV.Gen.EraLadders
/-!
C36 — Era dispatch is consistent across every entry point.

The block type inferred from a header's protocol version belongs to exactly
one era, consistent with each era's declared version range.  The node-to-node
header-era and node-to-client block-type mappings are inverse to each other.
Decoding bytes as block type T yields a block that reports type T and the era
T belongs to.

All tables (`GV.Gen.Eras`) are dumped from the running code on every check;
`decide` runs over the complete finite tables, and the statements about
protocol majors are for *every* natural number, not only 0..64.
-/
namespace GV.Props.C36
open GV.Model.Era GV.Gen.Eras

/-- a protocol major lies in an era's declared range -/
def inEra (m : Nat) (e : EraRow) : Prop := e.minPV ≤ m ∧ m ≤ e.maxPV

/-! ### the declared ranges -/

/-- all seven post-Byron eras are present in the dump (so `genConsts` has no dummy range) -/
theorem all_eras_dumped :
    ∀ n ∈ ["shelley", "allegra", "mary", "alonzo", "babbage", "conway", "dijkstra"],
      (rowOf n).isSome = true := by decide

theorem ranges_nonempty : ∀ e ∈ eras, e.minPV ≤ e.maxPV := by decide

/-- the declared version ranges of different eras do not overlap -/
theorem ranges_disjoint :
    ∀ e1 ∈ eras, ∀ e2 ∈ eras, e1 ≠ e2 → e1.maxPV < e2.minPV ∨ e2.maxPV < e1.minPV := by decide

/-- every protocol major (any natural number) lies in at most one era -/
theorem major_in_at_most_one_era (m : Nat) (e1 e2 : EraRow) (h1 : e1 ∈ eras) (h2 : e2 ∈ eras)
    (hm1 : inEra m e1) (hm2 : inEra m e2) : e1 = e2 := by
  by_cases h : e1 = e2
  · exact h
  · rcases ranges_disjoint e1 h1 e2 h2 h with hlt | hlt <;>
      (unfold inEra at hm1 hm2; omega)

/-- block types, header types and era ids identify the era -/
theorem block_types_distinct :
    ∀ e1 ∈ eras, ∀ e2 ∈ eras, e1.blockType = e2.blockType → e1 = e2 := by decide
theorem header_types_distinct :
    ∀ e1 ∈ eras, ∀ e2 ∈ eras, e1.headerType = e2.headerType → e1 = e2 := by decide
theorem era_ids_distinct :
    ∀ e1 ∈ eras, ∀ e2 ∈ eras, e1.eraId = e2.eraId → e1 = e2 := by decide

/-- no post-Byron era reuses a Byron identifier -/
theorem byron_separate :
    ∀ e ∈ eras, e.eraId ≠ byronEraId ∧ e.headerType ≠ byronHeaderType ∧
      e.blockType ≠ byronEbbBlockType ∧ e.blockType ≠ byronMainBlockType := by decide

/-- the NtN header type *is* the era id, the era is registered under that id
    with its own name, and `ledger.ProtoMajor<Era>` is the first major of the range -/
theorem ids_consistent :
    ∀ e ∈ eras, e.headerType = e.eraId ∧ e.registeredId = e.eraId ∧
      (e.eraId, e.eraName) ∈ registered ∧ e.ledgerProtoMajor = e.minPV := by decide

/-! ### DetermineBlockType -/

theorem firstMatch_sound (m : Nat) (l : List Range) (t : Nat) (h : firstMatch m l = some t) :
    ∃ r ∈ l, r.blockType = t ∧ r.min ≤ m ∧ m ≤ r.max := by
  induction l with
  | nil => simp [firstMatch] at h
  | cons r rs ih =>
    simp only [firstMatch] at h
    split at h
    · rename_i hr
      simp only [inRange, Bool.and_eq_true, decide_eq_true_eq] at hr
      injection h with h
      exact ⟨r, by simp, h, hr.1, hr.2⟩
    · obtain ⟨r', hr', h'⟩ := ih h
      exact ⟨r', by simp [hr'], h'⟩

/-- every rung of either ladder is (min, max, block type) of a dumped era -/
theorem ladders_are_eras :
    ∀ r ∈ ladder15 genConsts ++ ladder10 genConsts,
      ∃ e ∈ eras, e.minPV = r.min ∧ e.maxPV = r.max ∧ e.blockType = r.blockType := by decide

/-- **Inferred type is consistent with the declared range**, for every body
    length and every protocol major: if a type is inferred, it is the block type
    of an era whose declared range contains the major. -/
theorem determine_sound (len m t : Nat) (h : determineMajor genConsts len m = .type t) :
    ∃ e ∈ eras, e.blockType = t ∧ inEra m e := by
  unfold determineMajor at h
  split at h
  · split at h
    · rename_i t' hf
      injection h with h
      obtain ⟨r, hr, hrt, h1, h2⟩ := firstMatch_sound m _ t' hf
      obtain ⟨e, he, e1, e2, e3⟩ := ladders_are_eras r (by simp [hr])
      exact ⟨e, he, by omega, by unfold inEra; omega⟩
    · cases h
  · split at h
    · split at h
      · rename_i t' hf
        injection h with h
        obtain ⟨r, hr, hrt, h1, h2⟩ := firstMatch_sound m _ t' hf
        obtain ⟨e, he, e1, e2, e3⟩ := ladders_are_eras r (by simp [hr])
        exact ⟨e, he, by omega, by unfold inEra; omega⟩
      · cases h
    · cases h

/-- **…and belongs to exactly one era**: the era is unique both as "the era of
    that block type" and as "the era containing that major". -/
theorem determine_exactly_one_era (len m t : Nat) (h : determineMajor genConsts len m = .type t) :
    ∃ e ∈ eras, (e.blockType = t ∧ inEra m e) ∧
      (∀ e' ∈ eras, e'.blockType = t → e' = e) ∧ (∀ e' ∈ eras, inEra m e' → e' = e) := by
  obtain ⟨e, he, ht, hm⟩ := determine_sound len m t h
  refine ⟨e, he, ⟨ht, hm⟩, ?_, ?_⟩
  · intro e' he' ht'
    exact block_types_distinct e' he' e he (by omega)
  · intro e' he' hm'
    exact major_in_at_most_one_era m e' e he' he hm' hm

/-- the full `DetermineBlockType` (structure checks included) never infers a
    type outside the era ranges either -/
theorem determine_shape_sound (s : Shape) (t : Nat) (h : determine genConsts s = .type t) :
    ∃ m e, e ∈ eras ∧ e.blockType = t ∧ inEra m e := by
  cases s with
  | garbage => cases h
  | notPair => cases h
  | bodyNotArray => cases h
  | body len f13 f9 =>
    simp only [determine] at h
    split at h
    · cases f13 with
      | uint m => obtain ⟨e, he, h1, h2⟩ := determine_sound len m t h; exact ⟨m, e, he, h1, h2⟩
      | nonUint => cases h
    · split at h
      · match f9, h with
        | some (.uint m :: _), h =>
          obtain ⟨e, he, h1, h2⟩ := determine_sound len m t h; exact ⟨m, e, he, h1, h2⟩
      · cases h

/-- which majors are inferred, per layout: exactly those inside the range of an
    era on that layout's ladder (the source order of the cases is immaterial) -/
theorem determine_complete (m : Nat) :
    (∀ e ∈ eras, e.name ∈ ["shelley", "allegra", "mary", "alonzo"] → inEra m e →
        determineMajor genConsts 15 m = .type e.blockType) ∧
    (∀ e ∈ eras, e.name ∈ ["babbage", "conway", "dijkstra", "alonzo", "mary"] → inEra m e →
        determineMajor genConsts 10 m = .type e.blockType) := by
  constructor
  · intro e he hn hm
    simp only [eras, List.mem_cons, List.not_mem_nil, or_false] at he
    unfold inEra at hm
    rcases he with rfl | rfl | rfl | rfl | rfl | rfl | rfl <;> simp at hn <;>
      simp only [] at hm <;>
      (have : m = 2 ∨ m = 3 ∨ m = 4 ∨ m = 5 ∨ m = 6 := by omega) <;>
      (rcases this with rfl | rfl | rfl | rfl | rfl <;> first | omega | decide)
  · intro e he hn hm
    simp only [eras, List.mem_cons, List.not_mem_nil, or_false] at he
    unfold inEra at hm
    rcases he with rfl | rfl | rfl | rfl | rfl | rfl | rfl <;> simp at hn <;>
      simp only [] at hm <;>
      (have : m = 4 ∨ m = 5 ∨ m = 6 ∨ m = 7 ∨ m = 8 ∨ m = 9 ∨ m = 10 ∨ m = 11 ∨ m = 12 ∨ m = 13 := by omega) <;>
      (rcases this with rfl | rfl | rfl | rfl | rfl | rfl | rfl | rfl | rfl | rfl <;> first | omega | decide)

/-- the model of the version ladders reproduces what the running
    `DetermineBlockType` answered for majors 0..64 in both layouts -/
def ofOpt : Option Nat → Res
  | some t => .type t
  | none => .err "unknown-major"

theorem model_matches_running_code :
    (List.range 65).map (fun m => determineMajor genConsts 15 m) = determine15.map ofOpt ∧
    (List.range 65).map (fun m => determineMajor genConsts 10 m) = determine10.map ofOpt := by
  decide

/-- beyond the dumped 0..64: above the highest declared major nothing is inferred -/
theorem determine_none_above (len m : Nat) (h : 64 < m) :
    ∀ t, determineMajor genConsts len m ≠ .type t := by
  intro t ht
  obtain ⟨e, he, _, hm⟩ := determine_sound len m t ht
  have : ∀ e ∈ eras, e.maxPV ≤ 64 := by decide
  have := this e he
  unfold inEra at hm; omega

/-! ### the ladders of DetermineBlockType, re-extracted from the source -/

/-- the range a rung `(pkg.MinProtocolVersionX, pkg.MaxProtocolVersionX, BlockTypeX)` denotes: the rung
    must name the Min, the Max and the block type of ONE era package (checked against the dumped
    era names), otherwise `none` -/
def rungRange (r : String × String × String) : Option Range :=
  (eras.find? fun e =>
      r.1 == e.name ++ ".MinProtocolVersion" ++ e.eraName &&
      r.2.1 == e.name ++ ".MaxProtocolVersion" ++ e.eraName &&
      r.2.2 == "BlockType" ++ e.eraName).map fun e => ⟨e.minPV, e.maxPV, e.blockType⟩

/-- **Regenerated tie**: the two ladders of the model are, rung by rung and in order, the ladders in
    the Go source of `DetermineBlockType` (each rung = one era's own Min/Max constants and block type;
    a literal, a `+1`, a swapped constant or a reordered/added/removed rung breaks this obligation), the
    two length cases are the two named constants, and `inProtocolRange` is the inclusive test. -/
theorem ladders_as_in_source :
    GV.Gen.EraLadders.lengths = ["HeaderBodyLengthBabbageLike", "HeaderBodyLengthShelleyLike"] ∧
    GV.Gen.EraLadders.HeaderBodyLengthShelleyLike.map rungRange = (ladder15 genConsts).map some ∧
    GV.Gen.EraLadders.HeaderBodyLengthBabbageLike.map rungRange = (ladder10 genConsts).map some ∧
    GV.Gen.EraLadders.inProtocolRange = ["return protoMajor >= min && protoMajor <= max"] := by
  decide


/-! ### the two maps -/

/-- the NtN→NtC map is exactly (header type ↦ block type) of the seven eras, and
    the NtC→NtN map is exactly its converse -/
theorem maps_are_era_tables :
    headerToBlock = eras.map (fun e => (e.headerType, e.blockType)) ∧
    blockToHeader = eras.map (fun e => (e.blockType, e.headerType)) := by decide

/-- the maps are mutually inverse (as Go maps: keys are unique, lookups total on
    the other map's values) -/
theorem maps_inverse :
    (∀ p ∈ headerToBlock, lookup p.2 blockToHeader = some p.1) ∧
    (∀ p ∈ blockToHeader, lookup p.2 headerToBlock = some p.1) ∧
    (headerToBlock.map (·.1)).Nodup ∧ (blockToHeader.map (·.1)).Nodup := by decide

theorem lookup_mem (k v : Nat) (l : List (Nat × Nat)) (h : lookup k l = some v) : (k, v) ∈ l := by
  induction l with
  | nil => simp [lookup] at h
  | cons p rest ih =>
    obtain ⟨a, b⟩ := p
    simp only [lookup] at h
    split at h
    · rename_i hk; injection h with h; simp [hk, h]
    · simp [ih h]

/-- stated over all keys (any natural numbers): h ↦ b in one map iff b ↦ h in the other -/
theorem maps_inverse_iff (h b : Nat) :
    lookup h headerToBlock = some b ↔ lookup b blockToHeader = some h := by
  constructor
  · intro hl
    exact maps_inverse.1 (h, b) (lookup_mem h b _ hl)
  · intro hl
    exact maps_inverse.2.1 (b, h) (lookup_mem b h _ hl)

/-! ### decoding as type T -/

/-- every block type the decoder switch knows (0..8) belongs to exactly one era id -/
theorem every_type_has_era : ∀ t < 9, (eraOfType t).isSome = true := by decide
theorem no_era_for_unknown_types (t : Nat) (h : 9 ≤ t) : eraOfType t = none := by
  have h1 : ∀ e ∈ eras, e.blockType < 9 := by decide
  unfold eraOfType
  have hb : ¬ (t = byronEbbBlockType ∨ t = byronMainBlockType) := by
    simp only [byronEbbBlockType, byronMainBlockType]; omega
  simp only [hb, ↓reduceIte, Option.map_eq_none_iff, List.find?_eq_none]
  intro e he
  have := h1 e he
  simp only [beq_iff_eq]; omega

/-- **Decoding as T reports T and T's era**: every real fixture decoded through
    `NewBlockFromCbor(T, …)` reports `Type() = T`, and the block, its embedded
    header and the header decoded on its own through `NewBlockHeaderFromCbor(T, …)`
    all report the era T belongs to. -/
theorem decode_type_era :
    ∀ r ∈ decoded, r.2.1 = r.1 ∧ some r.2.2.1 = eraOfType r.1 ∧
      r.2.2.2.1 = r.2.2.1 ∧ r.2.2.2.2 = r.2.2.1 := by decide

/-- …and the fixtures cover every block type 0..8 -/
theorem decode_covers_all_types : ∀ t < 9, t ∈ decoded.map (·.1) := by decide

/-! non-vacuity -/
example : determineMajor genConsts 10 9 = .type 7 := by decide
example : determineMajor genConsts 15 9 = .err "unknown-major" := by decide
example : determine genConsts (.body 10 .nonUint (some [.uint 12, .uint 0])) = .type 8 := by decide
example : ∃ e ∈ eras, inEra 10 e := ⟨⟨"conway", 6, "Conway", 6, 9, 11, 7, 6, 9⟩, by decide, by simp [inEra]⟩

end GV.Props.C36
