import GV.Model.MsgCodec
import GV.Proofs.MsgCodec
namespace GV.Props.C04
open GV.CborT GV.Model.MsgCodec

/-- After the repair a point is a list of 0 or 2 items. -/
theorem point_strict (t : Cbor) (v : Val) (h : decPoint t = some v) :
    ∃ xs, items t = some xs ∧ (xs.length = 0 ∨ xs.length = 2) := by
  unfold decPoint at h
  split at h
  · exact ⟨[], by assumption, Or.inl rfl⟩
  · exact ⟨_, by assumption, Or.inr rfl⟩
  · cases h

end GV.Props.C04
