import GV.Model.MsgCodec
import GV.Model.MsgWrappers
import GV.Proofs.MsgCodec
import GV.Gen.MsgShapes
/-!
C04 — Mini-protocol message codecs round-trip and reject malformed shapes.

`decVal Mode.lax` mirrors the decoders as they are (fxamacker reflection
decoding of the message structs + `Point.UnmarshalCBOR` after the `fix:`
commit); `decVal Mode.strict` is the reading the property demands. The
theorems are generic in the shape, so they cover every message of the
regenerated table `GV.Gen.MsgShapes.table` (and any message added later).
-/
namespace GV.Props.C04
open GV.CborT GV.Model.MsgCodec GV.Proofs.MsgCodec GV.Model.MsgWrappers

/-- Full statement (what the property demands of a decoder `d` for shape `s`):
    every well-typed value round-trips, and only trees that have the shape the
    type requires (`conforms`: arity and field kinds, stated without building a
    value) are accepted. -/
def C04_full (d : Shape → Cbor → Option Val) : Prop :=
  (∀ s v, hasShape s v = true → d s (encVal v) = some v) ∧
  (∀ s t v, d s t = some v → conforms s t = true)

/-- The strict reading satisfies the full statement: it round-trips every value and
    accepts exactly the conforming trees. -/
theorem strict_full : C04_full (decVal Mode.strict) := by
  refine ⟨fun s v h => dec_enc Mode.strict s v h, fun s t v h => ?_⟩
  rw [← strict_iff_conforms s t, h]; rfl

/-- `strict = conforms`: the strict reading accepts a tree iff it has the required shape. -/
theorem strict_accepts_iff_conforms (s : Shape) (t : Cbor) :
    (decVal Mode.strict s t).isSome = conforms s t := strict_iff_conforms s t

/-- The code as it is accepts everything that has the required shape, with the same value
    (the silent conversions only ever *add* accepted inputs). -/
theorem strict_imp_lax (s : Shape) (t : Cbor) (v : Val) (h : decVal Mode.strict s t = some v) :
    decVal Mode.lax s t = some v := strict_lax s t v h

theorem conforms_imp_lax (s : Shape) (t : Cbor) (h : conforms s t = true) :
    ∃ v, decVal Mode.lax s t = some v := by
  rw [← strict_iff_conforms s t] at h
  cases hv : decVal Mode.strict s t with
  | none => rw [hv] at h; cases h
  | some v => exact ⟨v, strict_lax s t v hv⟩

/-- Round trip, tree level: every value a constructor can build (of ANY shape)
    decodes back to itself, under the code-as-is reading and under the strict one. -/
theorem dec_enc_lax (s : Shape) (v : Val) (h : hasShape s v = true) :
    decVal Mode.lax s (encVal v) = some v := dec_enc Mode.lax s v h

theorem dec_enc_strict (s : Shape) (v : Val) (h : hasShape s v = true) :
    decVal Mode.strict s (encVal v) = some v := dec_enc Mode.strict s v h

/-- Round trip, byte level, with arbitrary trailing bytes. -/
theorem msg_bytes_roundtrip (s : Shape) (v : Val) (hs : hasShape s v = true) (hl : small v = true)
    (rest : Bytes) :
    (decode (enc (encVal v) ++ rest)).bind (fun p => decVal Mode.lax s p.1) = some v :=
  bytes_roundtrip Mode.lax s v hs hl rest

/-- C04_partial: the first clause of the full statement holds for the code as it is. -/
theorem C04_partial : ∀ s v, hasShape s v = true → decVal Mode.lax s (encVal v) = some v :=
  dec_enc_lax

/-- After the repair a point is a list of 0 or 2 items (any header form), in every mode. -/
theorem point_strict (strip : Bool) (t : Cbor) (v : Val) (h : decPoint strip t = some v) :
    ∃ xs, items t = some xs ∧ (xs.length = 0 ∨ xs.length = 2) := by
  unfold decPoint at h
  split at h
  · exact ⟨[], by assumption, Or.inl rfl⟩
  · exact ⟨_, by assumption, Or.inr rfl⟩
  · cases h

/-- …and a two-item point is `[unsigned slot, byte-string hash]`. -/
theorem point_fields (x y : Cbor) (w : W) (v : Val) (h : decPoint false (.arr w [x, y]) = some v) :
    ∃ ws slot hash, x = .int false ws slot ∧ strPayload false y = some hash ∧ v = .s [.u slot, .h hash] := by
  simp only [decPoint, items, Bool.false_eq_true, ↓reduceIte] at h
  unfold pointPair at h
  split at h
  · rename_i ws slot
    split at h
    · rename_i hash hp
      simp only [Option.some.injEq] at h
      exact ⟨ws, slot, hash, rfl, hp, h.symm⟩
    · cases h
  · cases h

/-- The function as found (DESIGN §7): `83 01 02 03`, a one-item list and null were origin. -/
theorem point_old_witness :
    (decPointOld (.arr .w0 [.int false .w0 1, .int false .w0 2, .int false .w0 3])).map render = some "(0,h)" ∧
    (decPointOld (.arr .w0 [.int false .w0 5])).map render = some "(0,h)" ∧
    (decPointOld (.prim .w0 22)).map render = some "(0,h)" ∧
    (decPoint true (.arr .w0 [.int false .w0 1, .int false .w0 2, .int false .w0 3])).isNone = true ∧
    (decPoint true (.arr .w0 [.int false .w0 5])).isNone = true ∧
    (decPoint true (.prim .w0 22)).isNone = true := by
  decide

/-- Recorded findings: the second clause of `C04_full` fails for the code as it is.
    KeepAlive `[0, null]`, HasTx `[7, [1,2,3]]`, a 2-byte tx id in a 4-byte field:
    accepted by the lax reading (= the code), rejected by the strict one. -/
theorem lax_witness :
    (decVal Mode.lax (.struct [.uint 8, .uint 16]) (.arr .w0 [.int false .w0 0, .prim .w0 22])).map render
      = some "(0,0)" ∧
    (decVal Mode.strict (.struct [.uint 8, .uint 16]) (.arr .w0 [.int false .w0 0, .prim .w0 22])).isNone = true ∧
    (decVal Mode.lax (.struct [.uint 8, .bytes])
      (.arr .w0 [.int false .w0 7, .arr .w0 [.int false .w0 1, .int false .w0 2, .int false .w0 3]])).map render
      = some "(7,h010203)" ∧
    (decVal Mode.strict (.struct [.uint 8, .bytes])
      (.arr .w0 [.int false .w0 7, .arr .w0 [.int false .w0 1, .int false .w0 2, .int false .w0 3]])).isNone = true ∧
    (decVal Mode.lax (.fixed 4) (.str false .w0 [1, 2])).map render = some "h01020000" ∧
    (decVal Mode.strict (.fixed 4) (.str false .w0 [1, 2])).isNone = true := by
  decide

theorem C04_witness : ¬ C04_full (decVal Mode.lax) := by
  intro h
  have h2 := h.2 (.fixed 4) (.str false .w0 [1, 2]) (.h [1, 2, 0, 0]) rfl
  revert h2
  decide

/-- Strict arity: a toarray struct takes exactly one item per field. -/
theorem struct_arity (m : Mode) (fs : List Shape) (xs : List Cbor) (vs : List Val)
    (h : decFields m fs xs = some vs) : xs.length = fs.length ∧ vs.length = fs.length := by
  induction fs generalizing xs vs with
  | nil =>
    cases xs with
    | nil => simp only [decFields, Option.some.injEq] at h; subst h; simp
    | cons x xs => simp [decFields] at h
  | cons f fs ih =>
    cases xs with
    | nil => simp [decFields] at h
    | cons x xs =>
      simp only [decFields] at h
      split at h
      · rename_i v vs' hv hvs
        simp only [Option.some.injEq] at h; subst h
        obtain ⟨h1, h2⟩ := ih xs vs' hvs
        simp [h1, h2]
      · cases h

/-- The regenerated table: message type ids are distinct within each protocol. -/
theorem table_ids_distinct :
    ∀ e ∈ GV.Gen.MsgShapes.table, (e.2.map (·.1)).Nodup := by
  decide

/-- Non-vacuity: RollBackward `[3, [42, h'aabb'], [[], 7]]`. -/
example : hasShape (.struct [.uint 8, .point, .struct [.point, .uint 64]])
    (.s [.u 3, .s [.u 42, .h [0xaa, 0xbb]], .s [.s [.u 0, .h []], .u 7]]) = true := by decide


/-! ### chain-sync RollForward wrappers (hand model GV.Model.MsgWrappers) -/

/-- the strict reading of a `cbor.Tag` destination demands tag number 24 -/
theorem tagBytes_strict (t : Cbor) (n : Nat) (b : Bytes) (h : decTagBytes Mode.strict t = some (n, b)) :
    n = 24 ∧ ∃ w x, t = .tag w 24 x ∧ strPayload false x = some b := by
  unfold decTagBytes at h
  simp only [Mode.strict, Bool.false_eq_true, ↓reduceIte, Bool.false_or] at h
  split at h
  · rename_i w n' x
    split at h
    · rename_i b' hp
      split at h
      · rename_i hn
        simp only [beq_iff_eq] at hn
        simp only [Option.some.injEq, Prod.mk.injEq] at h
        obtain ⟨rfl, rfl⟩ := h
        exact ⟨hn, w, x, by rw [hn], hp⟩
      · cases h
    · cases h
  · cases h

/-- RollForward (NtC), strict reading: exactly three items `[type, #6.24(bytes), tip]`, the bytes
    themselves a well-formed `[blockType, block]`. -/
theorem rollForwardNtC_strict (t : Cbor) (v : Val) (h : decRollForwardNtC Mode.strict t = some v) :
    ∃ ty w x tip content, items t = some [ty, .tag w 24 x, tip] ∧ strPayload false x = some content ∧
      innerOk Mode.strict (.struct [.uint 64, .raw]) content = true := by
  unfold decRollForwardNtC structItems at h
  simp only [Mode.strict, Bool.false_eq_true, ↓reduceIte] at h
  split at h
  · rename_i ty wb tip hit
    split at h
    · rename_i vty n content vtip h1 h2 h3
      obtain ⟨_, w, x, rfl, hp⟩ := tagBytes_strict wb n content h2
      by_cases hin : innerOk Mode.strict (.struct [.uint 64, .raw]) content = true
      · exact ⟨ty, w, x, tip, content, hit, hp, hin⟩
      · simp only [Mode.strict] at hin
        simp only [hin] at h
        cases h
    · cases h
  · cases h

/-- the code as it is does not look at the tag number (recorded under the class `tag-stripped`):
    `[2, 1000(h'820100'), [[], 0]]` is a RollForward -/
theorem rollForwardNtC_any_tag :
    (decRollForwardNtC Mode.lax (.arr .w0 [.int false .w0 2, .tag .w2 1000 (.str false .w0 [0x82, 0x01, 0x00]),
        .arr .w0 [.arr .w0 [], .int false .w0 0]])).map render = some "(2,(1000,h820100),((0,h),0))" ∧
    (decRollForwardNtC Mode.strict (.arr .w0 [.int false .w0 2, .tag .w2 1000 (.str false .w0 [0x82, 0x01, 0x00]),
        .arr .w0 [.arr .w0 [], .int false .w0 0]])).isNone = true ∧
    (decRollForwardNtC Mode.strict (.arr .w0 [.int false .w0 2, .tag .w1 24 (.str false .w0 [0x82, 0x01, 0x00]),
        .arr .w0 [.arr .w0 [], .int false .w0 0]])).map render = some "(2,(24,h820100),((0,h),0))" := by
  decide




/-- local-tx-monitor ReplyNextTx: the decoder as found dropped extra items of the message and of the
    transaction wrapper (`[6, [1, tx], 0]`, `[6, [1, tx, 0]]`); after the `fix:` commit both are rejected. -/
theorem replyNextTx_witness :
    (decReplyNextTx true Mode.lax (.arr .w0 [.int false .w0 6,
        .arr .w0 [.int false .w0 1, .tag .w1 24 (.str false .w0 [1])], .int false .w0 0])).map render
      = some "(6,(1,h01))" ∧
    (decReplyNextTx false Mode.lax (.arr .w0 [.int false .w0 6,
        .arr .w0 [.int false .w0 1, .tag .w1 24 (.str false .w0 [1])], .int false .w0 0])).isNone = true ∧
    (decReplyNextTx true Mode.lax (.arr .w0 [.int false .w0 6,
        .arr .w0 [.int false .w0 1, .tag .w1 24 (.str false .w0 [1]), .int false .w0 0]])).map render
      = some "(6,(1,h01))" ∧
    (decReplyNextTx false Mode.lax (.arr .w0 [.int false .w0 6,
        .arr .w0 [.int false .w0 1, .tag .w1 24 (.str false .w0 [1]), .int false .w0 0]])).isNone = true ∧
    (decReplyNextTx false Mode.lax (.arr .w0 [.int false .w0 6,
        .arr .w0 [.int false .w0 1, .tag .w1 24 (.str false .w0 [1])]])).map render = some "(6,(1,h01))" := by
  decide

/-- after the repair: one or two items, and a two-item transaction wrapper -/
theorem replyNextTx_arity (m : Mode) (t : Cbor) (v : Val) (h : decReplyNextTx false m t = some v) :
    ∃ xs, structItems m t = some xs ∧ (xs.length = 1 ∨ xs.length = 2) := by
  unfold decReplyNextTx at h
  split at h
  · rename_i ty rest hit
    refine ⟨ty :: rest, hit, ?_⟩
    split at h
    · cases h
    · split at h
      · left; rfl
      · rename_i w more
        cases more with
        | nil => right; rfl
        | cons a b => simp at h
  · cases h

end GV.Props.C04
