import GV.Model.MultiAsset
import GV.Proofs.MultiAsset
import GV.Proofs.MultiAssetEnc
import GV.Proofs.MultiAssetDec
import GV.Proofs.MultiAssetW
/-!
C06 — Multi-asset values behave as a commutative group up to zeros.

`WF m` is the Go-map invariant (distinct keys at both levels); a list
satisfying it is one Go map *in one iteration order*, so `∀ a b, WF a → WF b → …`
quantifies over all values and all iteration orders.  `qty m p n` is the
integer quantity of (policy, name) (0 when absent, zero or nil).
-/
namespace GV.Props.C06
open GV.Model.MultiAsset GV.Lib.AssocMap GV.Lib.CborLite GV.Proofs.MultiAsset

/-- Equality (`Compare`, with its length shortcuts as coded) means: equal quantities for
    every (policy, asset name) — i.e. equal non-zero quantities, zeros and nils ignored. -/
theorem compare_iff (a b : MA) (ha : WF a) (hb : WF b) :
    GV.Model.MultiAsset.compare a b = true ↔ ∀ p n, qty a p n = qty b p n :=
  GV.Proofs.MultiAsset.compare_iff ha hb

theorem compare_refl (a : MA) (ha : WF a) : GV.Model.MultiAsset.compare a a = true :=
  (compare_iff a a ha ha).mpr (fun _ _ => rfl)

theorem compare_symm (a b : MA) (ha : WF a) (hb : WF b)
    (h : GV.Model.MultiAsset.compare a b = true) : GV.Model.MultiAsset.compare b a = true :=
  (compare_iff b a hb ha).mpr (fun p n => ((compare_iff a b ha hb).mp h p n).symm)

theorem compare_trans (a b c : MA) (ha : WF a) (hb : WF b) (hc : WF c)
    (h1 : GV.Model.MultiAsset.compare a b = true) (h2 : GV.Model.MultiAsset.compare b c = true) :
    GV.Model.MultiAsset.compare a c = true :=
  (compare_iff a c ha hc).mpr (fun p n =>
    ((compare_iff a b ha hb).mp h1 p n).trans ((compare_iff b c hb hc).mp h2 p n))

/-- `Add` keeps the receiver a Go map (distinct keys), whatever the operand's order. -/
theorem add_wf (a b : MA) (ha : WF a) : WF (add a b) := wf_add b ha

/-- `Add` is per-asset integer addition, for every iteration order of the operand. -/
theorem add_qty (a b : MA) (hb : WF b) (p n : Bytes) :
    qty (add a b) p n = qty a p n + qty b p n := qty_add b hb a p n

/-- A nil operand (`Add(nil)`) and the empty value are neutral. -/
theorem add_empty (a : MA) : add a [] = a := rfl

theorem add_comm (a b : MA) (ha : WF a) (hb : WF b) :
    GV.Model.MultiAsset.compare (add a b) (add b a) = true := by
  rw [compare_iff _ _ (add_wf a b ha) (add_wf b a hb)]
  intro p n
  rw [add_qty a b hb, add_qty b a ha]; omega

theorem add_assoc (a b c : MA) (ha : WF a) (hb : WF b) (hc : WF c) :
    GV.Model.MultiAsset.compare (add (add a b) c) (add a (add b c)) = true := by
  rw [compare_iff _ _ (add_wf _ c (add_wf a b ha)) (add_wf a _ ha)]
  intro p n
  rw [add_qty _ c hc, add_qty a b hb, add_qty a _ (add_wf b c hb), add_qty b c hc]; omega

/-- Group structure up to zeros: the pointwise negation is an inverse under `Compare`. -/
theorem add_neg_cancel (a : MA) (ha : WF a) :
    GV.Model.MultiAsset.compare
      (add a (a.map (fun e => (e.1, e.2.map (fun x => (x.1, some (- val x.2))))))) [] = true := by
  have hneg : WF (a.map (fun e => (e.1, e.2.map (fun x => (x.1, some (- val x.2)))))) := by
    constructor
    · unfold NodupKeys
      rw [keys_mapVal (fun _ (i : Inner) => i.map (fun x => (x.1, some (- val x.2)))) a]
      exact ha.1
    · intro e he
      obtain ⟨e0, he0, rfl⟩ := List.mem_map.mp he
      unfold NodupKeys
      rw [keys_mapVal (fun _ (x : Amt) => some (- val x)) e0.2]
      exact ha.2 e0 he0
  rw [compare_iff _ _ (add_wf a _ ha) ⟨nodupKeys_nil, fun _ h => by simp at h⟩]
  intro p n
  rw [add_qty a _ hneg]
  have : qty (a.map (fun e => (e.1, e.2.map (fun x => (x.1, some (- val x.2)))))) p n = - qty a p n := by
    unfold qty asset
    rw [lookup_mapVal (fun _ (i : Inner) => i.map (fun x => (x.1, some (- val x.2)))) a p]
    cases lookup p a with
    | none => simp [val]
    | some i =>
      simp only [Option.map_some]
      rw [lookup_mapVal (fun _ (x : Amt) => some (- val x)) i n]
      cases lookup n i with
      | none => simp [val]
      | some x => simp [val]
  rw [this]
  have h0 : qty [] p n = 0 := rfl
  rw [h0]; omega


-- ------------------------------------------------------------------ encoding clauses

open GV.Proofs.MultiAssetEnc GV.Proofs.MultiAssetDec in
/-- **Encoding is deterministic (canonical key order).**  Two lists that represent the same Go map
    — same policies, same (name ↦ amount) entries under each, in any iteration order at either
    level — encode to the same bytes. -/
theorem encode_perm_invariant (a b : MA) (ha : WF a) (hb : WF b) (h : SameMap a b) :
    encodeMA a = encodeMA b :=
  GV.Proofs.MultiAssetEnc.encode_perm_invariant a b ha hb h

open GV.Proofs.MultiAssetEnc in
/-- The entries are written in bytewise order of their encoded keys, at both levels. -/
theorem encode_key_order (m : MA) :
    (sortKeys m).Pairwise (fun x y => lexLE (encBytes x.1) (encBytes y.1) = true) ∧
    ∀ e ∈ m, (sortKeys e.2).Pairwise (fun x y => lexLE (encBytes x.1) (encBytes y.1) = true) :=
  ⟨sortKeys_pairwise m, fun e _ => sortKeys_pairwise e.2⟩

open GV.Proofs.MultiAssetEnc GV.Proofs.MultiAssetDec in
/-- **Decoding an encoding** yields a value that compares equal to the original, carries no zero
    (or nil) quantity and no empty policy, and raises no duplicate-key flag.  `MAOK`: policy ids are
    28 bytes and every length fits CBOR's 64-bit length fields. -/
theorem decode_encode (a : MA) (ha : WF a) (hok : MAOK a) :
    ∃ d, decodeMA (encodeMA a) = some d ∧ d.dup = false ∧
      GV.Model.MultiAsset.compare d.value a = true ∧
      (∀ e ∈ d.value, e.2 ≠ [] ∧ ∀ x ∈ e.2, val x.2 ≠ 0) := by
  refine ⟨_, decode_encode_eq a ha hok, rfl, ?_, normalize_no_zeros _⟩
  have hc := wf_canon ha
  rw [compare_iff _ _ (wf_normalize hc) ha]
  intro p n
  show qty (normalize (canon a)) p n = qty a p n
  rw [qty_normalize hc, qty_canon ha]

open GV.Proofs.MultiAssetEnc GV.Proofs.MultiAssetDec in
/-- Re-encoding what was decoded gives the same bytes for equal values without zeros: the
    encoding of the decoded value does not depend on the order the original was iterated in. -/
theorem decode_encode_same (a b : MA) (ha : WF a) (hb : WF b) (h : SameMap a b) :
    decodeMA (encodeMA a) = decodeMA (encodeMA b) := by
  rw [encode_perm_invariant a b ha hb h]

open GV.Proofs.MultiAssetEnc GV.Proofs.MultiAssetDec in
/-- a permutation of the policies is the same map -/
theorem sameMap_of_perm (a b : MA) (ha : WF a) (hp : a.Perm b) : SameMap a b := by
  intro p
  rw [lookup_of_perm ha.1 hp p]
  refine ⟨rfl, ?_⟩
  intro i j h1 h2 n
  rw [h1] at h2; cases h2; rfl

open GV.Proofs.MultiAssetEnc GV.Proofs.MultiAssetDec in
/-- Non-vacuity of `encode_perm_invariant` and `decode_encode`: a value with nil, zero and bignum
    amounts, presented in two iteration orders, meets every hypothesis. -/
example :
    let p : Bytes := List.replicate 28 1
    let q : Bytes := List.replicate 28 2
    let a : MA := [(p, [([7], some 5), ([], none), ([8, 8], some (-18446744073709551617))]), (q, [])]
    let b : MA := [(q, []), (p, [([7], some 5), ([], none), ([8, 8], some (-18446744073709551617))])]
    WF a ∧ WF b ∧ SameMap a b ∧ MAOK a := by
  intro p q a b
  have ha : WF a := by decide
  refine ⟨ha, by decide, sameMap_of_perm a b ha (by decide), ?_⟩
  refine ⟨by decide, ?_⟩
  intro e he
  simp only [a, List.mem_cons, List.not_mem_nil, or_false] at he
  rcases he with rfl | rfl
  · refine ⟨by decide, by decide, ?_⟩
    intro x hx
    simp only [List.mem_cons, List.not_mem_nil, or_false] at hx
    rcases hx with rfl | rfl | rfl
    · exact ⟨by decide, by decide, by decide⟩
    · exact ⟨by decide, trivial⟩
    · exact ⟨by decide, by decide, by decide⟩
  · exact ⟨by decide, by decide, by intro x hx; cases hx⟩


-- ------------------------------------------------------------------ fixed-width instantiations

/-! `MultiAsset[int64]` / `MultiAsset[uint64]` (not instantiated outside tests: outputs and mint use
`*big.Int`).  Quantities are integers of the type's range and never nil, so `compare_iff` and its
corollaries apply to them as they stand; `Add` is `addW w` with `w` the machine wrap. -/

open GV.Proofs.MultiAssetW in
/-- `Add` on a fixed-width instantiation is per-asset integer addition followed by the machine wrap
    `w`, for every iteration order of the operand, on a receiver holding values of the type. -/
theorem addW_qty (w : Int → Int) (a b : MA) (hb : WF b) (hR : ∀ p n, w (qty a p n) = qty a p n)
    (p n : Bytes) : qty (addW w a b) p n = w (qty a p n + qty b p n) :=
  qty_addW w a b hb hR p n

open GV.Proofs.MultiAssetW in
theorem addW_wf (w : Int → Int) (a b : MA) (ha : WF a) : WF (addW w a b) := wf_addW w b ha

open GV.Proofs.MultiAssetW in
/-- `int64`: the result is the two's-complement wrap of the integer sum; it IS the integer sum
    exactly when that sum is representable (no overflow). -/
theorem add_qty_int64 (a b : MA) (hb : WF b) (hR : ∀ p n, isInt64 (qty a p n) = true) (p n : Bytes) :
    qty (addW wrapS64 a b) p n = wrapS64 (qty a p n + qty b p n) ∧
    (isInt64 (qty a p n + qty b p n) = true → qty (addW wrapS64 a b) p n = qty a p n + qty b p n) := by
  have h := qty_addW wrapS64 a b hb (fun p n => wrapS64_id _ (hR p n)) p n
  exact ⟨h, fun hs => by rw [h, wrapS64_id _ hs]⟩

open GV.Proofs.MultiAssetW in
/-- `uint64`: likewise modulo 2^64. -/
theorem add_qty_uint64 (a b : MA) (hb : WF b) (hR : ∀ p n, isUint64 (qty a p n) = true) (p n : Bytes) :
    qty (addW wrapU64 a b) p n = wrapU64 (qty a p n + qty b p n) ∧
    (isUint64 (qty a p n + qty b p n) = true → qty (addW wrapU64 a b) p n = qty a p n + qty b p n) := by
  have h := qty_addW wrapU64 a b hb (fun p n => wrapU64_id _ (hR p n)) p n
  exact ⟨h, fun hs => by rw [h, wrapU64_id _ hs]⟩

open GV.Proofs.MultiAssetW in
/-- commutative under `Compare`, overflow or not -/
theorem addW_comm (w : Int → Int) (a b : MA) (ha : WF a) (hb : WF b)
    (hRa : ∀ p n, w (qty a p n) = qty a p n) (hRb : ∀ p n, w (qty b p n) = qty b p n) :
    GV.Model.MultiAsset.compare (addW w a b) (addW w b a) = true := by
  rw [compare_iff _ _ (wf_addW w b ha) (wf_addW w a hb)]
  intro p n
  rw [qty_addW w a b hb hRa, qty_addW w b a ha hRb, Int.add_comm]

open GV.Proofs.MultiAssetW in
/-- associative under `Compare` for every wrap that is idempotent and compatible with addition
    (both machine wraps are: `wrapS64_idem/_add`, `wrapU64_idem/_add`) -/
theorem addW_assoc (w : Int → Int) (hidem : ∀ x, w (w x) = w x) (hadd : ∀ x y, w (w x + y) = w (x + y))
    (a b c : MA) (ha : WF a) (hb : WF b) (hc : WF c)
    (hRa : ∀ p n, w (qty a p n) = qty a p n) (hRb : ∀ p n, w (qty b p n) = qty b p n) :
    GV.Model.MultiAsset.compare (addW w (addW w a b) c) (addW w a (addW w b c)) = true := by
  have hab : ∀ p n, w (qty (addW w a b) p n) = qty (addW w a b) p n := by
    intro p n; rw [qty_addW w a b hb hRa, hidem]
  rw [compare_iff _ _ (wf_addW w c (wf_addW w b ha)) (wf_addW w _ ha)]
  intro p n
  rw [qty_addW w _ c hc hab, qty_addW w a b hb hRa, qty_addW w a _ (wf_addW w c hb) hRa,
    qty_addW w b c hc hRb, hadd]
  rw [Int.add_comm (qty a p n) (w _), hadd, Int.add_comm _ (qty a p n), Int.add_assoc]

open GV.Proofs.MultiAssetW in
/-- the two machine wraps meet the hypotheses of `addW_assoc` -/
theorem machine_wraps :
    (∀ x, wrapS64 (wrapS64 x) = wrapS64 x) ∧ (∀ x y, wrapS64 (wrapS64 x + y) = wrapS64 (x + y)) ∧
    (∀ x, wrapU64 (wrapU64 x) = wrapU64 x) ∧ (∀ x y, wrapU64 (wrapU64 x + y) = wrapU64 (x + y)) :=
  ⟨wrapS64_idem, wrapS64_add, wrapU64_idem, wrapU64_add⟩

/-- Non-vacuity and the overflow behaviour: MaxInt64 + 1 wraps to MinInt64; MaxUint64 + 1 to 0. -/
example :
    qty (addW wrapS64 [([1], [([7], some 9223372036854775807)])] [([1], [([7], some 1)])]) [1] [7]
      = -9223372036854775808 ∧
    qty (addW wrapU64 [([1], [([7], some 18446744073709551615)])] [([1], [([7], some 1)])]) [1] [7] = 0 := by
  decide

/-- Non-vacuity: two different lists (orders, zero and nil entries) that are equal values. -/
example : WF [([1], [([7], some 5), ([8], none)]), ([2], [])] ∧
    WF [([2], [([9], some 0)]), ([1], [([7], some 5)])] ∧
    GV.Model.MultiAsset.compare [([1], [([7], some 5), ([8], none)]), ([2], [])]
      [([2], [([9], some 0)]), ([1], [([7], some 5)])] = true := by decide

/-- and a pair that differs in one quantity -/
example : GV.Model.MultiAsset.compare [([1], [([7], some 5)])] [([1], [([7], some 6)])] = false := by decide

end GV.Props.C06
