import GV.Model.Merkle
import GV.Spec.MerkleRef
import GV.Proofs.Merkle
import GV.Gen.GoLite
import GV.Gen.SrcG7
/-!
C35 — Byron merkle roots follow the reference construction.

The Byron transaction merkle root of any list of items equals the reference
construction (cardano-ledger `mkMerkleTree`).  Leaves are tagged with 0 and
branches with 1, and a node splits its items at the largest power of two
strictly below their count.  An empty list hashes the empty string.

The hash function is an arbitrary parameter `h` of every theorem.
-/
namespace GV.Props.C35
open GV.Model.Merkle GV.Spec.MerkleRef GV.Proofs.Merkle

/-- The split point as translated from the Go source (GoLite, 64-bit wrapping
    arithmetic) is, for every length a Go slice can have, a power of two `p`
    with `p < n ≤ 2p` — i.e. the largest power of two strictly below `n`. -/
theorem split_is_pow2_below (n : Int) (h2 : 2 ≤ n) (hmax : n ≤ 2 ^ 62) :
    ∃ k : Nat, GV.Gen.GoLite.largestPowerOfTwoBelow n = 2 ^ k ∧
      (2:Int) ^ k < n ∧ n ≤ 2 * 2 ^ k := by
  have := genLoop_spec 64 0 n (by omega) (by simpa using (by omega : (1:Int) < n)) hmax
  simpa [GV.Gen.GoLite.largestPowerOfTwoBelow] using this

/-- The translated Go function agrees with the hand model used by `merkleNode`. -/
theorem gen_split_eq_model (n : Nat) (h2 : 2 ≤ n) (hmax : n ≤ 2 ^ 62) :
    GV.Gen.GoLite.largestPowerOfTwoBelow (n : Int) = (largestPow2Below n : Int) := by
  obtain ⟨k, hk, hlt, hle⟩ := split_is_pow2_below (n : Int) (by omega) (by exact_mod_cast hmax)
  obtain ⟨k', hk'⟩ := largestPow2Below_pow2 n
  have hb := largestPow2Below_bounds n h2
  rw [hk'] at hb
  have hlt' : 2 ^ k < n := by exact_mod_cast hlt
  have hle' : n ≤ 2 * 2 ^ k := by exact_mod_cast hle
  have := pow2_window_unique n k k' hlt' hle' hb.2.1 hb.2.2
  rw [hk, hk', this]; simp

/-- …and with the reference's `powerOfTwo`. -/
theorem gen_split_eq_reference (n : Nat) (h2 : 2 ≤ n) (hmax : n ≤ 2 ^ 62) :
    GV.Gen.GoLite.largestPowerOfTwoBelow (n : Int) = (powerOfTwo n : Int) := by
  rw [gen_split_eq_model n h2 hmax, largestPow2Below_eq_powerOfTwo n h2]

/-- The Go-shaped recursion over a non-empty list is the root of the reference tree. -/
theorem node_eq_reference (h : Bytes → Bytes) (items : List Bytes) (hne : items ≠ []) :
    merkleNode h items = (mkTree items).root h := by
  fun_induction merkleNode h items with
  | case1 => exact absurd rfl hne
  | case2 x => simp [mkTree, Tree.root, merkleLeafTag]
  | case3 x y rest n split left right ih1 ih2 =>
    have hb := largestPow2Below_bounds n (by simp [n])
    have hs : split = powerOfTwo n := largestPow2Below_eq_powerOfTwo n (by simp [n])
    have h1 : List.take split (x :: y :: rest) ≠ [] := by
      intro hc
      have := congrArg List.length hc
      simp only [List.length_take, List.length_nil] at this
      omega
    have h2 : List.drop split (x :: y :: rest) ≠ [] := by
      intro hc
      have := congrArg List.length hc
      simp only [List.length_drop, List.length_nil] at this
      omega
    rw [mkTree]
    simp only [Tree.root, merkleBranchTag]
    rw [← hs, ← ih1 h1, ← ih2 h2]

/-- **Main theorem.** For every hash function and every list of items, of any
    length, `MerkleRoot` equals the reference construction. -/
theorem merkle_eq_reference (h : Bytes → Bytes) (items : List Bytes) :
    merkleRoot h items = refRoot h items := by
  cases items with
  | nil => simp [merkleRoot, refRoot]
  | cons x xs => simp [merkleRoot, refRoot, node_eq_reference h (x :: xs) (by simp)]

/-- An empty list hashes the empty string. -/
theorem merkle_empty (h : Bytes → Bytes) : merkleRoot h [] = h [] := by
  simp [merkleRoot]

/-- A single item is a leaf: tag 0 followed by the item. -/
theorem merkle_single (h : Bytes → Bytes) (x : Bytes) : merkleRoot h [x] = h (0 :: x) := by
  simp [merkleRoot, merkleNode, merkleLeafTag]

/-- Two or more items: tag 1, then the roots of the first `p` and the remaining
    items, where `p` is the largest power of two strictly below the count. -/
theorem merkle_branch (h : Bytes → Bytes) (items : List Bytes) (h2 : 2 ≤ items.length) :
    ∃ k : Nat, 2 ^ k < items.length ∧ items.length ≤ 2 * 2 ^ k ∧
      merkleRoot h items =
        h (1 :: (merkleRoot h (items.take (2 ^ k)) ++ merkleRoot h (items.drop (2 ^ k)))) := by
  match items, h2 with
  | x :: y :: rest, _ =>
    obtain ⟨k, hk⟩ := largestPow2Below_pow2 (x :: y :: rest).length
    have hb := largestPow2Below_bounds (x :: y :: rest).length (by simp)
    rw [hk] at hb
    refine ⟨k, hb.2.1, hb.2.2, ?_⟩
    have e1 : (List.take (2 ^ k) (x :: y :: rest)).isEmpty = false := by
      cases ht : List.take (2 ^ k) (x :: y :: rest) with
      | nil =>
        have := congrArg List.length ht
        simp only [List.length_take, List.length_nil] at this
        omega
      | cons _ _ => rfl
    have e2 : (List.drop (2 ^ k) (x :: y :: rest)).isEmpty = false := by
      cases ht : List.drop (2 ^ k) (x :: y :: rest) with
      | nil =>
        have := congrArg List.length ht
        simp only [List.length_drop, List.length_nil] at this
        omega
      | cons _ _ => rfl
    simp only [merkleRoot, e1, e2, List.isEmpty_cons, Bool.false_eq_true, ↓reduceIte]
    rw [merkleNode]
    simp only [hk, merkleBranchTag]

/-- The reference tree keeps the items in order at its leaves. -/
theorem mkTree_leaves (items : List Bytes) (hne : items ≠ []) :
    (mkTree items).leaves = items := by
  fun_induction mkTree items with
  | case1 => exact absurd rfl hne
  | case2 x => simp [Tree.leaves]
  | case3 x y rest i ih1 ih2 =>
    have hlt := powerOfTwo_lt (x :: y :: rest).length (by simp)
    have hpos := powerOfTwo_pos (x :: y :: rest).length
    have h1 : List.take i (x :: y :: rest) ≠ [] := by
      intro hc
      have := congrArg List.length hc
      simp only [List.length_take, List.length_nil] at this
      omega
    have h2 : List.drop i (x :: y :: rest) ≠ [] := by
      intro hc
      have := congrArg List.length hc
      simp only [List.length_drop, List.length_nil] at this
      omega
    simp only [Tree.leaves, ih1 h1, ih2 h2, List.take_append_drop]

/-- the reference split of a power of two is its half -/
theorem powerOfTwo_pow2 (k : Nat) : powerOfTwo (2 ^ (k + 1)) = 2 ^ k := by
  have h2 : 2 ≤ 2 ^ (k + 1) := by
    have := Nat.pow_le_pow_right (by decide : 0 < 2) (by omega : 1 ≤ k + 1); simpa using this
  have h1 := powerOfTwo_lt (2 ^ (k + 1)) h2
  have h3 := le_two_powerOfTwo (2 ^ (k + 1))
  unfold powerOfTwo at h1 h3 ⊢
  have := pow2_window_unique (2 ^ (k + 1)) (Nat.log2 (2 ^ (k + 1) - 1)) k h1 h3
    (by rw [Nat.pow_succ]; have := Nat.pow_pos (n := k) (by decide : 0 < 2); omega)
    (by rw [Nat.pow_succ]; omega)
  rw [this]

/-- **Shape**: a list of exactly 2^k items becomes the perfect binary tree of depth k. -/
theorem mkTree_pow2_perfect (k : Nat) : ∀ items : List RBytes, items.length = 2 ^ k →
    (mkTree items).perfect k := by
  induction k with
  | zero =>
    intro items h
    match items, h with
    | [x], _ => simp [mkTree, Tree.perfect]
  | succ k ih =>
    intro items h
    have hk : 2 ≤ 2 ^ (k + 1) := by
      have := Nat.pow_le_pow_right (by decide : 0 < 2) (by omega : 1 ≤ k + 1); simpa using this
    match items, h with
    | [], h => simp at h; omega
    | [_], h => simp at h; omega
    | x :: y :: rest, h =>
      rw [mkTree]
      simp only [Tree.perfect]
      refine ⟨k, rfl, ?_, ?_⟩
      · apply ih
        rw [h, powerOfTwo_pow2, List.length_take, h]
        rw [Nat.pow_succ]; omega
      · apply ih
        rw [h, powerOfTwo_pow2, List.length_drop, h]
        rw [Nat.pow_succ]; omega

/-- **Shape**: with two or more items the root is a branch whose LEFT subtree is
    the perfect tree over the first 2^k items, 2^k < count ≤ 2^(k+1) — the tree
    is left-heavy exactly as in the reference implementation. -/
theorem mkTree_left_perfect (items : List RBytes) (h2 : 2 ≤ items.length) :
    ∃ k l r, mkTree items = .branch l r ∧ l.perfect k ∧ l.leaves = items.take (2 ^ k) ∧
      2 ^ k < items.length ∧ items.length ≤ 2 ^ (k + 1) := by
  match items, h2 with
  | x :: y :: rest, _ =>
    have hlt := powerOfTwo_lt (x :: y :: rest).length (by simp)
    have hle := le_two_powerOfTwo (x :: y :: rest).length
    refine ⟨Nat.log2 ((x :: y :: rest).length - 1), _, _, by rw [mkTree], ?_, ?_, ?_, ?_⟩
    · apply mkTree_pow2_perfect
      rw [List.length_take]; unfold powerOfTwo at hlt ⊢; omega
    · apply mkTree_leaves
      intro hc
      have := congrArg List.length hc
      have hpos := powerOfTwo_pos (x :: y :: rest).length
      simp only [List.length_take, List.length_nil] at this
      omega
    · exact hlt
    · rw [Nat.pow_succ]; unfold powerOfTwo at hle; omega

/-! ### what the tags buy (symbolic model of the hash) -/

/-- the byte-level root is the abstract root with `hl x = h (0 ‖ x)`, `hb l r = h (1 ‖ l ‖ r)` -/
theorem root_eq_rootG (h : RBytes → RBytes) (t : Tree) :
    t.root h = t.rootG (fun x => h (0 :: x)) (fun l r => h (1 :: (l ++ r))) := by
  induction t with
  | leaf x => rfl
  | branch l r ihl ihr => simp [Tree.root, Tree.rootG, ihl, ihr]

/-- With an ideal (collision-free) leaf hash and pair hash whose ranges are
    disjoint — which is what the tags 0 and 1 are for — the root determines the tree. -/
theorem tree_root_injective {D : Type} (hl : RBytes → D) (hb : D → D → D)
    (hli : ∀ x y, hl x = hl y → x = y)
    (hbi : ∀ a b c d, hb a b = hb c d → a = c ∧ b = d)
    (hdisj : ∀ x a b, hl x ≠ hb a b) :
    ∀ t1 t2 : Tree, t1.rootG hl hb = t2.rootG hl hb → t1 = t2 := by
  intro t1
  induction t1 with
  | leaf x =>
    intro t2 h
    cases t2 with
    | leaf y => rw [hli x y h]
    | branch l r => exact absurd h (hdisj _ _ _)
  | branch l r ihl ihr =>
    intro t2 h
    cases t2 with
    | leaf y => exact absurd h.symm (hdisj _ _ _)
    | branch l' r' =>
      obtain ⟨h1, h2⟩ := hbi _ _ _ _ h
      rw [ihl l' h1, ihr r' h2]

/-- …and therefore the item list: two non-empty lists with the same root are equal
    (no second list, of any length, shares a root — in the symbolic model). -/
theorem merkle_root_binds_items {D : Type} (hl : RBytes → D) (hb : D → D → D)
    (hli : ∀ x y, hl x = hl y → x = y)
    (hbi : ∀ a b c d, hb a b = hb c d → a = c ∧ b = d)
    (hdisj : ∀ x a b, hl x ≠ hb a b)
    (l1 l2 : List RBytes) (h1 : l1 ≠ []) (h2 : l2 ≠ [])
    (h : (mkTree l1).rootG hl hb = (mkTree l2).rootG hl hb) : l1 = l2 := by
  have := tree_root_injective hl hb hli hbi hdisj _ _ h
  rw [← mkTree_leaves l1 h1, ← mkTree_leaves l2 h2, this]

/-- the hypotheses are satisfiable: the free algebra (digest = the tree itself) -/
example : ∀ l1 l2 : List RBytes, l1 ≠ [] → l2 ≠ [] →
    (mkTree l1).rootG Tree.leaf Tree.branch = (mkTree l2).rootG Tree.leaf Tree.branch → l1 = l2 :=
  fun l1 l2 h1 h2 h => merkle_root_binds_items Tree.leaf Tree.branch
    (fun _ _ h => by injection h) (fun _ _ _ _ h => by injection h with a b; exact ⟨a, b⟩)
    (fun _ _ _ h => by cases h) l1 l2 h1 h2 h

/-- Regenerated tie: `MerkleRoot` / `merkleNode` as re-extracted from the source on every run are the
    statements `GV.Model.Merkle` mirrors (tags, split call, recursion on items[:split] / items[split:]). -/
theorem source_as_modelled :
    GV.Gen.SrcG7.merkleRoot = [
  "if len(items) == 0 { return common.Blake2b256Hash(nil) }",
  "return merkleNode(items)"] ∧
    GV.Gen.SrcG7.merkleNode = [
  "if len(items) == 1 { return common.Blake2b256Hash(append([]byte{merkleLeafTag}, items[0]...)) }",
  "split := largestPowerOfTwoBelow(len(items))",
  "left := merkleNode(items[:split])",
  "right := merkleNode(items[split:])",
  "combined := make([]byte, 0, 1+len(left)+len(right))",
  "combined = append(combined, merkleBranchTag)",
  "combined = append(combined, left[:]...)",
  "combined = append(combined, right[:]...)",
  "return common.Blake2b256Hash(combined)"] := by
  decide

/-! Non-vacuity and concrete shapes (toy hash = identity, so the root spells the tree). -/
example : merkleRoot id [[7], [8], [9]] = [1, 1, 0, 7, 0, 8, 0, 9] := by
  simp [merkleRoot, merkleNode, largestPow2Below, lp2Loop, merkleLeafTag, merkleBranchTag]
example : refRoot id [[7], [8], [9]] = [1, 1, 0, 7, 0, 8, 0, 9] := by
  simp [refRoot, mkTree, powerOfTwo, Tree.root, show Nat.log2 2 = 1 by decide, show Nat.log2 1 = 0 by decide]
example : mkTree [[1], [2], [3], [4], [5]] =
    .branch (.branch (.branch (.leaf [1]) (.leaf [2])) (.branch (.leaf [3]) (.leaf [4]))) (.leaf [5]) := by
  simp [mkTree, powerOfTwo, show Nat.log2 4 = 2 by decide, show Nat.log2 3 = 1 by decide,
    show Nat.log2 1 = 0 by decide]
example : GV.Gen.GoLite.largestPowerOfTwoBelow 5 = 4 ∧ GV.Gen.GoLite.largestPowerOfTwoBelow 4 = 2 ∧
    GV.Gen.GoLite.largestPowerOfTwoBelow 2 = 1 := by decide

end GV.Props.C35
