import GV.Model.ChainSyncWrap
import GV.Gen.ChainSyncEraMaps
/-!
C22 — Chain-sync wrapping preserves block and header identity.

* node-to-client: for every block type, every block (one CBOR item) and every
  tip, the client's decoder applied to the server's encoding returns the same
  type, the byte-identical block, and the tip (`ntc_wrap_roundtrip`);
* node-to-node: for every Shelley-or-later block type of the *regenerated* era
  tables, the header the client receives is byte-for-byte the first element of
  the block, labelled with an era that maps back to the same block type
  (`ntn_header_identity`); hence any hash of the received header equals the
  same hash of the block's header, which is the block hash (`ntn_hash_identity`).
-/
namespace GV.Props.C22
open GV.Model.ChainSyncWrap
open GV.Gen.ChainSyncEraMaps

def u64 : Nat := 18446744073709551616

/-- CBOR heads round-trip for every argument below 2^64, in front of any rest. -/
theorem decHead_encHead (m n : Nat) (rest : Bytes) (hn : n < u64) :
    decHead (encHead m n ++ rest) = some (m, n, rest) := by
  unfold u64 at hn
  unfold encHead
  by_cases h0 : n < 24
  · have h1 : (m * 32 + n) / 32 = m := by omega
    have h2 : (m * 32 + n) % 32 = n := by omega
    simp [h0, decHead, h1, h2]
  · by_cases h3 : n < 256
    · have h1 : (m * 32 + 24) / 32 = m := by omega
      have h2 : (m * 32 + 24) % 32 = 24 := by omega
      simp [h0, h3, decHead, h1, h2]
    · by_cases h4 : n < 65536
      · have h1 : (m * 32 + 25) / 32 = m := by omega
        have h2 : (m * 32 + 25) % 32 = 25 := by omega
        simp [h0, h3, h4, decHead, h1, h2]
        omega
      · by_cases h5 : n < 4294967296
        · have h1 : (m * 32 + 26) / 32 = m := by omega
          have h2 : (m * 32 + 26) % 32 = 26 := by omega
          simp [h0, h3, h4, h5, decHead, h1, h2]
          omega
        · have h1 : (m * 32 + 27) / 32 = m := by omega
          have h2 : (m * 32 + 27) % 32 = 27 := by omega
          simp [h0, h3, h4, h5, decHead, h1, h2]
          omega

theorem expectHead_encHead (m n : Nat) (rest : Bytes) (hn : n < u64) :
    expectHead m (encHead m n ++ rest) = some (n, rest) := by
  simp [expectHead, decHead_encHead m n rest hn]

theorem tag24_roundtrip (b rest : Bytes) (hb : b.length < u64) :
    decTag24Bstr (encTag24Bstr b ++ rest) = some (b, rest) := by
  unfold decTag24Bstr encTag24Bstr encBstr
  simp only [List.append_assoc]
  rw [expectHead_encHead 6 24 _ (by unfold u64; omega)]
  simp only
  rw [expectHead_encHead 2 b.length _ hb]
  simp

/-- a tip whose numbers and hash length fit CBOR -/
def Tip.ok (t : Tip) : Prop :=
  t.slot < u64 ∧ t.blockNo < u64 ∧ (∀ h, t.hash = some h → h.length < u64) ∧ (t.hash = none → t.slot = 0)

theorem tip_roundtrip (t : Tip) (ht : Tip.ok t) : decTip (encTip t) = some t := by
  obtain ⟨hs, hb, hh, ho⟩ := ht
  unfold decTip encTip
  cases hhash : t.hash with
  | none =>
    simp only [List.append_assoc]
    rw [expectHead_encHead 4 2 _ (by unfold u64; omega)]
    simp only
    rw [expectHead_encHead 4 0 _ (by unfold u64; omega)]
    simp only [encUint]
    have := expectHead_encHead 0 t.blockNo [] hb
    rw [List.append_nil] at this
    rw [this]
    have hz := ho hhash
    cases t; simp_all
  | some h =>
    have hl := hh h hhash
    simp only [List.append_assoc, encUint, encBstr]
    rw [expectHead_encHead 4 2 _ (by unfold u64; omega)]
    simp only
    rw [expectHead_encHead 4 2 _ (by unfold u64; omega)]
    simp only
    rw [expectHead_encHead 0 t.slot _ hs]
    simp only
    rw [expectHead_encHead 2 h.length _ hl]
    have := expectHead_encHead 0 t.blockNo [] hb
    rw [List.append_nil] at this
    simp [this]
    cases t; simp_all

/-- **Node-to-client.** Whatever the block type (< 2^64), the block bytes (any
    single CBOR item the library accepts, of any size CBOR can frame) and the tip,
    the client decodes the same type, the byte-identical block and the same tip. -/
theorem ntc_wrap_roundtrip (wfItem : Bytes → Bool) (ty : Nat) (block : Bytes) (tip : Tip)
    (hty : ty < u64) (hlen : block.length + 10 < u64) (hwf : wfItem block = true) (htip : Tip.ok tip) :
    decRollForwardNtC wfItem (encRollForwardNtC ty block tip) = some (ty, block, tip) := by
  unfold decRollForwardNtC encRollForwardNtC encUint
  simp only [List.append_assoc]
  rw [expectHead_encHead 4 3 _ (by unfold u64; omega)]
  simp only
  rw [expectHead_encHead 0 2 _ (by unfold u64; omega)]
  simp only
  have hcl : (encHead 4 2 ++ (encHead 0 ty ++ block)).length < u64 := by
    have h1 : (encHead 4 2).length = 1 := by simp [encHead]
    have h2 : (encHead 0 ty).length ≤ 9 := by
      unfold encHead; split <;> (try split) <;> (try split) <;> (try split) <;> simp
    simp only [List.length_append, h1]
    unfold u64 at *; omega
  rw [tag24_roundtrip _ _ hcl]
  simp only
  rw [tip_roundtrip tip htip]
  simp only
  rw [expectHead_encHead 4 2 _ (by unfold u64; omega)]
  simp only
  rw [expectHead_encHead 0 ty _ hty]
  simp [hwf]

/-- the regenerated era tables are mutually inverse on every Shelley-or-later block type -/
theorem era_maps_inverse :
    ∀ ty ∈ shelleyOrLaterBlockTypes,
      ∃ era, lookup blockToHeader ty = some era ∧ lookup headerToBlock era = some ty ∧ era ≠ headerTypeByron := by
  decide

/-- … and they are exactly each other's converse (no stray entries) -/
theorem era_maps_converse :
    blockToHeader.map (fun p => (p.2, p.1)) = headerToBlock ∧
    blockToHeader.map (·.1) = shelleyOrLaterBlockTypes := by decide

/-- Byron blocks have no node-to-node header type in these tables (the server refuses them) -/
theorem byron_not_served_ntn : ∀ ty ∈ byronBlockTypes, lookup blockToHeader ty = none := by decide

theorem ntn_msg_roundtrip (era : Nat) (hdr : Bytes) (tip : Tip)
    (hera : era < u64) (hlen : hdr.length < u64) (htip : Tip.ok tip) :
    decRollForwardNtN (encRollForwardNtN era hdr tip) = some (era, hdr, tip) := by
  unfold decRollForwardNtN encRollForwardNtN encUint
  simp only [List.append_assoc]
  rw [expectHead_encHead 4 3 _ (by unfold u64; omega)]
  simp only
  rw [expectHead_encHead 0 2 _ (by unfold u64; omega)]
  simp only
  rw [expectHead_encHead 4 2 _ (by unfold u64; omega)]
  simp only
  rw [expectHead_encHead 0 era _ hera]
  simp only
  rw [tag24_roundtrip _ _ hlen]
  simp only
  rw [tip_roundtrip tip htip]

/-- **Node-to-node.** For every Shelley-or-later block type, if the block is an
    array whose first element is `hdr`, the client receives exactly `hdr`, the
    block type the era maps back to is the original one, and the tip is intact. -/
theorem ntn_header_identity (ty : Nat) (block : Bytes) (hl : Nat) (hdr : Bytes) (tip : Tip)
    (hty : ty ∈ shelleyOrLaterBlockTypes) (hfirst : firstItem block hl = some hdr)
    (hlen : hdr.length < u64) (htip : Tip.ok tip) :
    ∃ wire, ntnPath blockToHeader headerToBlock ty block hl tip = .delivered ty hdr tip wire := by
  obtain ⟨era, h1, h2, _⟩ := era_maps_inverse ty hty
  have hera : era < u64 := by
    have : ∀ ty ∈ shelleyOrLaterBlockTypes, ∀ e, lookup blockToHeader ty = some e → e < 24 := by decide
    have := this ty hty era h1
    unfold u64; omega
  unfold ntnPath
  simp only [h1, hfirst]
  rw [ntn_msg_roundtrip era hdr tip hera hlen htip]
  simp only [h2]
  exact ⟨_, rfl⟩

/-- Block hash = hash of the header bytes; the header bytes arrive unchanged, so
    for *any* hash function the received header hashes to the block's hash. -/
theorem ntn_hash_identity {D : Type} (H : Bytes → D) (ty : Nat) (block : Bytes) (hl : Nat)
    (hdr : Bytes) (tip : Tip) (hty : ty ∈ shelleyOrLaterBlockTypes)
    (hfirst : firstItem block hl = some hdr) (hlen : hdr.length < u64) (htip : Tip.ok tip) :
    ∀ ty' hdr' tip' wire,
      ntnPath blockToHeader headerToBlock ty block hl tip = .delivered ty' hdr' tip' wire →
      ty' = ty ∧ H hdr' = H hdr := by
  intro ty' hdr' tip' wire h
  obtain ⟨w, hw⟩ := ntn_header_identity ty block hl hdr tip hty hfirst hlen htip
  rw [hw] at h
  cases h
  exact ⟨rfl, rfl⟩

/-- non-vacuity: a Babbage-labelled two-element "block" whose header is `[1,2]` -/
example : (match ntnPath blockToHeader headerToBlock 6 [130, 130, 1, 2, 128] 3 ⟨5, some [9, 9], 7⟩ with
    | .delivered ty hdr tip _ => ty == 6 && hdr == [130, 1, 2] && tip == ⟨5, some [9, 9], 7⟩
    | _ => false) = true := by decide
example : decRollForwardNtC (fun _ => true) (encRollForwardNtC 7 [130, 1, 2] ⟨0, none, 3⟩) =
    some (7, [130, 1, 2], ⟨0, none, 3⟩) := by decide
/-- the decoder is not the constant function: a damaged tag is refused -/
example : decRollForwardNtC (fun _ => true) [131, 2, 216, 25, 67, 130, 7, 128, 130, 128, 3] = none := by decide

end GV.Props.C22
