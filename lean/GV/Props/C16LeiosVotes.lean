import GV.Model.LeiosVotes
import GV.Gen.StateMaps
/-!
  C16, leios-votes: general counter bisimulation (all request counts, traces of every length)
  between the hand model of the implementation's side-effecting match functions and the
  specification, and the tie of the hand model to the running code (generated table for the
  probed counts + boundary probes of the real engine).
-/
namespace GV.Props.C16LeiosVotes
open GV.LeiosVotes
open GV.SM (Machine Sym)

/-- the bisimulation: Idle with no tokens ~ idle; Busy with t ≥ 1 tokens ~ busy t; Done ~ done -/
def R (s : St) (q : Spec) : Prop :=
  (s.phase = 1 ∧ s.tokens = 0 ∧ q = .idle) ∨
  (s.phase = 2 ∧ 1 ≤ s.tokens ∧ q = .busy s.tokens) ∨
  (s.phase = 3 ∧ q = .done)

def relOut : Option St → Option Spec → Prop
  | none, none => True
  | some s, some q => R s q
  | _, _ => False

theorem bisim_step {s : St} {q : Spec} (h : R s q) (a : Msg) :
    relOut (step 1000 s a) (specStep q a) := by
  rcases h with ⟨h1, h2, rfl⟩ | ⟨h1, h2, rfl⟩ | ⟨h1, rfl⟩
  · cases a with
    | requestNext c =>
      simp only [step, h1, if_true, specStep]
      by_cases hc : c = 0 ∨ c > 1000
      · have : ¬(1 ≤ c ∧ c ≤ 1000) := by omega
        simp [hc, this, relOut]
      · have h' : 1 ≤ c ∧ c ≤ 1000 := by omega
        simp only [hc, if_false, h', and_self, if_true, relOut]
        exact Or.inr (Or.inl ⟨rfl, h'.1, rfl⟩)
    | vote => simp [step, h1, specStep, relOut]
    | done =>
      simp only [step, h1, if_true, specStep, relOut]
      exact Or.inr (Or.inr ⟨rfl, rfl⟩)
  · cases a with
    | requestNext c => simp [step, h1, specStep, relOut]
    | vote =>
      simp only [step, h1, if_true, specStep]
      by_cases ht : s.tokens > 1
      · have h1' : ¬ s.tokens = 1 := by omega
        simp only [ht, if_true, h1', if_false, relOut]
        exact Or.inr (Or.inl ⟨rfl, by simp; omega, rfl⟩)
      · have h1' : s.tokens = 1 := by omega
        simp only [h1', if_true, relOut]
        exact Or.inl ⟨rfl, rfl, rfl⟩
    | done => simp [step, h1, specStep, relOut]
  · cases a <;> simp [step, h1, specStep, relOut]

theorem bisim_run {s : St} {q : Spec} (h : R s q) (tr : List Msg) :
    relOut (run 1000 s tr) (specRun q tr) := by
  induction tr generalizing s q with
  | nil => simpa [run, specRun, relOut] using h
  | cons a rest ih =>
    have hs := bisim_step h a
    simp only [run, specRun]
    cases h1 : step 1000 s a with
    | none =>
      cases h2 : specStep q a with
      | none => simp [relOut]
      | some q' => rw [h1, h2] at hs; exact False.elim hs
    | some s' =>
      cases h2 : specStep q a with
      | none => rw [h1, h2] at hs; exact False.elim hs
      | some q' => rw [h1, h2] at hs; exact ih hs

/-- **General counter bisimulation**: for EVERY message sequence — any request counts, any number
    of votes — the implementation model accepts it iff the specification does. -/
theorem language_eq (tr : List Msg) :
    (run 1000 LeiosVotes.init tr).isSome = (specRun .idle tr).isSome := by
  have h := bisim_run (s := LeiosVotes.init) (q := .idle) (Or.inl ⟨rfl, rfl, rfl⟩) tr
  cases h1 : run 1000 LeiosVotes.init tr with
  | none =>
    cases h2 : specRun .idle tr with
    | none => rfl
    | some q => rw [h1, h2] at h; exact False.elim h
  | some s =>
    cases h2 : specRun .idle tr with
    | none => rw [h1, h2] at h; exact False.elim h
    | some q => rfl

/-- a request for n votes is completed by exactly n votes (n ≥ 1): after fewer the protocol is still
    busy, one more is refused in Idle -/
theorem exactly_n_votes (n k : Nat) (hn : 1 ≤ n) (hk : k < n) :
    run 1000 ⟨2, n⟩ (List.replicate k .vote) = some ⟨2, n - k⟩ := by
  induction k generalizing n with
  | zero => simp [run]
  | succ k ih =>
    have hgt : n > 1 := by omega
    simp only [List.replicate_succ, run, step, if_true, hgt]
    have := ih (n - 1) (by omega) (by omega)
    rw [this]
    congr 2
    omega

/-! ### tie of the hand model to the running code -/

/-- the generated table (engine's own nextState on real messages, counts 0,1,2,3,1001, every
    reachable (state, tokens)) agrees with the hand model on every probed (state, symbol) -/
def tableAgrees (g : Machine) : Bool :=
  g.states.all (fun s => g.alphabet.all (fun a =>
    match ofSym a with
    | some msg => g.step s.id a == (step 1000 (decode s.id) msg).map encode
    | none => false))

theorem gen_table_matches_model :
    tableAgrees GV.Gen.StateMaps.leiosvotes_client = true ∧
    tableAgrees GV.Gen.StateMaps.leiosvotes_server = true := by decide

/-- boundary probes of the real engine: accepted request counts are exactly 1..1000 -/
theorem gen_count_bounds_match_model :
    (∀ p ∈ GV.Gen.StateMaps.leiosvotesCountProbes_client,
        p.2 = (step 1000 LeiosVotes.init (.requestNext p.1)).map encode) ∧
    (∀ p ∈ GV.Gen.StateMaps.leiosvotesCountProbes_server,
        p.2 = (step 1000 LeiosVotes.init (.requestNext p.1)).map encode) := by decide

/-- the real engine after RequestNext 1000 and k votes (k = 1, 2, 999, 1000, 1001) is where the
    model says -/
def votesAgree (probes : List (Nat × Option Nat)) : Bool :=
  probes.all (fun p =>
    p.2 == (run 1000 ⟨2, 1000⟩ (List.replicate p.1 .vote)).map encode)

set_option maxRecDepth 100000 in
theorem gen_votes_after_1000_match_model :
    votesAgree GV.Gen.StateMaps.leiosvotesVotesAfter1000_client = true ∧
    votesAgree GV.Gen.StateMaps.leiosvotesVotesAfter1000_server = true := by decide

/-! non-vacuity -/
example : (run 1000 LeiosVotes.init [.requestNext 2, .vote, .vote, .done]).isSome = true := by decide
example : (run 1000 LeiosVotes.init [.requestNext 2, .vote, .done]).isSome = false := by decide
example : (run 1000 LeiosVotes.init [.requestNext 1001]).isSome = false := by decide

end GV.Props.C16LeiosVotes
