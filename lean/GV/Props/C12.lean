import GV.Proofs.Compose
import GV.Gen.StateMaps
/-!
  C12 — Outbound messages keep their order and drive the state machine in that order.

  Theorems over the abstract engine `GV.Engine` (see Props/C11.lean for what it is and how it
  is tied to the code), for every admitted event sequence.
-/
namespace GV.Props.C12
open GV.SM GV.Engine

variable {m : Machine} {role : Nat}

/-- Everything the caller queued is, in queue order and each exactly once: on the wire, or
    dequeued and waiting for its transition, or the single refused head, or still queued. -/
theorem wire_is_queue_order (evs : List Ev) {s : S} (h : run m role (init m) evs = some s) :
    s.enq = s.wire ++ s.head.toList ++ s.sendRej.toList ++ s.sendQ :=
  (inv_reachable evs h).snd.wireOrder

/-- in particular the wire is a prefix of the queue history -/
theorem wire_prefix_of_enqueued (evs : List Ev) {s : S} (h : run m role (init m) evs = some s) :
    ∃ rest, s.enq = s.wire ++ rest := by
  refine ⟨s.head.toList ++ s.sendRej.toList ++ s.sendQ, ?_⟩
  rw [wire_is_queue_order evs h]; simp [List.append_assoc]

/-- The messages that advanced the local state, followed by those written whose (pipelined)
    transition is still pending, are exactly the wire sequence: each message advances the state
    exactly once, in wire order. -/
theorem local_transitions_follow_wire (evs : List Ev) {s : S} (h : run m role (init m) evs = some s) :
    s.sendTrans ++ s.pendT = s.wire :=
  (inv_reachable evs h).snd.transWire

/-- Every outbound transition was applied in a state where WE hold agency and it was permitted;
    every inbound one where the PEER holds agency: sent and received messages interleave only
    according to agency, and the state is the run of the state machine along the interleaving. -/
theorem interleaving_respects_agency (evs : List Ev) {s : S} (h : run m role (init m) evs = some s) :
    (∀ qa ∈ s.slog, ours m role qa.1 = true ∧ (m.step qa.1 qa.2).isSome = true) ∧
    (∀ qa ∈ s.hlog, peers m role qa.1 = true ∧ (m.step qa.1 qa.2).isSome = true) ∧
    m.run m.init s.tlog = some s.st :=
  let i := (inv_reachable evs h).log
  ⟨i.slogOk, i.hlogOk, i.path⟩

/-- A message that is first in its batch and not permitted in the current state is refused
    instead of being sent: the wire is unchanged and the send loop is dead. -/
theorem first_disallowed_rejected_not_sent {s s' : S} {src t : Nat} {a : Sym}
    (hw : who s = .sHead a) (h : step? m role s (.transerr src t) = some s') :
    m.step s.st a = none ∧ s'.wire = s.wire ∧ s'.sendRej = some a ∧ s'.sendDead = true := by
  obtain ⟨hg, rfl⟩ := step_iff.mp h
  simp only [GV.Engine.guard, hw, Bool.and_eq_true, beq_iff_eq] at hg
  simp only [GV.Engine.apply, hw]
  have : m.step s.st a = none := by simpa using hg.2.1.2
  exact ⟨this, by simp⟩

theorem frozen_run {s s' : S} (hi : Inv m role s) (hd : s.sendDead = true)
    (evs' : List Ev) (h : run m role s evs' = some s') :
    s'.wire = s.wire ∧ s'.sendTrans = s.sendTrans ∧ s'.sendDead = true := by
  induction evs' generalizing s with
  | nil => simp [run] at h; subst h; exact ⟨rfl, rfl, hd⟩
  | cons e rest ih =>
    simp only [run] at h
    cases hs : step? m role s e with
    | none => simp [hs] at h
    | some s1 =>
      rw [hs] at h
      have ⟨d1, w1, t1⟩ := sendDead_frozen hi.snd hd hs
      have ⟨a, b, c⟩ := ih (inv_step hi hs) d1 h
      exact ⟨a.trans w1, b.trans t1, c⟩

/-- … and afterwards nothing more is ever written or applied on the send side. -/
theorem nothing_sent_after_refusal (evs : List Ev) {s s' : S}
    (h0 : run m role (init m) evs = some s) (hd : s.sendDead = true)
    (evs' : List Ev) (h : run m role s evs' = some s') :
    s'.wire = s.wire ∧ s'.sendTrans = s.sendTrans ∧ s'.sendDead = true :=
  frozen_run (inv_reachable evs h0) hd evs' h

/-! ### the peer accepts the whole conversation (two engines composed)

  `GV.Engine.Pair` is a client engine and a server engine running the same state machine,
  connected by two lossless FIFO streams (a `rq x` event of one side is enabled only when `x`
  is the next unread message the other side has written).  Everything else — schedules of
  all ten goroutines, what the two applications enqueue and when (pipelining of any depth) —
  is unconstrained. -/

theorem agencyOf_le_two (mm : Machine) (h : ∀ s ∈ mm.states, s.agency ≤ 2) (q : Nat) :
    mm.agencyOf q ≤ 2 := by
  unfold Machine.agencyOf Machine.stateOf
  cases hf : mm.states.find? (fun s => s.id = q) with
  | none => simp
  | some s => simpa using h s (List.mem_of_find?_eq_some hf)

/-- every generated machine uses only the three agency values -/
theorem gen_agency_le_two : ∀ mm ∈ GV.Gen.StateMaps.all, ∀ s ∈ mm.states, s.agency ≤ 2 := by decide

/-- **If one side refuses a message, the other side has not applied that message**: the
    sender's own check of that message (its local state transition) has not succeeded — and,
    the receiver's state being exactly the state in which the sender will check it
    (`GV.Engine.merge_unique`), it never will.  Contrapositive: whatever the sender's engine
    accepts from its caller, the peer's engine accepts from the wire. -/
theorem refused_means_sender_did_not_apply (hag : ∀ q, m.agencyOf q ≤ 2) (evs : List PEv) {p : Pair}
    (h : prun m (pinit m) evs = some p) :
    (∀ x, p.b.recvRej = some x → p.a.sendTrans.length ≤ p.b.hlog.length) ∧
    (∀ y, p.a.recvRej = some y → p.b.sendTrans.length ≤ p.a.hlog.length) := by
  have hi := pinv_reachable evs h
  constructor
  · intro x hx
    simpa using refusal_not_applied (swap12 hag) hi.ia hi.ma hi.ib hi.mb hi.cb hi.ca hx
  · intro y hy
    simpa using refusal_not_applied (swap21 hag) hi.ib hi.mb hi.ia hi.ma hi.ca hi.cb hy

/-- **When the caller uses the protocol correctly the peer accepts the whole conversation**:
    in every reachable state of the composed system in which the client engine has applied
    every message it wrote (no pipelined transition pending — `sendTrans ++ pendT = wire`), the
    server engine has refused nothing; and symmetrically.  Holds for any pipelining depth. -/
theorem conforming_accepted (hag : ∀ q, m.agencyOf q ≤ 2) (evs : List PEv) {p : Pair}
    (h : prun m (pinit m) evs = some p) :
    (p.a.pendT = [] → p.b.recvRej = none) ∧ (p.b.pendT = [] → p.a.recvRej = none) := by
  have hi := pinv_reachable evs h
  have hr := refused_means_sender_did_not_apply hag evs h
  constructor
  · intro hp
    cases hx : p.b.recvRej with
    | none => rfl
    | some x =>
      have h1 := hr.1 x hx
      have hreq : p.b.reqR = none := (hi.ib.rcv.deadR (hi.ib.rcv.rejR (by simp [hx]))).1
      have hl := hi.cb.length_le
      rw [hi.ib.rcv.inbOrder, hx, hreq, ← hi.ia.snd.transWire, hp] at hl
      simp at hl
      omega
  · intro hp
    cases hx : p.a.recvRej with
    | none => rfl
    | some x =>
      have h1 := hr.2 x hx
      have hreq : p.a.reqR = none := (hi.ia.rcv.deadR (hi.ia.rcv.rejR (by simp [hx]))).1
      have hl := hi.ca.length_le
      rw [hi.ia.rcv.inbOrder, hx, hreq, ← hi.ib.snd.transWire, hp] at hl
      simp at hl
      omega

/-- instance for every mini-protocol of the running code -/
theorem conforming_accepted_gen : ∀ mm ∈ GV.Gen.StateMaps.all, ∀ (evs : List PEv) (p : Pair),
    prun mm (pinit mm) evs = some p →
    (p.a.pendT = [] → p.b.recvRej = none) ∧ (p.b.pendT = [] → p.a.recvRej = none) :=
  fun mm hm evs _ h => conforming_accepted (agencyOf_le_two mm (gen_agency_le_two mm hm)) evs h

/-! ### non-vacuity: pipelining in the keep-alive client model (two messages enqueued up front;
    the second is written in the same batch and its transition is applied later) -/
def ka : Machine :=
  { name := "keep-alive", role := 1, protoId := 8, init := 1,
    states := [⟨1, "Client", 1, 0, false, 0, 0, 0⟩, ⟨2, "Server", 2, 0, false, 0, 0, 0⟩, ⟨3, "Done", 0, 0, false, 0, 0, 0⟩],
    alphabet := [⟨0, 0⟩, ⟨1, 0⟩, ⟨2, 0⟩],
    trans := [⟨1, ⟨0, 0⟩, 2⟩, ⟨1, ⟨2, 0⟩, 3⟩, ⟨2, ⟨1, 0⟩, 1⟩] }

def pipelined : List Ev :=
  [.state 1 true, .enq ⟨0, 0⟩, .enq ⟨2, 0⟩, .stok, .deq ⟨0, 0⟩ 1, .strans ⟨0, 0⟩ false, .trans 1 2 0,
   .deq ⟨2, 0⟩ 2, .seg, .rq ⟨1, 0⟩, .rtok, .rtrans ⟨1, 0⟩, .trans 2 1 1, .handle 1,
   .stok, .strans ⟨2, 0⟩ true, .trans 1 3 2]

example : ((run ka 1 (init ka) pipelined).map (fun s => (s.wire, s.sendTrans, s.pendT, s.st))) =
    some ([⟨0, 0⟩, ⟨2, 0⟩], [⟨0, 0⟩, ⟨2, 0⟩], [], 3) := by decide
/-- a refused head is not written -/
example : ((run ka 1 (init ka)
    [.state 1 true, .enq ⟨1, 0⟩, .stok, .deq ⟨1, 0⟩ 1, .strans ⟨1, 0⟩ false, .transerr 1 1]).map
      (fun s => (s.wire, s.sendDead))) = some ([], true) := by decide
/-- the model does not admit a send transition without the token -/
example : (run ka 1 (init ka) [.state 1 true, .enq ⟨0, 0⟩, .deq ⟨0, 0⟩ 1]).isNone = true := by decide

/-- the composed system is not vacuous: client sends KeepAlive, server reads and handles it -/
example : ((prun ka (pinit ka)
    [.A (.state 1 true), .B (.state 1 true), .A (.enq ⟨0, 0⟩), .A .stok, .A (.deq ⟨0, 0⟩ 1),
     .A (.strans ⟨0, 0⟩ false), .A (.trans 1 2 0), .A .seg,
     .B (.rq ⟨0, 0⟩), .B .rtok, .B (.rtrans ⟨0, 0⟩), .B (.trans 1 2 0), .B (.handle 0)]).map
      (fun p => (p.b.handled, p.b.st))) = some ([⟨0, 0⟩], 2) := by decide
/-- a message the client has not written cannot be read by the server -/
example : (prun ka (pinit ka) [.A (.state 1 true), .B (.state 1 true), .B (.rq ⟨0, 0⟩)]).isNone = true := by decide

end GV.Props.C12
