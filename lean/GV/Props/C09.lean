import GV.Model.Muxer
import GV.Proofs.Muxer
import GV.Gen.GoLite
/-!
C09 — The muxer delivers each byte stream intact to the right endpoint.

Segments written by any number of concurrently sending mini-protocols reach the peer with
their payloads unmodified, in per-protocol send order, and are delivered only to the
receiver registered for that protocol number and direction, regardless of how the
underlying connection fragments the byte stream. No segment carries more than 65535
payload bytes, and a received zero-length segment or a segment for an unregistered
protocol closes the connection with an error.
-/
namespace GV.Props.C09
open GV.Model.Muxer GV.Proofs.Muxer

/-- Fragmentation invariance: whatever chunks the connection's reads return, the
    incremental reader produces the reference parse of the concatenated stream. -/
theorem frag_invariant (chunks : List Bytes) :
    (feedAll RState.init chunks).result = parse chunks.flatten := by
  have h : feedAll RState.init chunks = feed RState.init chunks.flatten := by
    unfold feedAll feed
    rw [List.foldl_flatten]
  rw [h]
  have := feed_eq_parse chunks.flatten []
  simpa [RState.init, Phase.init] using this

/-- Two fragmentations of the same stream are indistinguishable. -/
theorem frag_irrelevant (c1 c2 : List Bytes) (h : c1.flatten = c2.flatten) (cfg : Cfg) :
    run cfg c1 = run cfg c2 := by
  simp only [run, frag_invariant, h]

/-- Framing round-trip: what `Send` writes for well-formed segments parses back to exactly
    those segments (payload bytes, protocol id field, order), ending at a clean boundary. -/
theorem roundtrip (segs : List Seg) (h : ∀ s ∈ segs, SegOk s) :
    parse (segs.flatMap encSeg) = (segs, End.eofHeader) := by
  have := parse_flatMap segs [] h
  simpa [parse_nil] using this

/-- `NewSegment` length guard: no segment with more than 65535 payload bytes is ever built,
    so the 16-bit length field always holds the true length. -/
theorem newSegment_len_guard (ts pid : Nat) (payload : Bytes) (r : Bool) :
    (payload.length > 65535 → newSegment ts pid payload r = none) ∧
    (∀ s, newSegment ts pid payload r = some s → s.payload = payload ∧ s.payload.length ≤ 65535) := by
  unfold newSegment maxPayload GV.Gen.Limits.segmentMaxPayloadLength
  constructor
  · intro h; simp [h]
  · intro s hs
    split at hs
    · simp at hs
    · simp only [Option.some.injEq] at hs
      subst hs; simp; omega

/-- Wire protocol-id field for a receiver key: the response bit is set exactly for
    segments addressed to an initiator. -/
def pidOf (k : Nat × Role) : Nat := if k.2 = Role.initiator then k.1 + 32768 else k.1

/-- What `NewSegment` puts in the header is `pidOf` of the peer's receiver key. -/
theorem newSegment_pid (ts id : Nat) (payload : Bytes) (r : Bool) (hid : id < 32768) (s : Seg)
    (h : newSegment ts id payload r = some s) :
    s.pid = pidOf (id, if r then Role.initiator else Role.responder) := by
  unfold newSegment at h
  split at h
  · simp at h
  · simp only [Option.some.injEq] at h
    subst h
    cases r <;> simp [pidOf, respFlag, GV.Gen.Limits.segmentProtocolIdResponseFlag]
    omega

def modeAllows (mode : Nat) (r : Role) : Prop :=
  ¬ (mode = 1 ∧ r = Role.responder) ∧ ¬ (mode = 2 ∧ r = Role.initiator)

theorem lookup_exact (c : Cfg) (id k : Nat) (role r : Role) (h : lookup c id role = .deliver k r) :
    (k, r) ∈ c.regs ∧ r = role ∧
    (k = id ∨ (k = protocolUnknown ∧ ∀ x ∈ c.regs, x.1 ≠ id)) := by
  unfold lookup at h
  by_cases a1 : c.regs.any (fun r => r.1 == id) = true
  · simp only [a1, ↓reduceIte] at h
    by_cases a2 : c.regs.contains (id, role) = true
    · simp only [a2, ↓reduceIte, Routed.deliver.injEq] at h
      obtain ⟨rfl, rfl⟩ := h
      exact ⟨by simpa using a2, rfl, Or.inl rfl⟩
    · have a2' : (id, role) ∉ c.regs := by simpa using a2
      simp [a2'] at h
  · simp only [a1, Bool.false_eq_true, ↓reduceIte] at h
    by_cases a3 : c.regs.any (fun r => r.1 == protocolUnknown) = true
    · simp only [a3, ↓reduceIte] at h
      by_cases a4 : c.regs.contains (protocolUnknown, role) = true
      · simp only [a4, ↓reduceIte, Routed.deliver.injEq] at h
        obtain ⟨rfl, rfl⟩ := h
        refine ⟨by simpa using a4, rfl, Or.inr ⟨rfl, ?_⟩⟩
        intro x hx hxe
        apply a1
        simp only [List.any_eq_true, beq_iff_eq]
        exact ⟨x, hx, hxe⟩
      · have a4' : (protocolUnknown, role) ∉ c.regs := by simpa using a4
        simp [a4'] at h
    · simp [a3] at h

/-- Routing is exact: a segment is delivered only to a registered receiver whose role is
    the one the response bit designates, only in a diffusion mode that allows that
    direction, and only under its own protocol number (or the registered catch-all
    `ProtocolUnknown` receiver when the number has no receiver map at all). -/
theorem routing_exact (c : Cfg) (pid k : Nat) (r : Role) (h : route c pid = .deliver k r) :
    (k, r) ∈ c.regs ∧ r = roleOf pid ∧ modeAllows c.mode r ∧
    (k = getProtocolId pid ∨
      (k = protocolUnknown ∧ ∀ x ∈ c.regs, x.1 ≠ getProtocolId pid)) := by
  unfold route at h
  by_cases h1 : c.mode = 1 ∧ isResponse pid = false
  · simp [h1] at h
  · simp only [h1, ↓reduceIte] at h
    by_cases h2 : c.mode = 2 ∧ isResponse pid = true
    · simp [h2] at h
    · simp only [h2, ↓reduceIte] at h
      obtain ⟨hm, hr, hk⟩ := lookup_exact c _ k _ r h
      refine ⟨hm, hr, ?_, hk⟩
      subst hr
      unfold modeAllows roleOf
      cases hresp : isResponse pid <;> simp_all

theorem route_err_ne_eof (c : Cfg) (pid : Nat) (e : End) (h : route c pid = .err e) : e ≠ End.eofHeader := by
  unfold route at h
  by_cases h1 : c.mode = 1 ∧ isResponse pid = false
  · simp [h1] at h; subst h; simp
  · simp only [h1, ↓reduceIte] at h
    by_cases h2 : c.mode = 2 ∧ isResponse pid = true
    · simp [h2] at h; subst h; simp
    · simp only [h2, ↓reduceIte] at h
      unfold lookup at h
      repeat' split at h
      all_goals simp_all
      all_goals (subst h; simp)

theorem pidOf_key (k : Nat × Role) (hk : k.1 < 32768) :
    (getProtocolId (pidOf k), roleOf (pidOf k)) = k := by
  obtain ⟨id, r⟩ := k
  simp only at hk
  unfold getProtocolId roleOf isResponse pidOf respFlag GV.Gen.Limits.segmentProtocolIdResponseFlag
  cases r
  · have : ¬ (id + 32768 < 32768) := by omega
    simp
  · have : ¬ (id ≥ 32768) := by omega
    simp [this]

/-- Conversely a registered receiver gets every segment addressed to it when the mode
    allows the direction. -/
theorem routing_complete (c : Cfg) (id : Nat) (r : Role) (hid : id < 32768)
    (hreg : (id, r) ∈ c.regs) (hm : modeAllows c.mode r) :
    route c (pidOf (id, r)) = .deliver id r := by
  have hk := pidOf_key (id, r) hid
  simp only [Prod.mk.injEq] at hk
  have hany : c.regs.any (fun x => x.1 == id) = true := by
    simp only [List.any_eq_true, beq_iff_eq]; exact ⟨(id, r), hreg, rfl⟩
  have hresp : isResponse (pidOf (id, r)) = decide (r = Role.initiator) := by
    have := hk.2
    unfold roleOf at this
    cases hr : isResponse (pidOf (id, r)) <;> simp [hr] at this <;> simp [← this]
  unfold modeAllows at hm
  unfold route
  rw [hk.1, hk.2, hresp]
  unfold lookup
  have hc : c.regs.contains (id, r) = true := by simpa using hreg
  simp only [hany, hc, ↓reduceIte]
  cases r <;> simp_all

/-- A received zero-length segment closes the connection with an error, whatever follows
    and however the stream is fragmented; segments before it are unaffected. -/
theorem zero_len_closes (segs : List Seg) (h : ∀ s ∈ segs, SegOk s) (ts pid : Nat) (tail : Bytes)
    (hts : ts < 4294967296) (hpid : pid < 65536)
    (chunks : List Bytes)
    (hc : chunks.flatten = segs.flatMap encSeg ++ (be32 ts ++ be16 pid ++ be16 0 ++ tail)) :
    (feedAll RState.init chunks).result = (segs, End.zeroLen) := by
  rw [frag_invariant, hc, parse_flatMap segs _ h]
  have : parse (be32 ts ++ be16 pid ++ be16 0 ++ tail) = ([], End.zeroLen) := by
    rw [parse]
    have hlen8 : (be32 ts ++ be16 pid ++ be16 0).length = 8 := by simp [be32, be16]
    have hne : (be32 ts ++ be16 pid ++ be16 0 ++ tail).isEmpty = false := by simp [be32]
    have hl8 : ¬ (be32 ts ++ be16 pid ++ be16 0 ++ tail).length < 8 := by
      rw [List.length_append, hlen8]; omega
    simp only [hne, Bool.false_eq_true, ↓reduceIte, hl8, List.take_left' hlen8,
      hdrOf_enc ts pid 0 hts hpid (by omega)]
  rw [this]; simp

/-- A zero-length halt ends `run` with an error (never a clean end). -/
theorem routeAll_err_ne_eof (c : Cfg) (l : List Seg) : ∀ (ds : List Delivery) (e : End),
    routeAll c l = (ds, some e) → e ≠ End.eofHeader := by
  induction l with
  | nil => intro ds e h; simp [routeAll] at h
  | cons s t ih =>
    intro ds e h
    simp only [routeAll] at h
    cases hr : route c s.pid with
    | err e' =>
      simp only [hr, Prod.mk.injEq, Option.some.injEq] at h
      obtain ⟨_, rfl⟩ := h
      exact route_err_ne_eof c s.pid e' hr
    | deliver k r =>
      simp only [hr, Prod.mk.injEq] at h
      exact ih _ _ (Prod.ext rfl h.2)

theorem run_zero_len_is_error (c : Cfg) (chunks : List Bytes)
    (h : ((feedAll RState.init chunks).result).2 = End.zeroLen) :
    (run c chunks).2 ≠ End.eofHeader := by
  unfold run
  simp only
  cases hra : routeAll c (feedAll RState.init chunks).result.1 with
  | mk ds oe =>
    cases oe with
    | some e => simpa using routeAll_err_ne_eof c _ ds e hra
    | none => simp [h]

/-- A segment for an unregistered protocol (no receiver map for its number, no catch-all)
    is never delivered: it yields the `unknownProto` error, or a direction error. -/
theorem unregistered_closes (c : Cfg) (pid : Nat)
    (h1 : ∀ x ∈ c.regs, x.1 ≠ getProtocolId pid) (h2 : ∀ x ∈ c.regs, x.1 ≠ protocolUnknown) :
    ∃ e, route c pid = .err e := by
  have a1 : c.regs.any (fun r => r.1 == getProtocolId pid) = false := by
    simp only [List.any_eq_false, beq_iff_eq]; exact h1
  have a2 : c.regs.any (fun r => r.1 == protocolUnknown) = false := by
    simp only [List.any_eq_false, beq_iff_eq]; exact h2
  unfold route lookup
  simp only [a1, a2]
  split
  · exact ⟨_, rfl⟩
  · split <;> exact ⟨_, rfl⟩

/-- A registered protocol number whose role is not registered is an error too (no fall back). -/
theorem wrong_role_closes (c : Cfg) (pid : Nat)
    (h : (getProtocolId pid, roleOf pid) ∉ c.regs)
    (h1 : ∃ x ∈ c.regs, x.1 = getProtocolId pid) :
    ∃ e, route c pid = .err e := by
  have a1 : c.regs.any (fun r => r.1 == getProtocolId pid) = true := by
    simp only [List.any_eq_true, beq_iff_eq]; exact h1
  have a3 : c.regs.contains (getProtocolId pid, roleOf pid) = false := by
    simpa using h
  unfold route lookup
  simp only [a1, a3]
  split
  · exact ⟨_, rfl⟩
  · split <;> exact ⟨_, rfl⟩

theorem interleaving_mem {α : Type} (ls : List (List α)) (w : List α) (hi : Interleaving ls w) :
    ∀ a ∈ w, ∃ (i : Nat) (l : List α), ls[i]? = some l ∧ a ∈ l := by
  induction hi with
  | done ls _ => intro a ha; simp at ha
  | pick ls k a t w hk _ ih =>
    intro b hb
    simp only [List.mem_cons] at hb
    rcases hb with rfl | hb
    · exact ⟨k, b :: t, hk, by simp⟩
    · obtain ⟨i, l, hl, hm⟩ := ih b hb
      by_cases hik : k = i
      · subst hik
        have hlt : k < ls.length := (List.getElem?_eq_some_iff.mp hk).1
        rw [List.getElem?_set_self hlt] at hl
        have : l = t := by simpa using hl.symm
        subst this
        exact ⟨k, a :: l, hk, by simp [hm]⟩
      · rw [List.getElem?_set_ne hik] at hl
        exact ⟨i, l, hl, hm⟩

/-- **Delivery theorem.** `keys[i]` is the peer's receiver for the i-th sending protocol and
    `ls[i]` the segments it sends, in order. For EVERY interleaving `w` of the senders
    (every schedule of goroutines serialised by the send mutex) and EVERY fragmentation
    `chunks` of the resulting byte stream, each registered receiver gets exactly its own
    protocol's payloads, unmodified and in send order, and the stream ends cleanly. -/
theorem delivery_intact (c : Cfg) (keys : List (Nat × Role)) (ls : List (List Seg))
    (w : List Seg) (chunks : List Bytes)
    (hlen : ls.length = keys.length) (hnd : keys.Nodup)
    (hid : ∀ k ∈ keys, k.1 < 32768)
    (hreg : ∀ k ∈ keys, k ∈ c.regs ∧ modeAllows c.mode k.2)
    (hseg : ∀ (i : Nat) (l : List Seg) (k : Nat × Role), ls[i]? = some l → keys[i]? = some k →
      ∀ s ∈ l, SegOk s ∧ s.pid = pidOf k)
    (hi : Interleaving ls w)
    (hc : chunks.flatten = w.flatMap encSeg) :
    (run c chunks).2 = End.eofHeader ∧
    ∀ (i : Nat) (l : List Seg) (k : Nat × Role), ls[i]? = some l → keys[i]? = some k →
      deliveredTo k (run c chunks).1 = l.map (·.payload) := by
  -- every element of the wire order comes from some sender
  have hw : ∀ s ∈ w, ∃ k ∈ keys, SegOk s ∧ s.pid = pidOf k := by
    intro s hs
    obtain ⟨i, l, hl, hm⟩ := interleaving_mem ls w hi s hs
    have hlt : i < ls.length := (List.getElem?_eq_some_iff.mp hl).1
    have hk : keys[i]? = some (keys[i]'(by omega)) := List.getElem?_eq_getElem (by omega)
    exact ⟨_, List.getElem_mem _, hseg i l _ hl hk s hm⟩
  have hparse : (feedAll RState.init chunks).result = (w, End.eofHeader) := by
    rw [frag_invariant, hc]
    exact roundtrip w (fun s hs => by obtain ⟨k, _, h, _⟩ := hw s hs; exact h)
  have hroute : routeAll c w =
      (w.map (fun s => ((getProtocolId s.pid, roleOf s.pid), s.payload)), none) := by
    apply routeAll_all_deliver c w (fun s => (getProtocolId s.pid, roleOf s.pid))
    intro s hs
    obtain ⟨k, hk, _, hp⟩ := hw s hs
    have := routing_complete c k.1 k.2 (hid k hk) (hreg k hk).1 (hreg k hk).2
    rw [hp, pidOf_key k (hid k hk)]
    exact this
  have hrun : run c chunks =
      (w.map (fun s => ((getProtocolId s.pid, roleOf s.pid), s.payload)), End.eofHeader) := by
    unfold run
    simp only [hparse, hroute]
  rw [hrun]
  refine ⟨rfl, ?_⟩
  intro i l k hl hk
  -- per-protocol order from the interleaving
  let p : Nat → Seg → Bool := fun j s =>
    match keys[j]? with
    | some kj => (getProtocolId s.pid, roleOf s.pid) == kj
    | none => false
  have hown : ∀ (i : Nat) (l : List Seg), ls[i]? = some l → ∀ a ∈ l, ∀ j, p j a = true ↔ j = i := by
    intro i' l' hl' a ha j
    have hlt : i' < ls.length := (List.getElem?_eq_some_iff.mp hl').1
    have hk' : keys[i']? = some (keys[i']'(by omega)) := List.getElem?_eq_getElem (by omega)
    have hs := hseg i' l' _ hl' hk' a ha
    have hkey : (getProtocolId a.pid, roleOf a.pid) = keys[i']'(by omega) := by
      rw [hs.2]; exact pidOf_key _ (hid _ (List.getElem_mem _))
    constructor
    · intro hp
      simp only [p] at hp
      split at hp
      · rename_i kj hj
        have hjlt : j < keys.length := (List.getElem?_eq_some_iff.mp hj).1
        have : keys[j]'hjlt = keys[i']'(by omega) := by
          have h1 := (List.getElem?_eq_some_iff.mp hj).2
          rw [h1, ← hkey]; exact (by simpa using hp : (getProtocolId a.pid, roleOf a.pid) = kj).symm
        exact (List.getElem_inj hnd).mp this
      · simp at hp
    · rintro rfl
      simp only [p, hk']
      simpa using hkey
  have hf := interleaving_filter p ls w hi hown i l hl
  unfold deliveredTo
  rw [List.filter_map, List.map_map]
  have : (w.filter ((fun d : Delivery => d.1 == k) ∘ fun s => ((getProtocolId s.pid, roleOf s.pid), s.payload)))
      = w.filter (p i) := by
    apply List.filter_congr
    intro s _
    simp [p, hk]
  rw [this, hf]
  rfl


/-! ### Non-vacuity -/

/-- Two segments for two receivers, the stream cut in the middle of a header and of a
    payload: both are delivered, each to its own receiver. -/
example : run ⟨3, [(2, .responder), (3, .initiator)]⟩
      [[0, 0, 0, 0, 0, 2], [0, 1, 7, 0, 0, 0, 0, 0x80, 3, 0, 2], [8, 9]] =
    ([((2, .responder), [7]), ((3, .initiator), [8, 9])], End.eofHeader) := by decide

/-- A zero-length header after a good segment: the good one is delivered, then the error. -/
example : run ⟨3, [(2, .responder)]⟩ [[0, 0, 0, 0, 0, 2, 0, 1, 7, 0, 0, 0, 0, 0, 2, 0, 0, 5]] =
    ([((2, .responder), [7])], End.zeroLen) := by decide

-- Unregistered protocol / wrong direction / initiator-only mode.
set_option maxRecDepth 8192 in
example : (run ⟨3, [(2, .responder)]⟩ [[0, 0, 0, 0, 0, 3, 0, 1, 7]]).2 = End.unknownProto 3 := by decide
set_option maxRecDepth 8192 in
example : (run ⟨3, [(2, .responder)]⟩ [[0, 0, 0, 0, 0x80, 2, 0, 1, 7]]).2 = End.unknownProto 2 := by decide
example : (run ⟨1, [(2, .responder)]⟩ [[0, 0, 0, 0, 0, 2, 0, 1, 7]]).2 = End.fromInitiator := by decide

/-- The hypotheses of `delivery_intact` are met by a concrete two-sender interleaving. -/
example : ∃ (w : List Seg),
    Interleaving [[(⟨0, 2, [1]⟩ : Seg), ⟨0, 2, [2]⟩], [⟨0, 32771, [9]⟩]] w ∧
    w = [⟨0, 2, [1]⟩, ⟨0, 32771, [9]⟩, ⟨0, 2, [2]⟩] ∧
    pidOf (2, Role.responder) = 2 ∧ pidOf (3, Role.initiator) = 32771 := by
  refine ⟨_, ?_, rfl, by decide, by decide⟩
  refine Interleaving.pick _ 0 (⟨0, 2, [1]⟩ : Seg) [⟨0, 2, [2]⟩] _ rfl ?_
  refine Interleaving.pick _ 1 (⟨0, 32771, [9]⟩ : Seg) [] _ rfl ?_
  refine Interleaving.pick _ 0 (⟨0, 2, [2]⟩ : Seg) [] _ rfl ?_
  exact Interleaving.done _ (by simp)

example : newSegment 0 2 (List.replicate 65535 0) true = some ⟨0, 32770, List.replicate 65535 0⟩ ∧
    newSegment 0 2 (List.replicate 65536 0) true = none := by
  unfold newSegment maxPayload respFlag GV.Gen.Limits.segmentMaxPayloadLength
    GV.Gen.Limits.segmentProtocolIdResponseFlag
  simp only [List.length_replicate]
  constructor
  · rw [if_neg (by omega)]; rfl
  · rw [if_pos (by omega)]

/-! ### Regenerated tie: the header helpers translated from muxer/segment.go -/

theorem and_flag (pid : Nat) : pid &&& 32768 = if pid / 32768 % 2 = 1 then 32768 else 0 := by
  apply Nat.eq_of_testBit_eq
  intro i
  have h2 : (32768 : Nat) = 2 ^ 15 := by decide
  rw [Nat.testBit_and, h2, Nat.testBit_two_pow]
  by_cases hi : 15 = i
  · subst hi
    simp only [decide_true, Bool.and_true]
    rw [Nat.testBit_eq_decide_div_mod_eq]
    split
    · rename_i h; simp [h]; decide
    · rename_i h; simp [h]
  · simp only [hi, decide_false, Bool.and_false]
    split
    · simp [Nat.testBit_two_pow_of_ne hi]
    · simp

theorem gen_isResponse_eq (pid : Nat) (h : pid < 65536) :
    GV.Gen.GoLite.segIsResponse (pid : Int) = isResponse pid := by
  unfold GV.Gen.GoLite.segIsResponse isResponse respFlag GV.Gen.Limits.segmentProtocolIdResponseFlag
  have e : (32768 : Int).toNat = 32768 := rfl
  simp only [Int.toNat_natCast, e, and_flag]
  by_cases hp : pid ≥ 32768
  · have : pid / 32768 % 2 = 1 := by omega
    simp [this, hp]
  · have : ¬ (pid / 32768 % 2 = 1) := by omega
    simp [this, hp]

theorem gen_isRequest_eq (pid : Nat) (h : pid < 65536) :
    GV.Gen.GoLite.segIsRequest (pid : Int) = isRequest pid := by
  unfold GV.Gen.GoLite.segIsRequest isRequest respFlag GV.Gen.Limits.segmentProtocolIdResponseFlag
  have e : (32768 : Int).toNat = 32768 := rfl
  simp only [Int.toNat_natCast, e, and_flag]
  by_cases hp : pid ≥ 32768
  · have : pid / 32768 % 2 = 1 := by omega
    simp [this]; omega
  · have : ¬ (pid / 32768 % 2 = 1) := by omega
    simp [this]; omega

theorem gen_getProtocolId_eq (pid : Nat) (h : pid < 65536) :
    GV.Gen.GoLite.segGetProtocolId (pid : Int) = (getProtocolId pid : Int) := by
  unfold GV.Gen.GoLite.segGetProtocolId getProtocolId respFlag GV.Gen.Limits.segmentProtocolIdResponseFlag GV.Gen.GoLite.wrapU
  by_cases hp : pid ≥ 32768
  · have h1 : (pid : Int) ≥ 32768 := by omega
    simp only [h1, decide_true, ↓reduceIte, hp]
    omega
  · have h1 : ¬ ((pid : Int) ≥ 32768) := by omega
    simp [h1, hp]

end GV.Props.C09
