import GV.Model.Muxer
import GV.Proofs.Muxer
import GV.Gen.GoLite
/-!
C09 — The muxer delivers each byte stream intact to the right endpoint.

Segments written by any number of concurrently sending mini-protocols reach the peer with
their payloads unmodified, in per-protocol send order, and are delivered only to the
receiver registered for that protocol number and direction, regardless of how the
underlying connection fragments the byte stream. No segment carries more than 65535
payload bytes, and a received zero-length segment or a segment for an unregistered
protocol closes the connection with an error.
-/
namespace GV.Props.C09
open GV.Model.Muxer GV.Proofs.Muxer

/-- Fragmentation invariance: whatever chunks the connection's reads return, the
    incremental reader produces the reference parse of the concatenated stream. -/
theorem frag_invariant (chunks : List Bytes) :
    (feedAll RState.init chunks).result = parse chunks.flatten := by
  have h : feedAll RState.init chunks = feed RState.init chunks.flatten := by
    unfold feedAll feed
    rw [List.foldl_flatten]
  rw [h]
  have := feed_eq_parse chunks.flatten []
  simpa [RState.init, Phase.init] using this

/-- Two fragmentations of the same stream are indistinguishable. -/
theorem frag_irrelevant (c1 c2 : List Bytes) (h : c1.flatten = c2.flatten) (cfg : Cfg) :
    run cfg c1 = run cfg c2 := by
  simp only [run, frag_invariant, h]

/-- In particular the result for any fragmentation is the result for the unfragmented
    stream (the driver uses this to run the model once per stream instead of once per chunk). -/
theorem run_single (cfg : Cfg) (chunks : List Bytes) : run cfg chunks = run cfg [chunks.flatten] :=
  frag_irrelevant chunks [chunks.flatten] (by simp) cfg

/-- Framing round-trip: what `Send` writes for well-formed segments parses back to exactly
    those segments (payload bytes, protocol id field, order), ending at a clean boundary. -/
theorem roundtrip (segs : List Seg) (h : ∀ s ∈ segs, SegOk s) :
    parse (segs.flatMap encSeg) = (segs, End.eofHeader) := by
  have := parse_flatMap segs [] h
  simpa [parse_nil] using this

/-- `NewSegment` length guard: no segment with more than 65535 payload bytes is ever built,
    so the 16-bit length field always holds the true length. -/
theorem newSegment_len_guard (ts pid : Nat) (payload : Bytes) (r : Bool) :
    (payload.length > 65535 → newSegment ts pid payload r = none) ∧
    (∀ s, newSegment ts pid payload r = some s → s.payload = payload ∧ s.payload.length ≤ 65535) := by
  unfold newSegment maxPayload GV.Gen.Limits.segmentMaxPayloadLength
  constructor
  · intro h; simp [h]
  · intro s hs
    split at hs
    · simp at hs
    · simp only [Option.some.injEq] at hs
      subst hs; simp; omega

/-- Wire protocol-id field for a receiver key: the response bit is set exactly for
    segments addressed to an initiator. -/
def pidOf (k : Nat × Role) : Nat := if k.2 = Role.initiator then k.1 + 32768 else k.1

/-- What `NewSegment` puts in the header is `pidOf` of the peer's receiver key. -/
theorem newSegment_pid (ts id : Nat) (payload : Bytes) (r : Bool) (hid : id < 32768) (s : Seg)
    (h : newSegment ts id payload r = some s) :
    s.pid = pidOf (id, if r then Role.initiator else Role.responder) := by
  unfold newSegment at h
  split at h
  · simp at h
  · simp only [Option.some.injEq] at h
    subst h
    cases r <;> simp [pidOf, respFlag, GV.Gen.Limits.segmentProtocolIdResponseFlag]
    omega

def modeAllows (mode : Nat) (r : Role) : Prop :=
  ¬ (mode = 1 ∧ r = Role.responder) ∧ ¬ (mode = 2 ∧ r = Role.initiator)

theorem lookup_exact (c : Cfg) (id k : Nat) (role r : Role) (h : lookup c id role = .deliver k r) :
    hasKey c.regs k r = true ∧ r = role ∧
    (k = id ∨ (k = protocolUnknown ∧ hasId c.regs id = false)) := by
  unfold lookup at h
  by_cases a1 : hasId c.regs id = true
  · simp only [a1, ↓reduceIte] at h
    by_cases a2 : hasKey c.regs id role = true
    · simp only [a2, ↓reduceIte, Routed.deliver.injEq] at h
      obtain ⟨rfl, rfl⟩ := h
      exact ⟨a2, rfl, Or.inl rfl⟩
    · simp [a2] at h
  · simp only [a1, Bool.false_eq_true, ↓reduceIte] at h
    by_cases a3 : hasId c.regs protocolUnknown = true
    · simp only [a3, ↓reduceIte] at h
      by_cases a4 : hasKey c.regs protocolUnknown role = true
      · simp only [a4, ↓reduceIte, Routed.deliver.injEq] at h
        obtain ⟨rfl, rfl⟩ := h
        exact ⟨a4, rfl, Or.inr ⟨rfl, by simpa using a1⟩⟩
      · simp [a4] at h
    · simp [a3] at h

/-- Routing is exact: a segment is delivered only to a registered receiver whose role is
    the one the response bit designates, only in a diffusion mode that allows that
    direction, and only under its own protocol number (or the registered catch-all
    `ProtocolUnknown` receiver when the number has no receiver map at all). -/
theorem routing_exact (c : Cfg) (pid k : Nat) (r : Role) (h : route c pid = .deliver k r) :
    hasKey c.regs k r = true ∧ r = roleOf pid ∧ modeAllows c.mode r ∧
    (k = getProtocolId pid ∨
      (k = protocolUnknown ∧ hasId c.regs (getProtocolId pid) = false)) := by
  unfold route at h
  by_cases h1 : c.mode = 1 ∧ isResponse pid = false
  · simp [h1] at h
  · simp only [h1, ↓reduceIte] at h
    by_cases h2 : c.mode = 2 ∧ isResponse pid = true
    · simp [h2] at h
    · simp only [h2, ↓reduceIte] at h
      obtain ⟨hm, hr, hk⟩ := lookup_exact c _ k _ r h
      refine ⟨hm, hr, ?_, hk⟩
      subst hr
      unfold modeAllows roleOf
      cases hresp : isResponse pid <;> simp_all

theorem route_err_ne_eof (c : Cfg) (pid : Nat) (e : End) (h : route c pid = .err e) : e ≠ End.eofHeader := by
  unfold route at h
  by_cases h1 : c.mode = 1 ∧ isResponse pid = false
  · simp [h1] at h; subst h; simp
  · simp only [h1, ↓reduceIte] at h
    by_cases h2 : c.mode = 2 ∧ isResponse pid = true
    · simp [h2] at h; subst h; simp
    · simp only [h2, ↓reduceIte] at h
      unfold lookup at h
      repeat' split at h
      all_goals simp_all
      all_goals (subst h; simp)

theorem pidOf_key (k : Nat × Role) (hk : k.1 < 32768) :
    (getProtocolId (pidOf k), roleOf (pidOf k)) = k := by
  obtain ⟨id, r⟩ := k
  simp only at hk
  unfold getProtocolId roleOf isResponse pidOf respFlag GV.Gen.Limits.segmentProtocolIdResponseFlag
  cases r
  · have : ¬ (id + 32768 < 32768) := by omega
    simp
  · have : ¬ (id ≥ 32768) := by omega
    simp [this]

/-- Conversely a registered receiver gets every segment addressed to it when the mode
    allows the direction. -/
theorem hasKey_hasId (m : RegMap) (id : Nat) (r : Role) (h : hasKey m id r = true) :
    hasId m id = true := by
  unfold hasKey at h
  unfold hasId
  cases hr : rolesOf m id with
  | none => simp [hr] at h
  | some rs => rfl

theorem routing_complete (c : Cfg) (id : Nat) (r : Role) (hid : id < 32768)
    (hreg : hasKey c.regs id r = true) (hm : modeAllows c.mode r) :
    route c (pidOf (id, r)) = .deliver id r := by
  have hk := pidOf_key (id, r) hid
  simp only [Prod.mk.injEq] at hk
  have hany : hasId c.regs id = true := hasKey_hasId _ _ _ hreg
  have hresp : isResponse (pidOf (id, r)) = decide (r = Role.initiator) := by
    have := hk.2
    unfold roleOf at this
    cases hr : isResponse (pidOf (id, r)) <;> simp [hr] at this <;> simp [← this]
  unfold modeAllows at hm
  unfold route
  rw [hk.1, hk.2, hresp]
  unfold lookup
  simp only [hany, hreg, ↓reduceIte]
  cases r <;> simp_all

/-- A received zero-length segment closes the connection with an error, whatever follows
    and however the stream is fragmented; segments before it are unaffected. -/
theorem zero_len_closes (segs : List Seg) (h : ∀ s ∈ segs, SegOk s) (ts pid : Nat) (tail : Bytes)
    (hts : ts < 4294967296) (hpid : pid < 65536)
    (chunks : List Bytes)
    (hc : chunks.flatten = segs.flatMap encSeg ++ (be32 ts ++ be16 pid ++ be16 0 ++ tail)) :
    (feedAll RState.init chunks).result = (segs, End.zeroLen) := by
  rw [frag_invariant, hc, parse_flatMap segs _ h]
  have : parse (be32 ts ++ be16 pid ++ be16 0 ++ tail) = ([], End.zeroLen) := by
    rw [parse]
    have hlen8 : (be32 ts ++ be16 pid ++ be16 0).length = 8 := by simp [be32, be16]
    have hne : (be32 ts ++ be16 pid ++ be16 0 ++ tail).isEmpty = false := by simp [be32]
    have hl8 : ¬ (be32 ts ++ be16 pid ++ be16 0 ++ tail).length < 8 := by
      rw [List.length_append, hlen8]; omega
    simp only [hne, Bool.false_eq_true, ↓reduceIte, hl8, List.take_left' hlen8,
      hdrOf_enc ts pid 0 hts hpid (by omega)]
  rw [this]; simp

/-- A zero-length halt ends `run` with an error (never a clean end). -/
theorem routeAll_err_ne_eof (c : Cfg) (l : List Seg) : ∀ (ds : List Delivery) (e : End),
    routeAll c l = (ds, some e) → e ≠ End.eofHeader := by
  induction l with
  | nil => intro ds e h; simp [routeAll] at h
  | cons s t ih =>
    intro ds e h
    simp only [routeAll] at h
    cases hr : route c s.pid with
    | err e' =>
      simp only [hr, Prod.mk.injEq, Option.some.injEq] at h
      obtain ⟨_, rfl⟩ := h
      exact route_err_ne_eof c s.pid e' hr
    | deliver k r =>
      simp only [hr, Prod.mk.injEq] at h
      exact ih _ _ (Prod.ext rfl h.2)

theorem run_zero_len_is_error (c : Cfg) (chunks : List Bytes)
    (h : ((feedAll RState.init chunks).result).2 = End.zeroLen) :
    (run c chunks).2 ≠ End.eofHeader := by
  unfold run
  simp only
  cases hra : routeAll c (feedAll RState.init chunks).result.1 with
  | mk ds oe =>
    cases oe with
    | some e => simpa using routeAll_err_ne_eof c _ ds e hra
    | none => simp [h]

/-- A segment for an unregistered protocol (no receiver map for its number, no catch-all)
    is never delivered: it yields the `unknownProto` error, or a direction error. -/
theorem unregistered_closes (c : Cfg) (pid : Nat)
    (h1 : hasId c.regs (getProtocolId pid) = false) (h2 : hasId c.regs protocolUnknown = false) :
    ∃ e, route c pid = .err e := by
  unfold route lookup
  simp only [h1, h2]
  split
  · exact ⟨_, rfl⟩
  · split <;> exact ⟨_, rfl⟩

/-- A protocol number that has (or once had) a receiver but none for this role is an error
    too: there is no fall back to the catch-all. -/
theorem wrong_role_closes (c : Cfg) (pid : Nat)
    (h : hasKey c.regs (getProtocolId pid) (roleOf pid) = false)
    (h1 : hasId c.regs (getProtocolId pid) = true) :
    ∃ e, route c pid = .err e := by
  unfold route lookup
  simp only [h1, h]
  split
  · exact ⟨_, rfl⟩
  · split <;> exact ⟨_, rfl⟩

/-! ### Registrations are per (protocol, role); `UnregisterProtocol` removes exactly one -/

theorem rolesOf_setRoles_same (m : RegMap) (id : Nat) (rs : List Role) :
    rolesOf (setRoles m id rs) id = some rs := by
  induction m with
  | nil => simp [setRoles, rolesOf]
  | cons x t ih =>
    obtain ⟨i, r0⟩ := x
    by_cases h : i = id
    · simp [setRoles, rolesOf, h]
    · simp [setRoles, rolesOf, h, ih]

theorem rolesOf_setRoles_other (m : RegMap) (id id' : Nat) (rs : List Role) (hne : id' ≠ id) :
    rolesOf (setRoles m id rs) id' = rolesOf m id' := by
  induction m with
  | nil =>
    have : ¬ id = id' := fun h => hne h.symm
    simp [setRoles, rolesOf, this]
  | cons x t ih =>
    obtain ⟨i, r0⟩ := x
    by_cases h : i = id
    · subst h
      have : ¬ i = id' := fun h => hne h.symm
      simp [setRoles, rolesOf, this]
    · by_cases h2 : i = id'
      · subst h2
        simp [setRoles, rolesOf, hne]
      · simp [setRoles, rolesOf, h, h2, ih]

theorem unregister_some (m : RegMap) (id : Nat) (r : Role) (rs : List Role)
    (hr : rolesOf m id = some rs) :
    unregister m id r = if rs.contains r = true then setRoles m id (rs.filter (· != r)) else m := by
  unfold unregister; rw [hr]

theorem unregister_none (m : RegMap) (id : Nat) (r : Role) (hr : rolesOf m id = none) :
    unregister m id r = m := by
  unfold unregister; rw [hr]

theorem register_some (m : RegMap) (id : Nat) (r : Role) (rs : List Role)
    (hr : rolesOf m id = some rs) :
    register m id r = if rs.contains r = true then m else setRoles m id (r :: rs) := by
  unfold register; rw [hr]

theorem register_none (m : RegMap) (id : Nat) (r : Role) (hr : rolesOf m id = none) :
    register m id r = setRoles m id [r] := by
  unfold register; rw [hr]

theorem role_ne_contains (rs : List Role) (r r' : Role) (h : r' ≠ r) :
    (rs.filter (· != r)).contains r' = rs.contains r' := by
  induction rs with
  | nil => rfl
  | cons x t ih =>
    by_cases hx : x = r
    · subst hx
      have : ¬ (r' = x) := h
      simp [this]
    · have hx' : (x != r) = true := by simpa using hx
      simp only [List.filter_cons, hx', ↓reduceIte, List.contains_cons]
      rw [ih]

/-- `UnregisterProtocol(id, role)` removes that receiver … -/
theorem unregister_removes (m : RegMap) (id : Nat) (r : Role) :
    hasKey (unregister m id r) id r = false := by
  cases hr : rolesOf m id with
  | none => rw [unregister_none m id r hr]; simp [hasKey, hr]
  | some rs =>
    rw [unregister_some m id r rs hr]
    by_cases hc : rs.contains r = true
    · rw [if_pos hc]
      simp [hasKey, rolesOf_setRoles_same]
    · rw [if_neg hc]
      simp only [hasKey, hr]
      simpa using hc

/-- … and nothing else: every other (protocol, role) receiver — in particular the other role
    of the same protocol — stays registered or unregistered exactly as it was. -/
theorem unregister_keeps_others (m : RegMap) (id id' : Nat) (r r' : Role)
    (hne : id' ≠ id ∨ r' ≠ r) :
    hasKey (unregister m id r) id' r' = hasKey m id' r' := by
  cases hr : rolesOf m id with
  | none => rw [unregister_none m id r hr]
  | some rs =>
    rw [unregister_some m id r rs hr]
    by_cases hc : rs.contains r = true
    · rw [if_pos hc]
      by_cases hid : id' = id
      · subst hid
        have hrr : r' ≠ r := by
          rcases hne with h | h
          · exact absurd rfl h
          · exact h
        simp only [hasKey, rolesOf_setRoles_same, hr]
        exact role_ne_contains rs r r' hrr
      · simp only [hasKey, rolesOf_setRoles_other m id id' _ hid]
    · rw [if_neg hc]

/-- The protocol's receiver map itself survives `UnregisterProtocol`: afterwards a segment
    for the unregistered role is an error even when a catch-all receiver exists. -/
theorem unregister_keeps_id (m : RegMap) (id id' : Nat) (r : Role) :
    hasId (unregister m id r) id' = hasId m id' := by
  cases hr : rolesOf m id with
  | none => rw [unregister_none m id r hr]
  | some rs =>
    rw [unregister_some m id r rs hr]
    by_cases hc : rs.contains r = true
    · rw [if_pos hc]
      by_cases hid : id' = id
      · subst hid; simp [hasId, rolesOf_setRoles_same, hr]
      · simp only [hasId]; rw [rolesOf_setRoles_other m id id' _ hid]
    · rw [if_neg hc]

theorem unregistered_role_closes (mode : Nat) (m : RegMap) (id : Nat) (r : Role)
    (hid : id < 32768) (hwas : hasId m id = true) :
    ∃ e, route ⟨mode, unregister m id r⟩ (pidOf (id, r)) = .err e := by
  have hk := pidOf_key (id, r) hid
  simp only [Prod.mk.injEq] at hk
  apply wrong_role_closes
  · simp only [hk.1, hk.2]; exact unregister_removes m id r
  · simp only [hk.1]; rw [unregister_keeps_id]; exact hwas

theorem register_adds (m : RegMap) (id : Nat) (r : Role) : hasKey (register m id r) id r = true := by
  cases hr : rolesOf m id with
  | none => rw [register_none m id r hr]; simp [hasKey, rolesOf_setRoles_same]
  | some rs =>
    rw [register_some m id r rs hr]
    by_cases hc : rs.contains r = true
    · rw [if_pos hc]; simp only [hasKey, hr]; exact hc
    · rw [if_neg hc]; simp [hasKey, rolesOf_setRoles_same]

theorem register_keeps_others (m : RegMap) (id id' : Nat) (r r' : Role)
    (hne : id' ≠ id ∨ r' ≠ r) :
    hasKey (register m id r) id' r' = hasKey m id' r' := by
  have hrr : id' = id → r' ≠ r := by
    intro h
    rcases hne with h' | h'
    · exact absurd h h'
    · exact h'
  cases hr : rolesOf m id with
  | none =>
    rw [register_none m id r hr]
    by_cases hid : id' = id
    · subst hid
      have := hrr rfl
      simp only [hasKey, rolesOf_setRoles_same, hr]
      cases r <;> cases r' <;> simp_all
    · simp only [hasKey, rolesOf_setRoles_other m id id' _ hid]
  | some rs =>
    rw [register_some m id r rs hr]
    by_cases hc : rs.contains r = true
    · rw [if_pos hc]
    · rw [if_neg hc]
      by_cases hid : id' = id
      · subst hid
        have := hrr rfl
        simp only [hasKey, rolesOf_setRoles_same, hr, List.contains_cons]
        cases r <;> cases r' <;> simp_all
      · simp only [hasKey, rolesOf_setRoles_other m id id' _ hid]

/-- **The machine with run-time registration changes, restricted to reads, is `run`.** Hence
    `delivery_intact`, `frag_irrelevant`, … hold verbatim for `runActs` on every stretch of
    reads between two registration changes. -/
theorem runActs_data (c : Cfg) (chunks : List Bytes) :
    runActs c.mode c.regs (chunks.map Act.data) = run c chunks := by
  have hinit : MState.init c.regs = mstateOf c RState.init := by
    simp [mstateOf, MState.init, RState.init, routeAll, Phase.init]
  unfold runActs
  rw [hinit, fold_data_mstateOf c chunks RState.init]
  unfold run mstateOf RState.result
  simp only
  cases hra : routeAll c (feedAll RState.init chunks).rout.reverse with
  | mk ds oe =>
    cases oe with
    | some e => simp
    | none =>
      by_cases hP : (feedAll RState.init chunks).phase = Phase.halted
      · simp [hP, endOf]
      · simp [hP]

/-- Registration changes do not touch what has been read or delivered. -/
theorem act_reg_unreg_keep (mode : Nat) (s : MState) (id : Nat) (r : Role) :
    (MState.act mode s (.unreg id r)).rout = s.rout ∧ (MState.act mode s (.unreg id r)).phase = s.phase ∧
    (MState.act mode s (.reg id r)).rout = s.rout ∧ (MState.act mode s (.reg id r)).phase = s.phase := by
  simp [MState.act]

theorem interleaving_mem {α : Type} (ls : List (List α)) (w : List α) (hi : Interleaving ls w) :
    ∀ a ∈ w, ∃ (i : Nat) (l : List α), ls[i]? = some l ∧ a ∈ l := by
  induction hi with
  | done ls _ => intro a ha; simp at ha
  | pick ls k a t w hk _ ih =>
    intro b hb
    simp only [List.mem_cons] at hb
    rcases hb with rfl | hb
    · exact ⟨k, b :: t, hk, by simp⟩
    · obtain ⟨i, l, hl, hm⟩ := ih b hb
      by_cases hik : k = i
      · subst hik
        have hlt : k < ls.length := (List.getElem?_eq_some_iff.mp hk).1
        rw [List.getElem?_set_self hlt] at hl
        have : l = t := by simpa using hl.symm
        subst this
        exact ⟨k, a :: l, hk, by simp [hm]⟩
      · rw [List.getElem?_set_ne hik] at hl
        exact ⟨i, l, hl, hm⟩

/-- **Delivery theorem.** `keys[i]` is the peer's receiver for the i-th sending protocol and
    `ls[i]` the segments it sends, in order. For EVERY interleaving `w` of the senders
    (every schedule of goroutines serialised by the send mutex) and EVERY fragmentation
    `chunks` of the resulting byte stream, each registered receiver gets exactly its own
    protocol's payloads, unmodified and in send order, and the stream ends cleanly. -/
theorem delivery_intact (c : Cfg) (keys : List (Nat × Role)) (ls : List (List Seg))
    (w : List Seg) (chunks : List Bytes)
    (hlen : ls.length = keys.length) (hnd : keys.Nodup)
    (hid : ∀ k ∈ keys, k.1 < 32768)
    (hreg : ∀ k ∈ keys, hasKey c.regs k.1 k.2 = true ∧ modeAllows c.mode k.2)
    (hseg : ∀ (i : Nat) (l : List Seg) (k : Nat × Role), ls[i]? = some l → keys[i]? = some k →
      ∀ s ∈ l, SegOk s ∧ s.pid = pidOf k)
    (hi : Interleaving ls w)
    (hc : chunks.flatten = w.flatMap encSeg) :
    (run c chunks).2 = End.eofHeader ∧
    ∀ (i : Nat) (l : List Seg) (k : Nat × Role), ls[i]? = some l → keys[i]? = some k →
      deliveredTo k (run c chunks).1 = l.map (·.payload) := by
  -- every element of the wire order comes from some sender
  have hw : ∀ s ∈ w, ∃ k ∈ keys, SegOk s ∧ s.pid = pidOf k := by
    intro s hs
    obtain ⟨i, l, hl, hm⟩ := interleaving_mem ls w hi s hs
    have hlt : i < ls.length := (List.getElem?_eq_some_iff.mp hl).1
    have hk : keys[i]? = some (keys[i]'(by omega)) := List.getElem?_eq_getElem (by omega)
    exact ⟨_, List.getElem_mem _, hseg i l _ hl hk s hm⟩
  have hparse : (feedAll RState.init chunks).result = (w, End.eofHeader) := by
    rw [frag_invariant, hc]
    exact roundtrip w (fun s hs => by obtain ⟨k, _, h, _⟩ := hw s hs; exact h)
  have hroute : routeAll c w =
      (w.map (fun s => ((getProtocolId s.pid, roleOf s.pid), s.payload)), none) := by
    apply routeAll_all_deliver c w (fun s => (getProtocolId s.pid, roleOf s.pid))
    intro s hs
    obtain ⟨k, hk, _, hp⟩ := hw s hs
    have := routing_complete c k.1 k.2 (hid k hk) (hreg k hk).1 (hreg k hk).2
    rw [hp, pidOf_key k (hid k hk)]
    exact this
  have hrun : run c chunks =
      (w.map (fun s => ((getProtocolId s.pid, roleOf s.pid), s.payload)), End.eofHeader) := by
    unfold run
    simp only [hparse, hroute]
  rw [hrun]
  refine ⟨rfl, ?_⟩
  intro i l k hl hk
  -- per-protocol order from the interleaving
  let p : Nat → Seg → Bool := fun j s =>
    match keys[j]? with
    | some kj => (getProtocolId s.pid, roleOf s.pid) == kj
    | none => false
  have hown : ∀ (i : Nat) (l : List Seg), ls[i]? = some l → ∀ a ∈ l, ∀ j, p j a = true ↔ j = i := by
    intro i' l' hl' a ha j
    have hlt : i' < ls.length := (List.getElem?_eq_some_iff.mp hl').1
    have hk' : keys[i']? = some (keys[i']'(by omega)) := List.getElem?_eq_getElem (by omega)
    have hs := hseg i' l' _ hl' hk' a ha
    have hkey : (getProtocolId a.pid, roleOf a.pid) = keys[i']'(by omega) := by
      rw [hs.2]; exact pidOf_key _ (hid _ (List.getElem_mem _))
    constructor
    · intro hp
      simp only [p] at hp
      split at hp
      · rename_i kj hj
        have hjlt : j < keys.length := (List.getElem?_eq_some_iff.mp hj).1
        have : keys[j]'hjlt = keys[i']'(by omega) := by
          have h1 := (List.getElem?_eq_some_iff.mp hj).2
          rw [h1, ← hkey]; exact (by simpa using hp : (getProtocolId a.pid, roleOf a.pid) = kj).symm
        exact (List.getElem_inj hnd).mp this
      · simp at hp
    · rintro rfl
      simp only [p, hk']
      simpa using hkey
  have hf := interleaving_filter p ls w hi hown i l hl
  unfold deliveredTo
  rw [List.filter_map, List.map_map]
  have : (w.filter ((fun d : Delivery => d.1 == k) ∘ fun s => ((getProtocolId s.pid, roleOf s.pid), s.payload)))
      = w.filter (p i) := by
    apply List.filter_congr
    intro s _
    simp [p, hk]
  rw [this, hf]
  rfl


/-! ### Non-vacuity -/

/-- Two segments for two receivers, the stream cut in the middle of a header and of a
    payload: both are delivered, each to its own receiver. -/
example : run ⟨3, [(2, [.responder]), (3, [.initiator])]⟩
      [[0, 0, 0, 0, 0, 2], [0, 1, 7, 0, 0, 0, 0, 0x80, 3, 0, 2], [8, 9]] =
    ([((2, .responder), [7]), ((3, .initiator), [8, 9])], End.eofHeader) := by decide

/-- A zero-length header after a good segment: the good one is delivered, then the error. -/
example : run ⟨3, [(2, [.responder])]⟩ [[0, 0, 0, 0, 0, 2, 0, 1, 7, 0, 0, 0, 0, 0, 2, 0, 0, 5]] =
    ([((2, .responder), [7])], End.zeroLen) := by decide

-- Unregistered protocol / wrong direction / initiator-only mode.
set_option maxRecDepth 8192 in
example : (run ⟨3, [(2, [.responder])]⟩ [[0, 0, 0, 0, 0, 3, 0, 1, 7]]).2 = End.unknownProto 3 := by decide
set_option maxRecDepth 8192 in
example : (run ⟨3, [(2, [.responder])]⟩ [[0, 0, 0, 0, 0x80, 2, 0, 1, 7]]).2 = End.unknownProto 2 := by decide
example : (run ⟨1, [(2, [.responder])]⟩ [[0, 0, 0, 0, 0, 2, 0, 1, 7]]).2 = End.fromInitiator := by decide

/-- Unregistering the responder of protocol 2 while the connection runs: the initiator of the
    same protocol keeps receiving; a later segment for the removed role is an error. -/
example : runActs 3 [(2, [.initiator, .responder])]
      [.data [0, 0, 0, 0, 0, 2, 0, 1, 1], .unreg 2 .responder, .data [0, 0, 0, 0, 0x80, 2, 0, 1, 2]] =
    ([((2, .responder), [1]), ((2, .initiator), [2])], End.eofHeader) := by decide

set_option maxRecDepth 8192 in
example : runActs 3 [(2, [.initiator, .responder])]
      [.unreg 2 .responder, .data [0, 0, 0, 0, 0x80, 2, 0, 1, 2, 0, 0, 0, 0, 0, 2, 0, 1, 1]] =
    ([((2, .initiator), [2])], End.unknownProto 2) := by decide

/-- The hypotheses of `delivery_intact` are met by a concrete two-sender interleaving. -/
example : ∃ (w : List Seg),
    Interleaving [[(⟨0, 2, [1]⟩ : Seg), ⟨0, 2, [2]⟩], [⟨0, 32771, [9]⟩]] w ∧
    w = [⟨0, 2, [1]⟩, ⟨0, 32771, [9]⟩, ⟨0, 2, [2]⟩] ∧
    pidOf (2, Role.responder) = 2 ∧ pidOf (3, Role.initiator) = 32771 := by
  refine ⟨_, ?_, rfl, by decide, by decide⟩
  refine Interleaving.pick _ 0 (⟨0, 2, [1]⟩ : Seg) [⟨0, 2, [2]⟩] _ rfl ?_
  refine Interleaving.pick _ 1 (⟨0, 32771, [9]⟩ : Seg) [] _ rfl ?_
  refine Interleaving.pick _ 0 (⟨0, 2, [2]⟩ : Seg) [] _ rfl ?_
  exact Interleaving.done _ (by simp)

example : newSegment 0 2 (List.replicate 65535 0) true = some ⟨0, 32770, List.replicate 65535 0⟩ ∧
    newSegment 0 2 (List.replicate 65536 0) true = none := by
  unfold newSegment maxPayload respFlag GV.Gen.Limits.segmentMaxPayloadLength
    GV.Gen.Limits.segmentProtocolIdResponseFlag
  simp only [List.length_replicate]
  constructor
  · rw [if_neg (by omega)]; rfl
  · rw [if_pos (by omega)]

/-! ### Regenerated tie: the header helpers translated from muxer/segment.go -/

theorem and_flag (pid : Nat) : pid &&& 32768 = if pid / 32768 % 2 = 1 then 32768 else 0 := by
  apply Nat.eq_of_testBit_eq
  intro i
  have h2 : (32768 : Nat) = 2 ^ 15 := by decide
  rw [Nat.testBit_and, h2, Nat.testBit_two_pow]
  by_cases hi : 15 = i
  · subst hi
    simp only [decide_true, Bool.and_true]
    rw [Nat.testBit_eq_decide_div_mod_eq]
    split
    · rename_i h; simp [h]; decide
    · rename_i h; simp [h]
  · simp only [hi, decide_false, Bool.and_false]
    split
    · simp [Nat.testBit_two_pow_of_ne hi]
    · simp

theorem gen_isResponse_eq (pid : Nat) (h : pid < 65536) :
    GV.Gen.GoLite.segIsResponse (pid : Int) = isResponse pid := by
  unfold GV.Gen.GoLite.segIsResponse isResponse respFlag GV.Gen.Limits.segmentProtocolIdResponseFlag
  have e : (32768 : Int).toNat = 32768 := rfl
  simp only [Int.toNat_natCast, e, and_flag]
  by_cases hp : pid ≥ 32768
  · have : pid / 32768 % 2 = 1 := by omega
    simp [this, hp]
  · have : ¬ (pid / 32768 % 2 = 1) := by omega
    simp [this, hp]

theorem gen_isRequest_eq (pid : Nat) (h : pid < 65536) :
    GV.Gen.GoLite.segIsRequest (pid : Int) = isRequest pid := by
  unfold GV.Gen.GoLite.segIsRequest isRequest respFlag GV.Gen.Limits.segmentProtocolIdResponseFlag
  have e : (32768 : Int).toNat = 32768 := rfl
  simp only [Int.toNat_natCast, e, and_flag]
  by_cases hp : pid ≥ 32768
  · have : pid / 32768 % 2 = 1 := by omega
    simp [this]; omega
  · have : ¬ (pid / 32768 % 2 = 1) := by omega
    simp [this]; omega

theorem gen_getProtocolId_eq (pid : Nat) (h : pid < 65536) :
    GV.Gen.GoLite.segGetProtocolId (pid : Int) = (getProtocolId pid : Int) := by
  unfold GV.Gen.GoLite.segGetProtocolId getProtocolId respFlag GV.Gen.Limits.segmentProtocolIdResponseFlag GV.Gen.GoLite.wrapU
  by_cases hp : pid ≥ 32768
  · have h1 : (pid : Int) ≥ 32768 := by omega
    simp only [h1, decide_true, ↓reduceIte, hp]
    omega
  · have h1 : ¬ ((pid : Int) ≥ 32768) := by omega
    simp [h1, hp]

end GV.Props.C09
