import GV.Spec.Conformance
/-!
  C16 — Mini-protocol state machines match the network specification.

  `GV.Gen.StateMaps` is regenerated on every check from the running code (real client /
  server constructors, the engine's own `nextState` on real message values).  The theorems
  below are about those generated definitions: a changed state map entry, agency, successor,
  match function or codec switch breaks `conforms_all` (or `covers_every_machine` when a
  protocol/mode is added or removed).
-/
namespace GV.Props.C16
open GV.SM GV.Spec.Conformance

/-- The full statement: every protocol / mode / role / version range the implementation has is
    listed with a specification automaton, and conforms to it. -/
def C16_full : Prop :=
  table.map (·.impl.name) = GV.Gen.StateMaps.all.map (·.name) ∧
  ∀ e ∈ table, conforms e = true

/-- every generated machine (protocol × mode × role) is compared with a specification -/
theorem covers_every_machine :
    table.map (·.impl.name) = GV.Gen.StateMaps.all.map (·.name) := by decide

/-- isomorphism + completeness + decodability, decided on the generated tables, for everything
    except the recorded finding (local-tx-monitor at NodeToClientV_20+) -/
theorem conforms_all : ∀ e ∈ tableOk, conforms e = true := by decide

/-- what holds of the full statement -/
theorem C16_partial :
    table.map (·.impl.name) = GV.Gen.StateMaps.all.map (·.name) ∧
    ∀ e ∈ table, isV20 e = false → conforms e = true := by
  refine ⟨covers_every_machine, ?_⟩
  intro e he hv
  apply conforms_all e
  unfold tableOk
  simp [List.mem_filter, he, hv]

/-- the recorded finding: the implementation does not conform to the NodeToClientV_20+
    local-tx-monitor — the specification accepts Acquire, Acquired, GetMeasures; the
    implementation (which negotiates versions up to 21) refuses the third message -/
theorem ltm_v20_witness :
    GV.Spec.Automata.localTxMonitorV20.accepts [⟨1, 0⟩, ⟨2, 0⟩, ⟨11, 0⟩] = true ∧
    GV.Gen.StateMaps.localtxmonitor_v20_client.accepts [⟨1, 0⟩, ⟨2, 0⟩, ⟨11, 0⟩] = false ∧
    GV.Gen.StateMaps.localtxmonitor_v20_server.accepts [⟨1, 0⟩, ⟨2, 0⟩, ⟨11, 0⟩] = false ∧
    (table.filter isV20).all (fun e => !conforms e) = true ∧ (table.filter isV20).length = 2 := by decide

theorem C16_full_false : ¬ C16_full := by
  intro h
  have hm : (⟨GV.Gen.StateMaps.localtxmonitor_v20_client, GV.Spec.Automata.localTxMonitorV20, relLtm⟩ : Entry) ∈ table := by
    have h' : table[20]'(by decide) = ⟨GV.Gen.StateMaps.localtxmonitor_v20_client, GV.Spec.Automata.localTxMonitorV20, relLtm⟩ := rfl
    rw [← h']; exact List.getElem_mem _
  have := h.2 _ hm
  revert this
  decide

theorem conforms_iso {e : Entry} (h : conforms e = true) : isoCheck e.impl e.spec e.rel = true := by
  unfold conforms at h
  simp only [Bool.and_eq_true] at h
  exact h.1.1.1.1.1

/-- Language equality with the specification for traces of EVERY length, for every protocol,
    mode and role; and the states reached correspond under the bijection. -/
theorem language_eq : ∀ e ∈ tableOk, ∀ tr : List Sym,
    e.impl.accepts tr = e.spec.accepts tr ∧
    relOut e.rel (e.impl.run e.impl.init tr) (e.spec.run e.spec.init tr) :=
  fun e he tr => iso_language_eq (conforms_iso (conforms_all e he)) tr

/-- Agency (hence also "terminal") agrees in corresponding states. -/
theorem agency_eq : ∀ e ∈ tableOk, ∀ p q, (p, q) ∈ e.rel → e.impl.agencyOf p = e.spec.agencyOf q :=
  fun e he _ _ hpq => iso_agency (conforms_iso (conforms_all e he)) hpq

/-- every message type the state machine permits is one the codec can decode — for EVERY
    generated machine (including the ones of the recorded finding); `decodable` is the set of
    types the protocol's own NewMsgFromCbor accepted when the table was regenerated -/
theorem permitted_decodable : ∀ e ∈ table, ∀ t ∈ e.impl.trans, t.sym.msg ∈ e.impl.decodable := by
  decide

/-! ### a reply is accepted only in response to the request kind it answers -/

theorem findTr_some_mem {ts : List Tr} {s : Nat} {a : Sym} {d : Nat}
    (h : findTr ts s a = some d) : ⟨s, a, d⟩ ∈ ts := by
  induction ts with
  | nil => simp [findTr] at h
  | cons t rest ih =>
    simp only [findTr] at h
    split at h
    · rename_i hc
      obtain ⟨h1, h2⟩ := hc
      cases t
      simp_all
    · exact List.mem_cons_of_mem _ (ih h)

theorem run_append (m : Machine) (s : Nat) (xs ys : List Sym) :
    m.run s (xs ++ ys) = (m.run s xs).bind (fun s' => m.run s' ys) := by
  induction xs generalizing s with
  | nil => simp [Machine.run]
  | cons a rest ih =>
    simp only [List.cons_append, Machine.run]
    cases h : m.step s a with
    | none => simp
    | some s' => simp [ih]

open GV.Spec.Automata in
/-- In the specification of local-tx-monitor a `HasTx` request followed by a `ReplyNextTx`
    is refused after ANY prefix. -/
theorem spec_ltm_reply_kind (pre : List Sym) :
    localTxMonitor.accepts (pre ++ [⟨7, 0⟩, ⟨6, 0⟩]) = false := by
  unfold Machine.accepts
  rw [run_append]
  cases h : localTxMonitor.run localTxMonitor.init pre with
  | none => simp
  | some s =>
    simp only [Option.bind_some, Machine.run]
    cases h1 : localTxMonitor.step s ⟨7, 0⟩ with
    | none => simp
    | some d =>
      have hm := findTr_some_mem h1
      have hd : d = 5 := by
        have : ∀ t ∈ localTxMonitor.trans, t.sym = (⟨7, 0⟩ : Sym) → t.dst = 5 := by decide
        exact this _ hm rfl
      subst hd
      have : localTxMonitor.step 5 ⟨6, 0⟩ = none := by decide
      simp [this]

/-- … and therefore so it is in the implementation (client and server), for any prefix:
    `ReplyNextTx` is never accepted as the answer to `HasTx`. -/
theorem reply_matches_request_ltm (pre : List Sym) :
    GV.Gen.StateMaps.localtxmonitor_client.accepts (pre ++ [⟨7, 0⟩, ⟨6, 0⟩]) = false ∧
    GV.Gen.StateMaps.localtxmonitor_server.accepts (pre ++ [⟨7, 0⟩, ⟨6, 0⟩]) = false := by
  have mc : (⟨GV.Gen.StateMaps.localtxmonitor_client, GV.Spec.Automata.localTxMonitor, relLtm⟩ : Entry) ∈ tableOk := by
    have h : tableOk[18]'(by decide) = ⟨GV.Gen.StateMaps.localtxmonitor_client, GV.Spec.Automata.localTxMonitor, relLtm⟩ := rfl
    rw [← h]; exact List.getElem_mem _
  have ms : (⟨GV.Gen.StateMaps.localtxmonitor_server, GV.Spec.Automata.localTxMonitor, relLtm⟩ : Entry) ∈ tableOk := by
    have h : tableOk[19]'(by decide) = ⟨GV.Gen.StateMaps.localtxmonitor_server, GV.Spec.Automata.localTxMonitor, relLtm⟩ := rfl
    rw [← h]; exact List.getElem_mem _
  have hc := (language_eq _ mc (pre ++ [⟨7, 0⟩, ⟨6, 0⟩])).1
  have hs := (language_eq _ ms (pre ++ [⟨7, 0⟩, ⟨6, 0⟩])).1
  simp only at hc hs
  rw [hc, hs]
  exact ⟨spec_ltm_reply_kind pre, spec_ltm_reply_kind pre⟩

/-! ### non-vacuity -/
example : table.length = 38 ∧ tableOk.length = 36 := by decide
example : GV.Gen.StateMaps.chainsync_ntn_client.accepts [⟨0, 0⟩, ⟨1, 0⟩, ⟨2, 0⟩, ⟨7, 0⟩] = true := by decide
example : GV.Gen.StateMaps.chainsync_ntn_client.accepts [⟨0, 0⟩, ⟨5, 0⟩] = false := by decide
/-- the checker is not trivially true: a specification with one edge changed is rejected -/
example : isoCheck GV.Gen.StateMaps.keepalive_client
    { GV.Spec.Automata.keepAlive with trans := [⟨1, ⟨0, 0⟩, 2⟩, ⟨1, ⟨2, 0⟩, 3⟩, ⟨2, ⟨1, 0⟩, 3⟩] }
    (idRel [1, 2, 3]) = false := by decide

end GV.Props.C16
