import GV.Model.SyncLoop
import GV.Gen.ChainSyncEraMaps
import GV.Gen.ChainSyncLimits
/-!
C21 — Chain-sync delivers the server's chain updates faithfully.

Over **every schedule** (interleaving of reply handling, AwaitReply handling and
sync-loop iterations), every server history, every configured limit and every
pattern of callbacks asking to stop:
* callbacks are made once per server message, in the server's order (`callbacks_in_order`);
* requests sent and not yet answered never exceed `max(effective limit, 1)`
  (`outstanding_le_limit`), where limit 0 means the default (`effLimit`);
* the handler's signal to the sync loop always finds room in the buffered
  channel, so the receive loop is never blocked by it (`buffer_never_full`);
* while syncing, a quiet client always has a request outstanding
  (`always_one_outstanding`), and the number of requests it has issued is a
  function of the number of replies consumed alone (`sent_determined`).
-/
namespace GV.Props.C21
open GV.Model.SyncLoop

theorem default_regenerated : GV.Gen.ChainSyncEraMaps.defaultPipelineLimit = defaultPipelineLimit := by decide

theorem effLimit_pos (cfg : Nat) : 1 ≤ effLimit cfg := by
  unfold effLimit defaultPipelineLimit; split <;> omega

theorem batch_eff (cfg : Nat) : batch (effLimit cfg) = effLimit cfg := by
  have := effLimit_pos cfg
  unfold batch; omega

/-- the invariant, relative to the configured limit and the server's whole history -/
structure Inv (cfg : Nat) (hist : List Msg) (s : St) : Prop where
  limit_eq : s.limit = effLimit cfg
  handled_le : s.handled ≤ s.sent
  window : s.sent + s.sigs.length ≤ s.counter + 1 + s.handled
  counter_lt : s.counter + 1 ≤ batch s.limit
  loop_fn : (s.sent, s.counter) = loopState s.limit s.consumed
  running_eq : s.running = true → s.sent + s.sigs.length = s.counter + 1 + s.handled
  cbs_prefix : s.cbs ++ s.hist.map (·.tag) = hist.map (·.tag)
  cbs_len : s.cbs.length = s.handled

theorem inv_init (cfg : Nat) (hist : List Msg) : Inv cfg hist (St.init cfg hist) := by
  have := effLimit_pos cfg
  constructor <;> simp [St.init, loopState, batch] <;> omega

theorem inv_step (cfg : Nat) (hist : List Msg) (s s' : St) (a : Act)
    (h : Inv cfg hist s) (hs : step s a = some s') : Inv cfg hist s' := by
  have hpos : 1 ≤ batch s.limit := by unfold batch; omega
  cases a with
  | await => simp [step] at hs; subst hs; exact h
  | deliver =>
    unfold step at hs
    cases hh : s.hist with
    | nil => simp [hh] at hs
    | cons m rest =>
      simp only [hh] at hs
      split at hs
      · rename_i hc
        simp only [Option.some.injEq] at hs; subst hs
        obtain ⟨l1, l2, l3, l4, l5, l6, l7, l8⟩ := h
        constructor <;> simp only [List.length_append, List.length_cons, List.length_nil]
        · exact l1
        · omega
        · omega
        · exact l4
        · exact l5
        · intro hr; have := l6 hr; omega
        · rw [hh] at l7; simpa [List.append_assoc] using l7
        · omega
      · simp at hs
  | loop =>
    unfold step at hs
    by_cases hr : s.running = true
    · simp only [hr, ↓reduceIte] at hs
      cases hsig : s.sigs with
      | nil => simp [hsig] at hs
      | cons b rest =>
        obtain ⟨l1, l2, l3, l4, l5, l6, l7, l8⟩ := h
        have l6' := l6 hr
        rw [hsig] at l3 l6'
        simp only [List.length_cons] at l3 l6'
        cases b with
        | false =>
          simp only [hsig, Option.some.injEq] at hs; subst hs
          constructor <;> simp only
          · exact l1
          · exact l2
          · omega
          · exact l4
          · exact l5
          · intro hf; simp at hf
          · exact l7
          · exact l8
        | true =>
          simp only [hsig] at hs
          by_cases hc : s.counter > 0
          · simp only [hc, ↓reduceIte, Option.some.injEq] at hs; subst hs
            constructor <;> simp only
            · exact l1
            · exact l2
            · omega
            · omega
            · have : loopState s.limit (s.consumed + 1) = (s.sent, s.counter - 1) := by
                simp only [loopState, ← l5, hc, ↓reduceIte]
              rw [this]
            · intro _; omega
            · exact l7
            · exact l8
          · simp only [hc, ↓reduceIte, Option.some.injEq] at hs; subst hs
            have hc0 : s.counter = 0 := by omega
            constructor <;> simp only
            · exact l1
            · omega
            · omega
            · omega
            · have : loopState s.limit (s.consumed + 1) = (s.sent + batch s.limit, batch s.limit - 1) := by
                simp only [loopState, ← l5, hc, ↓reduceIte]
              rw [this]
            · intro _; omega
            · exact l7
            · exact l8
    · simp [hr] at hs

/-- the invariant holds in every state reachable under any schedule -/
theorem inv_run (cfg : Nat) (hist : List Msg) (sched : List Act) : ∀ s s' : St,
    Inv cfg hist s → run s sched = some s' → Inv cfg hist s' := by
  induction sched with
  | nil => intro s s' h hr; simp [run] at hr; subst hr; exact h
  | cons a t ih =>
    intro s s' h hr
    unfold run at hr
    cases hst : step s a with
    | none => simp [hst] at hr
    | some s1 => simp only [hst] at hr; exact ih s1 s' (inv_step cfg hist s s1 a h hst) hr

/-- **Pipelining bound.** Under every schedule, for every history and limit: the
    requests sent and not yet answered never exceed max(effective limit, 1). -/
theorem outstanding_le_limit (cfg : Nat) (hist : List Msg) (sched : List Act) (s : St)
    (h : run (St.init cfg hist) sched = some s) : s.outstanding ≤ max (effLimit cfg) 1 := by
  have hi := inv_run cfg hist sched _ s (inv_init cfg hist) h
  have h1 := hi.window
  have h2 := hi.counter_lt
  rw [hi.limit_eq] at h2
  unfold St.outstanding batch at *
  omega

/-- for the limits the configuration admits (0..100) that is at most 100 -/
theorem outstanding_le_100 (cfg : Nat) (hcfg : cfg ≤ 100) (hist : List Msg) (sched : List Act) (s : St)
    (h : run (St.init cfg hist) sched = some s) : s.outstanding ≤ 100 := by
  have := outstanding_le_limit cfg hist sched s h
  have : effLimit cfg ≤ 100 := by unfold effLimit defaultPipelineLimit; split <;> omega
  omega

/-- **Faithful delivery.** The callbacks made so far are exactly the first
    `handled` messages of the server's history, each once, in order. -/
theorem callbacks_in_order (cfg : Nat) (hist : List Msg) (sched : List Act) (s : St)
    (h : run (St.init cfg hist) sched = some s) :
    s.cbs = (hist.map (·.tag)).take s.handled ∧ s.cbs.length = s.handled := by
  have hi := inv_run cfg hist sched _ s (inv_init cfg hist) h
  refine ⟨?_, hi.cbs_len⟩
  rw [← hi.cbs_prefix, ← hi.cbs_len]
  simp

/-- The handler's send on `readyForNextBlockChan` never blocks: whenever the
    engine can hand over a reply, the buffered channel has room. -/
theorem buffer_never_full (cfg : Nat) (hist : List Msg) (sched : List Act) (s : St)
    (h : run (St.init cfg hist) sched = some s) (hout : s.handled < s.sent) :
    s.sigs.length < s.limit := by
  have hi := inv_run cfg hist sched _ s (inv_init cfg hist) h
  have h1 := hi.window
  have h2 := hi.counter_lt
  have h3 := hi.limit_eq
  have := effLimit_pos cfg
  unfold batch at h2
  omega

/-- hence delivery is enabled exactly when the server has something to say and a request is open -/
theorem deliver_enabled (cfg : Nat) (hist : List Msg) (sched : List Act) (s : St)
    (h : run (St.init cfg hist) sched = some s) (hout : s.handled < s.sent) (hmore : s.hist ≠ []) :
    (step s .deliver).isSome = true := by
  have := buffer_never_full cfg hist sched s h hout
  unfold step
  cases hh : s.hist with
  | nil => exact absurd hh hmore
  | cons m rest => simp [hout, this]

/-- While the sync loop runs and has nothing left to consume, a request is outstanding:
    the server can always make progress, the client never idles with nothing asked. -/
theorem always_one_outstanding (cfg : Nat) (hist : List Msg) (sched : List Act) (s : St)
    (h : run (St.init cfg hist) sched = some s) (hr : s.running = true) (hq : s.sigs = []) :
    1 ≤ s.outstanding := by
  have hi := inv_run cfg hist sched _ s (inv_init cfg hist) h
  have := hi.running_eq hr
  rw [hq] at this
  simp only [List.length_nil] at this
  unfold St.outstanding; omega

/-- The number of requests issued depends only on how many replies the sync loop
    has consumed — not on the schedule. -/
theorem sent_determined (cfg : Nat) (hist : List Msg) (sched : List Act) (s : St)
    (h : run (St.init cfg hist) sched = some s) :
    s.sent = (loopState (effLimit cfg) s.consumed).1 ∧ s.consumed ≤ s.handled := by
  have hi := inv_run cfg hist sched _ s (inv_init cfg hist) h
  have h5 := hi.loop_fn
  rw [hi.limit_eq] at h5
  refine ⟨by rw [← h5], ?_⟩
  -- consumed ≤ handled: a second small invariant
  have : ∀ (sched : List Act) (s0 s1 : St), s0.consumed + s0.sigs.length ≤ s0.handled →
      run s0 sched = some s1 → s1.consumed + s1.sigs.length ≤ s1.handled := by
    intro sched
    induction sched with
    | nil => intro s0 s1 h0 hr; simp [run] at hr; subst hr; exact h0
    | cons a t ih =>
      intro s0 s1 h0 hr
      unfold run at hr
      cases hst : step s0 a with
      | none => simp [hst] at hr
      | some s2 =>
        simp only [hst] at hr
        refine ih s2 s1 ?_ hr
        cases a with
        | await => simp [step] at hst; subst hst; exact h0
        | deliver =>
          unfold step at hst
          cases hh : s0.hist with
          | nil => simp [hh] at hst
          | cons m rest =>
            simp only [hh] at hst
            split at hst
            · simp only [Option.some.injEq] at hst; subst hst
              simp only [List.length_append, List.length_cons, List.length_nil]; omega
            · simp at hst
        | loop =>
          unfold step at hst
          by_cases hr' : s0.running = true
          · simp only [hr', ↓reduceIte] at hst
            cases hsig : s0.sigs with
            | nil => simp [hsig] at hst
            | cons b rest =>
              rw [hsig] at h0
              simp only [List.length_cons] at h0
              cases b with
              | false => simp only [hsig, Option.some.injEq] at hst; subst hst; simp only; omega
              | true =>
                simp only [hsig] at hst
                split at hst <;> (simp only [Option.some.injEq] at hst; subst hst; simp only; omega)
          · simp [hr'] at hst
  have := this sched (St.init cfg hist) s (by simp [St.init]) h
  omega

/-! ### stopping, and the sync loop's own sends, against the engine's bounded send queue

`Client.Stop` sends Done, and `syncLoop` sends its batch of RequestNext, through the
protocol engine's send queue. Its capacity and the maximum pipeline limit are
regenerated from the source (`GV.Gen.ChainSyncLimits`). Round 1 recorded the finding
`stop-sendqueue-full` (capacity 80 < limit 100: Stop blocked while holding its
lifecycle mutex); it is repaired by a queue that holds a whole batch plus Done. -/

/-- the regenerated numbers: the send queue holds a full pipelined batch and the Done message,
    and the default limit is the model's -/
theorem queue_holds_batch_and_done :
    GV.Gen.ChainSyncLimits.maxPipelineLimit + 1 ≤ GV.Gen.ChainSyncLimits.sendQueueCap ∧
    GV.Gen.ChainSyncLimits.defaultPipelineLimit = GV.Model.SyncLoop.defaultPipelineLimit ∧
    GV.Gen.ChainSyncLimits.defaultPipelineLimit ≤ GV.Gen.ChainSyncLimits.maxPipelineLimit ∧
    0 < GV.Gen.ChainSyncLimits.defaultPipelineDrainTimeoutNs := by decide

/-- full clause: whenever the client is stopped, Done finds room in the send queue behind
    every request not yet answered (an upper bound of those not yet on the wire) -/
def C21_stop_full : Prop :=
  ∀ cfg, cfg ≤ GV.Gen.ChainSyncLimits.maxPipelineLimit → ∀ (hist : List Msg) (sched : List Act) (s : St),
    run (St.init cfg hist) sched = some s →
    fitsQueue GV.Gen.ChainSyncLimits.sendQueueCap s.outstanding 1 = true

theorem eff_le_max (cfg : Nat) (h : cfg ≤ GV.Gen.ChainSyncLimits.maxPipelineLimit) :
    effLimit cfg ≤ GV.Gen.ChainSyncLimits.maxPipelineLimit := by
  have := queue_holds_batch_and_done
  unfold effLimit
  split
  · exact this.2.1 ▸ this.2.2.1
  · exact h

/-- **Stop never waits for room**: for every admissible limit, schedule and history. -/
theorem stop_done_fits : C21_stop_full := by
  intro cfg hcfg hist sched s h
  have h1 := outstanding_le_limit cfg hist sched s h
  have h2 := effLimit_pos cfg
  have h3 := eff_le_max cfg hcfg
  have h4 := queue_holds_batch_and_done.1
  unfold fitsQueue
  simp only [decide_eq_true_eq]
  omega

/-- the sync loop's batch always fits too (it sends only when nothing it sent before is
    unanswered beyond one request), so `syncLoop` never blocks in SendMessage holding busyMutex -/
theorem batch_fits (cfg : Nat) (hcfg : cfg ≤ GV.Gen.ChainSyncLimits.maxPipelineLimit) (hist : List Msg)
    (sched : List Act) (s : St) (h : run (St.init cfg hist) sched = some s)
    (hc : s.counter = 0) (hr : s.running = true) :
    fitsQueue GV.Gen.ChainSyncLimits.sendQueueCap s.outstanding (batch s.limit) = true := by
  have hi := inv_run cfg hist sched _ s (inv_init cfg hist) h
  have h1 := hi.window
  have h3 := eff_le_max cfg hcfg
  have h4 := queue_holds_batch_and_done.1
  have h5 := hi.limit_eq
  have h6 := effLimit_pos cfg
  unfold fitsQueue St.outstanding batch
  simp only [decide_eq_true_eq]
  omega

/-- what round 1 found: with the old capacity 80 and limit 100 the clause fails one reply in -/
theorem old_capacity_witness :
    ∃ (s : St), run (St.init 100 [⟨0, false⟩]) [.deliver, .loop] = some s ∧ fitsQueue 80 s.outstanding 1 = false := by
  exact ⟨_, rfl, by decide⟩

/-! ### with a block pipeline -/

/-- nothing is lost, duplicated or reordered between the receive loop, the pipeline and the callbacks -/
theorem pipeline_order_inv (sched : List PAct) : ∀ s s' : PSt, s.drains = true →
    (∀ t, .back t ∉ s.pending.map SrvMsg.fwd) →
    prun s sched = some s' →
    s'.log ++ s'.pending.map SrvMsg.fwd ++ s'.hist = s.log ++ s.pending.map SrvMsg.fwd ++ s.hist ∧ s'.drains = true := by
  induction sched with
  | nil => intro s s' hd _ h; simp [prun] at h; subst h; exact ⟨rfl, hd⟩
  | cons a t ih =>
    intro s s' hd hp h
    unfold prun at h
    cases hst : pstep s a with
    | none => simp [hst] at h
    | some s1 =>
      simp only [hst] at h
      have key : s1.log ++ s1.pending.map SrvMsg.fwd ++ s1.hist = s.log ++ s.pending.map SrvMsg.fwd ++ s.hist ∧
          s1.drains = true := by
        cases a with
        | handle =>
          simp only [pstep] at hst
          cases hh : s.hist with
          | nil => simp [hh] at hst
          | cons m r =>
            cases m with
            | fwd x =>
              simp only [hh, Option.some.injEq] at hst; subst hst
              simp [hd]
            | back x =>
              simp only [hh, hd, Bool.true_and] at hst
              cases hpe : s.pending with
              | nil =>
                simp only [hpe, List.isEmpty_nil, Bool.not_true, Bool.false_eq_true, ↓reduceIte,
                  Option.some.injEq] at hst
                subst hst; simp [hd, hpe]
              | cons y ys => simp [hpe] at hst
        | apply =>
          simp only [pstep] at hst
          cases hpe : s.pending with
          | nil => simp [hpe] at hst
          | cons y ys =>
            simp only [hpe, Option.some.injEq] at hst; subst hst
            simp [hd]
      have := ih s1 s' key.2 (by intro t ht; simp at ht) h
      exact ⟨this.1.trans key.1, this.2⟩

/-- **Faithful delivery with a block pipeline.** Under every schedule the sequence of applied
    roll-forwards and roll-backward callbacks is a prefix of the server's history: a
    roll-backward callback never overtakes a roll-forward still being applied. -/
theorem pipeline_callbacks_in_order (hist : List SrvMsg) (sched : List PAct) (s : PSt)
    (h : prun ⟨true, hist, [], []⟩ sched = some s) :
    ∃ rest, s.log ++ rest = hist := by
  have := (pipeline_order_inv sched ⟨true, hist, [], []⟩ s rfl (by intro t ht; simp at ht) h).1
  exact ⟨s.pending.map SrvMsg.fwd ++ s.hist, by simpa [List.append_assoc] using this⟩

/-- without the drain (what a skipped `WaitForDrain` gives) the rollback overtakes the block -/
theorem no_drain_overtakes_witness :
    (prun ⟨false, [.fwd 1, .back 2], [], []⟩ [.handle, .handle, .apply]).map (·.log) =
      some [.back 2, .fwd 1] := by decide
/-- with the drain that schedule is refused (the handler waits) and the only order is the server's -/
example : (prun ⟨true, [.fwd 1, .back 2], [], []⟩ [.handle, .handle, .apply]).isNone = true := by decide
example : (prun ⟨true, [.fwd 1, .back 2], [], []⟩ [.handle, .apply, .handle]).map (·.log) =
    some [.fwd 1, .back 2] := by decide

/-- closed form used by the harness for pacing: requests issued after j ≥ 1 replies
    with limit 3 are 4, 4, 4, 7, 7, 7, 10 … (checked on an initial segment) -/
example : (List.range 8).map (fun j => (loopState 3 j).1) = [1, 4, 4, 4, 7, 7, 7, 10] := by decide

/-- non-vacuity: a schedule that really runs (limit 2; three replies, the sync loop
    lagging behind), ending with 2 outstanding = the limit -/
example : (run (St.init 2 [⟨10, false⟩, ⟨11, false⟩, ⟨12, false⟩])
    [.deliver, .loop, .deliver, .deliver, .loop, .loop]).map
      (fun s => (s.sent, s.handled, s.cbs, s.outstanding)) = some (5, 3, [10, 11, 12], 2) := by decide
/-- … and delivery is refused when nothing is outstanding -/
example : run (St.init 1 [⟨1, false⟩, ⟨2, false⟩]) [.deliver, .deliver] = none := by decide

end GV.Props.C21
