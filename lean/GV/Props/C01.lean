import GV.Model.StoreCbor
import GV.Proofs.CborBytes
import GV.Model.PreserveTypes
/-!
C01 — Decoded blocks and transactions keep their exact wire bytes.

Clauses: (1) the stored encoding is exactly the byte range the object was decoded
from, whatever header forms / integer widths the input uses; (2) identifiers are the
digest of those bytes; (3) re-serialising an unmodified decoded object reproduces them.
(1) and (2) are theorems about the model below and hold on the real code for every
era (correspondence run). (3) holds in the model for the types that follow the
"return the stored bytes" MarshalCBOR pattern (`marshal`); the real code does NOT
follow that pattern for most transaction bodies, witness sets and outputs:
`C01_reencode_full` is refuted on the real code (known findings `reencode-body/wit/out`),
see `C01_reencode_partial`. Block headers Byron..Conway and the Byron blocks did not follow
it either; that was repaired (`headers_and_blocks_preserve`, regenerated from the source).
-/
namespace GV.Props.C01
open GV.Cbor GV.Model.Offsets GV.Model.StoreCbor

/-- **stored_is_span.** Whatever follows an item, and whatever header forms the item uses
    (the quantifier is "every byte string the well-formedness machine accepts"), the
    decoded object stores exactly the item's bytes. -/
theorem stored_is_span (item rest : Bytes) (h : wfItem item = .ok item.length) :
    decodeStore (item ++ rest) = some item := by
  unfold decodeStore
  rw [wf_append h rest]
  simp

/-- The stored bytes are always a prefix of the input that is itself exactly one
    well-formed item (nothing more, nothing less is captured). -/
theorem stored_is_exact_item {b s : Bytes} (h : decodeStore b = some s) :
    s = b.take s.length ∧ wfItem s = .ok s.length ∧ s.length ≤ b.length := by
  unfold decodeStore at h
  cases hw : wfItem b with
  | needMore => rw [hw] at h; cases h
  | bad => rw [hw] at h; cases h
  | ok n =>
    rw [hw] at h
    simp only [Option.some.injEq] at h
    have hn := wf_consumes_le hw
    have hl : s.length = n := by rw [← h]; simp only [List.length_take]; omega
    refine ⟨by rw [hl]; exact h.symm, ?_, by omega⟩
    rw [hl, ← h]
    exact wf_take hw

/-- A truncated item is never stored (no partial capture). -/
theorem truncated_not_stored {item : Bytes} (h : wfItem item = .ok item.length) {k : Nat}
    (hk : k < item.length) : decodeStore (item.take k) = none := by
  unfold decodeStore
  rw [wf_prefix h hk]

/-- **marshal_roundtrip.** Re-serialising an unmodified decoded object of a type that follows
    the stored-bytes MarshalCBOR pattern reproduces the stored bytes. -/
theorem marshal_roundtrip (s re : Bytes) : marshal { cbor := some s, reencoded := re } = s := rfl

/-- **id_of_exact_bytes.** The identifier is the digest of the stored bytes; with an
    injective digest (ideal-hash hypothesis, never an axiom) equal identifiers mean equal
    stored bytes — two encodings of the "same" object are different objects. -/
theorem id_of_exact_bytes {D : Type} (h : Bytes → D) (s re : Bytes) :
    ident h { cbor := some s, reencoded := re } = h s := rfl

theorem id_binds_bytes {D : Type} (h : Bytes → D) (hinj : Function.Injective h)
    (s1 s2 r1 r2 : Bytes) (he : ident h ⟨some s1, r1⟩ = ident h ⟨some s2, r2⟩) : s1 = s2 :=
  hinj he

/-- toy instance: the hypotheses of `id_binds_bytes` are satisfiable -/
example : ident (D := Bytes) id ⟨some [0x98, 0x01, 0x00], [0x81, 0x00]⟩ ≠
          ident (D := Bytes) id ⟨some [0x81, 0x00], [0x81, 0x00]⟩ := by decide

theorem itemsLoop_props (data : Bytes) (expected count : Nat) (indef : Bool) :
    ∀ (fuel pos idx : Nat) (items : List (Nat × Nat)),
      itemsLoop data expected count indef fuel pos idx = some items →
      idx + items.length = expected ∧
      ∀ p ∈ items, wfItem (data.drop p.1) = .ok p.2 ∧ p.1 + p.2 ≤ data.length := by
  intro fuel
  induction fuel with
  | zero => intro pos idx items h; simp [itemsLoop] at h
  | succ fuel ih =>
    intro pos idx items h
    simp only [itemsLoop] at h
    by_cases hst : stopAt data count indef pos idx = true
    · simp only [hst, if_true] at h
      by_cases he : idx = expected
      · simp only [he, if_true, Option.some.injEq] at h
        subst h; simp [he]
      · simp only [he, if_false] at h; cases h
    · simp only [hst] at h
      cases hs : skipItem (data.drop pos) with
      | none => rw [hs] at h; simp at h
      | some l =>
        rw [hs] at h; simp only [Bool.false_eq_true, if_false] at h
        by_cases hge : idx ≥ expected
        · simp only [hge, if_true] at h; cases h
        · simp only [hge, if_false] at h
          cases hr : itemsLoop data expected count indef fuel (pos + l) (idx + 1) with
          | none => rw [hr] at h; cases h
          | some rest =>
            rw [hr] at h
            simp only [Option.map_some, Option.some.injEq] at h
            subst h
            obtain ⟨h1, h2⟩ := ih _ _ _ hr
            refine ⟨by simp only [List.length_cons]; omega, ?_⟩
            intro p hp
            rcases List.mem_cons.mp hp with rfl | hp
            · unfold skipItem at hs
              cases hw : wfItem (data.drop pos) with
              | needMore => rw [hw] at hs; cases hs
              | bad => rw [hw] at hs; cases hs
              | ok n =>
                rw [hw] at hs; simp only [Option.some.injEq] at hs; subst hs
                have := wf_consumes_le hw
                simp only [List.length_drop] at this
                exact ⟨rfl, by omega⟩
            · exact h2 p hp

/-- **extract_count_guard + component_spans.** When `setArrayItemCbor` succeeds it has
    handed out exactly `expected` slices (a count mismatch is an error, never a
    mis-assignment), and every slice is exactly one well-formed item of the array
    data, in bounds — for definite headers of any width and for indefinite arrays. -/
theorem extract_count_guard (data : Bytes) (expected : Nat) (items : List (Nat × Nat))
    (h : setArrayItems data expected = some items) :
    items.length = expected ∧
    ∀ p ∈ items, wfItem (data.drop p.1) = .ok p.2 ∧ p.1 + p.2 ≤ data.length ∧
      decodeStore (data.drop p.1) = some (slice data p.1 p.2) := by
  unfold setArrayItems at h
  simp only at h
  split at h
  · cases h
  · split at h
    · cases h
    · obtain ⟨h1, h2⟩ := itemsLoop_props _ _ _ _ _ _ _ _ h
      refine ⟨by omega, ?_⟩
      intro p hp
      obtain ⟨a, b⟩ := h2 p hp
      refine ⟨a, b, ?_⟩
      unfold decodeStore slice
      rw [a]

/-- Non-vacuity: an indefinite-length bodies array with two bodies (one with a
    non-minimal map header), expected count 2 → the two exact slices; expected 3 → error. -/
example : setArrayItems [0x9f, 0xa0, 0xb8, 0x01, 0x00, 0x00, 0xff] 2 = some [(1, 1), (2, 4)] := by decide
example : setArrayItems [0x9f, 0xa0, 0xb8, 0x01, 0x00, 0x00, 0xff] 3 = none := by decide
example : setArrayItems [0x98, 0x02, 0xa0, 0xa0] 1 = none := by decide

/-- Regenerated: among the output types, only the Dijkstra wrapper returns its stored bytes today;
    the legacy output types it can wrap, and every earlier era's output type, re-encode (recorded
    class `reencode-out`, decided per failing item from its concrete type). -/
theorem output_types_today :
    (["byron.ByronTransactionOutput", "shelley.ShelleyTransactionOutput", "mary.MaryTransactionOutput",
      "alonzo.AlonzoTransactionOutput", "babbage.BabbageTransactionOutput",
      "dijkstra.DijkstraTransactionOutput"].filter (GV.Model.PreserveTypes.preserves 4)) =
    ["dijkstra.DijkstraTransactionOutput"] := by decide

/-- Regenerated too: which transaction-body and witness-set types preserve bytes today (only
    Shelley, Allegra, Mary and Dijkstra bodies — the first, second and fourth since fix 92c71c5 — and Babbage witness sets) — the complement is the recorded finding classes
    `reencode-body` / `reencode-wit`; a type gaining the stored-bytes MarshalCBOR changes this
    statement (and shrinks the known class) on the next run. -/
theorem bodies_and_witness_sets_today :
    (GV.Model.PreserveTypes.eras.filter fun e => GV.Model.PreserveTypes.preservesKind "body" e) =
      ["shelley", "allegra", "mary", "dijkstra"] ∧
    (GV.Model.PreserveTypes.eras.filter fun e => GV.Model.PreserveTypes.preservesKind "wit" e) = ["babbage"] := by decide

/-- **Regenerated tie for clause (3).** In the Go source as it stands now, the block type and
    the block-header type of EVERY era (Byron..Dijkstra) have a MarshalCBOR — their own or one
    promoted from an embedded header type — that returns the stored wire bytes. The table is
    re-extracted with go/ast on every run: deleting such a method or its stored-bytes branch
    breaks this obligation. -/
theorem headers_and_blocks_preserve :
    ∀ era ∈ GV.Model.PreserveTypes.eras,
      GV.Model.PreserveTypes.preservesKind "blk" era = true ∧
      GV.Model.PreserveTypes.preservesKind "hdr" era = true := by decide

/-! ### Object reuse -/

/-- the cache, when filled, holds the digest of the currently stored bytes -/
def CacheOk {D : Type} (h : Bytes → D) (o : Obj D) : Prop :=
  ∀ d, o.cache = some d → d = h (o.stored.getD [])

theorem cacheOk_step {D : Type} (h : Bytes → D) (o : Obj D) (op : ReuseOp) (hk : CacheOk h o) :
    CacheOk h (reuseStep h o op) := by
  cases op with
  | decode b =>
    simp only [reuseStep, decodeInto]
    cases decodeStore b with
    | none => exact hk
    | some s => intro d hd; simp at hd
  | hash =>
    simp only [reuseStep, hashOf]
    cases hc : o.cache with
    | some d => simpa using hk
    | none =>
      intro d hd
      simp only [Option.some.injEq] at hd
      exact hd.symm

theorem cacheOk_run {D : Type} (h : Bytes → D) (ops : List ReuseOp) :
    ∀ (o : Obj D), CacheOk h o → CacheOk h (reuseRun h o ops) := by
  induction ops with
  | nil => intro o hk; exact hk
  | cons op rest ih => intro o hk; exact ih _ (cacheOk_step h o op hk)

/-- **id_after_reuse.** Whatever was decoded into an object before and however often its
    identifier was asked for (and cached) in between: after a successful decode of `b`, and
    after any further identifier queries, the stored bytes are exactly the item at the start of
    `b` (nothing of the previous, possibly longer, content survives) and the identifier is the
    digest of exactly those bytes. -/
theorem id_after_reuse {D : Type} (h : Bytes → D) (before : List ReuseOp) (b s : Bytes) (queries : Nat)
    (hs : decodeStore b = some s) :
    let o := reuseRun h (reuseRun h ({} : Obj D) (before ++ [.decode b])) (List.replicate queries .hash)
    (hashOf h o).1 = h s ∧ o.stored = some s := by
  intro o
  have hst : ∀ (q : Nat) (o' : Obj D), o'.stored = some s →
      (reuseRun h o' (List.replicate q .hash)).stored = some s := by
    intro q
    induction q with
    | zero => intro o' h'; exact h'
    | succ q ih =>
      intro o' h'
      simp only [List.replicate_succ, reuseRun, List.foldl_cons]
      apply ih
      simp only [reuseStep, hashOf]
      cases o'.cache <;> exact h'
  have h1 : (reuseRun h ({} : Obj D) (before ++ [.decode b])).stored = some s := by
    simp only [reuseRun, List.foldl_append, List.foldl_cons, List.foldl_nil, reuseStep, decodeInto, hs]
  have hstored : o.stored = some s := hst queries _ h1
  have hk : CacheOk h o := by
    apply cacheOk_run
    apply cacheOk_run
    intro d hd; simp at hd
  refine ⟨?_, hstored⟩
  simp only [hashOf]
  cases hc : o.cache with
  | some d => simp only; rw [hk d hc, hstored]; rfl
  | none => simp only; rw [hstored]; rfl

/-- Non-vacuity / what the theorem excludes: if the decode kept the cache (a field-by-field
    copy in `UnmarshalCBOR`), the identifier after reuse is the PREVIOUS object's. -/
theorem stale_cache_counterexample :
    let a : Bytes := [0x82, 0x01, 0x02]
    let b : Bytes := [0x81, 0x05]
    let o1 := (hashOf (D := Bytes) id (decodeInto {} a)).2
    (hashOf id (decodeIntoStale o1 b)).1 = a ∧ (decodeIntoStale o1 b).stored = some b ∧
    (hashOf id (decodeInto o1 b)).1 = b := by decide

/-- Clause (3) at full strength: every decoded object re-serialises to its stored bytes. -/
def C01_reencode_full (marshalOf : Stored → Bytes) : Prop :=
  ∀ s re, marshalOf { cbor := some s, reencoded := re } = s

/-- It holds for the stored-bytes pattern (Shelley..Dijkstra blocks, transactions, the
    Dijkstra header, Shelley/Allegra/Mary/Dijkstra bodies, Babbage witness sets). -/
theorem C01_reencode_partial : C01_reencode_full marshal := fun _ _ => rfl

/-- A type without that pattern re-encodes its fields; on a non-minimally encoded
    input that is a different byte string (witness: a header/array `98 01 00`
    re-encoded minimally as `81 00`). This is what the real code does for block
    headers Byron..Conway, the Byron block, most bodies, witness sets and outputs. -/
theorem C01_reencode_witness : ¬ C01_reencode_full (fun o => o.reencoded) := by
  intro h
  have := h [0x98, 0x01, 0x00] [0x81, 0x00]
  exact absurd this (by decide)

end GV.Props.C01
