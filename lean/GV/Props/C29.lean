import GV.Model.NativeScript
import GV.Gen.RuleLists
/-!
C29 — Native scripts evaluate as the ledger defines them.

`eval (goCtx t)` is what `UtxoValidateNativeScripts` computes for a transaction
context `t` (optional validity start / TTL, witness key hashes); `specEval t` is
the ledger's `evalTimelock`.  The full statement `C29_full` is false for the
code as it stands (absent bounds are encoded as 0 / MaxUint64): `C29_witness_*`.
`eval_eq_spec_partial` proves equality for every script and context outside the
decidable class `boundary`.  All theorems are over unbounded script trees.
-/
namespace GV.Props.C29
open GV.Model.NativeScript GV.Lib.CborLite

/-- Full statement (evaluation clause). -/
def C29_full : Prop :=
  ∀ (t : TxCtx) (s : Script), hashes28 s = true → eval (goCtx t) s = specEval t s

theorem fixN_self (h : Bytes) (hl : h.length = 28) : fixN 28 h = h := by
  unfold fixN
  rw [List.take_append_of_le_length (by omega)]
  exact List.take_of_length_le (by omega)

mutual
theorem eval_eq_spec_partial (t : TxCtx) :
    ∀ s : Script, hashes28 s = true → boundary t s = false → eval (goCtx t) s = specEval t s
  | .pubkey h, h28, _ => by
    simp only [hashes28, beq_iff_eq] at h28
    simp only [eval, specEval, goCtx, fixN_self h h28]
  | .all l, h28, hb => by
    simp only [hashes28] at h28; simp only [boundary] at hb
    simp only [eval, specEval]; exact all_eq t l h28 hb
  | .any l, h28, hb => by
    simp only [hashes28] at h28; simp only [boundary] at hb
    simp only [eval, specEval]; exact any_eq t l h28 hb
  | .nOfK n l, h28, hb => by
    simp only [hashes28] at h28; simp only [boundary] at hb
    simp only [eval, specEval]; rw [count_eq t l h28 hb]
  | .before s, _, hb => by
    rcases t with ⟨st, tl, ks⟩
    cases st with
    | none =>
      simp only [boundary, Option.isNone_none, Bool.true_and, beq_eq_false_iff_ne, ne_eq] at hb
      simp only [eval, specEval, goCtx, Option.getD_none, decide_eq_false_iff_not, Nat.le_zero_eq]
      exact hb
    | some v => simp [eval, specEval, goCtx]
  | .hereafter s, _, hb => by
    rcases t with ⟨st, tl, ks⟩
    cases tl with
    | none =>
      simp only [boundary, Option.isNone_none, Bool.true_and, Bool.or_eq_false_iff,
        decide_eq_false_iff_not] at hb
      simp only [eval, specEval, goCtx, Option.getD_none, ↓reduceIte, decide_eq_false_iff_not]
      exact hb.1
    | some e =>
      by_cases he : e = 0
      · subst he
        simp only [boundary, Option.isNone_some, Bool.false_and, Bool.false_or, beq_self_eq_true,
          Bool.true_and, decide_eq_false_iff_not] at hb
        simp only [eval, specEval, goCtx, Option.getD_some, ↓reduceIte, Nat.zero_le, decide_true,
          decide_eq_true_eq]
        unfold max64 at *; omega
      · simp [eval, specEval, goCtx, he]
  | .guard _ _, _, _ => by simp [eval, specEval, goCtx]
theorem all_eq (t : TxCtx) :
    ∀ l : List Script, hashes28L l = true → boundaryL t l = false → evalAll (goCtx t) l = specAll t l
  | [], _, _ => by simp [evalAll, specAll]
  | s :: r, h28, hb => by
    simp only [hashes28L, Bool.and_eq_true] at h28
    simp only [boundaryL, Bool.or_eq_false_iff] at hb
    simp only [evalAll, specAll, eval_eq_spec_partial t s h28.1 hb.1, all_eq t r h28.2 hb.2]
theorem any_eq (t : TxCtx) :
    ∀ l : List Script, hashes28L l = true → boundaryL t l = false → evalAny (goCtx t) l = specAny t l
  | [], _, _ => by simp [evalAny, specAny]
  | s :: r, h28, hb => by
    simp only [hashes28L, Bool.and_eq_true] at h28
    simp only [boundaryL, Bool.or_eq_false_iff] at hb
    simp only [evalAny, specAny, eval_eq_spec_partial t s h28.1 hb.1, any_eq t r h28.2 hb.2]
theorem count_eq (t : TxCtx) :
    ∀ l : List Script, hashes28L l = true → boundaryL t l = false →
      countTrue (goCtx t) l = specCount t l
  | [], _, _ => by simp [countTrue, specCount]
  | s :: r, h28, hb => by
    simp only [hashes28L, Bool.and_eq_true] at h28
    simp only [boundaryL, Bool.or_eq_false_iff] at hb
    simp only [countTrue, specCount, eval_eq_spec_partial t s h28.1 hb.1, count_eq t r h28.2 hb.2]
end

mutual
theorem boundary_false (t : TxCtx) (h1 : t.start.isNone = false) (h2 : t.ttl.isNone = false)
    (h3 : (t.ttl == some 0) = false) : ∀ s : Script, boundary t s = false
  | .pubkey _ => by simp [boundary]
  | .all l => by simp only [boundary]; exact boundaryL_false t h1 h2 h3 l
  | .any l => by simp only [boundary]; exact boundaryL_false t h1 h2 h3 l
  | .nOfK _ l => by simp only [boundary]; exact boundaryL_false t h1 h2 h3 l
  | .before _ => by simp [boundary, h1]
  | .hereafter _ => by simp [boundary, h2, h3]
  | .guard _ _ => by simp [boundary]
theorem boundaryL_false (t : TxCtx) (h1 : t.start.isNone = false) (h2 : t.ttl.isNone = false)
    (h3 : (t.ttl == some 0) = false) : ∀ l : List Script, boundaryL t l = false
  | [] => by simp [boundaryL]
  | s :: r => by simp [boundaryL, boundary_false t h1 h2 h3 s, boundaryL_false t h1 h2 h3 r]
end

/-- With both bounds present and a non-zero TTL nothing is lost: the rule evaluates every
    script exactly as the ledger does. -/
theorem eval_eq_spec_bounds_present (st e : Nat) (he : e ≠ 0) (ks : List Bytes) (s : Script)
    (h28 : hashes28 s = true) :
    eval (goCtx ⟨some st, some e, ks⟩) s = specEval ⟨some st, some e, ks⟩ s := by
  apply eval_eq_spec_partial _ s h28
  exact boundary_false _ (by simp) (by simp) (by simp [he]) s

/-- n-of-k counts the sub-scripts that evaluate true (no short-circuit artefact). -/
theorem nOfK_count (c : GoCtx) (n : Nat) (l : List Script) :
    eval c (.nOfK n l) = decide (n ≤ (l.filter (eval c)).length) := by
  have h : ∀ l : List Script, countTrue c l = (l.filter (eval c)).length := by
    intro l
    induction l with
    | nil => simp [countTrue]
    | cons s r ih =>
      simp only [countTrue, ih, List.filter_cons]
      cases eval c s <;> simp <;> omega
  simp only [eval, h]

theorem all_iff (c : GoCtx) (l : List Script) : eval c (.all l) = l.all (eval c) := by
  simp only [eval]
  induction l with
  | nil => simp [evalAll]
  | cons s r ih => simp [evalAll, ih]

theorem any_iff (c : GoCtx) (l : List Script) : eval c (.any l) = l.any (eval c) := by
  simp only [eval]
  induction l with
  | nil => simp [evalAny]
  | cons s r ih => simp [evalAny, ih]

/-- "Pubkey means a matching witness". -/
theorem pubkey_iff (c : GoCtx) (h : Bytes) (hl : h.length = 28) :
    eval c (.pubkey h) = true ↔ h ∈ c.keyHashes := by
  simp [eval, fixN_self h hl]

/-- "invalid-before holds only if the transaction has a validity start no earlier than the
    bound" — true of the rule except for bound 0 (next theorem). -/
theorem before_sound (t : TxCtx) (s : Nat) (hs : s ≠ 0) :
    eval (goCtx t) (.before s) = true → ∃ st, t.start = some st ∧ s ≤ st := by
  rcases t with ⟨st, tl, ks⟩
  cases st with
  | none => simp [eval, goCtx]; omega
  | some v => simp [eval, goCtx]

/-- "invalid-hereafter holds only if the transaction has an upper bound no later than the
    bound" — true of the rule except for bound ≥ MaxUint64. -/
theorem hereafter_sound (t : TxCtx) (s : Nat) (hs : s < max64) :
    eval (goCtx t) (.hereafter s) = true → ∃ e, t.ttl = some e ∧ e ≤ s := by
  rcases t with ⟨st, tl, ks⟩
  cases tl with
  | none => simp [eval, goCtx]; omega
  | some e =>
    by_cases he : e = 0
    · simp [eval, goCtx, he]
    · simp [eval, goCtx, he]

/-- Witness 1: no validity start, script `InvalidBefore 0`: the rule accepts, the ledger does not. -/
theorem C29_witness_start :
    eval (goCtx ⟨none, none, []⟩) (.before 0) = true ∧ specEval ⟨none, none, []⟩ (.before 0) = false := by
  decide

/-- Witness 2: no TTL, script `InvalidHereafter MaxUint64`. -/
theorem C29_witness_ttl :
    eval (goCtx ⟨none, none, []⟩) (.hereafter max64) = true ∧
    specEval ⟨none, none, []⟩ (.hereafter max64) = false := by
  decide

/-- Witness 3: TTL present and 0 is treated as absent: the ledger's `0 ≤ 7` holds, the rule says no. -/
theorem C29_witness_ttl_zero :
    eval (goCtx ⟨none, some 0, []⟩) (.hereafter 7) = false ∧
    specEval ⟨none, some 0, []⟩ (.hereafter 7) = true := by
  decide

theorem C29_full_false : ¬ C29_full := by
  intro h
  have := h ⟨none, none, []⟩ (.before 0) (by decide)
  revert this; decide

mutual
/-- More witnesses never invalidate a script (no negation in the language). -/
theorem eval_mono_keys (c : GoCtx) (ks : List Bytes) (hsub : ∀ k, k ∈ c.keyHashes → k ∈ ks) :
    ∀ s : Script, eval c s = true → eval { c with keyHashes := ks } s = true
  | .pubkey h, hv => by
    simp only [eval, List.contains_iff_mem] at hv ⊢; exact hsub _ hv
  | .all l, hv => by simp only [eval] at hv ⊢; exact (mono_list c ks hsub l).1 hv
  | .any l, hv => by simp only [eval] at hv ⊢; exact (mono_list c ks hsub l).2.1 hv
  | .nOfK n l, hv => by
    simp only [eval, decide_eq_true_eq] at hv ⊢
    exact Nat.le_trans hv (mono_list c ks hsub l).2.2
  | .before s, hv => by simpa [eval] using hv
  | .hereafter s, hv => by simpa [eval] using hv
  | .guard _ _, hv => by simpa [eval] using hv
theorem mono_list (c : GoCtx) (ks : List Bytes) (hsub : ∀ k, k ∈ c.keyHashes → k ∈ ks) :
    ∀ l : List Script,
      (evalAll c l = true → evalAll { c with keyHashes := ks } l = true) ∧
      (evalAny c l = true → evalAny { c with keyHashes := ks } l = true) ∧
      countTrue c l ≤ countTrue { c with keyHashes := ks } l
  | [] => by simp [evalAll, evalAny, countTrue]
  | s :: r => by
    have h1 := eval_mono_keys c ks hsub s
    have h2 := mono_list c ks hsub r
    refine ⟨?_, ?_, ?_⟩
    · simp only [evalAll, Bool.and_eq_true]; exact fun h => ⟨h1 h.1, h2.1 h.2⟩
    · simp only [evalAny, Bool.or_eq_true]
      exact fun h => h.elim (fun h => Or.inl (h1 h)) (fun h => Or.inr (h2.2.1 h))
    · simp only [countTrue]
      cases hs : eval c s with
      | false => have := h2.2.2; simp only [Bool.false_eq_true, ↓reduceIte]; split <;> omega
      | true => rw [h1 hs]; have := h2.2.2; simp only [↓reduceIte]; omega
end

/-- Regenerated tie: the native-script rule is an entry of every era's rule list from Allegra on
    (lists re-extracted from /repo's source on every run). -/
theorem rules_listed :
    ∀ l ∈ [GV.Gen.RuleLists.allegra, GV.Gen.RuleLists.mary, GV.Gen.RuleLists.alonzo,
           GV.Gen.RuleLists.babbage, GV.Gen.RuleLists.conway, GV.Gen.RuleLists.dijkstra],
      "UtxoValidateNativeScripts" ∈ l := by
  decide

/-- Non-vacuity of the partial theorem: a nested script with both kinds of time lock, evaluated
    true by both sides outside the boundary class. -/
example :
    let t : TxCtx := ⟨some 10, some 20, [List.replicate 28 1]⟩
    let s : Script := .all [.pubkey (List.replicate 28 1), .nOfK 1 [.before 11, .hereafter 20], .any [.before 3]]
    hashes28 s = true ∧ boundary t s = false ∧ eval (goCtx t) s = true ∧ specEval t s = true := by
  decide

end GV.Props.C29
