import GV.Model.NativeScript
import GV.Gen.RuleLists
import GV.Gen.NativeScriptIds
import GV.Gen.NativeScriptHash
import GV.Gen.NativeScriptStructs
/-!
C29 — Native scripts evaluate as the ledger defines them.

`eval (goCtx t)` is what `UtxoValidateNativeScripts` computes for a decoded transaction with
context `t` (optional validity start / TTL, witness key hashes, Dijkstra guards); `specEval t` is
the ledger's `evalTimelock`.  Since the `fix:` commit that made the rule read the presence of the
two bounds from the preserved body bytes (`common.ValidityBounds`, `EvaluateWithBounds`) the full
statement `C29_full` is a theorem.  For transactions WITHOUT preserved bytes (constructed in
memory) a zero bound still counts as absent: `eval_eq_spec_unpreserved_partial` + witness.
All theorems are over unbounded script trees.
-/
namespace GV.Props.C29
open GV.Model.NativeScript GV.Lib.CborLite

/-- Full statement (evaluation clause), for decoded transactions. -/
def C29_full : Prop :=
  ∀ (t : TxCtx) (s : Script), hashes28 s = true → eval (goCtx t) s = specEval t s

theorem fixN_self (h : Bytes) (hl : h.length = 28) : fixN 28 h = h := by
  unfold fixN
  rw [List.take_append_of_le_length (by omega)]
  exact List.take_of_length_le (by omega)

theorem guard_eq (g : Option (List (Nat × Bytes))) (x : Nat × Bytes) :
    (match credSet g with | none => false | some l => l.contains x) =
    (match g with | none => false | some l => l.contains x) := by
  cases g with
  | none => rfl
  | some l => cases l <;> simp [credSet]

mutual
theorem eval_eq_spec (t : TxCtx) :
    ∀ s : Script, hashes28 s = true → eval (goCtx t) s = specEval t s
  | .pubkey h, h28 => by
    simp only [hashes28, beq_iff_eq] at h28
    simp only [eval, specEval, goCtx, fixN_self h h28]
  | .all l, h28 => by
    simp only [hashes28] at h28
    simp only [eval, specEval]; exact all_eq t l h28
  | .any l, h28 => by
    simp only [hashes28] at h28
    simp only [eval, specEval]; exact any_eq t l h28
  | .nOfK n l, h28 => by
    simp only [hashes28] at h28
    simp only [eval, specEval]; rw [count_eq t l h28]
  | .before s, _ => by
    rcases t with ⟨st, tl, ks, gs⟩
    cases st <;> simp [eval, specEval, goCtx]
  | .hereafter s, _ => by
    rcases t with ⟨st, tl, ks, gs⟩
    cases tl <;> simp [eval, specEval, goCtx]
  | .guard ty h, _ => by
    simp only [eval, specEval, goCtx]
    exact guard_eq t.guards (ty, h)
theorem all_eq (t : TxCtx) :
    ∀ l : List Script, hashes28L l = true → evalAll (goCtx t) l = specAll t l
  | [], _ => by simp [evalAll, specAll]
  | s :: r, h28 => by
    simp only [hashes28L, Bool.and_eq_true] at h28
    simp only [evalAll, specAll, eval_eq_spec t s h28.1, all_eq t r h28.2]
theorem any_eq (t : TxCtx) :
    ∀ l : List Script, hashes28L l = true → evalAny (goCtx t) l = specAny t l
  | [], _ => by simp [evalAny, specAny]
  | s :: r, h28 => by
    simp only [hashes28L, Bool.and_eq_true] at h28
    simp only [evalAny, specAny, eval_eq_spec t s h28.1, any_eq t r h28.2]
theorem count_eq (t : TxCtx) :
    ∀ l : List Script, hashes28L l = true → countTrue (goCtx t) l = specCount t l
  | [], _ => by simp [countTrue, specCount]
  | s :: r, h28 => by
    simp only [hashes28L, Bool.and_eq_true] at h28
    simp only [countTrue, specCount, eval_eq_spec t s h28.1, count_eq t r h28.2]
end

/-- **The full statement holds** (decoded transactions). -/
theorem C29_full_holds : C29_full := fun t s h => eval_eq_spec t s h

/-- The rule's verdict: the first failing script is the first one the ledger semantics fails. -/
theorem rule_eq_spec (t : TxCtx) (l : List Script) (h28 : hashes28L l = true) :
    (ruleFirstFail t l).isNone = specAll t l := by
  unfold ruleFirstFail
  have key : ∀ (l : List Script) (i : Nat), hashes28L l = true →
      (firstFail (goCtx t) l i).isNone = specAll t l := by
    intro l
    induction l with
    | nil => intro i _; rfl
    | cons s r ih =>
      intro i h
      simp only [hashes28L, Bool.and_eq_true] at h
      simp only [firstFail, specAll, eval_eq_spec t s h.1]
      cases specEval t s with
      | true => simpa using ih (i + 1) h.2
      | false => simp
  exact key l 0 h28

mutual
/-- Transactions without preserved bytes: equality outside the class `boundary`. -/
theorem eval_eq_spec_unpreserved_partial (t : TxCtx) :
    ∀ s : Script, hashes28 s = true → boundary t s = false → eval (goCtx t false) s = specEval t s
  | .pubkey h, h28, _ => by
    simp only [hashes28, beq_iff_eq] at h28
    simp only [eval, specEval, goCtx, fixN_self h h28]
  | .all l, h28, hb => by
    simp only [hashes28] at h28; simp only [boundary] at hb
    simp only [eval, specEval]; exact all_eq_u t l h28 hb
  | .any l, h28, hb => by
    simp only [hashes28] at h28; simp only [boundary] at hb
    simp only [eval, specEval]; exact any_eq_u t l h28 hb
  | .nOfK n l, h28, hb => by
    simp only [hashes28] at h28; simp only [boundary] at hb
    simp only [eval, specEval]; rw [count_eq_u t l h28 hb]
  | .before s, _, hb => by
    rcases t with ⟨st, tl, ks, gs⟩
    cases st with
    | none => simp [eval, specEval, goCtx]
    | some v =>
      by_cases hv : v = 0
      · subst hv
        simp only [boundary, beq_self_eq_true, Bool.true_and, beq_eq_false_iff_ne, ne_eq] at hb
        simp [eval, specEval, goCtx, hb]
      · simp [eval, specEval, goCtx, hv]
  | .hereafter s, _, hb => by
    rcases t with ⟨st, tl, ks, gs⟩
    cases tl with
    | none => simp [eval, specEval, goCtx]
    | some e =>
      by_cases he : e = 0
      · subst he; simp [boundary] at hb
      · simp [eval, specEval, goCtx, he]
  | .guard ty h, _, _ => by
    simp only [eval, specEval, goCtx]
    exact guard_eq t.guards (ty, h)
theorem all_eq_u (t : TxCtx) :
    ∀ l : List Script, hashes28L l = true → boundaryL t l = false →
      evalAll (goCtx t false) l = specAll t l
  | [], _, _ => by simp [evalAll, specAll]
  | s :: r, h28, hb => by
    simp only [hashes28L, Bool.and_eq_true] at h28
    simp only [boundaryL, Bool.or_eq_false_iff] at hb
    simp only [evalAll, specAll, eval_eq_spec_unpreserved_partial t s h28.1 hb.1, all_eq_u t r h28.2 hb.2]
theorem any_eq_u (t : TxCtx) :
    ∀ l : List Script, hashes28L l = true → boundaryL t l = false →
      evalAny (goCtx t false) l = specAny t l
  | [], _, _ => by simp [evalAny, specAny]
  | s :: r, h28, hb => by
    simp only [hashes28L, Bool.and_eq_true] at h28
    simp only [boundaryL, Bool.or_eq_false_iff] at hb
    simp only [evalAny, specAny, eval_eq_spec_unpreserved_partial t s h28.1 hb.1, any_eq_u t r h28.2 hb.2]
theorem count_eq_u (t : TxCtx) :
    ∀ l : List Script, hashes28L l = true → boundaryL t l = false →
      countTrue (goCtx t false) l = specCount t l
  | [], _, _ => by simp [countTrue, specCount]
  | s :: r, h28, hb => by
    simp only [hashes28L, Bool.and_eq_true] at h28
    simp only [boundaryL, Bool.or_eq_false_iff] at hb
    simp only [countTrue, specCount, eval_eq_spec_unpreserved_partial t s h28.1 hb.1, count_eq_u t r h28.2 hb.2]
end

/-- n-of-k counts the sub-scripts that evaluate true (no short-circuit artefact). -/
theorem nOfK_count (c : GoCtx) (n : Nat) (l : List Script) :
    eval c (.nOfK n l) = decide (n ≤ (l.filter (eval c)).length) := by
  have h : ∀ l : List Script, countTrue c l = (l.filter (eval c)).length := by
    intro l
    induction l with
    | nil => simp [countTrue]
    | cons s r ih =>
      simp only [countTrue, ih, List.filter_cons]
      cases eval c s <;> simp <;> omega
  simp only [eval, h]

theorem all_iff (c : GoCtx) (l : List Script) : eval c (.all l) = l.all (eval c) := by
  simp only [eval]
  induction l with
  | nil => simp [evalAll]
  | cons s r ih => simp [evalAll, ih]

theorem any_iff (c : GoCtx) (l : List Script) : eval c (.any l) = l.any (eval c) := by
  simp only [eval]
  induction l with
  | nil => simp [evalAny]
  | cons s r ih => simp [evalAny, ih]

/-- "Pubkey means a matching witness". -/
theorem pubkey_iff (c : GoCtx) (h : Bytes) (hl : h.length = 28) :
    eval c (.pubkey h) = true ↔ h ∈ c.keyHashes := by
  simp [eval, fixN_self h hl]

/-- "invalid-before holds only if the transaction has a validity start no earlier than the
    bound" — for every bound, 0 included. -/
theorem before_sound (t : TxCtx) (s : Nat) :
    eval (goCtx t) (.before s) = true → ∃ st, t.start = some st ∧ s ≤ st := by
  rcases t with ⟨st, tl, ks, gs⟩
  cases st <;> simp [eval, goCtx]

/-- "invalid-hereafter holds only if the transaction has an upper bound no later than the
    bound" — for every bound, MaxUint64 included. -/
theorem hereafter_sound (t : TxCtx) (s : Nat) :
    eval (goCtx t) (.hereafter s) = true → ∃ e, t.ttl = some e ∧ e ≤ s := by
  rcases t with ⟨st, tl, ks, gs⟩
  cases tl <;> simp [eval, goCtx]

/-- The three inputs on which the rule diverged from the ledger before the repair
    (absent start vs `InvalidBefore 0`, absent TTL vs `InvalidHereafter MaxUint64`, present TTL 0)
    now agree. -/
theorem C29_fixed_witnesses :
    eval (goCtx ⟨none, none, [], none⟩) (.before 0) = false ∧
    eval (goCtx ⟨none, none, [], none⟩) (.hereafter max64) = false ∧
    eval (goCtx ⟨none, some 0, [], none⟩) (.hereafter 7) = true := by
  decide

/-- Without preserved bytes a present zero bound is still taken for absent. -/
theorem unpreserved_witness :
    eval (goCtx ⟨some 0, some 0, [], none⟩ false) (.before 0) = false ∧
    specEval ⟨some 0, some 0, [], none⟩ (.before 0) = true ∧
    eval (goCtx ⟨some 0, some 0, [], none⟩ false) (.hereafter 7) = false ∧
    specEval ⟨some 0, some 0, [], none⟩ (.hereafter 7) = true := by
  decide

mutual
/-- More witnesses never invalidate a script (no negation in the language). -/
theorem eval_mono_keys (c : GoCtx) (ks : List Bytes) (hsub : ∀ k, k ∈ c.keyHashes → k ∈ ks) :
    ∀ s : Script, eval c s = true → eval { c with keyHashes := ks } s = true
  | .pubkey h, hv => by
    simp only [eval, List.contains_iff_mem] at hv ⊢; exact hsub _ hv
  | .all l, hv => by simp only [eval] at hv ⊢; exact (mono_list c ks hsub l).1 hv
  | .any l, hv => by simp only [eval] at hv ⊢; exact (mono_list c ks hsub l).2.1 hv
  | .nOfK n l, hv => by
    simp only [eval, decide_eq_true_eq] at hv ⊢
    exact Nat.le_trans hv (mono_list c ks hsub l).2.2
  | .before s, hv => by simpa [eval] using hv
  | .hereafter s, hv => by simpa [eval] using hv
  | .guard _ _, hv => by simpa [eval] using hv
theorem mono_list (c : GoCtx) (ks : List Bytes) (hsub : ∀ k, k ∈ c.keyHashes → k ∈ ks) :
    ∀ l : List Script,
      (evalAll c l = true → evalAll { c with keyHashes := ks } l = true) ∧
      (evalAny c l = true → evalAny { c with keyHashes := ks } l = true) ∧
      countTrue c l ≤ countTrue { c with keyHashes := ks } l
  | [] => by simp [evalAll, evalAny, countTrue]
  | s :: r => by
    have h1 := eval_mono_keys c ks hsub s
    have h2 := mono_list c ks hsub r
    refine ⟨?_, ?_, ?_⟩
    · simp only [evalAll, Bool.and_eq_true]; exact fun h => ⟨h1 h.1, h2.1 h.2⟩
    · simp only [evalAny, Bool.or_eq_true]
      exact fun h => h.elim (fun h => Or.inl (h1 h)) (fun h => Or.inr (h2.2.1 h))
    · simp only [countTrue]
      cases hs : eval c s with
      | false => have := h2.2.2; simp only [Bool.false_eq_true, ↓reduceIte]; split <;> omega
      | true => rw [h1 hs]; have := h2.2.2; simp only [↓reduceIte]; omega
end

/-- Regenerated tie: the native-script rule is an entry of every era's rule list from Allegra on
    (lists re-extracted from /repo's source on every run). -/
theorem rules_listed :
    ∀ l ∈ [GV.Gen.RuleLists.allegra, GV.Gen.RuleLists.mary, GV.Gen.RuleLists.alonzo,
           GV.Gen.RuleLists.babbage, GV.Gen.RuleLists.conway, GV.Gen.RuleLists.dijkstra],
      "UtxoValidateNativeScripts" ∈ l := by
  decide

/-- Regenerated tie: the type-id switch of `NativeScript.UnmarshalCBOR` (re-extracted on every
    run) maps exactly the ids the model's parser accepts to the structures it builds. -/
theorem gen_type_ids :
    (∀ e ∈ GV.Gen.NativeScriptIds.table, ctorName e.1 = some e.2) ∧
    (∀ id, id < 32 → (ctorName id).isSome = (GV.Gen.NativeScriptIds.table.map (·.1)).contains id) := by
  decide


-- ------------------------------------------------------------------ script hash (digest abstract)

theorem consumed_nil (b : Bytes) : consumed b [] = b := by
  unfold consumed; simp

theorem finish_spans (b : Bytes) (arg : Arg) (body : Option (Script × List Bytes × Bytes × Nat))
    (p : Parsed) (r : Bytes) (h : finish b arg body = some (p, r)) : storedBytes p = consumed b r := by
  unfold finish at h
  split at h
  · cases h
  · split at h
    · split at h
      · simp only [Option.some.injEq, Prod.mk.injEq] at h
        obtain ⟨h1, h2⟩ := h; subst h1; subst h2; rfl
      · cases h
    · split at h
      · split at h
        · simp only [Option.some.injEq, Prod.mk.injEq] at h
          obtain ⟨h1, h2⟩ := h; subst h1; subst h2; rfl
        · cases h
      · cases h

/-- the first stored span of a parsed script is exactly the bytes the parser consumed -/
theorem spans_head (f : Nat) (b : Bytes) (p : Parsed) (r : Bytes)
    (h : parseScript f b = some (p, r)) : storedBytes p = consumed b r := by
  cases f with
  | zero => simp [parseScript] at h
  | succ f =>
    unfold parseScript at h
    split at h
    · split at h
      · cases h
      · exact finish_spans _ _ _ _ _ h
    · cases h

/-- **Byte preservation**: what a decoded script stores (`s.Cbor()`) is its original encoding. -/
theorem stored_is_original (b : Bytes) (p : Parsed) (h : decode b = some p) : storedBytes p = b := by
  unfold decode at h
  split at h
  · rename_i p' hp
    cases h
    rw [spans_head _ _ _ _ hp, consumed_nil]
  · cases h

/-- **The hash clause**: a decoded script's hash is the digest of a zero byte followed by its
    ORIGINAL encoding, for every digest function (Blake2b-224 is a primitive). -/
theorem hash_original_bytes {D : Type} (h224 : Bytes → D) (b : Bytes) (p : Parsed)
    (h : decode b = some p) : hashOf h224 p = h224 (0x00 :: b) := by
  unfold hashOf; rw [stored_is_original b p h]

/-- Under an injective digest (ideal binding) equal hashes mean equal original bytes: two
    different encodings of the same script tree have different hashes. -/
theorem hash_binding {D : Type} (h224 : Bytes → D) (hinj : Function.Injective h224)
    (b1 b2 : Bytes) (p1 p2 : Parsed) (h1 : decode b1 = some p1) (h2 : decode b2 = some p2)
    (he : hashOf h224 p1 = hashOf h224 p2) : b1 = b2 := by
  rw [hash_original_bytes h224 b1 p1 h1, hash_original_bytes h224 b2 p2 h2] at he
  have := hinj he
  simpa using this

/-- toy digest (identity): the hypotheses are satisfiable, and the hash of `[4, 0]` (InvalidBefore 0)
    decoded from its definite and from its indefinite encoding differ -/
example : Function.Injective (fun b : Bytes => b) := fun _ _ h => h
example :
    (decode [0x82, 0x04, 0x00]).map (hashOf (fun b => b)) = some [0x00, 0x82, 0x04, 0x00] ∧
    (decode [0x9f, 0x04, 0x00, 0xff]).map (hashOf (fun b => b)) = some [0x00, 0x9f, 0x04, 0x00, 0xff] := by
  decide

/-- Regenerated tie (go/ast facts, re-extracted on every run): `NativeScript.Hash` is
    `ScriptHash(Blake2b224Hash(slices.Concat([]byte{ScriptRefTypeNativeScript}, []byte(s.Cbor()))))` —
    it hashes the STORED bytes of the receiver, not a re-encoding; the prefix constant is 0; and
    `UnmarshalCBOR` stores its input first (`n.SetCbor(data)`). -/
theorem gen_hash_source :
    GV.Gen.NativeScriptHash.hashFn = "Blake2b224Hash" ∧
    GV.Gen.NativeScriptHash.prefixExpr = "ScriptRefTypeNativeScript" ∧
    GV.Gen.NativeScriptHash.prefixValue = 0 ∧
    GV.Gen.NativeScriptHash.bytesExpr = GV.Gen.NativeScriptHash.receiver ++ ".Cbor()" ∧
    GV.Gen.NativeScriptHash.unmarshalFirstStmt =
      "n.SetCbor(" ++ GV.Gen.NativeScriptHash.unmarshalParam ++ ")" := by
  decide

/-- Regenerated tie: the NativeScript* structures (filled by position: cbor.StructAsArray) declare
    their fields in the order the model's parser reads them, for every type id of the decoder's
    switch. -/
theorem gen_struct_fields :
    ∀ e ∈ GV.Gen.NativeScriptIds.table,
      (GV.Gen.NativeScriptStructs.table.lookup e.2) =
        (fieldLayout e.1).map (fun l => "embedded cbor.StructAsArray" :: l) := by
  decide

/-- Non-vacuity of the partial theorem: a nested script with both kinds of time lock, evaluated
    true by both sides outside the boundary class. -/
example :
    let t : TxCtx := ⟨some 10, some 20, [List.replicate 28 1], none⟩
    let s : Script := .all [.pubkey (List.replicate 28 1), .nOfK 1 [.before 11, .hereafter 20], .any [.before 3]]
    hashes28 s = true ∧ boundary t s = false ∧ eval (goCtx t) s = true ∧ specEval t s = true := by
  decide

end GV.Props.C29
