import GV.Model.Timeout
import GV.Spec.Conformance
/-!
  C14 — State timeouts fire exactly when the peer stalls.  Level: partial.

  Proved: the arming logic of `stateLoop` (model `GV.Timeout`, for every event sequence):
  a timer exists only for a state that has a timeout and was entered by a transition; it is
  re-armed (from the entry time) on every transition; it can fire only after the state has
  been held for the full timeout without any transition; once the deadline has passed and
  nothing moved, firing is enabled.  And the timeout TABLE of the regenerated state maps equals
  the network specification's table for the server side of every Cardano mini-protocol.
  Not proved (runtime): wall-clock exactness of Go timers; exercised by scaled-down runs.
-/
namespace GV.Props.C14
open GV.SM GV.Timeout

variable {c : Cfg}

/-- Invariant of the timer. -/
structure Inv (c : Cfg) (t : T) : Prop where
  /-- a running timer belongs to a state entered by a transition, with a positive timeout, and
      its deadline is entry time + that timeout -/
  timerOk : ∀ dl, t.timer = some dl → t.entryInitial = false ∧ t.armedWith > 0 ∧ dl = t.entered + t.armedWith
  /-- entry time is in the past -/
  enteredLe : t.entered ≤ t.now
  /-- before the start-up setState nothing is armed -/
  pre : t.initialSet = false → t.timer = none
  /-- a state entered by a transition whose timeout is positive has a running timer until it fires -/
  armedRunning : t.entryInitial = false → t.armedWith > 0 → t.fired = false → t.timer = some (t.entered + t.armedWith)

theorem inv_init (s0 : Nat) : Inv c (init s0) := by
  constructor <;> simp [init]

theorem inv_step {t t' : T} {e : Ev} (hi : Inv c t) (h : step? c t e = some t') : Inv c t' := by
  obtain ⟨h1, h2, h3, h4⟩ := hi
  cases e with
  | setState s fv =>
    simp only [step?] at h
    split at h
    · simp at h
    · split at h
      · simp only [Option.some.injEq] at h; subst h
        constructor <;> simp
      · simp only [Option.some.injEq] at h; subst h
        constructor
        · intro dl hdl
          simp only at hdl
          split at hdl
          · simp only [Option.some.injEq] at hdl
            refine ⟨rfl, by assumption, hdl.symm⟩
          · simp at hdl
        · simp
        · intro hh; simp_all
        · intro _ hpos _
          simp only at hpos ⊢
          simp [hpos]
  | tick d =>
    simp only [step?, Option.some.injEq] at h; subst h
    exact ⟨h1, Nat.le_trans h2 (Nat.le_add_right _ _), h3, h4⟩
  | fire =>
    simp only [step?] at h
    split at h
    · split at h
      · simp only [Option.some.injEq] at h; subst h
        constructor
        · intro dl hdl; simp at hdl
        · exact h2
        · intro _; rfl
        · intro _ _ hf; simp at hf
      · simp at h
    · simp at h

theorem inv_run {t t' : T} (hi : Inv c t) (evs : List Ev) (h : run c t evs = some t') : Inv c t' := by
  induction evs generalizing t with
  | nil => simp [run] at h; exact h ▸ hi
  | cons e rest ih =>
    simp only [run] at h
    cases hs : step? c t e with
    | none => simp [hs] at h
    | some t1 => rw [hs] at h; exact ih (inv_step hi hs) h

/-- No timer in the initial state (the state set at start-up, before any transition). -/
theorem no_timer_in_initial (s0 s fv : Nat) {t : T} (h : step? c (init s0) (.setState s fv) = some t) :
    t.timer = none ∧ t.entryInitial = true := by
  simp [step?, init] at h; subst h; simp

/-- No timer when the state's timeout is zero. -/
theorem no_timer_when_zero {t t' : T} {s fv : Nat} (h : step? c t (.setState s fv) = some t')
    (hz : effTimeout c s fv = 0) : t'.timer = none := by
  simp only [step?] at h
  split at h
  · simp at h
  · split at h
    · simp only [Option.some.injEq] at h; subst h; rfl
    · simp only [Option.some.injEq] at h; subst h; simp [hz]

/-- Every transition re-arms: the old timer is dropped and the deadline counts from NOW. -/
theorem rearm_on_every_transition {t t' : T} {s fv : Nat} (hs : t.initialSet = true)
    (h : step? c t (.setState s fv) = some t') :
    t'.timer = (if effTimeout c s fv > 0 then some (t.now + effTimeout c s fv) else none) ∧
    t'.entered = t.now := by
  simp only [step?] at h
  split at h
  · simp at h
  · simp only [hs, Bool.not_true, Bool.false_eq_true, if_false, Option.some.injEq] at h
    subst h; simp

/-- A timeout error is reported only if the current state was entered by a transition, has a
    positive timeout, and has been held for at least that long without any transition
    (for EVERY event sequence from start-up). -/
theorem fires_only_if_stalled (s0 : Nat) (evs : List Ev) {t t' : T}
    (h : run c (init s0) evs = some t) (hf : step? c t .fire = some t') :
    t.entryInitial = false ∧ t.armedWith > 0 ∧ t.entered + t.armedWith ≤ t.now := by
  have hi := inv_run (inv_init s0) evs h
  simp only [step?] at hf
  split at hf
  · rename_i dl hdl
    split at hf
    · rename_i hc
      have ⟨a, b, e⟩ := hi.timerOk dl hdl
      simp only [Bool.and_eq_true, decide_eq_true_eq] at hc
      exact ⟨a, b, e ▸ hc.1⟩
    · simp at hf
  · simp at hf

/-- Conversely: in a state entered by a transition with timeout `d > 0`, once `d` has elapsed
    without a transition the timeout error is enabled (it WILL be reported: the only other
    enabled stateLoop actions are further transitions, i.e. the conversation progressing). -/
theorem fires_when_stalled (s0 : Nat) (evs : List Ev) {t : T}
    (h : run c (init s0) evs = some t) (he : t.entryInitial = false) (hp : t.armedWith > 0)
    (hnf : t.fired = false) (hl : t.entered + t.armedWith ≤ t.now) :
    (step? c t .fire).isSome = true := by
  have hi := inv_run (inv_init s0) evs h
  have := hi.armedRunning he hp hnf
  simp [step?, this, hl, hnf]

/-- No timeout while the conversation progresses within the limits: a timer never fires before
    its deadline. -/
theorem no_fire_before_deadline (s0 : Nat) (evs : List Ev) {t : T}
    (h : run c (init s0) evs = some t) (hl : t.now < t.entered + t.armedWith) :
    step? c t .fire = none := by
  have hi := inv_run (inv_init s0) evs h
  simp only [step?]
  split
  · rename_i dl hdl
    have ⟨_, _, e⟩ := hi.timerOk dl hdl
    subst e
    have : ¬ (t.entered + t.armedWith ≤ t.now) := by omega
    simp [this]
  · rfl

/-! ### the timeout table (regenerated from the running code) against the network specification -/
open GV.Spec.Conformance in
/-- timeouts of corresponding states agree: fixed value, or same random range -/
def timeoutsAgree (e : Entry) : Bool :=
  e.rel.all (fun pq =>
    match e.impl.stateOf pq.1, e.spec.stateOf pq.2 with
    | some a, some b => a.timeoutMs == b.timeoutMs && a.timeoutFunc == b.timeoutFunc &&
                        a.tfMinMs == b.tfMinMs && a.tfMaxMs == b.tfMaxMs
    | _, _ => false)

open GV.Spec.Conformance in
/-- machines for which the network specification fixes the timeouts: the Cardano protocols -/
def cardano (e : Entry) : Bool :=
  ["handshake-ntn", "handshake-ntc", "chainsync-ntn", "chainsync-ntc", "blockfetch", "txsubmission",
   "keepalive", "peersharing", "localtxsubmission", "localtxmonitor", "localstatequery"].any
    (fun p => e.impl.name == p ++ "/server")

/-- Server side of every Cardano mini-protocol: the per-state timeouts of the running code are
    exactly those of the network specification (node-to-node table; none for node-to-client). -/
theorem server_timeouts_match_spec :
    ∀ e ∈ GV.Spec.Conformance.table, cardano e = true → timeoutsAgree e = true := by decide

/-- tx-submission and handshake clients use the specification's values too -/
theorem client_timeouts_match_spec_where_not_configurable :
    ∀ e ∈ GV.Spec.Conformance.table,
      (e.impl.name == "txsubmission/client" || e.impl.name == "handshake-ntn/client" ||
       e.impl.name == "handshake-ntc/client" || e.impl.name == "chainsync-ntc/client") = true →
      timeoutsAgree e = true := by decide

/-- terminal states never have a timeout, in any protocol, mode or role -/
theorem no_timeout_in_terminal :
    ∀ m ∈ GV.Gen.StateMaps.all, ∀ s ∈ m.states, s.agency = 0 → s.timeoutMs = 0 ∧ s.timeoutFunc = false := by
  decide

/-! ### the closed form used for `armed` equals the timer model run -/

def lastD : List Nat → Nat → Nat
  | [], d => d
  | x :: xs, _ => lastD xs x

theorem statesAlong_last (m : Machine) (s q : Nat) (path : List Sym) (h : m.run s path = some q) :
    lastD (statesAlong m s path) s = q := by
  induction path generalizing s with
  | nil => simp only [Machine.run, Option.some.injEq] at h; simp [statesAlong, lastD, h]
  | cons a rest ih =>
    simp only [Machine.run] at h
    cases hs : m.step s a with
    | none => simp [hs] at h
    | some s' =>
      rw [hs] at h
      simp only [statesAlong, hs, lastD]
      exact ih s' h

theorem statesAlong_nonempty (m : Machine) (s q : Nat) (a : Sym) (rest : List Sym)
    (h : m.run s (a :: rest) = some q) : statesAlong m s (a :: rest) ≠ [] := by
  simp only [Machine.run] at h
  cases hs : m.step s a with
  | none => simp [hs] at h
  | some s' => simp [statesAlong, hs]

/-- after the start-up setState, a run of setStates leaves a timer iff the LAST state entered has a
    positive effective timeout -/
theorem run_setStates (c : Cfg) (fv : Nat → Nat) (qs : List Nat) (t : T)
    (hf : t.fired = false) (hi : t.initialSet = true) :
    ∃ t', run c t (qs.map (fun q => Ev.setState q (fv q))) = some t' ∧ t'.fired = false ∧
      t'.initialSet = true ∧
      t'.timer.isSome = (match qs with
        | [] => t.timer.isSome
        | x :: xs => decide (effTimeout c (lastD xs x) (fv (lastD xs x)) > 0)) := by
  induction qs generalizing t with
  | nil => exact ⟨t, by simp [run], hf, hi, rfl⟩
  | cons q rest ih =>
    simp only [List.map_cons, run, step?, hf, hi, Bool.false_eq_true, if_false, Bool.not_true]
    obtain ⟨t', h1, h2, h3, h4⟩ := ih
      (t := { st := q, now := t.now, initialSet := true,
              timer := (if effTimeout c q (fv q) > 0 then some (t.now + effTimeout c q (fv q)) else none),
              entered := t.now, entryInitial := false, armedWith := effTimeout c q (fv q) }) rfl rfl
    refine ⟨t', h1, h2, h3, ?_⟩
    rw [h4]
    cases rest with
    | nil =>
      simp only [lastD]
      by_cases hp : effTimeout c q (fv q) > 0 <;> simp [hp]
    | cons x xs => simp [lastD]

theorem stOf_func_pos (m : Machine)
    (hfn : ∀ s ∈ m.states, s.timeoutFunc = true → s.tfMaxMs > 0) (q : Nat)
    (h : (stOf m q).timeoutFunc = true) : (stOf m q).tfMaxMs > 0 := by
  unfold stOf at h ⊢
  cases hq : m.stateOf q with
  | none => rw [hq] at h; simp at h
  | some st =>
    rw [hq] at h
    simp only [Option.getD_some] at h ⊢
    exact hfn st (by unfold Machine.stateOf at hq; exact List.mem_of_find?_eq_some hq) h

/-- `arms` (used for the `armed` column) is exactly what the timer model computes, provided a
    TimeoutFunc never returns 0 (checked on the regenerated tables below). -/
theorem arms_eq_model (m : Machine)
    (hfn : ∀ s ∈ m.states, s.timeoutFunc = true → s.tfMaxMs > 0)
    (path : List Sym) (q : Nat) (h : m.run m.init path = some q) :
    (timerAfter m path).map (fun t => t.timer.isSome) = some (arms m q path.isEmpty) := by
  unfold timerAfter
  simp only [run, step?, init, Bool.false_eq_true, if_false, Bool.not_false, if_true]
  cases path with
  | nil => simp [statesAlong, run, arms]
  | cons a rest =>
    have hne := statesAlong_nonempty m m.init q a rest h
    have hlast := statesAlong_last m m.init q (a :: rest) h
    obtain ⟨t', h1, _, _, h4⟩ := run_setStates (cfgOf m) (funcValue m) (statesAlong m m.init (a :: rest))
      { st := m.init, now := 0, initialSet := true, timer := none, entered := 0, entryInitial := true,
        armedWith := 0, fired := false } rfl rfl
    rw [h1]
    simp only [Option.map_some, Option.some.injEq, List.isEmpty_cons]
    rw [h4]
    cases hsa : statesAlong m m.init (a :: rest) with
    | nil => exact absurd hsa hne
    | cons x xs =>
      rw [hsa] at hlast
      simp only [lastD] at hlast
      simp only [hlast]
      -- effective timeout of q is positive iff q has a timeout at all
      have key := stOf_func_pos m hfn q
      unfold effTimeout cfgOf funcValue arms
      simp only [Bool.not_false, Bool.true_and]
      by_cases hft : (stOf m q).timeoutFunc = true
      · have := key hft; simp [hft, this]
      · have hf' : (stOf m q).timeoutFunc = false := by simpa using hft
        simp [hf']

/-- no TimeoutFunc of the running code returns 0 (sampled maximum, rounded up to seconds) -/
theorem gen_timeoutFunc_positive :
    ∀ m ∈ GV.Gen.StateMaps.all, ∀ s ∈ m.states, s.timeoutFunc = true → s.tfMaxMs > 0 := by decide

/-! ### non-vacuity -/
def cfgEx : Cfg := { timeoutOf := fun q => if q = 2 then 10 else 0, hasFunc := fun _ => false }
example : ((run cfgEx (init 1) [.setState 1 0, .tick 100, .setState 2 0, .tick 10, .fire]).map (·.fired)) = some true := by
  decide
example : (run cfgEx (init 1) [.setState 1 0, .tick 100, .setState 2 0, .tick 9, .fire]).isNone = true := by decide
example : (run cfgEx (init 1) [.setState 1 0, .tick 100, .fire]).isNone = true := by decide

end GV.Props.C14
