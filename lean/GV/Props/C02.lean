import GV.Model.Walkers
import GV.Proofs.Walkers
/-!
C02 — Decoders are total on arbitrary bytes (level: partial).

Proved here, for every byte string: the well-formedness machine terminates
within fuel linear in the input, consumes no more than the input, never
accepts an item that declares a length or count larger than the input, and the
hand-rolled byte walkers of cbor/decode.go never index outside their slice.
Not provable in Lean (only exercised by the correspondence run): absence of
panics / unbounded allocation inside fxamacker's reflection decoder, the typed
ledger/protocol decoders built on it, and the Go runtime.
-/
namespace GV.Props.C02
open GV.CborT GV.Model.Walkers GV.Proofs.Walkers

/-- Full statement of the property over a decoder `d` observed as an outcome
    function: every input gives `ok`/`err` (never a panic, never divergence) with
    allocation bounded by the input. Only the parts below are theorems. -/
def C02_full (outcome : Bytes → String) : Prop :=
  ∀ b, outcome b = "ok" ∨ outcome b = "err"

/-- Totality with a certificate: the machine either rejects, or returns a tree
    whose encoding is exactly the consumed prefix (≥ 1 byte, ≤ the input). -/
theorem wf_total (b : Bytes) :
    decode b = none ∨
    ∃ t r, decode b = some (t, r) ∧ b = enc t ++ r ∧ t.valid = true ∧
      0 < (enc t).length ∧ (enc t).length ≤ b.length := by
  cases h : decode b with
  | none => exact Or.inl rfl
  | some p =>
    obtain ⟨t, r⟩ := p
    obtain ⟨hb, hv⟩ := decode_sound h
    obtain ⟨_, hl⟩ := decode_consumes h
    exact Or.inr ⟨t, r, rfl, hb, hv, enc_length_pos t, by omega⟩

/-- Never loops: the recursion depth ever needed is bounded by `2·|b|+1`; more
    fuel changes nothing, and whatever any fuel accepts the standard fuel accepts. -/
theorem wf_terminates (f : Nat) (b : Bytes) (t : Cbor) (r : Bytes) (h : dec f b = some (t, r)) :
    dec (2 * b.length + 1) b = some (t, r) :=
  dec_fuel_irrelevant h

/-- Memory follows the input, not the claims inside it: in an accepted item every
    declared string length, array count and map pair count is at most the number
    of input bytes (an inflated length field is always rejected). -/
theorem wf_claimed_le_len (b : Bytes) (t : Cbor) (r : Bytes) (h : decode b = some (t, r)) :
    maxClaim t ≤ b.length := by
  obtain ⟨_, hl⟩ := decode_consumes h
  have := maxClaim_le t
  omega

/-- Prefix-independence (a decoder never reads past the item it returns). -/
theorem wf_local (b : Bytes) (t : Cbor) (r : Bytes) (h : decode b = some (t, r)) (more : Bytes) :
    decode (b ++ more) = some (t, r ++ more) :=
  decode_append h more

/-- `ArrayInfo` / `MapInfo` never index out of range. -/
theorem arrayInfo_no_oob (b : Bytes) : infoOf 0x80 b ≠ .oob ∧ infoOf 0xa0 b ≠ .oob :=
  ⟨infoOf_no_oob _ b, infoOf_no_oob _ b⟩

/-- `StreamDecoder.DecodeArrayHeader` / `DecodeMapHeader`, at any position. -/
theorem decodeHeader_no_oob (b : Bytes) (pos : Nat) :
    headerAt 0x80 b pos ≠ .oob ∧ headerAt 0xa0 b pos ≠ .oob :=
  ⟨headerAt_no_oob _ b pos, headerAt_no_oob _ b pos⟩

/-- `cborArrayHeaderSizeFromBytes` -/
theorem headerSize_no_oob (b : Bytes) (off : Nat) : headerSizeAt b off ≠ .oob :=
  headerSizeAt_no_oob b off

/-- `ListLength` / `DecodeIdFromList` fast paths (`cborData[0]`, `cborData[1]`). -/
theorem idFastPath_no_oob (b : Bytes) (n : Nat) :
    listLengthFast b ≠ .oob ∧ decodeIdFast b n ≠ .oob :=
  ⟨listLengthFast_no_oob b, decodeIdFast_no_oob b n⟩

/-- `StreamDecoder.RawBytes(offset, length)`: for all int64 arguments the final slice
    expression is in range (no panic), and an accepted request returns exactly the
    requested range — the wrap-around of `offset + length` is rejected, not sliced. -/
theorem rawBytes_safe (len offset length : Int) :
    rawBytes len offset length ≠ .oob ∧
    (isInt64 offset → isInt64 length → ∀ lo hi, rawBytes len offset length = .val (some (lo, hi)) →
      lo = offset ∧ hi = offset + length ∧ 0 ≤ lo ∧ hi ≤ len) :=
  ⟨rawBytes_no_oob len offset length, fun ho hl lo hi h => rawBytes_exact len offset length lo hi ho hl h⟩

/-- the diagnostic parser's header readers (`parseCollectionHeader`, `parseTagHeader`) -/
theorem diagHeaders_no_oob (b : Bytes) (off : Nat) :
    collectionHeaderAt b off ≠ .oob ∧ tagHeaderAt b off ≠ .oob :=
  ⟨collectionHeaderAt_no_oob b off, tagHeaderAt_no_oob b off⟩

/-- without the `end < offset` guard the wrapped sum would be sliced: the guard is needed -/
example : wrapS64 (9223372036854775807 + 1) = -9223372036854775808 := by decide
example : rawBytes 10 9223372036854775807 1 = .val none := by decide
example : rawBytes 10 2 3 = .val (some (2, 5)) := by decide
example : collectionHeaderAt [0x99, 0x01] 0 = .val none := by decide
example : tagHeaderAt [0xd9, 0x01, 0x02, 0x00] 0 = .val (some (258, 3)) := by decide

/-- The bounds checks are needed: without the `len ≥ 3` guard the read does go
    out of range (the `oob` outcome is reachable, the theorems are not vacuous). -/
example : rdN [0x99, 0x01] 1 2 = .oob := by decide
example : infoOf 0x80 [0x99, 0x01] = .val invalid := by decide
example : infoOf 0x80 [0x99, 0x01, 0x02] = .val (258, 3, false) := by decide
example : decode [0x9a, 0x7f, 0xff, 0xff, 0xff, 0x00] = none := by decide

end GV.Props.C02
