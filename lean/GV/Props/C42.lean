import GV.Proofs.PipelineSafe
import GV.Proofs.PipelineLive
/-!
C42 — The block pipeline applies each good block once, in order.

Every block submitted to a started pipeline is applied exactly once, in submission order,
if it decodes (and, when enabled, validates); a block that fails is never applied. Every
submitted block appears exactly once on the results stream. Stopping concurrently with
submissions never panics and ends all pipeline goroutines.

Model: `GV.Model.Pipeline`. Channels are bags and the number of workers is unbounded, so
the theorems cover every buffer size, every 1..N workers per stage and every stage latency;
`Reachable` quantifies over all schedules, including Stop (`cancel`, `close`) at any point.
`subs` is the history of accepted submissions in sequence order, `applied` the history of
ApplyFunc calls, `results` the history of sends on the results channel.
-/
namespace GV.Props.C42
open GV.Model.Pipeline GV.Proofs.Pipeline

/-- `applied_is_prefix_filter`. While the pipeline is not being stopped, the ApplyFunc call
    sequence is exactly the good blocks among the first `decided s` accepted ones, in
    submission order, each once (`decided s` = `nextSequence`, minus the block in hand). -/
theorem applied_is_prefix_filter (c : Cfg) (hc : c.legacy = false) (s : St) (hr : Reachable c s)
    (hcn : s.cancelled = false) :
    s.applied = okSeqs c (s.subs.take (decided s)) :=
  (all_reachable c hc s hr).2.1.applied_eq hcn

/-- In every reachable state, also during and after Stop: blocks are applied in strictly
    increasing sequence order (so none twice), and only good accepted blocks are applied. -/
theorem applied_in_order_at_most_once (c : Cfg) (hc : c.legacy = false) (s : St) (hr : Reachable c s) :
    s.applied.Pairwise (· < ·) ∧ ∀ q ∈ s.applied, ∃ x ∈ s.subs, x.seq = q ∧ x.ok c = true := by
  obtain ⟨_, _, hs⟩ := all_reachable c hc s hr
  exact ⟨hs.applied_sorted, hs.applied_ok⟩

/-- `failed_never_applied`. A block that does not decode (or, with validation enabled, does
    not validate) is never handed to ApplyFunc. -/
theorem failed_never_applied (c : Cfg) (hc : c.legacy = false) (s : St) (hr : Reachable c s)
    (x : Item) (hx : x ∈ s.subs) (hbad : x.ok c = false) : x.seq ∉ s.applied := by
  obtain ⟨_, hh, hs⟩ := all_reachable c hc s hr
  intro hmem
  obtain ⟨y, hy, hyq, hyok⟩ := hs.applied_ok _ hmem
  have := seq_inj hh.subs_seq hy hx hyq
  subst this
  simp [hbad] at hyok

/-- `each_once_on_results`. Results are sent in strictly increasing sequence order (no block
    twice), and while the pipeline is not being stopped the sent results followed by the
    processed-but-not-yet-forwarded blocks are exactly the sequence numbers `0 .. nextSequence-1`:
    every block the apply stage has dequeued appears exactly once. -/
theorem each_once_on_results (c : Cfg) (hc : c.legacy = false) (s : St) (hr : Reachable c s) :
    s.results.Pairwise (· < ·) ∧ (∀ q ∈ s.results, q < s.nextSeq) ∧
    (s.cancelled = false → s.results ++ (outAll s).map Item.seq = List.range s.nextSeq) := by
  obtain ⟨_, hh, hs⟩ := all_reachable c hc s hr
  have h1 := hs.out_sorted
  simp only [outSeqs, List.pairwise_append] at h1
  refine ⟨h1.1, ?_, hh.results_eq⟩
  intro q hq
  exact hs.out_lt q (by simp [outSeqs, hq])

/-- At rest (no pipeline goroutine can move) and not stopped: every accepted block is on the
    results stream exactly once, and the applied blocks are exactly the good ones, in order. -/
theorem at_rest_all_delivered (c : Cfg) (hc : c.legacy = false) (s : St) (hr : Reachable c s)
    (hcn : s.cancelled = false) (hq : Quiescent s) :
    s.applied = okSeqs c s.subs ∧ s.results = List.range s.counter ∧ s.nextSeq = s.counter := by
  obtain ⟨hg, hh, _⟩ := all_reachable c hc s hr
  have hn := quiescent_next s hg hcn hq
  have hlen : s.subs.length = s.counter := by simpa using congrArg List.length hh.subs_seq
  obtain ⟨_, _, _, _, _, q6⟩ := hq
  have ha := hh.applied_eq hcn
  have hres := hh.results_eq hcn
  simp only [decided, outAll, q6, hn, List.map_nil, List.append_nil] at ha hres
  refine ⟨?_, hres, hn⟩
  rw [ha, ← hlen, List.take_length]

/-- No stuck state: in every reachable state that is not at rest some pipeline goroutine can
    take a step (the pipeline never deadlocks internally). -/
theorem no_stuck_state (c : Cfg) (s : St) (hr : Reachable c s) (hq : ¬ Quiescent s) :
    ∃ e, internal e = true ∧ (step c s e).isSome = true :=
  progress c s (wf_reachable c s hr) hq

/-- Every step of a pipeline goroutine strictly decreases the measure: from any state the
    goroutines reach rest after at most `measure s` steps unless new blocks are submitted. -/
theorem goroutine_steps_decrease (c : Cfg) (s : St) (e : Ev) (s' : St)
    (hi : internal e = true) (hs : step c s e = some s') : measure s' < measure s :=
  internal_step_decreases c s e s' hi hs

/-- `stop_terminates`. Once Stop has closed the submit channel no schedule, however long,
    contains more than `measure s` steps of pipeline goroutines: they all come to an end. -/
theorem stop_terminates (c : Cfg) (hc : c.legacy = false) (es : List Ev) (s s' : St)
    (hcl : s.closed = true) (hrun : run c s es = some s') :
    (es.filter internal).length ≤ measure s := by
  have := closed_run_bounded c hc es s s' hcl hrun
  omega

/-- Non-vacuity: two workers' worth of reordering, a block that fails to decode, Stop at the end. -/
example :
    (run ⟨true, false⟩ init
      [.start, .enter, .acq ⟨0, true, true⟩, .sub ⟨0, true, true⟩, .enter, .acq ⟨1, false, false⟩, .sub ⟨1, false, false⟩, .enter, .acq ⟨2, true, true⟩, .sub ⟨2, true, true⟩,
       .dt ⟨2, true, true⟩, .dt ⟨0, true, true⟩, .dp ⟨2, true, true⟩, .vt ⟨2, true, true⟩,
       .vp ⟨2, true, true⟩, .at_ ⟨2, true, true⟩, .ab ⟨2, true, true⟩, .dt ⟨1, false, false⟩,
       .dp ⟨1, false, false⟩, .dp ⟨0, true, true⟩, .vt ⟨0, true, true⟩, .vt ⟨1, false, false⟩,
       .vp ⟨1, false, false⟩, .at_ ⟨1, false, false⟩, .ab ⟨1, false, false⟩, .vp ⟨0, true, true⟩,
       .at_ ⟨0, true, true⟩, .aq ⟨0, true, true⟩, .ap ⟨0, true, true⟩, .ad ⟨0, true, true⟩,
       .aq ⟨1, false, false⟩, .ad ⟨1, false, false⟩, .aq ⟨2, true, true⟩, .ap ⟨2, true, true⟩,
       .ad ⟨2, true, true⟩, .rs ⟨0, true, true⟩, .rs ⟨1, false, false⟩, .rs ⟨2, true, true⟩,
       .cancel, .close]).map
      (fun s => (decide (Quiescent s), s.applied, s.results, measure s))
      = some (true, [0, 2], [0, 1, 2], 0) := by decide

end GV.Props.C42
