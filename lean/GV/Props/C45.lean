import GV.Proofs.Rewards
/-!
C45 — Reward calculation distributes exactly the reward pot.

Whenever reward calculation succeeds, the pool totals add up exactly to the reward pot.
Each pool's operator reward plus its delegator rewards add up exactly to that pool's
total, and no individual amount exceeds the pot (no wrap-around).

The theorems are about `GV.Model.Rewards.calculate`, the integer skeleton of
`CalculateRewards` / `distributePoolRewards` (after the `fix:` commit) in which every
float-derived quantity is an arbitrary function `fd : FD`: they hold for EVERY
floating-point behaviour. `pools` is the list of pools with parameters in the (arbitrary)
iteration order of the Go map; the delegators of each pool likewise.
-/
namespace GV.Props.C45
open GV.Model.Rewards GV.Proofs.Rewards

theorem totals_eq_amounts (fd : FD) :
    ∀ (ps : List Pool) (ts : List Nat), ps.length = ts.length →
      ((ps.zip ts).map fun (p, t) => (distribute fd p t).total) = ts := by
  intro ps
  induction ps with
  | nil => intro ts h; cases ts with | nil => rfl | cons _ _ => simp at h
  | cons p ps ih =>
    intro ts h
    cases ts with
    | nil => simp at h
    | cons t ts =>
      simp only [List.zip_cons_cons, List.map_cons, List.cons.injEq]
      refine ⟨?_, ih ts (by simpa using h)⟩
      unfold distribute; split <;> rfl

/-- The pool totals add up exactly to the reward pot. -/
theorem pools_sum_to_pot (pot : Nat) (fd : FD) (pools : List Pool) (hp : pot < W) (hne : pools ≠ []) :
    ((calculate pot fd pools).map (·.total)).sum = pot := by
  have h := totals_eq_amounts fd pools (amounts pot fd pools.length pools 0) (amounts_length pot fd pools.length pools 0).symm
  simp only [calculate, List.map_map]
  have : ((fun x : PoolOut => x.total) ∘ fun x : Pool × Nat => distribute fd x.1 x.2) =
      fun x : Pool × Nat => (distribute fd x.1 x.2).total := rfl
  rw [this]
  rw [h]
  have := (amounts_sum pot fd pools.length (List.length_pos_iff.mpr hne) hp pools 0 hne (Nat.zero_le _)).1
  omega

theorem mem_calculate {pot : Nat} {fd : FD} {pools : List Pool} {o : PoolOut} (hp : pot < W)
    (hne : pools ≠ []) (ho : o ∈ calculate pot fd pools) :
    ∃ p t, t ≤ pot ∧ o = distribute fd p t := by
  simp only [calculate, List.mem_map] at ho
  obtain ⟨⟨p, t⟩, hz, rfl⟩ := ho
  have ht : t ∈ amounts pot fd pools.length pools 0 := (List.of_mem_zip hz).2
  have := (amounts_sum pot fd pools.length (List.length_pos_iff.mpr hne) hp pools 0 hne (Nat.zero_le _)).2 t ht
  exact ⟨p, t, by omega, rfl⟩

/-- Each pool's operator reward plus its delegator rewards add up exactly to the pool's total. -/
theorem operator_plus_delegators_eq_total (pot : Nat) (fd : FD) (pools : List Pool) (hp : pot < W)
    (hne : pools ≠ []) : ∀ o ∈ calculate pot fd pools, o.op + o.delSum = o.total := by
  intro o ho
  obtain ⟨p, t, ht, rfl⟩ := mem_calculate hp hne ho
  obtain ⟨e1, e2, _, _⟩ := distribute_exact fd p t (by omega)
  show (distribute fd p t).op + rewardSum (distribute fd p t).dels = (distribute fd p t).total
  rw [e1]; exact e2

/-- No individual amount exceeds the pot: nothing wraps around. -/
theorem each_le_pot (pot : Nat) (fd : FD) (pools : List Pool) (hp : pot < W) (hne : pools ≠ []) :
    ∀ o ∈ calculate pot fd pools,
      o.total ≤ pot ∧ o.op ≤ pot ∧ ∀ e ∈ o.dels, e.2.getD 0 ≤ pot := by
  intro o ho
  obtain ⟨p, t, ht, rfl⟩ := mem_calculate hp hne ho
  obtain ⟨e1, _, e3, e4⟩ := distribute_exact fd p t (by omega)
  refine ⟨by omega, by omega, ?_⟩
  intro e he
  have := e4 e he
  omega

/-- every pool with parameters gets exactly one entry, in iteration order -/
theorem one_entry_per_pool (pot : Nat) (fd : FD) (pools : List Pool) :
    (calculate pot fd pools).map (·.idx) = pools.map (·.idx) := by
  have hl := amounts_length pot fd pools.length pools 0
  simp only [calculate, List.map_map]
  generalize amounts pot fd pools.length pools 0 = ts at hl
  induction pools generalizing ts with
  | nil => simp
  | cons p ps ih =>
    cases ts with
    | nil => simp at hl
    | cons t ts =>
      simp only [List.zip_cons_cons, List.map_cons, List.cons.injEq, Function.comp]
      refine ⟨?_, ih ts (by simpa using hl)⟩
      unfold distribute; split <;> rfl

-- ---------------------------------------------------------------- witnesses / non-vacuity

def wPool (i : Nat) (cost : Nat) (dels : List Del) : Pool :=
  { idx := i, stake := 0, blocks := 0, cost := cost, mnum := 0, mden := 1, dels := dels }

/-- float behaviour of the DESIGN.md witness: float64(2^53+3) = 2^53+4, shares 1 and 0 -/
def wFD : FD :=
  { poolT := fun p => if p.idx = 0 then 2 ^ 53 + 4 else 0
    opPart := fun _ total => total + 1
    delPart := fun _ _ S => S + 1 }

/-- The arithmetic before the repair on that witness: the pool iterated first gets pot + 1,
    the last one wraps to 2^64 - 1. -/
theorem legacy_last_pool_wraps :
    Legacy.amounts (2 ^ 53 + 3) wFD [wPool 0 0 [], wPool 1 0 []] 0 = [2 ^ 53 + 4, 2 ^ 64 - 1] := by
  decide

/-- The repaired arithmetic on the same float behaviour (also rounding the operator share and
    the delegator reward upwards): exact. -/
example :
    calculate (2 ^ 53 + 3) wFD [wPool 0 7 [⟨0, 5, true, false⟩, ⟨1, 5, false, false⟩], wPool 1 0 []]
      = [⟨0, 2 ^ 53 + 3, 2 ^ 53 + 3, [(0, none), (1, none)]⟩, ⟨1, 0, 0, []⟩] := by decide +kernel

example :
    calculate 1000 { poolT := fun p => if p.idx = 0 then 600 else 399, opPart := fun _ _ => 10,
                     delPart := fun _ d _ => d.stake * 100 }
      [wPool 0 50 [⟨0, 3, true, true⟩, ⟨1, 2, true, false⟩], wPool 1 500 [⟨0, 9, true, false⟩]]
      = [⟨0, 600, 100, [(0, some 300), (1, some 200)]⟩, ⟨1, 400, 400, [(0, none)]⟩] := by decide +kernel

end GV.Props.C45
