import GV.Model.RecvBuffer
import GV.Model.Reassembly
import GV.Proofs.Reassembly
import GV.Gen.LimitsG4
import GV.Model.RecvEngine
import GV.Proofs.RecvEngine
import GV.Model.StateMachines
import GV.Gen.StateMaps
/-!
C13 — Receive buffering is bounded.

In every state that declares a byte limit, an endpoint never holds more unprocessed received
message bytes than that limit (apart from the single message being processed). A single
message larger than the limit, or an incomplete message that grows past the 16 MiB
read-buffer bound, ends the protocol with an error. A fast sender is slowed down rather
than causing an error, and the slowing down never deadlocks the connection.

Level: partial. The accounting, the two error rules and progress of the back-pressure wait
are theorems about the model for every schedule; that the real scheduler / TCP actually
slow the sender down is exercised by the correspondence run, not proved.
-/
namespace GV.Props.C13
open GV.Model.RecvBuffer

/-- Accounting invariant: the byte counter is the sum of the recorded sizes. -/
def Inv (s : Acct) : Prop := s.pending = s.sizes.sum

theorem inv_init : Inv Acct.init := rfl

theorem inv_step (s s' : Acct) (a : Act) (h : Inv s) (hs : step s a = some s') : Inv s' := by
  unfold Inv at *
  cases a with
  | acc size limit =>
    simp only [step] at hs
    cases hacc : accept s size limit with
    | ok s2 =>
      simp only [hacc, Option.some.injEq] at hs
      subst hs
      unfold accept at hacc
      by_cases hl : limit > 0
      · simp only [hl, ↓reduceIte] at hacc
        by_cases h1 : size > limit
        · simp [h1] at hacc
        · simp only [h1, ↓reduceIte] at hacc
          by_cases h2 : s.pending + size ≤ limit
          · simp only [h2, ↓reduceIte, AcceptRes.ok.injEq] at hacc
            subst hacc
            simp [h]
          · simp [h2] at hacc
      · simp only [hl, ↓reduceIte, AcceptRes.ok.injEq] at hacc
        subst hacc
        simp [h]
    | oversize => simp [hacc] at hs
    | blocked => simp [hacc] at hs
  | rel =>
    simp only [step, Option.some.injEq] at hs
    subst hs
    unfold release
    cases hsz : s.sizes with
    | nil => simp only [hsz] at h ⊢; exact h
    | cons x t =>
      simp only [hsz, List.sum_cons] at h ⊢
      omega

/-- `pendingRecvBytes = Σ pendingRecvSizes` after every schedule of accepts and releases. -/
theorem sizes_sum (sched : List Act) : ∀ (s s' : Acct), Inv s → run s sched = some s' → Inv s' := by
  induction sched with
  | nil => intro s s' h hr; simp only [run, Option.some.injEq] at hr; subst hr; exact h
  | cons a rest ih =>
    intro s s' h hr
    simp only [run] at hr
    cases hst : step s a with
    | none => simp [hst] at hr
    | some s1 => rw [hst] at hr; exact ih s1 s' (inv_step s s1 a h hst) hr

/-- Every accept in a state that declares a limit leaves the pending bytes within the limit
    (the limit being the one read at that accept). -/
theorem pending_le_limit_at_accept (s s' : Acct) (size limit : Nat) (hl : 0 < limit)
    (h : accept s size limit = .ok s') : s'.pending ≤ limit := by
  unfold accept at h
  simp only [hl, ↓reduceIte] at h
  split at h
  · simp at h
  · split at h
    · simp only [AcceptRes.ok.injEq] at h; subst h; simpa
    · simp at h

/-- With limits bounded by `L` in every accepting state (chain-sync NtN: uniformly 462000;
    block-fetch client: 2500000 in Busy and Streaming) the pending bytes never exceed `L`,
    for every schedule of producer and consumer steps. -/
theorem pending_le_limit (L : Nat) (sched : List Act) :
    ∀ (s s' : Acct), s.pending ≤ L →
    (∀ size limit, Act.acc size limit ∈ sched → 0 < limit ∧ limit ≤ L) →
    run s sched = some s' → s'.pending ≤ L := by
  induction sched with
  | nil => intro s s' h _ hr; simp only [run, Option.some.injEq] at hr; subst hr; exact h
  | cons a rest ih =>
    intro s s' h hall hr
    simp only [run] at hr
    cases hst : step s a with
    | none => simp [hst] at hr
    | some s1 =>
      rw [hst] at hr
      have h1 : s1.pending ≤ L := by
        cases a with
        | acc size limit =>
          have hb := hall size limit (by simp)
          simp only [step] at hst
          cases hacc : accept s size limit with
          | ok s2 =>
            simp only [hacc, Option.some.injEq] at hst
            subst hst
            have := pending_le_limit_at_accept s s2 size limit hb.1 hacc
            omega
          | oversize => simp [hacc] at hst
          | blocked => simp [hacc] at hst
        | rel =>
          simp only [step, Option.some.injEq] at hst
          subst hst
          unfold release
          cases hsz : s.sizes with
          | nil => simpa [hsz] using h
          | cons x t => simp only [hsz]; omega
      exact ih s1 s' h1 (fun sz lm hm => hall sz lm (by simp [hm])) hr

/-- A single message larger than the declared limit ends the protocol with an error,
    whatever is pending. -/
theorem oversize_errors (s : Acct) (size limit : Nat) (hl : 0 < limit) (h : size > limit) :
    accept s size limit = .oversize ∧ step s (.acc size limit) = none := by
  have : accept s size limit = .oversize := by simp [accept, hl, h]
  exact ⟨this, by simp [step, this]⟩

/-- A message that fits the limit is never an error, however much is pending: the fast
    sender is postponed (`blocked`), not disconnected. -/
theorem fits_never_error (s : Acct) (size limit : Nat) (h : size ≤ limit) :
    accept s size limit ≠ .oversize := by
  unfold accept
  split
  · have : ¬ size > limit := by omega
    simp only [this, ↓reduceIte]
    split <;> simp
  · simp

/-- Without a declared limit nothing is ever postponed or refused. -/
theorem no_limit_accepts (s : Acct) (size : Nat) : ∃ s', accept s size 0 = .ok s' := by
  simp [accept]

theorem releaseN_all (sizes : List Nat) : ∀ (s : Acct), s.sizes = sizes → Inv s →
    releaseN s sizes.length = ⟨0, []⟩ := by
  induction sizes with
  | nil =>
    intro s hs hi
    unfold Inv at hi
    simp only [hs, List.sum_nil] at hi
    cases s; simp_all [releaseN]
  | cons x t ih =>
    intro s hs hi
    simp only [List.length_cons, releaseN]
    apply ih
    · simp [release, hs]
    · unfold Inv at *
      simp only [release, hs, List.sum_cons] at hi ⊢
      omega

/-- **Back-pressure makes progress.** Whenever an accept is postponed, the consumer can
    always take a step (release is always enabled and strictly shortens the queue), and
    after at most `sizes.length` consumer steps the postponed message is accepted: the wait
    loop cannot deadlock against the draining loop. -/
theorem backpressure_progress (s : Acct) (size limit : Nat) (hi : Inv s) (hfit : size ≤ limit) :
    (∀ s1 : Acct, s1.sizes ≠ [] → (release s1).sizes.length < s1.sizes.length) ∧
    ∃ k, k ≤ s.sizes.length ∧ ∃ s', accept (releaseN s k) size limit = .ok s' := by
  constructor
  · intro s1 hne
    unfold release
    cases hsz : s1.sizes with
    | nil => exact absurd hsz hne
    | cons x t => simp
  · refine ⟨s.sizes.length, Nat.le_refl _, ?_⟩
    rw [releaseN_all s.sizes s rfl hi]
    unfold accept
    split
    · have : ¬ size > limit := by omega
      simp [this, hfit]
    · simp

/-! ### The 16 MiB bound on an incomplete message -/

open GV.Model.Reassembly GV.Proofs.Reassembly in
/-- An incomplete buffer larger than `maxReadBufferSize` ends the protocol with an error. -/
theorem incomplete_growth_errors (wf : Bytes → Res) (buf : Bytes) (out : List Bytes)
    (h : wf buf = .needMore) (hbig : buf.length > GV.Model.Reassembly.maxReadBuffer) :
    (drain wf buf out).2.2 = some .tooBig := by
  have hne : buf.isEmpty = false := by
    cases buf with
    | nil => simp [GV.Model.Reassembly.maxReadBuffer] at hbig
    | cons _ _ => rfl
  rw [drain]
  simp [hne, h, hbig]

open GV.Model.Reassembly GV.Proofs.Reassembly in
/-- … and one within the bound is kept, waiting for more (no error). -/
theorem incomplete_within_bound_waits (wf : Bytes → Res) (buf : Bytes) (out : List Bytes)
    (h : wf buf = .needMore) (hsmall : buf.length ≤ GV.Model.Reassembly.maxReadBuffer) :
    drain wf buf out = (buf, out, none) := by
  by_cases hne : buf = []
  · subst hne; exact drain_nil wf out
  · exact drain_needMore wf buf out hne h hsmall

section endless
open GV.Model.Reassembly GV.Proofs.Reassembly

theorem fold_err_stays (wf : Bytes → Res) (segs : List Bytes) (s : RState) (e : RErr)
    (h : s.err = some e) : segs.foldl (recvSeg wf) s = s := by
  induction segs with
  | nil => rfl
  | cons x t ih =>
    simp only [List.foldl_cons]
    have : recvSeg wf s x = s := by simp [recvSeg, h]
    rw [this]; exact ih

theorem endless_aux (wf : Bytes → Res) (segs : List Bytes) : ∀ (pre : Bytes) (out : List Bytes) (i : Nat),
    (∀ k, k < segs.length → wf (pre ++ (segs.take (k + 1)).flatten) = .needMore) →
    (segs.foldl (recvSeg wf) ⟨pre, out, none⟩).err =
      (growErrAt.go pre.length i (segs.map List.length)).map (fun _ => RErr.tooBig) := by
  induction segs with
  | nil => intro pre out i _; simp [growErrAt.go]
  | cons sg t ih =>
    intro pre out i hk
    simp only [List.foldl_cons, List.map_cons, growErrAt.go]
    have h0 : wf (pre ++ sg) = .needMore := by
      have := hk 0 (by simp)
      simpa using this
    by_cases hbig : pre.length + sg.length > GV.Model.RecvBuffer.maxReadBuffer
    · have hbig' : (pre ++ sg).length > GV.Model.Reassembly.maxReadBuffer := by
        simpa [GV.Model.Reassembly.maxReadBuffer, GV.Model.RecvBuffer.maxReadBuffer] using hbig
      have hne : (pre ++ sg).isEmpty = false := by
        cases hps : pre ++ sg with
        | nil => simp [hps, GV.Model.Reassembly.maxReadBuffer] at hbig'
        | cons _ _ => rfl
      have hd : drain wf (pre ++ sg) out = (pre ++ sg, out, some .tooBig) := by
        rw [drain]
        simp only [hne, Bool.false_eq_true, ↓reduceIte, h0]
        rw [if_pos hbig']
      have hstep : recvSeg wf ⟨pre, out, none⟩ sg = ⟨pre ++ sg, out, some .tooBig⟩ := by
        simp [recvSeg, hd]
      rw [hstep, fold_err_stays wf t _ .tooBig rfl]
      simp [hbig]
    · have hsmall : (pre ++ sg).length ≤ GV.Model.Reassembly.maxReadBuffer := by
        simp only [List.length_append]
        simp only [GV.Model.Reassembly.maxReadBuffer, GV.Model.RecvBuffer.maxReadBuffer] at hbig ⊢
        omega
      have hd := incomplete_within_bound_waits wf (pre ++ sg) out h0 hsmall
      have hstep : recvSeg wf ⟨pre, out, none⟩ sg = ⟨pre ++ sg, out, none⟩ := by
        simp [recvSeg, hd]
      rw [hstep]
      simp only [hbig, ↓reduceIte]
      have := ih (pre ++ sg) out (i + 1) (by
        intro k hkl
        have := hk (k + 1) (by simp; omega)
        simpa [List.append_assoc] using this)
      simpa using this

/-- **Endless incomplete CBOR.** If every cumulative buffer is an incomplete item, the read
    loop fails with "read buffer exceeded maximum size" exactly at the first segment that
    takes the buffer past `maxReadBufferSize` — and never before. -/
theorem endless_incomplete_errors (wf : Bytes → Res) (segs : List Bytes)
    (h : ∀ k, k < segs.length → wf ((segs.take (k + 1)).flatten) = .needMore) :
    (readAll wf segs).err = (growErrAt (segs.map List.length)).map (fun _ => RErr.tooBig) := by
  have := endless_aux wf segs [] [] 0 (by simpa using h)
  simpa [readAll, RState.init, growErrAt] using this

end endless


/-! ### Per-state limits: the limit consulted is that of a state that lags behind the queue -/

section perstate
open GV.SM GV.Model.RecvEngine GV.Proofs.RecvEngine

/-- `StateMap[id].PendingMessageByteLimit` in a generated table. -/
def limitOf (m : Machine) (id : Nat) : Nat :=
  match m.stateOf id with
  | some s => s.limit
  | none => 0

/-- The engine parameters of a generated machine (`Gen/StateMaps`, read out of the running
    code on every run). -/
def engOf (m : Machine) : Eng Sym := ⟨m.agencyOf, limitOf m, m.step⟩

/-- Table check: every transition into a state with a tighter byte limit changes the agency. -/
def tightenOk (m : Machine) : Bool :=
  m.trans.all fun tr =>
    !(tightens (limitOf m tr.src) (limitOf m tr.dst)) || (m.agencyOf tr.dst != m.agencyOf tr.src)

def agencyOk (m : Machine) : Bool := m.states.all fun s => decide (s.agency ≤ 2)

theorem findTr_mem (ts : List Tr) (s : Nat) (a : Sym) (d : Nat) (h : findTr ts s a = some d) :
    ∃ tr ∈ ts, tr.src = s ∧ tr.dst = d := by
  induction ts with
  | nil => simp [findTr] at h
  | cons t rest ih =>
    simp only [findTr] at h
    split at h
    · rename_i hc
      simp only [Option.some.injEq] at h
      exact ⟨t, by simp, hc.1, h⟩
    · obtain ⟨tr, hm, h1, h2⟩ := ih h
      exact ⟨tr, by simp [hm], h1, h2⟩

theorem handover_of_table (m : Machine) (h : tightenOk m = true) :
    LimitDropsOnHandover (engOf m) := by
  intro s a d hn ht
  obtain ⟨tr, hm, h1, h2⟩ := findTr_mem m.trans s a d hn
  unfold tightenOk at h
  rw [List.all_eq_true] at h
  have := h tr hm
  subst h1 h2
  simp only [engOf] at ht ⊢
  simp only [ht, Bool.not_true, Bool.false_or, bne_iff_ne, ne_eq] at this
  exact this

theorem agencyRange_of_table (m : Machine) (h : agencyOk m = true) : AgencyRange (engOf m) := by
  intro s
  simp only [engOf, Machine.agencyOf, Machine.stateOf]
  cases hf : m.states.find? (fun st => decide (st.id = s)) with
  | none => simp
  | some st =>
    have hmem : st ∈ m.states := List.mem_of_find?_eq_some hf
    unfold agencyOk at h
    rw [List.all_eq_true] at h
    simpa using h st hmem

/-- **Limit drops only on an empty queue — decided on every generated state map.** In all
    36 machines read out of the running code, every transition into a state with a tighter
    `PendingMessageByteLimit` (block-fetch: BatchDone / NoBlocks into Idle) hands the agency
    over, so a peer that respects agency has nothing queued behind it. -/
theorem limit_drops_only_on_handover :
    ∀ m ∈ GV.Gen.StateMaps.all, tightenOk m = true ∧ agencyOk m = true := by decide

/-- **Per-state bound.** For every generated machine, either role, every schedule of peer
    sends (respecting agency), accepts with the limit of the lagging current state, handler
    starts / ends and own sends: whenever the current state declares a limit, the bytes queued
    behind the message being handled never exceed it. -/
theorem pending_le_state_limit (m : Machine) (hm : m ∈ GV.Gen.StateMaps.all)
    (us : Nat) (hus : us = 1 ∨ us = 2) (acts : List (EAct Sym)) (s' : ES Sym)
    (hr : erun (engOf m) us ⟨m.init, [], false⟩ acts = some s')
    (hl : limitOf m s'.cur > 0) :
    sumSizes s'.path ≤ limitOf m s'.cur := by
  have ht := limit_drops_only_on_handover m hm
  have hinv := einv_run (engOf m) us hus (handover_of_table m ht.1) (agencyRange_of_table m ht.2)
    acts _ s' (einv_init (engOf m) us m.init) hr
  exact hinv.2.2 hl

/-- The handover condition is necessary: a table where a tightening transition keeps the
    agency with the peer admits a run that breaks the bound (so the table check is not
    vacuous). -/
example :
    let E : Eng Nat := ⟨fun _ => 2, fun s => if s = 0 then 100 else 10, fun s _ => some (s + 1)⟩
    ∃ s', erun E 1 ⟨0, [], false⟩ [.peerSend 0 50, .peerSend 0 50, .beginH] = some s' ∧
      ¬ (sumSizes s'.path ≤ E.limit s'.cur) := by
  refine ⟨⟨1, [(0, 50), (0, 50)], true⟩, by rfl, by decide⟩

/-- Non-vacuity on the real block-fetch client table: a batch is queued while the state is
    still Busy, handled one by one, and after BatchDone the Idle limit applies with nothing
    queued. -/
example : (erun (engOf GV.Gen.StateMaps.blockfetch_client) 1 ⟨100000, [], false⟩
    [.ourSend ⟨0, 0⟩, .peerSend ⟨2, 0⟩ 2, .peerSend ⟨4, 0⟩ 2000000, .peerSend ⟨5, 0⟩ 2,
     .beginH, .endH, .beginH, .endH, .beginH]).map (fun s => (s.cur, sumSizes s.path)) =
    some (100000, 0) := by decide

end perstate

/-! ### Regenerated limits (from the source on every run) -/

/-- Every state in which the block-fetch client receives declares the same limit, so a
    block read while the state machine still lags in Busy is judged like one read in
    Streaming; and chain-sync NtN / block-fetch declare non-zero limits. -/
theorem declared_limits :
    GV.Gen.LimitsG4.blockfetchBusyMaxPendingMessageBytes =
      GV.Gen.LimitsG4.blockfetchStreamingMaxPendingMessageBytes ∧
    0 < GV.Gen.LimitsG4.chainsyncMaxPendingMessageBytes ∧
    0 < GV.Gen.LimitsG4.blockfetchIdleMaxPendingMessageBytes ∧
    0 < GV.Gen.LimitsG4.blockfetchStreamingMaxPendingMessageBytes ∧
    GV.Gen.LimitsG4.blockfetchStreamingMaxPendingMessageBytes ≤ GV.Gen.Limits.maxReadBufferSize ∧
    GV.Gen.LimitsG4.chainsyncMaxPendingMessageBytes ≤ GV.Gen.Limits.maxReadBufferSize := by
  decide

/-! ### Non-vacuity -/

/-- A reachable blocked state that becomes enabled after one consumer step. -/
example : run Acct.init [.acc 60 100, .acc 40 100] = some ⟨100, [60, 40]⟩ ∧
    accept ⟨100, [60, 40]⟩ 50 100 = .blocked ∧
    accept (release ⟨100, [60, 40]⟩) 50 100 = .ok ⟨90, [40, 50]⟩ ∧
    accept Acct.init 101 100 = .oversize := by decide

end GV.Props.C13
