import GV.Props.C09
import GV.Props.C10
import GV.Props.C10cbor
/-!
C10 (with C09) — END-TO-END TRANSPORT THEOREM.

Composition of the two halves that were proved separately:

* C09 (`GV.Props.C09.delivery_intact`): for every interleaving of the per-protocol segment
  lists on the wire and every fragmentation of the byte stream, the muxer's read loop +
  demultiplexer hands each registered receiver exactly its own payloads in send order.
* C10 (`GV.Props.C10.end_to_end`, `GV.Props.C10cbor.reassemble_id_cbor`): for every cutting of
  a queue of well-formed CBOR messages into segment payloads the protocol read loop hands
  over exactly the queue.

Here: ANY number of mini-protocols, each queueing ANY sequence of well-formed CBOR items
(each at most `maxReadBufferSize` bytes); ANY batching of each queue by the send loop into
segments (or, more generally, any cutting into payloads of 1..65535 bytes); ANY timestamps;
ANY interleaving of the protocols' segments on the wire (goroutines serialised by the send
mutex); ANY fragmentation of the resulting byte stream into read chunks. The receiving
side = `GV.Model.Muxer.run` (incremental header/payload reader, diffusion-mode check,
receiver lookup) followed, per receiver, by `GV.Model.Reassembly.readAll` with the real
CBOR item parser `GV.Cbor.wfItem`. Every registered protocol receives exactly the message
sequence its peer queued — same order, identical bytes — with no reassembly error, nothing
left in its buffer, and the connection ends at a clean segment boundary.
-/
namespace GV.Props.C10e2e
open GV.Model.Muxer GV.Proofs.Muxer
open GV.Model.Reassembly (readAll sendSegs batchOk maxReadBuffer)
open GV.Props.C09 (pidOf modeAllows delivery_intact newSegment_pid newSegment_len_guard)
open GV.Props.C10cbor (wfItem' IsCborItem reassemble_id_cbor)

/-- **The whole receiving side for receiver `k`.** The muxer consumes the read chunks
    (`run`: byte-incremental reader, mode check, receiver lookup); the payloads it delivers to
    `k`'s channel, in delivery order, are fed one by one to that protocol's read loop, which
    decodes CBOR items off the front of its buffer with the real well-formedness machine. -/
def receive (c : Cfg) (chunks : List Bytes) (k : Nat × Role) : GV.Model.Reassembly.RState :=
  readAll wfItem' (deliveredTo k (run c chunks).1)

/-- Wire field of a receiver key with a 15-bit protocol number fits the 16-bit header field. -/
theorem pidOf_lt (k : Nat × Role) (h : k.1 < 32768) : pidOf k < 65536 := by
  unfold pidOf
  split <;> omega

/-- **End-to-end transport, general cutting.** `keys[i]` is the peer's receiver for the i-th
    sending protocol, `queues[i]` the messages it queued, `ls[i]` the segments it wrote: any
    timestamps, the receiver's wire id, payloads of 1..65535 bytes that concatenate to the
    queue's bytes (ANY cutting — message boundaries and segment boundaries are unrelated).
    `w` is ANY interleaving of the `ls[i]`, `chunks` ANY fragmentation of the wire bytes. -/
theorem e2e_transport (c : Cfg) (keys : List (Nat × Role)) (queues : List (List Bytes))
    (ls : List (List Seg)) (w : List Seg) (chunks : List Bytes)
    (hlenq : queues.length = keys.length) (hlen : ls.length = keys.length)
    (hnd : keys.Nodup)
    (hid : ∀ k ∈ keys, k.1 < 32768)
    (hreg : ∀ k ∈ keys, hasKey c.regs k.1 k.2 = true ∧ modeAllows c.mode k.2)
    (hmsg : ∀ q ∈ queues, ∀ m ∈ q, IsCborItem m ∧ m.length ≤ maxReadBuffer)
    (hseg : ∀ (i : Nat) (l : List Seg) (k : Nat × Role) (q : List Bytes),
      ls[i]? = some l → keys[i]? = some k → queues[i]? = some q →
        (∀ s ∈ l, s.ts < 4294967296 ∧ s.pid = pidOf k ∧
                  0 < s.payload.length ∧ s.payload.length ≤ 65535) ∧
        (l.map (·.payload)).flatten = q.flatten)
    (hi : Interleaving ls w)
    (hc : chunks.flatten = w.flatMap encSeg) :
    (run c chunks).2 = End.eofHeader ∧
    ∀ (i : Nat) (k : Nat × Role) (q : List Bytes), keys[i]? = some k → queues[i]? = some q →
      (receive c chunks k).msgs = q ∧ (receive c chunks k).err = none ∧
      (receive c chunks k).buf = [] := by
  -- the C09 half
  have hmux := delivery_intact c keys ls w chunks hlen hnd hid hreg (by
    intro i l k hl hk s hs
    have hlt : i < keys.length := (List.getElem?_eq_some_iff.mp hk).1
    have hq : queues[i]? = some (queues[i]'(by omega)) := List.getElem?_eq_getElem (by omega)
    obtain ⟨hts, hpid, hpos, hmax⟩ := (hseg i l k _ hl hk hq).1 s hs
    have hkm : k ∈ keys := List.mem_of_getElem? hk
    exact ⟨⟨hts, by rw [hpid]; exact pidOf_lt k (hid k hkm), hpos, hmax⟩, hpid⟩) hi hc
  refine ⟨hmux.1, ?_⟩
  intro i k q hk hq
  have hlt : i < keys.length := (List.getElem?_eq_some_iff.mp hk).1
  have hl : ls[i]? = some (ls[i]'(by omega)) := List.getElem?_eq_getElem (by omega)
  have hdel := hmux.2 i _ k hl hk
  have hqm : q ∈ queues := List.mem_of_getElem? hq
  -- the C10 half, on exactly what the muxer delivered
  unfold receive
  rw [hdel]
  exact reassemble_id_cbor q _ (fun m hm => (hmsg q hqm m hm).1) (fun m hm => (hmsg q hqm m hm).2)
    (hseg i _ k q hl hk hq).2

/-- What one sending protocol puts on the wire for its batches `bs` towards the peer's
    receiver `k`: the send loop's payloads (`sendSegs`: each batch buffer cut into 65535-byte
    pieces), each wrapped by `NewSegment` (protocol number `k.1`, response flag set exactly when
    the peer's receiver is the initiator side) with some 32-bit timestamp. -/
def SentBy (k : Nat × Role) (bs : List (List Bytes)) (l : List Seg) : Prop :=
  l.map (·.payload) = sendSegs bs ∧
  ∀ s ∈ l, ∃ ts, ts < 4294967296 ∧
    newSegment ts k.1 s.payload (decide (k.2 = Role.initiator)) = some s

theorem sentBy_seg (k : Nat × Role) (hk : k.1 < 32768) (bs : List (List Bytes)) (l : List Seg)
    (h : SentBy k bs l) :
    (∀ s ∈ l, s.ts < 4294967296 ∧ s.pid = pidOf k ∧
              0 < s.payload.length ∧ s.payload.length ≤ 65535) ∧
    (l.map (·.payload)).flatten = bs.flatten.flatten := by
  obtain ⟨hp, hn⟩ := h
  refine ⟨?_, by rw [hp]; exact (GV.Props.C10.segments_ok bs).2⟩
  intro s hs
  obtain ⟨ts, hts, hns⟩ := hn s hs
  have hpid := newSegment_pid ts k.1 s.payload _ hk s hns
  have hb := (GV.Props.C10.segments_ok bs).1 s.payload (by rw [← hp]; exact List.mem_map_of_mem hs)
  have hts' : s.ts = ts := by
    unfold newSegment at hns
    split at hns
    · simp at hns
    · simp only [Option.some.injEq] at hns
      rw [← hns]
  refine ⟨by rw [hts']; exact hts, ?_, hb.1, hb.2⟩
  rw [hpid]
  obtain ⟨id, r⟩ := k
  cases r <;> rfl

/-- **End-to-end transport, send loop to receive queue.** `batches[i]` is ANY grouping of the
    i-th protocol's queue into batches by `readSendQueueLoop` (several messages in one segment,
    one message over many segments, any timing); `ls[i]` the segments `sendLoop` + `NewSegment`
    produce for them; `w` ANY interleaving; `chunks` ANY fragmentation. Every registered
    receiver's read loop hands over exactly the queue `batches[i].flatten`, no error. -/
theorem e2e_transport_sendLoop (c : Cfg) (keys : List (Nat × Role))
    (batches : List (List (List Bytes)))
    (ls : List (List Seg)) (w : List Seg) (chunks : List Bytes)
    (hlenb : batches.length = keys.length) (hlen : ls.length = keys.length)
    (hnd : keys.Nodup)
    (hid : ∀ k ∈ keys, k.1 < 32768)
    (hreg : ∀ k ∈ keys, hasKey c.regs k.1 k.2 = true ∧ modeAllows c.mode k.2)
    (hmsg : ∀ bs ∈ batches, ∀ m ∈ bs.flatten, IsCborItem m ∧ m.length ≤ maxReadBuffer)
    (hsent : ∀ (i : Nat) (l : List Seg) (k : Nat × Role) (bs : List (List Bytes)),
      ls[i]? = some l → keys[i]? = some k → batches[i]? = some bs → SentBy k bs l)
    (hi : Interleaving ls w)
    (hc : chunks.flatten = w.flatMap encSeg) :
    (run c chunks).2 = End.eofHeader ∧
    ∀ (i : Nat) (k : Nat × Role) (bs : List (List Bytes)),
      keys[i]? = some k → batches[i]? = some bs →
      (receive c chunks k).msgs = bs.flatten ∧ (receive c chunks k).err = none ∧
      (receive c chunks k).buf = [] := by
  have h := e2e_transport c keys (batches.map List.flatten) ls w chunks
    (by simpa using hlenb) hlen hnd hid hreg
    (by
      intro q hq m hm
      obtain ⟨bs, hbs, rfl⟩ := List.mem_map.mp hq
      exact hmsg bs hbs m hm)
    (by
      intro i l k q hl hk hq
      rw [List.getElem?_map] at hq
      cases hb : batches[i]? with
      | none => simp [hb] at hq
      | some bs =>
        simp only [hb, Option.map_some, Option.some.injEq] at hq
        subst hq
        exact sentBy_seg k (hid k (List.mem_of_getElem? hk)) bs l (hsent i l k bs hl hk hb))
    hi hc
  refine ⟨h.1, ?_⟩
  intro i k bs hk hb
  exact h.2 i k bs.flatten hk (by rw [List.getElem?_map, hb]; rfl)

/-- Single protocol (no interleaving): one sender, its segments on the wire in order. -/
theorem e2e_single (c : Cfg) (k : Nat × Role) (bs : List (List Bytes)) (l : List Seg)
    (chunks : List Bytes)
    (hid : k.1 < 32768) (hreg : hasKey c.regs k.1 k.2 = true) (hmode : modeAllows c.mode k.2)
    (hmsg : ∀ m ∈ bs.flatten, IsCborItem m ∧ m.length ≤ maxReadBuffer)
    (hsent : SentBy k bs l)
    (hc : chunks.flatten = l.flatMap encSeg) :
    (run c chunks).2 = End.eofHeader ∧
    (receive c chunks k).msgs = bs.flatten ∧ (receive c chunks k).err = none ∧
    (receive c chunks k).buf = [] := by
  have hint : ∀ (l : List Seg), Interleaving [l] l := by
    intro l
    induction l with
    | nil => exact Interleaving.done _ (by simp)
    | cons a t ih => exact Interleaving.pick [a :: t] 0 a t t rfl (by simpa using ih)
  have h := e2e_transport_sendLoop c [k] [bs] [l] l chunks rfl rfl (by simp)
    (by intro k' hk'; simp only [List.mem_singleton] at hk'; subst hk'; exact hid)
    (by intro k' hk'; simp only [List.mem_singleton] at hk'; subst hk'; exact ⟨hreg, hmode⟩)
    (by intro bs' hb'; simp only [List.mem_singleton] at hb'; subst hb'; exact hmsg)
    (by
      intro i l' k' bs' hl hk hb
      cases i with
      | zero =>
        simp only [List.getElem?_cons_zero, Option.some.injEq] at hl hk hb
        subst hl hk hb
        exact hsent
      | succ j => simp at hl)
    (hint l) hc
  exact ⟨h.1, h.2 0 k bs rfl rfl⟩

/-! ### Non-vacuity -/

namespace Ex

/-- Diffusion mode "both"; receivers: protocol 2 responder side, protocol 3 initiator side. -/
def cfg : Cfg := ⟨3, [(2, [.responder]), (3, [.initiator])]⟩
def keys : List (Nat × Role) := [(2, .responder), (3, .initiator)]

/-- Protocol 2 queues `[1, 2]` and `[_ 1(non-minimal)]`; protocol 3 queues `{1: h'00'}`. -/
def queues : List (List Bytes) :=
  [[[0x82, 0x01, 0x02], [0x9f, 0x18, 0x01, 0xff]], [[0xa1, 0x01, 0x41, 0x00]]]

/-- Cuttings unrelated to the message boundaries: 2+3+2 bytes and 2+2 bytes. -/
def ls : List (List Seg) :=
  [[⟨0, 2, [0x82, 0x01]⟩, ⟨2, 2, [0x02, 0x9f, 0x18]⟩, ⟨4, 2, [0x01, 0xff]⟩],
   [⟨1, 32771, [0xa1, 0x01]⟩, ⟨3, 32771, [0x41, 0x00]⟩]]

/-- The two protocols alternate on the wire. -/
def w : List Seg :=
  [⟨0, 2, [0x82, 0x01]⟩, ⟨1, 32771, [0xa1, 0x01]⟩, ⟨2, 2, [0x02, 0x9f, 0x18]⟩,
   ⟨3, 32771, [0x41, 0x00]⟩, ⟨4, 2, [0x01, 0xff]⟩]

/-- Reads cut inside headers, between header and payload, inside payloads. -/
def chunks : List Bytes :=
  [[0, 0, 0], [0, 0, 2, 0, 2, 0x82], [0x01, 0, 0, 0, 1, 0x80, 3, 0, 2, 0xa1, 0x01, 0, 0],
   [0, 2, 0, 2, 0, 3, 0x02, 0x9f, 0x18, 0, 0, 0, 3, 0x80],
   [3, 0, 2, 0x41, 0x00, 0, 0, 0, 4, 0, 2, 0, 2, 0x01], [0xff]]

theorem inter : Interleaving ls w := by
  unfold ls w
  refine Interleaving.pick _ 0 _ _ _ rfl ?_
  refine Interleaving.pick _ 1 _ _ _ rfl ?_
  refine Interleaving.pick _ 0 _ _ _ rfl ?_
  refine Interleaving.pick _ 1 _ _ _ rfl ?_
  refine Interleaving.pick _ 0 _ _ _ rfl ?_
  exact Interleaving.done _ (by simp)

theorem wire : chunks.flatten = w.flatMap encSeg := by decide

/-- What the muxer half does on this input (computed): five deliveries, clean end. -/
example : run cfg chunks =
    ([((2, .responder), [0x82, 0x01]), ((3, .initiator), [0xa1, 0x01]),
      ((2, .responder), [0x02, 0x9f, 0x18]), ((3, .initiator), [0x41, 0x00]),
      ((2, .responder), [0x01, 0xff])], End.eofHeader) := by decide

/-- All hypotheses of `e2e_transport` hold for this instance, hence its conclusion: each
    receiver gets its peer's queue although no segment boundary is a message boundary. -/
theorem instance_holds :
    (run cfg chunks).2 = End.eofHeader ∧
    (receive cfg chunks (2, .responder)).msgs = [[0x82, 0x01, 0x02], [0x9f, 0x18, 0x01, 0xff]] ∧
    (receive cfg chunks (2, .responder)).err = none ∧
    (receive cfg chunks (3, .initiator)).msgs = [[0xa1, 0x01, 0x41, 0x00]] ∧
    (receive cfg chunks (3, .initiator)).err = none := by
  have h := e2e_transport cfg keys queues ls w chunks rfl rfl (by decide) (by decide)
    (by
      intro k hk
      simp only [keys, List.mem_cons, List.mem_nil_iff, or_false] at hk
      rcases hk with rfl | rfl <;> exact ⟨by decide, by unfold modeAllows; decide⟩)
    (by
      intro q hq m hm
      simp only [queues, List.mem_cons, List.mem_nil_iff, or_false] at hq
      rcases hq with rfl | rfl
      · simp only [List.mem_cons, List.mem_nil_iff, or_false] at hm
        rcases hm with rfl | rfl <;> exact ⟨by unfold IsCborItem; decide, by decide⟩
      · simp only [List.mem_cons, List.mem_nil_iff, or_false] at hm
        subst hm
        exact ⟨by unfold IsCborItem; decide, by decide⟩)
    (by
      intro i l k q hl hk hq
      match i, hl, hk, hq with
      | 0, hl, hk, hq =>
        simp only [ls, keys, queues, List.getElem?_cons_zero, Option.some.injEq] at hl hk hq
        subst hl hk hq
        decide
      | 1, hl, hk, hq =>
        simp only [ls, keys, queues, List.getElem?_cons_succ, List.getElem?_cons_zero,
          Option.some.injEq] at hl hk hq
        subst hl hk hq
        decide
      | n + 2, hl, _, _ => simp [ls] at hl)
    inter wire
  have h0 := h.2 0 (2, .responder) _ rfl rfl
  have h1 := h.2 1 (3, .initiator) _ rfl rfl
  exact ⟨h.1, h0.1, h0.2.1, h1.1, h1.2.1⟩

/-- Send-loop instance: protocol 2 sends its two messages as one batch (one 7-byte segment),
    protocol 3 sends one batch; both batches are ones `readSendQueueLoop` can form, the
    segments are what `NewSegment` returns. -/
def batches : List (List (List Bytes)) := queues.map fun q => [q]

def ls' : List (List Seg) :=
  [[⟨7, 2, [0x82, 0x01, 0x02, 0x9f, 0x18, 0x01, 0xff]⟩], [⟨9, 32771, [0xa1, 0x01, 0x41, 0x00]⟩]]

example : (∀ bs ∈ batches, ∀ b ∈ bs, batchOk b = true) ∧
    ls'.map (fun l => l.map (·.payload)) = batches.map sendSegs ∧
    newSegment 7 2 [0x82, 0x01, 0x02, 0x9f, 0x18, 0x01, 0xff] false = ls'[0]?.bind (·[0]?) ∧
    newSegment 9 3 [0xa1, 0x01, 0x41, 0x00] true = ls'[1]?.bind (·[0]?) := by decide

/-- Protocol 3's segment goes out first; every read returns a single byte. -/
def w' : List Seg :=
  [⟨9, 32771, [0xa1, 0x01, 0x41, 0x00]⟩, ⟨7, 2, [0x82, 0x01, 0x02, 0x9f, 0x18, 0x01, 0xff]⟩]
def chunks' : List Bytes := (w'.flatMap encSeg).map fun b => [b]

theorem sent0 : SentBy (2, .responder) [[[0x82, 0x01, 0x02], [0x9f, 0x18, 0x01, 0xff]]]
    [⟨7, 2, [0x82, 0x01, 0x02, 0x9f, 0x18, 0x01, 0xff]⟩] := by
  refine ⟨by decide, ?_⟩
  intro s hs
  simp only [List.mem_cons, List.mem_nil_iff, or_false] at hs
  subst hs
  exact ⟨7, by decide, by decide⟩

theorem sent1 : SentBy (3, .initiator) [[[0xa1, 0x01, 0x41, 0x00]]]
    [⟨9, 32771, [0xa1, 0x01, 0x41, 0x00]⟩] := by
  refine ⟨by decide, ?_⟩
  intro s hs
  simp only [List.mem_cons, List.mem_nil_iff, or_false] at hs
  subst hs
  exact ⟨9, by decide, by decide⟩

/-- All hypotheses of `e2e_transport_sendLoop` hold for this instance (two messages packed
    into one segment; byte-at-a-time reads), hence its conclusion. -/
theorem instance_sendLoop :
    (run cfg chunks').2 = End.eofHeader ∧
    (receive cfg chunks' (2, .responder)).msgs = [[0x82, 0x01, 0x02], [0x9f, 0x18, 0x01, 0xff]] ∧
    (receive cfg chunks' (2, .responder)).err = none ∧
    (receive cfg chunks' (3, .initiator)).msgs = [[0xa1, 0x01, 0x41, 0x00]] ∧
    (receive cfg chunks' (3, .initiator)).err = none := by
  have h := e2e_transport_sendLoop cfg keys batches ls' w' chunks' rfl rfl (by decide) (by decide)
    (by
      intro k hk
      simp only [keys, List.mem_cons, List.mem_nil_iff, or_false] at hk
      rcases hk with rfl | rfl <;> exact ⟨by decide, by unfold modeAllows; decide⟩)
    (by
      intro bs hbs m hm
      simp only [batches, queues, List.map_cons, List.map_nil, List.mem_cons, List.mem_nil_iff,
        or_false] at hbs
      rcases hbs with rfl | rfl
      · simp only [List.flatten_cons, List.flatten_nil, List.append_nil, List.mem_cons,
          List.mem_nil_iff, or_false] at hm
        rcases hm with rfl | rfl <;> exact ⟨by unfold IsCborItem; decide, by decide⟩
      · simp only [List.flatten_cons, List.flatten_nil, List.append_nil, List.mem_cons,
          List.mem_nil_iff, or_false] at hm
        subst hm
        exact ⟨by unfold IsCborItem; decide, by decide⟩)
    (by
      intro i l k bs hl hk hb
      match i, hl, hk, hb with
      | 0, hl, hk, hb =>
        simp only [ls', keys, batches, queues, List.map_cons, List.getElem?_cons_zero,
          Option.some.injEq] at hl hk hb
        subst hl hk hb
        exact sent0
      | 1, hl, hk, hb =>
        simp only [ls', keys, batches, queues, List.map_cons, List.map_nil,
          List.getElem?_cons_succ, List.getElem?_cons_zero, Option.some.injEq] at hl hk hb
        subst hl hk hb
        exact sent1
      | n + 2, hl, _, _ => simp [ls'] at hl)
    (by
      unfold ls' w'
      refine Interleaving.pick _ 1 _ _ _ rfl ?_
      refine Interleaving.pick _ 0 _ _ _ rfl ?_
      exact Interleaving.done _ (by simp))
    (by
      unfold chunks'
      generalize w'.flatMap encSeg = bs
      induction bs with
      | nil => rfl
      | cons b t ih => simpa using ih)
  have h0 := h.2 0 (2, .responder) _ rfl rfl
  have h1 := h.2 1 (3, .initiator) _ rfl rfl
  exact ⟨h.1, h0.1, h0.2.1, h1.1, h1.2.1⟩

end Ex

end GV.Props.C10e2e
