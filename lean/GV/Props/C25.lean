import GV.Model.LocalRR
/-!
C25 — Local request/response calls get their own answers.

* `reply_belongs_to_request`: with the busy mutex, for any number of callers,
  any work lists and **any schedule**, every call returns the reply tagged with
  the request it sent itself.
* `no_mutex_crosstalk_witness`: without the mutex (peer-sharing before the
  fix) a five-step schedule hands caller 1 the reply to caller 0's request.
* `bookkeeping_never_violates`: across any disciplined sequence of acquire
  (granted or refused), query and release calls the client only sends messages
  the protocol state allows, so every call gets answered;
  `stale_flag_witness`: before the fix a refused re-acquire followed by a query
  tears the connection down.
-/
namespace GV.Props.C25
open GV.Model.LocalRR

/-- at most one request is in flight, it is the lock holder's, and every call
    completed so far got its own reply -/
def Inv (s : St) : Prop :=
  s.useMutex = true ∧
  (∀ x ∈ s.results, x.2.2 = x.2.1) ∧
  (match s.lock with
   | none => (∀ j, (s.callers j).waiting = none) ∧ s.wire = [] ∧ s.back = [] ∧ s.offer = none
   | some i => ∃ t, (s.callers i).waiting = some t ∧ (∀ j, j ≠ i → (s.callers j).waiting = none) ∧
        s.wire ++ s.back ++ s.offer.toList = [t])

theorem inv_init (work : Nat → List Nat) : Inv (St.init true work) := by
  simp [Inv, St.init]

theorem app3_single {a b c : List Nat} {t : Nat} (h : a ++ b ++ c = [t]) :
    (a = [t] ∧ b = [] ∧ c = []) ∨ (a = [] ∧ b = [t] ∧ c = []) ∨ (a = [] ∧ b = [] ∧ c = [t]) := by
  cases a with
  | cons x a' =>
    simp only [List.cons_append, List.cons.injEq] at h
    obtain ⟨hx, h2⟩ := h
    have : a' = [] ∧ b = [] ∧ c = [] := by
      cases a' <;> cases b <;> cases c <;> simp_all
    left; simp [hx, this]
  | nil =>
    cases b with
    | cons y b' =>
      simp only [List.nil_append, List.cons_append, List.cons.injEq] at h
      obtain ⟨hy, h2⟩ := h
      have : b' = [] ∧ c = [] := by cases b' <;> cases c <;> simp_all
      right; left; simp [hy, this]
    | nil =>
      simp only [List.nil_append] at h
      right; right; simp [h]

theorem inv_step (s s' : St) (a : Act) (h : Inv s) (hs : step s a = some s') : Inv s' := by
  obtain ⟨hm, hres, hl⟩ := h
  cases a with
  | «begin» i =>
    simp only [step] at hs
    cases hp : (s.callers i).pending with
    | nil => simp [hp] at hs
    | cons t rest =>
      cases hw : (s.callers i).waiting with
      | some x => simp [hp, hw] at hs
      | none =>
        simp only [hp, hw] at hs
        cases hlk : s.lock with
        | some j => simp [hm, hlk] at hs
        | none =>
          simp only [hm, hlk, Option.isSome_none, Bool.and_false, Bool.false_eq_true, ↓reduceIte,
            Option.some.injEq] at hs
          subst hs
          rw [hlk] at hl
          obtain ⟨hw0, hwire, hback, hoff⟩ := hl
          refine ⟨rfl, hres, ?_⟩
          refine ⟨t, by simp [setCaller], ?_, by simp [hwire, hback, hoff]⟩
          intro j hj; simp [setCaller, hj, hw0 j]
  | serve =>
    simp only [step] at hs
    cases hw : s.wire with
    | nil => simp [hw] at hs
    | cons t' w =>
      simp only [hw, Option.some.injEq] at hs; subst hs
      refine ⟨hm, hres, ?_⟩
      cases hlk : s.lock with
      | none => rw [hlk] at hl; simp [hw] at hl
      | some i =>
        rw [hlk] at hl
        obtain ⟨t, h1, h2, h3⟩ := hl
        simp only
        refine ⟨t, h1, h2, ?_⟩
        rw [hw] at h3
        rcases app3_single h3 with ⟨ha, hb, hc⟩ | ⟨ha, _, _⟩ | ⟨ha, _, _⟩
        · simp only [List.cons.injEq] at ha
          simp [ha.1, ha.2, hb, hc]
        · simp at ha
        · simp at ha
  | handle =>
    simp only [step] at hs
    cases hb : s.back with
    | nil => simp [hb] at hs
    | cons r b =>
      cases ho : s.offer with
      | some x => simp [hb, ho] at hs
      | none =>
        simp only [hb, ho, Option.some.injEq] at hs; subst hs
        refine ⟨hm, hres, ?_⟩
        cases hlk : s.lock with
        | none => rw [hlk] at hl; simp [hb] at hl
        | some i =>
          rw [hlk] at hl
          obtain ⟨t, h1, h2, h3⟩ := hl
          simp only
          refine ⟨t, h1, h2, ?_⟩
          rw [hb, ho] at h3
          rcases app3_single h3 with ⟨_, hb', _⟩ | ⟨ha, hb', _⟩ | ⟨_, hb', _⟩
          · simp at hb'
          · simp only [List.cons.injEq] at hb'
            simp [ha, hb'.1, hb'.2]
          · simp at hb'
  | take i' =>
    simp only [step] at hs
    cases hw : (s.callers i').waiting with
    | none => simp [hw] at hs
    | some t' =>
      cases ho : s.offer with
      | none => simp [hw, ho] at hs
      | some r =>
        simp only [hw, ho, Option.some.injEq] at hs; subst hs
        cases hlk : s.lock with
        | none => rw [hlk] at hl; have := hl.1 i'; simp [hw] at this
        | some i =>
          rw [hlk] at hl
          obtain ⟨t, h1, h2, h3⟩ := hl
          have hi : i' = i := by
            by_cases hne : i' = i
            · exact hne
            · have := h2 i' hne; simp [hw] at this
          subst hi
          have ht : t' = t := by simpa [hw] using h1
          subst ht
          rw [ho] at h3
          rcases app3_single h3 with ⟨_, _, hc⟩ | ⟨_, _, hc⟩ | ⟨ha, hb, hc⟩
          · simp at hc
          · simp at hc
          · simp only [Option.toList_some, List.cons.injEq, and_true] at hc
            subst hc
            refine ⟨hm, ?_, ?_⟩
            · intro x hx
              simp only [List.mem_append, List.mem_singleton] at hx
              rcases hx with hx | hx
              · exact hres x hx
              · subst hx; rfl
            · simp only [hm, ↓reduceIte]
              refine ⟨?_, ha, hb, trivial⟩
              intro j
              by_cases hj : j = i'
              · simp [setCaller, hj]
              · simp [setCaller, hj, h2 j hj]

theorem inv_run (sched : List Act) : ∀ s s' : St, Inv s → run s sched = some s' → Inv s' := by
  induction sched with
  | nil => intro s s' h hr; simp [run] at hr; subst hr; exact h
  | cons a t ih =>
    intro s s' h hr
    unfold run at hr
    cases hst : step s a with
    | none => simp [hst] at hr
    | some s1 => simp only [hst] at hr; exact ih s1 s' (inv_step s s1 a h hst) hr

/-- **Every call gets its own answer**: any callers, any work, any schedule. -/
theorem reply_belongs_to_request (work : Nat → List Nat) (sched : List Act) (s : St)
    (h : run (St.init true work) sched = some s) :
    ∀ caller req rep, (caller, req, rep) ∈ s.results → rep = req := by
  intro c q r hm
  exact (inv_run sched _ s (inv_init work) h).2.1 (c, q, r) hm

/-- … and never more than one request is in flight. -/
theorem one_in_flight (work : Nat → List Nat) (sched : List Act) (s : St)
    (h : run (St.init true work) sched = some s) :
    (s.wire ++ s.back ++ s.offer.toList).length ≤ 1 := by
  have hi := (inv_run sched _ s (inv_init work) h).2.2
  cases hlk : s.lock with
  | none => rw [hlk] at hi; simp [hi.2.1, hi.2.2.1, hi.2.2.2]
  | some i => rw [hlk] at hi; obtain ⟨t, _, _, h3⟩ := hi; simp [h3]

def work2 : Nat → List Nat := fun i => if i = 0 then [3] else if i = 1 then [5] else []

/-- Without mutual exclusion (peer-sharing's GetPeers before the fix): caller 0
    asks for 3, caller 1 asks for 5, the first reply (3) is taken by caller 1. -/
theorem no_mutex_crosstalk_witness :
    (run (St.init false work2) [.begin 0, .begin 1, .serve, .handle, .take 1]).map (·.results) =
      some [(1, 5, 3)] := by decide

/-- the same schedule is impossible with the mutex (caller 1 cannot begin) … -/
example : (run (St.init true work2) [.begin 0, .begin 1]).isNone = true := by decide
/-- … and a complete run with the mutex -/
example : (run (St.init true work2) [.begin 0, .serve, .handle, .take 0, .begin 1, .serve, .handle, .take 1]).map
    (·.results) = some [(0, 3, 3), (1, 5, 5)] := by decide

/-! ### acquire / re-acquire / release -/

def BkInv (held : Bool) (c : Bk) : Prop :=
  c.violated = false ∧ (c.acq = true ↔ c.ps = .acquired) ∧ (held = true ↔ c.ps = .acquired)

theorem bk_step (call : Call) (rest : List Call) (held : Bool) (c : Bk) (hi : BkInv held c)
    (hd : disciplined held (call :: rest) = true) :
    ∃ held', BkInv held' (callStep true c call) ∧ disciplined held' rest = true := by
  obtain ⟨hv, ha, hh⟩ := hi
  cases c with
  | mk acq ps v =>
    simp only at hv ha hh
    subst hv
    cases call with
    | acquire g =>
      refine ⟨g, ?_, by simpa [disciplined] using hd⟩
      cases acq <;> cases ps <;> cases g <;> simp_all [callStep, BkInv]
    | query =>
      refine ⟨true, ?_, by simpa [disciplined] using hd⟩
      cases acq <;> cases ps <;> simp_all [callStep, BkInv]
    | release =>
      simp only [disciplined, Bool.and_eq_true] at hd
      refine ⟨false, ?_, hd.2⟩
      have hps : ps = .acquired := hh.mp hd.1
      subst hps
      cases acq <;> simp_all [callStep, BkInv]

/-- Across any disciplined sequence of calls (acquire granted or refused,
    re-acquire, query with implicit acquire, release) the client never sends a
    message the protocol state forbids — no call is lost to a torn-down connection. -/
theorem bookkeeping_never_violates (calls : List Call) : ∀ (held : Bool) (c : Bk),
    BkInv held c → disciplined held calls = true → (calls.foldl (callStep true) c).violated = false := by
  induction calls with
  | nil => intro held c hi _; exact hi.1
  | cons call rest ih =>
    intro held c hi hd
    obtain ⟨held', hi', hd'⟩ := bk_step call rest held c hi hd
    simpa using ih held' _ hi' hd'

theorem bookkeeping_from_start (calls : List Call) (hd : disciplined false calls = true) :
    (calls.foldl (callStep true) Bk.init).violated = false :=
  bookkeeping_never_violates calls false Bk.init (by simp [BkInv, Bk.init]) hd

/-- Before the fix the `acquired` flag survived a refused re-acquire: the next
    query is sent from Idle and the connection is torn down. -/
theorem stale_flag_witness :
    disciplined false [.acquire true, .acquire false, .query] = true ∧
    ([Call.acquire true, .acquire false, .query].foldl (callStep false) Bk.init).violated = true ∧
    ([Call.acquire true, .acquire false, .query].foldl (callStep true) Bk.init).violated = false := by
  decide

end GV.Props.C25
