import GV.Proofs.Engine
/-!
  C11 — Received messages are checked against the protocol state machine.

  The theorems are about the abstract engine `GV.Engine` (one action per verif hook event of
  protocol/protocol.go) for an ARBITRARY state machine `m` and role, and for EVERY event
  sequence the engine admits: all goroutine schedules, all peer message sequences
  (`rq` events are unconstrained: the adversary), all caller behaviours (`enq` unconstrained).
  The tie to the code is trace inclusion: recorded hook traces of the real engine, for every
  mini-protocol and role of `GV.Gen.StateMaps`, are replayed through `step?` on each check.
-/
namespace GV.Props.C11
open GV.SM GV.Engine

variable {m : Machine} {role : Nat}

/-- the ready tokens follow agency: whoever holds (or can take) the receive token does so in a
    state where the PEER has agency, and dually; never two tokens -/
theorem token_inv (evs : List Ev) {s : S} (h : run m role (init m) evs = some s) :
    ((s.recvTok = true ∨ s.recvHeld = true) → peers m role s.st = true) ∧
    ((s.sendTok = true ∨ s.sendHeld = true) → ours m role s.st = true) ∧
    ¬(s.recvTok = true ∧ s.recvHeld = true) ∧ ¬(s.sendTok = true ∧ s.sendHeld = true) :=
  let i := (inv_reachable evs h).tok
  ⟨i.tokR, i.tokS, i.tok2, i.tok1⟩

/-- A received message reaches the application only if, at the moment it was processed, the
    peer held agency and the message was permitted in the then-current state. -/
theorem handler_only_if_allowed (evs : List Ev) {s : S} (h : run m role (init m) evs = some s) :
    (∀ qa ∈ s.hlog, peers m role qa.1 = true ∧ (m.step qa.1 qa.2).isSome = true) ∧
    s.hlog.map (·.2) = s.handled ++ s.awaitHandle.toList :=
  let i := inv_reachable evs h
  ⟨i.log.hlogOk, i.rcv.handledOk⟩

/-- The current state is the state machine run along ALL applied transitions (sent and received,
    in the order they were applied): each handled message was permitted after the whole
    conversation that preceded it. -/
theorem state_is_run_of_conversation (evs : List Ev) {s : S} (h : run m role (init m) evs = some s) :
    m.run m.init s.tlog = some s.st :=
  (inv_reachable evs h).log.path

/-- What the application has seen is a prefix of what the peer sent, in order: nothing is
    skipped, duplicated or reordered, and nothing after a refused message is delivered. -/
theorem handled_prefix_of_inbound (evs : List Ev) {s : S} (h : run m role (init m) evs = some s) :
    ∃ rest, s.inb = s.handled ++ rest := by
  have i := (inv_reachable evs h).rcv
  refine ⟨s.awaitHandle.toList ++ s.recvRej.toList ++ s.reqR.toList ++ s.recvQ, ?_⟩
  rw [i.inbOrder, i.handledOk]
  simp [List.append_assoc]

/-- A message that is not permitted in the current state is refused (`transerr`), marks the
    receive loop dead, and is never handled. -/
theorem disallowed_refused {s s' : S} {src t : Nat} {a : Sym}
    (hw : who s = .recv a) (h : step? m role s (.transerr src t) = some s') :
    m.step s.st a = none ∧ s'.recvDead = true ∧ s'.recvRej = some a ∧ s'.handled = s.handled := by
  obtain ⟨hg, rfl⟩ := step_iff.mp h
  simp only [GV.Engine.guard, hw, Bool.and_eq_true, beq_iff_eq] at hg
  simp only [GV.Engine.apply, hw]
  have : m.step s.st a = none := by simpa using hg.2.2
  exact ⟨this, by simp⟩

/-- After that first refusal no further received message reaches the application, whatever
    happens next (any schedule, any further input). -/
theorem frozen_run {s s' : S} (hi : Inv m role s) (hd : s.recvDead = true)
    (evs' : List Ev) (h : run m role s evs' = some s') :
    s'.handled = s.handled ∧ s'.hlog = s.hlog ∧ s'.recvDead = true := by
  induction evs' generalizing s with
  | nil => simp [run] at h; subst h; exact ⟨rfl, rfl, hd⟩
  | cons e rest ih =>
    simp only [run] at h
    cases hs : step? m role s e with
    | none => simp [hs] at h
    | some s1 =>
      rw [hs] at h
      have ⟨d1, h1, l1⟩ := recvDead_frozen hi.rcv hd hs
      have ⟨a, b, c⟩ := ih (inv_step hi hs) d1 h
      exact ⟨a.trans h1, b.trans l1, c⟩

theorem first_error_stops (evs : List Ev) {s s' : S}
    (h0 : run m role (init m) evs = some s) (hd : s.recvDead = true)
    (evs' : List Ev) (h : run m role s evs' = some s') :
    s'.handled = s.handled ∧ s'.hlog = s.hlog ∧ s'.recvDead = true :=
  frozen_run (inv_reachable evs h0) hd evs' h

/-! ### non-vacuity: a concrete admitted schedule of the keep-alive server engine in which a
    message is handled, and one in which a disallowed message is refused -/
open GV.Engine in
def kaServer : Machine :=
  { name := "keep-alive", role := 2, protoId := 8, init := 1,
    states := [⟨1, "Client", 1, 0, false, 0, 0, 0⟩, ⟨2, "Server", 2, 0, false, 0, 0, 0⟩, ⟨3, "Done", 0, 0, false, 0, 0, 0⟩],
    alphabet := [⟨0, 0⟩, ⟨1, 0⟩, ⟨2, 0⟩],
    trans := [⟨1, ⟨0, 0⟩, 2⟩, ⟨1, ⟨2, 0⟩, 3⟩, ⟨2, ⟨1, 0⟩, 1⟩] }

example : ((run kaServer 2 (init kaServer)
    [.state 1 true, .rq ⟨0, 0⟩, .rtok, .rtrans ⟨0, 0⟩, .trans 1 2 0, .handle 0]).map (·.handled)) = some [⟨0, 0⟩] := by
  decide
example : ((run kaServer 2 (init kaServer)
    [.state 1 true, .rq ⟨1, 0⟩, .rtok, .rtrans ⟨1, 0⟩, .transerr 1 1]).map (·.recvDead)) = some true := by
  decide
/-- the model refuses a handler call for a message whose transition was not applied -/
example : (run kaServer 2 (init kaServer) [.state 1 true, .rq ⟨1, 0⟩, .rtok, .rtrans ⟨1, 0⟩, .handle 1]).isNone = true := by
  decide

end GV.Props.C11
