import GV.Model.VersionData
import GV.Proofs.VersionData
import GV.Lib.VersionTable
/-!
C20 — The supported-version tables are internally consistent.

The NtC list contains only NtC versions and the NtN list only NtN versions, each sorted
ascending. The version data generated for a version encodes and then decodes, with that
version's own decoder, to the same network magic, diffusion mode, peer sharing and query
flags. Eras enabled by a version are a prefix of the era sequence that never shrinks as
versions increase.

The table statements are `decide`d over `GV.Gen.Versions`, which is dumped from the running
code on every check (all 65536 version numbers scanned); the codec statement is proved for
every magic < 2^32 and every flag combination over the byte-level model.
-/
namespace GV.Props.C20
open GV.Model.VersionData GV.Model.Handshake GV.Proofs.VersionData GV.Gen.Versions

def row? (v : Nat) := table.find? (fun r => r.1 == v)
/-- decoder kind of `GetProtocolVersion(v)` (0 = none) -/
def kindOf (v : Nat) : Nat := match row? v with | some r => r.2.1 | none => 0
def erasOf (v : Nat) : List Bool := match row? v with | some r => r.2.2.1 | none => []
/-- number of leading enabled eras -/
def eraCount (fl : List Bool) : Nat := (fl.takeWhile id).length
/-- enabled eras form a prefix of Shelley, Allegra, Mary, Alonzo, Babbage, Conway, Dijkstra -/
def isPrefix (fl : List Bool) : Bool := (fl.dropWhile id).all (fun b => !b)

/-- `GetProtocolVersionsNtC()` contains only node-to-client versions: at or above the NtC offset
    and with a node-to-client decoder. -/
theorem ntc_only_ntc : ∀ v ∈ ntcList, ntcOffset ≤ v ∧ (kindOf v = 1 ∨ kindOf v = 2) := by decide

/-- `GetProtocolVersionsNtN()` contains only node-to-node versions. -/
theorem ntn_only_ntn : ∀ v ∈ ntnList, v < ntcOffset ∧ (kindOf v = 3 ∨ kindOf v = 4 ∨ kindOf v = 5) := by
  decide

/-- Every list is strictly ascending. -/
theorem lists_sorted :
    ntcList.Pairwise (· < ·) ∧ ntnList.Pairwise (· < ·) ∧
    dmqNtcList.Pairwise (· < ·) ∧ dmqNtnList.Pairwise (· < ·) := by decide

/-- The four lists are exactly the version numbers (out of all 65536) that `GetProtocolVersion`
    knows: nothing known is missing from the lists, nothing listed is unknown. -/
theorem lists_complete :
    scanned = 65536 ∧
    table.map (·.1) = sortAsc (ntcList ++ ntnList ++ dmqNtcList ++ dmqNtnList) ∧
    ∀ r ∈ table, 1 ≤ r.2.1 ∧ r.2.1 ≤ 5 := by decide

/-- Enabled eras are a prefix of the era sequence, and the prefix never shrinks as the version
    increases, in every list. -/
theorem eras_prefix_monotone :
    ∀ l ∈ [ntcList, ntnList, dmqNtcList, dmqNtnList],
      (∀ v ∈ l, (erasOf v).length = 7 ∧ isPrefix (erasOf v) = true) ∧
      (l.map fun v => eraCount (erasOf v)).Pairwise (· ≤ ·) := by decide

/-- The generated maps have exactly the listed versions as keys, and the Go type of every
    generated entry is the type that version's own decoder produces. -/
theorem generated_matches_decoder :
    ∀ p ∈ [(mapNtC, ntcList), (mapNtN, ntnList), (mapDmqNtC, dmqNtcList), (mapDmqNtN, dmqNtnList)],
      p.1.map (·.1) = p.2 ∧ ∀ e ∈ p.1, kindOf e.1 = e.2 ∧ GV.Lib.VersionTable.lk e.1 = Kind.ofNat? e.2 ∧
        (Kind.ofNat? e.2).isSome = true := by decide

/-- The peer-sharing field the real generators wrote (dumped) is the one `genEntry` writes. -/
theorem ps_values_match :
    ∀ r ∈ psValues, ∃ k, Kind.ofNat? (kindOf r.2.1) = some k ∧
      (genEntry k 1 false false false).ps = r.2.2.1 ∧ (genEntry k 1 false true false).ps = r.2.2.2 := by
  decide

theorem genEntry_wf (k : Kind) (magic : Nat) (hm : magic < 4294967296) (dm ps q : Bool) :
    (genEntry k magic dm ps q).wf := by
  cases k <;> cases ps <;> simp [genEntry, VData.wf, hm]

/-- **Codec round trip**, all magics (not sampled), all flag combinations, every entry type:
    the generated entry decodes from its own encoding, with the decoder of its own type, to
    itself. -/
theorem versiondata_roundtrip (k : Kind) (magic : Nat) (hm : magic < 4294967296) (dm ps q : Bool) :
    decode k (encode (genEntry k magic dm ps q)) = some (genEntry k magic dm ps q) := by
  have h := decode_encode (genEntry k magic dm ps q) (genEntry_wf k magic hm dm ps q) []
  have hk : (genEntry k magic dm ps q).kind = k := by cases k <;> rfl
  rw [hk] at h
  simpa using h

/-- What the accessors of a generated entry answer. -/
theorem generated_accessors (k : Kind) (magic : Nat) (dm ps q : Bool) :
    let e := genEntry k magic dm ps q
    e.networkMagic = magic ∧
    e.diffusionMode = (match k with | .ntc9 | .ntc15 => true | _ => dm) ∧
    e.peerSharing = (match k with | .ntn11 | .ntn13 => ps | _ => false) ∧
    e.query = (match k with | .ntc15 | .ntn11 | .ntn13 => q | _ => false) := by
  cases k <;> cases ps <;> simp [genEntry, VData.networkMagic, VData.diffusionMode, VData.peerSharing, VData.query]

/-- **The property**, for every version of every table: the entry generated for it (any magic
    below 2^32, any diffusion / peer-sharing / query flags) encodes and decodes with that
    version's own decoder to data whose four accessors answer the same as the entry's. -/
theorem table_roundtrip :
    ∀ shape ∈ [mapNtC, mapNtN, mapDmqNtC, mapDmqNtN], ∀ e ∈ shape,
      ∃ k, Kind.ofNat? e.2 = some k ∧ GV.Lib.VersionTable.lk e.1 = some k ∧
        ∀ magic, magic < 4294967296 → ∀ dm ps q : Bool,
          ∃ d, decode k (encode (genEntry k magic dm ps q)) = some d ∧
            d.networkMagic = (genEntry k magic dm ps q).networkMagic ∧
            d.diffusionMode = (genEntry k magic dm ps q).diffusionMode ∧
            d.peerSharing = (genEntry k magic dm ps q).peerSharing ∧
            d.query = (genEntry k magic dm ps q).query := by
  intro shape hs e he
  have hg := generated_matches_decoder
  have : ∃ l, (shape, l) ∈ [(mapNtC, ntcList), (mapNtN, ntnList), (mapDmqNtC, dmqNtcList), (mapDmqNtN, dmqNtnList)] := by
    simp only [List.mem_cons, List.not_mem_nil, or_false] at hs
    rcases hs with rfl | rfl | rfl | rfl
    · exact ⟨ntcList, by simp⟩
    · exact ⟨ntnList, by simp⟩
    · exact ⟨dmqNtcList, by simp⟩
    · exact ⟨dmqNtnList, by simp⟩
  obtain ⟨l, hl⟩ := this
  obtain ⟨_, h2⟩ := hg (shape, l) hl
  obtain ⟨_, hlk, hsome⟩ := h2 e he
  cases hk : Kind.ofNat? e.2 with
  | none => simp [hk] at hsome
  | some k =>
    refine ⟨k, rfl, by rw [hlk, hk], ?_⟩
    intro magic hm dm ps q
    exact ⟨_, versiondata_roundtrip k magic hm dm ps q, rfl, rfl, rfl, rfl⟩

/-- Non-vacuity: a concrete NtN V13 entry on mainnet. -/
example : decode .ntn13 (encode (genEntry .ntn13 764824073 false true false)) =
    some { kind := .ntn13, magic := 764824073, dm := false, ps := 1, q := false } := by decide

/-- V11/12 write peer sharing as 2, V13+ as 1; both read back as enabled. -/
example : (genEntry .ntn11 1 true true false).ps = 2 ∧ (genEntry .ntn13 1 true true false).ps = 1 ∧
    (genEntry .ntn11 1 true true false).peerSharing = true ∧
    (genEntry .ntn13 1 true true false).peerSharing = true := by decide

end GV.Props.C20
