import GV.Model.OutputValue
import GV.Gen.RuleLists
/-!
C08 — Transaction output values stay within the ledger's value range.

No transaction output accepted by decoding plus UTxO validation carries a
negative asset quantity or a quantity above 2^64-1, in any era that has
multi-assets. As a consequence, a transaction that passes value conservation
cannot create tokens out of nothing by pairing a positive and a negative output.
-/
namespace GV.Props.C08
open GV.Model.OutputValue

theorem all_of_decodeOk (t : Tx) (h : decodeOk t = true) :
    ∀ q ∈ quantities t, 0 ≤ q ∧ q ≤ 18446744073709551615 := by
  intro q hq
  have := (List.all_eq_true.mp h) q hq
  unfold qtyOk maxU64 at this
  rw [Bool.and_eq_true] at this
  exact ⟨of_decide_eq_true this.1, of_decide_eq_true this.2⟩

/-- Every quantity of every output of a decoded transaction is in 0..2^64−1. -/
theorem decoded_qty_range (t : Tx) (h : run t ≠ .decodeErr) :
    ∀ q ∈ quantities t, 0 ≤ q ∧ q ≤ 18446744073709551615 := by
  apply all_of_decodeOk
  unfold run at h
  by_cases hd : decodeOk t = true
  · exact hd
  · simp [hd] at h

theorem sum_nonneg (l : List Int) (h : ∀ q ∈ l, 0 ≤ q) : 0 ≤ l.sum := by
  induction l with
  | nil => simp
  | cons a l ih =>
    have ha := h a List.mem_cons_self
    have hl := ih (fun q hq => h q (List.mem_cons_of_mem _ hq))
    simp only [List.sum_cons]; omega

theorem le_sum (l : List Int) (h : ∀ q ∈ l, 0 ≤ q) : ∀ q ∈ l, q ≤ l.sum := by
  induction l with
  | nil => intro q hq; cases hq
  | cons a l ih =>
    intro q hq
    have ha := h a List.mem_cons_self
    have hl : ∀ q ∈ l, 0 ≤ q := fun q hq => h q (List.mem_cons_of_mem _ hq)
    have hs := sum_nonneg l hl
    simp only [List.sum_cons]
    rcases List.mem_cons.mp hq with rfl | hq'
    · omega
    · have := ih hl q hq'; omega

/-- An accepted transaction conserves the token exactly, and no single output holds
    more than what the inputs and the mint field supply. -/
theorem accepted_conserves (t : Tx) (h : run t = .accepted) :
    (quantities t).sum = (t.inQty : Int) + t.mint ∧
    ∀ q ∈ quantities t, 0 ≤ q ∧ q ≤ (t.inQty : Int) + t.mint := by
  have hne : run t ≠ .decodeErr := by rw [h]; decide
  have hr := decoded_qty_range t hne
  unfold run at h
  by_cases hd : decodeOk t = true
  · simp only [hd, Bool.not_true, Bool.false_eq_true, ↓reduceIte] at h
    by_cases hc : conserved t = true
    · have hs : (t.inQty : Int) + t.mint = (quantities t).sum := by
        unfold conserved produced at hc
        exact of_decide_eq_true hc
      refine ⟨hs.symm, fun q hq => ⟨(hr q hq).1, ?_⟩⟩
      rw [hs]; exact le_sum _ (fun q hq => (hr q hq).1) q hq
    · simp [hc] at h
  · simp [hd] at h

/-- Tokens cannot be created out of nothing: with nothing in the inputs and nothing
    minted, every output of an accepted transaction carries quantity 0 of the token —
    in particular no +k / −k pair. -/
theorem no_mint_from_nothing (t : Tx) (h : run t = .accepted) (hi : t.inQty = 0) (hm : t.mint = 0) :
    ∀ q ∈ quantities t, q = 0 := by
  intro q hq
  have := (accepted_conserves t h).2 q hq
  rw [hi, hm] at this
  omega

/-- What the decoder without the range test allowed (the defect repaired by the fix:
    commit): outputs +5 and −5 of a token that exists nowhere were accepted. -/
theorem old_decoder_counterexample :
    runOld { inQty := 0, mint := 0, outs := [some 5, some (-5)] } = .accepted ∧
    run { inQty := 0, mint := 0, outs := [some 5, some (-5)] } = .decodeErr ∧
    runOld { inQty := 0, mint := 0, outs := [some 1180591620717411303424, some (-1180591620717411303424)] } = .accepted := by
  decide

/-- (R) the conservation rule is in every multi-asset era's rule list. -/
theorem rules_listed :
    ∀ l ∈ [GV.Gen.RuleLists.mary, GV.Gen.RuleLists.alonzo, GV.Gen.RuleLists.babbage,
           GV.Gen.RuleLists.conway, GV.Gen.RuleLists.dijkstra],
      "UtxoValidateValueNotConservedUtxo" ∈ l := by
  decide

/-- Non-vacuity: accepted transactions with tokens exist (from inputs, minted, burnt). -/
example : run { inQty := 7, mint := 0, outs := [some 3, none, some 4] } = .accepted := by decide
example : run { inQty := 0, mint := 9, outs := [some 9] } = .accepted := by decide
example : run { inQty := 10, mint := -3, outs := [some 7] } = .accepted := by decide
example : run { inQty := 0, mint := 0, outs := [some 18446744073709551616] } = .decodeErr := by decide

end GV.Props.C08
