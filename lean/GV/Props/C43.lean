import GV.Proofs.PipelineDrain
/-!
C43 — Draining the pipeline really waits for in-flight blocks.

When waiting for the pipeline to drain returns successfully, every block submitted before
the wait began has finished processing (applied or failed), and no apply call for such a
block happens afterwards. This is what makes a chain-sync rollback safe.

`WaitForDrain` returns nil exactly when a `PendingCount()` read returned 0. In the model
(`GV.Model.Pipeline`) `pendingCount s = counter - processed s` mirrors `PendingCount` after the
`fix:` commit (sequenceCounter minus the sequence numbers the apply stage is done with);
`processed s` counts the blocks that have left the apply stage (ApplyFunc returned, or the
block was skipped because it failed an earlier stage). The theorems quantify over all
schedules: any number of workers, blocks held anywhere for any time.
-/
namespace GV.Props.C43
open GV.Model.Pipeline GV.Proofs.Pipeline

/-- core: if the apply stage is done with every accepted block, nothing accepted so far is
    applied later -/
theorem drain_core (c : Cfg) (hc : c.legacy = false) (s : St) (hr : Reachable c s)
    (h0 : s.counter - processed s = 0) :
    processed s = s.counter ∧
    ∀ es s', run c s es = some s' →
      ∃ rest, s'.applied = s.applied ++ rest ∧ ∀ q ∈ rest, s.counter ≤ q := by
  have hg := (all_reachable c hc s hr).1
  have hle := processed_le_counter s hg
  have heq : processed s = s.counter := by omega
  refine ⟨heq, ?_⟩
  intro es s' hrun
  obtain ⟨_, rest, h1, h2⟩ := run_applied_after c hc es s s' hr hrun
  exact ⟨rest, h1, fun q hq => by have := h2 q hq; omega⟩

/-- `drain_sound`. In any reachable state in which `PendingCount()` is 0:
    (1) every accepted block (sequence numbers `0 .. counter-1`) has left the apply stage —
        none is in a channel, in a worker, in the runner's hand, buffered or being applied;
    (2) in every continuation of the schedule, ApplyFunc is only ever called for blocks
        accepted later (sequence number `≥ counter`). -/
theorem drain_sound (c : Cfg) (hc : c.legacy = false) (s : St) (hr : Reachable c s)
    (h0 : pendingCount s = 0) :
    processed s = s.counter ∧
    ∀ es s', run c s es = some s' →
      ∃ rest, s'.applied = s.applied ++ rest ∧ ∀ q ∈ rest, s.counter ≤ q :=
  drain_core c hc s hr (by unfold pendingCount seqCounter at h0; omega)

/-- With `PendingCount() = 0` and the pipeline not being stopped, what has been applied is
    exactly the good blocks among ALL accepted ones: nothing submitted before is outstanding. -/
theorem drained_all_applied (c : Cfg) (hc : c.legacy = false) (s : St) (hr : Reachable c s)
    (hcn : s.cancelled = false) (h0 : pendingCount s = 0) :
    s.applied = okSeqs c s.subs := by
  obtain ⟨hg, hh, hs⟩ := all_reachable c hc s hr
  have hle := processed_le_counter s hg
  have heq : processed s = s.counter := by unfold pendingCount seqCounter at h0; omega
  have hlen : s.subs.length = s.counter := by simpa using congrArg List.length hh.subs_seq
  have ha := hh.applied_eq hcn
  have hnl := hg.next_le
  have hcur := hs.cur_next
  -- processed = counter forces the runner out of deq / inApply and nextSeq = counter
  have hd : decided s = s.counter := by
    unfold processed at heq
    unfold decided
    split at heq <;> simp_all <;> omega
  rw [ha, hd, ← hlen, List.take_length]

/-- `PendingCount()` is not atomic: it reads the apply stage's processed count (`pa`, under the
    stage's mutex) and afterwards the sequence counter (`pb`). `wait_for_drain_sound`: whenever
    such a call reports 0 — which is when `WaitForDrain` returns nil — the run went through a state
    `s0` (the moment of the first read) in which every block accepted so far had left the apply
    stage, and from `s0` on — in particular after the call returns, and in every continuation —
    ApplyFunc is only called for blocks accepted after `s0`. Blocks submitted before the wait
    began were accepted before `s0`. -/
theorem wait_for_drain_sound (c : Cfg) (hc : c.legacy = false) (s s' : St) (hr : Reachable c s)
    (hret : step c s (.pb 0) = some s') :
    ∃ s0 es0, Reachable c s0 ∧ run c s0 es0 = some s ∧ processed s0 = s0.counter ∧
      ∀ es s'', run c s es = some s'' →
        ∃ rest, s''.applied = s0.applied ++ rest ∧ ∀ q ∈ rest, s0.counter ≤ q := by
  -- the call that returns 0 had read a count of 0
  have h0 : (0 : Nat) ∈ s.reads := by
    simp only [step] at hret
    split at hret
    · rename_i p hp
      have := List.find?_some hp
      have hm := List.mem_of_find?_eq_some hp
      simp at this
      subst this
      exact hm
    · simp at hret
  obtain ⟨s0, es0, hr0, hp0, hrun0⟩ := reads_origin c s hr 0 h0
  obtain ⟨hproc, hfut⟩ := drain_core c hc s0 hr0 hp0
  refine ⟨s0, es0, hr0, hrun0, hproc, ?_⟩
  intro es s'' hrun
  exact hfut (es0 ++ es) s'' (run_trans c es0 es s0 s s'' hrun0 hrun)

/-- the reported count is never below the true one at the moment of the first read -/
theorem pending_count_never_under_reports (c : Cfg) (s s' : St) (n : Nat) (hr : Reachable c s)
    (hret : step c s (.pb n) = some s') :
    ∃ s0 es0, Reachable c s0 ∧ run c s0 es0 = some s ∧ s0.counter - processed s0 ≤ n := by
  have h0 : ∃ p ∈ s.reads, p ≤ n := by
    simp only [step] at hret
    split at hret
    · rename_i p hp
      have := List.find?_some hp
      exact ⟨p, List.mem_of_find?_eq_some hp, by simpa using this⟩
    · simp at hret
  obtain ⟨p, hp, hle⟩ := h0
  obtain ⟨s0, es0, hr0, hp0, hrun0⟩ := reads_origin c s hr p hp
  exact ⟨s0, es0, hr0, hrun0, by omega⟩

/-- `PendingCount` as it was before the repair (channel lengths + pending map + inFlight) does
    not count a block held by a decode worker: after `sub, dt` the old count is 0 — WaitForDrain
    would return — and the continuation `dp, at, aq, ap` applies the block afterwards. -/
theorem legacy_pending_count_misses_worker :
    (run ⟨false, false⟩ init [.start, .enter, .acq ⟨0, true, true⟩, .sub ⟨0, true, true⟩, .dt ⟨0, true, true⟩]).map
      (fun s => (pendingCountLegacy s, pendingCount s, s.decW.map Item.seq, s.applied,
        (run ⟨false, false⟩ s [.dp ⟨0, true, true⟩, .at_ ⟨0, true, true⟩, .aq ⟨0, true, true⟩,
          .ap ⟨0, true, true⟩]).map (·.applied)))
      = some (0, 1, [0], [], some [0]) := by decide

/-- the same for a block in the apply runner's hand (received, `ProcessWithStatus` not yet entered) -/
theorem legacy_pending_count_misses_runner_hand :
    (run ⟨false, false⟩ init
      [.start, .enter, .acq ⟨0, true, true⟩, .sub ⟨0, true, true⟩, .dt ⟨0, true, true⟩, .dp ⟨0, true, true⟩, .at_ ⟨0, true, true⟩]).map
      (fun s => (pendingCountLegacy s, pendingCount s)) = some (0, 1) := by decide

/-- Non-vacuity of `wait_for_drain_sound`: a block is submitted between the two reads of a
    PendingCount call that started on an empty pipeline: the call reports 1 (over-count), a second
    call after the block was skipped reports 0. -/
example :
    (run ⟨false, false⟩ init
      [.start, .pa 0, .enter, .acq ⟨0, false, false⟩, .sub ⟨0, false, false⟩, .pb 1, .dt ⟨0, false, false⟩, .dp ⟨0, false, false⟩,
       .at_ ⟨0, false, false⟩, .aq ⟨0, false, false⟩, .pa 0, .ad ⟨0, false, false⟩, .pb 1, .pa 1, .pb 0]).map
      (fun s => (s.reads, pendingCount s)) = some ([], 0) := by decide

/-- Non-vacuity of `drain_sound`: a reachable state with two accepted blocks and count 0. -/
example :
    (run ⟨false, false⟩ init
      [.start, .enter, .acq ⟨0, true, true⟩, .sub ⟨0, true, true⟩, .enter, .acq ⟨1, false, false⟩, .sub ⟨1, false, false⟩, .dt ⟨0, true, true⟩, .dp ⟨0, true, true⟩,
       .at_ ⟨0, true, true⟩, .aq ⟨0, true, true⟩, .ap ⟨0, true, true⟩, .ad ⟨0, true, true⟩,
       .rs ⟨0, true, true⟩, .dt ⟨1, false, false⟩, .dp ⟨1, false, false⟩, .at_ ⟨1, false, false⟩,
       .aq ⟨1, false, false⟩, .ad ⟨1, false, false⟩]).map
      (fun s => (pendingCount s, s.counter, s.applied)) = some (0, 2, [0]) := by decide

end GV.Props.C43
