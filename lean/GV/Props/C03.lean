import GV.Model.CborId
import GV.Proofs.CborId
import GV.Gen.SumTypes
/-!
C03 — Tagged-sum decoding follows the tag, whatever the length encoding.

A CBOR list whose first element selects a variant is decoded as the variant
named by that element, for every admissible header form of the list
(one-byte, 1/2/4/8-byte argument, indefinite) and every width of the tag.

`decodeIdFromList` (GV.Model.CborId) mirrors `cbor.DecodeIdFromList` byte for
byte *after* the `fix:` commit; `decodeIdFromListOld` is the function as found.
-/
namespace GV.Props.C03
open GV.CborT GV.Model.CborId GV.Proofs.CborId

/-- Full statement: for EVERY header form `f` (definite with any argument width
    that can carry the length, or indefinite), every width `w` of the tag `k`
    and every (valid, not over-deep) tail `xs` whose items the generic decoder
    admits (`elemsOk`: built-in tags 0..3 carry the content type fxamacker
    insists on), whatever bytes follow, the id the library extracts is `k`. -/
def C03_full (idOf : Bytes → Option Nat) : Prop :=
  ∀ (f : Form) (w : W) (k : Nat) (xs : List Cbor) (rest : Bytes),
    (mkArr f (.int false w k :: xs)).valid = true →
    depth (mkArr f (.int false w k :: xs)) ≤ maxNested → k ≤ maxInt →
    elemsOk xs = true →
    idOf (enc (mkArr f (.int false w k :: xs)) ++ rest) = some k

/-- The repaired `DecodeIdFromList` satisfies the full statement. -/
theorem decodeId_follows_tag : C03_full (decodeIdFromList true) :=
  fun f w k xs rest hv hd hk he => decodeId_enc f w k xs rest hv hd hk he

/-- …and it coincides with the fast-path-free reading of the tree
    (`tagOfTree`, which is what the `spec` column of the driver evaluates). -/
theorem decodeId_eq_tagOfTree (f : Form) (w : W) (k : Nat) (xs : List Cbor) (rest : Bytes)
    (hv : (mkArr f (.int false w k :: xs)).valid = true)
    (hd : depth (mkArr f (.int false w k :: xs)) ≤ maxNested) (hk : k ≤ maxInt)
    (he : elemsOk xs = true) :
    decodeIdFromList true (enc (mkArr f (.int false w k :: xs)) ++ rest)
      = tagOfTree (enc (mkArr f (.int false w k :: xs)) ++ rest) := by
  rw [decodeId_enc f w k xs rest hv hd hk he, tagOfTree_enc f w k xs rest hv]

/-- The list length is read correctly in every header form. -/
theorem listLength_follows_header (f : Form) (x : Cbor) (xs : List Cbor) (rest : Bytes)
    (hv : (mkArr f (x :: xs)).valid = true) (hd : depth (mkArr f (x :: xs)) ≤ maxNested)
    (he : elemsOk (x :: xs) = true) :
    listLength (enc (mkArr f (x :: xs)) ++ rest) = some (xs.length + 1) :=
  listLength_enc f x xs rest hv hd he

/-- Sum-type decoders (`variantOf` = `DecodeIdFromList` + the type's switch,
    table regenerated from the running code): the variant is the table entry of
    the first element, in every header form. -/
theorem variant_follows_tag (ty : String) (f : Form) (w : W) (k : Nat) (xs : List Cbor) (rest : Bytes)
    (hv : (mkArr f (.int false w k :: xs)).valid = true)
    (hd : depth (mkArr f (.int false w k :: xs)) ≤ maxNested) (hk : k ≤ maxInt)
    (he : elemsOk xs = true) :
    variantOf GV.Gen.SumTypes.table ty true (enc (mkArr f (.int false w k :: xs)) ++ rest)
      = lookup GV.Gen.SumTypes.table ty k := by
  unfold variantOf
  rw [decodeId_enc f w k xs rest hv hd hk he]

/-- `DecodeById` selects the destination registered for the first element. -/
theorem decodeById_follows_tag (known : Nat → Bool) (f : Form) (w : W) (k : Nat) (xs : List Cbor)
    (rest : Bytes) (hv : (mkArr f (.int false w k :: xs)).valid = true)
    (hd : depth (mkArr f (.int false w k :: xs)) ≤ maxNested) (hk : k ≤ maxInt) (hkn : known k = true)
    (he : elemsOk xs = true) :
    decodeById true known (enc (mkArr f (.int false w k :: xs)) ++ rest) = some k := by
  unfold decodeById
  rw [decodeId_enc f w k xs rest hv hd hk he,
      rawListLen_enc f _ rest hv hd (by simp [elemsOk, tagChainOk, he])]
  simp [hkn]

/-- The function as found violates the statement: `98 02 01 80` (`All []` with a
    two-byte list header) yields 2 = the length byte (`Any []`). -/
theorem old_witness :
    decodeIdFromListOld true [0x98, 0x02, 0x01, 0x80] = some 2 ∧
    tagOfTree [0x98, 0x02, 0x01, 0x80] = some 1 ∧
    decodeIdFromList true [0x98, 0x02, 0x01, 0x80] = some 1 := by
  decide

theorem old_not_full : ¬ C03_full (decodeIdFromListOld true) := by
  intro h
  have := h (.defn .w1) .w0 1 [.arr .w0 []] [] (by decide) (by decide) (by decide) (by decide)
  revert this
  decide

/-- In the regenerated table distinct tags select distinct variants (so "the
    variant named by the first element" determines the tag and vice versa). -/
theorem table_tags_distinct :
    ∀ e ∈ GV.Gen.SumTypes.table, (e.2.map (·.1)).Nodup ∧ (e.2.map (·.2)).Nodup := by
  decide

/-- Non-vacuity: hypotheses of the main theorem on a non-trivial value —
    pool-retirement-like list `[4, h'0102', 300]`, 8-byte header, 2-byte tag. -/
example : decodeIdFromList true
    (enc (mkArr (.defn .w8) [.int false .w2 4, .str false .w0 [1, 2], .int false .w2 300]) ++ [0xaa])
    = some 4 :=
  decodeId_follows_tag (.defn .w8) .w2 4 [.str false .w0 [1, 2], .int false .w2 300] [0xaa]
    (by decide) (by decide) (by decide) (by decide)

example : lookup GV.Gen.SumTypes.table "nativescript" 1 = some "NativeScriptAll" := by decide

end GV.Props.C03
