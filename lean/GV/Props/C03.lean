import GV.Model.CborId
import GV.Proofs.CborId
import GV.Gen.SumTypes
/-!
C03 — Tagged-sum decoding follows the tag, whatever the length encoding.

A CBOR list whose first element selects a variant is decoded as the variant
named by that element, for every admissible header form of the list
(one-byte, 1/2/4/8-byte argument, indefinite) and every width of the tag.

`decodeIdFromList` (GV.Model.CborId) mirrors `cbor.DecodeIdFromList` byte for
byte *after* the `fix:` commit; `decodeIdFromListOld` is the function as found.
-/
namespace GV.Props.C03
open GV.CborT GV.Model.CborId GV.Proofs.CborId

/-- Full statement: for EVERY header form `f` (definite with any argument width
    that can carry the length, or indefinite), every width `w` of the tag `k`
    and every (valid, not over-deep) tail `xs` whose items the generic decoder
    admits (`elemsOk`: built-in tags 0..3 carry the content type fxamacker
    insists on), whatever bytes follow, the id the library extracts is `k`. -/
def C03_full (idOf : Bytes → Option Nat) : Prop :=
  ∀ (f : Form) (w : W) (k : Nat) (xs : List Cbor) (rest : Bytes),
    (mkArr f (.int false w k :: xs)).valid = true →
    depth (mkArr f (.int false w k :: xs)) ≤ maxNested → k ≤ maxInt →
    elemsOk xs = true →
    idOf (enc (mkArr f (.int false w k :: xs)) ++ rest) = some k

/-- The repaired `DecodeIdFromList` satisfies the full statement. -/
theorem decodeId_follows_tag : C03_full (decodeIdFromList true) :=
  fun f w k xs rest hv hd hk he => decodeId_enc f w k xs rest hv hd hk he

/-- …and it coincides with the fast-path-free reading of the tree
    (`tagOfTree`, which is what the `spec` column of the driver evaluates). -/
theorem decodeId_eq_tagOfTree (f : Form) (w : W) (k : Nat) (xs : List Cbor) (rest : Bytes)
    (hv : (mkArr f (.int false w k :: xs)).valid = true)
    (hd : depth (mkArr f (.int false w k :: xs)) ≤ maxNested) (hk : k ≤ maxInt)
    (he : elemsOk xs = true) :
    decodeIdFromList true (enc (mkArr f (.int false w k :: xs)) ++ rest)
      = tagOfTree (enc (mkArr f (.int false w k :: xs)) ++ rest) := by
  rw [decodeId_enc f w k xs rest hv hd hk he, tagOfTree_enc f w k xs rest hv]

/-- The list length is read correctly in every header form. -/
theorem listLength_follows_header (f : Form) (x : Cbor) (xs : List Cbor) (rest : Bytes)
    (hv : (mkArr f (x :: xs)).valid = true) (hd : depth (mkArr f (x :: xs)) ≤ maxNested)
    (he : elemsOk (x :: xs) = true) :
    listLength (enc (mkArr f (x :: xs)) ++ rest) = some (xs.length + 1) :=
  listLength_enc f x xs rest hv hd he

/-- Sum-type decoders (`variantOfInfo` = navigation to the tagged list +
    `DecodeIdFromList` + the type's switch): wherever the tagged list sits in the
    decoder's input (`e.path`: top level for scripts, certificates, …; nested for
    the ledger failure reasons and the local-state-query leaves), the variant is
    the table entry of the list's first element, in every header form. -/
theorem variant_follows_tag (e : SumInfo) (T : Cbor) (f : Form) (w : W) (k : Nat) (xs : List Cbor)
    (rest : Bytes) (hT : T.valid = true)
    (hg : e.guards.all (guardOk T) = true)
    (hnav : nav T e.path = some (mkArr f (.int false w k :: xs)))
    (hv : (mkArr f (.int false w k :: xs)).valid = true)
    (hd : depth (mkArr f (.int false w k :: xs)) ≤ maxNested) (hk : k ≤ maxInt)
    (he : elemsOk xs = true) :
    variantOfInfo e true (enc T ++ rest) = some (e.variant k) := by
  unfold variantOfInfo subBytes
  cases hp : e.path with
  | nil =>
    rw [hp] at hnav
    simp only [nav, Option.some.injEq] at hnav
    subst hnav
    simp only
    rw [decodeId_enc f w k xs rest hv hd hk he]
  | cons i p =>
    simp only
    rw [decode_enc T hT rest]
    rw [hp] at hnav
    simp only [hg, ↓reduceIte, hnav, Option.map_some]
    have := decodeId_enc f w k xs [] hv hd hk he
    rw [List.append_nil] at this
    rw [this]

/-- …and this is what the fast-path-free reading of the tree gives (`variantSpec`
    is the `spec` column of the driver). -/
theorem variant_eq_spec (T : Cbor) (f : Form) (w : W) (k : Nat) (xs : List Cbor)
    (rest : Bytes) (hT : T.valid = true) (e : SumInfo)
    (hg : e.guards.all (guardOk T) = true)
    (hnav : nav T e.path = some (mkArr f (.int false w k :: xs)))
    (hv : (mkArr f (.int false w k :: xs)).valid = true) :
    (match subBytes e (enc T ++ rest) with
     | some sb => (tagOfTree sb).map e.variant
     | none => none) = some (e.variant k) := by
  unfold subBytes
  cases hp : e.path with
  | nil =>
    rw [hp] at hnav
    simp only [nav, Option.some.injEq] at hnav
    subst hnav
    simp only
    rw [tagOfTree_enc f w k xs rest hv]; rfl
  | cons i p =>
    simp only
    rw [decode_enc T hT rest]
    rw [hp] at hnav
    simp only [hg, ↓reduceIte, hnav, Option.map_some]
    have := tagOfTree_enc f w k xs [] hv
    rw [List.append_nil] at this
    rw [this]; rfl

/-- `DecodeById` selects the destination registered for the first element. -/
theorem decodeById_follows_tag (known : Nat → Bool) (f : Form) (w : W) (k : Nat) (xs : List Cbor)
    (rest : Bytes) (hv : (mkArr f (.int false w k :: xs)).valid = true)
    (hd : depth (mkArr f (.int false w k :: xs)) ≤ maxNested) (hk : k ≤ maxInt) (hkn : known k = true)
    (he : elemsOk xs = true) :
    decodeById true known (enc (mkArr f (.int false w k :: xs)) ++ rest) = some k := by
  unfold decodeById
  rw [decodeId_enc f w k xs rest hv hd hk he,
      rawListLen_enc f _ rest hv hd (by simp [elemsOk, tagChainOk, he])]
  simp [hkn]

/-- The function as found violates the statement: `98 02 01 80` (`All []` with a
    two-byte list header) yields 2 = the length byte (`Any []`). -/
theorem old_witness :
    decodeIdFromListOld true [0x98, 0x02, 0x01, 0x80] = some 2 ∧
    tagOfTree [0x98, 0x02, 0x01, 0x80] = some 1 ∧
    decodeIdFromList true [0x98, 0x02, 0x01, 0x80] = some 1 := by
  decide

theorem old_not_full : ¬ C03_full (decodeIdFromListOld true) := by
  intro h
  have := h (.defn .w1) .w0 1 [.arr .w0 []] [] (by decide) (by decide) (by decide) (by decide)
  revert this
  decide

/-- In the regenerated table distinct tags select distinct variants (so "the
    variant named by the first element" determines the tag and vice versa). -/
theorem table_tags_distinct :
    ∀ e ∈ GV.Gen.SumTypes.table, (e.tags.map (·.1)).Nodup ∧ (e.tags.map (·.2)).Nodup := by
  decide

/-- Non-vacuity: hypotheses of the main theorem on a non-trivial value —
    pool-retirement-like list `[4, h'0102', 300]`, 8-byte header, 2-byte tag. -/
example : decodeIdFromList true
    (enc (mkArr (.defn .w8) [.int false .w2 4, .str false .w0 [1, 2], .int false .w2 300]) ++ [0xaa])
    = some 4 :=
  decodeId_follows_tag (.defn .w8) .w2 4 [.str false .w0 [1, 2], .int false .w2 300] [0xaa]
    (by decide) (by decide) (by decide) (by decide)

example : (findSum GV.Gen.SumTypes.table "nativescript").map (·.variant 1) = some (.lab "NativeScriptAll") := by
  decide

/-- Non-vacuity of the nested statement: a Conway UTXOW failure `[[6, [[0, [2, x]]]]]` whose inner
    list has a 2-byte header: the navigation reaches the tagged list. -/
example : nav (.arr .w0 [.arr .w0 [.int false .w0 6, .arr .w0 [.arr .w0 [.int false .w0 0,
      mkArr (.defn .w1) [.int false .w0 2, .arr .w0 []]]]]]) [0, 1, 0, 1]
    = some (mkArr (.defn .w1) [.int false .w0 2, .arr .w0 []]) := rfl

end GV.Props.C03
