import GV.Model.Withdrawals
import GV.Gen.G1Rules
import GV.Gen.RuleLists
/-!
C33 — Reward withdrawals are gated on DRep delegation only at PV10 and PV11.

For a phase-1-valid Conway-or-later transaction, a non-zero withdrawal from a
registered key-hash reward account is rejected for lack of a DRep delegation
exactly when the protocol major version is 10 or 11 and the account has no
DRep delegation. At PV10/PV11 a ledger state that cannot answer the delegation
query yields the 'state unavailable' error, and versions up to 9 and from 12 on
impose no delegation requirement.
-/
namespace GV.Props.C33
open GV.Model.Withdrawals

/-- (R) The version gate translated from the Go source on this run is the model's
    gate, and it is open exactly at 10 and 11 — for every version number. -/
theorem gate_is_10_11 (pv : Nat) :
    GV.Gen.G1Rules.withdrawalsGateSkipped pv = gateSkipped pv ∧
    (gateSkipped pv = false ↔ pv = 10 ∨ pv = 11) := by
  simp only [GV.Gen.G1Rules.withdrawalsGateSkipped, gateSkipped,
    GV.Gen.G1Consts.protocolVersionPlomin, GV.Gen.G1Consts.protocolVersionDijkstra]
  refine ⟨rfl, ?_⟩
  by_cases h1 : pv < 10 <;> by_cases h2 : pv ≥ 12 <;> simp [h1, h2] <;> omega

/-- The loop, for a capable state whose lookups do not fail on non-zero withdrawals:
    `notDeleg` iff some non-zero withdrawal has no delegation, `ok` otherwise —
    whatever the iteration order. -/
theorem gateLoop_capable (l : List Wd)
    (hne : ∀ w ∈ l, w.amount ≠ 0 → w.lookup ≠ .error) :
    gateLoop true l =
      if l.any (fun w => decide (w.amount ≠ 0) && decide (w.lookup = .noDelegation))
      then .notDeleg else .ok := by
  induction l with
  | nil => simp [gateLoop]
  | cons w rest ih =>
    have ih' := ih (fun x hx => hne x (List.mem_cons_of_mem _ hx))
    have hw := hne w List.mem_cons_self
    unfold gateLoop
    by_cases h0 : w.amount = 0
    · simp [h0, ih']
    · have hw' := hw h0
      cases hl : w.lookup with
      | error => exact absurd hl hw'
      | noDelegation => simp [h0, hl]
      | delegated => simp [h0, hl, ih']

/-- The loop for a state without the capability: `unavail` iff there is a non-zero
    withdrawal at all. -/
theorem gateLoop_incapable (l : List Wd) :
    gateLoop false l = if l.any (fun w => decide (w.amount ≠ 0)) then .unavail else .ok := by
  induction l with
  | nil => simp [gateLoop]
  | cons w rest ih =>
    unfold gateLoop
    by_cases h0 : w.amount = 0
    · simp [h0, ih]
    · simp [h0]

/-- Main clause. Phase-2-valid transaction, every withdrawal from a registered account,
    a ledger state that answers: rejection for lack of delegation happens exactly when
    the version is 10 or 11 and some non-zero withdrawal has no delegation; otherwise
    the rule passes. All versions, all withdrawal lists, every iteration order. -/
theorem gate_iff (o : Op) (hv : o.valid = true) (hr : ∀ w ∈ o.wds, w.registered = true)
    (hc : o.capable = true) (hne : ∀ w ∈ o.wds, w.amount ≠ 0 → w.lookup ≠ .error) :
    (rule o = .notDeleg ↔
      (o.pv = 10 ∨ o.pv = 11) ∧ ∃ w ∈ o.wds, w.amount ≠ 0 ∧ w.lookup = .noDelegation) ∧
    (rule o = .notDeleg ∨ rule o = .ok) := by
  have hreg : o.wds.any (fun w => !w.registered) = false := by
    rw [List.any_eq_false]; intro w hw; simp [hr w hw]
  have hg := (gate_is_10_11 o.pv).2
  unfold rule
  simp only [hv, Bool.not_true, Bool.false_eq_true, ↓reduceIte, hreg, hc]
  by_cases he : o.wds.isEmpty = true
  · have : o.wds = [] := List.isEmpty_iff.mp he
    simp [this]
  · simp only [he, Bool.false_eq_true, ↓reduceIte]
    by_cases hs : gateSkipped o.pv = true
    · have hn : ¬ (o.pv = 10 ∨ o.pv = 11) := fun c => by
        have := hg.2 c; rw [hs] at this; cases this
      simp [hs, hn]
    · have hs' : gateSkipped o.pv = false := by simpa using hs
      have hpv := hg.1 hs'
      rw [if_neg hs, gateLoop_capable o.wds hne]
      by_cases ha : o.wds.any (fun w => decide (w.amount ≠ 0) && decide (w.lookup = .noDelegation)) = true
      · have hex : ∃ w ∈ o.wds, w.amount ≠ 0 ∧ w.lookup = .noDelegation := by
          obtain ⟨w, hw, hp⟩ := List.any_eq_true.mp ha
          simp only [Bool.and_eq_true, decide_eq_true_eq] at hp
          exact ⟨w, hw, hp.1, hp.2⟩
        simp only [ha, ↓reduceIte, true_iff, true_or, and_true]
        exact ⟨hpv, hex⟩
      · have hnex : ¬ ∃ w ∈ o.wds, w.amount ≠ 0 ∧ w.lookup = .noDelegation := by
          rintro ⟨w, hw, h1, h2⟩
          apply ha
          exact List.any_eq_true.mpr ⟨w, hw, by simp [h1, h2]⟩
        simp [hnex]

/-- At PV10/PV11 a ledger state that cannot answer yields 'state unavailable' as soon
    as one non-zero withdrawal is present. -/
theorem unanswerable_state_error (o : Op) (hv : o.valid = true)
    (hr : ∀ w ∈ o.wds, w.registered = true) (hpv : o.pv = 10 ∨ o.pv = 11)
    (hc : o.capable = false) (hnz : ∃ w ∈ o.wds, w.amount ≠ 0) :
    rule o = .unavail := by
  have hreg : o.wds.any (fun w => !w.registered) = false := by
    rw [List.any_eq_false]; intro w hw; simp [hr w hw]
  have hs : gateSkipped o.pv = false := ((gate_is_10_11 o.pv).2).2 hpv
  obtain ⟨w, hw, h0⟩ := hnz
  have hne : o.wds.isEmpty = false := by
    cases hl : o.wds with
    | nil => rw [hl] at hw; cases hw
    | cons a l => rfl
  have ha : o.wds.any (fun w => decide (w.amount ≠ 0)) = true :=
    List.any_eq_true.mpr ⟨w, hw, by simp [h0]⟩
  unfold rule
  simp only [hv, hreg, hne, hs, hc, gateLoop_incapable, ha, Bool.not_true, Bool.false_eq_true, ↓reduceIte]

/-- Versions up to 9 and from 12 on impose no delegation requirement: the rule is the
    registration check alone, whatever the delegations and the state's capability. -/
theorem no_gate_outside (o : Op) (hpv : o.pv ≤ 9 ∨ o.pv ≥ 12) :
    rule o = (if o.valid && o.wds.any (fun w => !w.registered) then .unreg else .ok) := by
  have hs : gateSkipped o.pv = true := by
    cases hq : gateSkipped o.pv with
    | true => rfl
    | false => have := ((gate_is_10_11 o.pv).2).1 hq; omega
  unfold rule
  by_cases hv : o.valid = true <;> by_cases hr : o.wds.any (fun w => !w.registered) = true <;>
    by_cases he : o.wds.isEmpty = true <;> simp [hv, hr, he, hs]

/-- Zero-amount withdrawals never need a delegation, in any version. -/
theorem zero_amounts_free (o : Op) (hz : ∀ w ∈ o.wds, w.amount = 0) :
    rule o = .ok ∨ rule o = .unreg := by
  have hl : ∀ (c : Bool) (l : List Wd), (∀ w ∈ l, w.amount = 0) → gateLoop c l = .ok := by
    intro c l; induction l with
    | nil => intro _; simp [gateLoop]
    | cons w rest ih =>
      intro h; unfold gateLoop
      simp [h w List.mem_cons_self, ih (fun x hx => h x (List.mem_cons_of_mem _ hx))]
  unfold rule
  by_cases hv : o.valid = true <;> by_cases hr : o.wds.any (fun w => !w.registered) = true <;>
    by_cases he : o.wds.isEmpty = true <;> by_cases hs : gateSkipped o.pv = true <;>
    simp [hv, hr, he, hs, hl o.capable o.wds hz]

/-- A phase-2-invalid transaction is not subject to the rule. -/
theorem invalid_skips (o : Op) (hv : o.valid = false) : rule o = .ok := by
  unfold rule; simp [hv]

/-- Go's map iteration order does not matter (when lookups do not fail): any
    permutation of the withdrawals gives the same verdict. -/
theorem order_independent (o : Op) (l' : List Wd) (hp : o.wds.Perm l')
    (hne : ∀ w ∈ o.wds, w.amount ≠ 0 → w.lookup ≠ .error) :
    rule { o with wds := l' } = rule o := by
  have hne' : ∀ w ∈ l', w.amount ≠ 0 → w.lookup ≠ .error :=
    fun w hw => hne w (hp.mem_iff.mpr hw)
  unfold rule
  simp only
  rw [← hp.any_eq, ← hp.isEmpty_eq]
  cases hc : o.capable with
  | true => rw [gateLoop_capable l' hne', gateLoop_capable o.wds hne, ← hp.any_eq]
  | false => rw [gateLoop_incapable l', gateLoop_incapable o.wds, ← hp.any_eq]

/-- (R) constants and rule lists as they stand in the repository now. -/
theorem consts_and_rules :
    GV.Gen.G1Consts.protocolVersionConway = 9 ∧ GV.Gen.G1Consts.protocolVersionPlomin = 10 ∧
    GV.Gen.G1Consts.protocolVersionVanRossem = 11 ∧ GV.Gen.G1Consts.protocolVersionDijkstra = 12 ∧
    "UtxoValidateWithdrawals" ∈ GV.Gen.RuleLists.conway ∧
    "conway.UtxoValidateWithdrawals" ∈ GV.Gen.RuleLists.dijkstra ∧
    GV.Gen.G1Rules.withdrawalsDelegation = [("conway", "self")] := by
  decide

/-- Non-vacuity. -/
example : rule { pv := 10, valid := true, capable := true,
                 wds := [⟨true, true, 0, .noDelegation⟩, ⟨true, true, 5, .noDelegation⟩] } = .notDeleg := by decide
example : rule { pv := 11, valid := true, capable := false, wds := [⟨true, true, 5, .delegated⟩] } = .unavail := by decide
example : rule { pv := 12, valid := true, capable := false, wds := [⟨true, true, 5, .noDelegation⟩] } = .ok := by decide
example : rule { pv := 10, valid := true, capable := true, wds := [⟨true, true, 5, .delegated⟩] } = .ok := by decide

end GV.Props.C33
