import GV.Model.Kes
import GV.Model.KesSym
import GV.Proofs.Kes
import GV.Gen.GoLite
import GV.Gen.KesConsts
import GV.Gen.KesFacts
/-!
C39 — KES signatures are forward-secure and period-bound.

For every seed and every period t below 2^depth, a signature made with a key
evolved t times verifies under the key's public key at period t only; it fails at
every other period, for any other message, and under any other public key.
Evolving a key never changes its public key, and an evolved key cannot sign for an
earlier period.

All theorems are about `GV.Model.Kes` (mirror of kes/kes.go, kes/sign.go), for an
arbitrary instance `P` of the primitives.  The laws of the primitives a theorem
needs are hypotheses of that theorem (`hc`, `Ideal P`, `TreeAddr …`); the `example`s
instantiate them with the free term algebra `sym`.
-/
namespace GV.Props.C39
open GV.Model.Kes GV.Proofs.Kes

variable {Seed Key Msg Sig : Type} (P : Prims Seed Key Msg Sig)

/-- `t` Updates of a fresh key succeed (for every t < 2^d) and give the key of period `t`,
    whose data is the closed form `stateAt`. -/
theorem evolve_ok (d : Nat) (s : Seed) (t : Nat) (hd : d < 64) (ht : t < 2 ^ d) :
    updateN P t (keyGen P d s) = .ok (keyAt P d s t) := by
  rw [keyGen_eq, updateN_keyAt P d s hd t 0 (by omega)]; simp

/-- Positive clause: the key evolved `t` times signs at period `t`, and the signature
    verifies under the KeyGen public key at period `t`.  Needs only completeness of Ed25519. -/
theorem verify_sign_evolved [DecidableEq Key]
    (hc : ∀ s m, P.verify (P.pkOf s) m (P.sign s m) = true)
    (d : Nat) (s : Seed) (t : Nat) (m : Msg) (hd : d < 64) (ht : t < 2 ^ d) :
    ∃ sk σ, updateN P t (keyGen P d s) = .ok sk ∧ sign P sk t m = .ok σ ∧
      verify P σ t (keyGen P d s).pk m = true := by
  refine ⟨keyAt P d s t, signInternal P (stateAt P d s t) t m, evolve_ok P d s t hd ht, ?_, ?_⟩
  · have h1 : ¬ (t ≥ 2 ^ d) := by omega
    simp [sign, keyAt, shl1_of_lt hd, h1]
  · rw [keyGen_eq]
    exact verify_signInternal P hc d s t m hd ht

/-- Evolving never changes the public key: neither the cached one nor the one
    recomputed from the evolved data (`publicKeyInternal`). -/
theorem update_preserves_pk (sk sk' : SecretKey Seed Key) (h : update P sk = .ok sk') :
    sk'.pk = sk.pk ∧ sk'.depth = sk.depth ∧ sk'.period = sk.period + 1 := by
  unfold update at h
  split at h
  · simp at h
  · split at h
    · simp at h
    · simp only [Except.ok.injEq] at h
      subst h; simp

theorem evolved_pk_recomputed (d : Nat) (s : Seed) (t : Nat) (hd : d < 64) (ht : t < 2 ^ d) :
    ∃ sk k, updateN P t (keyGen P d s) = .ok sk ∧ sk.data = some k ∧
      sk.pk = (keyGen P d s).pk ∧ publicKeyInternal P k = (keyGen P d s).pk := by
  refine ⟨keyAt P d s t, stateAt P d s t, evolve_ok P d s t hd ht, rfl, ?_, ?_⟩
  · rw [keyGen_eq]; rfl
  · rw [keyGen_eq, publicKeyInternal_stateAt]; rfl

/-- The key's lifetime is exactly 2^d periods: the Update after period 2^d − 1 fails. -/
theorem exhausted_after_last (d : Nat) (s : Seed) (hd : d < 64) :
    update P (keyAt P d s (2 ^ d - 1)) = .error .exhausted := by
  have := two_pow_pos d
  exact update_exhausted P d s _ hd (by omega)

/-- Period bound: a signature of depth ≥ 1 is rejected at every period ≥ 2^depth
    (as Go computes `1 << depth`), whatever key and message. -/
theorem period_bound [DecidableEq Key] (inner : KSig Key Sig) (l r : Key) (q : Nat) (K : Key)
    (m : Msg) (h : q ≥ shl1 (inner.depth + 1)) :
    verify P (.node inner l r) q K m = false :=
  verify_period_bound P inner l r q K m h

/-- An evolved key signs for its own period only: every other period — in particular
    every earlier one — is refused. -/
theorem no_sign_other_period (sk : SecretKey Seed Key) (p : Nat) (m : Msg) (h : p ≠ sk.period) :
    ∃ e, sign P sk p m = .error e := by
  unfold sign
  split
  · exact ⟨_, rfl⟩
  · split
    · exact ⟨_, rfl⟩
    · simp [h]

/-- After `Update` the predecessor (`Zeroize`d in place) cannot sign at all. -/
theorem predecessor_erased (sk : SecretKey Seed Key) (p : Nat) (m : Msg) :
    sign P (erase sk) p m = .error .erased := by
  simp [sign, erase]

/-- Symbolic binding (ideal primitives): the signature of period `t` for `m` verifies under
    key `K` at period `q` for message `m'` **iff** `K` is the key's public key, `q = t`, `m' = m`.
    So it fails at every other period, for any other message, under any other key. -/
theorem verify_iff [DecidableEq Key] (hI : Ideal P)
    (hc : ∀ s m, P.verify (P.pkOf s) m (P.sign s m) = true)
    (d : Nat) (s : Seed) (t q : Nat) (m m' : Msg) (K : Key)
    (hd : 1 ≤ d ∧ d < 64) (ht : t < 2 ^ d) :
    verify P (signInternal P (stateAt P d s t) t m) q K m' = true ↔
      (K = pkFromSeed P d s ∧ q = t ∧ m' = m) := by
  constructor
  · intro h
    by_cases hq : q < 2 ^ d
    · exact verify_binding P hI d s t q m m' K ht hq h
    · exfalso
      obtain ⟨d', rfl⟩ : ∃ d', d = d' + 1 := ⟨d - 1, by omega⟩
      have hb : q ≥ shl1 (d' + 1) := by rw [shl1_of_lt hd.2]; omega
      simp only [stateAt] at h
      split at h <;> simp only [signInternal] at h <;> split at h <;>
        simp [verify, depth_signInternal, depth_stateAt, hb] at h
  · rintro ⟨rfl, rfl, rfl⟩
    exact verify_signInternal P hc d s _ _ hd.2 ht

/-- Symbolic unforgeability (ideal primitives): whatever signature of depth `d` the verifier
    accepts under the key's public key at period `q` for `m'` is byte-for-byte the signature the
    key evolved to period `q` makes for `m'` (so any flipped bit, swapped or substituted cell fails),
    and `q` is within the key's lifetime. -/
theorem unforgeable_symbolic [DecidableEq Key] (hI : Ideal P)
    (d : Nat) (s : Seed) (σ : KSig Key Sig) (q : Nat) (m' : Msg)
    (hσ : σ.depth = d) (hd : 1 ≤ d ∧ d < 64)
    (h : verify P σ q (pkFromSeed P d s) m' = true) :
    q < 2 ^ d ∧ σ = signInternal P (stateAt P d s q) q m' := by
  have := verify_unique P hI d s σ q m' hσ hd.2 h
  exact ⟨this.2 hd.1, this.1⟩

/-- Forward security of the stored material (symbolic: the seeds under the root form a tree,
    `TreeAddr`): from no seed cell held by the key evolved to period `t` can the Ed25519 seed of
    an earlier period `t' < t` be derived by seed expansion.  (`leafSig_signInternal`: that seed
    is the one a period-`t'` signature is made with.) -/
theorem no_backdating (addr : Seed → Option (List Bool)) (d : Nat) (s : Seed)
    (hT : TreeAddr P s addr) (hd : d < 64) (t t' : Nat) (ht : t < 2 ^ d) (hlt : t' < t) :
    ∃ sk k, updateN P t (keyGen P d s) = .ok sk ∧ sk.data = some k ∧
      ∀ c ∈ k.seeds, ¬ Derives P c (leafSeed P d s t') :=
  ⟨keyAt P d s t, stateAt P d s t, evolve_ok P d s t hd ht, rfl,
    no_earlier_leaf hT.step hT.zero d s t t' hT.root ht hlt⟩

theorem earlier_leaf_is_signing_seed (d : Nat) (s : Seed) (t' : Nat) (m : Msg) :
    leafSig (signInternal P (stateAt P d s t') t' m) = P.sign (leafSeed P d s t') m :=
  leafSig_signInternal P d s t' m

/-! ### byte layout and the regenerated leaf arithmetic -/

theorem sig_cells_length (σ : KSig Key Sig) :
    (σ.cells (Seed := Seed)).length = 1 + 2 * σ.depth := by
  induction σ with
  | leaf _ => rfl
  | node i l r ih => simp [KSig.cells, KSig.depth, ih]; omega

theorem key_cells_length (k : SKey Seed Key) :
    (k.cells (Sig := Sig)).length = 1 + 3 * k.depth := by
  induction k with
  | leaf _ => rfl
  | node c rs l r ih => simp [SKey.cells, SKey.depth, ih]; omega

/-- signature bytes: one 64-byte cell and 32-byte cells -/
theorem signature_size_bytes (sk : SKey Seed Key) (t : Nat) (m : Msg) :
    64 + 32 * (((signInternal P sk t m).cells (Seed := Seed)).length - 1) = signatureSize sk.depth := by
  rw [sig_cells_length, depth_signInternal]; simp [signatureSize]; omega

open GV.Gen.GoLite in
/-- regenerated `kes.MaxPeriod` is the model's `uint64(1) << depth` -/
theorem gen_maxPeriod_eq (d : Nat) : kesMaxPeriod (d : Int) = (shl1 d : Int) := by
  unfold kesMaxPeriod wrapU shl1
  have e1 : ((1 : Int) % 2 ^ 64) = 1 := by decide
  simp only [e1, Int.one_mul, Int.toNat_natCast]
  by_cases h : d < 64
  · simp only [h, if_true]
    have h1 : (2 : Nat) ^ d < 2 ^ 64 := Nat.pow_lt_pow_right (by decide) h
    have : (2 : Nat) ^ d % 2 ^ 64 = 2 ^ d := Nat.mod_eq_of_lt h1
    exact_mod_cast this
  · simp only [h, if_false]
    have hd : (2 : Nat) ^ 64 ∣ 2 ^ d := Nat.pow_dvd_pow 2 (by omega)
    have : (2 : Nat) ^ d % 2 ^ 64 = 0 := Nat.mod_eq_zero_of_dvd hd
    exact_mod_cast this

open GV.Gen.GoLite in
/-- regenerated `kes.SignatureSize` is the model's size for every depth that can occur -/
theorem gen_signatureSize_eq (d : Nat) (h : d < 2 ^ 50) :
    kesSignatureSize (d : Int) = (signatureSize d : Int) := by
  unfold kesSignatureSize wrapU wrapS signatureSize
  have e1 : ((64 : Int) % 2 ^ 64) = 64 := by decide
  have e2 : ((d : Int) * 64) % 2 ^ 64 = (d : Int) * 64 := by
    apply Int.emod_eq_of_lt <;> omega
  simp only [e1, e2]
  have e3 : (64 + (d : Int) * 64) % 2 ^ 64 = 64 + (d : Int) * 64 := by
    apply Int.emod_eq_of_lt <;> omega
  simp only [e3]
  by_cases hd0 : d = 0
  · subst hd0; decide
  · have hpos : (d : Int) > 0 := by omega
    have e4 : (d : Int) * 64 / (d : Int) = 64 := Int.mul_ediv_cancel_left _ (by omega)
    have e5 : ¬ (64 + (d : Int) * 64 < 64) := by omega
    have e6 : ((9223372036854775807 : Int) % 2 ^ 64) = 9223372036854775807 := by decide
    have e7 : ¬ (64 + (d : Int) * 64 > 9223372036854775807) := by omega
    simp only [hpos, e4, e5, e6, e7, decide_true, decide_false, ne_eq, not_true_eq_false,
      Bool.and_false, Bool.or_false, Bool.false_eq_true, if_false]
    have e8 : (64 + (d : Int) * 64 + 2 ^ (64 - 1)) % 2 ^ 64 = 64 + (d : Int) * 64 + 2 ^ 63 := by
      apply Int.emod_eq_of_lt <;> omega
    rw [e8]; push_cast; omega

/-- the regenerated constants agree with the model's layout at the Cardano depth -/
theorem consts_layout :
    GV.Gen.KesConsts.cardanoKesSignatureSize = signatureSize GV.Gen.KesConsts.cardanoKesDepth ∧
    GV.Gen.KesConsts.cardanoKesSecretKeySize = secretKeySize GV.Gen.KesConsts.cardanoKesDepth ∧
    GV.Gen.KesConsts.sigmaSize = 64 ∧ GV.Gen.KesConsts.publicKeySize = 32 ∧
    GV.Gen.KesConsts.kesSeedSize = 32 ∧ GV.Gen.KesConsts.kesEd25519KeySize = 32 := by
  decide

/-- Regenerated source facts: the branch conditions of Sign, signInternal, Update, updateInternal,
    Verify, NewSumKesFromBytes, keyGenInternal and secretKeySize as they stand in kes/*.go on
    this run; the model's `sign`, `signInternal`, `update`, `updateInternal`, `verify`,
    `newSumKesFromBytes` were written against exactly these comparisons (a `<` turned into `<=`
    or a dropped `-1` breaks this obligation without any test input). -/
theorem source_facts :
    GV.Gen.KesFacts.signConds =
      ["sk == nil", "sk.Data == nil", "period >= maxPeriod", "period != sk.Period", "err != nil"] ∧
    GV.Gen.KesFacts.signInternalConds = ["depth == 0", "period < halfPeriod"] ∧
    GV.Gen.KesFacts.updateConds =
      ["sk == nil", "sk.Data == nil", "newPeriod >= maxPeriod", "err != nil"] ∧
    GV.Gen.KesFacts.updateInternalConds =
      ["depth == 0", "period < halfPeriod-1", "period == halfPeriod-1", "err != nil"] ∧
    GV.Gen.KesFacts.verifyConds =
      ["period >= maxPeriod", "subtle.ConstantTimeCompare(pk2, pubKey) != 1", "period >= nextDepth"] ∧
    GV.Gen.KesFacts.parseConds =
      ["depth == 0", "kesSize > math.MaxInt", "len(fromByte) != int(kesSize)", "depth == 1", "err != nil"] ∧
    GV.Gen.KesFacts.keyGenInternalConds = ["depth == 0", "err != nil", "err != nil"] ∧
    GV.Gen.KesFacts.secretKeySizeConds = ["depth == 0", "depth > math.MaxInt/96"] := by
  decide

/-! ### non-vacuity: the hypotheses hold for the free term instance -/
open GV.Model.KesSym

example : ∀ s m, sym.verify (sym.pkOf s) m (sym.sign s m) = true := sym_complete
example : Ideal sym := sym_ideal
example : TreeAddr sym (Tm.root 0) (addr 0) := sym_treeAddr 0

/-- the theorems instantiate: depth 6, period 37, on the free instance -/
example : verify sym (signInternal sym (stateAt sym 6 (Tm.root 0) 37) 37 (5 : Nat)) 37
    (pkFromSeed sym 6 (Tm.root 0)) 5 = true :=
  (verify_iff sym sym_ideal sym_complete 6 (Tm.root 0) 37 37 5 5 _ (by decide) (by decide)).2
    ⟨rfl, rfl, rfl⟩

example : verify sym (signInternal sym (stateAt sym 3 (Tm.root 0) 5) 5 (1 : Nat)) 4
    (pkFromSeed sym 3 (Tm.root 0)) 1 = false := by decide

/-- without the wipe the claim would be false: the right seed kept at the transition derives
    nothing earlier, but a kept *left* leaf seed does — the closed form has neither. -/
example : (stateAt sym 2 (Tm.root 0) 2).seeds = [Tm.exp (Tm.exp (Tm.root 0) true) false,
    Tm.exp (Tm.exp (Tm.root 0) true) true, Tm.zero] := by decide

end GV.Props.C39
