import GV.Model.Reassembly
import GV.Proofs.Reassembly
/-!
C10 — Messages survive segmentation and reassembly unchanged.

Any sequence of mini-protocol messages queued by one endpoint is received by the peer as
the same sequence, with identical bytes and in the same order, for any message sizes, with
several messages packed into one segment or one message split across many, and for any
timing of the sends.

The message decoder is abstract: the theorems hold for every `wf` satisfying `Laws`
(consumed ≤ length, an item followed by anything parses to the same length, a proper prefix
of an item is "incomplete" — never accepted, never an error). For CBOR these are
`wf_consumes_le`, `wf_unique`, `wf_prefix` (proved for the real well-formedness machine by
the CBOR properties); the tie runs the real fxamacker decoder.
-/
namespace GV.Props.C10
open GV.Model.Reassembly GV.Proofs.Reassembly

/-- **Reassembly is the identity.** For every decoder satisfying the laws, every sequence of
    messages (each one complete item of at most `maxReadBufferSize` bytes) and EVERY way of
    cutting their concatenation into segments, the read loop hands exactly those messages,
    byte-identical and in order, to the receive queue, ends with an empty buffer and no error. -/
theorem reassemble_id (wf : Bytes → Res) (L : Laws wf) (msgs segs : List Bytes)
    (hitem : ∀ m ∈ msgs, IsItem wf m) (hmax : ∀ m ∈ msgs, m.length ≤ maxReadBuffer)
    (hcut : segs.flatten = msgs.flatten) :
    (readAll wf segs).msgs = msgs ∧ (readAll wf segs).err = none ∧ (readAll wf segs).buf = [] := by
  have hfold := fold_eq_drain L segs [] (by
    intro b r h
    simp only [List.nil_append] at h
    exact prefix_ok L msgs hitem hmax b r (by rw [h, hcut]))
  have hinit : toState (drain wf ([] : List Bytes).flatten []) = RState.init := by
    simp [toState, drain_nil, RState.init]
  rw [hinit] at hfold
  have hall : drain wf msgs.flatten [] = ([], msgs.reverse, none) := by
    have := drain_items L msgs [] [] hitem (Or.inl rfl)
    simpa using this
  unfold readAll
  rw [hfold]
  simp only [List.nil_append, hcut, hall, toState, RState.msgs, List.reverse_reverse, and_self]

/-- The sender's segments: whatever batches the send loop forms, every segment carries
    1..65535 bytes and the segments concatenate to the messages' bytes in queue order. -/
theorem segments_ok (batches : List (List Bytes)) :
    (∀ s ∈ sendSegs batches, 0 < s.length ∧ s.length ≤ 65535) ∧
    (sendSegs batches).flatten = batches.flatten.flatten :=
  ⟨sendSegs_bounds batches, sendSegs_flatten batches⟩

/-- **End to end.** However the send loop groups the queued messages into batches (several
    messages in one segment, one message over many segments, any timing of the queue), the
    peer's read loop receives exactly the queued sequence. -/
theorem end_to_end (wf : Bytes → Res) (L : Laws wf) (batches : List (List Bytes))
    (hitem : ∀ m ∈ batches.flatten, IsItem wf m)
    (hmax : ∀ m ∈ batches.flatten, m.length ≤ maxReadBuffer) :
    (readAll wf (sendSegs batches)).msgs = batches.flatten ∧
    (readAll wf (sendSegs batches)).err = none :=
  let r := reassemble_id wf L batches.flatten (sendSegs batches) hitem hmax (sendSegs_flatten batches)
  ⟨r.1, r.2.1⟩

/-- The muxer may re-cut the stream arbitrarily: two segmentations of the same bytes are
    indistinguishable to the receiver. -/
theorem segmentation_irrelevant (wf : Bytes → Res) (L : Laws wf) (msgs s1 s2 : List Bytes)
    (hitem : ∀ m ∈ msgs, IsItem wf m) (hmax : ∀ m ∈ msgs, m.length ≤ maxReadBuffer)
    (h1 : s1.flatten = msgs.flatten) (h2 : s2.flatten = msgs.flatten) :
    (readAll wf s1).msgs = (readAll wf s2).msgs := by
  rw [(reassemble_id wf L msgs s1 hitem hmax h1).1, (reassemble_id wf L msgs s2 hitem hmax h2).1]

/-- After any whole number of segments the messages handed over so far are a prefix of the
    queued sequence (nothing is reordered, duplicated or invented mid-stream). -/
theorem received_is_prefix (wf : Bytes → Res) (L : Laws wf) (msgs segs : List Bytes) (r : Bytes)
    (hitem : ∀ m ∈ msgs, IsItem wf m) (hmax : ∀ m ∈ msgs, m.length ≤ maxReadBuffer)
    (hcut : segs.flatten ++ r = msgs.flatten) :
    ∃ rest, msgs = (readAll wf segs).msgs ++ rest ∧ (readAll wf segs).err = none := by
  have hfold := fold_eq_drain L segs [] (by
    intro b r' h
    simp only [List.nil_append] at h
    exact prefix_ok L msgs hitem hmax b (r' ++ r) (by rw [← List.append_assoc, h, hcut]))
  have hinit : toState (drain wf ([] : List Bytes).flatten []) = RState.init := by
    simp [toState, drain_nil, RState.init]
  rw [hinit] at hfold
  have hne : ∀ m ∈ msgs, m ≠ [] := by
    intro m hm he
    have := (hitem m hm).2
    simp [he] at this
  obtain ⟨ms1, ms2, p, e1, e2, e3⟩ := split_stream msgs segs.flatten r hcut hne
  have hp : p = [] ∨ (wf p = .needMore ∧ p.length ≤ maxReadBuffer) := by
    rcases e3 with rfl | ⟨q, t, e4, hq⟩
    · exact Or.inl rfl
    · right
      have hmem : (p ++ q) ∈ msgs := by rw [e1, e4]; simp
      refine ⟨item_prefix L p q (hitem _ hmem) hq, ?_⟩
      have := hmax _ hmem
      simp at this; omega
  have hd := drain_items L ms1 p [] (fun m hm => hitem m (by rw [e1]; simp [hm])) hp
  unfold readAll
  rw [hfold]
  simp only [List.nil_append, e2, hd, toState, RState.msgs, List.append_nil, List.reverse_reverse]
  exact ⟨ms2, e1, trivial⟩

/-! ### The hypotheses are satisfiable: a one-byte-length-prefixed format -/

/-- `[len, b₁ … b_len]` -/
def wfLen1 : Bytes → Res
  | [] => .needMore
  | l :: rest => if l.toNat ≤ rest.length then .ok (l.toNat + 1) else .needMore

theorem wfLen1_laws : Laws wfLen1 where
  consumes_le := by
    intro b n h
    cases b with
    | nil => simp [wfLen1] at h
    | cons l rest =>
      simp only [wfLen1] at h
      split at h
      · simp only [Res.ok.injEq] at h; simp; omega
      · simp at h
  unique := by
    intro b n r h
    cases b with
    | nil => simp [wfLen1] at h
    | cons l rest =>
      simp only [wfLen1] at h
      split at h
      · rename_i hl
        simp only [Res.ok.injEq] at h
        subst h
        simp only [List.take_succ_cons, List.cons_append, wfLen1]
        have : l.toNat ≤ (List.take l.toNat rest ++ r).length := by
          simp only [List.length_append, List.length_take]; omega
        rw [if_pos this]
      · simp at h
  pref := by
    intro b n h k hk
    cases b with
    | nil => simp [wfLen1] at h
    | cons l rest =>
      simp only [wfLen1] at h
      split at h
      · simp only [Res.ok.injEq] at h
        subst h
        cases k with
        | zero => simp [wfLen1]
        | succ k' =>
          simp only [List.take_succ_cons, wfLen1]
          have : ¬ l.toNat ≤ (List.take k' rest).length := by
            simp only [List.length_take]; omega
          rw [if_neg this]
      · simp at h

/-- Non-vacuity: concrete messages in that format, cut 3/2/3 across a message boundary. -/
example : IsItem wfLen1 [2, 7, 7] ∧ IsItem wfLen1 [0] ∧ IsItem wfLen1 [3, 1, 2, 3] := by
  refine ⟨⟨by decide, by decide⟩, ⟨by decide, by decide⟩, ⟨by decide, by decide⟩⟩

example : (readAll wfLen1 [[2, 7], [7, 0, 3], [1, 2, 3]]).msgs = [[2, 7, 7], [0], [3, 1, 2, 3]] := by
  have hitem : ∀ m ∈ [[2, 7, 7], [0], [3, 1, 2, 3]], IsItem wfLen1 m := by
    intro m hm
    simp only [List.mem_cons, List.mem_nil_iff, or_false] at hm
    rcases hm with rfl | rfl | rfl <;> exact ⟨by decide, by decide⟩
  have hmax : ∀ m ∈ ([[2, 7, 7], [0], [3, 1, 2, 3]] : List Bytes), m.length ≤ maxReadBuffer := by
    intro m hm
    simp only [List.mem_cons, List.mem_nil_iff, or_false] at hm
    rcases hm with rfl | rfl | rfl <;> decide
  exact (reassemble_id wfLen1 wfLen1_laws _ [[2, 7], [7, 0, 3], [1, 2, 3]] hitem hmax (by decide)).1

end GV.Props.C10
