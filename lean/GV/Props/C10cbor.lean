import GV.Proofs.CborBytes
import GV.Proofs.Reassembly
import GV.Props.C10
/-!
C10 for REAL CBOR: the three decoder laws that `GV.Props.C10` assumes
(`GV.Proofs.Reassembly.Laws`) are theorems of the byte-layer CBOR well-formedness
machine (`GV.Cbor.wfItem`: every header form, indefinite lengths, non-minimal integers,
nested containers, tags, chunked strings). Hence reassembly is the identity for every
sequence of well-formed CBOR items and every segmentation — no hypothesis on the
decoder is left.
-/
namespace GV.Props.C10cbor
open GV.Model.Reassembly GV.Proofs.Reassembly

/-- `GV.Cbor.wfItem` with its result translated to the reassembly model's `Res`. -/
def wfItem' (b : Bytes) : Res :=
  match GV.Cbor.wfItem b with
  | .ok n => .ok n
  | .needMore => .needMore
  | .bad => .bad

theorem wfItem'_ok {b : Bytes} {n : Nat} : wfItem' b = .ok n ↔ GV.Cbor.wfItem b = .ok n := by
  unfold wfItem'
  cases GV.Cbor.wfItem b <;> simp

/-- **The CBOR well-formedness machine satisfies the reassembly laws.** -/
theorem wfItem_laws : Laws wfItem' where
  consumes_le := by
    intro b n h
    exact (GV.Cbor.wf_consumes_le (wfItem'_ok.mp h)).2
  unique := by
    intro b n r h
    exact wfItem'_ok.mpr (GV.Cbor.wf_unique (wfItem'_ok.mp h) r)
  pref := by
    intro b n h k hk
    unfold wfItem'
    rw [GV.Cbor.wf_prefix (wfItem'_ok.mp h) hk]

/-- A byte string is one complete CBOR item. -/
def IsCborItem (m : Bytes) : Prop := GV.Cbor.wfItem m = .ok m.length

theorem isItem_of_cbor {m : Bytes} (h : IsCborItem m) : IsItem wfItem' m :=
  ⟨wfItem'_ok.mpr h, (GV.Cbor.wf_consumes_le h).1⟩

/-- **Reassembly is the identity for real CBOR.** For every sequence of well-formed CBOR items
    (each at most `maxReadBufferSize` bytes) and EVERY way of cutting their concatenation
    into segments, the read loop hands over exactly those items, byte-identical, in order,
    with no error and an empty buffer. -/
theorem reassemble_id_cbor (msgs segs : List Bytes)
    (hitem : ∀ m ∈ msgs, IsCborItem m) (hmax : ∀ m ∈ msgs, m.length ≤ maxReadBuffer)
    (hcut : segs.flatten = msgs.flatten) :
    (readAll wfItem' segs).msgs = msgs ∧ (readAll wfItem' segs).err = none ∧
    (readAll wfItem' segs).buf = [] :=
  GV.Props.C10.reassemble_id wfItem' wfItem_laws msgs segs
    (fun m hm => isItem_of_cbor (hitem m hm)) hmax hcut

/-- Non-vacuity: an indefinite-length array with a non-minimal integer and a definite map are items. -/
example : IsCborItem [0x9f, 0x18, 0x01, 0x82, 0x01, 0x02, 0xff] ∧ IsCborItem [0xa1, 0x01, 0x41, 0x00] := by
  unfold IsCborItem; decide

end GV.Props.C10cbor
