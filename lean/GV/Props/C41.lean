import GV.Model.Selection
import GV.Proofs.Selection
import GV.Gen.GoLite
import GV.Gen.SrcG7
/-!
C41 — Chain selection is a consistent preference order.

Chain comparison is antisymmetric and transitive, so it is a total preorder.
Without a deep fork, longer chains win and ties go to the lower VRF output; a
fork deeper than k blocks is decided by window density first.  The preferred
candidate is a maximal element whatever order the candidates are given in.

`Pre P cmp` (GV.Proofs.Selection) = `cmp` is antisymmetric and transitive on
the candidates satisfying `P`.  Everything is for arbitrary tips, parameters
and candidate lists of any length.
-/
namespace GV.Props.C41
open GV.Model.Selection GV.Proofs.Selection

/-! ### keys -/
def kSome (c : Cand) : Int := if c.isSome then 1 else 0
def kBn (c : Cand) : Int := match c with | some t => t.bn | none => 0
def kHasVrf (c : Cand) : Int := match c with | some t => if t.vrf.isEmpty then 0 else 1 | none => 0
/-- lower VRF output is preferred: the key is the negated big-endian value -/
def kVrf (c : Cand) : Int := match c with | some t => - (vrfNat t.vrf : Int) | none => 0

/-- `Compare` is the lexicographic comparison of the key
    (non-nil, block number, has a VRF output, −VRF value) -/
theorem compare_eq_lex (a b : Cand) :
    compareTips a b = lexC (cmpOn kSome) (lexC (cmpOn kBn) (lexC (cmpOn kHasVrf) (cmpOn kVrf))) a b := by
  cases a with
  | none => cases b <;> simp [compareTips, lexC, cmpOn, kSome]
  | some x =>
    cases b with
    | none => simp [compareTips, lexC, cmpOn, kSome]
    | some y =>
      simp only [compareTips, lexC, cmpOn, kSome, kBn, kHasVrf, kVrf, Option.isSome_some, ↓reduceIte]
      by_cases hbn : x.bn = y.bn
      · by_cases hx : x.vrf.isEmpty = true <;> by_cases hy : y.vrf.isEmpty = true
        · have ex : x.vrf = [] := by simpa using hx
          have ey : y.vrf = [] := by simpa using hy
          simp [hbn, ex, ey]
        · simp [hbn, hx, hy]
        · simp [hbn, hx, hy]
        · simp only [hbn, hx, hy]
          simp only [ne_eq, not_true_eq_false, ↓reduceIte, Bool.false_eq_true, Bool.and_self,
            gt_iff_lt, Int.lt_irrefl, Int.neg_lt_neg_iff, Int.ofNat_lt]
      · have : (x.bn : Int) ≠ y.bn := by omega
        simp only [ne_eq, hbn, not_false_eq_true, ↓reduceIte, gt_iff_lt, Int.ofNat_lt]
        split <;> split <;> simp_all <;> omega

/-- **`Compare` is a total preorder** on all candidates (nil included). -/
theorem compare_pre : Pre (fun _ : Cand => True) compareTips :=
  (Pre.lex (Pre.ofKey kSome) (Pre.lex (Pre.ofKey kBn) (Pre.lex (Pre.ofKey kHasVrf) (Pre.ofKey kVrf)))).congr
    (fun a b _ _ => compare_eq_lex a b)

theorem compare_antisymm (a b : Cand) : compareTips b a = - compareTips a b :=
  compare_pre.antisymm a b trivial trivial

theorem compare_trans (a b c : Cand) (h1 : 0 ≤ compareTips a b) (h2 : 0 ≤ compareTips b c) :
    0 ≤ compareTips a c := compare_pre.trans a b c trivial trivial trivial h1 h2

theorem compare_trans_strict (a b c : Cand) (h1 : 0 < compareTips a b) (h2 : 0 ≤ compareTips b c) :
    0 < compareTips a c := compare_pre.trans_lt_le a b c trivial trivial trivial h1 h2

/-- longer chains win -/
theorem longer_wins (a b : Tip) (h : a.bn > b.bn) : compareTips (some a) (some b) = 1 := by
  simp only [compareTips]; have : a.bn ≠ b.bn := by omega
  simp [this, h]

/-- equal length: the lower VRF output wins -/
theorem tie_lower_vrf_wins (a b : Tip) (h : a.bn = b.bn) (ha : a.vrf ≠ []) (hb : b.vrf ≠ [])
    (hv : vrfNat a.vrf < vrfNat b.vrf) : compareTips (some a) (some b) = 1 := by
  simp [compareTips, h, ha, hb, hv]

/-- equal length: a missing VRF output loses against any present one -/
theorem tie_missing_vrf_loses (a b : Tip) (h : a.bn = b.bn) (ha : a.vrf = []) (hb : b.vrf ≠ []) :
    compareTips (some a) (some b) = -1 := by
  simp [compareTips, h, ha, hb]

/-! ### CompareWithDensity -/

def deep (p : Params) : Bool := isDeepFork p.k p.forkBN p.tipBN

/-- without a deep fork, density is never consulted -/
theorem shallow_is_compare (p : Params) (a b : Cand) (h : deep p = false) :
    compareWithDensity p a b = compareTips a b := by
  unfold deep at h
  cases a <;> cases b <;> simp [compareWithDensity, compareTips, h]

/-- a deep fork is decided by window density first … -/
theorem deep_density_first (p : Params) (x y : Tip) (h : deep p = true)
    (hd : compareDensity p.window p.forkSlot x y ≠ 0) :
    compareWithDensity p (some x) (some y) = compareDensity p.window p.forkSlot x y := by
  unfold deep at h
  simp [compareWithDensity, h, hd]

/-- … and only an exact density tie falls back to the ordinary rule -/
theorem deep_tie_is_compare (p : Params) (x y : Tip) (h : deep p = true)
    (hd : compareDensity p.window p.forkSlot x y = 0) :
    compareWithDensity p (some x) (some y) = compareTips (some x) (some y) := by
  unfold deep at h
  simp [compareWithDensity, h, hd]

/-- with both tips windowed and a window configured, "density" is the count of blocks in the window -/
theorem deep_density_is_window_count (p : Params) (x y : Tip) (hw : p.window > 0)
    (hx : x.windowed = true) (hy : y.windowed = true) :
    compareDensity p.window p.forkSlot x y =
      cmpNat (blocksInWindow x p.forkSlot p.window) (blocksInWindow y p.forkSlot p.window) := by
  simp [compareDensity, usesCount, densKey, hw, hx, hy]

/-- the density key of a candidate under a fixed metric -/
def kDens (m : Bool) (p : Params) (c : Cand) : Int :=
  match c with | some t => densKey m p.window p.forkSlot t | none => 0

/-- `CompareWithDensity` with the metric fixed for all pairs -/
def cwdU (m : Bool) (p : Params) : Cand → Cand → Int :=
  lexC (cmpOn kSome) (if deep p then lexC (cmpOn (kDens m p)) compareTips else compareTips)

theorem cwdU_pre (m : Bool) (p : Params) : Pre (fun _ : Cand => True) (cwdU m p) := by
  unfold cwdU
  split
  · exact Pre.lex (Pre.ofKey kSome) (Pre.lex (Pre.ofKey _) compare_pre)
  · exact Pre.lex (Pre.ofKey kSome) compare_pre

theorem cmpNat_eq_cmpOn (a b : Nat) : cmpNat a b = (if (a:Int) > b then 1 else if (b:Int) > a then -1 else 0) := by
  unfold cmpNat; split <;> split <;> (try split) <;> (try split) <;> omega

/-- on every pair for which `compareDensity` picks metric `m`, the real comparison is `cwdU m` -/
theorem cwd_eq_cwdU (m : Bool) (p : Params) (a b : Cand)
    (hm : ∀ x y, a = some x → b = some y → usesCount p.window x y = m) :
    compareWithDensity p a b = cwdU m p a b := by
  cases a with
  | none =>
    cases b <;> by_cases hd : deep p = true <;>
      simp [compareWithDensity, cwdU, lexC, cmpOn, kSome, hd, compareTips, kDens]
  | some x =>
    cases b with
    | none => simp [compareWithDensity, cwdU, lexC, cmpOn, kSome]
    | some y =>
      have hm' := hm x y rfl rfl
      by_cases hd : deep p = true
      · have hd' : isDeepFork p.k p.forkBN p.tipBN = true := hd
        simp only [compareWithDensity, cwdU, lexC, cmpOn, kSome, hd, hd', Option.isSome_some, ↓reduceIte,
          compareDensity, hm', kDens, cmpNat_eq_cmpOn, Bool.not_true, Bool.false_eq_true]
        simp
      · have hd' : isDeepFork p.k p.forkBN p.tipBN = false := by simpa [deep] using hd
        simp [compareWithDensity, cwdU, lexC, cmpOn, kSome, hd, hd']

def allWindowed (c : Cand) : Prop := ∀ t, c = some t → t.windowed = true
def noneWindowed (c : Cand) : Prop := ∀ t, c = some t → t.windowed = false

/-- **`CompareWithDensity` is a total preorder** on candidates that all carry
    window slot lists (`*WindowedChainTip`), for every parameter set … -/
theorem cwd_pre_windowed (p : Params) : Pre allWindowed (compareWithDensity p) :=
  ((cwdU_pre (decide (p.window > 0)) p).mono (fun _ _ => trivial)).congr (fun a b ha hb =>
    cwd_eq_cwdU _ p a b (fun x y hx hy => by simp [usesCount, ha x hx, hb y hy]))

/-- … on candidates none of which does (`*SimpleChainTip`) … -/
theorem cwd_pre_simple (p : Params) : Pre noneWindowed (compareWithDensity p) :=
  ((cwdU_pre false p).mono (fun _ _ => trivial)).congr (fun a b ha hb =>
    cwd_eq_cwdU _ p a b (fun x y hx hy => by simp [usesCount, ha x hx]))

/-- … and on arbitrary mixtures when no genesis window is configured. -/
theorem cwd_pre_nowindow (p : Params) (hw : p.window = 0) :
    Pre (fun _ : Cand => True) (compareWithDensity p) :=
  (cwdU_pre false p).congr (fun a b _ _ =>
    cwd_eq_cwdU _ p a b (fun x y _ _ => by simp [usesCount, hw]))

/-- the metric a pair is compared with (for nil candidates: irrelevant, fixed to `false`) -/
def pairMetric (p : Params) (a b : Cand) : Bool :=
  match a, b with
  | some x, some y => usesCount p.window x y
  | _, _ => false

theorem cwd_eq_cwdU_pair (p : Params) (a b : Cand) (m : Bool)
    (h : ∀ x y, a = some x → b = some y → usesCount p.window x y = m) :
    compareWithDensity p a b = cwdU m p a b := cwd_eq_cwdU m p a b h

/-- **Antisymmetry holds unconditionally**, for every pair of candidates of any
    kind: the metric choice is symmetric in the pair. -/
theorem cwd_antisymm (p : Params) (a b : Cand) :
    compareWithDensity p b a = - compareWithDensity p a b := by
  have hsym : ∀ x y : Tip, usesCount p.window y x = usesCount p.window x y := by
    intro x y; simp only [usesCount, Bool.and_assoc]; rw [Bool.and_comm y.windowed x.windowed]
  rw [cwd_eq_cwdU (pairMetric p a b) p a b (by
        intro x y hx hy; subst hx; subst hy; rfl),
      cwd_eq_cwdU (pairMetric p a b) p b a (by
        intro y x hy hx; subst hx; subst hy; simp only [pairMetric]; exact hsym x y)]
  exact (cwdU_pre _ p).antisymm a b trivial trivial

/-- **Transitivity holds for every triple whose three pairs are compared with the
    same metric** — so the only way `CompareWithDensity` can be inconsistent is the
    mixed case of the recorded finding, and `mixed_cycle_witness` shows that case is real. -/
theorem cwd_trans_same_metric (p : Params) (a b c : Cand) (m : Bool)
    (hab : ∀ x y, a = some x → b = some y → usesCount p.window x y = m)
    (hbc : ∀ x y, b = some x → c = some y → usesCount p.window x y = m)
    (hac : ∀ x y, a = some x → c = some y → usesCount p.window x y = m)
    (h1 : 0 ≤ compareWithDensity p a b) (h2 : 0 ≤ compareWithDensity p b c) :
    0 ≤ compareWithDensity p a c := by
  rw [cwd_eq_cwdU m p a b hab] at h1
  rw [cwd_eq_cwdU m p b c hbc] at h2
  rw [cwd_eq_cwdU m p a c hac]
  exact (cwdU_pre m p).trans a b c trivial trivial trivial h1 h2

/-! ### selectPreferred -/

theorem fold_selStep (cmp : Cand → Cand → Int) (l : List Cand) :
    ∀ (n i : Nat) (best : Cand), (l.foldl (selStep cmp) (n, i, best)).2.2 = l.foldl (keep cmp) best := by
  induction l with
  | nil => intro n i best; rfl
  | cons c cs ih =>
    intro n i best
    simp only [List.foldl_cons, selStep, keep]
    split <;> exact ih _ _ _

/-- the index returned by `selectPreferred` points at the returned candidate -/
theorem fold_selStep_index (cmp : Cand → Cand → Int) (l : List Cand) :
    ∀ (pre : List Cand) (i : Nat) (best : Cand), (pre)[i]? = some best →
      let r := l.foldl (selStep cmp) (pre.length, i, best)
      (pre ++ l)[r.2.1]? = some r.2.2 := by
  induction l with
  | nil => intro pre i best h; simpa using h
  | cons c cs ih =>
    intro pre i best h
    simp only [List.foldl_cons, selStep]
    split
    · have := ih (pre ++ [c]) pre.length c (by simp)
      simpa [List.append_assoc] using this
    · have := ih (pre ++ [c]) i best (by
        rw [List.getElem?_append_left]; exact h
        have := List.getElem?_eq_some_iff.mp h; exact this.1)
      simpa [List.append_assoc] using this

/-- **The preferred candidate is a maximal element**: whenever `cmp` is a total
    preorder on the candidates, `selectPreferred` returns a member of the list
    (at the reported index) that is at least as preferred as every candidate. -/
theorem preferred_maximal {P : Cand → Prop} {cmp : Cand → Cand → Int} (h : Pre P cmp)
    (l : List Cand) (hl : ∀ x ∈ l, P x) (i : Nat) (r : Cand)
    (hr : selectPreferred cmp l = some (i, r)) :
    l[i]? = some r ∧ ∀ x ∈ l, 0 ≤ cmp r x := by
  cases l with
  | nil => simp [selectPreferred] at hr
  | cons c cs =>
    simp only [selectPreferred, Option.some.injEq, Prod.mk.injEq] at hr
    obtain ⟨hi, hr⟩ := hr
    have hmax := fold_keep_maximal h c cs hl
    rw [← fold_selStep cmp cs 1 0 c, hr] at hmax
    refine ⟨?_, hmax.2⟩
    have := fold_selStep_index cmp cs [c] 0 c (by simp)
    simp only [List.length_singleton, List.singleton_append] at this
    rw [hi, hr] at this
    exact this

/-- **… whatever order the candidates are given in**: for two orderings of the
    same candidates the two answers are equivalent under the preference order
    (they can differ only between candidates that compareTips as equal). -/
theorem preferred_order_independent {P : Cand → Prop} {cmp : Cand → Cand → Int} (h : Pre P cmp)
    (l1 l2 : List Cand) (hp : l1.Perm l2) (hl : ∀ x ∈ l1, P x)
    (i1 i2 : Nat) (r1 r2 : Cand)
    (h1 : selectPreferred cmp l1 = some (i1, r1)) (h2 : selectPreferred cmp l2 = some (i2, r2)) :
    cmp r1 r2 = 0 := by
  have hl2 : ∀ x ∈ l2, P x := fun x hx => hl x (hp.mem_iff.mpr hx)
  obtain ⟨m1, x1⟩ := preferred_maximal h l1 hl i1 r1 h1
  obtain ⟨m2, x2⟩ := preferred_maximal h l2 hl2 i2 r2 h2
  have r1in : r1 ∈ l1 := List.mem_of_getElem? m1
  have r2in : r2 ∈ l2 := List.mem_of_getElem? m2
  have a := x1 r2 (hp.mem_iff.mpr r2in)
  have b := x2 r1 (hp.mem_iff.mp r1in)
  have := h.antisymm r1 r2 (hl r1 r1in) (hl2 r2 r2in)
  omega

/-- `Preferred` (ordinary rule): maximal for every candidate list, nil entries included -/
theorem Preferred_maximal (l : List Cand) (i : Nat) (r : Cand)
    (hr : selectPreferred compareTips l = some (i, r)) :
    l[i]? = some r ∧ ∀ x ∈ l, 0 ≤ compareTips r x :=
  preferred_maximal compare_pre l (fun _ _ => trivial) i r hr

theorem Preferred_order_independent (l1 l2 : List Cand) (hp : l1.Perm l2) (i1 i2 : Nat) (r1 r2 : Cand)
    (h1 : selectPreferred compareTips l1 = some (i1, r1)) (h2 : selectPreferred compareTips l2 = some (i2, r2)) :
    compareTips r1 r2 = 0 :=
  preferred_order_independent compare_pre l1 l2 hp (fun _ _ => trivial) i1 i2 r1 r2 h1 h2

/-- `PreferredWithDensity` over windowed tips: maximal, for every parameter set -/
theorem PreferredWithDensity_maximal_windowed (p : Params) (l : List Cand) (hl : ∀ x ∈ l, allWindowed x)
    (i : Nat) (r : Cand) (hr : selectPreferred (compareWithDensity p) l = some (i, r)) :
    l[i]? = some r ∧ ∀ x ∈ l, 0 ≤ compareWithDensity p r x :=
  preferred_maximal (cwd_pre_windowed p) l hl i r hr

theorem PreferredWithDensity_maximal_simple (p : Params) (l : List Cand) (hl : ∀ x ∈ l, noneWindowed x)
    (i : Nat) (r : Cand) (hr : selectPreferred (compareWithDensity p) l = some (i, r)) :
    l[i]? = some r ∧ ∀ x ∈ l, 0 ≤ compareWithDensity p r x :=
  preferred_maximal (cwd_pre_simple p) l hl i r hr

theorem PreferredWithDensity_order_independent_windowed (p : Params) (l1 l2 : List Cand) (hp : l1.Perm l2)
    (hl : ∀ x ∈ l1, allWindowed x) (i1 i2 : Nat) (r1 r2 : Cand)
    (h1 : selectPreferred (compareWithDensity p) l1 = some (i1, r1))
    (h2 : selectPreferred (compareWithDensity p) l2 = some (i2, r2)) :
    compareWithDensity p r1 r2 = 0 :=
  preferred_order_independent (cwd_pre_windowed p) l1 l2 hp hl i1 i2 r1 r2 h1 h2

theorem PreferredWithDensity_order_independent_simple (p : Params) (l1 l2 : List Cand) (hp : l1.Perm l2)
    (hl : ∀ x ∈ l1, noneWindowed x) (i1 i2 : Nat) (r1 r2 : Cand)
    (h1 : selectPreferred (compareWithDensity p) l1 = some (i1, r1))
    (h2 : selectPreferred (compareWithDensity p) l2 = some (i2, r2)) :
    compareWithDensity p r1 r2 = 0 :=
  preferred_order_independent (cwd_pre_simple p) l1 l2 hp hl i1 i2 r1 r2 h1 h2

/-! ### PreferredWithDensity with one metric for the whole candidate set -/

/-- `CompareWithDensity` is `compareWithDensityMetric` at the pair's own metric (as in the Go code) -/
theorem cwd_is_pair_metric (p : Params) (a b : Cand) :
    compareWithDensity p a b = compareWithDensityMetric p (windowMetricFor p [a, b]) a b := by
  cases a with
  | none => cases b <;> simp [compareWithDensity, compareWithDensityMetric]
  | some x =>
    cases b with
    | none => simp [compareWithDensity, compareWithDensityMetric]
    | some y =>
      simp only [compareWithDensity, compareWithDensityMetric, compareDensity, compareDensityMetric,
        windowMetricFor, candWindowed, usesCount, List.all_cons, List.all_nil, Bool.and_true, Bool.and_assoc]

theorem cwdm_eq_cwdU (p : Params) (m : Bool) (a b : Cand) :
    compareWithDensityMetric p m a b = cwdU m p a b := by
  cases a with
  | none =>
    cases b <;> by_cases hd : deep p = true <;>
      simp [compareWithDensityMetric, cwdU, lexC, cmpOn, kSome, hd, compareTips, kDens]
  | some x =>
    cases b with
    | none => simp [compareWithDensityMetric, cwdU, lexC, cmpOn, kSome]
    | some y =>
      by_cases hd : deep p = true
      · have hd' : isDeepFork p.k p.forkBN p.tipBN = true := hd
        simp only [compareWithDensityMetric, cwdU, lexC, cmpOn, kSome, hd, hd', Option.isSome_some, ↓reduceIte,
          compareDensityMetric, kDens, cmpNat_eq_cmpOn, Bool.not_true, Bool.false_eq_true]
        simp
      · have hd' : isDeepFork p.k p.forkBN p.tipBN = false := by simpa [deep] using hd
        simp [compareWithDensityMetric, cwdU, lexC, cmpOn, kSome, hd, hd']

/-- with the metric fixed, the comparison is a total preorder on ALL candidates, mixed or not -/
theorem cwdm_pre (p : Params) (m : Bool) : Pre (fun _ : Cand => True) (compareWithDensityMetric p m) :=
  (cwdU_pre m p).congr (fun a b _ _ => cwdm_eq_cwdU p m a b)

/-- **`PreferredWithDensity` returns a maximal candidate for EVERY candidate list** —
    windowed, simple, mixed, nil entries, any parameters: no same-metric hypothesis. The order is the
    one the function itself uses: the comparison at the metric of the whole set. -/
theorem PreferredWithDensity_maximal (p : Params) (l : List Cand) (i : Nat) (r : Cand)
    (hr : preferredWithDensity p l = some (i, r)) :
    l[i]? = some r ∧ ∀ x ∈ l, 0 ≤ compareWithDensityMetric p (windowMetricFor p l) r x :=
  preferred_maximal (cwdm_pre p _) l (fun _ _ => trivial) i r hr

/-- the metric of a candidate set does not depend on the order of the candidates -/
theorem windowMetricFor_perm (p : Params) (l1 l2 : List Cand) (hp : l1.Perm l2) :
    windowMetricFor p l1 = windowMetricFor p l2 := by
  unfold windowMetricFor
  congr 1
  rw [Bool.eq_iff_iff]
  simp only [List.all_eq_true]
  exact ⟨fun h x hx => h x (hp.mem_iff.mpr hx), fun h x hx => h x (hp.mem_iff.mp hx)⟩

/-- **… whatever order they are given in**, again for every candidate list -/
theorem PreferredWithDensity_order_independent (p : Params) (l1 l2 : List Cand) (hp : l1.Perm l2)
    (i1 i2 : Nat) (r1 r2 : Cand)
    (h1 : preferredWithDensity p l1 = some (i1, r1)) (h2 : preferredWithDensity p l2 = some (i2, r2)) :
    compareWithDensityMetric p (windowMetricFor p l1) r1 r2 = 0 := by
  unfold preferredWithDensity at h1 h2
  rw [← windowMetricFor_perm p l1 l2 hp] at h2
  exact preferred_order_independent (cwdm_pre p _) l1 l2 hp (fun _ _ => trivial) i1 i2 r1 r2 h1 h2

/-- on a homogeneous set (all windowed, or none) the set's metric is every pair's metric, so the
    order used by `PreferredWithDensity` is the pairwise `CompareWithDensity` -/
theorem set_metric_is_pairwise (p : Params) (l : List Cand)
    (h : (∀ x ∈ l, allWindowed x) ∨ (∀ x ∈ l, noneWindowed x) ∨ p.window = 0) (a b : Cand)
    (ha : a ∈ l) (hb : b ∈ l) (hab : a.isSome ∧ b.isSome) :
    compareWithDensityMetric p (windowMetricFor p l) a b = compareWithDensity p a b := by
  rw [cwd_is_pair_metric]
  congr 1
  obtain ⟨x, rfl⟩ := Option.isSome_iff_exists.mp hab.1
  obtain ⟨y, rfl⟩ := Option.isSome_iff_exists.mp hab.2
  rcases h with h | h | h
  · have hx := h _ ha x rfl
    have hy := h _ hb y rfl
    have : l.all candWindowed = true := by
      rw [List.all_eq_true]; intro c hc
      cases c with
      | none => rfl
      | some t => exact h _ hc t rfl
    simp [windowMetricFor, candWindowed, this, hx, hy]
  · have hx := h _ ha x rfl
    have : l.all candWindowed = false := by
      rw [List.all_eq_false]; exact ⟨some x, ha, by simp [candWindowed, hx]⟩
    simp [windowMetricFor, candWindowed, this, hx]
  · simp [windowMetricFor, h]

/-! ### the routing predicate, as translated from the Go source -/

theorem gen_isDeepFork_eq (k slot forkBN tipBN : Nat) (h1 : forkBN < 2 ^ 64) (h2 : tipBN < 2 ^ 64) :
    GV.Gen.GoLite.isDeepFork (k : Int) (slot : Int) (forkBN : Int) (tipBN : Int) = isDeepFork k forkBN tipBN := by
  unfold GV.Gen.GoLite.isDeepFork isDeepFork
  by_cases h : tipBN ≤ forkBN
  · have : (tipBN : Int) ≤ forkBN := by omega
    simp [h, this]
  · have : ¬ (tipBN : Int) ≤ forkBN := by omega
    simp only [this, decide_false, Bool.false_eq_true, ↓reduceIte, h]
    have e : GV.Gen.GoLite.wrapU 64 ((tipBN : Int) - forkBN) = ((tipBN - forkBN : Nat) : Int) := by
      unfold GV.Gen.GoLite.wrapU
      rw [Int.emod_eq_of_lt (by omega) (by omega)]; omega
    rw [e]
    simp only [gt_iff_lt, Int.ofNat_lt]

/-- a fork is deep exactly when adopting it rolls back more than k blocks -/
theorem isDeepFork_iff (k forkBN tipBN : Nat) :
    isDeepFork k forkBN tipBN = true ↔ forkBN < tipBN ∧ tipBN - forkBN > k := by
  unfold isDeepFork; split <;> simp <;> omega

/-! ### consensus/genesis -/

def gW (f : Frag) : Int := f.inWindow
def gT (f : Frag) : Int := f.total

theorem genesisCompare_eq_lex (a b : Frag) :
    genesisCompare a b = lexC (cmpOn gW) (cmpOn gT) a b := by
  simp only [genesisCompare, lexC, cmpOn, gW, gT]
  split <;> split <;> (try split) <;> (try split) <;> (try split) <;> simp_all <;> omega

/-- `GenesisSelector.Compare` is a total preorder (window count, then total length) -/
theorem genesisCompare_pre : Pre (fun _ : Frag => True) genesisCompare :=
  (Pre.lex (Pre.ofKey gW) (Pre.ofKey gT)).congr (fun a b _ _ => genesisCompare_eq_lex a b)

theorem fold_genStep (l : List Frag) :
    ∀ (n i : Nat) (best : Frag), (l.foldl genStep (n, i, best)).2.2 = l.foldl (keep genesisCompare) best := by
  induction l with
  | nil => intro n i best; rfl
  | cons c cs ih =>
    intro n i best
    simp only [List.foldl_cons, genStep, keep]
    split <;> exact ih _ _ _

/-- `GenesisSelector.Preferred` returns a maximal fragment -/
theorem genesisPreferred_maximal (l : List Frag) (i : Nat) (r : Frag)
    (hr : genesisPreferred l = some (i, r)) : r ∈ l ∧ ∀ x ∈ l, 0 ≤ genesisCompare r x := by
  cases l with
  | nil => simp [genesisPreferred] at hr
  | cons c cs =>
    simp only [genesisPreferred, Option.some.injEq, Prod.mk.injEq] at hr
    have hmax := fold_keep_maximal genesisCompare_pre c cs (fun _ _ => trivial)
    rw [← fold_genStep cs 1 0 c, hr.2] at hmax
    exact hmax

/-! ### the full statement, what holds, and the recorded finding -/

/-- The property as stated, for `CompareWithDensity` over arbitrary candidates. -/
def C41_full : Prop := ∀ p : Params, Pre (fun _ : Cand => True) (compareWithDensity p)

/-- What holds: the full statement on homogeneous candidate sets (and always
    when no window is configured). -/
theorem C41_partial (p : Params) :
    Pre allWindowed (compareWithDensity p) ∧ Pre noneWindowed (compareWithDensity p) ∧
    (p.window = 0 → Pre (fun _ : Cand => True) (compareWithDensity p)) :=
  ⟨cwd_pre_windowed p, cwd_pre_simple p, cwd_pre_nowindow p⟩

/-! Witness of the finding (class `mixed-metric`): with a window configured, two
    windowed tips and one simple tip are compared pairwise with two different
    metrics (window count between the windowed tips, legacy blocks/slots ratio as
    soon as one side is a simple tip) and form a preference cycle. -/
def wP : Params := { k := 1, window := 10, forkSlot := 0, forkBN := 0, tipBN := 5 }
def w1 : Tip := { bn := 7, vrf := [1], windowed := true, slots := [1, 2, 3, 1000], blocksAfter := 0, slotsAfter := 0 }
def w2 : Tip := { bn := 7, vrf := [1], windowed := true, slots := [1, 2], blocksAfter := 0, slotsAfter := 0 }
def wS : Tip := { bn := 7, vrf := [1], windowed := false, slots := [], blocksAfter := 1, slotsAfter := 2 }

theorem mixed_cycle_witness :
    compareWithDensity wP (some w1) (some w2) = 1 ∧
    compareWithDensity wP (some w2) (some wS) = 1 ∧
    compareWithDensity wP (some wS) (some w1) = 1 := by decide

theorem C41_witness : ¬ C41_full := by
  intro h
  have ht := (h wP).trans (some w1) (some w2) (some wS) trivial trivial trivial
  have hc := mixed_cycle_witness
  have ha := (h wP).antisymm (some wS) (some w1) trivial trivial
  have := ht (by omega) (by omega)
  omega

/-- on the witness, selecting with the PAIRWISE comparison (the code before fix c71a18d) depends on
    the order and is not maximal -/
theorem mixed_preferred_witness :
    selectPreferred (compareWithDensity wP) [some w1, some w2, some wS] = some (2, some wS) ∧
    selectPreferred (compareWithDensity wP) [some wS, some w1, some w2] = some (2, some w2) ∧
    compareWithDensity wP (some w2) (some wS) = 1 := by decide

/-- the former witness of order dependence: now one answer, and it is maximal -/
theorem mixed_preferred_repaired :
    preferredWithDensity wP [some w1, some w2, some wS] = some (1, some w2) ∧
    preferredWithDensity wP [some wS, some w1, some w2] = some (2, some w2) := by decide

/-- Regenerated tie: `Compare`, `selectPreferred`, `BlocksInWindow`, both `Density` methods and the
    functions of fix 2e714eb (`windowMetricFor`, `compareDensityMetric`, `compareWithDensityMetric`,
    `CompareWithDensity` delegating at the pair's metric, `PreferredWithDensity` choosing ONE metric for
    the candidate set, `Preferred`) as re-extracted from the source on every run are, statement by
    statement, the ones the model mirrors. -/
theorem source_as_modelled :
    GV.Gen.SrcG7.compare = [
  "if a == nil && b == nil { return 0 }",
  "if a == nil { return -1 }",
  "if b == nil { return 1 }",
  "if a.BlockNumber() != b.BlockNumber() { if a.BlockNumber() > b.BlockNumber() { return 1 } return -1 }",
  "aVRFBytes := a.VRFOutput()",
  "bVRFBytes := b.VRFOutput()",
  "if len(aVRFBytes) == 0 && len(bVRFBytes) == 0 { return 0 }",
  "if len(aVRFBytes) == 0 { return -1 }",
  "if len(bVRFBytes) == 0 { return 1 }",
  "aVRF := new(big.Int).SetBytes(aVRFBytes)",
  "bVRF := new(big.Int).SetBytes(bVRFBytes)",
  "cmp := aVRF.Cmp(bVRF)",
  "if cmp < 0 { return 1 }",
  "if cmp > 0 { return -1 }",
  "return 0"] ∧
    GV.Gen.SrcG7.selectPreferred = [
  "if len(candidates) == 0 { return nil }",
  "preferred := candidates[0]",
  "for i := 1; i < len(candidates); i++ { if compare(candidates[i], preferred) > 0 { preferred = candidates[i] } }",
  "return preferred"] ∧
    GV.Gen.SrcG7.blocksInWindow = [
  "if windowSlots == 0 { return 0 }",
  "var count uint64",
  "for _, blockSlot := range w.blockSlots { if blockSlot > forkSlot && blockSlot-forkSlot <= windowSlots { count++ } }",
  "return count"] ∧
    GV.Gen.SrcG7.windowMetricFor = [
  "if p.GenesisWindowSlots == 0 { return false }",
  "for _, t := range tips { if t == nil { continue } if _, ok := t.(WindowBlockCounter); !ok { return false } }",
  "return true"] ∧
    GV.Gen.SrcG7.compareDensityMetric = [
  "if useWindow { aBlocks := a.(WindowBlockCounter).BlocksInWindow(fork.Slot, p.GenesisWindowSlots) bBlocks := b.(WindowBlockCounter).BlocksInWindow(fork.Slot, p.GenesisWindowSlots) if aBlocks > bBlocks { return 1 } if bBlocks > aBlocks { return -1 } return 0 }",
  "p.warnFallbackDensity.Do(func() { slog.Warn(\"deep-fork comparison using legacy density ratio; configure a \"+\"genesis window and implement WindowBlockCounter for the \"+\"canonical Genesis metric\", \"securityParam\", p.SecurityParam, \"genesisWindowSlots\", p.GenesisWindowSlots) })",
  "aDensity := a.Density(fork.Slot)",
  "bDensity := b.Density(fork.Slot)",
  "if aDensity > bDensity { return 1 }",
  "if bDensity > aDensity { return -1 }",
  "return 0"] ∧
    GV.Gen.SrcG7.compareWithDensityMetric = [
  "if a == nil && b == nil { return 0 }",
  "if a == nil { return -1 }",
  "if b == nil { return 1 }",
  "if !p.IsDeepFork(fork, tipBlockNumber) { return p.Compare(a, b) }",
  "if result := p.compareDensityMetric(a, b, fork, useWindow); result != 0 { return result }",
  "return p.Compare(a, b)"] ∧
    GV.Gen.SrcG7.compareWithDensity = [
  "return p.compareWithDensityMetric(a, b, fork, tipBlockNumber, p.windowMetricFor(a, b))"] ∧
    GV.Gen.SrcG7.preferredWithDensity = [
  "useWindow := p.windowMetricFor(candidates...)",
  "return p.selectPreferred(candidates, func(a, b ChainTip) int { return p.compareWithDensityMetric(a, b, fork, tipBlockNumber, useWindow) })"] ∧
    GV.Gen.SrcG7.preferred = [
  "return p.selectPreferred(candidates, p.Compare)"] ∧
    GV.Gen.SrcG7.simpleDensity = [
  "if s.slotsAfterFork == 0 { return 0 }",
  "return float64(s.blocksAfterFork) / float64(s.slotsAfterFork)"] ∧
    GV.Gen.SrcG7.windowedDensity = [
  "var blocks, maxSlot uint64",
  "for _, blockSlot := range w.blockSlots { if blockSlot <= forkSlot { continue } blocks++ if blockSlot > maxSlot { maxSlot = blockSlot } }",
  "if blocks == 0 { return 0 }",
  "return float64(blocks) / float64(maxSlot-forkSlot)"] :=
  ⟨rfl, rfl, rfl, rfl, rfl, rfl, rfl, rfl, rfl, rfl, rfl⟩

/-! non-vacuity -/
example : selectPreferred compareTips [some wS, none, some { wS with bn := 9 }, some w1] =
    some (2, some { wS with bn := 9 }) := by decide
example : selectPreferred (compareWithDensity wP) [some w2, some w1] = some (1, some w1) := by decide
example : allWindowed (some w1) := by intro t h; cases h; rfl
example : noneWindowed (some wS) := by intro t h; cases h; rfl
example : deep wP = true := by decide
example : compareTips (some w1) (some { w1 with vrf := [0, 0] }) = -1 := by decide

end GV.Props.C41
