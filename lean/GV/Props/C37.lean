import GV.Model.Threshold
import Mathlib.Analysis.SpecialFunctions.Pow.Real
import GV.Proofs.ThresholdCert
import GV.Gen.SrcG7
/-!
C37 — The leadership threshold is the exact floor of the Praos formula.

For every pool stake, total stake and active-slot coefficient f in [0,1], the
leadership threshold equals ⌊2^k · (1 − (1 − f)^σ)⌋ with σ = pool/total capped
at 1 and k = 256 (Praos) or 512 (TPraos); otherwise an error is returned.  The
threshold is monotone in σ and in f, and a VRF leader value makes a pool
eligible exactly when it is below the threshold.

`Tspec` is the formula over the reals (`Real.rpow`).  The Go code evaluates it
with an exact rational fast path or a big.Float ln/exp pipeline; that pipeline
is not proved here.  What is proved: the properties of the formula, the guard
ladder of the code against the formula, and the soundness of the integer
certificate `certOK` with which every output of the pipeline is validated in
the correspondence run (translation validation).
-/
namespace GV.Props.C37
open GV.Model.Threshold

/-- the Praos formula: ⌊U · (1 − (1 − f)^σ)⌋ -/
noncomputable def Tspec (U : ℕ) (σ f : ℝ) : ℤ := ⌊(U : ℝ) * (1 - (1 - f) ^ σ)⌋

/-! ### monotonicity -/

/-- more relative stake never lowers the threshold -/
theorem T_mono_sigma (U : ℕ) (f σ σ' : ℝ) (hf0 : 0 ≤ f) (hf1 : f ≤ 1) (hσ : 0 ≤ σ) (h : σ ≤ σ') :
    Tspec U σ f ≤ Tspec U σ' f := by
  unfold Tspec
  apply Int.floor_le_floor
  have hx0 : 0 ≤ 1 - f := by linarith
  have hx1 : 1 - f ≤ 1 := by linarith
  have key : (1 - f) ^ σ' ≤ (1 - f) ^ σ := by
    rcases eq_or_lt_of_le hσ with h0 | hpos
    · rw [← h0, Real.rpow_zero]
      exact Real.rpow_le_one hx0 hx1 (by linarith)
    · rcases eq_or_lt_of_le hx0 with hz | hxpos
      · rw [← hz, Real.zero_rpow (by linarith), Real.zero_rpow (by linarith)]
      · exact Real.rpow_le_rpow_of_exponent_ge hxpos hx1 h
  have hU : (0:ℝ) ≤ U := Nat.cast_nonneg U
  nlinarith

/-- a larger active-slot coefficient never lowers the threshold -/
theorem T_mono_f (U : ℕ) (σ f f' : ℝ) (hσ : 0 ≤ σ) (hf' : f' ≤ 1) (h : f ≤ f') :
    Tspec U σ f ≤ Tspec U σ f' := by
  unfold Tspec
  apply Int.floor_le_floor
  have key : (1 - f') ^ σ ≤ (1 - f) ^ σ :=
    Real.rpow_le_rpow (by linarith) (by linarith) hσ
  have hU : (0:ℝ) ≤ U := Nat.cast_nonneg U
  nlinarith

/-! ### the formula at the guards -/

theorem spec_f_zero (U : ℕ) (σ : ℝ) : Tspec U σ 0 = 0 := by
  simp [Tspec]

theorem spec_sigma_zero (U : ℕ) (f : ℝ) : Tspec U 0 f = 0 := by
  simp [Tspec]

theorem spec_f_one (U : ℕ) (σ : ℝ) (hσ : 0 < σ) : Tspec U σ 1 = U := by
  simp [Tspec, Real.zero_rpow hσ.ne']

theorem spec_sigma_one (U : ℕ) (f : ℝ) : Tspec U 1 f = ⌊(U : ℝ) * f⌋ := by
  simp [Tspec]

/-- 0 ≤ T ≤ U on the whole domain -/
theorem spec_range (U : ℕ) (σ f : ℝ) (hf0 : 0 ≤ f) (hf1 : f ≤ 1) (hσ : 0 ≤ σ) :
    0 ≤ Tspec U σ f ∧ Tspec U σ f ≤ U := by
  have hx0 : 0 ≤ 1 - f := by linarith
  have hx1 : 1 - f ≤ 1 := by linarith
  have h1 : (1 - f) ^ σ ≤ 1 := Real.rpow_le_one hx0 hx1 hσ
  have h0 : 0 ≤ (1 - f) ^ σ := Real.rpow_nonneg hx0 σ
  have hU : (0:ℝ) ≤ U := Nat.cast_nonneg U
  constructor
  · unfold Tspec; apply Int.floor_nonneg.mpr; nlinarith
  · unfold Tspec
    have : (U:ℝ) * (1 - (1 - f) ^ σ) ≤ U := by nlinarith
    calc ⌊(U:ℝ) * (1 - (1 - f) ^ σ)⌋ ≤ ⌊(U:ℝ)⌋ := Int.floor_le_floor this
      _ = U := Int.floor_natCast U

/-! ### the certificate checker -/

/-- **Soundness of the certificate**: if `certOK a b n m U T` holds then `T` is
    exactly the Praos formula at 1 − f = a/b and σ = n/m. -/
theorem certOK_sound (a b n m U T : ℕ) (hb : 0 < b) (hm : 0 < m)
    (h : certOK a b n m U T = true) :
    (T : ℤ) = Tspec U ((n : ℝ) / m) (1 - (a : ℝ) / b) := by
  simp only [certOK, Bool.and_eq_true, decide_eq_true_eq] at h
  obtain ⟨⟨hT, h1⟩, h2⟩ := h
  unfold Tspec
  symm
  rw [Int.floor_eq_iff]
  have hbR : (0:ℝ) < b := by exact_mod_cast hb
  have hmR : (0:ℝ) < m := by exact_mod_cast hm
  have hq0 : (0:ℝ) ≤ (a:ℝ) / b := by positivity
  set x : ℝ := ((a:ℝ) / b) ^ ((n:ℝ) / m) with hx
  have hx0 : 0 ≤ x := Real.rpow_nonneg hq0 _
  -- x^m = (a/b)^n
  have hxm : x ^ m = ((a:ℝ) / b) ^ n := by
    rw [hx, ← Real.rpow_natCast, ← Real.rpow_mul hq0, div_mul_cancel₀ _ hmR.ne', Real.rpow_natCast]
  have hsub : (1:ℝ) - (1 - (a:ℝ) / b) = (a:ℝ) / b := by ring
  rw [hsub]
  have hUx : ((U:ℝ) * x) ^ m * (b:ℝ) ^ n = (U:ℝ) ^ m * (a:ℝ) ^ n := by
    rw [mul_pow, hxm, div_pow]; field_simp
  have hbn : (0:ℝ) < (b:ℝ) ^ n := by positivity
  have hUx0 : (0:ℝ) ≤ (U:ℝ) * x := by positivity
  -- lower bound
  have c1 : ((U:ℝ) * x) ≤ ((U - T : ℕ) : ℝ) := by
    have : (U:ℝ) ^ m * (a:ℝ) ^ n ≤ ((U - T : ℕ) : ℝ) ^ m * (b:ℝ) ^ n := by exact_mod_cast h1
    rw [← hUx] at this
    have := le_of_mul_le_mul_right this hbn
    exact (pow_le_pow_iff_left₀ hUx0 (Nat.cast_nonneg _) hm.ne').mp this
  have c2 : ((U - T - 1 : ℕ) : ℝ) < (U:ℝ) * x := by
    have : ((U - T - 1 : ℕ) : ℝ) ^ m * (b:ℝ) ^ n < (U:ℝ) ^ m * (a:ℝ) ^ n := by exact_mod_cast h2
    rw [← hUx] at this
    have := lt_of_mul_lt_mul_right this hbn.le
    exact (pow_lt_pow_iff_left₀ (Nat.cast_nonneg _) hUx0 hm.ne').mp this
  have e1 : ((U - T : ℕ) : ℝ) = (U:ℝ) - T := by
    rw [Nat.cast_sub hT.le]
  have e2 : ((U - T - 1 : ℕ) : ℝ) = (U:ℝ) - T - 1 := by
    have : 1 ≤ U - T := by omega
    rw [Nat.cast_sub this, Nat.cast_sub hT.le]; simp
  rw [e1] at c1; rw [e2] at c2
  constructor
  · push_cast; nlinarith
  · push_cast; nlinarith

/-- the certificate determines `T` (pure arithmetic corollary) -/
theorem certOK_unique (a b n m U T T' : ℕ) (hb : 0 < b) (hm : 0 < m)
    (h : certOK a b n m U T = true) (h' : certOK a b n m U T' = true) : T = T' := by
  have := certOK_sound a b n m U T hb hm h
  have := certOK_sound a b n m U T' hb hm h'
  omega

/-- **Soundness of the enclosure** used for large denominators: certified thresholds
    of two fractions around σ bracket the formula at σ. -/
theorem enclosure_sound (a b n m nl ml nh mh U Tl Th : ℕ) (hb : 0 < b) (hab : a ≤ b)
    (hm : 0 < m) (hml : 0 < ml) (hmh : 0 < mh)
    (hlo : nl * m ≤ n * ml) (hhi : n * mh ≤ nh * m)
    (cl : certOK a b nl ml U Tl = true) (ch : certOK a b nh mh U Th = true) :
    (Tl : ℤ) ≤ Tspec U ((n : ℝ) / m) (1 - (a : ℝ) / b) ∧
    Tspec U ((n : ℝ) / m) (1 - (a : ℝ) / b) ≤ Th := by
  have hbR : (0:ℝ) < b := by exact_mod_cast hb
  have hmR : (0:ℝ) < m := by exact_mod_cast hm
  have hmlR : (0:ℝ) < ml := by exact_mod_cast hml
  have hmhR : (0:ℝ) < mh := by exact_mod_cast hmh
  have hf0 : (0:ℝ) ≤ 1 - (a:ℝ) / b := by
    have : (a:ℝ) / b ≤ 1 := by rw [div_le_one hbR]; exact_mod_cast hab
    linarith
  have hf1 : 1 - (a:ℝ) / b ≤ 1 := by
    have : (0:ℝ) ≤ (a:ℝ) / b := by positivity
    linarith
  have s1 : (nl:ℝ) / ml ≤ (n:ℝ) / m := by
    rw [div_le_div_iff₀ hmlR hmR]; exact_mod_cast hlo
  have s2 : (n:ℝ) / m ≤ (nh:ℝ) / mh := by
    rw [div_le_div_iff₀ hmR hmhR]; exact_mod_cast hhi
  rw [certOK_sound a b nl ml U Tl hb hml cl, certOK_sound a b nh mh U Th hb hmh ch]
  exact ⟨T_mono_sigma U _ _ _ hf0 hf1 (by positivity) s1,
         T_mono_sigma U _ _ _ hf0 hf1 (by positivity) s2⟩

/-- **The exact fast path of the code is the formula**: when 1 − f = (r/s)^m the
    code returns ⌊U · (s^n − r^n) / s^n⌋ by integer arithmetic; this is the Praos
    formula at σ = n/m. -/
theorem exactPath_eq_spec (r s n m U : ℕ) (hs : 0 < s) (hrs : r ≤ s) (hm : 0 < m) :
    ((U * (s ^ n - r ^ n) / s ^ n : ℕ) : ℤ) =
      Tspec U ((n : ℝ) / m) (1 - ((r ^ m : ℕ) : ℝ) / ((s ^ m : ℕ) : ℝ)) := by
  unfold Tspec
  have hsR : (0:ℝ) < s := by exact_mod_cast hs
  have hmR : (0:ℝ) < m := by exact_mod_cast hm
  have hq0 : (0:ℝ) ≤ (r:ℝ) / s := by positivity
  have e1 : (1:ℝ) - (1 - ((r ^ m : ℕ) : ℝ) / ((s ^ m : ℕ) : ℝ)) = ((r:ℝ) / s) ^ m := by
    push_cast; rw [div_pow]; ring
  have e2 : (((r:ℝ) / s) ^ m) ^ ((n:ℝ) / m) = ((r:ℝ) / s) ^ n := by
    rw [← Real.rpow_natCast, ← Real.rpow_mul hq0, mul_div_cancel₀ _ hmR.ne', Real.rpow_natCast]
  rw [e1, e2]
  have hsn : (0:ℝ) < (s:ℝ) ^ n := by positivity
  have hle : r ^ n ≤ s ^ n := Nat.pow_le_pow_left hrs n
  have e3 : (U:ℝ) * (1 - ((r:ℝ) / s) ^ n) = ((U * (s ^ n - r ^ n) : ℕ) : ℝ) / ((s ^ n : ℕ) : ℝ) := by
    rw [div_pow]; push_cast [Nat.cast_sub hle]; field_simp
  rw [e3]
  symm
  rw [Int.floor_eq_iff]
  have hD : 0 < s ^ n := Nat.pow_pos hs
  have hDR : (0:ℝ) < ((s ^ n : ℕ) : ℝ) := by exact_mod_cast hD
  set N := U * (s ^ n - r ^ n) with hN
  set D := s ^ n with hDdef
  have h1 : N / D * D ≤ N := Nat.div_mul_le_self N D
  have h2 : N < (N / D + 1) * D := by
    have := Nat.lt_div_mul_add hD (a := N); rw [Nat.add_mul]; simpa [Nat.mul_comm] using this
  constructor
  · rw [le_div_iff₀ hDR]; exact_mod_cast h1
  · rw [div_lt_iff₀ hDR]; exact_mod_cast h2

/-- **Soundness of the exact-root certificate** (any denominator m): it is the code's exact
    rational fast path, and that path is the formula. -/
theorem exactOK_sound (a b n m U r s T : ℕ) (h : exactOK a b n m U r s T = true) :
    (T : ℤ) = Tspec U ((n : ℝ) / m) (1 - (a : ℝ) / b) := by
  simp only [exactOK, Bool.and_eq_true, decide_eq_true_eq] at h
  obtain ⟨⟨⟨⟨⟨hs, hrs⟩, hm⟩, ha⟩, hb⟩, hT⟩ := h
  rw [hT, ← ha, ← hb]
  exact exactPath_eq_spec r s n m U hs hrs hm

/-- **The escalation decision is sound given an enclosure**: if the probability p = 1 − (1−f)^σ is
    enclosed by pLo ≤ p ≤ pHi, p < 1, and the two integer thresholds computed from the ends (the upper
    one capped at U − 1, as `thresholdFromBoundedProbability` does since fix cb1bc36) coincide, then
    that common value is ⌊U·p⌋.  So a wrong result can only come from a wrong ENCLOSURE, never from the
    decision to stop escalating. -/
theorem interval_resolves (U : ℕ) (p pLo pHi : ℝ) (hU : 0 < U) (hp : p < 1) (h1 : pLo ≤ p) (h2 : p ≤ pHi)
    (h : min ⌊(U : ℝ) * pLo⌋ ((U : ℤ) - 1) = min ⌊(U : ℝ) * pHi⌋ ((U : ℤ) - 1)) :
    ⌊(U : ℝ) * p⌋ = min ⌊(U : ℝ) * pLo⌋ ((U : ℤ) - 1) := by
  have hUR : (0:ℝ) < U := by exact_mod_cast hU
  have a1 : ⌊(U : ℝ) * pLo⌋ ≤ ⌊(U : ℝ) * p⌋ := Int.floor_le_floor (by nlinarith)
  have a2 : ⌊(U : ℝ) * p⌋ ≤ ⌊(U : ℝ) * pHi⌋ := Int.floor_le_floor (by nlinarith)
  have a3 : ⌊(U : ℝ) * p⌋ ≤ (U : ℤ) - 1 := by
    have : ⌊(U : ℝ) * p⌋ < (U : ℤ) := by
      rw [Int.floor_lt]; push_cast; nlinarith
    omega
  have b1 : min ⌊(U : ℝ) * pLo⌋ ((U : ℤ) - 1) ≤ ⌊(U : ℝ) * p⌋ := le_trans (min_le_left _ _) a1
  have b2 : ⌊(U : ℝ) * p⌋ ≤ min ⌊(U : ℝ) * pHi⌋ ((U : ℤ) - 1) := le_min a2 a3
  omega

/-- the same with the enclosure given on (1−f)^σ, as the pipeline has it: lo ≤ x ≤ hi, 0 < x -/
theorem interval_resolves_pow (U : ℕ) (x lo hi : ℝ) (hU : 0 < U) (hx : 0 < x) (h1 : lo ≤ x) (h2 : x ≤ hi)
    (h : min ⌊(U : ℝ) * (1 - hi)⌋ ((U : ℤ) - 1) = min ⌊(U : ℝ) * (1 - lo)⌋ ((U : ℤ) - 1)) :
    ⌊(U : ℝ) * (1 - x)⌋ = min ⌊(U : ℝ) * (1 - hi)⌋ ((U : ℤ) - 1) :=
  interval_resolves U (1 - x) (1 - hi) (1 - lo) hU (by linarith) (by linarith) (by linarith) h

/-! ### the guard ladder of the code against the formula -/

/-- the coefficient as a real number -/
noncomputable def fR (i : Input) : ℝ := (i.fNum : ℝ) / i.fDen
/-- relative stake capped at 1 -/
noncomputable def sigmaR (i : Input) : ℝ := min ((i.pool : ℝ) / i.total) 1

/-- an unknown mode or f > 1 is an error, and only those -/
theorem guards_err_iff (i : Input) (hden : 0 < i.fDen) :
    (∃ k, guards i = .err k) ↔ (i.mode ≠ 0 ∧ i.mode ≠ 1) ∨ (i.fNil = false ∧ fR i > 1) := by
  have hdR : (0:ℝ) < i.fDen := by exact_mod_cast hden
  have hgt : fR i > 1 ↔ i.fNum > (i.fDen : ℤ) := by
    unfold fR
    rw [gt_iff_lt, one_lt_div hdR]
    exact_mod_cast Iff.rfl
  unfold guards upperBound
  by_cases h0 : i.mode = 0
  · simp only [h0, ↓reduceIte]
    by_cases hn : i.fNil = true
    · simp [hn]
    · simp only [hn, Bool.false_eq_true, ↓reduceIte]
      by_cases hle : i.fNum ≤ 0
      · have : ¬ i.fNum > (i.fDen : ℤ) := by omega
        simp [hle, hgt, this]
      · simp only [hle, ↓reduceIte]
        by_cases hg : i.fNum > (i.fDen : ℤ)
        · simp [hg, hgt]
        · simp only [hg, ↓reduceIte]
          have e : (i.fNil = false ∧ fR i > 1) ↔ False := by simp [hgt, hg]
          split <;> (try split) <;> (try split) <;> simp [hgt, hg]
  · by_cases h1 : i.mode = 1
    · simp only [h1, one_ne_zero, ↓reduceIte]
      by_cases hn : i.fNil = true
      · simp [hn]
      · simp only [hn, Bool.false_eq_true, ↓reduceIte]
        by_cases hle : i.fNum ≤ 0
        · have : ¬ i.fNum > (i.fDen : ℤ) := by omega
          simp [hle, hgt, this]
        · simp only [hle, ↓reduceIte]
          by_cases hg : i.fNum > (i.fDen : ℤ)
          · simp [hg, hgt]
          · simp only [hg, ↓reduceIte]
            split <;> (try split) <;> (try split) <;> simp [hgt, hg]
    · simp [h0, h1]

/-- how the code reduces a fraction: (x / gcd) / (y / gcd) is x / y -/
theorem reduced_ratio (x y : ℕ) (hy : 0 < y) :
    ((x / Nat.gcd x y : ℕ) : ℝ) / ((y / Nat.gcd x y : ℕ) : ℝ) = (x : ℝ) / y ∧ 0 < y / Nat.gcd x y := by
  have hg : 0 < Nat.gcd x y := Nat.gcd_pos_of_pos_right x hy
  have hx := Nat.div_mul_cancel (Nat.gcd_dvd_left x y)
  have hyy := Nat.div_mul_cancel (Nat.gcd_dvd_right x y)
  have hpos : 0 < y / Nat.gcd x y := Nat.div_pos (Nat.le_of_dvd hy (Nat.gcd_dvd_right x y)) hg
  refine ⟨?_, hpos⟩
  have hgR : (0:ℝ) < (Nat.gcd x y : ℝ) := by exact_mod_cast hg
  have hmR : (0:ℝ) < ((y / Nat.gcd x y : ℕ) : ℝ) := by exact_mod_cast hpos
  have hyR : (0:ℝ) < (y : ℝ) := by exact_mod_cast hy
  have e1 : (x : ℝ) = ((x / Nat.gcd x y : ℕ) : ℝ) * (Nat.gcd x y : ℝ) := by exact_mod_cast hx.symm
  have e2 : (y : ℝ) = ((y / Nat.gcd x y : ℕ) : ℝ) * (Nat.gcd x y : ℝ) := by exact_mod_cast hyy.symm
  rw [div_eq_div_iff hmR.ne' hyR.ne']
  nlinarith [e1, e2]

/-- σ after the cap, as the code computes it -/
theorem capped_ratio (pool total : ℕ) (ht : 0 < total) :
    (((if pool > total then total else pool : ℕ) : ℝ) / total) = min ((pool : ℝ) / total) 1 := by
  have htR : (0:ℝ) < total := by exact_mod_cast ht
  by_cases h : pool > total
  · simp only [h, ↓reduceIte]
    have : (1:ℝ) ≤ (pool:ℝ) / total := by
      rw [le_div_iff₀ htR]; have : (total:ℝ) ≤ pool := by exact_mod_cast h.le
      linarith
    rw [min_eq_right this, div_self htR.ne']
  · simp only [h, ↓reduceIte]
    have : (pool:ℝ) / total ≤ 1 := by
      rw [div_le_one htR]; exact_mod_cast Nat.le_of_not_gt h
    rw [min_eq_left this]

/-- **The guard ladder against the formula, value case**: on the domain of the
    statement (known mode, coefficient present with 0 ≤ f, total stake > 0) every
    value the ladder returns directly is the Praos formula. -/
theorem guards_val_sound (i : Input) (U t : ℕ) (hU : upperBound i.mode = some U)
    (hden : 0 < i.fDen) (hnil : i.fNil = false) (hf0 : 0 ≤ i.fNum) (ht : 0 < i.total)
    (h : guards i = .val t) : (t : ℤ) = Tspec U (sigmaR i) (fR i) := by
  have hdR : (0:ℝ) < i.fDen := by exact_mod_cast hden
  have htR : (0:ℝ) < i.total := by exact_mod_cast ht
  simp only [guards, hU, hnil, Bool.false_eq_true, ↓reduceIte] at h
  by_cases h1 : i.fNum ≤ 0
  · simp only [h1, ↓reduceIte, Out.val.injEq] at h
    have : i.fNum = 0 := by omega
    have : fR i = 0 := by simp [fR, this]
    rw [this, spec_f_zero, ← h]; rfl
  · simp only [h1, ↓reduceIte] at h
    by_cases h2 : i.fNum > (i.fDen : ℤ)
    · simp [h2] at h
    · simp only [h2, ↓reduceIte, Nat.ne_of_gt ht] at h
      by_cases h3 : i.pool = 0
      · simp only [h3, ↓reduceIte, Out.val.injEq] at h
        have : sigmaR i = 0 := by
          simp only [sigmaR, h3, Nat.cast_zero, zero_div]; exact min_eq_left (by norm_num)
        rw [this, spec_sigma_zero, ← h]; rfl
      · simp only [h3, ↓reduceIte] at h
        by_cases h4 : i.fNum = (i.fDen : ℤ)
        · simp only [h4, ↓reduceIte, Out.val.injEq] at h
          have hf : fR i = 1 := by
            unfold fR; rw [h4]; push_cast; exact div_self hdR.ne'
          have hs : 0 < sigmaR i := by
            unfold sigmaR
            have hp : (0:ℝ) < i.pool := by exact_mod_cast Nat.pos_of_ne_zero h3
            exact lt_min (div_pos hp htR) one_pos
          rw [hf, spec_f_one U _ hs, ← h]
        · simp [h4] at h

/-- **…general case**: what is handed to the exact path / ln-exp pipeline is
    exactly 1 − f = a/b and σ = n/m (capped), with b, m > 0. -/
theorem guards_general_sound (i : Input) (a b n m U : ℕ)
    (hden : 0 < i.fDen) (h : guards i = .general a b n m U) :
    upperBound i.mode = some U ∧ 0 < b ∧ 0 < m ∧
      (a : ℝ) / b = 1 - fR i ∧ (n : ℝ) / m = sigmaR i := by
  have hdR : (0:ℝ) < i.fDen := by exact_mod_cast hden
  unfold guards at h
  split at h
  · cases h
  · rename_i U' hU'
    by_cases c0 : i.fNil = true
    · simp [c0] at h
    · simp only [c0, Bool.false_eq_true, ↓reduceIte] at h
      by_cases c1 : i.fNum ≤ 0
      · simp [c1] at h
      · simp only [c1, ↓reduceIte] at h
        by_cases c2 : i.fNum > (i.fDen : ℤ)
        · simp [c2] at h
        · simp only [c2, ↓reduceIte] at h
          by_cases c3 : i.total = 0
          · simp [c3] at h
          · simp only [c3, ↓reduceIte] at h
            by_cases c4 : i.pool = 0
            · simp [c4] at h
            · simp only [c4, ↓reduceIte] at h
              by_cases c5 : i.fNum = (i.fDen : ℤ)
              · simp [c5] at h
              · simp only [c5, ↓reduceIte, Out.general.injEq] at h
                obtain ⟨ha, hb, hn, hm, hUU⟩ := h
                have ht : 0 < i.total := Nat.pos_of_ne_zero c3
                have r1 := reduced_ratio (i.fDen - i.fNum.toNat) i.fDen hden
                have r2 := reduced_ratio (if i.pool > i.total then i.total else i.pool) i.total ht
                rw [ha, hb] at r1
                rw [hn, hm] at r2
                refine ⟨by rw [hU', hUU], r1.2, r2.2, ?_, ?_⟩
                · rw [r1.1]
                  have hle : i.fNum.toNat ≤ i.fDen := by omega
                  rw [Nat.cast_sub hle]
                  have : ((i.fNum.toNat : ℕ) : ℝ) = (i.fNum : ℝ) := by
                    have := Int.toNat_of_nonneg (by omega : 0 ≤ i.fNum)
                    exact_mod_cast this
                  rw [this]; unfold fR; field_simp
                · rw [r2.1, capped_ratio i.pool i.total ht]; rfl

/-- **End to end**: an output `T` that passes the certificate for the general case
    handed over by the guard ladder is the Praos formula at the caller's f and σ. -/
theorem certified_output_correct (i : Input) (a b n m U T : ℕ) (hden : 0 < i.fDen)
    (hg : guards i = .general a b n m U) (hc : certOK a b n m U T = true) :
    (T : ℤ) = Tspec U (sigmaR i) (fR i) := by
  obtain ⟨_, hb, hm, e1, e2⟩ := guards_general_sound i a b n m U hden hg
  have := certOK_sound a b n m U T hb hm hc
  rw [e2] at this
  have e3 : (1:ℝ) - (a:ℝ) / b = fR i := by rw [e1]; ring
  rw [e3] at this
  exact this

/-! ### the rational certificate (any denominator) -/

/-- **Soundness of the rational certificate**: if `ThresholdCert.check a b n m U T c` holds then `T`
    is the Praos formula at 1 − f = a/b, σ = n/m — with no bound on m. -/
theorem ratcert_sound (a b n m U T : ℕ) (c : GV.Model.ThresholdCert.Cert)
    (h : GV.Model.ThresholdCert.check a b n m U T c = true) :
    (T : ℤ) = Tspec U ((n : ℝ) / m) (1 - (a : ℝ) / b) := by
  have := GV.Proofs.ThresholdCert.check_sound a b n m U T c h
  unfold Tspec
  have e : (1:ℝ) - (1 - (a:ℝ) / b) = (a:ℝ) / b := by ring
  rw [e]; exact this

/-- end to end: after the guard ladder, an output accepted by the rational checker is the formula
    at the caller's f and σ -/
theorem ratcert_output_correct (i : Input) (a b n m U T : ℕ) (c : GV.Model.ThresholdCert.Cert)
    (hden : 0 < i.fDen) (hg : guards i = .general a b n m U)
    (hc : GV.Model.ThresholdCert.check a b n m U T c = true) :
    (T : ℤ) = Tspec U (sigmaR i) (fR i) := by
  obtain ⟨_, _, _, e1, e2⟩ := guards_general_sound i a b n m U hden hg
  have := ratcert_sound a b n m U T c hc
  rw [e2] at this
  have e3 : (1:ℝ) - (a:ℝ) / b = fR i := by rw [e1]; ring
  rw [e3] at this
  exact this

/-- end to end for the exact-root certificate -/
theorem exact_output_correct (i : Input) (a b n m U r s T : ℕ)
    (hden : 0 < i.fDen) (hg : guards i = .general a b n m U)
    (hc : exactOK a b n m U r s T = true) :
    (T : ℤ) = Tspec U (sigmaR i) (fR i) := by
  obtain ⟨_, _, _, e1, e2⟩ := guards_general_sound i a b n m U hden hg
  have := exactOK_sound a b n m U r s T hc
  rw [e2] at this
  have e3 : (1:ℝ) - (a:ℝ) / b = fR i := by rw [e1]; ring
  rw [e3] at this
  exact this

/-! ### eligibility -/

/-- **a VRF leader value makes a pool eligible exactly when it is below the threshold** -/
theorem eligible_iff_lt (mode : ℕ) (lv : List UInt8 → List UInt8) (vrf : List UInt8) (t : ℕ)
    (hmode : mode = 0 ∨ mode = 1) (hv : vrf ≠ []) :
    below mode lv vrf (some t) = some true ↔
      beNat (if mode = 1 then vrf else lv vrf) < t := by
  have : ¬ (mode ≠ 0 ∧ mode ≠ 1) := by omega
  simp [below, this, hv]

theorem never_eligible_without_output (mode : ℕ) (lv : List UInt8 → List UInt8) (t : Option ℕ)
    (hmode : mode = 0 ∨ mode = 1) : below mode lv [] t = some false := by
  have : ¬ (mode ≠ 0 ∧ mode ≠ 1) := by omega
  cases t <;> simp [below, this]

/-- Regenerated tie: the top-level statements of the Go functions, re-extracted from the source on every
    run, are the ones `guards`, `below` and the eligibility model of the driver were written from (mode
    switch, guard ladder in this order, the threshold computed in the CALLER's mode, numerator and
    denominator roots both raised to n).  Any edit of these functions breaks this obligation. -/
theorem source_as_modelled :
    GV.Gen.SrcG7.certifiedNatThresholdWithMode = [
  "var upperBound *big.Int",
  "switch mode { case ConsensusModeCPraos: upperBound = twoTo256 case ConsensusModeTPraos: upperBound = twoTo512 default: return nil, fmt.Errorf(\"unknown consensus mode: %d\", mode) }",
  "if activeSlotCoeff == nil { return big.NewInt(0), nil }",
  "if activeSlotCoeff.Sign() <= 0 { return big.NewInt(0), nil }",
  "fCmpOne := activeSlotCoeff.Cmp(bigRatOne)",
  "if fCmpOne > 0 { return nil, fmt.Errorf(\"activeSlotCoeff must not exceed 1 (100%%), got %s\", activeSlotCoeff.RatString()) }",
  "if totalStake == 0 { return big.NewInt(0), nil }",
  "if poolStake == 0 { return big.NewInt(0), nil }",
  "if poolStake > totalStake { poolStake = totalStake }",
  "if fCmpOne == 0 { return new(big.Int).Set(upperBound), nil }",
  "oneMinusF := new(big.Rat).Sub(bigRatOne, activeSlotCoeff)",
  "if exact, ok := exactOneMinusFPowerSigmaThreshold(oneMinusF, poolStake, totalStake, upperBound); ok { return exact, nil }",
  "return escalateThreshold(oneMinusF, poolStake, totalStake, upperBound, seriesTargetBits, maxThresholdEscalationBits)"] ∧
    GV.Gen.SrcG7.isVRFOutputBelowThresholdWithMode = [
  "var useRawOutput bool",
  "switch mode { case ConsensusModeCPraos: case ConsensusModeTPraos: useRawOutput = true default: return false, fmt.Errorf(\"unknown consensus mode: %d\", mode) }",
  "if threshold == nil { return false, nil }",
  "if len(vrfOutput) == 0 { return false, nil }",
  "var leaderValue []byte",
  "if useRawOutput { leaderValue = vrfOutput } else { leaderValue = VrfLeaderValue(vrfOutput) }",
  "vrfInt := VRFOutputToInt(leaderValue)",
  "return vrfInt.Cmp(threshold) < 0, nil"] ∧
    GV.Gen.SrcG7.isSlotLeaderFromComponentsWithMode = [
  "switch mode { case ConsensusModeCPraos, ConsensusModeTPraos: default: return false, fmt.Errorf(\"unknown consensus mode: %d\", mode) }",
  "if activeSlotCoeff == nil || totalStake == 0 || poolStake == 0 { return false, nil }",
  "if len(vrfOutput) != 64 { return false, nil }",
  "threshold, err := CertifiedNatThresholdWithMode(poolStake, totalStake, activeSlotCoeff, mode)",
  "if err != nil { return false, err }",
  "return IsVRFOutputBelowThresholdWithMode(vrfOutput, threshold, mode)"] ∧
    GV.Gen.SrcG7.exactOneMinusFPowerSigma = [
  "g := new(big.Int).GCD(nil, nil, new(big.Int).SetUint64(poolStake), new(big.Int).SetUint64(totalStake))",
  "n := new(big.Int).Quo(new(big.Int).SetUint64(poolStake), g)",
  "m := new(big.Int).Quo(new(big.Int).SetUint64(totalStake), g)",
  "numRoot, ok := exactIntegerNthRoot(oneMinusF.Num(), m)",
  "if !ok { return nil, false }",
  "denRoot, ok := exactIntegerNthRoot(oneMinusF.Denom(), m)",
  "if !ok { return nil, false }",
  "return new(big.Rat).SetFrac(new(big.Int).Exp(numRoot, n, nil), new(big.Int).Exp(denRoot, n, nil)), true"] ∧
    GV.Gen.SrcG7.exactOneMinusFPowerSigmaThreshold = [
  "powerExact, ok := exactOneMinusFPowerSigma(oneMinusF, poolStake, totalStake)",
  "if !ok { return nil, false }",
  "probabilityExact := new(big.Rat).Sub(bigRatOne, powerExact)",
  "threshold := new(big.Int).Mul(upperBound, probabilityExact.Num())",
  "threshold.Quo(threshold, probabilityExact.Denom())",
  "return threshold, true"] := ⟨rfl, rfl, rfl, rfl, rfl⟩

/-! non-vacuity -/
example : exactOK 1 4 1 2 (2 ^ 256) 1 2 (2 ^ 255) = true := by decide
example : certOK 1 4 1 2 (2 ^ 256) (2 ^ 255) = true := by decide   -- f = 3/4, σ = 1/2: exactly half
example : certOK 19 20 1 1 1000 50 = true := by decide             -- σ = 1: ⌊1000·(1/20)⌋
example : guards ⟨0, 1, 2, false, 3, 4⟩ = .general 1 4 1 2 (2 ^ 256) := by decide

end GV.Props.C37
