import GV.Model.DmqAuth
import GV.Model.DmqSym
import GV.Gen.DmqAuthFacts
/-!
C46 — DMQ messages are accepted only when fully authenticated.

The message authenticator accepts a DMQ message only if its id is the hash of its
payload, the operational certificate is signed by the message's cold key, and the KES
signature over the payload verifies. The issuing pool must also be registered, and the
certificate counter must not fall below one previously accepted for that pool. Without a
KES verifier it rejects unless insecure mode was explicitly enabled.

All theorems are about `GV.Model.DmqAuth.verify` (mirror of `verifyMessageInternal`) for an
arbitrary instance `P` of the primitives and an arbitrary injected verifier.
-/
namespace GV.Props.C46
open GV.Model.DmqAuth

variable {Payload Digest Key Sig KSig Pool : Type}
variable (P : Prims Payload Digest Key Sig KSig Pool) [DecidableEq Digest] [DecidableEq Pool]

/-- the KES clause of the property: the injected verifier declared the signature valid for the
    arguments the authenticator computes — or there is no verifier and insecure mode is on -/
def KesFact (a : Auth Payload Key KSig Pool) (m : Msg Payload Digest Key Sig KSig)
    (slot : Option Nat) : Prop :=
  (∃ f, a.verifier = some f ∧
      f m.payload m.kesSig m.kesVk (P.kesPeriodOf m.payload) (slotFor P a m slot)
        a.slotsPerKesPeriod = KesRes.valid) ∨
  (a.verifier = none ∧ a.allowInsecure = true)

theorem kesOk_fact (a : Auth Payload Key KSig Pool) (m : Msg Payload Digest Key Sig KSig)
    (slot : Option Nat) (h : kesOk P a m slot = true) :
    m.kesSigLen = 448 ∧ m.kesVkLen = 32 ∧ KesFact P a m slot := by
  unfold kesOk at h
  split at h
  · simp at h
  · rename_i h1
    split at h
    · simp at h
    · rename_i h2
      refine ⟨by simpa using h1, by simpa using h2, ?_⟩
      unfold KesFact
      split at h
      · rename_i f hf
        exact Or.inl ⟨f, hf, by simpa using h⟩
      · rename_i hf
        exact Or.inr ⟨hf, h⟩

/-- **accepted → all five facts.** -/
theorem accepted_sound (a : Auth Payload Key KSig Pool) (m : Msg Payload Digest Key Sig KSig)
    (slot : Option Nat) (hv : a.disableValidation = false)
    (h : (verify P a m slot).1 = .ok ()) :
    (m.idLen = 32 ∧ m.id = P.msgId m.payload) ∧
    (m.coldKeyLen = 32 ∧ m.coldSigLen = 64 ∧
      P.certVerify m.coldKey m.kesVk m.issue m.ocPeriod m.coldSig = true) ∧
    (m.kesSigLen = 448 ∧ m.kesVkLen = 32 ∧ KesFact P a m slot) ∧
    a.pools.contains (P.poolOf m.coldKey) = true ∧
    (∀ last, lookup a.cache (P.poolOf m.coldKey) = some last → last ≤ m.issue) := by
  unfold verify at h
  simp only [hv, Bool.false_eq_true, if_false] at h
  by_cases h1 : idOk P m = true
  · by_cases h2 : certOk P m = true
    · by_cases h3 : kesOk P a m slot = true
      · by_cases h4 : a.pools.contains (P.poolOf m.coldKey) = true
        · simp only [h1, h2, h3, h4, Bool.not_true, Bool.false_eq_true, if_false] at h
          refine ⟨?_, ?_, kesOk_fact P a m slot h3, h4, ?_⟩
          · unfold idOk at h1
            simp only [Bool.and_eq_true, bne_iff_ne, ne_eq, beq_iff_eq] at h1
            exact ⟨h1.1.2, h1.2⟩
          · unfold certOk at h2
            simp only [Bool.and_eq_true, beq_iff_eq] at h2
            exact ⟨h2.1.1, h2.1.2, h2.2⟩
          · intro last hl
            simp only [hl] at h
            by_cases h5 : m.issue < last
            · simp [h5] at h
            · omega
        · have h4' : P.poolOf m.coldKey ∉ a.pools := by simpa using h4
          simp [h1, h2, h3, h4'] at h
      · simp [h1, h2, h3] at h
    · simp [h1, h2] at h
  · simp [h1] at h

/-- Without a KES verifier and without insecure mode nothing is accepted. -/
theorem no_verifier_rejects (a : Auth Payload Key KSig Pool) (m : Msg Payload Digest Key Sig KSig)
    (slot : Option Nat) (hv : a.disableValidation = false) (hn : a.verifier = none)
    (hi : a.allowInsecure = false) :
    ∃ e, (verify P a m slot).1 = .error e := by
  cases hr : (verify P a m slot).1 with
  | error e => exact ⟨e, rfl⟩
  | ok u =>
    have := (accepted_sound P a m slot hv hr).2.2.1.2.2
    rcases this with ⟨f, hf, _⟩ | ⟨_, h⟩
    · simp [hn] at hf
    · simp [hi] at h

/-- A rejection changes nothing; an acceptance changes exactly the pool's cache entry. -/
theorem cache_changes_only_on_accept (a : Auth Payload Key KSig Pool)
    (m : Msg Payload Digest Key Sig KSig) (slot : Option Nat) :
    (∀ e, (verify P a m slot).1 = .error e → (verify P a m slot).2 = a) ∧
    ((verify P a m slot).1 = .ok () → a.disableValidation = false →
      (verify P a m slot).2 = { a with cache := insert a.cache (P.poolOf m.coldKey) m.issue }) := by
  unfold verify
  by_cases hv : a.disableValidation = true
  · simp [hv]
  · simp only [hv, Bool.false_eq_true, if_false]
    by_cases h1 : idOk P m = true
    · by_cases h2 : certOk P m = true
      · by_cases h3 : kesOk P a m slot = true
        · by_cases h4 : a.pools.contains (P.poolOf m.coldKey) = true
          · simp only [h1, h2, h3, h4, Bool.not_true, Bool.false_eq_true, if_false]
            cases hl : lookup a.cache (P.poolOf m.coldKey) with
            | none => simp
            | some last =>
              by_cases h5 : m.issue < last
              · simp [h5]
              · simp [h5]
          · have h4' : P.poolOf m.coldKey ∉ a.pools := by simpa using h4
            simp [h1, h2, h3, h4']
        · simp [h1, h2, h3]
      · simp [h1, h2]
    · simp [h1]

/-! ### the counter cache over histories -/

theorem lookup_insert_self (c : List (Pool × Nat)) (p : Pool) (n : Nat) :
    lookup (insert c p n) p = some n := by
  induction c with
  | nil => simp [GV.Model.DmqAuth.insert, GV.Model.DmqAuth.lookup]
  | cons x rest ih =>
    obtain ⟨q, k⟩ := x
    by_cases h : q = p
    · simp [GV.Model.DmqAuth.insert, GV.Model.DmqAuth.lookup, h]
    · simp [GV.Model.DmqAuth.insert, GV.Model.DmqAuth.lookup, h, ih]

theorem lookup_insert_other (c : List (Pool × Nat)) (p q : Pool) (n : Nat) (h : q ≠ p) :
    lookup (insert c p n) q = lookup c q := by
  induction c with
  | nil =>
    have : ¬ p = q := fun e => h e.symm
    simp [GV.Model.DmqAuth.insert, GV.Model.DmqAuth.lookup, this]
  | cons x rest ih =>
    obtain ⟨r, k⟩ := x
    by_cases h1 : r = p
    · subst h1
      have : ¬ r = q := fun e => h e.symm
      simp [GV.Model.DmqAuth.insert, GV.Model.DmqAuth.lookup, this]
    · by_cases h2 : r = q
      · subst h2
        simp [GV.Model.DmqAuth.insert, GV.Model.DmqAuth.lookup, h1]
      · simp [GV.Model.DmqAuth.insert, GV.Model.DmqAuth.lookup, h1, h2, ih]

/-- One verification never lowers (or forgets) any pool's cached counter. -/
theorem counter_monotone (a : Auth Payload Key KSig Pool) (m : Msg Payload Digest Key Sig KSig)
    (slot : Option Nat) (q : Pool) (last : Nat) (hq : lookup a.cache q = some last) :
    ∃ last', lookup (verify P a m slot).2.cache q = some last' ∧ last ≤ last' := by
  have hc := cache_changes_only_on_accept P a m slot
  cases hr : (verify P a m slot).1 with
  | error e => rw [hc.1 e hr]; exact ⟨last, hq, Nat.le_refl _⟩
  | ok u =>
    by_cases hv : a.disableValidation = true
    · have : (verify P a m slot).2 = a := by unfold verify; simp [hv]
      rw [this]; exact ⟨last, hq, Nat.le_refl _⟩
    · have hv' : a.disableValidation = false := by simpa using hv
      rw [hc.2 hr hv']
      by_cases hp : q = P.poolOf m.coldKey
      · subst hp
        exact ⟨m.issue, lookup_insert_self _ _ _, (accepted_sound P a m slot hv' hr).2.2.2.2 last hq⟩
      · exact ⟨last, by rw [lookup_insert_other _ _ _ _ hp]; exact hq, Nat.le_refl _⟩

/-- the authenticator after a history -/
def after (a : Auth Payload Key KSig Pool)
    (h : List (Action Payload Digest Key Sig KSig Pool)) : Auth Payload Key KSig Pool :=
  (run P a h).2

theorem step_cache_mono (a : Auth Payload Key KSig Pool)
    (act : Action Payload Digest Key Sig KSig Pool) (q : Pool) (last : Nat)
    (hq : lookup a.cache q = some last) :
    ∃ last', lookup (step P a act).2.cache q = some last' ∧ last ≤ last' := by
  cases act with
  | verifyMsg m slot => exact counter_monotone P a m slot q last hq
  | register p => exact ⟨last, hq, Nat.le_refl _⟩
  | unregister p => exact ⟨last, hq, Nat.le_refl _⟩
  | setInsecure b => exact ⟨last, hq, Nat.le_refl _⟩
  | setVerifier f => exact ⟨last, hq, Nat.le_refl _⟩

/-- **Counter monotone over any history** of verifications, (un)registrations and
    configuration changes: a pool's cached counter never decreases and never disappears. -/
theorem counter_monotone_history (h : List (Action Payload Digest Key Sig KSig Pool))
    (a : Auth Payload Key KSig Pool) (q : Pool) (last : Nat)
    (hq : lookup a.cache q = some last) :
    ∃ last', lookup (after P a h).cache q = some last' ∧ last ≤ last' := by
  induction h generalizing a last with
  | nil => exact ⟨last, hq, Nat.le_refl _⟩
  | cons act rest ih =>
    obtain ⟨l1, h1, le1⟩ := step_cache_mono P a act q last hq
    obtain ⟨l2, h2, le2⟩ := ih (step P a act).2 l1 h1
    refine ⟨l2, ?_, Nat.le_trans le1 le2⟩
    simpa [after, run] using h2

theorem step_disable (a : Auth Payload Key KSig Pool)
    (act : Action Payload Digest Key Sig KSig Pool) :
    (step P a act).2.disableValidation = a.disableValidation := by
  cases act with
  | verifyMsg m slot =>
    have hc := cache_changes_only_on_accept P a m slot
    simp only [step]
    cases hr : (verify P a m slot).1 with
    | error e => rw [hc.1 e hr]
    | ok u =>
      by_cases hv : a.disableValidation = true
      · have : (verify P a m slot).2 = a := by unfold verify; simp [hv]
        rw [this]
      · rw [hc.2 hr (by simpa using hv)]
  | register p => rfl
  | unregister p => rfl
  | setInsecure b => rfl
  | setVerifier f => rfl

theorem after_disable (h : List (Action Payload Digest Key Sig KSig Pool))
    (a : Auth Payload Key KSig Pool) : (after P a h).disableValidation = a.disableValidation := by
  induction h generalizing a with
  | nil => rfl
  | cons act rest ih =>
    have := ih (step P a act).2
    simp only [after, run] at this ⊢
    rw [this, step_disable]

/-- **The counter never falls below one previously accepted for that pool**: if a message of a
    pool is accepted, then — after any further history — another message of the same pool is
    accepted only with a counter at least as large. -/
theorem accepted_counters_monotone (a : Auth Payload Key KSig Pool)
    (hv : a.disableValidation = false)
    (m1 m2 : Msg Payload Digest Key Sig KSig) (s1 s2 : Option Nat)
    (between : List (Action Payload Digest Key Sig KSig Pool))
    (hp : P.poolOf m1.coldKey = P.poolOf m2.coldKey)
    (h1 : (verify P a m1 s1).1 = .ok ())
    (h2 : (verify P (after P (verify P a m1 s1).2 between) m2 s2).1 = .ok ()) :
    m1.issue ≤ m2.issue := by
  have hc := (cache_changes_only_on_accept P a m1 s1).2 h1 hv
  have hl : lookup (verify P a m1 s1).2.cache (P.poolOf m1.coldKey) = some m1.issue := by
    rw [hc]; exact lookup_insert_self _ _ _
  obtain ⟨l, hl', le⟩ := counter_monotone_history P between _ _ _ hl
  have hv2 : (after P (verify P a m1 s1).2 between).disableValidation = false := by
    rw [after_disable, hc]; exact hv
  have := (accepted_sound P _ m2 s2 hv2 h2).2.2.2.2 l (by rw [← hp]; exact hl')
  omega

/-! ### symbolic binding (ideal primitives as hypotheses) -/

/-- With an injective payload hash, an id that is accepted for one payload is rejected for every
    other payload. -/
theorem id_binds_payload (hinj : ∀ p q, P.msgId p = P.msgId q → p = q)
    (m m' : Msg Payload Digest Key Sig KSig) (h : idOk P m = true) (hid : m'.id = m.id)
    (hne : m'.payload ≠ m.payload) : idOk P m' = false := by
  unfold idOk at h ⊢
  simp only [Bool.and_eq_true, beq_iff_eq] at h
  have : ¬ m'.id = P.msgId m'.payload := by
    intro e
    exact hne (hinj _ _ (by rw [← e, hid, h.2]))
  simp [this]

/-- With an ideal signature scheme (`certVerify` accepts exactly `sgn k vk i p`, `sgn` injective)
    a cold signature accepted for (cold key, KES key, counter, period) is rejected for any other. -/
theorem cert_binds_fields (sgn : Key → Key → Nat → Nat → Sig)
    (hbind : ∀ k vk i p σ, P.certVerify k vk i p σ = true → σ = sgn k vk i p)
    (hinj : ∀ k vk i p k' vk' i' p', sgn k vk i p = sgn k' vk' i' p' →
      k = k' ∧ vk = vk' ∧ i = i' ∧ p = p')
    (m m' : Msg Payload Digest Key Sig KSig) (h : certOk P m = true) (hs : m'.coldSig = m.coldSig)
    (hne : ¬ (m'.coldKey = m.coldKey ∧ m'.kesVk = m.kesVk ∧ m'.issue = m.issue ∧
      m'.ocPeriod = m.ocPeriod)) : certOk P m' = false := by
  unfold certOk at h ⊢
  simp only [Bool.and_eq_true, beq_iff_eq] at h
  cases hc : P.certVerify m'.coldKey m'.kesVk m'.issue m'.ocPeriod m'.coldSig with
  | false => simp
  | true =>
    exfalso
    have e1 := hbind _ _ _ _ _ h.2
    have e2 := hbind _ _ _ _ _ hc
    rw [hs, e1] at e2
    obtain ⟨a1, a2, a3, a4⟩ := hinj _ _ _ _ _ _ _ _ e2
    exact hne ⟨a1.symm, a2.symm, a3.symm, a4.symm⟩

/-! ### the KES-period observation, stated on the model

(See the decision in props/C46.json: a CIP-0137 conformance deviation, not a violation of the
property as stated.) -/

/-- The KES step never looks at the certificate's own KES period: two messages that differ only
    in `OperationalCertificate.KESPeriod` get the same KES verdict. -/
theorem kes_step_ignores_opcert_period (a : Auth Payload Key KSig Pool)
    (m : Msg Payload Digest Key Sig KSig) (p' : Nat) (slot : Option Nat) :
    kesOk P a { m with ocPeriod := p' } slot = kesOk P a m slot := rfl

/-- Without a caller-supplied slot the verifier is handed `kesPeriod · slotsPerKesPeriod`, i.e. (when
    the product does not wrap) it is asked about evolution `slot / spk − kesPeriod = 0`, whatever
    evolution the message was signed at. -/
theorem no_slot_checks_evolution_zero (a : Auth Payload Key KSig Pool)
    (m : Msg Payload Digest Key Sig KSig) (hspk : 0 < a.slotsPerKesPeriod)
    (hw : P.kesPeriodOf m.payload * a.slotsPerKesPeriod < 2 ^ 64) :
    slotFor P a m none / a.slotsPerKesPeriod - P.kesPeriodOf m.payload = 0 := by
  unfold slotFor
  simp only
  rw [Nat.mod_eq_of_lt hw, Nat.mul_div_cancel _ hspk]
  omega

/-- When the product wraps, the period the verifier derives is strictly smaller than the payload's
    KES period — the real verifier then answers "certificate in the future": a wrap can only turn
    an acceptance into a rejection. -/
theorem wrap_only_lowers_period (a : Auth Payload Key KSig Pool)
    (m : Msg Payload Digest Key Sig KSig) (hspk : 1 < a.slotsPerKesPeriod)
    (hw : P.kesPeriodOf m.payload * a.slotsPerKesPeriod ≥ 2 ^ 64) :
    slotFor P a m none / a.slotsPerKesPeriod < P.kesPeriodOf m.payload := by
  unfold slotFor
  simp only
  have hlt : P.kesPeriodOf m.payload * a.slotsPerKesPeriod % 2 ^ 64 <
      P.kesPeriodOf m.payload * a.slotsPerKesPeriod := by
    have := Nat.mod_lt (P.kesPeriodOf m.payload * a.slotsPerKesPeriod) (by decide : 0 < 2 ^ 64)
    omega
  exact (Nat.div_lt_iff_lt_mul (by omega)).mpr hlt

/-! ### regenerated source facts

The order of the five steps, the byte lengths they compare against, the rotation comparison and
the slots-per-KES-period constant are read off protocol/common/authentication.go on every run
(extract/facts_g8.go); the model was written against exactly these. A reordered step, a changed
length or a `<` turned into `<=` in the Go source breaks this obligation without any test input. -/
theorem source_facts :
    GV.Gen.DmqAuthFacts.steps =
      ["verifyMessageID", "verifyOperationalCertificate", "verifyKESSignature", "computePoolID",
       "verifyKESPeriodRotation"] ∧
    GV.Gen.DmqAuthFacts.internalConds =
      ["m.disableValidation", "msg == nil", "err != nil", "err != nil", "err != nil", "!registered",
       "err != nil"] ∧
    GV.Gen.DmqAuthFacts.verifyMessageID_lens =
      [("messageID", "==", "0"), ("messageID", "!=", "blake2b.Size256")] ∧
    GV.Gen.DmqAuthFacts.verifyOperationalCertificate_lens =
      [("coldVerificationKey", "!=", "32"), ("opcert.ColdSignature", "!=", "64")] ∧
    GV.Gen.DmqAuthFacts.verifyKESSignature_lens =
      [("msg.KESSignature", "!=", "448"), ("msg.OperationalCertificate.KESVerificationKey", "!=", "32")] ∧
    GV.Gen.DmqAuthFacts.rotationConds = ["exists && opcert.IssueNumber < lastOpCertNumber"] ∧
    GV.Gen.DmqAuthFacts.slotsPerKesPeriod = "129600" ∧
    (newAuth : Auth Nat Nat Nat Nat).slotsPerKesPeriod = 129600 := by
  decide

/-! ### TTL validator -/

/-- The TTL check accepts exactly the messages that have not expired and do not expire later than
    `now + maxTTL` (capped at the largest `uint32`); nothing wraps, for any clock value. -/
theorem ttl_ok_iff (maxTTL : Nat) (nowUnix : Int) (expiresAt : Nat) :
    validateTTLAt false maxTTL nowUnix expiresAt = .ok ↔
      nowUnix ≤ (maxU32 : Int) ∧ nowUnix ≤ (expiresAt : Int) ∧
      (expiresAt : Int) ≤ max nowUnix 0 + maxTTL ∧ expiresAt ≤ maxU32 := by
  unfold validateTTLAt maxU32
  by_cases h1 : nowUnix > ((4294967295 : Nat) : Int)
  · simp only [Bool.false_eq_true, if_false, h1, if_true]
    constructor
    · intro h; cases h
    · intro h; omega
  · by_cases h2 : nowUnix < 0
    · simp only [Bool.false_eq_true, if_false, h1, h2, if_true]
      by_cases h3 : 0 > expiresAt
      · omega
      · simp only [h3, if_false]
        by_cases h4 : expiresAt > min (0 + maxTTL) 4294967295
        · simp only [h4, if_true]
          constructor
          · intro h; cases h
          · intro h; omega
        · simp only [h4, if_false, true_iff]
          omega
    · simp only [Bool.false_eq_true, if_false, h1, h2]
      by_cases h3 : nowUnix.toNat > expiresAt
      · simp only [h3, if_true]
        constructor
        · intro h; cases h
        · intro h; omega
      · simp only [h3, if_false]
        by_cases h4 : expiresAt > min (nowUnix.toNat + maxTTL) 4294967295
        · simp only [h4, if_true]
          constructor
          · intro h; cases h
          · intro h; omega
        · simp only [h4, if_false, true_iff]
          omega

/-- an expired message is never accepted by an enabled validator -/
theorem ttl_expired_rejected (maxTTL : Nat) (nowUnix : Int) (expiresAt : Nat)
    (h : (expiresAt : Int) < nowUnix) : validateTTLAt false maxTTL nowUnix expiresAt = .expired := by
  unfold validateTTLAt maxU32
  by_cases h1 : nowUnix > ((4294967295 : Nat) : Int)
  · simp only [Bool.false_eq_true, if_false, h1, if_true]
  · have h2 : ¬ nowUnix < 0 := by omega
    have h3 : nowUnix.toNat > expiresAt := by omega
    simp [h1, h2, h3]

example : validateTTLAt false 1800 1700000000 1700001800 = .ok := by decide
example : validateTTLAt false 1800 1700000000 1700001801 = .tooFar := by decide
example : validateTTLAt false 1800 4294967296 4294967295 = .expired := by decide

/-! ### non-vacuity on the symbolic instance -/
open GV.Model.DmqSym

def exMsg (issue : Nat) : Msg Pay D K S KS :=
  { idLen := 32, id := D.h ⟨1, 7, 99⟩, payload := ⟨1, 7, 99⟩, kesSig := KS.ksg 0 0 ⟨1, 7, 99⟩,
    kesSigLen := 448, kesVk := K.kvk 0, kesVkLen := 32, issue := issue, ocPeriod := 3,
    coldSig := S.csig 2 (K.kvk 0) issue 3, coldSigLen := 64, coldKey := K.cold 2, coldKeyLen := 32 }

def exAuth : Auth Pay K KS Nat :=
  { (newAuth : Auth Pay K KS Nat) with pools := [2], verifier := some realVerifier }

/-- a fully authenticated message is accepted, a replay with a lower counter is not -/
def verdict (r : Except Rej Unit) : Option Rej :=
  match r with | .ok _ => none | .error e => some e

example : verdict (verify symPrims exAuth (exMsg 5) none).1 = none := by decide
example : verdict (verify symPrims (verify symPrims exAuth (exMsg 5) none).2 (exMsg 4) none).1
    = some .rotation := by decide
example : verdict (verify symPrims { exAuth with verifier := none } (exMsg 5) none).1
    = some .kes := by decide
example : ∀ p q, symPrims.msgId p = symPrims.msgId q → p = q := by
  intro p q h; simpa [symPrims] using h
example : ∀ k vk i p σ, symPrims.certVerify k vk i p σ = true →
    σ = (fun k vk i p => match k with | K.cold n => S.csig n vk i p | _ => S.junk) k vk i p := by
  intro k vk i p σ h
  cases k <;> cases σ <;> simp [symPrims] at h ⊢
  obtain ⟨⟨⟨h1, h2⟩, h3⟩, h4⟩ := h
  exact ⟨h1, h2, h3, h4⟩

end GV.Props.C46
