import GV.Model.Handshake
import GV.Model.HandshakeDelivery
import GV.Proofs.Handshake
import GV.Proofs.VersionTable
import GV.Proofs.WellFormed
import GV.Lib.VersionTable
import GV.Gen.HandshakeSends
/-!
C18 — Version negotiation agrees on the best common version.

When two endpoints handshake, either both finish with the same protocol version, which is the
highest version both offered and whose network magic matches, or the responder refuses and the
initiator reports the refusal. A version-mismatch refusal lists the responder's versions in
ascending order, and a query-mode handshake returns the responder's table without selecting a
version.

`serverNegotiate` mirrors `handshake.Server.handleProposeVersions`, `clientHandle` the client's
message handler; Go maps are lists in arbitrary order and every statement is for all orders.
-/
namespace GV.Props.C18
open GV.Model.VersionData GV.Model.Handshake GV.Proofs.Handshake GV.Proofs.VersionData

/-- The accepted version is offered by both sides, is the greatest such version, the responder
    answers with its own entry for it, and the initiator's data for it (decoded with that version's
    decoder) carries the same network magic. For every decoder table, responder table and every
    proposal map (arbitrary bytes, arbitrary order). -/
theorem accept_is_max_common (lk : Lookup) (S : VMap) (P : RawMap) (v : Nat) (own peer : VData)
    (h : serverNegotiate lk S P = .accept v own peer) :
    v ∈ keys S ∧ v ∈ keys P ∧ (∀ w, w ∈ keys S → w ∈ keys P → w ≤ v) ∧
    lookupMap S v = some own ∧ peer.networkMagic = own.networkMagic ∧
    ∃ k, lk v = some k ∧ (lookupMap P v).bind (decode k) = some peer := by
  unfold serverNegotiate at h
  by_cases hq : queryRequested lk P = true
  · simp [hq] at h
  · simp only [hq, Bool.false_eq_true, ↓reduceIte] at h
    generalize hi : (keys P).filter (fun v => (lookupMap S v).isSome) = inter at h
    by_cases he : inter.isEmpty = true
    · simp [he] at h
    · simp only [he, Bool.false_eq_true, ↓reduceIte] at h
      have hne : inter ≠ [] := by
        intro hn; apply he; simp [hn]
      have hmem : maxOf inter ∈ inter := maxOf_mem inter hne
      have hge := maxOf_ge inter
      cases hs : lookupMap S (maxOf inter) with
      | none => simp [hs] at h
      | some own0 =>
        cases hk : lk (maxOf inter) with
        | none => simp [hs, hk] at h
        | some k =>
          cases hd : (lookupMap P (maxOf inter)).bind (decode k) with
          | none => simp [hs, hk, hd] at h
          | some peer0 =>
            simp only [hs, hk, hd] at h
            by_cases hm : peer0.networkMagic = own0.networkMagic
            · simp only [hm, ne_eq, not_true_eq_false, ↓reduceIte, SOut.accept.injEq] at h
              obtain ⟨hv, ho, hp⟩ := h
              subst hv; subst ho; subst hp
              have hmem' := List.mem_filter.mp (show maxOf inter ∈ (keys P).filter _ by rw [hi]; exact hmem)
              refine ⟨(lookupMap_isSome_iff S _).mp hmem'.2, hmem'.1, ?_, hs, hm, k, hk, hd⟩
              intro w hwS hwP
              apply hge w
              rw [← hi]
              exact List.mem_filter.mpr ⟨hwP, (lookupMap_isSome_iff S w).mpr hwS⟩
            · simp [hm] at h

/-- A version-mismatch refusal happens only when no proposed version is known to the responder,
    and lists exactly the responder's versions in ascending order. -/
theorem mismatch_sorted (lk : Lookup) (S : VMap) (P : RawMap) (l : List Nat)
    (h : serverNegotiate lk S P = .refuse (.versionMismatch l)) :
    l.Pairwise (· ≤ ·) ∧ l.Perm (keys S) ∧ ∀ v ∈ keys P, v ∉ keys S := by
  unfold serverNegotiate at h
  by_cases hq : queryRequested lk P = true
  · simp [hq] at h
  · simp only [hq, Bool.false_eq_true, ↓reduceIte] at h
    generalize hi : (keys P).filter (fun v => (lookupMap S v).isSome) = inter at h
    by_cases he : inter.isEmpty = true
    · simp only [he, ↓reduceIte, SOut.refuse.injEq, Refuse.versionMismatch.injEq] at h
      subst h
      refine ⟨?_, ?_, ?_⟩
      · exact sortAsc_pairwise _
      · exact sortAsc_perm _
      · intro v hvP hvS
        have : v ∈ inter := by
          rw [← hi]; exact List.mem_filter.mpr ⟨hvP, (lookupMap_isSome_iff S v).mpr hvS⟩
        have hnil : inter = [] := by simpa using he
        simp [hnil] at this
    · simp only [he, Bool.false_eq_true, ↓reduceIte] at h
      cases hs : lookupMap S (maxOf inter) with
      | none => simp [hs] at h
      | some own0 =>
        cases hk : lk (maxOf inter) with
        | none => simp [hs, hk] at h
        | some k =>
          cases hd : (lookupMap P (maxOf inter)).bind (decode k) with
          | none => simp [hs, hk, hd] at h
          | some peer0 =>
            simp only [hs, hk, hd] at h
            split at h <;> simp at h

/-- The listed versions do not depend on the iteration order of the responder's map. -/
theorem mismatch_list_order_independent (S S' : VMap) (hp : (keys S').Perm (keys S)) :
    sortAsc (keys S') = sortAsc (keys S) := by
  apply List.Perm.eq_of_pairwise (le := fun a b => a ≤ b)
  · intro a b _ _ hab hba; omega
  · exact sortAsc_pairwise _
  · exact sortAsc_pairwise _
  · exact ((sortAsc_perm _).trans hp).trans (sortAsc_perm _).symm

/-- Query mode: if some proposed entry decodes to data with the query flag, the responder answers
    with its whole table and selects nothing (the outcome is not an acceptance), whatever else
    was proposed. -/
theorem query_returns_table (lk : Lookup) (S : VMap) (P : RawMap) (hq : queryRequested lk P = true) :
    serverNegotiate lk S P = .queryReply S ∧
    (serverNegotiate lk S P).msg? = some (.queryReply (encodeMap S)) ∧
    ∀ C, ∃ t, clientHandle lk C (.queryReply (encodeMap S)) = .queryDone t := by
  unfold serverNegotiate
  simp only [hq, ↓reduceIte, SOut.msg?, true_and]
  intro C; exact ⟨_, rfl⟩

/-- A table is honest w.r.t. the decoder table when every entry is well formed and of the Go type
    its version's decoder produces (true of every generated table: `GV.Props.C20.generated_honest`). -/
def Honest (lk : Lookup) (m : VMap) : Prop := ∀ p ∈ m, lk p.1 = some p.2.kind ∧ p.2.wf

/-- The initiator decodes the responder's query reply back to the responder's table. -/
theorem query_table_roundtrip (lk : Lookup) (S : VMap) (hS : Honest lk S) :
    decodeTable lk (encodeMap S) = S := by
  unfold decodeTable encodeMap
  induction S with
  | nil => rfl
  | cons p t ih =>
    have hp := hS p (by simp)
    have ht : Honest lk t := fun q hq => hS q (by simp [hq])
    have hd := decode_encode p.2 hp.2 []
    simp only [List.append_nil] at hd
    simp only [List.map_cons, List.filterMap_cons, hp.1, hd, Option.map_some]
    rw [ih ht]

/-- **Both sides agree.** Between an honest initiator proposing `C` and an honest responder with
    table `S`: if the responder accepts `v`, the initiator finishes with the same `v` (and the
    responder's data for it). -/
theorem both_agree_fwd (lk : Lookup) (C S : VMap) (hC : Honest lk C) (hS : Honest lk S)
    (v : Nat) (own peer : VData) (h : (handshake lk C S).1 = .accept v own peer) :
    (handshake lk C S).2 = some (.finished v own) := by
  unfold handshake at h ⊢
  simp only at h ⊢
  obtain ⟨hvS, hvP, _, hown, hmagic, k, hk, hdec⟩ := accept_is_max_common lk S (encodeMap C) v own peer h
  rw [h]
  simp only [SOut.msg?, Option.map_some, clientHandle, Option.some.injEq]
  -- the initiator's own entry
  rw [lookupMap_encodeMap] at hdec
  cases hc : lookupMap C v with
  | none => simp [hc] at hdec
  | some c =>
    have hcm := hC (v, c) (lookupMap_some_mem hc)
    have hsm := hS (v, own) (lookupMap_some_mem hown)
    simp only at hcm hsm
    have hkc : k = c.kind := by rw [hk] at hcm; exact Option.some.inj hcm.1
    have hko : k = own.kind := by rw [hk] at hsm; exact Option.some.inj hsm.1
    have hpeer : peer = c := by
      simp only [hc, Option.map_some, Option.bind_some] at hdec
      have := decode_encode c hcm.2 []
      simp only [List.append_nil] at this
      rw [hkc, this] at hdec
      exact (Option.some.inj hdec).symm
    have hown_dec : decode k (encode own) = some own := by
      have := decode_encode own hsm.2 []
      simp only [List.append_nil] at this
      rw [hko]; exact this
    unfold clientHandleAccept
    simp only [hc, hk, hown_dec]
    have : own.networkMagic = c.networkMagic := by rw [← hpeer]; exact hmagic.symm
    simp [this]

/-- Conversely the initiator finishes only with a version the responder accepted. -/
theorem both_agree_bwd (lk : Lookup) (C S : VMap) (v : Nat) (d : VData)
    (h : (handshake lk C S).2 = some (.finished v d)) :
    ∃ own peer, (handshake lk C S).1 = .accept v own peer := by
  unfold handshake at h ⊢
  simp only at h ⊢
  cases hs : serverNegotiate lk S (encodeMap C) with
  | queryReply t => simp [hs, SOut.msg?, clientHandle] at h
  | refuse r => simp [hs, SOut.msg?, clientHandle] at h
  | panic => simp [hs, SOut.msg?] at h
  | accept v0 own peer =>
    simp only [hs, SOut.msg?, Option.map_some, clientHandle, Option.some.injEq] at h
    have : v0 = v := by
      unfold clientHandleAccept at h
      split at h <;> try simp at h
      split at h <;> try simp at h
      split at h <;> try simp at h
      split at h <;> simp at h
      exact h.1
    subst this
    exact ⟨own, peer, rfl⟩

/-- Refusals are reported: whatever refusal the responder sends is what the initiator's handler
    returns as its (typed) error. -/
theorem refusal_reported (lk : Lookup) (C S : VMap) (r : Refuse)
    (h : (handshake lk C S).1 = .refuse r) : (handshake lk C S).2 = some (.refusedErr r) := by
  unfold handshake at h ⊢
  simp only at h ⊢
  rw [h]; rfl

/-- **The generated tables are honest** (hypothesis of `both_agree_fwd`, `query_table_roundtrip`):
    every map `GetProtocolVersionMap*` builds, restricted to any subset of its versions in any
    order, with any magic < 2^32 and any flags, is `Honest` for the decoder table of the
    running code (regenerated). -/
theorem generated_honest (shape : List (Nat × Nat)) (hs : shape ∈ GV.Proofs.VersionTable.shapes)
    (ks : List Nat) (magic : Nat) (hm : magic < 4294967296) (dm ps q : Bool) (m : VMap)
    (h : GV.Lib.VersionTable.genMap shape ks magic dm ps q = some m) :
    Honest GV.Lib.VersionTable.lk m :=
  GV.Proofs.VersionTable.genMap_honest shape hs ks magic hm dm ps q m h

/-- Both sides agree, for the real tables: any two generated maps (any subsets, magics, flags). -/
theorem both_agree_generated
    (sc ss : List (Nat × Nat)) (hsc : sc ∈ GV.Proofs.VersionTable.shapes) (hss : ss ∈ GV.Proofs.VersionTable.shapes)
    (kc ks : List Nat) (mc ms : Nat) (hmc : mc < 4294967296) (hms : ms < 4294967296)
    (dmc psc qc dms pss qs : Bool) (C S : VMap)
    (hC : GV.Lib.VersionTable.genMap sc kc mc dmc psc qc = some C)
    (hS : GV.Lib.VersionTable.genMap ss ks ms dms pss qs = some S)
    (v : Nat) (own peer : VData) (h : (handshake GV.Lib.VersionTable.lk C S).1 = .accept v own peer) :
    (handshake GV.Lib.VersionTable.lk C S).2 = some (.finished v own) :=
  both_agree_fwd _ C S (generated_honest sc hsc kc mc hmc dmc psc qc C hC)
    (generated_honest ss hss ks ms hms dms pss qs S hS) v own peer h

/-! ### the message-decoding stage in front of both handlers -/

theorem encodeMap_all_wellFormed (lk : Lookup) (m : VMap) (h : Honest lk m) :
    (encodeMap m).all (fun p => wellFormedOne p.2) = true := by
  unfold encodeMap
  rw [List.all_eq_true]
  intro p hp
  obtain ⟨e, he, rfl⟩ := List.mem_map.mp hp
  exact GV.Proofs.WellFormed.encode_wellFormed e.2 (h e he).2

/-- An honest initiator's proposal always passes message decoding: the responder's handler runs
    on it (`handshake` may skip the decoding stage). -/
theorem honest_proposal_decodes (lk : Lookup) (S C : VMap) (hC : Honest lk C) :
    serverReceive lk S (encodeMap C) = some (serverNegotiate lk S (encodeMap C)) := by
  unfold serverReceive
  rw [encodeMap_all_wellFormed lk C hC]; rfl

/-- Whatever an honest responder sends passes message decoding at the initiator: its handler runs. -/
theorem honest_reply_decodes (lk : Lookup) (C S : VMap) (P : RawMap) (hS : Honest lk S) (m : SMsg)
    (hm : (serverNegotiate lk S P).msg? = some m) : clientReceive lk C m = clientHandle lk C m := by
  have hwf : m.wellFormed = true := by
    cases hso : serverNegotiate lk S P with
    | queryReply t =>
      have ht : t = S := by
        unfold serverNegotiate at hso
        split at hso
        · simp only [SOut.queryReply.injEq] at hso; exact hso.symm
        · simp only at hso
          split at hso
          · cases hso
          · split at hso
            · cases hso
            · split at hso
              · cases hso
              · split at hso
                · cases hso
                · split at hso <;> cases hso
      rw [hso] at hm
      simp only [SOut.msg?, Option.some.injEq] at hm
      subst hm; subst ht
      exact encodeMap_all_wellFormed lk _ hS
    | refuse r =>
      rw [hso] at hm
      simp only [SOut.msg?, Option.some.injEq] at hm
      subst hm; rfl
    | accept v own peer =>
      obtain ⟨_, _, _, hown, _⟩ := accept_is_max_common lk S P v own peer hso
      rw [hso] at hm
      simp only [SOut.msg?, Option.some.injEq] at hm
      subst hm
      exact GV.Proofs.WellFormed.encode_wellFormed own (hS (v, own) (lookupMap_some_mem hown)).2
    | panic => rw [hso] at hm; simp [SOut.msg?] at hm
  unfold clientReceive
  simp [hwf]

/-! ### independence of Go map iteration order (both maps) -/

/-- outcomes equal up to the order in which the responder's own table is listed -/
def SOut.sameAs : SOut → SOut → Prop
  | .queryReply t, .queryReply t' => t.Perm t'
  | a, b => a = b

def COut.sameAs : COut → COut → Prop
  | .queryDone t, .queryDone t' => t.Perm t'
  | a, b => a = b

theorem SOut.sameAs_refl (a : SOut) : SOut.sameAs a a := by
  cases a <;> simp [SOut.sameAs]

theorem COut.sameAs_refl (a : COut) : COut.sameAs a a := by
  cases a <;> simp [COut.sameAs]

theorem SOut.sameAs_cases (a b : SOut) (h : SOut.sameAs a b) :
    (∃ t t', a = .queryReply t ∧ b = .queryReply t' ∧ t.Perm t') ∨ a = b := by
  cases a <;> cases b <;> simp_all [SOut.sameAs]

/-- **Permutation invariance of the responder.** Whatever order the proposal map and the
    responder's own map are iterated in (maps have distinct keys), the outcome is the same
    (a query reply carries the same table, as a map). -/
theorem negotiate_perm_invariant (lk : Lookup) (S S' : VMap) (P P' : RawMap)
    (hS : S'.Perm S) (hP : P'.Perm P) (hnS : (keys S).Nodup) (hnP : (keys P).Nodup) :
    SOut.sameAs (serverNegotiate lk S' P') (serverNegotiate lk S P) := by
  have hq : queryRequested lk P' = queryRequested lk P := any_perm hP _
  have hpred : (fun v => (lookupMap S' v).isSome) = (fun v => (lookupMap S v).isSome) :=
    funext fun v => by rw [lookupMap_perm hS hnS v]
  have hinter : ((keys P').filter (fun v => (lookupMap S' v).isSome)).Perm
      ((keys P).filter (fun v => (lookupMap S v).isSome)) := by
    rw [hpred]; exact (hP.map _).filter _
  have hkeys : (keys S').Perm (keys S) := hS.map _
  unfold serverNegotiate
  simp only [hq]
  by_cases hqq : queryRequested lk P = true
  · simp only [hqq, ↓reduceIte, SOut.sameAs]; exact hS
  · simp only [hqq, Bool.false_eq_true, ↓reduceIte]
    rw [hinter.isEmpty_eq]
    by_cases he : ((keys P).filter (fun v => (lookupMap S v).isSome)).isEmpty = true
    · simp only [he, ↓reduceIte, mismatch_list_order_independent S S' hkeys]
      exact SOut.sameAs_refl _
    · simp only [he, Bool.false_eq_true, ↓reduceIte]
      rw [maxOf_perm hinter, lookupMap_perm hS hnS, lookupMap_perm hP hnP]
      exact SOut.sameAs_refl _

/-- The initiator's handler does not depend on the order of its own map either. -/
theorem client_perm_invariant (lk : Lookup) (C C' : VMap) (hC : C'.Perm C) (hn : (keys C).Nodup)
    (msg : SMsg) : clientHandle lk C' msg = clientHandle lk C msg := by
  cases msg with
  | accept v data => simp only [clientHandle, clientHandleAccept, lookupMap_perm hC hn v]
  | refuse r => rfl
  | queryReply t => rfl

/-- **Permutation invariance of the whole handshake** between an initiator proposing `C` and a
    responder with `S`: both ends' outcomes are independent of the iteration order of both maps. -/
theorem handshake_perm_invariant (lk : Lookup) (C C' S S' : VMap)
    (hC : C'.Perm C) (hS : S'.Perm S) (hnC : (keys C).Nodup) (hnS : (keys S).Nodup) :
    SOut.sameAs (handshake lk C' S').1 (handshake lk C S).1 ∧
    (match (handshake lk C' S').2, (handshake lk C S).2 with
     | some a, some b => COut.sameAs a b
     | none, none => True
     | _, _ => False) := by
  have hP : (encodeMap C').Perm (encodeMap C) := hC.map _
  have hnP : (keys (encodeMap C)).Nodup := by rw [keys_encodeMap]; exact hnC
  have hs := negotiate_perm_invariant lk S S' (encodeMap C) (encodeMap C') hS hP hnS hnP
  unfold handshake
  refine ⟨hs, ?_⟩
  simp only
  generalize serverNegotiate lk S' (encodeMap C') = a at hs
  generalize serverNegotiate lk S (encodeMap C) = b at hs
  rcases SOut.sameAs_cases a b hs with ⟨t, t', rfl, rfl, hp⟩ | rfl
  · simp only [SOut.msg?, Option.map_some, clientHandle, COut.sameAs]
    unfold decodeTable encodeMap
    exact (hp.map _).filterMap _
  · cases hm : a.msg? with
    | none => simp
    | some msg =>
      simp only [Option.map_some]
      rw [client_perm_invariant lk C C' hC hnC]
      exact COut.sameAs_refl _

/-! ### delivery of the responder's reply (the defect repaired by the server `fix:`) -/

section Delivery
open GV.Model.HandshakeDelivery

theorem wire_mono (s s' : St) (a : Act) (h : step s a = some s') (m : SMsg) (hm : m ∈ s.wire) :
    m ∈ s'.wire := by
  cases a with
  | handler =>
    simp only [step] at h
    split at h
    · split at h <;> simp at h; subst h; exact hm
    · split at h <;> simp at h <;> (subst h; exact hm)
  | sendLoop =>
    simp only [step] at h
    split at h
    · simp at h
    · split at h <;> simp at h
      subst h; simp [hm]
  | loopExit =>
    simp only [step] at h
    split at h <;> simp at h
    subst h; exact hm

/-- invariant of the program `[sendWait m, returnErr]` -/
def WaitInv (m : SMsg) (s : St) : Prop :=
  (s.prog = [.sendWait m, .returnErr] ∧ s.waiting = none ∧ s.stopped = false) ∨
  (s.prog = [.returnErr] ∧ s.waiting = some m ∧ s.stopped = false) ∨
  (s.prog = [.returnErr] ∧ s.waiting = none ∧ s.stopped = false ∧ m ∈ s.wire) ∨
  (s.prog = [] ∧ s.waiting = none ∧ m ∈ s.wire)

theorem waitInv_step (m : SMsg) (s s' : St) (a : Act) (hi : WaitInv m s) (h : step s a = some s') :
    WaitInv m s' := by
  have hmono := wire_mono s s' a h m
  cases a with
  | handler =>
    rcases hi with ⟨hp, hw, hs⟩ | ⟨hp, hw, hs⟩ | ⟨hp, hw, hs, hm⟩ | ⟨hp, hw, hm⟩
    · simp only [step, hw, hp, Option.some.injEq] at h
      subst h; right; left; simp [hs]
    · simp only [step, hw] at h
      split at h <;> simp at h
      rename_i hmw
      subst h; right; right; left; simp [hp, hs, hmw]
    · simp only [step, hw, hp, Option.some.injEq] at h
      subst h; right; right; right; simp [hm]
    · simp [step, hw, hp] at h
  | sendLoop =>
    have hsame : s'.prog = s.prog ∧ s'.waiting = s.waiting ∧ s'.stopped = s.stopped := by
      simp only [step] at h
      split at h
      · simp at h
      · split at h <;> simp at h
        subst h; simp
    rcases hi with ⟨hp, hw, hs⟩ | ⟨hp, hw, hs⟩ | ⟨hp, hw, hs, hm⟩ | ⟨hp, hw, hm⟩
    · left; simp [hsame, hp, hw, hs]
    · right; left; simp [hsame, hp, hw, hs]
    · right; right; left; simp [hsame, hp, hw, hs, hmono hm]
    · right; right; right; simp [hsame, hp, hw, hmono hm]
  | loopExit =>
    have hsame : s'.prog = s.prog ∧ s'.waiting = s.waiting ∧ s'.stopped = s.stopped ∧ s'.wire = s.wire := by
      simp only [step] at h
      split at h <;> simp at h
      subst h; simp
    rcases hi with ⟨hp, hw, hs⟩ | ⟨hp, hw, hs⟩ | ⟨hp, hw, hs, hm⟩ | ⟨hp, hw, hm⟩
    · left; simp [hsame, hp, hw, hs]
    · right; left; simp [hsame, hp, hw, hs]
    · right; right; left; simp [hsame, hp, hw, hs, hm]
    · right; right; right; simp [hsame, hp, hw, hm]

theorem waitInv_run (m : SMsg) (s s' : St) (sched : List Act) (hi : WaitInv m s)
    (h : run s sched = some s') : WaitInv m s' := by
  induction sched generalizing s with
  | nil => simp only [run, Option.some.injEq] at h; subst h; exact hi
  | cons a as ih =>
    simp only [run] at h
    cases hs : step s a with
    | none => simp [hs] at h
    | some s1 => rw [hs] at h; exact ih s1 (waitInv_step m s s1 a hi hs) h

/-- **The refusal / query reply is on the wire before the protocol stops.** With the replies
    that precede an error return sent by `SendMessageAndWait` (the code after the fix), in every
    schedule of handler, send loop and send-loop exit: whenever the protocol has been stopped,
    the reply has been written. -/
theorem reply_on_wire_before_stop (so : SOut) (m : SMsg) (hm : so.msg? = some m)
    (hstop : ∀ v own peer, so ≠ .accept v own peer)
    (sched : List Act) (s : St) (h : run (init (handlerProgram true so)) sched = some s)
    (hs : s.stopped = true) : m ∈ s.wire := by
  have hinit : WaitInv m (init (handlerProgram true so)) := by
    cases so with
    | queryReply t => simp only [SOut.msg?, Option.some.injEq] at hm; subst hm; left; simp [init, handlerProgram]
    | refuse r => simp only [SOut.msg?, Option.some.injEq] at hm; subst hm; left; simp [init, handlerProgram]
    | accept v own peer => exact absurd rfl (hstop v own peer)
    | panic => simp [SOut.msg?] at hm
  rcases waitInv_run m _ s sched hinit h with ⟨_, _, h3⟩ | ⟨_, _, h3⟩ | ⟨_, _, h3, _⟩ | ⟨_, _, hw⟩
  · rw [h3] at hs; cases hs
  · rw [h3] at hs; cases hs
  · rw [h3] at hs; cases hs
  · exact hw

/-- An acceptance never stops the protocol (its reply is not in danger). -/
theorem accept_never_stops (v : Nat) (own peer : VData) (w : Bool) (sched : List Act) (s : St)
    (h : run (init (handlerProgram w (.accept v own peer))) sched = some s) : s.stopped = false := by
  have key : ∀ (s0 : St), s0.stopped = false → Instr.returnErr ∉ s0.prog →
      ∀ sched s, run s0 sched = some s → s.stopped = false := by
    intro s0 h0 hp sched
    induction sched generalizing s0 with
    | nil => intro s h; simp only [run, Option.some.injEq] at h; subst h; exact h0
    | cons a as ih =>
      intro s h
      simp only [run] at h
      cases hs : step s0 a with
      | none => simp [hs] at h
      | some s1 =>
        rw [hs] at h
        refine ih s1 ?_ ?_ s h
        · cases a <;> simp only [step] at hs
          · split at hs
            · split at hs <;> simp at hs; subst hs; exact h0
            · split at hs <;> simp at hs
              · subst hs; exact h0
              · subst hs; exact h0
              · rename_i r hpr; exact absurd (by rw [hpr]; simp) hp
              · subst hs; exact h0
          · split at hs
            · simp at hs
            · split at hs <;> simp at hs; subst hs; exact h0
          · split at hs <;> simp at hs; subst hs; exact h0
        · cases a <;> simp only [step] at hs
          · split at hs
            · split at hs <;> simp at hs; subst hs; exact hp
            · split at hs <;> simp at hs
              all_goals (first
                | (subst hs; rename_i r hpr; intro hc; apply hp; rw [hpr]; exact List.mem_cons_of_mem _ hc)
                | (rename_i r hpr; exact absurd (by rw [hpr]; simp) hp))
          · split at hs
            · simp at hs
            · split at hs <;> simp at hs; subst hs; exact hp
          · split at hs <;> simp at hs; subst hs; exact hp
  exact key _ (by simp [init]) (by simp [init, handlerProgram]) sched s h

/-- **The defect that was repaired**: with plain `SendMessage` (the code before the fix) there is
    a schedule — handler enqueues, handler returns the error, the send loop takes its stop branch —
    after which the protocol is stopped, the reply was never written and nothing can write it
    any more. -/
theorem old_code_loses_reply (so : SOut) (m : SMsg) (hm : so.msg? = some m)
    (hstop : ∀ v own peer, so ≠ .accept v own peer) :
    ∃ sched s, run (init (handlerProgram false so)) sched = some s ∧
      s.stopped = true ∧ m ∉ s.wire ∧ ∀ a, step s a = none := by
  refine ⟨[.handler, .handler, .loopExit], ?_⟩
  cases so with
  | queryReply t =>
    simp only [SOut.msg?, Option.some.injEq] at hm; subst hm
    refine ⟨{ prog := [], queue := [.queryReply (encodeMap t)], stopped := true, loopExited := true },
      rfl, rfl, by simp, ?_⟩
    intro a; cases a <;> rfl
  | refuse r =>
    simp only [SOut.msg?, Option.some.injEq] at hm; subst hm
    refine ⟨{ prog := [], queue := [.refuse r], stopped := true, loopExited := true }, rfl, rfl, by simp, ?_⟩
    intro a; cases a <;> rfl
  | accept v own peer => exact absurd rfl (hstop v own peer)
  | panic => simp [SOut.msg?] at hm

/-- Regenerated tie (go/ast of handshake/server.go on every run): every send in
    `handleProposeVersions` that is followed by an error return uses `SendMessageAndWait`; there are
    six of them (query reply and five refusals) and the acceptance is the only plain send. -/
theorem server_waits_before_stopping :
    (∀ e ∈ GV.Gen.HandshakeSends.serverSends, e.2.2 = true → e.2.1 = "SendMessageAndWait") ∧
    (GV.Gen.HandshakeSends.serverSends.filter (fun e => e.2.2)).length = 6 ∧
    (GV.Gen.HandshakeSends.serverSends.filter (fun e => !e.2.2)).map (·.1) = ["msgAcceptVersion"] ∧
    (GV.Gen.HandshakeSends.serverSends.filter (fun e => e.1 == "msgQueryReply")).length = 1 := by
  decide

end Delivery

/-- Non-vacuity on the regenerated tables: two NtN endpoints with overlapping subsets agree on 13. -/
example :
    let lk := GV.Lib.VersionTable.lk
    let C : VMap := [(11, genEntry .ntn11 7 true false false), (13, genEntry .ntn13 7 true false false)]
    let S : VMap := [(14, genEntry .ntn13 7 false true false), (13, genEntry .ntn13 7 false true false),
                     (12, genEntry .ntn11 7 false true false)]
    handshake lk C S =
      (.accept 13 (genEntry .ntn13 7 false true false) (genEntry .ntn13 7 true false false),
       some (.finished 13 (genEntry .ntn13 7 false true false))) := by decide

/-- Non-vacuity: disjoint tables are refused with the sorted list. -/
example :
    (handshake GV.Lib.VersionTable.lk [(7, genEntry .ntn7 7 true false false)]
      [(9, genEntry .ntn7 7 true false false), (8, genEntry .ntn7 7 true false false)]).2
      = some (.refusedErr (.versionMismatch [8, 9])) := by decide

end GV.Props.C18
