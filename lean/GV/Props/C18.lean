import GV.Model.Handshake
import GV.Proofs.Handshake
import GV.Lib.VersionTable
/-!
C18 — Version negotiation agrees on the best common version.

When two endpoints handshake, either both finish with the same protocol version, which is the
highest version both offered and whose network magic matches, or the responder refuses and the
initiator reports the refusal. A version-mismatch refusal lists the responder's versions in
ascending order, and a query-mode handshake returns the responder's table without selecting a
version.

`serverNegotiate` mirrors `handshake.Server.handleProposeVersions`, `clientHandle` the client's
message handler; Go maps are lists in arbitrary order and every statement is for all orders.
-/
namespace GV.Props.C18
open GV.Model.VersionData GV.Model.Handshake GV.Proofs.Handshake GV.Proofs.VersionData

/-- The accepted version is offered by both sides, is the greatest such version, the responder
    answers with its own entry for it, and the initiator's data for it (decoded with that version's
    decoder) carries the same network magic. For every decoder table, responder table and every
    proposal map (arbitrary bytes, arbitrary order). -/
theorem accept_is_max_common (lk : Lookup) (S : VMap) (P : RawMap) (v : Nat) (own peer : VData)
    (h : serverNegotiate lk S P = .accept v own peer) :
    v ∈ keys S ∧ v ∈ keys P ∧ (∀ w, w ∈ keys S → w ∈ keys P → w ≤ v) ∧
    lookupMap S v = some own ∧ peer.networkMagic = own.networkMagic ∧
    ∃ k, lk v = some k ∧ (lookupMap P v).bind (decode k) = some peer := by
  unfold serverNegotiate at h
  by_cases hq : queryRequested lk P = true
  · simp [hq] at h
  · simp only [hq, Bool.false_eq_true, ↓reduceIte] at h
    generalize hi : (keys P).filter (fun v => (lookupMap S v).isSome) = inter at h
    by_cases he : inter.isEmpty = true
    · simp [he] at h
    · simp only [he, Bool.false_eq_true, ↓reduceIte] at h
      have hne : inter ≠ [] := by
        intro hn; apply he; simp [hn]
      have hmem : maxOf inter ∈ inter := maxOf_mem inter hne
      have hge := maxOf_ge inter
      cases hs : lookupMap S (maxOf inter) with
      | none => simp [hs] at h
      | some own0 =>
        cases hk : lk (maxOf inter) with
        | none => simp [hs, hk] at h
        | some k =>
          cases hd : (lookupMap P (maxOf inter)).bind (decode k) with
          | none => simp [hs, hk, hd] at h
          | some peer0 =>
            simp only [hs, hk, hd] at h
            by_cases hm : peer0.networkMagic = own0.networkMagic
            · simp only [hm, ne_eq, not_true_eq_false, ↓reduceIte, SOut.accept.injEq] at h
              obtain ⟨hv, ho, hp⟩ := h
              subst hv; subst ho; subst hp
              have hmem' := List.mem_filter.mp (show maxOf inter ∈ (keys P).filter _ by rw [hi]; exact hmem)
              refine ⟨(lookupMap_isSome_iff S _).mp hmem'.2, hmem'.1, ?_, hs, hm, k, hk, hd⟩
              intro w hwS hwP
              apply hge w
              rw [← hi]
              exact List.mem_filter.mpr ⟨hwP, (lookupMap_isSome_iff S w).mpr hwS⟩
            · simp [hm] at h

/-- A version-mismatch refusal happens only when no proposed version is known to the responder,
    and lists exactly the responder's versions in ascending order. -/
theorem mismatch_sorted (lk : Lookup) (S : VMap) (P : RawMap) (l : List Nat)
    (h : serverNegotiate lk S P = .refuse (.versionMismatch l)) :
    l.Pairwise (· ≤ ·) ∧ l.Perm (keys S) ∧ ∀ v ∈ keys P, v ∉ keys S := by
  unfold serverNegotiate at h
  by_cases hq : queryRequested lk P = true
  · simp [hq] at h
  · simp only [hq, Bool.false_eq_true, ↓reduceIte] at h
    generalize hi : (keys P).filter (fun v => (lookupMap S v).isSome) = inter at h
    by_cases he : inter.isEmpty = true
    · simp only [he, ↓reduceIte, SOut.refuse.injEq, Refuse.versionMismatch.injEq] at h
      subst h
      refine ⟨?_, ?_, ?_⟩
      · exact sortAsc_pairwise _
      · exact sortAsc_perm _
      · intro v hvP hvS
        have : v ∈ inter := by
          rw [← hi]; exact List.mem_filter.mpr ⟨hvP, (lookupMap_isSome_iff S v).mpr hvS⟩
        have hnil : inter = [] := by simpa using he
        simp [hnil] at this
    · simp only [he, Bool.false_eq_true, ↓reduceIte] at h
      cases hs : lookupMap S (maxOf inter) with
      | none => simp [hs] at h
      | some own0 =>
        cases hk : lk (maxOf inter) with
        | none => simp [hs, hk] at h
        | some k =>
          cases hd : (lookupMap P (maxOf inter)).bind (decode k) with
          | none => simp [hs, hk, hd] at h
          | some peer0 =>
            simp only [hs, hk, hd] at h
            split at h <;> simp at h

/-- The listed versions do not depend on the iteration order of the responder's map. -/
theorem mismatch_list_order_independent (S S' : VMap) (hp : (keys S').Perm (keys S)) :
    sortAsc (keys S') = sortAsc (keys S) := by
  apply List.Perm.eq_of_pairwise (le := fun a b => a ≤ b)
  · intro a b _ _ hab hba; omega
  · exact sortAsc_pairwise _
  · exact sortAsc_pairwise _
  · exact ((sortAsc_perm _).trans hp).trans (sortAsc_perm _).symm

/-- Query mode: if some proposed entry decodes to data with the query flag, the responder answers
    with its whole table and selects nothing (the outcome is not an acceptance), whatever else
    was proposed. -/
theorem query_returns_table (lk : Lookup) (S : VMap) (P : RawMap) (hq : queryRequested lk P = true) :
    serverNegotiate lk S P = .queryReply S ∧
    (serverNegotiate lk S P).msg? = some (.queryReply (encodeMap S)) ∧
    ∀ C, ∃ t, clientHandle lk C (.queryReply (encodeMap S)) = .queryDone t := by
  unfold serverNegotiate
  simp only [hq, ↓reduceIte, SOut.msg?, true_and]
  intro C; exact ⟨_, rfl⟩

/-- A table is honest w.r.t. the decoder table when every entry is well formed and of the Go type
    its version's decoder produces (true of every generated table: `GV.Props.C20.generated_honest`). -/
def Honest (lk : Lookup) (m : VMap) : Prop := ∀ p ∈ m, lk p.1 = some p.2.kind ∧ p.2.wf

/-- The initiator decodes the responder's query reply back to the responder's table. -/
theorem query_table_roundtrip (lk : Lookup) (S : VMap) (hS : Honest lk S) :
    decodeTable lk (encodeMap S) = S := by
  unfold decodeTable encodeMap
  induction S with
  | nil => rfl
  | cons p t ih =>
    have hp := hS p (by simp)
    have ht : Honest lk t := fun q hq => hS q (by simp [hq])
    have hd := decode_encode p.2 hp.2 []
    simp only [List.append_nil] at hd
    simp only [List.map_cons, List.filterMap_cons, hp.1, hd, Option.map_some]
    rw [ih ht]

/-- **Both sides agree.** Between an honest initiator proposing `C` and an honest responder with
    table `S`: if the responder accepts `v`, the initiator finishes with the same `v` (and the
    responder's data for it). -/
theorem both_agree_fwd (lk : Lookup) (C S : VMap) (hC : Honest lk C) (hS : Honest lk S)
    (v : Nat) (own peer : VData) (h : (handshake lk C S).1 = .accept v own peer) :
    (handshake lk C S).2 = some (.finished v own) := by
  unfold handshake at h ⊢
  simp only at h ⊢
  obtain ⟨hvS, hvP, _, hown, hmagic, k, hk, hdec⟩ := accept_is_max_common lk S (encodeMap C) v own peer h
  rw [h]
  simp only [SOut.msg?, Option.map_some, clientHandle, Option.some.injEq]
  -- the initiator's own entry
  rw [lookupMap_encodeMap] at hdec
  cases hc : lookupMap C v with
  | none => simp [hc] at hdec
  | some c =>
    have hcm := hC (v, c) (lookupMap_some_mem hc)
    have hsm := hS (v, own) (lookupMap_some_mem hown)
    simp only at hcm hsm
    have hkc : k = c.kind := by rw [hk] at hcm; exact Option.some.inj hcm.1
    have hko : k = own.kind := by rw [hk] at hsm; exact Option.some.inj hsm.1
    have hpeer : peer = c := by
      simp only [hc, Option.map_some, Option.bind_some] at hdec
      have := decode_encode c hcm.2 []
      simp only [List.append_nil] at this
      rw [hkc, this] at hdec
      exact (Option.some.inj hdec).symm
    have hown_dec : decode k (encode own) = some own := by
      have := decode_encode own hsm.2 []
      simp only [List.append_nil] at this
      rw [hko]; exact this
    unfold clientHandleAccept
    simp only [hc, hk, hown_dec]
    have : own.networkMagic = c.networkMagic := by rw [← hpeer]; exact hmagic.symm
    simp [this]

/-- Conversely the initiator finishes only with a version the responder accepted. -/
theorem both_agree_bwd (lk : Lookup) (C S : VMap) (v : Nat) (d : VData)
    (h : (handshake lk C S).2 = some (.finished v d)) :
    ∃ own peer, (handshake lk C S).1 = .accept v own peer := by
  unfold handshake at h ⊢
  simp only at h ⊢
  cases hs : serverNegotiate lk S (encodeMap C) with
  | queryReply t => simp [hs, SOut.msg?, clientHandle] at h
  | refuse r => simp [hs, SOut.msg?, clientHandle] at h
  | panic => simp [hs, SOut.msg?] at h
  | accept v0 own peer =>
    simp only [hs, SOut.msg?, Option.map_some, clientHandle, Option.some.injEq] at h
    have : v0 = v := by
      unfold clientHandleAccept at h
      split at h <;> try simp at h
      split at h <;> try simp at h
      split at h <;> try simp at h
      split at h <;> simp at h
      exact h.1
    subst this
    exact ⟨own, peer, rfl⟩

/-- Refusals are reported: whatever refusal the responder sends is what the initiator's handler
    returns as its (typed) error. -/
theorem refusal_reported (lk : Lookup) (C S : VMap) (r : Refuse)
    (h : (handshake lk C S).1 = .refuse r) : (handshake lk C S).2 = some (.refusedErr r) := by
  unfold handshake at h ⊢
  simp only at h ⊢
  rw [h]; rfl

/-- Non-vacuity on the regenerated tables: two NtN endpoints with overlapping subsets agree on 13. -/
example :
    let lk := GV.Lib.VersionTable.lk
    let C : VMap := [(11, genEntry .ntn11 7 true false false), (13, genEntry .ntn13 7 true false false)]
    let S : VMap := [(14, genEntry .ntn13 7 false true false), (13, genEntry .ntn13 7 false true false),
                     (12, genEntry .ntn11 7 false true false)]
    handshake lk C S =
      (.accept 13 (genEntry .ntn13 7 false true false) (genEntry .ntn13 7 true false false),
       some (.finished 13 (genEntry .ntn13 7 false true false))) := by decide

/-- Non-vacuity: disjoint tables are refused with the sorted list. -/
example :
    (handshake GV.Lib.VersionTable.lk [(7, genEntry .ntn7 7 true false false)]
      [(9, genEntry .ntn7 7 true false false), (8, genEntry .ntn7 7 true false false)]).2
      = some (.refusedErr (.versionMismatch [8, 9])) := by decide

end GV.Props.C18
